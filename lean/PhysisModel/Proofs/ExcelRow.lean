import PhysisModel.Proofs.ExcelRecord
/-!
C05 helper lemmas, part 4: reading all sub-rows of a row chunk, and locating the chunk through the
index of `encodeExd`.
-/
namespace Physis.Proofs.Excel
open Physis Physis.ParserBE Physis.Spec.Excel Physis.Exh Physis.Exd

theorem idPrefix_length (s : Schema) (i : Nat) : (idPrefix s i).length = if s.subrows then 2 else 0 := by
  unfold idPrefix; split <;> simp

theorem encodeSubs_length (s : Schema) : ∀ (rest : List (List Cell)) (i hp : Nat),
    (encodeSubs s rest i hp).length = rest.length * recSize s
  | [], _, _ => by simp [encodeSubs]
  | cells :: rest, i, hp => by
    simp only [encodeSubs, List.length_append, idPrefix_length, fixedRegion_length,
      encodeSubs_length s rest, List.length_cons, recSize, Nat.succ_mul]
    omega

theorem subrowRel_toNat (D : UInt16) (i : Nat) (hi : i ≤ 65534) :
    (subrowRel D i).toNat = i * D.toNat + 2 * (i + 1) := by
  have hD : D.toNat < 65536 := D.toNat_lt
  have hm : i * D.toNat ≤ 65534 * 65535 := Nat.mul_le_mul hi (by omega)
  have e1 : (UInt32.ofNat i).toNat = i := by
    rw [UInt32.toNat_ofNat']; exact Nat.mod_eq_of_lt (by omega)
  have e2 : (UInt32.ofNat i + 1).toNat = i + 1 := by
    rw [UInt32.toNat_add, e1]; exact Nat.mod_eq_of_lt (by simp; omega)
  have e3 : (2 * (UInt32.ofNat i + 1)).toNat = 2 * (i + 1) := by
    rw [UInt32.toNat_mul, e2]; exact Nat.mod_eq_of_lt (by simp; omega)
  have e4 : (UInt32.ofNat i * D.toUInt32).toNat = i * D.toNat := by
    rw [UInt32.toNat_mul, e1, UInt16.toNat_toUInt32]; exact Nat.mod_eq_of_lt (by omega)
  unfold subrowRel
  rw [UInt32.toNat_add, e3, e4]
  exact Nat.mod_eq_of_lt (by omega)

theorem readSubRows_correct (s : Schema) (hs : WFschema s) (hsub : s.subrows = true) (file : Bytes)
    (hsmall : file.length < 4294967296) (hdrOff : UInt32) :
    ∀ (rest : List (List Cell)) (i hp : Nat) (P H0 T : Bytes),
      file = P ++ (encodeSubs s rest i hp ++ (H0 ++ (heapOf rest.flatten ++ T))) →
      P.length = hdrOff.toNat + i * recSize s → H0.length = hp → i + rest.length ≤ 65535 →
      (∀ cells ∈ rest, typed s.columns cells = true ∧ ∀ c ∈ cells, nulFree c = true) →
      readSubRows file (toExh s) hdrOff rest.length i = .ok (rest.map (·.map toData))
  | [], _, _, _, _, _, _, _, _, _, _ => rfl
  | cells :: rest, i, hp, P, H0, T, hfile, hP, hH0, hi, hwf => by
    have hrec : recSize s = 2 + s.dataOffset.toNat := by simp [recSize, hsub]
    have hidl : (idPrefix s i).length = 2 := by rw [idPrefix_length, hsub]; rfl
    obtain ⟨htyped, hnul⟩ := hwf cells (List.mem_cons_self ..)
    simp only [List.length_cons] at hi
    have hrel := subrowRel_toNat s.dataOffset i (by omega)
    -- the file, seen from this record
    have hfile' : file = (P ++ idPrefix s i) ++
        (fixedRegion s.dataOffset.toNat (mkItems s.columns cells (rest.length * recSize s + hp))
          ++ (encodeSubs s rest (i + 1) (hp + (heapOf cells).length)
            ++ (H0 ++ (heapOf cells ++ (heapOf rest.flatten ++ T))))) := by
      rw [hfile]
      simp only [encodeSubs, List.flatten_cons, heapOf_append, List.append_assoc]
    have hflen := congrArg List.length hfile'
    simp only [List.length_append, fixedRegion_length, hidl, encodeSubs_length] at hflen
    have hmul : i * recSize s = i * s.dataOffset.toNat + 2 * i := by
      rw [hrec, Nat.mul_add]; omega
    have hadd := addU32_ok hdrOff (subrowRel s.dataOffset i) (by omega)
    have hA : (P ++ idPrefix s i).length = (hdrOff + subrowRel s.dataOffset i).toNat := by
      rw [hadd.2, List.length_append, hidl, hP, hrel]; omega
    have hcols := readCols_of_layout s hs file hsmall cells htyped hnul (P ++ idPrefix s i)
      (encodeSubs s rest (i + 1) (hp + (heapOf cells).length)) H0 (heapOf rest.flatten ++ T)
      (rest.length * recSize s + hp) (hdrOff + subrowRel s.dataOffset i) hfile' hA
      (by rw [encodeSubs_length, hH0])
    have ih := readSubRows_correct s hs hsub file hsmall hdrOff rest (i + 1) (hp + (heapOf cells).length)
      ((P ++ idPrefix s i) ++ fixedRegion s.dataOffset.toNat
        (mkItems s.columns cells (rest.length * recSize s + hp)))
      (H0 ++ heapOf cells) T
      (by rw [hfile']; simp only [List.append_assoc])
      (by simp only [List.length_append, fixedRegion_length, hidl, hP, Nat.succ_mul, hrec]; omega)
      (by rw [List.length_append, hH0]) (by omega)
      (fun c hc => hwf c (List.mem_cons_of_mem _ hc))
    have p1 : (toExh s).header.dataOffset = s.dataOffset := rfl
    have p2 : (toExh s).columnDefinitions = s.columns.map toModelCol := rfl
    simp only [List.length_cons, readSubRows, bind, Except.bind, p1, p2, hadd.1, hcols, ih,
      pure, Except.pure, List.map_cons]

end Physis.Proofs.Excel

namespace Physis.Proofs.Excel
open Physis Physis.ParserBE Physis.Spec.Excel Physis.Exh Physis.Exd

theorem rawU32_at (A B : Bytes) (v : UInt32) (pos : Nat) (h : A.length = pos) :
    rawU32 (A ++ (putU32be v ++ B)) pos = some v := by
  have := readAt_exact A (putU32be v) B
  rw [h, putU32be_length] at this
  simp only [rawU32, this, Option.bind, getU32be_put]

theorem rawU16_at (A B : Bytes) (v : UInt16) (pos : Nat) (h : A.length = pos) :
    rawU16 (A ++ (putU16be v ++ B)) pos = some v := by
  have := readAt_exact A (putU16be v) B
  rw [h, putU16be_length] at this
  simp only [rawU16, this, Option.bind, getU16be_put]

/-- reading the row chunk `encodeRow s r` found at offset `off` returns the row's sub-rows, unless
`r` is a single-sub-row row of a sub-row sheet (open finding `exd.single-subrow`) -/
theorem readRowAt_correct (s : Schema) (hs : WFschema s) (r : Row) (hr : WFrow s r)
    (hns : singleSubrow s r = false) (file A C : Bytes) (off : UInt32)
    (hfile : file = A ++ (encodeRow s r ++ C)) (hA : A.length = off.toNat)
    (hsmall : file.length < 4294967296) :
    readRowAt file (toExh s) off = .ok (r.subs.map (·.map toData)) := by
  obtain ⟨h1, h2, hdef, hcells⟩ := hr
  have hfile1 : file = A ++ (putU32be (UInt32.ofNat (rowPayload s r).length) ++
      (putU16be (UInt16.ofNat r.subs.length) ++ (rowPayload s r ++ C))) := by
    rw [hfile]; simp only [encodeRow, List.append_assoc]
  have hfile2 : file = (A ++ putU32be (UInt32.ofNat (rowPayload s r).length)) ++
      (putU16be (UInt16.ofNat r.subs.length) ++ (rowPayload s r ++ C)) := by
    rw [hfile1]; simp only [List.append_assoc]
  have hflen := congrArg List.length hfile1
  simp only [List.length_append, putU32be_length, putU16be_length] at hflen
  have r1 : rawU32 file off.toNat = some (UInt32.ofNat (rowPayload s r).length) := by
    rw [hfile1]; exact rawU32_at _ _ _ _ hA
  have r2 : rawU16 file (off.toNat + 4) = some (UInt16.ofNat r.subs.length) := by
    rw [hfile2]; exact rawU16_at _ _ _ _ (by rw [List.length_append, putU32be_length, hA])
  have hadd := addU32_ok off 6 (by simp; omega)
  have h6 : (off + 6).toNat = off.toNat + 6 := hadd.2
  have hcnt : (UInt16.ofNat r.subs.length).toNat = r.subs.length := toNat_ofNat16 h2
  have hP : (A ++ (putU32be (UInt32.ofNat (rowPayload s r).length)
      ++ putU16be (UInt16.ofNat r.subs.length))).length = (off + 6).toNat := by
    simp only [List.length_append, putU32be_length, putU16be_length, hA, h6]
  have p1 : (toExh s).header.dataOffset = s.dataOffset := rfl
  have p2 : (toExh s).columnDefinitions = s.columns.map toModelCol := rfl
  simp only [readRowAt, r1, r2, bind, Except.bind, hadd.1]
  cases hsub : s.subrows with
  | false =>
    have hlen := hdef hsub
    have hgt : ¬ (UInt16.ofNat r.subs.length > 1) := by
      rw [hlen]; decide
    rw [if_neg hgt]
    match hsubs : r.subs, hlen with
    | [cells], _ =>
      obtain ⟨htyped, hnul⟩ := hcells cells (by rw [hsubs]; exact List.mem_cons_self ..)
      have hidp : idPrefix s 0 = [] := by simp [idPrefix, hsub]
      have hfile3 : file = (A ++ (putU32be (UInt32.ofNat (rowPayload s r).length)
            ++ putU16be (UInt16.ofNat r.subs.length))) ++
          (fixedRegion s.dataOffset.toNat (mkItems s.columns cells 0)
            ++ ([] ++ ([] ++ (heapOf cells ++ C)))) := by
        rw [hfile1]
        simp only [rowPayload, hsubs, encodeSubs, hidp, List.flatten_cons, List.flatten_nil,
          List.append_nil, List.nil_append, List.append_assoc, List.length_nil, Nat.zero_mul,
          Nat.add_zero]
      have := readCols_of_layout s hs file hsmall cells htyped hnul _ [] [] C 0 (off + 6) hfile3 hP rfl
      simp only [p1, p2, this, pure, Except.pure, List.map_cons, List.map_nil]
  | true =>
    have hne : r.subs.length ≠ 1 := by
      simpa [singleSubrow, hsub] using hns
    have hgt : UInt16.ofNat r.subs.length > 1 := by
      show (1 : UInt16) < UInt16.ofNat r.subs.length
      rw [UInt16.lt_iff_toNat_lt, hcnt]
      show 1 < r.subs.length
      omega
    rw [if_pos hgt, hcnt]
    have hfile3 : file = (A ++ (putU32be (UInt32.ofNat (rowPayload s r).length)
          ++ putU16be (UInt16.ofNat r.subs.length))) ++
        (encodeSubs s r.subs 0 0 ++ ([] ++ (heapOf r.subs.flatten ++ C))) := by
      rw [hfile1]; simp only [rowPayload, List.append_assoc, List.nil_append]
    exact readSubRows_correct s hs hsub file hsmall (off + 6) r.subs 0 0 _ [] C hfile3
      (by rw [hP]; omega) rfl (by omega) hcells

end Physis.Proofs.Excel
