import PhysisModel.Proofs.Dat
/-!
# Texture entries with filler between the mip chains (C02)

`readFromOffset_texture` (Proofs/Dat.lean) walks the LOD records under the invariant "the chain of
LOD i starts at the running sum of the chains before it".  The reader does not use a running
position across LODs: it restarts at `lods[i].compressed_offset`.  Here the invariant is "the
chain of LOD i starts where its record says", for a body `g₀ ++ chain₀ ++ g₁ ++ chain₁ ++ …`
with arbitrary filler `gᵢ` (`Spec.gappedBody`, records `Spec.lodTableG`).
-/
namespace Physis.Dat
open Physis Physis.Reader Physis.Spec.SqPackData

/-- the LOD records `lodTableG` stores -/
def lodsFromG : Nat → Nat → List (Bytes × List Block) → List TextureLodBlock
  | _, _, [] => []
  | off, idx, (g, m) :: ms =>
    { compressedOffset := (off + g.length).toUInt32, compressedSize := (encodeBlocks m).length.toUInt32,
      decompressedSize := (contents m).length.toUInt32, blockOffset := idx.toUInt32,
      blockCount := m.length.toUInt32 } ::
      lodsFromG (off + g.length + (encodeBlocks m).length) (idx + m.length) ms

theorem readLods_tableG (gm : List (Bytes × List Block)) (off idx : Nat) (rest : Bytes) :
    readLods gm.length (lodTableG off idx gm ++ rest) = some (lodsFromG off idx gm, rest) := by
  induction gm generalizing off idx with
  | nil => rfl
  | cons p ms ih =>
    obtain ⟨g, m⟩ := p
    simp only [List.length_cons, readLods, lodTableG, List.append_assoc, readLod, u32le_put,
      Option.bind_eq_bind, Option.bind_some, ih, lodsFromG]

theorem lodTableG_length (gm : List (Bytes × List Block)) (off idx : Nat) :
    (lodTableG off idx gm).length = 20 * gm.length := by
  induction gm generalizing off idx with
  | nil => rfl
  | cons p ms ih =>
    obtain ⟨g, m⟩ := p
    simp only [lodTableG, List.length_append, putU32le_length, ih, List.length_cons]; omega

theorem gappedBody_cons (g : Bytes) (m : List Block) (ms : List (Bytes × List Block)) :
    gappedBody ((g, m) :: ms) = g ++ encodeBlocks m ++ gappedBody ms := rfl

/-- the LOD walk over a gapped body: every chain is found at the offset its record carries -/
theorem readAllLodsG_ok (inflate : Inflate) (whole : Bytes) (start : Nat) :
    ∀ (gm : List (Bytes × List Block)) (off idx : Nat) (T suf : Bytes),
      (∀ b ∈ (gm.map Prod.snd).flatten, b.wf = true ∧ Deflated inflate b) →
      whole.drop (start + off) = gappedBody gm ++ suf →
      off + (gappedBody gm).length < 2147483648 →
      start + off + (gappedBody gm).length < 18446744073709551616 →
      readAllLods inflate whole start (lodsFromG off idx gm) (sizeTable (gm.map Prod.snd).flatten ++ T) =
        some (some (contents (gm.map Prod.snd).flatten)) := by
  intro gm
  induction gm with
  | nil => intros; rfl
  | cons p ms ih =>
    obtain ⟨g, m⟩ := p
    intro off idx T suf hb hw h31 h64
    simp only [List.map_cons, List.flatten_cons] at hb ⊢
    rw [gappedBody_cons, List.append_assoc, List.append_assoc] at hw
    rw [gappedBody_cons, List.length_append, List.length_append] at h31 h64
    have hge := encLen_ge m
    have hcount : m.length.toUInt32.toNat = m.length := toUInt32_toNat _ (by omega)
    have hoff : (off + g.length).toUInt32.toNat = off + g.length := toUInt32_toNat _ (by omega)
    -- behind the filler `g` sits the chain of this LOD
    have hw1 : whole.drop (start + off + g.length) = encodeBlocks m ++ (gappedBody ms ++ suf) :=
      drop_add_of_drop hw
    have hw' : whole.drop (off + g.length + start) = encodeBlocks m ++ (gappedBody ms ++ suf) := by
      rw [show off + g.length + start = start + off + g.length by omega]; exact hw1
    have hlod := readLodBlocks_ok inflate whole m (off + g.length + start)
      (sizeTable (ms.map Prod.snd).flatten ++ T) _
      (fun b hb' => hb b (by simp [hb'])) hw' (by omega)
    have hnext : whole.drop (start + (off + g.length + (encodeBlocks m).length)) = gappedBody ms ++ suf := by
      have := drop_add_of_drop hw1
      rw [show start + (off + g.length + (encodeBlocks m).length) =
        start + off + g.length + (encodeBlocks m).length by omega]
      exact this
    have ih' := ih (off + g.length + (encodeBlocks m).length) (idx + m.length) T suf
      (fun b hb' => hb b (by simp [hb'])) hnext (by omega) (by omega)
    simp only [lodsFromG, readAllLods, hcount, hoff, sizeTable_append, List.append_assoc, hlod, ih',
      contents_append]

/-! ### `withGaps` -/

theorem zipIdx_map_snd (f : Nat → Bytes) (ms : List (List Block)) (k : Nat) :
    ((ms.zipIdx k).map (fun p => (f p.2, p.1))).map Prod.snd = ms := by
  induction ms generalizing k with
  | nil => rfl
  | cons m ms ih => simp only [List.zipIdx_cons, List.map_cons, ih]

theorem withGaps_map_snd (mips : List (List Block)) (gaps : List Bytes) :
    (withGaps mips gaps).map Prod.snd = mips := by
  cases mips with
  | nil => rfl
  | cons m ms =>
    simp only [withGaps, List.map_cons]
    exact congrArg _ (zipIdx_map_snd (fun i => gaps.getD i []) ms 0)

theorem withGaps_length (mips : List (List Block)) (gaps : List Bytes) :
    (withGaps mips gaps).length = mips.length := by
  have := congrArg List.length (withGaps_map_snd mips gaps)
  simpa using this

/-- without filler the gapped layout is the plain one -/
theorem lodTableG_nogap (gm : List (Bytes × List Block)) (h : ∀ p ∈ gm, p.1 = []) (off idx : Nat) :
    lodTableG off idx gm = lodTable off idx (gm.map Prod.snd) := by
  induction gm generalizing off idx with
  | nil => rfl
  | cons p ms ih =>
    obtain ⟨g, m⟩ := p
    have hg : g = [] := h (g, m) (by simp)
    subst hg
    simp only [lodTableG, List.map_cons, lodTable, List.length_nil, Nat.add_zero,
      ih (fun p hp => h p (by simp [hp]))]

theorem gappedBody_nogap (gm : List (Bytes × List Block)) (h : ∀ p ∈ gm, p.1 = []) :
    gappedBody gm = encodeBlocks (gm.map Prod.snd).flatten := by
  induction gm with
  | nil => rfl
  | cons p ms ih =>
    obtain ⟨g, m⟩ := p
    have hg : g = [] := h (g, m) (by simp)
    subst hg
    simp only [gappedBody_cons, List.nil_append, List.map_cons, List.flatten_cons, encodeBlocks_append,
      ih (fun p hp => h p (by simp [hp]))]

theorem withGaps_nil_nogap (mips : List (List Block)) : ∀ p ∈ withGaps mips [], p.1 = [] := by
  cases mips with
  | nil => intro p hp; cases hp
  | cons m ms =>
    intro p hp
    simp only [withGaps, List.mem_cons] at hp
    rcases hp with rfl | hp
    · rfl
    · simp only [List.mem_map] at hp
      obtain ⟨⟨x, i⟩, _, rfl⟩ := hp
      simp

theorem packTextureG_nil (hdr : Bytes) (mips : List (List Block)) :
    packTextureG hdr mips [] = packTexture hdr mips := by
  simp only [packTextureG, packTexture, textureHeader,
    lodTableG_nogap _ (withGaps_nil_nogap mips), gappedBody_nogap _ (withGaps_nil_nogap mips),
    withGaps_map_snd]

theorem textureGWf_nil (hdr : Bytes) (mips : List (List Block)) :
    textureGWf hdr mips [] = textureWf hdr mips := by
  simp only [textureGWf, gappedBody_nogap _ (withGaps_nil_nogap mips), withGaps_map_snd, textureWf,
    Bool.and_assoc, Bool.and_self]

/-! ### the gapped entry -/

theorem packTextureG_eq (hdr : Bytes) (mips : List (List Block)) (gaps : List Bytes) (rest : Bytes) :
    packTextureG hdr mips gaps ++ rest =
      putU32le (textureHeaderLen mips + pad128 (textureHeaderLen mips)).toUInt32 ++
      (putU32le 4 ++ (putU32le (hdr.length + (contents mips.flatten).length).toUInt32 ++
      (putU32le 0 ++ (putU32le 0 ++ (putU32le mips.length.toUInt32 ++
      (lodTableG hdr.length 0 (withGaps mips gaps) ++
      (sizeTable mips.flatten ++ (zeros (pad128 (textureHeaderLen mips)) ++
      (hdr ++ (gappedBody (withGaps mips gaps) ++ rest)))))))))) := by
  simp only [packTextureG, align128, List.append_assoc, List.length_append, putU32le_length,
    lodTableG_length, withGaps_length, sizeTable_length, textureHeaderLen]
  have : 4 + (4 + (4 + (4 + (4 + (4 + (20 * mips.length + 2 * mips.flatten.length)))))) =
      24 + 20 * mips.length + 2 * mips.flatten.length := by omega
  rw [this]

theorem packTextureG_length (hdr : Bytes) (mips : List (List Block)) (gaps : List Bytes) :
    (packTextureG hdr mips gaps).length =
      textureHeaderLen mips + pad128 (textureHeaderLen mips) + hdr.length +
        (gappedBody (withGaps mips gaps)).length := by
  have := congrArg List.length (packTextureG_eq hdr mips gaps [])
  simp only [List.append_nil, List.length_append, putU32le_length, lodTableG_length, withGaps_length,
    sizeTable_length, zeros_length, textureHeaderLen] at this ⊢
  omega

theorem readFromOffset_textureG (inflate : Inflate) (hdr : Bytes) (mips : List (List Block))
    (gaps : List Bytes)
    (hwf : textureGWf hdr mips gaps = true) (hd : ∀ b ∈ mips.flatten, Deflated inflate b) (pre suf : Bytes)
    (hsz : pre.length + (packTextureG hdr mips gaps).length < 18446744073709551616) :
    readFromOffset inflate (pre ++ packTextureG hdr mips gaps ++ suf) pre.length =
      some (some (hdr ++ contents mips.flatten)) := by
  simp only [textureGWf, textureWf, Bool.and_eq_true, List.all_eq_true, decide_eq_true_eq] at hwf
  obtain ⟨⟨⟨hbs, hne⟩, _⟩, hbound⟩ := hwf
  have hpad := pad128_lt (textureHeaderLen mips)
  have hlen := packTextureG_length hdr mips gaps
  generalize hgm : withGaps mips gaps = gm at hbound hlen
  have hsnd : gm.map Prod.snd = mips := by rw [← hgm]; exact withGaps_map_snd mips gaps
  generalize hH : textureHeaderLen mips + pad128 (textureHeaderLen mips) = H at hlen
  generalize hW : pre ++ packTextureG hdr mips gaps ++ suf = whole
  have hdrop : whole.drop pre.length = packTextureG hdr mips gaps ++ suf := by
    rw [← hW, List.append_assoc, List.drop_left]
  have hmips : mips.length ≤ textureHeaderLen mips := by simp [textureHeaderLen]; omega
  have hfi : readFileInfo (whole.drop pre.length) =
      some ({ size := H.toUInt32,
              fileSize := (hdr.length + (contents mips.flatten).length).toUInt32,
              info := .texture mips.length.toUInt32 (lodsFromG hdr.length 0 gm) },
            sizeTable mips.flatten ++ (zeros (pad128 (textureHeaderLen mips)) ++
              (hdr ++ (gappedBody gm ++ suf)))) := by
    rw [hdrop, packTextureG_eq, hgm, hH]
    have h41 : ((4 : UInt32) == 1) = false := by decide
    have h42 : ((4 : UInt32) == 2) = false := by decide
    have h43 : ((4 : UInt32) == 3) = false := by decide
    have h44 : ((4 : UInt32) == 4) = true := by decide
    have hrl : ∀ rest, readLods mips.length (lodTableG hdr.length 0 gm ++ rest) =
        some (lodsFromG hdr.length 0 gm, rest) := by
      intro rest
      rw [show mips.length = gm.length by rw [← hsnd, List.length_map]]
      exact readLods_tableG gm _ _ rest
    simp only [readFileInfo, u32le_put, Option.bind_eq_bind, Option.bind_some, h41, h42, h43, h44,
      Bool.false_eq_true, if_false, if_true, skip8_u32,
      toUInt32_toNat mips.length (by omega), hrl]
  have hs : H.toUInt32.toNat = H := toUInt32_toNat _ (by omega)
  -- the bytes behind the fixed part: texture header, then the gapped body
  have hstart : whole.drop (pre.length + H) = hdr ++ (gappedBody gm ++ suf) := by
    have h1 := congrArg (List.drop H) hdrop
    rw [List.drop_drop, packTextureG_eq, hgm, hH] at h1
    rw [h1]
    simp only [← List.append_assoc]
    rw [List.append_assoc _ (gappedBody gm) suf, List.append_assoc _ hdr, List.append_assoc hdr]
    apply List.drop_left'
    simp only [List.length_append, putU32le_length, lodTableG_length, sizeTable_length, zeros_length,
      textureHeaderLen, ← hsnd, List.length_map] at hH ⊢
    omega
  have hblocks0 : whole.drop (pre.length + H + hdr.length) = gappedBody gm ++ suf :=
    drop_add_of_drop hstart
  have hall := readAllLodsG_ok inflate whole (pre.length + H) gm hdr.length 0
    (zeros (pad128 (textureHeaderLen mips)) ++ (hdr ++ (gappedBody gm ++ suf))) suf
    (fun b hb => by rw [hsnd] at hb; exact ⟨hbs b hb, hd b hb⟩) hblocks0 (by omega) (by omega)
  rw [hsnd] at hall
  obtain ⟨b0, m0, ms, hm⟩ : ∃ b0 m0 ms, mips = (b0 :: m0) :: ms := by
    cases mips with
    | nil => simp at hne
    | cons m ms =>
      cases m with
      | nil => simp at hne
      | cons b0 m0 => exact ⟨_, _, _, rfl⟩
  obtain ⟨gms, hgm0⟩ : ∃ gms, gm = ([], b0 :: m0) :: gms := by
    rw [← hgm, hm]; exact ⟨_, rfl⟩
  have hlods : lodsFromG hdr.length 0 gm =
      { compressedOffset := (hdr.length + 0).toUInt32,
        compressedSize := (encodeBlocks (b0 :: m0)).length.toUInt32,
        decompressedSize := (contents (b0 :: m0)).length.toUInt32, blockOffset := (0 : Nat).toUInt32,
        blockCount := (b0 :: m0).length.toUInt32 } ::
      lodsFromG (hdr.length + 0 + (encodeBlocks (b0 :: m0)).length) (0 + (b0 :: m0).length) gms := by
    rw [hgm0]; rfl
  have hne0 : ((encodeBlocks (b0 :: m0)).length.toUInt32 != 0) = true := by
    have h1 := encLen_ge (b0 :: m0)
    have h2 : (encodeBlocks (b0 :: m0)).length ≤ (gappedBody gm).length := by
      rw [hgm0, gappedBody_cons, List.length_append, List.length_append]; omega
    have h3 : (encodeBlocks (b0 :: m0)).length < 4294967296 := by omega
    simp only [List.length_cons] at h1
    simp only [bne_iff_ne, ne_eq]
    intro h0
    have := congrArg UInt32.toNat h0
    rw [toUInt32_toNat _ h3] at this
    have h00 : (0 : UInt32).toNat = 0 := rfl
    omega
  have hhdr : bytes (hdr.length + 0).toUInt32.toNat (whole.drop (pre.length + H.toUInt32.toNat)) =
      some (hdr, gappedBody gm ++ suf) := by
    rw [hs, hstart, Nat.add_zero, toUInt32_toNat hdr.length (by omega)]
    exact bytes_append hdr _ _ rfl
  rw [← hs] at hall
  simp only [readFromOffset, hfi]
  exact readTextureFile_eq inflate whole pre.length _ _ _ _ _ _ _ _ hlods hne0 hhdr hall

/-! ### the LOD walk in its most general form: every chain sits where its record says

No relation between the places of different chains is needed (any order, any distance, they may
even share bytes): the reader restarts at `compressed_offset` for every LOD.  `readAllLodsG_ok` is
the instance the `Spec` encoder `packTextureG` produces. -/

/-- LOD records for chains `p.2` placed at offsets `p.1` (relative to the end of the file-info header) -/
def lodsAt : Nat → List (Nat × List Block) → List TextureLodBlock
  | _, [] => []
  | idx, (off, m) :: ms =>
    { compressedOffset := off.toUInt32, compressedSize := (encodeBlocks m).length.toUInt32,
      decompressedSize := (contents m).length.toUInt32, blockOffset := idx.toUInt32,
      blockCount := m.length.toUInt32 } :: lodsAt (idx + m.length) ms

theorem readAllLods_at (inflate : Inflate) (whole : Bytes) (start : Nat) :
    ∀ (pl : List (Nat × List Block)) (idx : Nat) (T : Bytes),
      (∀ p ∈ pl, (∀ b ∈ p.2, b.wf = true ∧ Deflated inflate b) ∧
        (∃ X, whole.drop (start + p.1) = encodeBlocks p.2 ++ X) ∧
        p.1 + (encodeBlocks p.2).length < 4294967296 ∧
        start + p.1 + (encodeBlocks p.2).length < 18446744073709551616) →
      readAllLods inflate whole start (lodsAt idx pl) (sizeTable (pl.map Prod.snd).flatten ++ T) =
        some (some (contents (pl.map Prod.snd).flatten)) := by
  intro pl
  induction pl with
  | nil => intros; rfl
  | cons p ms ih =>
    obtain ⟨off, m⟩ := p
    intro idx T h
    obtain ⟨hb, ⟨X, hw⟩, h32, h64⟩ := h (off, m) (by simp)
    simp only at hb hw h32 h64
    simp only [List.map_cons, List.flatten_cons]
    have hge := encLen_ge m
    have hcount : m.length.toUInt32.toNat = m.length := toUInt32_toNat _ (by omega)
    have hoff : off.toUInt32.toNat = off := toUInt32_toNat _ (by omega)
    have hw' : whole.drop (off + start) = encodeBlocks m ++ X := by rw [Nat.add_comm]; exact hw
    have hlod := readLodBlocks_ok inflate whole m (off + start)
      (sizeTable (ms.map Prod.snd).flatten ++ T) X hb hw' (by omega)
    have ih' := ih (idx + m.length) T (fun p hp => h p (by simp [hp]))
    simp only [lodsAt, readAllLods, hcount, hoff, sizeTable_append, List.append_assoc, hlod, ih',
      contents_append]

end Physis.Dat
