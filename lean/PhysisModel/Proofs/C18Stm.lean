import PhysisModel.Base.ParserAPbcLemmas
import PhysisModel.Model.C18Stm
namespace Physis.C18Stm
open Physis Physis.A

theorem header_good : PGood header := by unfold header; pgood
theorem entry_good (c o : Nat) : PGood (entry c o) := by unfold entry; pgood

theorem reader_good : PGood reader := by
  unfold reader
  apply PGood.bind header_good
  intro h
  exact PGood.each _ (entry_good _)

theorem fromExisting_good (b : Bytes) : Good (budget b.length) (fromExisting b) :=
  PGood.run reader_good b

end Physis.C18Stm
