import PhysisModel.Proofs.MdlGrammar
import PhysisModel.Proofs.MdlHeaders
import PhysisModel.Proofs.MdlGeometry
/-!
# `ModelData::calculate_runtime_size` is the encoded length of the runtime block

For a version ≤ 5 model whose tables agree with their count fields (`modelDataOk`) and that has no
terrain-shadow sub-meshes (the code counts 10 bytes for those 12-byte records), a successful
`calculateRuntimeSize` returns exactly the length of `encModelData` minus the vertex declarations
(136 bytes each): `runtimeSize_eq_length`.
-/
namespace Physis.Mdl
open Physis Physis.Spec.Mdl

/-! ### lengths of the encoded records -/

private theorem length_putU16le (v : UInt16) : (putU16le v).length = 2 := rfl
private theorem length_putU32le (v : UInt32) : (putU32le v).length = 4 := rfl

/-- a `flatMap` of records that all have the same size -/
private theorem length_flatMap_const (f : α → List β) (c : Nat) (l : List α)
    (h : ∀ x ∈ l, (f x).length = c) : (l.flatMap f).length = c * l.length := by
  induction l with
  | nil => rfl
  | cons x xs ih =>
    rw [List.flatMap_cons, List.length_append, h x (by simp),
      ih (fun y hy => h y (by simp [hy])), List.length_cons, Nat.mul_succ]
    omega

/-- fixed-size raw blocks -/
private theorem length_flatten_const (c : Nat) (l : List (List β)) (h : ∀ x ∈ l, x.length = c) :
    l.flatten.length = c * l.length := by
  induction l with
  | nil => rfl
  | cons x xs ih =>
    rw [List.flatten_cons, List.length_append, h x (by simp),
      ih (fun y hy => h y (by simp [hy])), List.length_cons, Nat.mul_succ]
    omega

theorem length_encDecl (d : List VertexElement) (h : d.length ≤ 16) : (encDecl d).length = 136 := by
  simp only [encDecl, List.length_append, length_flatMap_encElement, endMarker, zeros,
    List.length_replicate, List.length_cons, List.length_nil]
  omega

theorem length_encModelHeader (h : ModelHeader) :
    (encModelHeader h).length = 8 + h.strings.length + 56 := by
  simp only [encModelHeader, List.length_append, length_putU16le, length_putU32le, zeros,
    List.length_replicate, List.length_cons, List.length_nil]
  omega

theorem length_encMeshLod (l : MeshLod) (h : l.mid.length = 28) : (encMeshLod l).length = 60 := by
  simp only [encMeshLod, List.length_append, length_putU16le, length_putU32le, zeros,
    List.length_replicate, h]

theorem length_encMesh (x : Mesh) : (encMesh x).length = 36 := rfl
theorem length_encSubmesh (x : Submesh) : (encSubmesh x).length = 16 := rfl
theorem length_encShape (x : ShapeStruct) : (encShape x).length = 16 := rfl
theorem length_encShapeMesh (x : ShapeMesh) : (encShapeMesh x).length = 12 := rfl
theorem length_encShapeValue (x : ShapeValue) : (encShapeValue x).length = 4 := rfl

theorem length_encBoneTable (t : BoneTable) (h : t.boneIndices.length = 64) :
    (encBoneTable t).length = 132 := by
  simp only [encBoneTable, List.length_append,
    length_flatMap_const putU16le 2 t.boneIndices (fun v _ => length_putU16le v), h, zeros,
    List.length_replicate, List.length_cons, List.length_nil]

/-! ### inversion of the checked sum -/

/-- one step of the sum in `calculate_runtime_size` -/
theorem sumFold_cons {t : R UInt32} {ts : List (R UInt32)} {a r : UInt32}
    (h : (t :: ts).foldlM (fun acc t => do let x ← t; addU32 acc x) a = .ok r) :
    ∃ x b, t = .ok x ∧ b.toNat = a.toNat + x.toNat ∧
      ts.foldlM (fun acc t => do let x ← t; addU32 acc x) b = .ok r := by
  rw [List.foldlM_cons] at h
  obtain ⟨b, hb, h⟩ := bind_ok h
  obtain ⟨x, hx, hb⟩ := bind_ok hb
  exact ⟨x, b, hx, (addU32_inv hb).2, h⟩

/-- a `vec.len() as u32 * k` term, the length being in range -/
theorem lenTerm_inv {n : Nat} {k x : UInt32} (hn : n < 4294967296)
    (h : mulU32 n.toUInt32 k = .ok x) : x.toNat = n * k.toNat := by
  have hn' : n.toUInt32.toNat = n := by simp [hn]
  rw [(mulU32_inv h).2, hn']

/-- a `count as u32 * k` term (`u16` count) -/
theorem cntTerm_inv {c : UInt16} {k x : UInt32} (h : mulU32 c.toUInt32 k = .ok x) :
    x.toNat = c.toNat * k.toNat := by
  rw [(mulU32_inv h).2, UInt16.toNat_toUInt32]

/-- a `count as u32 * k` term (`u8` count) -/
theorem cnt8Term_inv {c : UInt8} {k x : UInt32} (h : mulU32 c.toUInt32 k = .ok x) :
    x.toNat = c.toNat * k.toNat := by
  rw [(mulU32_inv h).2, UInt8.toNat_toUInt32]

/-! ### the theorem -/

theorem runtimeSize_eq_length (fh : FileHeader) (md : ModelData) (hv : isV5 fh.version = true)
    (hok : modelDataOk fh md = true) (hts : md.terrainShadowSubmeshes = []) (r : UInt32)
    (hr : calculateRuntimeSize md = .ok r) :
    (encModelData fh.version md).length = fh.vertexDeclarationCount.toNat * 136 + r.toNat := by
  -- what `modelDataOk` says
  simp only [modelDataOk, Bool.and_eq_true, beq_iff_eq, List.all_eq_true, blocksOk_iff,
    and_assoc] at hok
  obtain ⟨hdl, hdo, hh, he1, he2, hl1, hl2, hm, ha, ht1, ht2, hs, hts1, _, hmat, hbn, hver, hsh,
    hsm, hsv, hpad, hbb, hbb1, hbb2⟩ := hok
  have hv6 := not_isV6_of_isV5 _ hv
  simp only [hv, ↓reduceIte, Bool.and_eq_true, beq_iff_eq, List.all_eq_true,
    List.isEmpty_iff, and_assoc] at hver
  obtain ⟨hb1, hb2, _, _, hb5⟩ := hver
  simp only [headerOk, Bool.and_eq_true, beq_iff_eq] at hh
  have hstr := hh.2
  rw [hts, List.length_nil] at hts1
  -- the encoded length
  have hlen : (encModelData fh.version md).length =
      136 * md.decls.length + ((8 + md.header.strings.length + 56) +
      (32 * md.elementIds.length + (60 * md.lods.length + (36 * md.meshes.length +
      (4 * md.attributeNameOffsets.length + (20 * md.terrainShadowMeshes.length +
      (16 * md.submeshes.length + (0 + (4 * md.materialNameOffsets.length +
      (4 * md.boneNameOffsets.length + (132 * md.boneTables.length + (0 +
      (16 * md.shapes.length + (12 * md.shapeMeshes.length + (4 * md.shapeValues.length +
      (4 + (0 + (2 * md.submeshBoneMap.length + (1 + (md.unknownPadding.length +
      (md.boundingBoxes.length + 32 * md.boneBoundingBoxes.length))))))))))))))))))))) := by
    simp only [encModelData, hv, hv6, ↓reduceIte, Bool.false_eq_true, List.length_append, hts,
      List.flatten_nil, List.length_nil, List.length_cons, length_putU32le, length_encModelHeader]
    rw [length_flatMap_const encDecl 136 md.decls
        (fun x hx => length_encDecl x (by
          have := hdo x hx
          simp only [declOk, Bool.and_eq_true, decide_eq_true_eq] at this
          exact this.1.1.2)),
      length_flatten_const 32 md.elementIds he2,
      length_flatMap_const encMeshLod 60 md.lods
        (fun x hx => length_encMeshLod x (by simpa using hl2 x hx)),
      length_flatMap_const encMesh 36 md.meshes (fun x _ => length_encMesh x),
      length_flatMap_const putU32le 4 md.attributeNameOffsets (fun x _ => length_putU32le x),
      length_flatten_const 20 md.terrainShadowMeshes ht2,
      length_flatMap_const encSubmesh 16 md.submeshes (fun x _ => length_encSubmesh x),
      length_flatMap_const putU32le 4 md.materialNameOffsets (fun x _ => length_putU32le x),
      length_flatMap_const putU32le 4 md.boneNameOffsets (fun x _ => length_putU32le x),
      length_flatMap_const encBoneTable 132 md.boneTables
        (fun x hx => length_encBoneTable x (by simpa [boneTableOk] using hb2 x hx)),
      length_flatMap_const encShape 16 md.shapes (fun x _ => length_encShape x),
      length_flatMap_const encShapeMesh 12 md.shapeMeshes (fun x _ => length_encShapeMesh x),
      length_flatMap_const encShapeValue 4 md.shapeValues (fun x _ => length_encShapeValue x),
      length_flatMap_const putU16le 2 md.submeshBoneMap (fun x _ => length_putU16le x),
      length_flatten_const 32 md.boneBoundingBoxes hbb2]
  -- the checked sum
  have b16 : ∀ c : UInt16, c.toNat < 4294967296 := fun c => by
    have := c.toNat_lt; omega
  have hmap : md.submeshBoneMap.length < 4294967296 := by
    rw [hb5]; have := (md.submeshBoneMapSize / 2).toNat_lt; omega
  simp only [calculateRuntimeSize] at hr
  obtain ⟨x1, a1, h1, e1, hr⟩ := sumFold_cons hr
  obtain ⟨x2, a2, h2, e2, hr⟩ := sumFold_cons hr
  obtain ⟨x3, a3, h3, e3, hr⟩ := sumFold_cons hr
  obtain ⟨x4, a4, h4, e4, hr⟩ := sumFold_cons hr
  obtain ⟨x5, a5, h5, e5, hr⟩ := sumFold_cons hr
  obtain ⟨x6, a6, h6, e6, hr⟩ := sumFold_cons hr
  obtain ⟨x7, a7, h7, e7, hr⟩ := sumFold_cons hr
  obtain ⟨x8, a8, h8, e8, hr⟩ := sumFold_cons hr
  obtain ⟨x9, a9, h9, e9, hr⟩ := sumFold_cons hr
  obtain ⟨x10, a10, h10, e10, hr⟩ := sumFold_cons hr
  obtain ⟨x11, a11, h11, e11, hr⟩ := sumFold_cons hr
  obtain ⟨x12, a12, h12, e12, hr⟩ := sumFold_cons hr
  obtain ⟨x13, a13, h13, e13, hr⟩ := sumFold_cons hr
  obtain ⟨x14, a14, h14, e14, hr⟩ := sumFold_cons hr
  obtain ⟨x15, a15, h15, e15, hr⟩ := sumFold_cons hr
  obtain ⟨x16, a16, h16, e16, hr⟩ := sumFold_cons hr
  obtain ⟨x17, a17, h17, e17, hr⟩ := sumFold_cons hr
  obtain ⟨x18, a18, h18, e18, hr⟩ := sumFold_cons hr
  obtain ⟨x19, a19, h19, e19, hr⟩ := sumFold_cons hr
  obtain ⟨x20, a20, h20, e20, hr⟩ := sumFold_cons hr
  obtain ⟨x21, a21, h21, e21, hr⟩ := sumFold_cons hr
  obtain ⟨x22, a22, h22, e22, hr⟩ := sumFold_cons hr
  obtain ⟨x23, a23, h23, e23, hr⟩ := sumFold_cons hr
  obtain ⟨x24, a24, h24, e24, hr⟩ := sumFold_cons hr
  rw [List.foldlM_nil] at hr
  have hfin : a24 = r := pure_ok hr
  -- the constant terms
  have t1 : x1.toNat = 2 := by rw [← pure_ok h1]; rfl
  have t2 : x2.toNat = 2 := by rw [← pure_ok h2]; rfl
  have t3 : x3.toNat = 4 := by rw [← pure_ok h3]; rfl
  have t4 : x4.toNat = md.header.stringSize.toNat := by rw [← pure_ok h4]
  have t5 : x5.toNat = 56 := by rw [← pure_ok h5]; rfl
  have t7 : x7.toNat = 180 := by rw [← pure_ok h7]; rfl
  have t19 : x19.toNat = 4 := by rw [← pure_ok h19]; rfl
  have t21 : x21.toNat = md.paddingAmount.toNat := by
    rw [← pure_ok h21, UInt8.toNat_toUInt32]
  have t22 : x22.toNat = 1 := by rw [← pure_ok h22]; rfl
  have t23 : x23.toNat = 128 := by rw [← pure_ok h23]; rfl
  -- the products
  have t6 : x6.toNat = md.elementIds.length * 32 :=
    lenTerm_inv (k := 32) (by rw [he1]; exact b16 _) h6
  have t8 : x8.toNat = md.meshes.length * 36 :=
    lenTerm_inv (k := 36) (by rw [hm]; exact b16 _) h8
  have t9 : x9.toNat = md.attributeNameOffsets.length * 4 :=
    lenTerm_inv (k := 4) (by rw [ha]; exact b16 _) h9
  have t10 : x10.toNat = md.header.terrainShadowMeshCount.toNat * 20 := cnt8Term_inv (k := 20) h10
  have t11 : x11.toNat = md.header.submeshCount.toNat * 16 := cntTerm_inv (k := 16) h11
  have t12 : x12.toNat = md.header.terrainShadowSubmeshCount.toNat * 10 :=
    cntTerm_inv (k := 10) h12
  have t13 : x13.toNat = md.materialNameOffsets.length * 4 :=
    lenTerm_inv (k := 4) (by rw [hmat]; exact b16 _) h13
  have t14 : x14.toNat = md.boneNameOffsets.length * 4 :=
    lenTerm_inv (k := 4) (by rw [hbn]; exact b16 _) h14
  have t15 : x15.toNat = md.boneTables.length * 132 :=
    lenTerm_inv (k := 132) (by rw [hb1]; exact b16 _) h15
  have t16 : x16.toNat = md.header.shapeCount.toNat * 16 := cntTerm_inv (k := 16) h16
  have t17 : x17.toNat = md.header.shapeMeshCount.toNat * 12 := cntTerm_inv (k := 12) h17
  have t18 : x18.toNat = md.header.shapeValueCount.toNat * 4 := cntTerm_inv (k := 4) h18
  have t20 : x20.toNat = md.submeshBoneMap.length * 2 := lenTerm_inv (k := 2) hmap h20
  have t24 : x24.toNat = md.header.boneCount.toNat * 32 := cntTerm_inv (k := 32) h24
  have z0 : (0 : UInt32).toNat = 0 := rfl
  rw [hlen, ← hfin]
  -- (`omega` on the equation itself splits `≠` into two deep disjuncts and runs out of heartbeats)
  apply Nat.le_antisymm <;> omega

end Physis.Mdl
