import PhysisModel.Base.SoftFloat
import PhysisModel.Spec.Float
/-!
Exhaustive, kernel-evaluated facts about the software floats of `Base/SoftFloat.lean`:
every statement below is a finite check (`decide +kernel`) over all 65 536 halves or all 256 bytes,
lifted to a `∀` by `forallBits_sound`.  The 65 536-case check is cut into eight chunks, each its
own declaration (the kernel's caches live for one declaration; a chunk needs about 1 GB).
-/
namespace Physis.SoftFloat
open Physis.Spec.Float

/-! ### 1./2. the half conversions, all 65 536 bit patterns in one pass

`halfOkN k` collects, on the raw bits `k` of a half, everything proved about it below; it is
evaluated at `Nat` level (the `UInt16`/`UInt32` wrappers would add 60 % to the kernel's work) and
carried over to the `UIntN` functions afterwards. -/

def halfOkN (k : Nat) : Bool :=
  -- the result fits 32 bits (so that `UInt32.ofNat` does not truncate)
  Nat.ble (halfToF32N k) 4294967295 &&
  -- `isNaN16` agrees with the IEEE-754 reading
  !(xor (isNaN16N k) (FVal.isNaN (valBits 5 10 k))) &&
  (bif isNaN16N k then isNaN32N (halfToF32N k)
   else
     -- same IEEE-754 datum, and converting back gives the same bits
     FVal.same (valBits 8 23 (halfToF32N k)) (valBits 5 10 k) &&
     Nat.beq (f32ToHalfN (halfToF32N k)) k)

theorem halfOk_c0 : forallFrom 13 0 halfOkN = true := by decide +kernel
theorem halfOk_c1 : forallFrom 13 8192 halfOkN = true := by decide +kernel
theorem halfOk_c2 : forallFrom 13 16384 halfOkN = true := by decide +kernel
theorem halfOk_c3 : forallFrom 13 24576 halfOkN = true := by decide +kernel
theorem halfOk_c4 : forallFrom 13 32768 halfOkN = true := by decide +kernel
theorem halfOk_c5 : forallFrom 13 40960 halfOkN = true := by decide +kernel
theorem halfOk_c6 : forallFrom 13 49152 halfOkN = true := by decide +kernel
theorem halfOk_c7 : forallFrom 13 57344 halfOkN = true := by decide +kernel

theorem halfOk_all : forallBits 16 halfOkN = true :=
  forallFrom_join
    (forallFrom_join (forallFrom_join halfOk_c0 halfOk_c1) (forallFrom_join halfOk_c2 halfOk_c3))
    (forallFrom_join (forallFrom_join halfOk_c4 halfOk_c5) (forallFrom_join halfOk_c6 halfOk_c7))

theorem halfOk (h : UInt16) : halfOkN h.toNat = true :=
  forallBits_sound halfOk_all h.toNat h.toNat_lt

theorem halfToF32_toNat (h : UInt16) : (halfToF32 h).toNat = halfToF32N h.toNat := by
  have ok := halfOk h
  simp only [halfOkN, Bool.and_eq_true] at ok
  have hlt : halfToF32N h.toNat < 4294967296 := by
    have := Nat.le_of_ble_eq_true ok.1.1
    omega
  show (UInt32.ofNat (halfToF32N h.toNat)).toNat = _
  simp [UInt32.toNat_ofNat', Nat.mod_eq_of_lt hlt]

/-- `f16::from_f32(h.to_f32()) == h` bit for bit, for all 63 488 non-NaN halves. -/
theorem half_reencode : ∀ h : UInt16, isNaN16 h = false → f32ToHalf (halfToF32 h) = h := by
  intro h hn
  have ok := halfOk h
  have hn' : isNaN16N h.toNat = false := hn
  simp only [halfOkN, Bool.and_eq_true, hn', cond_false] at ok
  show UInt16.ofNat (f32ToHalfN (halfToF32 h).toNat) = h
  rw [halfToF32_toNat, Nat.eq_of_beq_eq_true ok.2.2]
  simp

/-- The f32 produced for a non-NaN half denotes the same datum (the same infinity, or the same
sign and the same real number, signed zeros included) under the IEEE-754 reading of both bit
patterns: `halfToF32` is the standard's value-preserving binary16 → binary32 conversion. -/
theorem half_standard : ∀ h : UInt16, isNaN16 h = false →
    FVal.same (valF32 (halfToF32 h)) (valHalf h) = true := by
  intro h hn
  have ok := halfOk h
  have hn' : isNaN16N h.toNat = false := hn
  simp only [halfOkN, Bool.and_eq_true, hn', cond_false] at ok
  show FVal.same (valBits 8 23 (halfToF32 h).toNat) (valBits 5 10 h.toNat) = true
  rw [halfToF32_toNat]; exact ok.2.1

/-- NaN halves become NaN singles. -/
theorem half_standard_nan : ∀ h : UInt16, isNaN16 h = true → isNaN32 (halfToF32 h) = true := by
  intro h hn
  have ok := halfOk h
  have hn' : isNaN16N h.toNat = true := hn
  simp only [halfOkN, Bool.and_eq_true, hn', cond_true] at ok
  show isNaN32N (halfToF32 h).toNat = true
  rw [halfToF32_toNat]; exact ok.2

/-- `isNaN16` is the IEEE-754 reading, too. -/
theorem isNaN16_standard : ∀ h : UInt16, isNaN16 h = (valHalf h).isNaN := by
  intro h
  have ok := halfOk h
  simp only [halfOkN, Bool.and_eq_true] at ok
  have := ok.1.2
  show isNaN16N h.toNat = FVal.isNaN (valBits 5 10 h.toNat)
  revert this
  cases isNaN16N h.toNat <;> cases FVal.isNaN (valBits 5 10 h.toNat) <;> simp

/-! ### 3./4. the `ByteFloat4` component codec -/

/-- `b as f32 / 255.0` is the correctly rounded binary32 of the rational `b / 255`. -/
theorem byteFloat_standard : ∀ b : UInt8, isNearestF32 (readByteFloat b) b.toNat 255 = true :=
  forallU8_sound (p := fun b => isNearestF32 (readByteFloat b) b.toNat 255) (by decide +kernel)

/-- `((b as f32 / 255.0) * 255.0).round() as u8 == b` for every byte. -/
theorem byteFloat_reencode : ∀ b : UInt8, writeByteFloat (readByteFloat b) = b := by
  intro b
  have := forallU8_sound (p := fun b => writeByteFloat (readByteFloat b) == b) (by decide +kernel) b
  simpa using this

/-! ### 5. the tangent codec -/

/-- `write_tangent` inverts `read_tangent` on x/y/z for every byte. -/
theorem tangent_reencode : ∀ b : UInt8, writeTangentXYZ (readTangentXYZ b) = b := by
  intro b
  have := forallU8_sound (p := fun b => writeTangentXYZ (readTangentXYZ b) == b)
    (by decide +kernel) b
  simpa using this

/-- the w component keeps only "is 255": every other byte is rewritten as 0. -/
theorem tangentW_reencode : ∀ b : UInt8,
    writeTangentW (readTangentW b) = (if b = 255 then 255 else 0) := by
  intro b
  have := forallU8_sound
    (p := fun b => writeTangentW (readTangentW b) == (if b = 255 then 255 else 0))
    (by decide +kernel) b
  simpa using this

/-! ### 6. (BlendWeights, Byte4): read by `read_tangent`, written by `write_byte_float42` -/

/-- a witness: byte 128 is read as `2·128/255 - 1 ≈ 0.0039` and written back as 0 -/
theorem byte42_not_inverse : writeByteFloat42 (readTangentXYZ 128) ≠ 128 := by decide +kernel

/-- all of it: `write_byte_float42 ∘ read_tangent` collapses x/y/z to 0 or 1 … -/
theorem byte42_values : ∀ b : UInt8,
    writeByteFloat42 (readTangentXYZ b) = (if 192 ≤ b then 1 else 0) := by
  intro b
  have := forallU8_sound
    (p := fun b => writeByteFloat42 (readTangentXYZ b) == (if 192 ≤ b then 1 else 0))
    (by decide +kernel) b
  simpa using this

/-- … and w to `b == 255`; so the only byte the pair preserves is 0. -/
theorem byte42_valuesW : ∀ b : UInt8,
    writeByteFloat42 (readTangentW b) = (if b = 255 then 1 else 0) := by
  intro b
  have := forallU8_sound
    (p := fun b => writeByteFloat42 (readTangentW b) == (if b = 255 then 1 else 0))
    (by decide +kernel) b
  simpa using this

theorem byte42_fixed_iff : ∀ b : UInt8, writeByteFloat42 (readTangentXYZ b) = b ↔ b = 0 := by
  intro b
  have := forallU8_sound
    (p := fun b => decide (writeByteFloat42 (readTangentXYZ b) = b) == decide (b = 0))
    (by decide +kernel) b
  simpa using this

/-! ### 7. spot values (each one was also observed on the hardware / the `half` crate) -/

-- half → f32: 1.0, the smallest subnormal 2^-24, the largest finite half 65504
example : halfToF32 0x3C00 = 0x3F800000 := by decide +kernel
example : halfToF32 0x0001 = 0x33800000 := by decide +kernel
example : halfToF32 0x7BFF = 0x477FE000 := by decide +kernel
example : halfToF32 0xFC00 = 0xFF800000 := by decide +kernel
example : halfToF32 0x7E01 = 0x7FC02000 := by decide +kernel
-- f32 → half: ties go to the even mantissa, 65520 overflows, 2^-25 is a tie with zero
example : f32ToHalf 0x3F801000 = 0x3C00 := by decide +kernel
example : f32ToHalf 0x3F803000 = 0x3C02 := by decide +kernel
example : f32ToHalf 0x3F801001 = 0x3C01 := by decide +kernel
example : f32ToHalf 0x477FEFFF = 0x7BFF := by decide +kernel
example : f32ToHalf 0x477FF000 = 0x7C00 := by decide +kernel
example : f32ToHalf 0x33000000 = 0x0000 := by decide +kernel
example : f32ToHalf 0x33000001 = 0x0001 := by decide +kernel
example : f32ToHalf 0xB3800000 = 0x8001 := by decide +kernel
example : f32ToHalf 0x7F800001 = 0x7E00 := by decide +kernel
-- the byte codecs
example : readByteFloat 255 = 0x3F800000 := by decide +kernel
example : readByteFloat 1 = 0x3B808081 := by decide +kernel
example : readByteFloat 0 = 0 := by decide +kernel
example : readTangentXYZ 0 = 0xBF800000 := by decide +kernel
example : readTangentXYZ 255 = 0x3F800000 := by decide +kernel
example : readTangentXYZ 128 = 0x3B808100 := by decide +kernel
example : readTangentXYZ 127 = 0xBB808080 := by decide +kernel
-- arithmetic: exact cases, rounding, signed zeros, specials
example : f32Sub 0x3F800000 0x3F800000 = 0 := by decide +kernel                   -- 1 - 1 = +0
example : f32Sub 0x3F800000 0x3F000000 = 0x3F000000 := by decide +kernel          -- 1 - 0.5
example : f32Sub 0x3F800001 0x3F800000 = 0x34000000 := by decide +kernel          -- one ulp = 2^-23
example : f32Add 0x3DCCCCCD 0x3E4CCCCD = 0x3E99999A := by decide +kernel          -- 0.1 + 0.2
example : f32Add 0x4B800000 0x3F800000 = 0x4B800000 := by decide +kernel          -- 2^24 + 1: tie, even
example : f32Add 0x4B800001 0x3F800000 = 0x4B800002 := by decide +kernel          -- 2^24 + 3: tie, even
example : f32Add 0x80000000 0x80000000 = 0x80000000 := by decide +kernel          -- -0 + -0 = -0
example : f32Add 0x80000000 0 = 0 := by decide +kernel                            -- -0 + +0 = +0
example : f32Mul (readByteFloat 1) f32_255 = 0x3F800000 := by decide +kernel
example : f32Mul 0x40400000 0x3EAAAAAB = 0x3F800000 := by decide +kernel          -- 3 * fl(1/3) = 1
example : f32Mul 0x7F7FFFFF 0x40000000 = 0x7F800000 := by decide +kernel          -- overflow
example : f32Mul 0x00000001 0x3F000000 = 0 := by decide +kernel                   -- 2^-150: tie, even
example : f32Mul 0x00000003 0x3F000000 = 0x00000002 := by decide +kernel          -- 1.5 * 2^-149 → 2
example : f32Mul 0 0xBF800000 = 0x80000000 := by decide +kernel                   -- 0 * -1 = -0
example : f32Mul 0x7F800000 0 = 0x7FC00000 := by decide +kernel                   -- inf * 0
example : f32Div 0x3F800000 0x40400000 = 0x3EAAAAAB := by decide +kernel          -- 1 / 3
example : f32Div 0xBF800000 0 = 0xFF800000 := by decide +kernel                   -- -1 / 0
example : f32Div 0 0 = 0x7FC00000 := by decide +kernel
example : f32Sub 0x7F800000 0x7F800000 = 0x7FC00000 := by decide +kernel          -- inf - inf
-- round: halves away from zero, sign of zero kept; `as u8` truncates and saturates
example : f32Round 0x3FC00000 = 0x40000000 := by decide +kernel                   -- 1.5 → 2
example : f32Round 0x40200000 = 0x40400000 := by decide +kernel                   -- 2.5 → 3
example : f32Round 0xBF000000 = 0xBF800000 := by decide +kernel                   -- -0.5 → -1
example : f32Round 0x3EFFFFFF = 0 := by decide +kernel                            -- 0.49999997 → 0
example : f32Round 0xBEFFFFFF = 0x80000000 := by decide +kernel                   -- → -0
example : f32ToU8Sat 0x437F0000 = 255 := by decide +kernel
example : f32ToU8Sat 0x43800000 = 255 := by decide +kernel                        -- 256 saturates
example : f32ToU8Sat 0x3FFFFFFF = 1 := by decide +kernel                          -- 1.9999999 → 1
example : f32ToU8Sat 0xBF800000 = 0 := by decide +kernel
example : f32ToU8Sat 0x7FC00000 = 0 := by decide +kernel
example : f32Gt 0 0x80000000 = false ∧ f32Eq 0 0x80000000 = true := by decide +kernel
example : f32Gt 0x7FC00000 0 = false ∧ f32Eq 0x7FC00000 0x7FC00000 = false := by decide +kernel
-- the generic core and the decoder
example : roundToF32 false 1 3 = 0x3EAAAAAB := by decide +kernel
example : roundToF32 true 1 255 = 0xBB808081 := by decide +kernel
example : decode32 0x3F800000 = (false, 0x800000, -23) := by decide +kernel
example : decode32 0x80000001 = (true, 1, -149) := by decide +kernel
-- the spec's reading
example : (valHalf 0x3C00).same (.fin false 1 0) = true := by decide +kernel
example : (valF32 0x3EAAAAAB).same (.fin false 11184811 (-25)) = true := by decide +kernel
example : isNearestF32 0x3EAAAAAB 1 3 = true ∧ isNearestF32 0x3EAAAAAA 1 3 = false := by
  decide +kernel
-- a tie: 2^24 + 1 lies half-way between 0x4B800000 (even) and 0x4B800001 (odd)
example : isNearestF32 0x4B800000 16777217 1 = true ∧ isNearestF32 0x4B800001 16777217 1 = false := by
  decide +kernel
-- overflow is not "nearest": the largest finite f32 is not a correct rounding of 2^128
example : isNearestF32 0x7F7FFFFF (2 ^ 128) 1 = false := by decide +kernel

end Physis.SoftFloat
