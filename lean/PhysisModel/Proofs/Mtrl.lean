import PhysisModel.Model.Mtrl
import PhysisModel.Spec.Mtrl
import PhysisModel.Proofs.MsCommon
/-! Helper lemmas for C14, material part: rows, dye bit fields, heap scans, constants, assembly. -/
namespace Physis.Mtrl
open Physis.MsCommon Physis.Spec.Mtrl Physis.Generated

theorem length_succ {α : Type} {l : List α} {n : Nat} (h : l.length = n + 1) :
    ∃ a r, l = a :: r ∧ r.length = n := by
  cases l with
  | nil => simp at h
  | cons a r => exact ⟨a, r, rfl, by simpa using h⟩

/-! ### colour rows -/

theorem legacyRow_rt (w : List UInt16) (hw : w.length = 16) (t : Bytes) :
    legacyColorTableRow (w.flatMap putU16le ++ t) = .ok (decodeLegacyRow w, t) := by
  obtain ⟨d0, w1, rfl, hw1⟩ := length_succ hw
  obtain ⟨d1, w2, rfl, hw2⟩ := length_succ hw1
  obtain ⟨d2, w3, rfl, hw3⟩ := length_succ hw2
  obtain ⟨ss, w4, rfl, hw4⟩ := length_succ hw3
  obtain ⟨s0, w5, rfl, hw5⟩ := length_succ hw4
  obtain ⟨s1, w6, rfl, hw6⟩ := length_succ hw5
  obtain ⟨s2, w7, rfl, hw7⟩ := length_succ hw6
  obtain ⟨gs, w8, rfl, hw8⟩ := length_succ hw7
  obtain ⟨e0, w9, rfl, hw9⟩ := length_succ hw8
  obtain ⟨e1, w10, rfl, hw10⟩ := length_succ hw9
  obtain ⟨e2, w11, rfl, hw11⟩ := length_succ hw10
  obtain ⟨ts, w12, rfl, hw12⟩ := length_succ hw11
  obtain ⟨r0, w13, rfl, hw13⟩ := length_succ hw12
  obtain ⟨r1, w14, rfl, hw14⟩ := length_succ hw13
  obtain ⟨k0, w15, rfl, hw15⟩ := length_succ hw14
  obtain ⟨k1, w16, rfl, hw16⟩ := length_succ hw15
  have := List.length_eq_zero_iff.mp hw16
  subst this
  simp only [legacyColorTableRow, half1, half2, half3, List.flatMap_cons, List.flatMap_nil,
    List.append_assoc, List.nil_append, bind_apply, u16_append, pure_apply, decodeLegacyRow, h]

theorem dawntrailRow_rt (w : List UInt16) (hw : w.length = 32) (t : Bytes) :
    dawntrailColorTableRow (w.flatMap putU16le ++ t) = .ok (decodeDawntrailRow w, t) := by
  obtain ⟨d0, w1, rfl, hw1⟩ := length_succ hw
  obtain ⟨d1, w2, rfl, hw2⟩ := length_succ hw1
  obtain ⟨d2, w3, rfl, hw3⟩ := length_succ hw2
  obtain ⟨u1, w4, rfl, hw4⟩ := length_succ hw3
  obtain ⟨s0, w5, rfl, hw5⟩ := length_succ hw4
  obtain ⟨s1, w6, rfl, hw6⟩ := length_succ hw5
  obtain ⟨s2, w7, rfl, hw7⟩ := length_succ hw6
  obtain ⟨u2, w8, rfl, hw8⟩ := length_succ hw7
  obtain ⟨e0, w9, rfl, hw9⟩ := length_succ hw8
  obtain ⟨e1, w10, rfl, hw10⟩ := length_succ hw9
  obtain ⟨e2, w11, rfl, hw11⟩ := length_succ hw10
  obtain ⟨u3, w12, rfl, hw12⟩ := length_succ hw11
  obtain ⟨sr, w13, rfl, hw13⟩ := length_succ hw12
  obtain ⟨st, w14, rfl, hw14⟩ := length_succ hw13
  obtain ⟨sa, w15, rfl, hw15⟩ := length_succ hw14
  obtain ⟨u4, w16, rfl, hw16⟩ := length_succ hw15
  obtain ⟨ro, w17, rfl, hw17⟩ := length_succ hw16
  obtain ⟨u5, w18, rfl, hw18⟩ := length_succ hw17
  obtain ⟨me, w19, rfl, hw19⟩ := length_succ hw18
  obtain ⟨an, w20, rfl, hw20⟩ := length_succ hw19
  obtain ⟨u6, w21, rfl, hw21⟩ := length_succ hw20
  obtain ⟨sm, w22, rfl, hw22⟩ := length_succ hw21
  obtain ⟨u7, w23, rfl, hw23⟩ := length_succ hw22
  obtain ⟨u8, w24, rfl, hw24⟩ := length_succ hw23
  obtain ⟨si, w25, rfl, hw25⟩ := length_succ hw24
  obtain ⟨ts, w26, rfl, hw26⟩ := length_succ hw25
  obtain ⟨ta, w27, rfl, hw27⟩ := length_succ hw26
  obtain ⟨sp, w28, rfl, hw28⟩ := length_succ hw27
  obtain ⟨r0, w29, rfl, hw29⟩ := length_succ hw28
  obtain ⟨r1, w30, rfl, hw30⟩ := length_succ hw29
  obtain ⟨k0, w31, rfl, hw31⟩ := length_succ hw30
  obtain ⟨k1, w32, rfl, hw32⟩ := length_succ hw31
  have := List.length_eq_zero_iff.mp hw32
  subst this
  simp only [dawntrailColorTableRow, half1, half2, half3, List.flatMap_cons, List.flatMap_nil,
    List.append_assoc, List.nil_append, bind_apply, u16_append, pure_apply, decodeDawntrailRow, h]

/-! ### dye rows -/

theorem legacyDye_rt (r : LegacyColorDyeTableRow) (hr : wfLegacyDye r = true) (t : Bytes) :
    legacyColorDyeTableRow (putU16le (packLegacyDye r) ++ t) = .ok (r, t) := by
  obtain ⟨tp, a, b, c, d, e⟩ := r
  simp only [wfLegacyDye, decide_eq_true_eq] at hr
  simp only [legacyColorDyeTableRow, bind_apply, u16_append, pure_apply, packLegacyDye, bit16]
  congr 2
  simp only [LegacyColorDyeTableRow.mk.injEq]
  refine ⟨?_, ?_, ?_, ?_, ?_, ?_⟩
  all_goals (try simp only [bne])
  all_goals bv_decide (timeout := 300)

theorem dawntrailDye_rt (d : DawntrailDyeF) (hd : wfDawntrailDye d = true) (t : Bytes) :
    dawntrailColorDyeTableRow (putU32le (packDawntrailDye d) ++ t) = .ok (d.row, t) := by
  obtain ⟨⟨tp, ch, b0, b1, b2, b3, b4, b5, b6, b7, b8, b9, b10, b11⟩, sp⟩ := d
  simp only [wfDawntrailDye, Bool.and_eq_true, decide_eq_true_eq, beq_iff_eq, dawntrailDyeUsed] at hd
  obtain ⟨⟨h1, h2⟩, h3⟩ := hd
  simp only [dawntrailColorDyeTableRow, bind_apply, u32_append, pure_apply, packDawntrailDye, bit32]
  congr 2
  simp only [DawntrailColorDyeTableRow.mk.injEq]
  refine ⟨?_, ?_, ?_, ?_, ?_, ?_, ?_, ?_, ?_, ?_, ?_, ?_, ?_, ?_⟩
  all_goals (try simp only [bne])
  all_goals bv_decide (timeout := 300)

/-! ### small records -/

theorem colorSet_rt (c : ColorSetF) (t : Bytes) :
    colorSet (encColorSet c ++ t) = .ok (⟨c.nameOffset, c.index⟩, t) := by
  simp only [colorSet, encColorSet, List.append_assoc, bind_apply, u16_append, pure_apply]

theorem shaderKey_rt (k : ShaderKey) (t : Bytes) : shaderKey (encShaderKey k ++ t) = .ok (k, t) := by
  simp only [shaderKey, encShaderKey, List.append_assoc, bind_apply, u32_append, pure_apply]

theorem constantStruct_rt (c : ConstantF) (t : Bytes) :
    constantStruct (encConstant c ++ t) = .ok (⟨c.constantId, c.valueOffset, c.valueSize⟩, t) := by
  simp only [constantStruct, encConstant, List.append_assoc, bind_apply, u32_append, u16_append,
    pure_apply]

/-- the magics of `TextureUsage` are pairwise distinct: the first variant whose magic matches is
the one that was written (re-checked against the regenerated table on every run) -/
theorem usage_idx : ∀ i, i < textureUsageMagics.length →
    textureUsageMagics.idxOf? (textureUsageMagics.getD i 0) = some i := by decide

theorem sampler_rt (s : Sampler) (hs : wfSampler s = true) (t : Bytes) :
    sampler (encSampler s ++ t) = .ok (s, t) := by
  simp only [wfSampler, decide_eq_true_eq] at hs
  simp only [sampler, textureUsage, encSampler, List.append_assoc, bind_apply, u32_append,
    usage_idx _ hs, pure_apply, List.cons_append, List.nil_append, u8_append]

theorem tableFlags_rt (tf : UInt32) (ar t : Bytes) (har : 4 + ar.length < 256) :
    tableFlags (UInt8.ofNat (4 + ar.length)) (putU32le tf ++ (ar ++ t)) = .ok (tf, t) := by
  have hn : (UInt8.ofNat (4 + ar.length)).toNat = (putU32le tf ++ ar).length := by
    rw [UInt8.toNat_ofNat', Nat.mod_eq_of_lt har]; simp
  have := take_append (putU32le tf ++ ar) t _ hn.symm
  rw [List.append_assoc] at this
  simp only [tableFlags, bind_apply, this]
  simp only [putU32le, List.cons_append, List.nil_append, pure_apply]
  congr 2; bv_decide (timeout := 300)

/-! ### heap scans -/

theorem latin1Push_ascii (b : UInt8) (h : b < 0x80) : latin1Push b = [b] := by
  simp [latin1Push, h]

theorem latin1Push_eq (b : UInt8) : latin1Push b = Spec.Mtrl.latin1Utf8 b := rfl

/-- a NUL-terminated string (any non-NUL bytes) is scanned back, each byte as its Latin-1 character -/
theorem scanString_path (p rest : Bytes) (hp : wfPath p = true) :
    scanString (p ++ 0 :: rest) = .ok (p.flatMap Spec.Mtrl.latin1Utf8, p.length) := by
  induction p with
  | nil => simp [scanString]
  | cons b r ih =>
    simp only [wfPath, List.all_cons, Bool.and_eq_true, bne_iff_ne, ne_eq] at hp
    have hb : (b == 0) = false := by simpa using hp.1
    have ih' := ih (by simpa [wfPath] using hp.2)
    simp only [List.cons_append, scanString, hb, ih', latin1Push_eq, List.flatMap_cons]
    simp

theorem texturePaths_rt (ts : List Bytes) (rest : Bytes) (hts : ts.all wfPath = true) :
    texturePaths ts.length (ts.flatMap (fun p => p ++ [0]) ++ rest) =
      .ok (ts.map (·.flatMap Spec.Mtrl.latin1Utf8)) := by
  induction ts with
  | nil => simp [texturePaths]
  | cons p r ih =>
    simp only [List.all_cons, Bool.and_eq_true] at hts
    have h1 := scanString_path p (r.flatMap (fun p => p ++ [0]) ++ rest) hts.1
    have hd : (p ++ 0 :: (r.flatMap (fun p => p ++ [0]) ++ rest)).drop (p.length + 1) =
        r.flatMap (fun p => p ++ [0]) ++ rest := by
      rw [show p ++ 0 :: (r.flatMap (fun p => p ++ [0]) ++ rest) =
        (p ++ [0]) ++ (r.flatMap (fun p => p ++ [0]) ++ rest) by simp]
      exact List.drop_left' (by simp)
    simp only [List.length_cons, texturePaths, List.flatMap_cons, List.append_assoc,
      List.cons_append, List.nil_append, h1, hd, ih hts.2, List.map_cons]

/-- any byte string containing a NUL is scanned to its leading C string, each byte as its Latin-1
character -/
theorem scanString_cstr (s : Bytes) (hnul : s.any (· == 0) = true) :
    scanString s = .ok ((cstr s).flatMap Spec.Mtrl.latin1Utf8, (cstr s).length) := by
  induction s with
  | nil => simp at hnul
  | cons b r ih =>
    by_cases hb : b = 0
    · subst hb; simp [scanString, cstr]
    · have hb' : (b == 0) = false := by simpa using hb
      have hb'' : (b != 0) = true := by simpa using hb
      simp only [List.any_cons, hb', Bool.false_or] at hnul
      have ih' := ih hnul
      simp only [scanString, hb', ih', latin1Push_eq, cstr, List.takeWhile_cons, hb'', if_true,
        List.flatMap_cons]
      simp

/-! ### constants -/

theorem constantOf_rt (vals : List UInt32) (c : ConstantF)
    (h1 : c.valueSize.toNat / 4 ≤ 4)
    (h2 : c.valueOffset.toNat / 4 + c.valueSize.toNat / 4 ≤ vals.length) :
    constantOf vals ⟨c.constantId, c.valueOffset, c.valueSize⟩ = .ok (viewConstant vals c) := by
  have hn : (c.valueSize / 4).toNat = c.valueSize.toNat / 4 := by
    rw [UInt16.toNat_div]; rfl
  have hlen : ((vals.drop (c.valueOffset.toNat / 4)).take (c.valueSize.toNat / 4)).length =
      c.valueSize.toNat / 4 := by
    rw [List.length_take, List.length_drop]; omega
  simp only [constantOf, hn, hlen, viewConstant]
  have : ¬ (c.valueSize.toNat / 4 > 4) := by omega
  simp [this]

theorem constantsOf_rt (f : MaterialF) (cs : List ConstantF) (h : cs.all (wfConstant f) = true) :
    constantsOf f.shaderValues (cs.map fun c => ⟨c.constantId, c.valueOffset, c.valueSize⟩) =
      .ok (cs.map (viewConstant f.shaderValues)) := by
  induction cs with
  | nil => rfl
  | cons c r ih =>
    simp only [List.all_cons, Bool.and_eq_true, wfConstant, decide_eq_true_eq] at h
    simp only [List.map_cons, constantsOf, constantOf_rt _ c h.1.1 h.1.2,
      ih (by simpa [wfConstant] using h.2)]

/-! ### the two optional tables -/

theorem colorTable_rt (ct : ColorTableF) (tf : UInt32) (hk : ct.kind = colorKind tf)
    (hwf : wfColorTable ct = true) (t : Bytes) :
    optColorTable ((tf &&& 0x4) != 0) (tf >>> 4).toUInt8
      (encColorTable ct ++ t) = .ok (viewColorTable ct, t) := by
  unfold optColorTable
  unfold colorKind dimensionLogs at hk
  by_cases h4 : (tf &&& 0x4 == 0) = true
  · rw [if_pos h4] at hk
    have h4' : ((tf &&& 0x4) != 0) = false := by simp [bne, h4]
    cases ct <;> simp [ColorTableF.kind] at hk
    simp [h4', encColorTable, viewColorTable]
  · rw [if_neg h4] at hk
    have h4' : ((tf &&& 0x4) != 0) = true := by simpa [bne] using h4
    rw [if_pos h4']
    unfold parseColorTable
    by_cases hl : ((tf >>> 4).toUInt8 == 0 || (tf >>> 4).toUInt8 == 0x42) = true
    · rw [if_pos hl] at hk
      rw [if_pos hl]
      cases ct <;> simp [ColorTableF.kind] at hk
      rename_i rows
      simp only [wfColorTable, Bool.and_eq_true, decide_eq_true_eq] at hwf
      have := count_flatMap' legacyColorTableRow (fun r => r.flatMap putU16le) decodeLegacyRow rows 16
        hwf.1.symm (fun x hx t => legacyRow_rt x (by simpa using List.all_eq_true.mp hwf.2 x hx) t)
      simp only [bind_apply, encColorTable, this, pure_apply, viewColorTable]
    · rw [if_neg hl] at hk
      rw [if_neg hl]
      by_cases hd : ((tf >>> 4).toUInt8 == 0x53) = true
      · rw [if_pos hd] at hk
        rw [if_pos hd]
        cases ct <;> simp [ColorTableF.kind] at hk
        rename_i rows
        simp only [wfColorTable, Bool.and_eq_true, decide_eq_true_eq] at hwf
        have := count_flatMap' dawntrailColorTableRow (fun r => r.flatMap putU16le) decodeDawntrailRow
          rows 32 hwf.1.symm
          (fun x hx t => dawntrailRow_rt x (by simpa using List.all_eq_true.mp hwf.2 x hx) t)
        simp only [bind_apply, encColorTable, this, pure_apply, viewColorTable]
      · rw [if_neg hd] at hk
        rw [if_neg hd]
        cases ct <;> simp [ColorTableF.kind] at hk
        simp [encColorTable, viewColorTable]

theorem dyeTable_rt (dt : DyeTableF) (tf : UInt32) (hk : dt.kind = dyeKind tf)
    (hwf : wfDyeTable dt = true) (t : Bytes) :
    optColorDyeTable ((tf &&& 0x8) != 0) (tf >>> 4).toUInt8
      (encDyeTable dt ++ t) = .ok (viewDyeTable dt, t) := by
  unfold optColorDyeTable
  unfold dyeKind dimensionLogs at hk
  by_cases h4 : (tf &&& 0x8 == 0) = true
  · rw [if_pos h4] at hk
    have h4' : ((tf &&& 0x8) != 0) = false := by simp [bne, h4]
    cases dt <;> simp [DyeTableF.kind] at hk
    simp [h4', encDyeTable, viewDyeTable]
  · rw [if_neg h4] at hk
    have h4' : ((tf &&& 0x8) != 0) = true := by simpa [bne] using h4
    rw [if_pos h4']
    unfold parseColorDyeTable
    by_cases hl : ((tf >>> 4).toUInt8 == 0) = true
    · rw [if_pos hl] at hk
      rw [if_pos hl]
      cases dt <;> simp [DyeTableF.kind] at hk
      rename_i rows
      simp only [wfDyeTable, Bool.and_eq_true, decide_eq_true_eq] at hwf
      have := count_flatMap_id legacyColorDyeTableRow (fun r => putU16le (packLegacyDye r)) rows 16
        hwf.1.symm (fun x hx t => legacyDye_rt x (List.all_eq_true.mp hwf.2 x hx) t)
      simp only [bind_apply, encDyeTable, this, pure_apply, viewDyeTable]
    · rw [if_neg hl] at hk
      rw [if_neg hl]
      by_cases hd : (decide ((0x50 : UInt8) ≤ (tf >>> 4).toUInt8) && decide ((tf >>> 4).toUInt8 ≤ (0x5F : UInt8))) = true
      · rw [if_pos hd] at hk
        rw [if_pos hd]
        cases dt <;> simp [DyeTableF.kind] at hk
        rename_i rows
        simp only [wfDyeTable, Bool.and_eq_true, decide_eq_true_eq] at hwf
        have := count_flatMap' dawntrailColorDyeTableRow (fun r => putU32le (packDawntrailDye r))
          (·.row) rows 32 hwf.1.symm
          (fun x hx t => dawntrailDye_rt x (List.all_eq_true.mp hwf.2 x hx) t)
        simp only [bind_apply, encDyeTable, this, pure_apply, viewDyeTable]
      · rw [if_neg hd] at hk
        rw [if_neg hd]
        cases dt <;> simp [DyeTableF.kind] at hk
        simp [encDyeTable, viewDyeTable]

/-! ### assembly -/

theorem toNat_ofNat8 (n : Nat) (h : n < 256) : (UInt8.ofNat n).toNat = n := by
  rw [UInt8.toNat_ofNat']; exact Nat.mod_eq_of_lt h

theorem fromExisting_encode (f : MaterialF) (h : WF f = true) :
    fromExisting (encode f) = .ok (view f) := by
  simp only [WF, Bool.and_eq_true, decide_eq_true_eq, beq_iff_eq] at h
  obtain ⟨⟨⟨⟨⟨⟨⟨⟨⟨⟨⟨⟨⟨⟨⟨⟨⟨⟨hheap, htex⟩, huv⟩, hcs⟩, har⟩, hoffs⟩, wtex⟩, hspo⟩, hnul⟩, kct⟩, wct⟩,
    kdye⟩, wdye⟩, hkeys⟩, hconst⟩, hsamp⟩, hvals⟩, wconst⟩, wsamp⟩ := h
  have e1 := count_flatMap_id u32 putU32le f.textureOffsets (u8len f.textures).toNat
    (by rw [u8len, toNat_ofNat8 _ htex, hoffs]) (fun x _ t => u32_append x t)
  have e2 := count_flatMap' colorSet encColorSet (fun c => (⟨c.nameOffset, c.index⟩ : ColorSet)) f.uvSets
    (u8len f.uvSets).toNat (toNat_ofNat8 _ huv) (fun x _ t => colorSet_rt x t)
  have e3 := count_flatMap' colorSet encColorSet (fun c => (⟨c.nameOffset, c.index⟩ : ColorSet)) f.colorSets
    (u8len f.colorSets).toNat (toNat_ofNat8 _ hcs) (fun x _ t => colorSet_rt x t)
  have e4 := fun t => take_append (heap f) t (u16len (heap f)).toNat (toNat_ofNat16 _ hheap).symm
  have e5 := fun t => tableFlags_rt f.tableFlags f.additionalRest t har
  have e6 := colorTable_rt f.colorTable f.tableFlags kct wct
  have e7 := dyeTable_rt f.dyeTable f.tableFlags kdye wdye
  have e8 := count_flatMap_id shaderKey encShaderKey f.shaderKeys (u16len f.shaderKeys).toNat
    (toNat_ofNat16 _ hkeys) (fun x _ t => shaderKey_rt x t)
  have e9 := count_flatMap' constantStruct encConstant
    (fun c => (⟨c.constantId, c.valueOffset, c.valueSize⟩ : ConstantStruct)) f.constants
    (u16len f.constants).toNat (toNat_ofNat16 _ hconst) (fun x _ t => constantStruct_rt x t)
  have e10 := count_flatMap_id sampler encSampler f.samplers (u16len f.samplers).toNat
    (toNat_ofNat16 _ hsamp) (fun x hx t => sampler_rt x (List.all_eq_true.mp wsamp x hx) t)
  have e11 := count_flatMap_id u32 putU32le f.shaderValues (f.shaderValueListSize / 4).toNat
    (by rw [UInt16.toNat_div, hvals]; rfl) (fun x _ t => u32_append x t)
  have s1 : texturePaths (u8len f.textures).toNat (heap f) =
      .ok (f.textures.map (·.flatMap Spec.Mtrl.latin1Utf8)) := by
    rw [u8len, toNat_ofNat8 _ htex]; exact texturePaths_rt f.textures f.heapRest wtex
  have s2 := scanString_cstr _ hnul
  have s3 := constantsOf_rt f f.constants wconst
  simp only [fromExisting, materialData, materialFileHeader, materialHeader, encode, List.append_assoc,
    List.cons_append, List.nil_append, bind_apply, u32_append, u16_append, u8_append,
    e1, e2, e3, e4, e5, e6, e7, e8, e9, e10, e11, s1, s2, s3, pure_apply, view]

end Physis.Mtrl
