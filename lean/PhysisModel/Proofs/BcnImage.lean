import PhysisModel.Proofs.Bcn
/-!
Whole-image induction for `block_decoder` (C13): `copy_from_slice`, the clipped row loop,
`copy_block_buffer`, and the two nested block loops with the invariant "every pixel of an already
decoded block is final and correct; the shared buffer keeps its shape; the data cursor is at
block `N`" (`LoopInv`), for every width and height.
-/
open Physis Physis.Bcn Physis.Spec.Bcn
namespace Physis.Proofs.Bcn

theorem copyFromSlice_size (src : List UInt32) : ∀ (image : Array UInt32) (off : Nat),
    (copyFromSlice image off src).size = image.size := by
  induction src with
  | nil => intro image off; rfl
  | cons v vs ih => intro image off; simp [copyFromSlice, ih]

theorem copyFromSlice_getElem? (src : List UInt32) : ∀ (image : Array UInt32) (off k : Nat),
    off + src.length ≤ image.size →
    (copyFromSlice image off src)[k]? =
      if off ≤ k ∧ k < off + src.length then src[k - off]? else image[k]? := by
  induction src with
  | nil => intro image off k _; simp [copyFromSlice]; omega
  | cons v vs ih =>
    intro image off k h
    simp only [List.length_cons] at h
    rw [copyFromSlice, ih _ _ _ (by simp; omega)]
    simp only [List.length_cons, Array.getElem?_setIfInBounds]
    by_cases h1 : off + 1 ≤ k ∧ k < off + 1 + vs.length
    · have h2 : off ≤ k ∧ k < off + (vs.length + 1) := by omega
      rw [if_pos h1, if_pos h2]
      have : k - off = (k - (off + 1)) + 1 := by omega
      rw [this, List.getElem?_cons_succ]
    · rw [if_neg h1]
      by_cases h3 : off = k
      · subst h3
        have h2 : off ≤ off ∧ off < off + (vs.length + 1) := by omega
        rw [if_pos h2, if_pos rfl, if_pos (by omega)]
        simp
      · rw [if_neg h3, if_neg (by omega)]

/-- position of a pixel: row-major index determines row and column -/
theorem row_mem (w x cw X Y y : Nat) (hX : X < w) (hx : x + cw ≤ w) :
    (y * w + x ≤ Y * w + X ∧ Y * w + X < y * w + x + cw) ↔ (Y = y ∧ x ≤ X ∧ X < x + cw) := by
  constructor
  · intro ⟨h1, h2⟩
    rcases Nat.lt_trichotomy Y y with h | h | h
    · have := Nat.mul_le_mul_right w (show Y + 1 ≤ y from h)
      rw [Nat.add_mul] at this
      omega
    · subst h; omega
    · have := Nat.mul_le_mul_right w (show y + 1 ≤ Y from h)
      rw [Nat.add_mul] at this
      omega
  · rintro ⟨rfl, h1, h2⟩
    omega


theorem copyRows_ok (w x cw : Nat) (buffer : List UInt32) (hx : x + cw ≤ w) :
    ∀ (n y bo : Nat) (image : Array UInt32), (y + n) * w ≤ image.size →
      (n = 0 ∨ bo + 4 * (n - 1) + cw ≤ buffer.length) →
      ∃ img', copyRows w x cw 4 buffer n y bo image = .ok img' ∧ img'.size = image.size ∧
        ∀ X Y, X < w → img'[Y * w + X]? =
          if y ≤ Y ∧ Y < y + n ∧ x ≤ X ∧ X < x + cw then buffer[bo + 4 * (Y - y) + (X - x)]?
          else image[Y * w + X]? := by
  intro n
  induction n with
  | zero =>
    intro y bo image _ _
    refine ⟨image, rfl, rfl, ?_⟩
    intro X Y _
    rw [if_neg (by omega)]
  | succ n ih =>
    intro y bo image hsz hbuf
    have hbuf' : bo + 4 * n + cw ≤ buffer.length := by
      rcases hbuf with h | h
      · omega
      · simpa using h
    have h1 : (y + 1) * w ≤ (y + (n + 1)) * w := Nat.mul_le_mul_right w (by omega)
    rw [Nat.add_mul] at h1
    simp only [Nat.one_mul] at h1
    have hlen : ((buffer.drop bo).take cw).length = cw := by
      simp only [List.length_take, List.length_drop]; omega
    rw [copyRows, if_neg (by omega), if_neg (by omega)]
    have hsz1 : (copyFromSlice image (y * w + x) ((buffer.drop bo).take cw)).size = image.size :=
      copyFromSlice_size _ _ _
    obtain ⟨img', e1, e2, e3⟩ := ih (y + 1) (bo + 4)
      (copyFromSlice image (y * w + x) ((buffer.drop bo).take cw))
      (by rw [hsz1]; have : y + 1 + n = y + (n + 1) := by omega
          rw [this]; exact hsz)
      (by rcases Nat.eq_zero_or_pos n with h | h
          · left; exact h
          · right; omega)
    refine ⟨img', e1, by rw [e2, hsz1], ?_⟩
    intro X Y hX
    rw [e3 X Y hX, copyFromSlice_getElem? _ _ _ _ (by rw [hlen]; omega), hlen]
    by_cases hc : x ≤ X ∧ X < x + cw
    · by_cases hy : Y = y
      · subst hy
        rw [if_neg (by omega), if_pos ((row_mem w x cw X Y Y hX hx).mpr ⟨rfl, hc⟩), if_pos (by omega)]
        have : Y * w + X - (Y * w + x) = X - x := by omega
        rw [this, List.getElem?_take, if_pos (by omega), List.getElem?_drop]
        congr 1; omega
      · have hnr : ¬ (y * w + x ≤ Y * w + X ∧ Y * w + X < y * w + x + cw) := by
          rw [row_mem w x cw X Y y hX hx]; omega
        by_cases hr : y + 1 ≤ Y ∧ Y < y + 1 + n
        · rw [if_pos ⟨hr.1, hr.2, hc⟩, if_pos (by omega)]
          congr 1; omega
        · rw [if_neg (by omega), if_neg hnr, if_neg (by omega)]
    · have hnr : ¬ (y * w + x ≤ Y * w + X ∧ Y * w + X < y * w + x + cw) := by
        rw [row_mem w x cw X Y y hX hx]; omega
      rw [if_neg (by omega), if_neg hnr, if_neg (by omega)]


theorem copyBlockBuffer_ok (bx by_ w h : Nat) (buffer : List UInt32) (image : Array UInt32)
    (hbx : 4 * bx < w) (hby : 4 * by_ < h) (hbuf : buffer.length = 16) (hsz : h * w ≤ image.size) :
    ∃ img', copyBlockBuffer bx by_ w h 4 4 buffer image = .ok img' ∧ img'.size = image.size ∧
      ∀ X Y, X < w → Y < h → img'[Y * w + X]? =
        if X / 4 = bx ∧ Y / 4 = by_ then buffer[4 * (Y % 4) + X % 4]? else image[Y * w + X]? := by
  unfold copyBlockBuffer
  simp only []
  rw [if_neg (by omega), if_neg (by omega)]
  generalize hcw : (if 4 * (bx + 1) > w then w - 4 * bx else 4) = cw
  generalize hch : (if 4 * (by_ + 1) > h then h - by_ * 4 else 4) = ch
  have hcw1 : 4 * bx + cw ≤ w ∧ cw ≤ 4 ∧ (4 * (bx + 1) ≤ w → cw = 4) ∧ (w < 4 * (bx + 1) → 4 * bx + cw = w) := by
    subst hcw; split <;> omega
  have hch1 : by_ * 4 + ch ≤ h ∧ ch ≤ 4 ∧ (4 * (by_ + 1) ≤ h → ch = 4) ∧ (h < 4 * (by_ + 1) → by_ * 4 + ch = h) := by
    subst hch; split <;> omega
  have hrows : (by_ * 4 + ch) * w ≤ image.size :=
    Nat.le_trans (Nat.mul_le_mul_right w hch1.1) hsz
  obtain ⟨img', e1, e2, e3⟩ := copyRows_ok w (4 * bx) cw buffer hcw1.1 ch (by_ * 4) 0 image hrows
    (by right; omega)
  refine ⟨img', e1, e2, ?_⟩
  intro X Y hX hY
  rw [e3 X Y hX]
  by_cases hc : X / 4 = bx ∧ Y / 4 = by_
  · rw [if_pos hc, if_pos (by omega)]
    congr 1; omega
  · rw [if_neg hc, if_neg (by omega)]


theorem forRange_inv (f : St → Nat → Except Err St) (P : Nat → St → Prop) :
    ∀ (n i : Nat) (st : St), P i st →
      (∀ j st, i ≤ j → j < i + n → P j st → ∃ st', f st j = .ok st' ∧ P (j + 1) st') →
      ∃ st', forRange f n i st = .ok st' ∧ P (i + n) st' := by
  intro n
  induction n with
  | zero => intro i st h _; exact ⟨st, rfl, h⟩
  | succ n ih =>
    intro i st h hstep
    obtain ⟨st1, e1, p1⟩ := hstep i st (Nat.le_refl _) (by omega) h
    obtain ⟨st2, e2, p2⟩ := ih (i + 1) st1 p1 (fun j st hj1 hj2 hp => hstep j st (by omega) (by omega) hp)
    refine ⟨st2, ?_, ?_⟩
    · rw [forRange, e1]; exact e2
    · have : i + (n + 1) = i + 1 + n := by omega
      rw [this]; exact p2

/-- block `n` of the payload, as the decoder addresses it (`&data[n * size..]`, first `size` bytes) -/
def blockN (fmt : Format) (data : Bytes) (n : Nat) : Bytes :=
  (data.drop (n * fmt.blockBytes)).take fmt.blockBytes

/-- loop invariant of `block_decoder` after `N` blocks (row-major): buffer shape, image size,
data cursor, and every pixel of an already decoded block is final and correct -/
structure LoopInv (conv : Bc3Colour) (fmt : Format) (InvP : UInt32 → Prop) (data : Bytes) (w h nbx : Nat)
    (N : Nat) (st : St) : Prop where
  buflen : st.buffer.length = 16
  bufinv : ∀ p ∈ st.buffer, InvP p
  size : st.image.size = w * h
  rest : st.rest = data.drop (N * fmt.blockBytes)
  done : ∀ X Y, X < w → Y < h → (Y / 4) * nbx + X / 4 < N → ∃ wd, st.image[Y * w + X]? = some wd ∧
    canonPixel conv fmt (blockN fmt data ((Y / 4) * nbx + X / 4)) ((Y % 4) * 4 + X % 4) = some (pxOfWord wd) ∧
    PixelOK conv fmt (blockN fmt data ((Y / 4) * nbx + X / 4)) ((Y % 4) * 4 + X % 4) (pxOfWord wd)

theorem blockStep_inv (conv : Bc3Colour) (fmt : Format) (blockFn : Bytes → List UInt32 → Except Err (List UInt32))
    (InvP : UInt32 → Prop) (hB : BlockOK conv fmt blockFn InvP) (data : Bytes) (w h : Nat)
    (hdata : (w + 4 - 1) / 4 * ((h + 4 - 1) / 4) * fmt.blockBytes ≤ data.length)
    (bx by_ : Nat) (hbx : bx < (w + 4 - 1) / 4) (hby : by_ < (h + 4 - 1) / 4) (st : St)
    (inv : LoopInv conv fmt InvP data w h ((w + 4 - 1) / 4) (by_ * ((w + 4 - 1) / 4) + bx) st) :
    ∃ st', blockStep fmt.blockBytes blockFn w h by_ st bx = .ok st' ∧
      LoopInv conv fmt InvP data w h ((w + 4 - 1) / 4) (by_ * ((w + 4 - 1) / 4) + bx + 1) st' := by
  generalize hnbx : (w + 4 - 1) / 4 = nbx at *
  generalize hnby : (h + 4 - 1) / 4 = nby at *
  have hN1 : by_ * nbx + bx + 1 ≤ nbx * nby := by
    have := Nat.mul_le_mul_right nbx (show by_ + 1 ≤ nby from hby)
    rw [Nat.add_mul, Nat.mul_comm nby nbx] at this
    omega
  have hN2 : (by_ * nbx + bx + 1) * fmt.blockBytes ≤ data.length :=
    Nat.le_trans (Nat.mul_le_mul_right fmt.blockBytes hN1) hdata
  rw [Nat.add_mul, Nat.one_mul] at hN2
  have hrest : fmt.blockBytes ≤ st.rest.length := by rw [inv.rest, List.length_drop]; omega
  obtain ⟨buf', eb, hl, hi, hp⟩ := hB st.rest st.buffer hrest inv.buflen inv.bufinv
  obtain ⟨img', ei, hs, hpx⟩ := copyBlockBuffer_ok bx by_ w h buf' st.image (by omega) (by omega) hl
    (by rw [inv.size, Nat.mul_comm]; exact Nat.le_refl _)
  refine ⟨⟨buf', img', st.rest.drop fmt.blockBytes⟩, ?_, ?_⟩
  · simp only [blockStep, eb, ei]
  · refine ⟨hl, hi, by rw [hs, inv.size], ?_, ?_⟩
    · simp only [inv.rest, List.drop_drop]
      congr 1
      simp only [Nat.add_mul, Nat.one_mul]
    · intro X Y hX hY hlt
      rw [hpx X Y hX hY]
      by_cases hc : X / 4 = bx ∧ Y / 4 = by_
      · rw [if_pos hc]
        obtain ⟨wd, e1, e2, e3⟩ := hp ((Y % 4) * 4 + X % 4) (by omega)
        refine ⟨wd, ?_, ?_, ?_⟩
        · rw [← e1]; congr 1; omega
        · rw [hc.1, hc.2, blockN, ← inv.rest]; exact e2
        · rw [hc.1, hc.2, blockN, ← inv.rest]; exact e3
      · rw [if_neg hc]
        have hne : ¬ (by_ * nbx + bx ≤ (Y / 4) * nbx + X / 4 ∧ (Y / 4) * nbx + X / 4 < by_ * nbx + bx + 1) := by
          rw [row_mem nbx bx 1 (X / 4) (Y / 4) by_ (by omega) (by omega)]
          omega
        exact inv.done X Y hX hY (by omega)


/-- **`block_decoder` for every image size**: with enough data and an image buffer of `w·h` words
it neither fails nor panics, and every pixel `(X, Y)` ends up as the canonical decoding of entry
`(Y % 4)·4 + X % 4` of block `(Y / 4)·⌈w/4⌉ + X / 4` — including partial edge blocks, and with the
block buffer shared between blocks. -/
theorem blockDecoder_ok (conv : Bc3Colour) (fmt : Format)
    (blockFn : Bytes → List UInt32 → Except Err (List UInt32))
    (InvP : UInt32 → Prop) (hB : BlockOK conv fmt blockFn InvP)
    (hinit : ∀ p ∈ List.replicate 16 (color 0 0 0 255), InvP p)
    (data : Bytes) (w h : Nat) (image : Array UInt32)
    (hdata : (w + 4 - 1) / 4 * ((h + 4 - 1) / 4) * fmt.blockBytes ≤ data.length)
    (hsize : image.size = w * h) :
    ∃ img', blockDecoder fmt.blockBytes blockFn data w h image = .ok img' ∧ img'.size = w * h ∧
      ∀ X Y, X < w → Y < h → ∃ wd, img'[Y * w + X]? = some wd ∧
        canonPixel conv fmt (blockN fmt data ((Y / 4) * ((w + 4 - 1) / 4) + X / 4)) ((Y % 4) * 4 + X % 4)
          = some (pxOfWord wd) ∧
        PixelOK conv fmt (blockN fmt data ((Y / 4) * ((w + 4 - 1) / 4) + X / 4)) ((Y % 4) * 4 + X % 4)
          (pxOfWord wd) := by
  unfold blockDecoder
  simp only []
  rw [if_neg (by omega), if_neg (by omega)]
  -- outer loop: after `by_` block rows
  have houter := forRange_inv
    (fun st by_ => forRange (blockStep fmt.blockBytes blockFn w h by_) ((w + 4 - 1) / 4) 0 st)
    (fun by_ st => LoopInv conv fmt InvP data w h ((w + 4 - 1) / 4) (by_ * ((w + 4 - 1) / 4)) st)
    ((h + 4 - 1) / 4) 0 ⟨List.replicate 16 (color 0 0 0 255), image, data⟩
    (by
      refine ⟨by simp, hinit, hsize, by simp, ?_⟩
      intro X Y _ _ hlt
      simp at hlt)
    (by
      intro by_ st _ hby inv
      -- inner loop: after `bx` blocks of this row
      have hinner := forRange_inv (blockStep fmt.blockBytes blockFn w h by_)
        (fun bx st => LoopInv conv fmt InvP data w h ((w + 4 - 1) / 4) (by_ * ((w + 4 - 1) / 4) + bx) st)
        ((w + 4 - 1) / 4) 0 st (by simpa using inv)
        (by
          intro bx st' _ hbx inv'
          exact blockStep_inv conv fmt blockFn InvP hB data w h hdata bx by_ (by omega) (by omega) st' inv')
      obtain ⟨st', e, inv'⟩ := hinner
      refine ⟨st', e, ?_⟩
      simp only [Nat.zero_add] at inv'
      rw [Nat.add_mul, Nat.one_mul]
      exact inv')
  obtain ⟨st, e, inv⟩ := houter
  simp only [Nat.zero_add] at inv
  rw [e]
  refine ⟨st.image, rfl, inv.size, ?_⟩
  intro X Y hX hY
  refine inv.done X Y hX hY ?_
  have h1 : Y / 4 + 1 ≤ (h + 4 - 1) / 4 := by omega
  have := Nat.mul_le_mul_right ((w + 4 - 1) / 4) h1
  rw [Nat.add_mul, Nat.one_mul] at this
  omega

end Physis.Proofs.Bcn
