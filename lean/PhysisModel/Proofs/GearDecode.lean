import PhysisModel.Spec.GearSetLayout
import PhysisModel.Proofs.GearSets
import PhysisModel.Base.BytesLemmas
import Std.Tactic.BVDecide
/-! The independent fixed-stride gear-set decoder of `Spec/GearSetLayout.lean` inverts the documented encoder. -/
namespace Physis.Spec.GearSet

theorem chunks_flatMap {α : Type} (l : List α) (f : α → Bytes) (k : Nat) (rest : Bytes)
    (h : ∀ x ∈ l, (f x).length = k) : chunks l.length k (l.flatMap f ++ rest) = l.map f := by
  induction l with
  | nil => rfl
  | cons a t ih =>
    have ha := h a (by simp)
    simp only [List.length_cons, chunks, List.flatMap_cons, List.append_assoc, List.map_cons]
    rw [List.take_left' ha, List.drop_left' ha, ih (fun x hx => h x (by simp [hx]))]

theorem mapM_map_some {α β : Type} (l : List α) (f : α → β) (g : β → Option α)
    (h : ∀ x ∈ l, g (f x) = some x) : (l.map f).mapM g = some l := by
  induction l with
  | nil => rfl
  | cons a t ih =>
    simp only [List.map_cons, List.mapM_cons, h a (by simp), ih (fun x hx => h x (by simp [hx]))]
    rfl

theorem u32At_words (w0 w1 w2 w3 w4 w5 w6 : UInt32) (rest : Bytes) :
    let r := putU32le w0 ++ (putU32le w1 ++ (putU32le w2 ++ (putU32le w3 ++ (putU32le w4 ++
      (putU32le w5 ++ (putU32le w6 ++ rest))))))
    u32At r 0 = some w0 ∧ u32At r 4 = some w1 ∧ u32At r 8 = some w2 ∧ u32At r 12 = some w3 ∧
    u32At r 16 = some w4 ∧ u32At r 20 = some w5 ∧ u32At r 24 = some w6 := by
  intro r
  refine ⟨?_, ?_, ?_, ?_, ?_, ?_, ?_⟩ <;>
  · simp only [r, u32At, putU32le, List.cons_append, List.nil_append, List.drop_succ_cons, List.drop_zero,
      List.take_succ_cons, List.take_zero]
    exact getU32le_put _

theorem encSlot_none_words : encSlot none = putU32le marker ++ (putU32le 0 ++ (putU32le 0 ++ (putU32le 0 ++
    (putU32le 0 ++ (putU32le 0 ++ (putU32le 0 ++ [])))))) := by decide

theorem idOpt_optId (o : Option UInt32) (h : o ≠ some 0) : idOpt (optId o) = o := by
  cases o with
  | none => simp [idOpt, optId]
  | some v =>
    have : v ≠ 0 := by intro e; apply h; rw [e]
    simp [idOpt, optId, this]

theorem strip (id : UInt32) (h : id &&& marker = 0) : (id ||| marker) &&& ~~~marker = id := by
  simp only [marker] at *
  bv_decide (timeout := 300)

theorem decSlot_encSlot (o : Option Slot) (h : ∀ x, o = some x → SlotOK x) : decSlot (encSlot o) = some o := by
  cases o with
  | none =>
    rw [encSlot_none_words]
    obtain ⟨h0, h1, h2, h3, h4, h5, h6⟩ := u32At_words marker 0 0 0 0 0 0 []
    simp only [decSlot, h0, h1, h2, h3, h4, h5, h6, Option.bind_eq_bind, Option.bind_some]
    have : marker &&& ~~~marker = 0 := by decide
    simp [this]
  | some s =>
    obtain ⟨⟨hm, hz⟩, hg⟩ := h s rfl
    obtain ⟨h0, h1, h2, h3, h4, h5, h6⟩ :=
      u32At_words (s.id ||| marker) (optId s.glamour) s.unk1 s.unk2 s.unk3 s.unk4 s.unk5 []
    simp only [List.append_nil] at h0 h1 h2 h3 h4 h5 h6
    simp only [encSlot, List.append_assoc, decSlot, h0, h1, h2, h3, h4, h5, h6, Option.bind_eq_bind,
      Option.bind_some, strip s.id hm, idOpt_optId _ hg]
    simp [hz]

theorem takeWhile_name (name : Bytes) (k : Nat) (h : 0 ∉ name) :
    (name ++ List.replicate (k + 1) (0 : UInt8)).takeWhile (· ≠ 0) = name := by
  induction name with
  | nil => simp [List.replicate_succ]
  | cons c t ih =>
    have hc : c ≠ 0 := by intro e; apply h; simp [e]
    have ht : 0 ∉ t := by intro e; apply h; simp [e]
    have hp : decide (c ≠ 0) = true := by simp [hc]
    rw [List.cons_append, List.takeWhile_cons, if_pos hp, ih ht]

theorem encSlot_len (o : Option Slot) : (encSlot o).length = 28 := by
  cases o <;> simp [encSlot]

theorem flatMap_len {α : Type} (l : List α) (f : α → Bytes) (k : Nat)
    (h : ∀ x ∈ l, (f x).length = k) : (l.flatMap f).length = l.length * k := by
  induction l with
  | nil => simp
  | cons a t ih =>
    rw [List.flatMap_cons, List.length_append, h a (by simp), ih (fun x hx => h x (by simp [hx])),
      List.length_cons, Nat.succ_mul, Nat.add_comm]

theorem decSet_encSome (g : GearSet)
    (hlen : g.name.length ≤ 46) (hnul : 0 ∉ g.name) (hs : g.slots.length = 14)
    (hok : ∀ s ∈ g.slots, ∀ x, s = some x → SlotOK x) (hf : g.facewear ≠ some 0) :
    decSet (encSome g) = some (if g.name = [] then none else some g) := by
  have e : 47 - g.name.length = (46 - g.name.length) + 1 := by omega
  have hname : (g.name ++ List.replicate (47 - g.name.length) (0 : UInt8)).length = 47 := by simp; omega
  have hslen : (g.slots.flatMap encSlot).length = 392 := by
    rw [flatMap_len g.slots encSlot 28 (fun x _ => encSlot_len x), hs]
  have h1 : (encSome g)[0]? = some g.index := by simp [encSome]
  have hd1 : (encSome g).drop 1 = (g.name ++ List.replicate (47 - g.name.length) 0) ++
      (putU64le g.unk ++ (g.slots.flatMap encSlot ++ putU32le (optId g.facewear))) := by
    simp [encSome]
  have hd48 : (encSome g).drop 48 = putU64le g.unk ++ (g.slots.flatMap encSlot ++ putU32le (optId g.facewear)) := by
    rw [show 48 = 1 + 47 from rfl, ← List.drop_drop, hd1, List.drop_left' hname]
  have hd56 : (encSome g).drop 56 = g.slots.flatMap encSlot ++ putU32le (optId g.facewear) := by
    rw [show 56 = 48 + 8 from rfl, ← List.drop_drop, hd48, List.drop_left' (putU64le_length _)]
  have hd448 : (encSome g).drop 448 = putU32le (optId g.facewear) := by
    rw [show 448 = 56 + 392 from rfl, ← List.drop_drop, hd56, List.drop_left' hslen]
  have hname2 : (((encSome g).drop 1).take 47).takeWhile (· ≠ 0) = g.name := by
    rw [hd1, List.take_left' hname, e, takeWhile_name _ _ hnul]
  have hunk : getU64le (((encSome g).drop 48).take 8) = some g.unk := by
    rw [hd48, List.take_left' (putU64le_length _), getU64le_put]
  have hslots : (chunks 14 28 ((encSome g).drop 56)).mapM decSlot = some g.slots := by
    rw [hd56, ← hs, chunks_flatMap g.slots encSlot 28 _ (fun x _ => encSlot_len x)]
    exact mapM_map_some g.slots encSlot decSlot (fun x hx => decSlot_encSlot x (hok x hx))
  have hfw : u32At (encSome g) 448 = some (optId g.facewear) := by
    unfold u32At
    rw [hd448, List.take_of_length_le (by simp), getU32le_put]
  simp only [decSet, h1, hname2, hunk, hslots, hfw, Option.bind_eq_bind, Option.bind_some, idOpt_optId _ hf]
  rfl

theorem decSet_encSet (o : Option GearSet) (h : ∀ g, o = some g → SetOK g) : decSet (encSet o) = some o := by
  cases o with
  | none =>
    have := decSet_encSome emptySet (by decide) (by decide) (by decide)
      (by intro s hs x hx; simp [emptySet] at hs; rw [hs] at hx; cases hx) (by decide)
    simpa [encSet, emptySet] using this
  | some g =>
    obtain ⟨hne, hlen, hnul, hs, hok, hf, _⟩ := h g rfl
    rw [encSet, decSet_encSome g hlen hnul hs hok hf, if_neg hne]

theorem xor_key_twice (l : Bytes) : (l.map (· ^^^ key)).map (· ^^^ key) = l := by
  rw [List.map_map]
  conv => rhs; rw [← List.map_id l]
  apply List.map_congr_left; intro x _
  simp only [Function.comp, key, id]
  bv_decide (timeout := 300)

theorem decode_encode (t : Table) (h : WF t) : decode (encode t) = some t := by
  have hsz := Physis.GearSets.wf_sizes t h
  have hlen := Physis.GearSets.encode_length t h.1 hsz
  have hh : header.length = 17 := by decide
  have htake : (encode t).take 17 = header := by rw [encode, List.take_left' hh]
  have hbody : ((encode t).drop 17).map (· ^^^ key) = encBody t := by
    rw [encode, List.drop_left' hh, xor_key_twice]
  have hb0 : (encBody t)[0]? = some t.unk1 := by simp [encBody]
  have hb1 : (encBody t)[1]? = some t.current := by simp [encBody]
  have hb2 : getU16le (((encBody t).drop 2).take 2) = some t.unk3 := by
    have : ((encBody t).drop 2).take 2 = putU16le t.unk3 := by simp [encBody, putU16le]
    rw [this, getU16le_put]
  have hd4 : (encBody t).drop 4 = t.sets.flatMap encSet ++ [] := by simp [encBody, putU16le]
  have hsets : (chunks 100 452 ((encBody t).drop 4)).mapM decSet = some t.sets := by
    rw [hd4, ← h.1, chunks_flatMap t.sets encSet 452 []
      (fun x hx => Physis.GearSets.encSet_length x (hsz x hx))]
    exact mapM_map_some t.sets encSet decSet (fun x hx => decSet_encSet x (h.2 x hx))
  simp only [decode, hlen, htake, hbody, hb0, hb1, hb2, hsets, ne_eq, not_true_eq_false, if_false,
    Option.bind_eq_bind, Option.bind_some]
  rfl

end Physis.Spec.GearSet
