import PhysisModel.Model.Cfg
import PhysisModel.Spec.CfgText
import PhysisModel.Proofs.StrLines
/-! Helper lemmas for C08 (configuration files): the model of `src/cfg.rs` against `Spec/CfgText`. -/
namespace Physis.Cfg
open Physis.StrLines
open Physis.Spec.Cfg (Config kvLine catLine catLines fileLines crlf encode NameOK KeyOK ValueOK EntryOK WF namesOf keysOf)

/-- the configuration a `ConfigFile` stands for: its categories in order, each with the keys the
map holds for it (no map entry = no keys) -/
def view (cf : ConfigFile) : Config :=
  cf.categories.map fun n => (n, match get? cf.settings n with | some ks => ks | none => [])

/-- the `ConfigFile` the parser builds for a configuration: a map entry exists exactly for the
categories that have at least one key/value line -/
def keep (cat : Bytes × List Entry) : Bool :=
  match cat.2 with
  | [] => false
  | _ :: _ => true

def ofConfig (c : Config) : ConfigFile :=
  ⟨c.map (·.1), c.filter keep⟩

theorem keep_false {cat : Bytes × List Entry} (h : cat.2 = []) : keep cat = false := by
  unfold keep; rw [h]
theorem keep_true {cat : Bytes × List Entry} (h : cat.2 ≠ []) : keep cat = true := by
  unfold keep; cases hc : cat.2 with
  | nil => exact absurd hc h
  | cons _ _ => rfl

/-! ### writer -/

theorem crlf_kvLine (e : Entry) : crlf (kvLine e) = writeKey e := by
  simp [crlf, kvLine, writeKey]

theorem catLines_flatMap_crlf (n : Bytes) (ks : List Entry) :
    (catLines (n, ks)).flatMap crlf = [13, 10, 60] ++ n ++ [62, 13, 10] ++ ks.flatMap writeKey := by
  simp only [catLines, List.flatMap_cons, List.flatMap_map, crlf_kvLine]
  simp [crlf, catLine]

theorem write_eq_encode_aux (s : Settings) (cs : List Bytes) :
    ((cs.map fun n => (n, match get? s n with | some ks => ks | none => [])).flatMap catLines).flatMap crlf
      = cs.flatMap (writeCategory s) := by
  induction cs with
  | nil => rfl
  | cons n t ih =>
    simp only [List.map_cons, List.flatMap_cons, List.flatMap_append, ih, catLines_flatMap_crlf]
    congr 1
    unfold writeCategory
    cases get? s n <;> simp

theorem writeCfg_eq_encode (cf : ConfigFile) : writeCfg cf = encode (view cf) := by
  simp only [writeCfg, encode, fileLines, view, write_eq_encode_aux]

/-! ### `view ∘ ofConfig` -/

theorem get?_filter_of_not_mem (c : Config) (n : Bytes) (h : n ∉ c.map (·.1)) :
    get? (c.filter keep) n = none := by
  induction c with
  | nil => rfl
  | cons a t ih =>
    have h1 : a.1 ≠ n := by intro e; apply h; simp [e]
    have h2 : n ∉ t.map (·.1) := by intro e; apply h; simp [e]
    by_cases ha : a.2 = []
    · simp [List.filter_cons, keep_false ha, ih h2]
    · simp [List.filter_cons, keep_true ha, get?, h1, ih h2]

theorem view_ofConfig_aux (c : Config) (hd : (c.map (·.1)).Nodup) (cat : Bytes × List Entry) (hc : cat ∈ c) :
    (match get? (c.filter keep) cat.1 with | some ks => ks | none => []) = cat.2 := by
  induction c with
  | nil => cases hc
  | cons a t ih =>
    simp only [List.map_cons, List.nodup_cons] at hd
    rcases List.mem_cons.mp hc with rfl | hin
    · by_cases ha : cat.2 = []
      · simp [List.filter_cons, keep_false ha, get?_filter_of_not_mem t cat.1 hd.1, ha]
      · simp [List.filter_cons, keep_true ha, get?]
    · have hne : a.1 ≠ cat.1 := by
        intro e; apply hd.1; rw [e]; exact List.mem_map_of_mem hin
      by_cases ha : a.2 = []
      · simp only [List.filter_cons, keep_false ha]; simpa using ih hd.2 hin
      · rw [List.filter_cons, keep_true ha, if_pos rfl, get?, if_neg hne]; exact ih hd.2 hin

theorem view_ofConfig (c : Config) (hd : (namesOf c).Nodup) : view (ofConfig c) = c := by
  unfold view ofConfig
  simp only [List.map_map]
  conv => rhs; rw [← List.map_id c]
  apply List.map_congr_left
  intro cat hc
  have := view_ofConfig_aux c hd cat hc
  simp only [Function.comp, id]
  rw [this]

/-! ### parser -/

theorem pushKey_new (s : Settings) (n : Bytes) (kv : Entry) (h : n ∉ s.map (·.1)) :
    pushKey s n kv = s ++ [(n, [kv])] := by
  induction s with
  | nil => rfl
  | cons a t ih =>
    have h1 : a.1 ≠ n := by intro e; apply h; simp [e]
    have h2 : n ∉ t.map (·.1) := by intro e; apply h; simp [e]
    simp [pushKey, h1, ih h2]

theorem pushKey_last (s : Settings) (n : Bytes) (pre : List Entry) (kv : Entry) (h : n ∉ s.map (·.1)) :
    pushKey (s ++ [(n, pre)]) n kv = s ++ [(n, pre ++ [kv])] := by
  induction s with
  | nil => simp [pushKey]
  | cons a t ih =>
    have h1 : a.1 ≠ n := by intro e; apply h; simp [e]
    have h2 : n ∉ t.map (·.1) := by intro e; apply h; simp [e]
    simp [pushKey, h1, ih h2]

theorem pushAll_last (s : Settings) (n : Bytes) (pre kvs : List Entry) (h : n ∉ s.map (·.1)) :
    kvs.foldl (fun s kv => pushKey s n kv) (s ++ [(n, pre)]) = s ++ [(n, pre ++ kvs)] := by
  induction kvs generalizing pre with
  | nil => simp
  | cons kv t ih => simp [pushKey_last s n pre kv h, ih]

theorem pushAll_new (s : Settings) (n : Bytes) (kvs : List Entry) (h : n ∉ s.map (·.1)) :
    kvs.foldl (fun s kv => pushKey s n kv) s = s ++ [(n, kvs)].filter keep := by
  cases kvs with
  | nil => simp [List.filter_cons, keep]
  | cons kv t => simp [pushKey_new s n kv h, pushAll_last s n [kv] t h, List.filter_cons, keep]

theorem step_kvLine (cur : Bytes) (cf : ConfigFile) (e : Entry) (he : EntryOK e) :
    step (some cur, cf) (kvLine e) = some (some cur, { cf with settings := pushKey cf.settings cur e }) := by
  obtain ⟨⟨_, k60, k62, k9⟩, _, v60, v62⟩ := he
  have h1 : kvLine e ≠ [] := by simp [kvLine]
  have h2 : kvLine e ≠ [0] := by
    intro h
    have : (9 : UInt8) ∈ [0] := by rw [← h]; simp [kvLine]
    simp at this
  have h3 : ¬ (60 ∈ kvLine e ∨ 62 ∈ kvLine e) := by simp [kvLine, k60, k62, v60, v62]
  have h4 : splitOnce 9 (kvLine e) = some (e.1, e.2) := splitOnce_append 9 e.1 e.2 k9
  simp only [step, h1, h2, h3, h4, ne_eq, not_false_eq_true, and_self, if_true, if_false]

theorem step_catLine (st : Option Bytes × ConfigFile) (n : Bytes) (hn : NameOK n) :
    step st (catLine n) = some (some n, { st.2 with categories := st.2.categories ++ [n] }) := by
  have h1 : catLine n ≠ [] := by simp [catLine]
  have h2 : catLine n ≠ [0] := by simp [catLine]
  have h3 : 60 ∈ catLine n ∨ 62 ∈ catLine n := by simp [catLine]
  have h4 := slice_bracket n (by
    intro b hb
    have := hn.2
    cases n with
    | nil => cases hb
    | cons c t =>
      simp only [List.head?_cons, Option.some.injEq] at hb; subst hb
      simpa [Spec.Cfg.startsOnBoundary] using this)
  simp only [step, h1, h2, h3, ne_eq, not_false_eq_true, and_self, if_true]
  unfold catLine at h4 ⊢
  rw [h4]

theorem step_skip_empty (st : Option Bytes × ConfigFile) : step st [] = some st := by simp [step]
theorem step_skip_nul (st : Option Bytes × ConfigFile) : step st [0] = some st := by simp [step]

theorem fold_kvLines (cur : Bytes) (cs : List Bytes) (s : Settings) (kvs : List Entry)
    (h : ∀ e ∈ kvs, EntryOK e) :
    (kvs.map kvLine).foldlM step (some cur, ⟨cs, s⟩)
      = some (some cur, ⟨cs, kvs.foldl (fun s kv => pushKey s cur kv) s⟩) := by
  induction kvs generalizing s with
  | nil => rfl
  | cons e t ih =>
    have he : EntryOK e := h e (by simp)
    have ht : ∀ x ∈ t, EntryOK x := fun x hx => h x (by simp [hx])
    simp only [List.map_cons, List.foldlM_cons, step_kvLine cur ⟨cs, s⟩ e he, List.foldl_cons]
    exact ih _ ht

theorem fold_catLines (st : Option Bytes × ConfigFile) (n : Bytes) (kvs : List Entry)
    (hn : NameOK n) (h : ∀ e ∈ kvs, EntryOK e) :
    (catLines (n, kvs)).foldlM step st
      = some (some n, ⟨st.2.categories ++ [n], kvs.foldl (fun s kv => pushKey s n kv) st.2.settings⟩) := by
  simp only [catLines, List.foldlM_cons, step_skip_empty, Option.bind_eq_bind, Option.bind_some,
    step_catLine st n hn]
  exact fold_kvLines n _ _ kvs h

theorem fold_fileLines (c : Config) (cur : Option Bytes) (cs : List Bytes) (s : Settings)
    (hd : (c.map (·.1)).Nodup) (hdis : ∀ n ∈ c.map (·.1), n ∉ s.map (·.1))
    (hok : ∀ cat ∈ c, NameOK cat.1 ∧ ∀ e ∈ cat.2, EntryOK e) :
    ∃ cur', (fileLines c).foldlM step (cur, ⟨cs, s⟩)
      = some (cur', ⟨cs ++ c.map (·.1), s ++ c.filter keep⟩) := by
  induction c generalizing cur cs s with
  | nil => exact ⟨cur, by simp [fileLines]⟩
  | cons a t ih =>
    obtain ⟨n, kvs⟩ := a
    simp only [List.map_cons, List.nodup_cons] at hd
    have ha := hok (n, kvs) (by simp)
    have hns : n ∉ s.map (·.1) := hdis n (by simp)
    have hpush := pushAll_new s n kvs hns
    have hdis' : ∀ m ∈ t.map (·.1), m ∉ (s ++ [(n, kvs)].filter keep).map (·.1) := by
      intro m hm
      have hms : m ∉ s.map (·.1) := hdis m (by simp [hm])
      have hmn : m ≠ n := by intro e; apply hd.1; rw [← e]; exact hm
      by_cases hk : kvs = []
      · simpa [List.filter_cons, keep, hk] using hms
      · have : keep (n, kvs) = true := keep_true hk
        simp [List.filter_cons, this]
        exact ⟨by simpa using hms, hmn⟩
    obtain ⟨cur', hrec⟩ := ih (some n) (cs ++ [n]) (s ++ [(n, kvs)].filter keep)
      hd.2 hdis' (fun cat hc => hok cat (by simp [hc]))
    refine ⟨cur', ?_⟩
    simp only [fileLines, List.flatMap_cons, List.foldlM_append] at hrec ⊢
    rw [fold_catLines _ n kvs ha.1 ha.2]
    simp only [Option.bind_eq_bind, Option.bind_some, hpush]
    rw [hrec]
    by_cases hk : kvs = []
    · simp [List.filter_cons, keep_false (cat := (n, kvs)) hk]
    · simp [List.filter_cons, keep_true (cat := (n, kvs)) hk]

theorem lines_encode (c : Config) (h : ∀ cat ∈ c, NameOK cat.1 ∧ ∀ e ∈ cat.2, EntryOK e) :
    lines (encode c) = fileLines c ++ [[0]] := by
  have hl : ∀ l ∈ fileLines c, 10 ∉ l := by
    intro l hl
    simp only [fileLines, List.mem_flatMap] at hl
    obtain ⟨cat, hc, hl⟩ := hl
    have := h cat hc
    simp only [catLines, List.mem_cons, List.mem_map] at hl
    rcases hl with rfl | rfl | ⟨e, he, rfl⟩
    · simp
    · simp [catLine, this.1.1]
    · have := this.2 e he
      simp [kvLine, this.1.1, this.2.1]
  have := lines_flatMap_crlf (fileLines c) [0] hl
  unfold encode crlf
  rw [this, lines_last [0] (by simp) (by simp)]

theorem parseCfg_encode (c : Config) (h : WF c) : parseCfg (encode c) = some (ofConfig c) := by
  obtain ⟨cur', hf⟩ := fold_fileLines c none [] [] h.1 (by simp) h.2
  unfold parseCfg
  rw [lines_encode c h.2, List.foldlM_append, hf]
  simp [step_skip_nul, ofConfig]

/-! ### `set_value` -/

theorem get?_map_values (s : Settings) (f : List Entry → List Entry) (n : Bytes) :
    get? (s.map fun m => (m.1, f m.2)) n = (get? s n).map f := by
  induction s with
  | nil => rfl
  | cons a t ih => by_cases h : a.1 = n <;> simp [get?, h, ih]

theorem view_setValue (cf : ConfigFile) (k v : Bytes) :
    view (setValue cf k v) = Spec.Cfg.setValue (view cf) k v := by
  unfold view setValue Spec.Cfg.setValue
  simp only [List.map_map]
  apply List.map_congr_left
  intro n _
  simp only [Function.comp, get?_map_values]
  cases get? cf.settings n <;> simp [eq_comm]

theorem setValue_ofConfig (c : Config) (k v : Bytes) :
    setValue (ofConfig c) k v = ofConfig (Spec.Cfg.setValue c k v) := by
  unfold setValue ofConfig Spec.Cfg.setValue
  simp only [List.map_map, List.filter_map, ConfigFile.mk.injEq]
  refine ⟨by simp [Function.comp], ?_⟩
  have : (keep ∘
      fun cat : Bytes × List Entry => (cat.1, cat.2.map fun e => if e.1 = k then (e.1, v) else e))
      = keep := by
    funext cat; obtain ⟨n, ks⟩ := cat; cases ks <;> simp [keep]
  rw [this]
  apply List.map_congr_left
  intro cat _
  simp [eq_comm]

theorem setValues_ofConfig (c : Config) (edits : List (Bytes × Bytes)) :
    edits.foldl (fun cf e => setValue cf e.1 e.2) (ofConfig c) = ofConfig (Spec.Cfg.setValues c edits) := by
  unfold Spec.Cfg.setValues
  induction edits generalizing c with
  | nil => rfl
  | cons e t ih => simp only [List.foldl_cons, setValue_ofConfig, ih]

theorem namesOf_setValue (c : Config) (k v : Bytes) : namesOf (Spec.Cfg.setValue c k v) = namesOf c := by
  simp [namesOf, Spec.Cfg.setValue, Function.comp]

theorem keysOf_setValue (c : Config) (k v : Bytes) : keysOf (Spec.Cfg.setValue c k v) = keysOf c := by
  unfold keysOf Spec.Cfg.setValue
  rw [List.flatMap_map]
  congr 1; funext cat
  simp only [List.map_map]
  apply List.map_congr_left
  intro e _
  by_cases h : e.1 = k <;> simp [h]

theorem keysOf_setValues (c : Config) (edits : List (Bytes × Bytes)) :
    keysOf (Spec.Cfg.setValues c edits) = keysOf c := by
  unfold Spec.Cfg.setValues
  induction edits generalizing c with
  | nil => rfl
  | cons x t ih => rw [List.foldl_cons, ih, keysOf_setValue]

theorem namesOf_setValues (c : Config) (edits : List (Bytes × Bytes)) :
    namesOf (Spec.Cfg.setValues c edits) = namesOf c := by
  unfold Spec.Cfg.setValues
  induction edits generalizing c with
  | nil => rfl
  | cons x t ih => rw [List.foldl_cons, ih, namesOf_setValue]

theorem wf_setValue (c : Config) (k v : Bytes) (h : WF c) (hv : ValueOK v) : WF (Spec.Cfg.setValue c k v) := by
  refine ⟨by rw [namesOf_setValue]; exact h.1, ?_⟩
  intro cat hc
  simp only [Spec.Cfg.setValue, List.mem_map] at hc
  obtain ⟨cat0, hc0, rfl⟩ := hc
  have := h.2 cat0 hc0
  refine ⟨this.1, ?_⟩
  intro e he
  simp only [List.mem_map] at he
  obtain ⟨e0, he0, rfl⟩ := he
  have h0 := this.2 e0 he0
  by_cases hk : e0.1 = k
  · simp only [hk, if_true]; exact ⟨hk ▸ h0.1, hv⟩
  · simp only [hk, if_false]; exact h0

/-! ### queries -/

theorem hasKey_iff (cf : ConfigFile) (k : Bytes) :
    hasKey cf k = true ↔ ∃ m ∈ cf.settings, ∃ e ∈ m.2, e.1 = k := by
  unfold hasKey
  simp only [List.any_eq_true, beq_iff_eq]
  constructor
  · rintro ⟨m, hm, e, he, h⟩; exact ⟨m, hm, e, he, h.symm⟩
  · rintro ⟨m, hm, e, he, h⟩; exact ⟨m, hm, e, he, h.symm⟩

theorem hasKey_ofConfig (c : Config) (k : Bytes) : hasKey (ofConfig c) k = true ↔ k ∈ keysOf c := by
  rw [hasKey_iff]
  simp only [ofConfig, keysOf, List.mem_filter, List.mem_flatMap, List.mem_map]
  constructor
  · rintro ⟨m, ⟨hm, _⟩, e, he, rfl⟩; exact ⟨m, hm, e, he, rfl⟩
  · rintro ⟨m, hm, e, he, rfl⟩
    refine ⟨m, ⟨hm, ?_⟩, e, he, rfl⟩
    apply keep_true; intro h; rw [h] at he; cases he

theorem hasCategory_iff (cf : ConfigFile) (n : Bytes) : hasCategory cf n = true ↔ n ∈ cf.categories := by
  simp [hasCategory]

theorem hasCategory_ofConfig (c : Config) (n : Bytes) : hasCategory (ofConfig c) n = true ↔ n ∈ namesOf c := by
  rw [hasCategory_iff]; rfl

/-! ### the `HashMap` iteration order is not observable -/

theorem hasKey_perm (cs : List Bytes) (s s' : Settings) (h : s.Perm s') (k : Bytes) :
    hasKey ⟨cs, s⟩ k = hasKey ⟨cs, s'⟩ k := by
  unfold hasKey
  exact h.any_eq

theorem setValue_perm (cs : List Bytes) (s s' : Settings) (h : s.Perm s') (k v : Bytes) :
    (setValue ⟨cs, s⟩ k v).settings.Perm (setValue ⟨cs, s'⟩ k v).settings := by
  unfold setValue
  exact h.map _

end Physis.Cfg
