import PhysisModel.Model.MsCommon
import PhysisModel.Base.BytesLemmas
import Std.Tactic.BVDecide
/-! Lemmas about the reader primitives of `Model/MsCommon.lean`: each primitive reads back what
the corresponding writer of `Base/Bytes.lean` wrote, `count` reads back a `flatMap`, out-of-line
slices of `prefix ++ region`, ASCII strings are valid UTF-8, NUL trimming of a padded C string. -/
namespace Physis.MsCommon

@[simp] theorem bind_apply (p : P α) (f : α → P β) (s : Bytes) :
    (p >>= f) s = match p s with
      | .ok (a, s') => f a s'
      | .error e => .error e := rfl

@[simp] theorem pure_apply (a : α) (s : Bytes) : (pure a : P α) s = .ok (a, s) := rfl

@[simp] theorem liftE_ok (a : α) (s : Bytes) : liftE (.ok a) s = .ok (a, s) := rfl

theorem u8_append (v : UInt8) (t : Bytes) : u8 (v :: t) = .ok (v, t) := rfl

theorem u16_append (v : UInt16) (t : Bytes) : u16 (putU16le v ++ t) = .ok (v, t) := by
  simp only [putU16le, u16, List.cons_append, List.nil_append]
  congr 2; bv_decide (timeout := 300)

theorem u32_append (v : UInt32) (t : Bytes) : u32 (putU32le v ++ t) = .ok (v, t) := by
  simp only [putU32le, u32, List.cons_append, List.nil_append]
  congr 2; bv_decide (timeout := 300)

theorem take_append (w t : Bytes) (n : Nat) (h : w.length = n) : take n (w ++ t) = .ok (w, t) := by
  subst h
  simp [take]

/-- `count` reads back a list written record by record -/
theorem count_flatMap {α β : Type} (p : P α) (enc : β → Bytes) (v : β → α) (xs : List β)
    (h : ∀ x ∈ xs, ∀ t, p (enc x ++ t) = .ok (v x, t)) (t : Bytes) :
    count p xs.length (xs.flatMap enc ++ t) = .ok (xs.map v, t) := by
  induction xs with
  | nil => simp [count]
  | cons x r ih =>
    have hx := h x (by simp) (r.flatMap enc ++ t)
    have hr := ih (fun y hy => h y (by simp [hy]))
    simp only [List.length_cons, count, List.flatMap_cons, List.append_assoc, bind_apply, hx, hr,
      pure_apply, List.map_cons]

theorem count_flatMap' {α β : Type} (p : P α) (enc : β → Bytes) (v : β → α) (xs : List β) (n : Nat)
    (hn : n = xs.length)
    (h : ∀ x ∈ xs, ∀ t, p (enc x ++ t) = .ok (v x, t)) (t : Bytes) :
    count p n (xs.flatMap enc ++ t) = .ok (xs.map v, t) := by
  subst hn; exact count_flatMap p enc v xs h t

/-- identity view -/
theorem count_flatMap_id {α : Type} (p : P α) (enc : α → Bytes) (xs : List α) (n : Nat)
    (hn : n = xs.length)
    (h : ∀ x ∈ xs, ∀ t, p (enc x ++ t) = .ok (x, t)) (t : Bytes) :
    count p n (xs.flatMap enc ++ t) = .ok (xs, t) := by
  have := count_flatMap' p enc id xs n hn h t
  simpa using this

/-- an out-of-line read inside the region that follows a prefix -/
theorem slice_append (pre r : Bytes) (off n : Nat) (h : off + n ≤ r.length) :
    slice (pre ++ r) (pre.length + off) n = .ok ((r.drop off).take n) := by
  have hd : (pre ++ r).drop (pre.length + off) = r.drop off := by
    rw [← List.drop_drop, List.drop_left]
  simp only [slice, hd]
  have : ((r.drop off).take n).length = n := by
    rw [List.length_take, List.length_drop]; omega
  simp [this]

/-! ### UTF-8 and NUL trimming -/

theorem utf8Go_ascii (bs : Bytes) (lo hi : UInt8) (h : bs.all (· < 0x80) = true) :
    utf8Go 0 lo hi bs = true := by
  induction bs generalizing lo hi with
  | nil => rfl
  | cons b r ih =>
    simp only [List.all_cons, Bool.and_eq_true, decide_eq_true_eq] at h
    simp only [utf8Go, h.1, if_true]
    exact ih _ _ h.2

theorem utf8Valid_ascii (bs : Bytes) (h : bs.all (· < 0x80) = true) : utf8Valid bs = true :=
  utf8Go_ascii bs _ _ h

theorem dropWhile_all {α : Type} (p : α → Bool) (l r : List α) (h : l.all p = true) :
    (l ++ r).dropWhile p = r.dropWhile p := by
  induction l with
  | nil => rfl
  | cons a l ih =>
    simp only [List.all_cons, Bool.and_eq_true] at h
    simp [List.dropWhile_cons, h.1, ih h.2]

/-- a string of non-NUL bytes followed by NUL padding trims to the non-NUL part -/
theorem trimNul_padded (a z : Bytes) (ha : a.all (· != 0) = true) (hz : z.all (· == 0) = true) :
    trimNul (a ++ z) = a := by
  unfold trimNul
  cases a with
  | nil =>
    have : z.dropWhile (· == 0) = [] := by
      have := dropWhile_all (· == 0) z [] hz
      simpa using this
    simp [this]
  | cons x a =>
    simp only [List.all_cons, Bool.and_eq_true] at ha
    have hx : (x == 0) = false := by simpa using ha.1
    have hall := List.all_eq_true.mp ha.2
    have h1 : ((x :: a) ++ z).dropWhile (· == 0) = (x :: a) ++ z := by
      simp [List.dropWhile_cons, hx]
    rw [h1, List.reverse_append]
    have hz' : z.reverse.all (· == 0) = true := by simpa using hz
    rw [dropWhile_all _ _ _ hz']
    -- the reversed name starts with a non-NUL byte (its last byte)
    have hne : ∀ y ∈ (x :: a).reverse, (y == 0) = false := by
      intro y hy
      have hy' : y ∈ x :: a := List.mem_reverse.mp hy
      rcases List.mem_cons.mp hy' with rfl | hm
      · exact hx
      · have := hall y hm; simpa using this
    have h2 : (x :: a).reverse.dropWhile (· == 0) = (x :: a).reverse := by
      cases hrev : (x :: a).reverse with
      | nil => rfl
      | cons y r =>
        have : (y == 0) = false := hne y (by simp [hrev])
        simp [List.dropWhile_cons, this]
    rw [h2, List.reverse_reverse]

theorem takeWhile_append_dropWhile_all (s : Bytes) :
    (s.takeWhile (· != 0)).all (· != 0) = true := by
  induction s with
  | nil => rfl
  | cons b r ih =>
    by_cases hb : (b != 0) = true
    · simp [List.takeWhile_cons, hb, ih]
    · simp [List.takeWhile_cons, hb]

/-- `from_utf8(..).unwrap().trim_matches('\0')` of an ASCII C string with NUL padding is the
C string -/
theorem nulTrimmedString_cstr (s : Bytes) (hascii : s.all (· < 0x80) = true)
    (hpad : (s.dropWhile (· != 0)).all (· == 0) = true) :
    nulTrimmedString s = .ok (s.takeWhile (· != 0)) := by
  unfold nulTrimmedString
  rw [utf8Valid_ascii s hascii, if_pos rfl]
  congr 1
  have := trimNul_padded (s.takeWhile (· != 0)) (s.dropWhile (· != 0))
    (takeWhile_append_dropWhile_all s) hpad
  rwa [List.takeWhile_append_dropWhile] at this

theorem nulTrimmedString_ascii (s : Bytes) (hascii : s.all (· < 0x80) = true) :
    nulTrimmedString s = .ok (trimNul s) := by
  unfold nulTrimmedString
  rw [utf8Valid_ascii s hascii, if_pos rfl]

theorem toNat_ofNat16 (n : Nat) (h : n < 65536) : (UInt16.ofNat n).toNat = n := by
  rw [UInt16.toNat_ofNat']; exact Nat.mod_eq_of_lt h
theorem toNat_ofNat32 (n : Nat) (h : n < 4294967296) : (UInt32.ofNat n).toNat = n := by
  rw [UInt32.toNat_ofNat']; exact Nat.mod_eq_of_lt h

end Physis.MsCommon
