import PhysisModel.Base.Fs
import PhysisModel.Spec.ZiPatch
/-! `writeAt` (the model of seek + write_all) index by index, and its agreement with the
specification's `overlay`. -/
set_option linter.unusedSimpArgs false
namespace Physis.Fs
open Physis

theorem zeros_length' (n : Nat) : (zeros n).length = n := by simp [zeros]

theorem getElem?_zeros (n i : Nat) : (zeros n)[i]? = if i < n then some 0 else none := by
  simp [zeros, List.getElem?_replicate]

theorem writeAt_length (old : Bytes) (off : Nat) (data : Bytes) (hd : data ≠ []) :
    (writeAt old off data).length = max old.length (off + data.length) := by
  have : data.isEmpty = false := by simpa using hd
  simp only [writeAt, this, Bool.false_eq_true, ↓reduceIte, List.length_append, List.length_take, zeros_length',
    List.length_drop]
  omega

/-- every index of the file after a write -/
theorem getElem?_writeAt (old : Bytes) (off : Nat) (data : Bytes) (hd : data ≠ []) (i : Nat) :
    (writeAt old off data)[i]? =
      if i < off then (if i < old.length then old[i]? else some 0)
      else if i < off + data.length then data[i - off]? else old[i]? := by
  have : data.isEmpty = false := by simpa using hd
  simp only [writeAt, this, Bool.false_eq_true, ↓reduceIte]
  simp only [List.getElem?_append, List.length_append, List.length_take, zeros_length', List.getElem?_take,
    getElem?_zeros, List.getElem?_drop]
  have e : min off old.length + (off - old.length) = off := by omega
  simp only [e]
  by_cases h1 : i < off
  · have h5 : i < off + data.length := by omega
    by_cases h2 : i < old.length
    · have h3 : i < min off old.length := by omega
      simp [h1, h2, h3, h5]
    · have h3 : ¬ i < min off old.length := by omega
      have h4 : i - min off old.length < off - old.length := by omega
      simp [h1, h2, h3, h4, h5]
  · simp only [h1, ↓reduceIte]
    by_cases h2 : i < off + data.length
    · simp [h2]
    · have : off + data.length + (i - (off + data.length)) = i := by omega
      simp [h2, this]

open Spec.ZiPatch in
theorem getElem?_overlay (old : Bytes) (off : Nat) (new : Bytes) (hd : new ≠ []) (i : Nat) :
    (overlay old off new)[i]? =
      if i < max old.length (off + new.length) then
        some (if off ≤ i ∧ i < off + new.length then new.getD (i - off) 0 else old.getD i 0)
      else none := by
  have : new.isEmpty = false := by simpa using hd
  simp only [overlay, this, Bool.false_eq_true, ↓reduceIte, List.getElem?_map, List.getElem?_range,
    List.size_toArray]
  by_cases h : i < max old.length (off + new.length)
  · simp [h, List.getD_eq_getElem?_getD]
  · simp [h]

open Spec.ZiPatch in
/-- the model's write and the specification's index-wise overlay are the same file -/
theorem writeAt_eq_overlay (old : Bytes) (off : Nat) (data : Bytes) : writeAt old off data = overlay old off data := by
  by_cases hd : data = []
  · simp [writeAt, overlay, hd]
  · apply List.ext_getElem?
    intro i
    rw [getElem?_writeAt old off data hd, getElem?_overlay old off data hd]
    by_cases h1 : i < off
    · by_cases h2 : i < old.length
      · have : i < max old.length (off + data.length) := by omega
        simp [h1, h2, this, List.getD_eq_getElem?_getD] <;> omega
      · have : i < max old.length (off + data.length) := by omega
        simp [h1, h2, this, List.getD_eq_getElem?_getD] <;> omega
    · by_cases h2 : i < off + data.length
      · have : i < max old.length (off + data.length) := by omega
        have h3 : i - off < data.length := by omega
        simp [h1, h2, this, List.getD_eq_getElem?_getD, h3] <;> omega
      · by_cases h3 : i < old.length
        · have : i < max old.length (off + data.length) := by omega
          simp [h1, h2, this, List.getD_eq_getElem?_getD, h3] <;> omega
        · have : ¬ i < max old.length (off + data.length) := by omega
          simp [h1, h2, this, h3] <;> omega

/-- two consecutive writes are one write of the concatenation -/
theorem writeAt_seq (old : Bytes) (off : Nat) (x y : Bytes) :
    writeAt (writeAt old off x) (off + x.length) y = writeAt old off (x ++ y) := by
  by_cases hx : x = []
  · simp [hx, writeAt]
  by_cases hy : y = []
  · simp [hy, writeAt]
  have hxy : x ++ y ≠ [] := by simp [hx]
  apply List.ext_getElem?
  intro i
  rw [getElem?_writeAt _ _ y hy, getElem?_writeAt old off (x ++ y) hxy, writeAt_length old off x hx,
    getElem?_writeAt old off x hx]
  simp only [List.length_append, List.getElem?_append]
  by_cases h1 : i < off
  · have : i < off + x.length := by omega
    have h2 : i < max old.length (off + x.length) := by omega
    simp [h1, this, h2]
  · by_cases h2 : i < off + x.length
    · have h3 : i < off + (x.length + y.length) := by omega
      have h4 : i - off < x.length := by omega
      have h5 : i < max old.length (off + x.length) := by omega
      simp [h1, h2, h3, h4, h5]
    · by_cases h3 : i < off + x.length + y.length
      · have h4 : i < off + (x.length + y.length) := by omega
        have h5 : ¬ i - off < x.length := by omega
        have h6 : i - (off + x.length) = i - off - x.length := by omega
        simp [h1, h2, h3, h4, h5, h6]
      · have h4 : ¬ i < off + (x.length + y.length) := by omega
        simp [h1, h2, h3, h4]

/-- writing `y` over the start of a just-written `x` -/
theorem writeAt_over (old : Bytes) (off : Nat) (x y : Bytes) (hy : y ≠ []) (hle : y.length ≤ x.length) :
    writeAt (writeAt old off x) off y = writeAt old off (y ++ x.drop y.length) := by
  have hx : x ≠ [] := by intro h; subst h; simp at hle; exact hy hle
  have hxy : y ++ x.drop y.length ≠ [] := by simp [hy]
  apply List.ext_getElem?
  intro i
  rw [getElem?_writeAt _ _ y hy, getElem?_writeAt old off _ hxy, writeAt_length old off x hx,
    getElem?_writeAt old off x hx]
  simp only [List.length_append, List.getElem?_append, List.length_drop, List.getElem?_drop]
  have hl : y.length + (x.length - y.length) = x.length := by omega
  by_cases h1 : i < off
  · have h2 : i < max old.length (off + x.length) := by omega
    simp [h1, h2]
  · by_cases h2 : i < off + y.length
    · have h3 : i < off + (y.length + (x.length - y.length)) := by omega
      have h4 : i - off < y.length := by omega
      simp [h1, h2, h3, h4]
    · by_cases h3 : i < off + x.length
      · have h4 : i < off + (y.length + (x.length - y.length)) := by omega
        have h5 : ¬ i - off < y.length := by omega
        have h6 : y.length + (i - off - y.length) = i - off := by omega
        simp [h1, h2, h3, h4, h5, h6]
      · have h4 : ¬ i < off + (y.length + (x.length - y.length)) := by omega
        simp [h1, h2, h3, h4]

end Physis.Fs
