import PhysisModel.Proofs.PatchRefine
/-! C03, part 3: whole patches and chains of patches. -/
set_option linter.unusedSimpArgs false
namespace Physis.Patch
open Physis Physis.Fs Physis.Spec.ZiPatch

theorem rdChunkBody_eof (rest : Bytes) :
    rdChunkBody (Spec.ZiPatch.eofChunk ++ rest) = .ok .eof (putU32be (Spec.Crc32.zlibCrc32 0 Spec.ZiPatch.tagEOF) ++ rest) := by
  simp (config := {decide := true}) only [Spec.ZiPatch.eofChunk, rdChunkBody, List.append_assoc, rdU32be_put,
    Spec.ZiPatch.tagEOF, Patch.tagEOF, Patch.tagSQPK, Patch.tagFHDR, Patch.tagAPLY, Patch.tagADIR, Patch.tagDELD,
    List.cons_append, List.nil_append, List.take_succ_cons, List.take_zero, List.drop_succ_cons, List.drop_zero,
    ↓reduceIte]

theorem cmdInflateOk_of (inflate : Bytes → Nat → Option Bytes) (cs : List Cmd) (h : InflateOK inflate cs)
    (c : Cmd) (hc : c ∈ cs) : cmdInflateOk inflate c := by
  cases c with
  | addFile off exp path blocks => exact h off exp path blocks hc
  | _ => trivial

theorem InflateOK_tail (inflate : Bytes → Nat → Option Bytes) (c : Cmd) (cs : List Cmd)
    (h : InflateOK inflate (c :: cs)) : InflateOK inflate cs :=
  fun off exp path blocks hm => h off exp path blocks (List.mem_cons_of_mem _ hm)

theorem run_cons (s s' : St) (c : Cmd) (cs : List Cmd) (h : run s (c :: cs) = some s') :
    ∃ s1, effect s c = some s1 ∧ run s1 cs = some s' := by
  simp only [run] at h
  cases he : effect s c with
  | none => simp [he] at h
  | some s1 => exact ⟨s1, rfl, by simpa [he] using h⟩

theorem applyLoop_run (inflate : Bytes → Nat → Option Bytes) (cs : List Cmd) (s s' : St)
    (hwf : ∀ c ∈ cs, c.wf = true) (hinf : InflateOK inflate cs) (hrun : run s cs = some s') (fuel : Nat)
    (rest : Bytes) :
    applyLoop inflate (fuel + cs.length + 1) (encodeCmds cs ++ (Spec.ZiPatch.eofChunk ++ rest)) (tiOf s.plat) s.tree =
      (.ok, s'.tree) := by
  induction cs generalizing s with
  | nil =>
    simp only [run, Option.some.injEq] at hrun; subst hrun
    simp only [encodeCmds, List.map_nil, List.flatten_nil, List.nil_append, List.length_nil, Nat.add_zero]
    rw [applyLoop, rdChunkBody_eof]
  | cons c cs ih =>
    obtain ⟨s1, he, hr⟩ := run_cons s s' c cs hrun
    have hstep := applyLoop_encodeCmd inflate (fuel + cs.length + 1) c (encodeCmds cs ++ (Spec.ZiPatch.eofChunk ++ rest))
      (tiOf s.plat) s.tree (hwf c (List.mem_cons_self ..)) (cmdInflateOk_of inflate _ hinf c (List.mem_cons_self ..))
    rw [applyChunk_refines s s1 c (hwf c (List.mem_cons_self ..)) he] at hstep
    simp only at hstep
    have hih := ih s1 (fun x hx => hwf x (List.mem_cons_of_mem _ hx)) (InflateOK_tail inflate c cs hinf) hr
    rw [← hih, ← hstep]
    simp only [encodeCmds, List.map_cons, List.flatten_cons, List.append_assoc, List.length_cons]
    rfl

theorem encodeCmd_length_pos (c : Cmd) : 0 < (encodeCmd c).length := by
  simp [encodeCmd]; omega

theorem apply_encodePatch (inflate : Bytes → Nat → Option Bytes) (cs : List Cmd) (t : Tree) (s' : St)
    (hwf : ∀ c ∈ cs, c.wf = true) (hinf : InflateOK inflate cs)
    (hrun : run { plat := none, tree := t } cs = some s') :
    apply inflate (encodePatch cs) t = (.ok, s'.tree) := by
  have hh : rdPatchHeader (encodePatch cs) = some (encodeCmds cs ++ (Spec.ZiPatch.eofChunk ++ [])) := by
    simp [rdPatchHeader, encodePatch, fileMagic]
  have hlen := flatten_map_length_ge cs encodeCmd encodeCmd_length_pos
  obtain ⟨k, hk⟩ : ∃ k, (encodePatch cs).length = k + cs.length + 1 :=
    ⟨(encodePatch cs).length - cs.length - 1, by
      simp only [encodePatch, encodeCmds, List.length_append, fileMagic, List.length_cons, List.length_nil] at hlen ⊢
      omega⟩
  simp only [apply, hh, hk]
  exact applyLoop_run inflate cs { plat := none, tree := t } s' hwf hinf hrun k []

/-! ### chains -/

def InflateOKs (inflate : Bytes → Nat → Option Bytes) (pss : List (List Cmd)) : Prop :=
  ∀ cs ∈ pss, InflateOK inflate cs

theorem applyAll_chain (inflate : Bytes → Nat → Option Bytes) (pss : List (List Cmd)) (t t' : Tree)
    (hwf : ∀ cs ∈ pss, ∀ c ∈ cs, c.wf = true) (hinf : InflateOKs inflate pss)
    (hrun : runChain pss t = some t') :
    applyAll inflate (pss.map encodePatch) t = (.ok, t') := by
  induction pss generalizing t with
  | nil => simp only [runChain, Option.some.injEq] at hrun; subst hrun; rfl
  | cons cs rest ih =>
    simp only [runChain] at hrun
    cases hr : run { plat := none, tree := t } cs with
    | none => simp [hr] at hrun
    | some s1 =>
      simp only [hr] at hrun
      have h1 := apply_encodePatch inflate cs t s1 (hwf cs (List.mem_cons_self ..)) (hinf cs (List.mem_cons_self ..)) hr
      simp only [List.map_cons, applyAll, h1]
      exact ih s1.tree (fun x hx => hwf x (List.mem_cons_of_mem _ hx)) (fun x hx => hinf x (List.mem_cons_of_mem _ hx)) hrun

/-! ### the reading half alone -/

theorem toChunk_ne_eof (c : Cmd) : toChunk c ≠ .eof := by cases c <;> simp [toChunk]

theorem parseChunks_encode (inflate : Bytes → Nat → Option Bytes) (cs : List Cmd)
    (hwf : ∀ c ∈ cs, c.wf = true) (hinf : InflateOK inflate cs) (fuel : Nat) (rest : Bytes) :
    parseChunks inflate (fuel + cs.length + 1) (encodeCmds cs ++ (Spec.ZiPatch.eofChunk ++ rest)) =
      some (cs.map (fun c => (toChunk c, payload c)) ++ [(.eof, [])]) := by
  induction cs with
  | nil =>
    simp only [encodeCmds, List.map_nil, List.flatten_nil, List.nil_append, List.length_nil, Nat.add_zero]
    rw [parseChunks, rdChunkBody_eof]
  | cons c cs ih =>
    have hc := hwf c (List.mem_cons_self ..)
    have hih := ih (fun x hx => hwf x (List.mem_cons_of_mem _ hx)) (InflateOK_tail inflate c cs hinf)
    have hdrop : (crcBytes c ++ (encodeCmds cs ++ (Spec.ZiPatch.eofChunk ++ rest))).drop 4 =
        encodeCmds cs ++ (Spec.ZiPatch.eofChunk ++ rest) := by rw [← crcBytes_length c]; simp
    have hlen : ¬ (blocksBytes c ++ (crcBytes c ++ (encodeCmds cs ++ (Spec.ZiPatch.eofChunk ++ rest)))).length < 4 := by
      simp [crcBytes_length]; omega
    have e : fuel + (c :: cs).length + 1 = (fuel + cs.length + 1) + 1 := by simp; omega
    have e2 : encodeCmds (c :: cs) ++ (Spec.ZiPatch.eofChunk ++ rest) =
        encodeCmd c ++ (encodeCmds cs ++ (Spec.ZiPatch.eofChunk ++ rest)) := by
      simp [encodeCmds]
    rw [e, e2, parseChunks, rdChunkBody_encodeCmd c hc]
    have hinfc := cmdInflateOk_of inflate _ hinf c (List.mem_cons_self ..)
    cases c with
    | addFile off exp path blocks =>
      simp only [Cmd.wf, Bool.and_eq_true, decide_eq_true_eq, List.all_eq_true] at hc
      have hsz : (UInt64.ofNat (fileSize blocks)).toNat = fileSize blocks := by
        simp [UInt64.toNat_ofNat']; omega
      have hfuel : blocks.length + 1 ≤ (blocksBytes (.addFile off exp path blocks) ++
          (crcBytes (.addFile off exp path blocks) ++ (encodeCmds cs ++ (Spec.ZiPatch.eofChunk ++ rest)))).length + 1 := by
        have := flatten_map_length_ge blocks encodeBlock encodeBlock_length_pos
        simp only [blocksBytes, List.length_append]; omega
      have hrb := readBlocks_encode inflate blocks hc.1.2 hinfc
        (crcBytes (.addFile off exp path blocks) ++ (encodeCmds cs ++ (Spec.ZiPatch.eofChunk ++ rest))) [] _ hfuel
      simp only [List.length_nil, Nat.zero_add, List.nil_append] at hrb
      simp only [blocksBytes] at hrb hlen ⊢
      simp only [toChunk, hlen, ↓reduceIte, hsz, hrb, hdrop, hih, payload, Option.map_some, List.map_cons,
        List.cons_append]
    | _ =>
      simp only [blocksBytes, List.nil_append] at hlen
      simp only [toChunk, hlen, ↓reduceIte, blocksBytes, List.nil_append, hdrop, hih, payload, Option.map_some,
        List.map_cons, List.cons_append]

theorem parsePatch_encode (inflate : Bytes → Nat → Option Bytes) (cs : List Cmd)
    (hwf : ∀ c ∈ cs, c.wf = true) (hinf : InflateOK inflate cs) :
    parsePatch inflate (encodePatch cs) = some (cs.map (fun c => (toChunk c, payload c)) ++ [(.eof, [])]) := by
  have hh : rdPatchHeader (encodePatch cs) = some (encodeCmds cs ++ (Spec.ZiPatch.eofChunk ++ [])) := by
    simp [rdPatchHeader, encodePatch, fileMagic]
  have hlen := flatten_map_length_ge cs encodeCmd encodeCmd_length_pos
  obtain ⟨k, hk⟩ : ∃ k, (encodePatch cs).length = k + cs.length + 1 :=
    ⟨(encodePatch cs).length - cs.length - 1, by
      simp only [encodePatch, encodeCmds, List.length_append, fileMagic, List.length_cons, List.length_nil] at hlen ⊢
      omega⟩
  simp only [parsePatch, hh, hk, Option.bind_some]
  exact parseChunks_encode inflate cs hwf hinf k []

end Physis.Patch
