import PhysisModel.Proofs.MdlWriteRedundant
import PhysisModel.Proofs.MdlEditParse
/-!
# C07 — edit histories on files whose redundant header copies are arbitrary (`wredun` with edits)

Every edit operation ends in `update_headers`, which recomputes every copy `ρ` replaces — except
`FileHeader.lodCount`, which it *uses* as the bound of its first loop (mesh start indices and stream
offsets), and the file-header slots of the LODs that were not parsed.  With `FileHeader.lodCount`
kept, the model parsed from `encodeMdlR a ρ` represents `a` (`Rep`, which forgets exactly the
recomputed fields) just as the model parsed from `encodeMdl a` does, and the whole route of
`Proofs/MdlEditParse.lean` applies.
-/
namespace Physis.Mdl
open Physis Physis.Spec.Mdl

theorem map_stripLod_redundant (ρ : Redundant) (L : List MeshLod) :
    ∀ j, (ρ.lods j L).map stripLod = L.map stripLod := by
  induction L with
  | nil => intro j; rfl
  | cons x xs ih => intro j; simp only [Redundant.lods, List.map_cons, ih]; rfl

theorem stripMD_redundant (ρ : Redundant) (d : ModelData) : stripMD (ρ.md d) = stripMD d := by
  simp only [stripMD, Redundant.md, map_stripLod_redundant]

theorem stripFH_redundant (ρ : Redundant) (f : FileHeader) : stripFH (ρ.fh f) = stripFH f := by
  simp only [stripFH, Redundant.fh]

theorem lodAt_redundant (ρ : Redundant) (L : List MeshLod) (i : Nat) :
    (lodAt (ρ.lods 0 L) i).meshIndex = (lodAt L i).meshIndex ∧
    (lodAt (ρ.lods 0 L) i).meshCount = (lodAt L i).meshCount := by
  unfold lodAt
  rw [getElem?_lods_redundant]
  cases L[i]? with
  | none => exact ⟨rfl, rfl⟩
  | some x => exact ⟨rfl, rfl⟩

/-- the model parsed from `encodeMdlR a ρ` represents `a` (`Rep` forgets every field `ρ` replaces) -/
theorem rep_initialR (a : AbstractModel) (h : WF a = true) (ρ : Redundant)
    (v : View) (hv : view a = some v) : Rep a (parsedR a ρ v) := by
  have r := rep_initial a h v hv
  exact ⟨(stripMD_redundant ρ _).trans r.md, (stripFH_redundant ρ _).trans r.fh, r.parts,
    r.bones, r.mats⟩

theorem starts_initialR (a : AbstractModel) (h : WF a = true) (hcan : Canonical a = true)
    (ρ : Redundant) (v : View) (hv : view a = some v) : StartsFromSubmesh (parsedR a ρ v) := by
  have s := starts_initial a h hcan v hv
  intro i hi d hd
  have hi' : i < (parsedOf a v).lods.length := hi
  obtain ⟨e1, e2⟩ := lodAt_redundant ρ (modelData a).lods i
  have hd' : d < (lodAt (parsedOf a v).modelData.lods i).meshCount.toNat := by
    have : (lodAt (parsedR a ρ v).modelData.lods i).meshCount =
        (lodAt (modelData a).lods i).meshCount := e2
    rw [this] at hd; exact hd
  have := s i hi' d hd'
  show (meshAt (modelData a).meshes ((lodAt (ρ.lods 0 (modelData a).lods) i).meshIndex.toNat + d)).startIndex =
    (firstSub (modelData a).submeshes
      (meshAt (modelData a).meshes ((lodAt (ρ.lods 0 (modelData a).lods) i).meshIndex.toNat + d))).indexOffset
  rw [e1]
  exact this

/-- **write ∘ parse in `update_headers`' layout**, without the header flags (which look at the
file-header slots of the LODs not in use) -/
theorem laid_write_parse_view (a : AbstractModel) (h : WF a = true) (hcan : Canonical a = true)
    (hlay : LaidOut a = true) (v : View) (hv : view a = some v) (m : MDL) (hrep : Rep a m)
    (hok : HeaderOK m) (hst : StartsFromSubmesh m) :
    ∃ buf m2, writeToBuffer m = .ok buf ∧ fromExisting buf = .ok m2 ∧
      m2.fileHeader = m.fileHeader ∧ m2.modelData = m.modelData ∧ m2.view = v ∧
      (UnusedEmpty a.lodCount.toNat m.fileHeader →
        headerFlags m2.fileHeader buf.length m2.lods = HeaderFlags.allOk) := by
  obtain ⟨hfh, harr, hmd, hl3, hmid, hlods⟩ :=
    frame_hyps runtimeSizeFact a h hcan hlay m hrep hok hst
  have hparts : m.lods.map (·.map wKey) = v.lods.map (·.map wKey) := by
    apply wKeys_of_partKeys
    rw [hrep.parts]
    exact (rep_initial a h v hv).parts.symm
  obtain ⟨buf, m2, h1, h2, h3, h4, h5, h6⟩ :=
    write_parse_frame a h hcan v hv m hfh harr hmd hl3 hmid hlods hparts
  refine ⟨buf, m2, h1, h2, h3, h4, h5, fun hun => ?_⟩
  have hl : m2.lods = v.lods := by rw [← h5]; rfl
  rw [h3, hl]
  refine headerFlags_allOk a h hcan hlay v hv m.fileHeader ?_ ?_ harr hun buf.length h6
  · rw [hfh]
  · rw [hfh]

/-- **parse ∘ write ∘ edits ∘ parse on a file with arbitrary redundant copies** (the file header's
LOD count kept): after a non-empty history of consistently supplied edits that return, the written
file re-parses as `view a'`; the header flags are all ok when the size slots `ρ` stores for the
LODs not in use are 0 (those slots are never rewritten) -/
theorem edit_then_parseR (a : AbstractModel) (h : WF a = true) (hcan : Canonical a = true)
    (ρ : Redundant)
    (v0 : View) (hv0 : view a = some v0) (es : List AEdit) (hne : es ≠ [])
    (hes : editsOk2 a es = true) (a' : AbstractModel) (ha' : applyEdits a es = some a')
    (ces : List Edit) (hces : cedits a es = some ces)
    (h' : WF a' = true) (hlen' : (encodeMdl (relayout a')).length < 4294967296)
    (hcan' : Canonical a' = true) (hne' : usedNonempty a' = true)
    (v : View) (hv : view a' = some v) (mE : MDL)
    (hE : ces.foldlM Mdl.applyEdit (parsedR a ρ v0) = .ok mE) :
    ∃ buf m1, writeToBuffer mE = .ok buf ∧ fromExisting buf = .ok m1 ∧
      m1.fileHeader = mE.fileHeader ∧ m1.modelData = mE.modelData ∧ m1.view = v ∧
      (UnusedEmpty a.lodCount.toNat (ρ.fh (fileHeader a)) →
        headerFlags m1.fileHeader buf.length m1.lods = HeaderFlags.allOk) := by
  have hrep0 : Rep a (parsedR a ρ v0) := rep_initialR a h ρ v0 hv0
  have hdis : RangesDisjoint (parsedR a ρ v0).modelData.lods (parsedR a ρ v0).lods.length :=
    rep_rangesDisjoint' h hrep0
  obtain ⟨hrep, hsm⟩ := rep_history2 es a a' (parsedR a ρ v0) mE ces
    (small_of_wf a h) hrep0 (starts_initialR a h hcan ρ v0 hv0) hdis hes ha' hces hE
  have hlca : a'.lodCount = a.lodCount := by
    apply UInt8.toNat_inj.mp
    have e1 := rep_parts_length h' hrep
    have e2 := (history_frame ces (parsedR a ρ v0) mE hE).partsLen
    have e3 : (parsedR a ρ v0).lods.length = a.lodCount.toNat := parsedOf_lods_length a h v0 hv0
    omega
  have hcne := cedits_ne_nil es a ces hne hces
  obtain ⟨hok, hst⟩ := history_last ces hcne (parsedR a ρ v0) mE hdis hE
  have h'' := wf_relayout a' h' hlen'
  have W := wf_facts (relayout a') h''
  have hrep' := rep_relayout a' mE hsm.2.2 hrep
  have hlay := laidOut_relayout a' (by rw [← relayout_lods_length]; exact W.lods3) W.lc3
    (usedNonempty_iff a' hne')
  obtain ⟨buf, m1, h1, h2, h3, h4, h5, h6⟩ :=
    laid_write_parse_view (relayout a') h'' (canonical_relayout a' hcan') hlay v
      (by rw [view_relayout]; exact hv) mE hrep' hok hst
  refine ⟨buf, m1, h1, h2, h3, h4, h5, fun hun => h6 ?_⟩
  have : (relayout a').lodCount = a.lodCount := hlca
  rw [this]
  exact unusedEmpty_history ces (parsedR a ρ v0) mE hE _
    (by show v0.lods.length ≤ _; rw [parsedOf_lods_length a h v0 hv0]; exact Nat.le_refl _) hun

/-- … and under `editsFit` the edit calls return -/
theorem edits_return_initialR (a : AbstractModel) (h : WF a = true) (hcan : Canonical a = true)
    (ρ : Redundant)
    (v0 : View) (hv0 : view a = some v0) (es : List AEdit) (hes : editsOk2 a es = true)
    (hfit : editsFit a es = true) (a' : AbstractModel) (ha' : applyEdits a es = some a')
    (ces : List Edit) (hces : cedits a es = some ces) :
    ∃ mE, ces.foldlM Mdl.applyEdit (parsedR a ρ v0) = .ok mE := by
  have hrep0 : Rep a (parsedR a ρ v0) := rep_initialR a h ρ v0 hv0
  exact edits_return es a a' (parsedR a ρ v0) ces (small_of_wf a h) (wf_facts a h).lods3 hrep0
    (starts_initialR a h hcan ρ v0 hv0) (rep_rangesDisjoint' h hrep0)
    hes hfit ha' hces

end Physis.Mdl
