import PhysisModel.Proofs.Fs
import PhysisModel.Proofs.WriteAt
import PhysisModel.Spec.ZiPatch
/-! Facts about the reference semantics alone: where bytes land, what is left alone. -/
set_option linter.unusedSimpArgs false
namespace Physis.Spec.ZiPatch
open Physis Physis.Fs

theorem take_prefix_dropLast (p : Path) (k : Nat) : p.dropLast.take k <+: p :=
  (List.take_prefix k p.dropLast).trans (List.dropLast_prefix p)

/-- `placeFile`: the new content is `f old`, `old` being the previous content (`[]` if none) -/
theorem placeFile_get (t : Tree) (p : Path) (f : Bytes → Bytes) (t' : Tree) (h : placeFile t p f = some t') :
    get t' p = some (.file (f ((fileAt t p).getD []))) ∧ ∀ q, q ≠ p → get t' q = get t q := by
  unfold placeFile at h
  cases p with
  | nil => simp at h
  | cons c r =>
    cases hg : get t (c :: r) with
    | none =>
      simp only [hg, Option.some.injEq] at h; subst h
      refine ⟨by simp [get_set, fileAt, hg], fun q hq => ?_⟩
      rw [get_set]; simp [Ne.symm hq]
    | some n =>
      cases n with
      | dir => simp [hg] at h
      | file old =>
        simp only [hg, Option.some.injEq] at h; subst h
        refine ⟨by simp [get_set, fileAt, hg], fun q hq => ?_⟩
        rw [get_set]; simp [Ne.symm hq]

theorem updateFile_get (t : Tree) (mk : Bool) (p : Path) (f : Bytes → Bytes) (t' : Tree)
    (h : updateFile t mk p f = some t') :
    get t' p = some (.file (f ((fileAt t p).getD []))) ∧ ∀ q, ¬ q <+: p → get t' q = get t q := by
  unfold updateFile at h
  cases mk with
  | true =>
    simp only [↓reduceIte] at h
    cases hmk : mkdirAll t [] p.dropLast with
    | none => simp [hmk] at h
    | some t1 =>
      simp only [hmk, Option.bind_some] at h
      obtain ⟨h1, h2⟩ := placeFile_get t1 p f t' h
      rw [mkdirAll_fileAt t [] _ t1 hmk p] at h1
      refine ⟨h1, fun q hq => ?_⟩
      rw [h2 q (fun e => hq (e ▸ List.prefix_refl _))]
      exact mkdirAll_frame t [] _ t1 hmk q (fun k _ _ e => hq (by
        rw [e, List.nil_append]; exact take_prefix_dropLast p k))
  | false =>
    simp only [Bool.false_eq_true, ↓reduceIte] at h
    by_cases hd : isDir t p.dropLast = true
    · simp only [hd, ↓reduceIte] at h
      obtain ⟨h1, h2⟩ := placeFile_get t p f t' h
      exact ⟨h1, fun q hq => h2 q (fun e => hq (e ▸ List.prefix_refl _))⟩
    · simp [hd] at h

/-- index-wise description of an overlay -/
theorem overlay_spec (old : Bytes) (off : Nat) (new : Bytes) (hnew : new ≠ []) :
    (overlay old off new).length = max old.length (off + new.length) ∧
    (∀ i, i < new.length → (overlay old off new)[off + i]? = new[i]?) ∧
    (∀ i, i < off → (overlay old off new)[i]? = some (old.getD i 0)) ∧
    (∀ i, off + new.length ≤ i → (overlay old off new)[i]? = old[i]?) := by
  refine ⟨?_, ?_, ?_, ?_⟩
  · rw [← writeAt_eq_overlay, writeAt_length old off new hnew]
  · intro i hi
    rw [← writeAt_eq_overlay, getElem?_writeAt old off new hnew]
    have h1 : ¬ off + i < off := by omega
    have h2 : off + i < off + new.length := by omega
    simp [h1, h2]
  · intro i hi
    rw [← writeAt_eq_overlay, getElem?_writeAt old off new hnew]
    by_cases h2 : i < old.length <;> simp [hi, h2, List.getD_eq_getElem?_getD]
  · intro i hi
    rw [← writeAt_eq_overlay, getElem?_writeAt old off new hnew]
    have h1 : ¬ i < off := by omega
    have h2 : ¬ i < off + new.length := by omega
    simp [h1, h2]

theorem emptyBlock_update (t : Tree) (mk : Bool) (p : Path) (off : Nat) (n : UInt32) (t' : Tree)
    (hn1 : 1 ≤ n.toNat)
    (hu : updateFile t mk p (fun old => overlay old off (emptyBlock n)) = some t') :
    ∃ bytes, get t' p = some (.file bytes) ∧
      (∀ i, i < 128 * n.toNat → bytes[off + i]? = (emptyBlock n)[i]?) ∧
      (∀ i, i < off → bytes[i]? = some (((fileAt t p).getD []).getD i 0)) ∧
      (∀ i, off + 128 * n.toNat ≤ i → bytes[i]? = ((fileAt t p).getD [])[i]?) := by
  have hlen : (emptyBlock n).length = 128 * n.toNat := by
    simp [emptyBlock, zeros]; omega
  obtain ⟨hg, _⟩ := updateFile_get _ _ _ _ _ hu
  obtain ⟨_, h2, h3, h4⟩ := overlay_spec ((fileAt t p).getD []) off
    (emptyBlock n) (by intro h; rw [h] at hlen; simp at hlen; omega)
  exact ⟨_, hg, fun i hi => h2 i (by omega), h3, fun i hi => h4 i (by omega)⟩

theorem bind_plat' {α : Type} (plat : Option UInt16) (k : Bytes → Option α) (r : α)
    (h : (plat.bind platformName).bind k = some r) : ∃ pn, plat.bind platformName = some pn ∧ k pn = some r := by
  cases hp : plat.bind platformName with
  | none => simp [hp] at h
  | some pn => exact ⟨pn, rfl, by simpa [hp] using h⟩

/-- **frame**: a path that a command does not touch keeps its node -/
theorem effect_frame (s s' : St) (c : Cmd) (he : effect s c = some s') (q : Path) (hq : ¬ touched s.plat c q) :
    get s'.tree q = get s.tree q := by
  cases c with
  | addData m sub f off del data =>
    simp only [effect] at he
    obtain ⟨pn, hpn, hk⟩ := bind_plat' _ _ _ he
    simp only [Option.map_eq_some_iff] at hk
    obtain ⟨t', hu, rfl⟩ := hk
    simp only [touched, targetPath, hpn, Option.map_some] at hq
    exact (updateFile_get _ _ _ _ _ hu).2 q hq
  | deleteData m sub f off num =>
    simp only [effect] at he
    obtain ⟨pn, hpn, hk⟩ := bind_plat' _ _ _ he
    simp only [Option.map_eq_some_iff] at hk
    obtain ⟨t', hu, rfl⟩ := hk
    simp only [touched, targetPath, hpn, Option.map_some] at hq
    exact (updateFile_get _ _ _ _ _ hu).2 q hq
  | expandData m sub f off num =>
    simp only [effect] at he
    obtain ⟨pn, hpn, hk⟩ := bind_plat' _ _ _ he
    simp only [Option.map_eq_some_iff] at hk
    obtain ⟨t', hu, rfl⟩ := hk
    simp only [touched, targetPath, hpn, Option.map_some] at hq
    exact (updateFile_get _ _ _ _ _ hu).2 q hq
  | header isIdx k m sub f data =>
    simp only [effect] at he
    obtain ⟨pn, hpn, hk⟩ := bind_plat' _ _ _ he
    simp only [Option.map_eq_some_iff] at hk
    obtain ⟨t', hu, rfl⟩ := hk
    simp only [touched, targetPath, hpn, Option.map_some] at hq
    exact (updateFile_get _ _ _ _ _ hu).2 q hq
  | addFile off exp path blocks =>
    simp only [effect, Option.map_eq_some_iff] at he
    obtain ⟨t', hu, rfl⟩ := he
    simp only [touched, targetPath] at hq
    exact (updateFile_get _ _ _ _ _ hu).2 q hq
  | deleteFile exp path =>
    simp only [effect, Option.some.injEq] at he; subst he
    simp only [touched, targetPath] at hq
    have hne : q ≠ splitSlash path := fun e => hq (e ▸ List.prefix_refl _)
    by_cases hf : isFile s.tree (splitSlash path) = true
    · simp [hf, get_erase, hne]
    · simp [hf]
  | removeAll exp path =>
    simp only [effect, Option.some.injEq] at he; subst he
    simp only [touched] at hq
    by_cases hd : isDir s.tree [sSqpack, expansionFolder exp] = true
    · simp [hd, get_eraseUnder, hq]
    · simp [hd]
  | mkDirTree exp path =>
    simp only [effect, Option.map_eq_some_iff] at he
    obtain ⟨t', hu, rfl⟩ := he
    simp only [touched] at hq
    exact mkdirAll_frame _ [] _ t' hu q (fun k _ _ e => hq (by
      rw [e, List.nil_append]; exact List.take_prefix k _))
  | target pl rg dbg v del sk => simp only [effect, Option.some.injEq] at he; subst he; rfl
  | _ => simp only [effect, Option.some.injEq] at he; subst he; rfl

end Physis.Spec.ZiPatch
