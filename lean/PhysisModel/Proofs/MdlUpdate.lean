import PhysisModel.Proofs.MdlStrip
/-!
# C07 — `update_headers` recomputes the layout fields and nothing else

* `updateHeaders_strip`: the stripped model data and file header (`stripMD`, `stripFH`: every
  layout field erased) and the three in-memory tables are those of the input;
* `updateHeaders_starts`: afterwards every mesh of a used LOD starts at the index offset of the
  sub-mesh record it points at (`StartsFromSubmesh`), when the mesh ranges of the used LODs do not
  overlap.
-/
namespace Physis.Mdl
open Physis

/-! ### small facts -/

theorem zeroBelow_set (n s : Nat) (a : Arr3 UInt32) (v : UInt32) (h : s < n) :
    zeroBelow n (a.set s v) = zeroBelow n a := by
  match s, h with
  | 0, h => simp [zeroBelow, Arr3.set, h]
  | 1, h => simp [zeroBelow, Arr3.set, h]
  | 2, h => simp [zeroBelow, Arr3.set, h]
  | _ + 3, _ => simp [Arr3.set]

/-- overwriting a row by one with the same image does not change the mapped list -/
theorem map_set_eq (f : α → β) (l : List α) (j : Nat) (x y : α) (h : l[j]? = some y)
    (hf : f x = f y) : (l.set j x).map f = l.map f := by
  apply List.ext_getElem?
  intro i
  rw [List.getElem?_map, List.getElem?_map, List.getElem?_set]
  by_cases hji : j = i
  · subst hji
    have hlen : j < l.length := by
      apply Classical.byContradiction
      intro hc
      rw [List.getElem?_eq_none (by omega)] at h
      cases h
    rw [if_pos rfl, if_pos hlen, h]
    show some (f x) = some (f y)
    rw [hf]
  · rw [if_neg hji]

/-- mesh row `x` starts at the index offset of its first sub-mesh -/
def Started (subs : List Submesh) (x : Mesh) : Prop :=
  x.startIndex = (firstSub subs x).indexOffset

/-! ### the first loop -/

/-- the stream loop only rewrites the offsets of the declared streams -/
theorem streamFold_strip (x0 : Mesh) (v0 : UInt32) (r : Mesh × UInt32)
    (h : (List.range x0.vertexStreamCount.toNat).foldlM
      (fun (ms : Mesh × UInt32) s => do
        if s ≥ 3 then (Except.error Err.panic : R (Mesh × UInt32)) else
        let stride ← idx3 ms.1.vertexBufferStrides s
        let p ← mulU32 ms.1.vertexCount.toUInt32 stride.toUInt32
        let nv ← addU32 ms.2 p
        pure ({ ms.1 with vertexBufferOffsets := ms.1.vertexBufferOffsets.set s ms.2 }, nv))
      (x0, v0) = .ok r) :
    ∃ offs, r.1 = { x0 with vertexBufferOffsets := offs } ∧
      zeroBelow x0.vertexStreamCount.toNat offs =
        zeroBelow x0.vertexStreamCount.toNat x0.vertexBufferOffsets := by
  refine foldlM_range_inv _ (fun _ (st : Mesh × UInt32) =>
    ∃ offs, st.1 = { x0 with vertexBufferOffsets := offs } ∧
      zeroBelow x0.vertexStreamCount.toNat offs =
        zeroBelow x0.vertexStreamCount.toNat x0.vertexBufferOffsets) (x0, v0)
    ⟨x0.vertexBufferOffsets, rfl, rfl⟩ _ r ?_ h
  intro k st st' hk hP hf
  obtain ⟨offs, e, hz⟩ := hP
  split at hf
  · cases hf
  · obtain ⟨stride, _, hf⟩ := bind_ok hf
    obtain ⟨p, _, hf⟩ := bind_ok hf
    obtain ⟨nv, _, hf⟩ := bind_ok hf
    have e' := pure_ok hf
    subst e'
    refine ⟨offs.set k st.2, ?_, ?_⟩
    · show ({ st.1 with vertexBufferOffsets := st.1.vertexBufferOffsets.set k st.2 } : Mesh) = _
      rw [e]
    · rw [zeroBelow_set _ _ _ _ hk]
      exact hz

/-- the mesh loop over one LOD's range: stripped rows kept, rows outside the range kept, every
row of the range started at its first sub-mesh -/
theorem meshFold_strip (subs : List Submesh) (ms : List Mesh) (lo cnt : Nat)
    (r : List Mesh × UInt32)
    (h : (List.range cnt).foldlM
      (fun (st : List Mesh × UInt32) dj => do
        let j := lo + dj
        let mesh ← idx st.1 j
        let sub ← idx subs mesh.submeshIndex.toNat
        let mesh := { mesh with startIndex := sub.indexOffset }
        let r ← (List.range mesh.vertexStreamCount.toNat).foldlM
          (fun (ms : Mesh × UInt32) s => do
            if s ≥ 3 then (Except.error Err.panic : R (Mesh × UInt32)) else
            let stride ← idx3 ms.1.vertexBufferStrides s
            let p ← mulU32 ms.1.vertexCount.toUInt32 stride.toUInt32
            let nv ← addU32 ms.2 p
            pure ({ ms.1 with vertexBufferOffsets := ms.1.vertexBufferOffsets.set s ms.2 }, nv))
          (mesh, st.2)
        pure (st.1.set j r.1, r.2)) (ms, 0) = .ok r) :
    r.1.map stripMesh = ms.map stripMesh ∧ (∀ j, j < lo ∨ lo + cnt ≤ j → r.1[j]? = ms[j]?) ∧
    ∀ d, d < cnt → Started subs (meshAt r.1 (lo + d)) := by
  refine foldlM_range_inv _ (fun k (st : List Mesh × UInt32) =>
    st.1.map stripMesh = ms.map stripMesh ∧ (∀ j, j < lo ∨ lo + k ≤ j → st.1[j]? = ms[j]?) ∧
    ∀ d, d < k → Started subs (meshAt st.1 (lo + d))) (ms, 0)
    ⟨rfl, fun _ _ => rfl, fun d hd => by omega⟩ cnt r ?_ h
  intro k st st' _ hP hf
  obtain ⟨p1, p2, p3⟩ := hP
  obtain ⟨mesh, hmesh, hf⟩ := bind_ok hf
  have hmesh := idx_inv hmesh
  obtain ⟨sub, hsub, hf⟩ := bind_ok hf
  have hsub := idx_inv hsub
  obtain ⟨r', hr', hf⟩ := bind_ok hf
  obtain ⟨offs, er, hz⟩ := streamFold_strip { mesh with startIndex := sub.indexOffset } st.2 r' hr'
  have hz' : zeroBelow mesh.vertexStreamCount.toNat offs =
      zeroBelow mesh.vertexStreamCount.toNat mesh.vertexBufferOffsets := hz
  have e := pure_ok hf
  subst e
  have hlen : lo + k < st.1.length := by
    apply Classical.byContradiction
    intro hc
    rw [List.getElem?_eq_none (by omega)] at hmesh
    cases hmesh
  have hs : stripMesh r'.1 = stripMesh mesh := by
    rw [er]
    unfold stripMesh
    dsimp only
    rw [hz']
  refine ⟨?_, ?_, ?_⟩
  · show (st.1.set (lo + k) r'.1).map stripMesh = ms.map stripMesh
    rw [map_set_eq stripMesh _ _ _ _ hmesh hs]
    exact p1
  · intro j hj
    show (st.1.set (lo + k) r'.1)[j]? = ms[j]?
    rw [List.getElem?_set_ne (by omega)]
    exact p2 j (by omega)
  · intro d hd
    show Started subs (meshAt (st.1.set (lo + k) r'.1) (lo + d))
    rw [meshAt_set _ _ _ _ hlen]
    by_cases hdk : d = k
    · subst hdk
      rw [if_pos rfl, er]
      show sub.indexOffset = (subs[mesh.submeshIndex.toNat]?.getD default).indexOffset
      rw [hsub]
      rfl
    · rw [if_neg (by omega)]
      exact p3 d (by omega)

theorem updateMeshOffsets_strip {md : ModelData} {n : Nat} {out : List Mesh}
    (h : updateMeshOffsets md n = .ok out) :
    out.map stripMesh = md.meshes.map stripMesh ∧
    (RangesDisjoint md.lods n → ∀ i, i < n → ∀ d, d < (lodAt md.lods i).meshCount.toNat →
      Started md.submeshes (meshAt out ((lodAt md.lods i).meshIndex.toNat + d))) := by
  unfold updateMeshOffsets at h
  refine foldlM_range_inv _ (fun k (ms : List Mesh) =>
    ms.map stripMesh = md.meshes.map stripMesh ∧
    (RangesDisjoint md.lods n → ∀ i, i < k → ∀ d, d < (lodAt md.lods i).meshCount.toNat →
      Started md.submeshes (meshAt ms ((lodAt md.lods i).meshIndex.toNat + d))))
    md.meshes ⟨rfl, fun _ i hi => by omega⟩ n out ?_ h
  intro k ms ms' hk hP hf
  obtain ⟨p1, p3⟩ := hP
  obtain ⟨lod, hlod, hf⟩ := bind_ok hf
  have hlod := idx_inv hlod
  obtain ⟨hi, hhi, hf⟩ := bind_ok hf
  obtain ⟨_, hhi⟩ := addU16_inv hhi
  obtain ⟨r, hr, hf⟩ := bind_ok hf
  have e := pure_ok hf
  subst e
  have hn : hi.toNat - lod.meshIndex.toNat = lod.meshCount.toNat := by omega
  rw [hn] at hr
  obtain ⟨q1, q2, q3⟩ := meshFold_strip md.submeshes ms lod.meshIndex.toNat lod.meshCount.toNat r hr
  have hat : lodAt md.lods k = lod := by simp [lodAt, hlod]
  refine ⟨q1.trans p1, ?_⟩
  intro hd i hi d hdc
  by_cases hik : i = k
  · subst hik
    rw [hat] at hdc ⊢
    exact q3 d hdc
  · have hold := p3 hd i (by omega) d hdc
    have hdis := hd k hk i (by omega)
    rw [hat] at hdis
    have hfr : meshAt r.1 ((lodAt md.lods i).meshIndex.toNat + d) =
        meshAt ms ((lodAt md.lods i).meshIndex.toNat + d) := by
      unfold meshAt
      rw [q2]
      unfold RangeDisjoint at hdis
      omega
    rw [hfr]
    exact hold

/-! ### the LOD rows and the records -/

theorem stripLod_sizes (l : MeshLod) (tv ib : UInt32) :
    stripLod { l with vertexBufferSize := tv, indexBufferSize := ib } = stripLod l := rfl

theorem stripLod_offsets (l : MeshLod) (vo io eo : UInt32) :
    stripLod { l with vertexDataOffset := vo, indexDataOffset := io, edgeGeometryDataOffset := eo } =
      stripLod l := rfl

theorem stripMD_eq (d : ModelData) (ms : List Mesh) (ls : List MeshLod) (hd : ModelHeader)
    (h1 : ms.map stripMesh = d.meshes.map stripMesh) (h2 : ls.map stripLod = d.lods.map stripLod)
    (h3 : stripHeader hd = stripHeader d.header) :
    stripMD { d with meshes := ms, lods := ls, header := hd } = stripMD d := by
  unfold stripMD
  dsimp only
  rw [h1, h2, h3]

/-- **(a)** `update_headers` changes layout fields only -/
theorem updateHeaders_strip {m m' : MDL} (h : updateHeaders m = .ok m') :
    stripMD m'.modelData = stripMD m.modelData ∧ stripFH m'.fileHeader = stripFH m.fileHeader ∧
    m'.lods = m.lods ∧ m'.affectedBoneNames = m.affectedBoneNames ∧
    m'.materialNames = m.materialNames := by
  unfold updateHeaders at h
  obtain ⟨meshes, hmeshes, h⟩ := bind_ok h
  obtain ⟨lods1, hlods1, h⟩ := bind_ok h
  obtain ⟨stack, _, h⟩ := bind_ok h
  obtain ⟨runtime, _, h⟩ := bind_ok h
  obtain ⟨d0, _, h⟩ := bind_ok h
  obtain ⟨dataOffset, _, h⟩ := bind_ok h
  obtain ⟨lods2, hlods2, h⟩ := bind_ok h
  obtain ⟨vbs, _, h⟩ := bind_ok h
  obtain ⟨vo, _, h⟩ := bind_ok h
  obtain ⟨ibs, _, h⟩ := bind_ok h
  obtain ⟨io, _, h⟩ := bind_ok h
  have e := pure_ok h
  subst e
  obtain ⟨hlen1, hrow1⟩ := mapM_inv _ _ _ hlods1
  obtain ⟨_, hlen2, hrow2⟩ := assignOffsets_inv _ _ _ _ hlods2
  have hlen : lods2.length = m.modelData.lods.length := by rw [hlen2]; exact hlen1
  have hm := (updateMeshOffsets_strip hmeshes).1
  have hl : lods2.map stripLod = m.modelData.lods.map stripLod := by
    apply List.ext_getElem?
    intro i
    rw [List.getElem?_map, List.getElem?_map]
    cases hb : lods2[i]? with
    | none =>
      have : m.modelData.lods[i]? = none := by
        rw [List.getElem?_eq_none_iff] at hb ⊢
        omega
      rw [this]
    | some l' =>
      obtain ⟨l1, hl1, vo', io', e1⟩ := hrow2 i l' hb
      obtain ⟨l0, hl0, hu⟩ := hrow1 i l1 hl1
      obtain ⟨_, tv, ib, e0⟩ := updateLodSizes_inv hu
      rw [hl0, e1, e0]
      rfl
  refine ⟨?_, rfl, rfl, rfl, rfl⟩
  exact stripMD_eq m.modelData meshes lods2 _ hm hl rfl

/-- **(b)** after `update_headers` every mesh of a used LOD starts at its first sub-mesh -/
theorem updateHeaders_starts {m m' : MDL} (h : updateHeaders m = .ok m')
    (hd : RangesDisjoint m.modelData.lods m.lods.length) : StartsFromSubmesh m' := by
  have hf := (updateHeaders_core h).2
  unfold updateHeaders at h
  obtain ⟨meshes, hmeshes, h⟩ := bind_ok h
  obtain ⟨lods1, _, h⟩ := bind_ok h
  obtain ⟨stack, _, h⟩ := bind_ok h
  obtain ⟨runtime, _, h⟩ := bind_ok h
  obtain ⟨d0, _, h⟩ := bind_ok h
  obtain ⟨dataOffset, _, h⟩ := bind_ok h
  obtain ⟨lods2, _, h⟩ := bind_ok h
  obtain ⟨vbs, _, h⟩ := bind_ok h
  obtain ⟨vo, _, h⟩ := bind_ok h
  obtain ⟨ibs, _, h⟩ := bind_ok h
  obtain ⟨io, _, h⟩ := bind_ok h
  have e := pure_ok h
  have hmesh : m'.modelData.meshes = meshes := by rw [← e]
  have hsub : m'.modelData.submeshes = m.modelData.submeshes := by rw [← e]
  have s := (updateMeshOffsets_strip hmeshes).2 hd
  intro i hi d hdc
  rw [hf.partsLen] at hi
  obtain ⟨r1, r2⟩ := hf.lodAt_ranges i
  rw [r2] at hdc
  rw [r1, hmesh, hsub]
  exact s i hi d hdc

end Physis.Mdl
