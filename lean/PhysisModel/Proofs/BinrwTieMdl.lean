import PhysisModel.Proofs.BinrwLemmas
import PhysisModel.Generated.BinrwMdl
import PhysisModel.Model.Mdl
/-!
T4 for `src/model.rs` (C06): `ModelFileHeader`, `Mesh`, `Submesh`, `BoneTable`, `ShapeStruct`,
`ShapeMesh`, `ShapeValue` against the `Mdl.P` parsers of `Model/Mdl.lean`
(`P α = Bytes → Except Err (α × Bytes)`; a binrw read error is `.error .fail`).
The bridge lemmas turn a `P` program applied to its input into `toR (<Option.bind chain>)`.
Two steps per struct as in `Proofs/BinrwTieIndex.lean`.
-/
namespace Physis.BinrwTie.Mdl
open Physis Physis.Binrw Physis.Reader Physis.Generated
open Physis.Mdl (Err R P)

/-- `None`/`Err` of the layout = `.error .fail` of the model -/
def toR {α : Type} : Option α → R α
  | some a => .ok a
  | none => .error .fail

/-! ### bridge -/
theorem m_bind {α β : Type} (p : P α) (f : α → P β) (s : Bytes) :
    Mdl.P.bind p f s = Except.bind (p s) fun x => f x.1 x.2 := by
  unfold Mdl.P.bind
  cases p s <;> rfl
theorem toR_bind {α β : Type} (x : Option α) (g : α → Option β) :
    Except.bind (toR x) (fun a => toR (g a)) = toR (x.bind g) := by
  cases x <;> rfl
theorem m_pure {α : Type} (a : α) (s : Bytes) : Mdl.P.pure a s = toR (some (a, s)) := rfl
theorem m_u8 (s : Bytes) : Mdl.u8 s = toR (u8 s) := by
  rcases s with _ | ⟨a, r⟩ <;> rfl
theorem m_u16 (s : Bytes) : Mdl.u16 s = toR (u16le s) := by
  rcases s with _ | ⟨a, _ | ⟨b, r⟩⟩ <;> rfl
theorem m_u32 (s : Bytes) : Mdl.u32 s = toR (u32le s) := by
  rcases s with _ | ⟨a, _ | ⟨b, _ | ⟨c, _ | ⟨d, r⟩⟩⟩⟩ <;> rfl
theorem m_skip (n : Nat) (s : Bytes) : Mdl.skip n s = toR (some ((), s.drop n)) := rfl
theorem m_takeN (n : Nat) (s : Bytes) : Mdl.takeN n s = toR (bytes n s) := by
  unfold Mdl.takeN bytes; split <;> rfl

/-- `[u8; 3]` read at once = three `u8` reads (also on truncated input) -/
theorem bytes3 (l : Bytes) :
    bytes 3 l = (u8 l).bind fun a => (u8 a.2).bind fun b => (u8 b.2).bind fun c => some ([a.1, b.1, c.1], c.2) := by
  rcases l with _ | ⟨a, _ | ⟨b, _ | ⟨c, r⟩⟩⟩ <;> simp [bytes, u8]

/-- unfold a `Mdl.P` program applied to its input -/
syntax "mdl_norm" "[" Lean.Parser.Tactic.simpLemma,* "]" : tactic
macro_rules
  | `(tactic| mdl_norm [$extra,*]) => `(tactic| binrw_norm! [bind, pure, Mdl.arr3, Mdl.bool8, Mdl.count, m_bind, m_pure,
      m_u8, m_u16, m_u32, m_skip, m_takeN, toR_bind, $extra,*])

/-- `ModelFileHeader` declares `little`; the other structs are read inside `ModelData` (`#[brw(little)]`) -/
abbrev endian : Endian := BinrwMdl.modelData.endianOr .big

namespace Expected
def modelFileHeader : Layout :=
  .mk (some .little) .none [
    .mk "version" none .none 0 (.prim .u32) 0 0,
    .mk "stack_size" none .none 0 (.prim .u32) 0 0,
    .mk "runtime_size" none .none 0 (.prim .u32) 0 0,
    .mk "vertex_declaration_count" none .none 0 (.prim .u16) 0 0,
    .mk "material_count" none .none 0 (.prim .u16) 0 0,
    .mk "vertex_offsets" none .none 0 (.array (.lit 3) (.prim .u32)) 0 0,
    .mk "index_offsets" none .none 0 (.array (.lit 3) (.prim .u32)) 0 0,
    .mk "vertex_buffer_size" none .none 0 (.array (.lit 3) (.prim .u32)) 0 0,
    .mk "index_buffer_size" none .none 0 (.array (.lit 3) (.prim .u32)) 0 0,
    .mk "lod_count" none .none 0 (.prim .u8) 0 0,
    .mk "index_buffer_streaming_enabled" none .none 0 (.prim .u8) 0 0,
    .mk "has_edge_geometry" none .none 0 (.prim .u8) 0 1] true
def mesh : Layout :=
  .mk none .none [
    .mk "vertex_count" none .none 0 (.prim .u16) 0 2,
    .mk "index_count" none .none 0 (.prim .u32) 0 0,
    .mk "material_index" none .none 0 (.prim .u16) 0 0,
    .mk "submesh_index" none .none 0 (.prim .u16) 0 0,
    .mk "submesh_count" none .none 0 (.prim .u16) 0 0,
    .mk "bone_table_index" none .none 0 (.prim .u16) 0 0,
    .mk "start_index" none .none 0 (.prim .u32) 0 0,
    .mk "vertex_buffer_offsets" none .none 0 (.array (.lit 3) (.prim .u32)) 0 0,
    .mk "vertex_buffer_strides" none .none 0 (.bytes (.lit 3)) 0 0,
    .mk "vertex_stream_count" none .none 0 (.prim .u8) 0 0] true
def submesh : Layout :=
  .mk none .none [
    .mk "index_offset" none .none 0 (.prim .u32) 0 0,
    .mk "index_count" none .none 0 (.prim .u32) 0 0,
    .mk "attribute_index_mask" none .none 0 (.prim .u32) 0 0,
    .mk "bone_start_index" none .none 0 (.prim .u16) 0 0,
    .mk "bone_count" none .none 0 (.prim .u16) 0 0] true
def boneTable : Layout :=
  .mk none .none [
    .mk "bone_indices" none .none 0 (.array (.lit 64) (.prim .u16)) 0 0,
    .mk "bone_count" none .none 0 (.prim .u8) 0 3] true
def shapeStruct : Layout :=
  .mk none .none [
    .mk "string_offset" none .none 0 (.prim .u32) 0 0,
    .mk "shape_mesh_start_index" none .none 0 (.array (.lit 3) (.prim .u16)) 0 0,
    .mk "shape_mesh_count" none .none 0 (.array (.lit 3) (.prim .u16)) 0 0] true
def shapeMesh : Layout :=
  .mk none .none [
    .mk "mesh_index_offset" none .none 0 (.prim .u32) 0 0,
    .mk "shape_value_count" none .none 0 (.prim .u32) 0 0,
    .mk "shape_value_offset" none .none 0 (.prim .u32) 0 0] true
def shapeValue : Layout :=
  .mk none .none [
    .mk "base_indices_index" none .none 0 (.prim .u16) 0 0,
    .mk "replacing_vertex_index" none .none 0 (.prim .u16) 0 0] true
end Expected

/-! ### step 2 (re-checked on every run) -/
theorem endian_generated : endian = .little := rfl
theorem modelFileHeader_generated :
    BinrwMdl.modelFileHeader.normalizeAt .big = Expected.modelFileHeader.normalizeAt .big := rfl
theorem mesh_generated : BinrwMdl.mesh.normalizeAt .little = Expected.mesh.normalizeAt .little := rfl
theorem submesh_generated : BinrwMdl.submesh.normalizeAt .little = Expected.submesh.normalizeAt .little := rfl
theorem boneTable_generated : BinrwMdl.boneTable.normalizeAt .little = Expected.boneTable.normalizeAt .little := rfl
theorem shapeStruct_generated :
    BinrwMdl.shapeStruct.normalizeAt .little = Expected.shapeStruct.normalizeAt .little := rfl
theorem shapeMesh_generated : BinrwMdl.shapeMesh.normalizeAt .little = Expected.shapeMesh.normalizeAt .little := rfl
theorem shapeValue_generated :
    BinrwMdl.shapeValue.normalizeAt .little = Expected.shapeValue.normalizeAt .little := rfl

/-! ### projections -/
def fileHeaderOf : List Value → Option Mdl.FileHeader
  | [.w32 .u32 version, .w32 .u32 stack, .w32 .u32 runtime, .w16 .u16 vdc, .w16 .u16 mc,
     .list [.w32 .u32 vo0, .w32 .u32 vo1, .w32 .u32 vo2], .list [.w32 .u32 io0, .w32 .u32 io1, .w32 .u32 io2],
     .list [.w32 .u32 vb0, .w32 .u32 vb1, .w32 .u32 vb2], .list [.w32 .u32 ib0, .w32 .u32 ib1, .w32 .u32 ib2],
     .w8 .u8 lods, .w8 .u8 streaming, .w8 .u8 edge] =>
    some ⟨version, stack, runtime, vdc, mc, ⟨vo0, vo1, vo2⟩, ⟨io0, io1, io2⟩, ⟨vb0, vb1, vb2⟩, ⟨ib0, ib1, ib2⟩,
      lods, streaming == 1, edge == 1⟩
  | _ => none
def meshOf : List Value → Option Mdl.Mesh
  | [.w16 .u16 vc, .w32 .u32 ic, .w16 .u16 mi, .w16 .u16 si, .w16 .u16 sc, .w16 .u16 bti, .w32 .u32 start,
     .list [.w32 .u32 o0, .w32 .u32 o1, .w32 .u32 o2], .bytes [s0, s1, s2], .w8 .u8 streams] =>
    some ⟨vc, ic, mi, si, sc, bti, start, ⟨o0, o1, o2⟩, ⟨s0, s1, s2⟩, streams⟩
  | _ => none
def submeshOf : List Value → Option Mdl.Submesh
  | [.w32 .u32 a, .w32 .u32 b, .w32 .u32 c, .w16 .u16 d, .w16 .u16 e] => some ⟨a, b, c, d, e⟩
  | _ => none
def u16OfV : Value → Option UInt16
  | .w16 .u16 v => some v
  | _ => none
def boneTableOf : List Value → Option Mdl.BoneTable
  | [.list idx, .w8 .u8 n] => (projAll u16OfV idx).map fun is => ⟨is, n⟩
  | _ => none
def shapeStructOf : List Value → Option Mdl.ShapeStruct
  | [.w32 .u32 so, .list [.w16 .u16 a0, .w16 .u16 a1, .w16 .u16 a2], .list [.w16 .u16 b0, .w16 .u16 b1, .w16 .u16 b2]] =>
    some ⟨so, ⟨a0, a1, a2⟩, ⟨b0, b1, b2⟩⟩
  | _ => none
def shapeMeshOf : List Value → Option Mdl.ShapeMesh
  | [.w32 .u32 a, .w32 .u32 b, .w32 .u32 c] => some ⟨a, b, c⟩
  | _ => none
def shapeValueOf : List Value → Option Mdl.ShapeValue
  | [.w16 .u16 a, .w16 .u16 b] => some ⟨a, b⟩
  | _ => none

/-! ### step 1 -/
theorem parseFileHeader_eq_expected (l : Bytes) :
    Mdl.parseFileHeader l = toR (via fileHeaderOf (Layout.read .big Expected.modelFileHeader l)) := by
  mdl_norm [Mdl.parseFileHeader, Expected.modelFileHeader]
  rfl
theorem parseSubmesh_eq_expected (l : Bytes) :
    Mdl.parseSubmesh l = toR (via submeshOf (Layout.read .little Expected.submesh l)) := by
  mdl_norm [Mdl.parseSubmesh, Expected.submesh]
  rfl
theorem parseShapeMesh_eq_expected (l : Bytes) :
    Mdl.parseShapeMesh l = toR (via shapeMeshOf (Layout.read .little Expected.shapeMesh l)) := by
  mdl_norm [Mdl.parseShapeMesh, Expected.shapeMesh]
  rfl
theorem parseShapeValue_eq_expected (l : Bytes) :
    Mdl.parseShapeValue l = toR (via shapeValueOf (Layout.read .little Expected.shapeValue l)) := by
  mdl_norm [Mdl.parseShapeValue, Expected.shapeValue]
  rfl
theorem parseShape_eq_expected (l : Bytes) :
    Mdl.parseShape l = toR (via shapeStructOf (Layout.read .little Expected.shapeStruct l)) := by
  mdl_norm [Mdl.parseShape, Expected.shapeStruct]
  rfl
theorem parseMesh_eq_expected (l : Bytes) :
    Mdl.parseMesh l = toR (via meshOf (Layout.read .little Expected.mesh l)) := by
  mdl_norm [Mdl.parseMesh, Expected.mesh, bytes3]
  rfl

/-! `BoneTable` (`[u16; 64]`): through a lemma relating the model's `count u16 n` to `repeatN` (no unrolling) -/
theorem count_u16 (n : Nat) (s : Bytes) :
    Mdl.count Mdl.u16 n s =
      toR ((repeatN (Kind.read .little [] (.prim .u16)) n s).bind fun vs => (projAll u16OfV vs.1).map (·, vs.2)) := by
  induction n generalizing s with
  | zero => rfl
  | succ n ih =>
    simp only [Mdl.count, bind, pure, m_bind, m_u16, m_pure, ih, toR_bind]
    binrw_norm []
    cases u16le s with
    | none => rfl
    | some x =>
      simp only [Option.bind_some]
      cases repeatN _ n x.2 with
      | none => rfl
      | some vs =>
        simp only [Option.bind_some, projAll, u16OfV]
        cases projAll u16OfV vs.1 <;> rfl

theorem parseBoneTable_eq_expected (l : Bytes) :
    Mdl.parseBoneTable l = toR (via boneTableOf (Layout.read .little Expected.boneTable l)) := by
  simp only [Mdl.parseBoneTable, bind, pure, m_bind, m_pure, m_u8, m_skip, count_u16, toR_bind,
    Expected.boneTable, Layout.read, Layout.readFields, Field.read, Kind.read, readMagic, Count.eval, Option.getD,
    Kind.size, Prim.width, readPrim, skip, via, boneTableOf, List.drop_zero, List.nil_append, List.cons_append,
    Option.bind_some, Option.bind_map, Option.map_map, Option.map_some, Function.comp_def,
    Nat.zero_sub, Option.bind_assoc]
  congr 1
  cases repeatN (readPrim .u16 .little) 64 l with
  | none => rfl
  | some y => simp only [Option.bind_some]; cases projAll u16OfV y.1 <;> cases u8 y.2 <;> rfl

/-! ### the tie -/
theorem parseFileHeader_eq_generated (l : Bytes) :
    Mdl.parseFileHeader l = toR (via fileHeaderOf (Layout.read .big BinrwMdl.modelFileHeader l)) := by
  rw [Layout.read_congr _ modelFileHeader_generated]; exact parseFileHeader_eq_expected l
theorem parseMesh_eq_generated (l : Bytes) :
    Mdl.parseMesh l = toR (via meshOf (Layout.read endian BinrwMdl.mesh l)) := by
  rw [endian_generated, Layout.read_congr _ mesh_generated]; exact parseMesh_eq_expected l
theorem parseSubmesh_eq_generated (l : Bytes) :
    Mdl.parseSubmesh l = toR (via submeshOf (Layout.read endian BinrwMdl.submesh l)) := by
  rw [endian_generated, Layout.read_congr _ submesh_generated]; exact parseSubmesh_eq_expected l
theorem parseBoneTable_eq_generated (l : Bytes) :
    Mdl.parseBoneTable l = toR (via boneTableOf (Layout.read endian BinrwMdl.boneTable l)) := by
  rw [endian_generated, Layout.read_congr _ boneTable_generated]; exact parseBoneTable_eq_expected l
theorem parseShape_eq_generated (l : Bytes) :
    Mdl.parseShape l = toR (via shapeStructOf (Layout.read endian BinrwMdl.shapeStruct l)) := by
  rw [endian_generated, Layout.read_congr _ shapeStruct_generated]; exact parseShape_eq_expected l
theorem parseShapeMesh_eq_generated (l : Bytes) :
    Mdl.parseShapeMesh l = toR (via shapeMeshOf (Layout.read endian BinrwMdl.shapeMesh l)) := by
  rw [endian_generated, Layout.read_congr _ shapeMesh_generated]; exact parseShapeMesh_eq_expected l
theorem parseShapeValue_eq_generated (l : Bytes) :
    Mdl.parseShapeValue l = toR (via shapeValueOf (Layout.read endian BinrwMdl.shapeValue l)) := by
  rw [endian_generated, Layout.read_congr _ shapeValue_generated]; exact parseShapeValue_eq_expected l

end Physis.BinrwTie.Mdl
