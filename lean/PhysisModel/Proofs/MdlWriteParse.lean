import PhysisModel.Proofs.MdlGeometry
import PhysisModel.Model.MdlWrite
import PhysisModel.Spec.MdlEdit
/-!
# C07 — `write_to_buffer` followed by `from_existing`

1. the writer's records are the format's records (`wModelData_eq`);
2. the algebra of `writeAt` (`Cursor<&mut Vec<u8>>`: seek + write into a growing zero-filled
   vector), as a function on lists (`writeAtL`), and the prefix-preservation of the whole
   vertex / index pass of `writeToBuffer`;
3. `write_parse_headers`: re-parsing a written file returns the same `file_header` and `model_data`.
-/
namespace Physis.Mdl
open Physis Physis.Spec.Mdl

/-! ## 1. the writer's records are the format's records -/

theorem wZeros_eq (n : Nat) : wZeros n = zeros n := rfl
theorem wFileHeader_eq (h : FileHeader) : wFileHeader h = encFileHeader h := rfl
theorem wElement_eq : wElement = encElement := rfl
theorem wModelHeader_eq (h : ModelHeader) : wModelHeader h = encModelHeader h := rfl
theorem wMeshLod_eq : wMeshLod = encMeshLod := rfl
theorem wMesh_eq : wMesh = encMesh := rfl
theorem wSubmesh_eq : wSubmesh = encSubmesh := rfl
theorem wBoneTable_eq : wBoneTable = encBoneTable := rfl
theorem wShape_eq : wShape = encShape := rfl
theorem wShapeMesh_eq : wShapeMesh = encShapeMesh := rfl
theorem wShapeValue_eq : wShapeValue = encShapeValue := rfl

theorem wDecl_eq (d : List VertexElement) (h : d.length ≤ 16) : wDecl d = .ok (encDecl d) := by
  have : ¬ d.length > 16 := by omega
  simp only [wDecl, this, ↓reduceIte]
  rfl

theorem wDecls_eq (ds : List (List VertexElement)) (h : ∀ x ∈ ds, x.length ≤ 16) :
    wDecls ds = .ok (ds.flatMap encDecl) := by
  induction ds with
  | nil => rfl
  | cons d rest ih =>
    simp only [wDecls, wDecl_eq d (h d (by simp)), ih (fun x hx => h x (by simp [hx]))]
    rfl

/-- for a version ≤ 5 model without V2 bone tables the writer emits exactly the format's runtime
block -/
theorem wModelData_eq (v : UInt32) (d : ModelData) (hv : isV5 v = true) (h2 : d.boneTablesV2 = [])
    (hd : ∀ x ∈ d.decls, x.length ≤ 16) : wModelData v d = .ok (encModelData v d) := by
  have hv6 := not_isV6_of_isV5 v hv
  simp only [wModelData, wDecls_eq d.decls hd, encModelData, v5_eq, v6_eq, hv, hv6, h2,
    wModelHeader_eq, wMeshLod_eq, wMesh_eq, wSubmesh_eq, wBoneTable_eq, wShape_eq, wShapeMesh_eq,
    wShapeValue_eq, ↓reduceIte, Bool.false_eq_true, List.flatMap_nil, List.nil_append]
  rfl

/-! ## 2. `writeAt` -/

/-- `writeAt` on lists: nothing for an empty write; otherwise the old bytes before `pos`
(zero-extended when the vector is shorter), the data, and the old bytes after the written range -/
def writeAtL (buf : Bytes) (pos : Nat) (data : Bytes) : Bytes :=
  if data = [] then buf
  else (buf ++ List.replicate (pos - buf.length) 0).take pos ++ (data ++ buf.drop (pos + data.length))

theorem take_set_succ (l : List α) (p : Nat) (x : α) (h : p < l.length) :
    (l.set p x).take (p + 1) = l.take p ++ [x] := by
  rw [List.take_add_one, List.take_set_of_le (by omega)]
  simp [h]

theorem drop_set_gt (l : List α) (p q : Nat) (x : α) (h : p < q) :
    (l.set p x).drop q = l.drop q := by
  rw [List.drop_set]; simp [h]

theorem writeAt_fold (data : Bytes) : ∀ (arr : Array UInt8) (pos : Nat), pos ≤ arr.size →
    (data.foldl (fun (acc : Array UInt8 × Nat) x =>
      (if acc.2 < acc.1.size then acc.1.setIfInBounds acc.2 x else acc.1.push x, acc.2 + 1))
      (arr, pos)).1.toList = arr.toList.take pos ++ (data ++ arr.toList.drop (pos + data.length)) := by
  induction data with
  | nil => intro arr pos _; simp
  | cons x xs ih =>
    intro arr pos hp
    rw [List.foldl_cons]
    have e : pos + (x :: xs).length = pos + 1 + xs.length := by simp; omega
    rw [e]
    by_cases hlt : pos < arr.size
    · simp only [hlt, ↓reduceIte]
      rw [ih _ _ (by simp; omega)]
      simp only [Array.toList_setIfInBounds]
      rw [take_set_succ _ _ _ (by simpa using hlt), drop_set_gt _ _ _ _ (by omega)]
      simp
    · have hsz : pos = arr.size := by omega
      simp only [hlt, ↓reduceIte]
      rw [ih _ _ (by simp; omega)]
      subst hsz
      simp only [Array.toList_push]
      rw [List.drop_eq_nil_of_le (by simp), List.drop_eq_nil_of_le (by simp; omega),
        List.take_of_length_le (by simp), List.take_of_length_le (by simp)]
      simp

theorem writeAt_toList (buf : Array UInt8) (pos : Nat) (data : Bytes) :
    (writeAt buf pos data).toList = writeAtL buf.toList pos data := by
  unfold writeAt writeAtL
  by_cases hd : data = []
  · simp [hd]
  · have hne : data.isEmpty = false := by simpa using hd
    simp only [hne, Bool.false_eq_true, ↓reduceIte, hd]
    by_cases hlt : buf.size < pos
    · simp only [hlt, ↓reduceIte]
      rw [writeAt_fold _ _ _ (by simp; omega)]
      simp only [Array.toList_append, Array.toList_replicate, Array.length_toList]
      have hl : (buf.toList ++ List.replicate (pos - buf.size) (0 : UInt8)).length = pos := by
        simp; omega
      rw [List.drop_eq_nil_of_le (by omega), List.drop_eq_nil_of_le (by simp; omega)]
    · simp only [hlt, ↓reduceIte]
      rw [writeAt_fold _ _ _ (by omega)]
      have : pos - buf.toList.length = 0 := by simp; omega
      rw [this]; simp

/-! ### the algebra of one write -/

theorem writeAtL_nil (buf : Bytes) (pos : Nat) : writeAtL buf pos [] = buf := by simp [writeAtL]

theorem writeAtL_length (buf : Bytes) (pos : Nat) (data : Bytes) (hd : data ≠ []) :
    (writeAtL buf pos data).length = max buf.length (pos + data.length) := by
  simp only [writeAtL, hd, ↓reduceIte, List.length_append, List.length_take, List.length_replicate,
    List.length_drop]
  omega

/-- a write never shrinks the vector -/
theorem writeAtL_length_ge (buf : Bytes) (pos : Nat) (data : Bytes) :
    buf.length ≤ (writeAtL buf pos data).length := by
  by_cases hd : data = []
  · simp [hd, writeAtL_nil]
  · rw [writeAtL_length _ _ _ hd]; omega

/-- bytes before `pos` are kept (zero where the old vector was shorter) -/
theorem writeAtL_getElem?_lt (buf : Bytes) (pos : Nat) (data : Bytes) (hd : data ≠ []) (i : Nat)
    (hi : i < pos) : (writeAtL buf pos data)[i]? = some (buf.getD i 0) := by
  simp only [writeAtL, hd, ↓reduceIte]
  rw [List.getElem?_append_left (by simp; omega), List.getElem?_take_of_lt hi]
  by_cases hb : i < buf.length
  · rw [List.getElem?_append_left hb]; simp [hb]
  · rw [List.getElem?_append_right (by omega)]
    simp [hb, List.getElem?_replicate]
    omega

/-- the written range holds the data -/
theorem writeAtL_getElem?_mid (buf : Bytes) (pos : Nat) (data : Bytes) (i : Nat)
    (hi : i < data.length) : (writeAtL buf pos data)[pos + i]? = data[i]? := by
  have hd : data ≠ [] := by intro h; simp [h] at hi
  simp only [writeAtL, hd, ↓reduceIte]
  have hl : (List.take pos (buf ++ List.replicate (pos - buf.length) 0)).length = pos := by
    simp; omega
  rw [List.getElem?_append_right (by omega), hl, List.getElem?_append_left (by omega)]
  congr 1; omega

/-- bytes after the written range are kept -/
theorem writeAtL_getElem?_ge (buf : Bytes) (pos : Nat) (data : Bytes) (i : Nat)
    (hi : pos + data.length ≤ i) : (writeAtL buf pos data)[i]? = buf[i]? := by
  by_cases hd : data = []
  · simp [hd, writeAtL_nil]
  simp only [writeAtL, hd, ↓reduceIte]
  have hl : (List.take pos (buf ++ List.replicate (pos - buf.length) 0)).length = pos := by
    simp; omega
  rw [List.getElem?_append_right (by omega), hl, List.getElem?_append_right (by omega),
    List.getElem?_drop]
  congr 1; omega

/-- a write at or after the end of a prefix keeps the prefix -/
theorem writeAtL_prefix (pre buf : Bytes) (pos : Nat) (data : Bytes) (hp : pre <+: buf)
    (hpos : pre.length ≤ pos) : pre <+: writeAtL buf pos data := by
  by_cases hd : data = []
  · simpa [hd, writeAtL_nil] using hp
  obtain ⟨t, rfl⟩ := hp
  simp only [writeAtL, hd, ↓reduceIte, List.append_assoc]
  rw [List.take_append, List.take_of_length_le hpos, List.append_assoc]
  exact List.prefix_append _ _

/-- first `P` bytes: unchanged by a write at `pos ≥ P` -/
theorem writeAtL_take (buf : Bytes) (pos : Nat) (data : Bytes) (P : Nat) (hP : P ≤ buf.length)
    (hpos : P ≤ pos) : (writeAtL buf pos data).take P = buf.take P := by
  have h := writeAtL_prefix (buf.take P) buf pos data (List.take_prefix _ _) (by simp; omega)
  obtain ⟨t, ht⟩ := h
  rw [← ht, List.take_append_of_le_length (by simp; omega)]
  rw [List.take_take]; simp

/-! ### lifting to the folds of `writeToBuffer` -/

theorem R.bind_eq_ok {x : R α} {f : α → R β} {b : β} (h : (x >>= f) = .ok b) :
    ∃ a, x = .ok a ∧ f a = .ok b := by
  cases x with
  | error e => cases h
  | ok a => exact ⟨a, rfl, h⟩

/-- an invariant of every successful step is an invariant of a successful `foldlM` -/
theorem foldlM_invW (I : β → Prop) (f : β → α → R β) (l : List α)
    (h : ∀ x ∈ l, ∀ b b', I b → f b x = .ok b' → I b') :
    ∀ b b', I b → l.foldlM f b = .ok b' → I b' := by
  induction l with
  | nil => intro b b' hb hf; cases hf; exact hb
  | cons x xs ih =>
    intro b b' hb hf
    rw [List.foldlM_cons] at hf
    obtain ⟨b1, h1, h2⟩ := R.bind_eq_ok hf
    exact ih (fun y hy => h y (by simp [hy])) b1 b' (h x (by simp) b b1 hb h1) h2

theorem addU32_toNat {a b c : UInt32} (h : addU32 a b = .ok c) : c.toNat = a.toNat + b.toNat := by
  unfold addU32 at h
  split at h
  · cases h; exact toNat_add32 _ _ (by assumption)
  · cases h

theorem mulU32_toNat {a b c : UInt32} (h : mulU32 a b = .ok c) : c.toNat = a.toNat * b.toNat := by
  unfold mulU32 at h
  split at h
  · cases h; exact toNat_mul32 _ _ (by assumption)
  · cases h

/-- every write of `writeVertex` lands at or after `lod.vertexDataOffset` -/
theorem writeVertex_prefix (pre : Bytes) (lod : MeshLod) (mesh : Mesh) (decl : List VertexElement)
    (k : Nat) (v : Vertex) (hP : pre.length ≤ lod.vertexDataOffset.toNat) :
    ∀ (buf buf' : Array UInt8), pre <+: buf.toList → writeVertex lod mesh decl buf k v = .ok buf' →
      pre <+: buf'.toList := by
  unfold writeVertex
  apply foldlM_invW (fun (b : Array UInt8) => pre <+: b.toList)
  intro e _ b b' hI hstep
  obtain ⟨off, _, hstep⟩ := R.bind_eq_ok hstep
  obtain ⟨a, ha, hstep⟩ := R.bind_eq_ok hstep
  obtain ⟨a2, ha2, hstep⟩ := R.bind_eq_ok hstep
  obtain ⟨stride, _, hstep⟩ := R.bind_eq_ok hstep
  obtain ⟨c, _, hstep⟩ := R.bind_eq_ok hstep
  obtain ⟨addr, haddr, hstep⟩ := R.bind_eq_ok hstep
  obtain ⟨bytes, _, hstep⟩ := R.bind_eq_ok hstep
  cases hstep
  rw [writeAt_toList]
  have h1 := addU32_toNat ha
  have h2 := addU32_toNat ha2
  have h3 := addU32_toNat haddr
  exact writeAtL_prefix pre _ _ _ hI (by omega)

/-- every write of `writePart` lands at or after the LOD's vertex offset / index offset -/
theorem writePart_prefix (pre : Bytes) (fh : FileHeader) (md : ModelData) (l : Nat) (part : Part)
    (hv : part.vertices = [] ∨ ∀ lod, md.lods[l]? = some lod → pre.length ≤ lod.vertexDataOffset.toNat)
    (hi : part.indices = [] ∨ ∀ o, fh.indexOffsets.get? l = some o → pre.length ≤ o.toNat) :
    ∀ (buf buf' : Array UInt8), pre <+: buf.toList → writePart fh md l buf part = .ok buf' →
      pre <+: buf'.toList := by
  intro buf buf' hI h
  unfold writePart at h
  obtain ⟨decl, _, h⟩ := R.bind_eq_ok h
  obtain ⟨buf1, hfold, h⟩ := R.bind_eq_ok h
  obtain ⟨ioff, hioff, h⟩ := R.bind_eq_ok h
  obtain ⟨mesh, _, h⟩ := R.bind_eq_ok h
  obtain ⟨s2, _, h⟩ := R.bind_eq_ok h
  obtain ⟨ia, hia, h⟩ := R.bind_eq_ok h
  cases h
  have hI1 : pre <+: buf1.toList := by
    rcases hv with hv | hv
    · rw [hv] at hfold; cases hfold; exact hI
    · refine foldlM_invW (fun (b : Array UInt8) => pre <+: b.toList) _ _ ?_ buf buf1 hI hfold
      intro x _ b b' hb hstep
      obtain ⟨k, v⟩ := x
      obtain ⟨lod, hlod, hstep⟩ := R.bind_eq_ok hstep
      obtain ⟨mesh', _, hstep⟩ := R.bind_eq_ok hstep
      refine writeVertex_prefix pre lod mesh' decl k v (hv lod ?_) b b' hb hstep
      unfold idx at hlod
      split at hlod
      · cases hlod; assumption
      · cases hlod
  rw [writeAt_toList]
  rcases hi with hi | hi
  · rw [hi]; simpa [writeAtL_nil] using hI1
  · have h3 := addU32_toNat hia
    have : pre.length ≤ ioff.toNat := by
      apply hi
      unfold idx3 at hioff
      split at hioff
      · cases hioff; assumption
      · cases hioff
    exact writeAtL_prefix pre _ _ _ hI1 (by omega)

/-- size of the header + runtime block of a model as the writer emits it -/
def headerEnd (m : MDL) : Nat := 68 + (encModelData m.fileHeader.version m.modelData).length

/-- one part writes only after `P`: its LOD's vertex section (if it has vertices) and index
section (if it has indices) start at or after `P` -/
def partAfter (P : Nat) (fh : FileHeader) (md : ModelData) (l : Nat) (part : Part) : Bool :=
  (part.vertices.isEmpty ||
    match md.lods[l]? with
    | some lod => P ≤ lod.vertexDataOffset.toNat
    | none => true) &&
  (part.indices.isEmpty ||
    match fh.indexOffsets.get? l with
    | some o => P ≤ o.toNat
    | none => true)

/-- every vertex / index write of `writeToBuffer m` targets an address at or after the end of the
header + runtime block (quantifies over the LODs and parts exactly as the writer iterates) -/
def writesAfterHeader (m : MDL) : Bool :=
  (zipIdx' m.lods).all fun (l, parts) =>
    parts.all (partAfter (headerEnd m) m.fileHeader m.modelData l)

/-- the whole vertex / index pass keeps the first `pre.length` bytes -/
theorem writeLods_prefix (pre : Bytes) (fh : FileHeader) (md : ModelData)
    (lods : List (Nat × List Part))
    (hw : ∀ x ∈ lods, ∀ part ∈ x.2, partAfter pre.length fh md x.1 part = true) :
    ∀ (buf buf' : Array UInt8), pre <+: buf.toList →
      lods.foldlM (fun buf (l, parts) => parts.foldlM (writePart fh md l) buf) buf = .ok buf' →
      pre <+: buf'.toList := by
  apply foldlM_invW (fun (b : Array UInt8) => pre <+: b.toList)
  intro x hx b b' hb hstep
  obtain ⟨l, parts⟩ := x
  refine foldlM_invW (fun (b : Array UInt8) => pre <+: b.toList) _ _ ?_ b b' hb hstep
  intro part hpart c c' hc hstep'
  have := hw (l, parts) hx part hpart
  simp only [partAfter, Bool.and_eq_true, Bool.or_eq_true, List.isEmpty_iff] at this
  refine writePart_prefix pre fh md l part ?_ ?_ c c' hc hstep'
  · rcases this.1 with h | h
    · exact Or.inl h
    · refine Or.inr (fun lod hlod => ?_)
      rw [hlod] at h; simpa using h
  · rcases this.2 with h | h
    · exact Or.inl h
    · refine Or.inr (fun o ho => ?_)
      rw [ho] at h; simpa using h

/-! ## 3. the header part of write ∘ parse -/

theorem modelDataOk_decls (fh : FileHeader) (d : ModelData) (h : modelDataOk fh d = true) :
    ∀ x ∈ d.decls, x.length ≤ 16 := by
  intro x hx
  simp only [modelDataOk, Bool.and_eq_true, List.all_eq_true, and_assoc] at h
  have := h.2.1 x hx
  simp only [declOk, Bool.and_eq_true, decide_eq_true_eq] at this
  exact this.1.1.2

theorem modelDataOk_v2 (fh : FileHeader) (d : ModelData) (h : modelDataOk fh d = true)
    (hv : isV5 fh.version = true) : d.boneTablesV2 = [] := by
  simp only [modelDataOk, Bool.and_eq_true, and_assoc, hv, ↓reduceIte, List.isEmpty_iff] at h
  obtain ⟨_, _, _, _, _, _, _, _, _, _, _, _, _, _, _, _, _, _, h, _⟩ := h
  exact h

/-- what `writeToBuffer` produces, as far as the header pass is concerned: the format's file
header and runtime block, followed by whatever the vertex / index pass and the final zero fill
leave there -/
theorem writeToBuffer_headers (m : MDL) (hv : isV5 m.fileHeader.version = true)
    (hok : modelDataOk m.fileHeader m.modelData = true) (hw : writesAfterHeader m = true)
    (buf : Bytes) (hb : writeToBuffer m = .ok buf) :
    ∃ tail, buf = encFileHeader m.fileHeader ++
      (encModelData m.fileHeader.version m.modelData ++ tail) := by
  unfold writeToBuffer at hb
  rw [wModelData_eq _ _ hv (modelDataOk_v2 _ _ hok hv) (modelDataOk_decls _ _ hok)] at hb
  obtain ⟨md, hmd, hb⟩ := R.bind_eq_ok hb
  cases hmd
  obtain ⟨buf1, hfold, hb⟩ := R.bind_eq_ok hb
  cases hb
  have hlen : (wFileHeader m.fileHeader ++
      encModelData m.fileHeader.version m.modelData).length = headerEnd m := by
    rw [List.length_append, wFileHeader_eq, length_encFileHeader]; rfl
  have hpre := writeLods_prefix
    (wFileHeader m.fileHeader ++ encModelData m.fileHeader.version m.modelData)
    m.fileHeader m.modelData (zipIdx' m.lods)
    (by
      intro x hx part hpart
      simp only [writesAfterHeader, List.all_eq_true] at hw
      rw [hlen]
      exact hw x hx part hpart)
    _ buf1 (by simp) hfold
  obtain ⟨t, ht⟩ := hpre
  rw [← ht, wFileHeader_eq]
  exact ⟨_, by simp only [List.append_assoc]; rfl⟩

/-- **write ∘ parse, header part**: re-parsing a written file returns the same `file_header` and
the same `model_data` -/
theorem write_parse_headers (m : MDL) (hv : isV5 m.fileHeader.version = true)
    (hok : modelDataOk m.fileHeader m.modelData = true) (hw : writesAfterHeader m = true)
    (buf : Bytes) (hb : writeToBuffer m = .ok buf) :
    ∃ rest rest', parseFileHeader buf = .ok (m.fileHeader, rest) ∧
      parseModelData m.fileHeader rest = .ok (m.modelData, rest') := by
  obtain ⟨tail, rfl⟩ := writeToBuffer_headers m hv hok hw buf hb
  exact ⟨_, tail, parseFileHeader_enc _ _, parseModelData_enc _ _ hok tail⟩

end Physis.Mdl
