import PhysisModel.Proofs.MdlStrip
import PhysisModel.Proofs.MdlWriteBytes
/-!
# C07 — the abstraction relation between an in-memory `MDL` and an abstract model

`Rep a m`: the in-memory model `m` (as the edit API leaves it) *represents* the abstract model `a`
up to layout: the header tables agree with `modelData a` / `fileHeader a` on every field
`update_headers` does not recompute (`stripMD`, `stripFH`), the parts carry — LOD by LOD, mesh by
mesh — the mesh index, the decoded vertices, the indices and the sub-mesh table indices of `a`'s
meshes, and the name lists are `a`'s.  Nothing is said about the stale per-part views
(`vertex_streams`, sub-mesh ranges, shapes), which the edit API does not refresh and the writer
does not read.

`cedit` turns an abstract edit into the concrete API call with *consistently supplied* arguments
(vertices = the specification's decoding of the new stream bytes under the mesh's declaration), as
the check's driver does (`Driver/C07.lean`, `concretize`).
-/
namespace Physis.Mdl
open Physis Physis.Spec.Mdl

/-- what the edit API and the writer read of a part -/
def partKey (p : Part) : UInt16 × List Vertex × List UInt16 × List Nat :=
  (p.meshIndex, p.vertices, p.indices, p.submeshes.map (·.submeshIndex))

/-- the keys of the parts of one LOD; `mb` running mesh index, `sb` running sub-mesh index -/
def specKeysLod : Nat → Nat → List AMesh → List (UInt16 × List Vertex × List UInt16 × List Nat)
  | _, _, [] => []
  | mb, sb, mesh :: rest =>
    (mb.toUInt16, verticesOf mesh, mesh.indices, (List.range mesh.submeshes.length).map (sb + ·)) ::
      specKeysLod (mb + 1) (sb + mesh.submeshes.length) rest

/-- the keys of the parts of the first `n` LODs -/
def specKeys : Nat → Nat → Nat → List ALod → List (List (UInt16 × List Vertex × List UInt16 × List Nat))
  | _, _, _, [] => []
  | 0, _, _, _ => []
  | n + 1, mb, sb, l :: rest =>
    specKeysLod mb sb l.meshes :: specKeys n (mb + l.meshes.length) (sb + lodSubCount l) rest

structure Rep (a : AbstractModel) (m : MDL) : Prop where
  md : stripMD m.modelData = stripMD (modelData a)
  fh : stripFH m.fileHeader = stripFH (fileHeader a)
  parts : m.lods.map (·.map partKey) = specKeys a.lodCount.toNat 0 0 a.lods
  bones : m.affectedBoneNames = a.bones.map (·.flatMap latin1Utf8)
  mats : m.materialNames = a.materials.map (·.flatMap latin1Utf8)

theorem length_specKeysLod (l : List AMesh) : ∀ mb sb, (specKeysLod mb sb l).length = l.length := by
  induction l with
  | nil => intro _ _; rfl
  | cons x xs ih => intro mb sb; simp [specKeysLod, ih]

theorem length_specKeys (l : List ALod) : ∀ n mb sb, (specKeys n mb sb l).length = min n l.length := by
  induction l with
  | nil => intro n _ _; cases n <;> simp [specKeys]
  | cons x xs ih =>
    intro n mb sb
    cases n with
    | zero => simp [specKeys]
    | succ n => simp only [specKeys, List.length_cons, ih]; omega

/-- a LOD in use of `a` has an entry in the parts list of a model that represents `a` -/
theorem Rep.lod_lt {a : AbstractModel} {m : MDL} (hrep : Rep a m) {lod : Nat} {l : ALod}
    (hl : a.lods[lod]? = some l) (hlc : lod < a.lodCount.toNat) : lod < m.lods.length := by
  have := (congrArg List.length hrep.parts :)
  rw [List.length_map, length_specKeys] at this
  have h2 : lod < a.lods.length := by
    rcases Nat.lt_or_ge lod a.lods.length with h | h
    · exact h
    · rw [List.getElem?_eq_none h] at hl; cases hl
  omega

/-! ## abstract edits as concrete API calls -/

def meshOfA (m : AbstractModel) (lod part : Nat) : Option AMesh := do
  let l ← m.lods[lod]?
  l.meshes[part]?

/-- the concrete call for an abstract edit on the state `m` -/
def cedit (m : AbstractModel) : AEdit → Option Edit
  | .replace lod part vc streams indices subs => do
    let mesh ← meshOfA m lod part
    some (.replaceVertices lod part
      (verticesOf { mesh with vertexCount := vc, streams := streams }) indices subs)
  | .removeShapes => some .removeShapeMeshes
  | .addShape lod shape smi part bases streams => do
    let mesh ← meshOfA m lod part
    let vs := verticesOf { mesh with vertexCount := bases.length.toUInt16, streams := streams }
    some (.addShapeMesh lod shape smi part (List.zip bases vs))

/-- the history of concrete calls for an abstract history (the abstract state is threaded) -/
def cedits : AbstractModel → List AEdit → Option (List Edit)
  | _, [] => some []
  | a, e :: rest => do
    let c ← cedit a e
    let a' ← Spec.Mdl.applyEdit a e
    let cs ← cedits a' rest
    some (c :: cs)

/-- side condition on one edit: `replace_vertices` cannot change a mesh's vertex layout (the
stride / stream-count fields of the mesh row are not touched by the API), so the new streams come
with the strides of the old ones.  `add_shape_mesh` is not covered by the proved part yet. -/
def editOk (m : AbstractModel) : AEdit → Bool
  | .replace lod part _ streams _ _ =>
    match meshOfA m lod part with
    | some mesh => streams.map (·.stride) == mesh.streams.map (·.stride)
    | none => false
  | .removeShapes => true
  | .addShape _ _ _ _ _ _ => false

def editsOk : AbstractModel → List AEdit → Bool
  | _, [] => true
  | a, e :: rest =>
    editOk a e && match Spec.Mdl.applyEdit a e with
      | some a' => editsOk a' rest
      | none => false

end Physis.Mdl
