import PhysisModel.Base.Fault
import PhysisModel.Base.ParserF
import PhysisModel.Base.StrF
import PhysisModel.Model.Fault.Cfg
import PhysisModel.Model.Fault.Fiin
import PhysisModel.Model.Fault.Gearsets
import PhysisModel.Model.Fault.Log
import PhysisModel.Model.Fault.Patchlist
/-!
# C17 helper lemmas: every fault model is `Safe` under the input-proportional budget
-/
namespace Physis.F
open Physis StrF

theorem budget_ge (n : Nat) : n ≤ budget n := by unfold budget; omega
theorem budget_ge2 (n : Nat) : 2 * n + 32 ≤ budget n := by unfold budget; omega
theorem budget_ge2' (n : Nat) : 2 * n + 8 ≤ budget n := by unfold budget; omega
theorem budget_mono {a b : Nat} (h : a ≤ b) : budget a ≤ budget b := by unfold budget; omega
theorem const_le_budget {c n : Nat} (h : c ≤ 2 ^ 24) : c ≤ budget n := by unfold budget; omega

/-! ### cfg / exl -/
namespace Cfg

theorem safe_step (B : Nat) (cfg : ConfigFile) (line : Bytes) :
    Safe B (step true cfg line) (fun _ => True) := by
  unfold step
  split
  · split
    · simp only [if_true]
      split <;> exact Safe.pure trivial
    · split <;> exact Safe.pure trivial
  · exact Safe.pure trivial

theorem safe_loop (B : Nat) : ∀ (ls : List Bytes) (cfg : ConfigFile),
    Safe B (loop true ls cfg) (fun _ => True) := by
  intro ls
  induction ls with
  | nil => intro cfg; exact Safe.pure trivial
  | cons l r ih => intro cfg; exact Safe.bind (safe_step B cfg l) (fun a _ => ih a)

theorem safe_fromExisting (b : Bytes) : Safe (budget b.length) (fromExisting true b) (fun _ => True) :=
  Safe.bind (Safe.alloc (budget_ge _)) (fun _ _ => safe_loop _ _ _)

end Cfg

namespace Exl
theorem safe_fromExisting (b : Bytes) : Safe (budget b.length) (fromExisting b) (fun _ => True) :=
  Safe.bind (Safe.alloc (budget_ge _)) (fun _ _ => Safe.pure trivial)
end Exl

/-! ### shared string closures -/

theorem safeP_readString {B : Nat} {inp : Bytes} (x : Bytes) :
    SafeP B inp (readString true x) (fun _ => True) := by
  unfold readString decodeString
  simp only [if_true]
  exact SafeP.bind (SafeP.pure (Q := fun _ => True) trivial) (fun _ _ => SafeP.pure trivial)

/-! ### fiin -/
namespace Fiin

theorem safeP_entry {B : Nat} {inp : Bytes} (hB : 2 ^ 24 ≤ B) :
    SafeP B inp (entry true) (fun _ => True) := by
  unfold entry
  refine SafeP.bind SafeP.u32le (fun _ _ => ?_)
  refine SafeP.bind SafeP.skip (fun _ _ => ?_)
  refine SafeP.bind (SafeP.vecU8 (by omega) (by omega)) (fun raw _ => ?_)
  refine SafeP.bind (safeP_readString raw) (fun _ _ => ?_)
  refine SafeP.bind (SafeP.vecU8 (by omega) (by omega)) (fun _ _ => ?_)
  exact SafeP.pure trivial

theorem safeP_fileInfo {B : Nat} {inp : Bytes} (hB : 2 ^ 24 ≤ B) :
    SafeP B inp (fileInfo true) (fun _ => True) := by
  unfold fileInfo
  refine SafeP.bind SafeP.magic (fun _ _ => ?_)
  refine SafeP.bind SafeP.skip (fun _ _ => ?_)
  refine SafeP.bind SafeP.u32le (fun _ _ => ?_)
  refine SafeP.bind SafeP.u32le (fun _ _ => ?_)
  refine SafeP.bind SafeP.skip (fun _ _ => ?_)
  refine SafeP.bind SafeP.guard (fun _ _ => ?_)
  exact SafeP.triv (SafeP.count (safeP_entry hB))

theorem safe_fromExisting (b : Bytes) : Safe (budget b.length) (fromExisting true b) (fun _ => True) :=
  SafeP.run (safeP_fileInfo (by unfold budget; omega))

end Fiin

/-! ### chardat -/
namespace Chardat

theorem safeP_reprU8 {B : Nat} {inp : Bytes} (v : UInt8 → Bool) :
    SafeP B inp (reprU8 v) (fun _ => True) := by
  unfold reprU8
  refine SafeP.bind SafeP.u8 (fun _ _ => ?_)
  refine SafeP.bind SafeP.guard (fun _ _ => ?_)
  exact SafeP.pure trivial

theorem safeP_customize {B : Nat} {inp : Bytes} (en : Enums) :
    SafeP B inp (customize en) (fun _ => True) := by
  unfold customize
  refine SafeP.bind (safeP_reprU8 _) (fun _ _ => ?_)
  refine SafeP.bind (safeP_reprU8 _) (fun _ _ => ?_)
  refine SafeP.bind SafeP.u8 (fun _ _ => ?_)
  refine SafeP.bind SafeP.u8 (fun _ _ => ?_)
  refine SafeP.bind (safeP_reprU8 _) (fun _ _ => ?_)
  refine SafeP.bind SafeP.u8 (fun _ _ => ?_)
  refine SafeP.bind SafeP.u8 (fun _ _ => ?_)
  refine SafeP.bind SafeP.u8 (fun _ _ => ?_)
  refine SafeP.bind SafeP.take (fun _ _ => ?_)
  exact SafeP.pure trivial

theorem safeP_characterData {B : Nat} {inp : Bytes} (en : Enums) (hB : 2 ^ 24 ≤ B) :
    SafeP B inp (characterData true en) (fun _ => True) := by
  unfold characterData
  refine SafeP.bind SafeP.magic (fun _ _ => ?_)
  refine SafeP.bind SafeP.u32le (fun _ _ => ?_)
  refine SafeP.bind SafeP.u32le (fun _ _ => ?_)
  refine SafeP.bind SafeP.skip (fun _ _ => ?_)
  refine SafeP.bind (safeP_customize en) (fun _ _ => ?_)
  refine SafeP.bind SafeP.skip (fun _ _ => ?_)
  refine SafeP.bind SafeP.u32le (fun _ _ => ?_)
  refine SafeP.bind (SafeP.vecU8 (by omega) (by omega)) (fun raw _ => ?_)
  refine SafeP.bind (safeP_readString raw) (fun _ _ => ?_)
  exact SafeP.pure trivial

theorem safe_fromExisting (en : Enums) (b : Bytes) :
    Safe (budget b.length) (fromExisting true en b) (fun _ => True) :=
  SafeP.run (safeP_characterData en (by unfold budget; omega))

end Chardat

/-! ### gearsets -/
namespace Gearsets

theorem safeP_header {B : Nat} {inp : Bytes} : SafeP B inp header (fun _ => True) := by
  unfold header
  refine SafeP.bind SafeP.magic (fun _ _ => ?_)
  refine SafeP.bind SafeP.u32le (fun _ _ => ?_)
  refine SafeP.bind SafeP.u32le (fun _ _ => ?_)
  refine SafeP.bind SafeP.skip (fun _ _ => ?_)
  refine SafeP.bind SafeP.u8 (fun _ _ => ?_)
  exact SafeP.pure trivial

theorem safeP_slot {B : Nat} {inp : Bytes} (i : Nat) : SafeP B inp (slot i) (fun _ => True) := by
  unfold slot
  refine SafeP.bind SafeP.u32le (fun _ _ => ?_)
  refine SafeP.bind SafeP.u32le (fun _ _ => ?_)
  refine SafeP.bind SafeP.take (fun _ _ => ?_)
  exact SafeP.pure trivial

theorem safeP_slots {B : Nat} {inp : Bytes} : ∀ (k i : Nat), SafeP B inp (slots k i) (fun _ => True) := by
  intro k
  induction k with
  | zero => intro i; exact SafeP.pure trivial
  | succ k ih =>
    intro i
    unfold slots
    refine SafeP.bind (safeP_slot i) (fun _ _ => ?_)
    refine SafeP.bind (ih (i + 1)) (fun _ _ => ?_)
    exact SafeP.pure trivial

theorem safeP_gearSet {B : Nat} {inp : Bytes} (hB : 2 * inp.length + 8 ≤ B) :
    SafeP B inp gearSet (fun _ => True) := by
  unfold gearSet
  refine SafeP.bind SafeP.u8 (fun _ _ => ?_)
  refine SafeP.bind (SafeP.padSizeTo (SafeP.nullString hB)) (fun _ _ => ?_)
  refine SafeP.bind SafeP.u64le (fun _ _ => ?_)
  refine SafeP.bind (safeP_slots 14 0) (fun _ _ => ?_)
  refine SafeP.bind SafeP.u32le (fun _ _ => ?_)
  exact SafeP.pure trivial

theorem safeP_gearSets {B : Nat} {inp : Bytes} (hB : 2 * inp.length + 8 ≤ B) :
    SafeP B inp gearSets (fun _ => True) := by
  unfold gearSets
  refine SafeP.bind SafeP.u8 (fun _ _ => ?_)
  refine SafeP.bind SafeP.u8 (fun _ _ => ?_)
  refine SafeP.bind SafeP.u16le (fun _ _ => ?_)
  refine SafeP.bind (SafeP.count (safeP_gearSet hB)) (fun _ _ => ?_)
  exact SafeP.pure trivial

theorem safe_payload {B : Nat} (b : Bytes) (cs : UInt32) (start : Nat) :
    Safe B (payload true b cs start) (fun e => e.length ≤ b.length) := by
  unfold payload
  simp only [if_true]
  refine Safe.bind (Q := fun _ => True) (Safe.ofOption (fun _ _ => trivial)) (fun n _ => ?_)
  refine Safe.ofOption (fun r hr => ?_)
  have := Sl.get?_length hr
  omega

theorem safe_fromExisting (b : Bytes) : Safe (budget b.length) (fromExisting true b) (fun _ => True) := by
  unfold fromExisting
  refine Safe.bind (Q := fun _ => True) (SafeP.run ?_) (fun hp _ => ?_)
  · unfold headerAndPos
    refine SafeP.bind safeP_header (fun _ _ => ?_)
    refine SafeP.bind SafeP.getPos (fun _ _ => ?_)
    exact SafeP.pure trivial
  · refine Safe.bind (safe_payload b hp.1 hp.2) (fun encoded henc => ?_)
    refine Safe.bind (Safe.alloc (Nat.le_trans henc (budget_ge _))) (fun _ _ => ?_)
    refine SafeP.run (safeP_gearSets ?_)
    simp only [List.length_map]
    have := budget_ge2' b.length
    omega

end Gearsets

/-! ### chat log -/
namespace Log

theorem safeP_header {B : Nat} {inp : Bytes} (hB : 2 * inp.length + 32 ≤ B) :
    SafeP B inp header (fun _ => True) := by
  unfold header
  refine SafeP.bind SafeP.u32le (fun _ _ => ?_)
  refine SafeP.bind SafeP.u32le (fun _ _ => ?_)
  refine SafeP.bind (SafeP.vecU32le hB) (fun _ _ => ?_)
  exact SafeP.pure trivial

theorem safeP_entry {B : Nat} {inp : Bytes} (en : Enums) : SafeP B inp (entry en) (fun _ => True) := by
  unfold entry
  refine SafeP.bind SafeP.u32le (fun _ _ => ?_)
  refine SafeP.bind SafeP.u8 (fun _ _ => ?_)
  refine SafeP.bind (SafeP.ofOption (Q := fun _ => True) (fun _ _ => trivial)) (fun _ _ => ?_)
  refine SafeP.bind SafeP.u8 (fun _ _ => ?_)
  refine SafeP.bind (SafeP.ofOption (Q := fun _ => True) (fun _ _ => trivial)) (fun _ _ => ?_)
  refine SafeP.bind SafeP.u32le (fun _ _ => ?_)
  exact SafeP.pure trivial

theorem u32_toUInt64_lt (x : UInt32) : x.toUInt64.toNat < 2 ^ 32 := by
  rw [UInt32.toNat_toUInt64]; exact x.toNat_lt

theorem safeP_nextOffset {B : Nat} {inp : Bytes} (co : UInt64) (hco : co.toNat < 2 ^ 36) (n : Nat) :
    ∀ rest : List UInt32, SafeP B inp (nextOffset co n rest) (fun _ => True) := by
  intro rest
  cases rest with
  | nil => exact SafeP.pure trivial
  | cons o2 _ =>
    have h2 := u32_toUInt64_lt o2
    unfold nextOffset
    refine SafeP.bind (SafeP.lift (Arith.safe_addU64 (by omega))) (fun _ _ => ?_)
    exact SafeP.pure trivial

theorem safeP_message {B : Nat} {inp : Bytes} (b : Bytes) (pos next : Nat) :
    SafeP B inp (message true b pos next) (fun m => m.length ≤ b.length) := by
  unfold message
  simp only [if_true]
  refine SafeP.ofOption (fun r hr => ?_)
  have := Sl.get?_length hr
  omega

theorem safeP_loop {inp : Bytes} (en : Enums) (co : UInt64) (hco : co.toNat < 2 ^ 36) :
    ∀ offs : List UInt32, SafeP (budget inp.length) inp (loop true en co offs) (fun _ => True) := by
  intro offs
  induction offs with
  | nil => exact SafeP.pure trivial
  | cons off rest ih =>
    unfold loop
    refine SafeP.bind SafeP.input (fun b hb => ?_)
    have h1 := u32_toUInt64_lt off
    refine SafeP.bind (SafeP.lift (Arith.safe_addU64 (by omega))) (fun _ _ => ?_)
    refine SafeP.bind SafeP.seekStart (fun _ _ => ?_)
    simp only [expectOr, if_true]
    refine SafeP.bind (safeP_entry en) (fun fc _ => ?_)
    refine SafeP.bind (safeP_nextOffset co hco _ rest) (fun next _ => ?_)
    refine SafeP.bind SafeP.getPos (fun pos _ => ?_)
    refine SafeP.bind (safeP_message b pos next) (fun msg hmsg => ?_)
    subst hb
    refine SafeP.bind (SafeP.alloc (by unfold budget; omega)) (fun _ _ => ?_)
    refine SafeP.bind ih (fun _ _ => ?_)
    exact SafeP.pure trivial

theorem safeP_contentOffsetOf {B : Nat} {inp : Bytes} (fileSize : UInt32) :
    SafeP B inp (contentOffsetOf true fileSize) (fun co => co.toNat < 2 ^ 36) := by
  unfold contentOffsetOf
  simp only [if_true]
  have hf := u32_toUInt64_lt fileSize
  have h4 : (4 : UInt64).toNat = 4 := rfl
  have h8 : (8 : UInt64).toNat = 8 := rfl
  refine SafeP.bind (SafeP.lift (Arith.safe_mulU64 (by rw [h4]; omega))) (fun m hm => ?_)
  rw [h4] at hm
  refine SafeP.mono (SafeP.lift (Arith.safe_addU64 (by rw [h8]; omega))) (fun r hr => ?_)
  rw [h8] at hr
  omega

theorem safeP_chatLog {inp : Bytes} (en : Enums) :
    SafeP (budget inp.length) inp (chatLog true en) (fun _ => True) := by
  unfold chatLog
  refine SafeP.bind SafeP.input (fun b _ => ?_)
  simp only [expectOr, if_true]
  refine SafeP.bind (safeP_header (budget_ge2 _)) (fun hdr _ => ?_)
  refine SafeP.bind SafeP.guard (fun _ _ => ?_)
  exact SafeP.bind (safeP_contentOffsetOf _) (fun co hco => safeP_loop en co hco _)

theorem safe_fromExisting (en : Enums) (b : Bytes) :
    Safe (budget b.length) (fromExisting true en b) (fun _ => True) :=
  SafeP.run (safeP_chatLog en)

end Log

/-! ### patch lists -/
namespace Patchlist

theorem splitStrAcc_size (pat : Bytes) : ∀ (fuel : Nat) (l cur : Bytes) (acc : Array Bytes),
    (splitStrAcc pat fuel l cur acc).size ≤ acc.size + fuel + 1 := by
  intro fuel
  induction fuel with
  | zero => intro l cur acc; simp [splitStrAcc]
  | succ f ih =>
    intro l cur acc
    unfold splitStrAcc
    split
    · simp only [Array.size_push]; omega
    · next x r =>
      split
      · have := ih (List.drop pat.length (x :: r)) [] (acc.push cur.reverse)
        simp only [Array.size_push] at this; omega
      · have := ih r (x :: cur) acc; omega

theorem splitStr_size (pat s : Bytes) : (splitStr pat s).size ≤ s.length + 2 := by
  have := splitStrAcc_size pat (s.length + 1) s [] #[]
  simp only [Array.size_empty] at this
  unfold splitStr; omega

/-- every piece is a piece of the input: no longer than what was still to be read plus the
current piece -/
theorem splitStrAcc_len (pat : Bytes) (L : Nat) : ∀ (fuel : Nat) (l cur : Bytes) (acc : Array Bytes),
    (∀ x ∈ acc.toList, x.length ≤ L) → cur.length + l.length ≤ L →
    ∀ x ∈ (splitStrAcc pat fuel l cur acc).toList, x.length ≤ L := by
  intro fuel
  induction fuel with
  | zero =>
    intro l cur acc hacc hcur x hx
    simp only [splitStrAcc, Array.toList_push, List.mem_append, List.mem_singleton] at hx
    rcases hx with hx | hx
    · exact hacc x hx
    · subst hx; simp only [List.length_reverse]; omega
  | succ f ih =>
    intro l cur acc hacc hcur
    unfold splitStrAcc
    have hpush : ∀ x ∈ (acc.push cur.reverse).toList, x.length ≤ L := by
      intro x hx
      simp only [Array.toList_push, List.mem_append, List.mem_singleton] at hx
      rcases hx with hx | hx
      · exact hacc x hx
      · subst hx; simp only [List.length_reverse]; omega
    split
    · exact hpush
    · next x r =>
      split
      · refine ih _ [] _ hpush ?_
        simp only [List.length_nil, List.length_drop, List.length_cons] at *; omega
      · refine ih _ (x :: cur) acc hacc ?_
        simp only [List.length_cons] at *; omega

theorem splitStr_len (pat s : Bytes) : ∀ x ∈ (splitStr pat s).toList, x.length ≤ s.length := by
  unfold splitStr
  exact splitStrAcc_len pat s.length _ s [] #[] (fun x hx => by simp at hx) (by simp)

theorem splitCharAcc_size (sep : UInt8) : ∀ (l cur : Bytes) (acc : Array Bytes),
    (splitCharAcc sep l cur acc).size ≤ acc.size + l.length + 1 := by
  intro l
  induction l with
  | nil => intro cur acc; simp [splitCharAcc]
  | cons x r ih =>
    intro cur acc
    unfold splitCharAcc
    split
    · have := ih [] (acc.push cur.reverse)
      simp only [Array.size_push, List.length_cons] at *; omega
    · have := ih (x :: cur) acc
      simp only [List.length_cons] at *; omega

theorem splitChar_size (sep : UInt8) (s : Bytes) : (splitChar sep s).size ≤ s.length + 1 := by
  have := splitCharAcc_size sep s [] #[]
  simp only [Array.size_empty] at this
  unfold splitChar; omega

theorem safe_rows {B L : Nat} (k : Kind) (parts : Array Bytes)
    (hL : ∀ x ∈ parts.toList, x.length ≤ L) (hB : 32 * (L + 1) ≤ B) :
    ∀ (n i : Nat), (n = 0 ∨ i + n ≤ parts.size) → Safe B (rows true k parts n i) (fun _ => True) := by
  intro n
  induction n with
  | zero => intro i _; exact Safe.pure trivial
  | succ n ih =>
    intro i hi
    unfold rows
    have hlt : i < parts.toList.length := by simp only [Array.length_toList]; omega
    refine Safe.bind (Q := fun row => row.length ≤ L) ?_ (fun row hrow => ?_)
    · simp only [Sl.index, List.getElem?_eq_getElem hlt]
      exact Safe.pure' (hL _ (List.getElem_mem hlt))
    · have hs := splitChar_size 0x09 row
      refine Safe.bind (Safe.alloc (by omega)) (fun _ _ => ?_)
      simp only [if_true]
      split
      · refine Safe.bind (ih (i + 1) (by omega)) (fun _ _ => Safe.pure trivial)
      · exact ih (i + 1) (by omega)

theorem safe_fromParts {B L : Nat} (k : Kind) (parts : Array Bytes)
    (hL : ∀ x ∈ parts.toList, x.length ≤ L) (hB : 32 * (L + 1) ≤ B) (hP : 32 * parts.size ≤ B) :
    Safe B (fromParts true k parts) (fun _ => True) := by
  unfold fromParts
  refine Safe.bind (Safe.alloc hP) (fun _ _ => ?_)
  refine Safe.bind (Q := fun hi => hi = parts.size - 2) ?_ (fun hi hhi => ?_)
  · unfold rowsEnd; simp only [if_true]; exact Safe.pure rfl
  · exact safe_rows k _ hL hB _ _ (by omega)

theorem safe_fromString (k : Kind) (s : Bytes) :
    Safe (budget s.length) (fromString true k s) (fun _ => True) := by
  unfold fromString
  have hsz := splitStr_size crlf s
  exact safe_fromParts k _ (splitStr_len crlf s) (by unfold budget; omega) (by unfold budget; omega)

theorem safe_total {B : Nat} : ∀ (ps : List PatchEntry) (t : Int), Safe B (total true ps t) (fun _ => True) := by
  intro ps
  induction ps with
  | nil => intro t; exact Safe.pure trivial
  | cons p r ih => intro t; unfold total; simp only [if_true]; exact ih _

theorem safe_hashPart {B : Nat} (k : Kind) (p : PatchEntry) : Safe B (hashPart true k p) (fun _ => True) := by
  unfold hashPart
  cases k
  · exact Safe.pure trivial
  · simp only [if_true]; exact Safe.pure trivial

theorem safe_entryLine {B : Nat} (k : Kind) (p : PatchEntry) : Safe B (entryLine true k p) (fun _ => True) := by
  unfold entryLine
  exact Safe.bind (safe_hashPart k p) (fun _ _ => Safe.pure trivial)

theorem safe_entryLines {B : Nat} (k : Kind) : ∀ ps : List PatchEntry, Safe B (entryLines true k ps) (fun _ => True) := by
  intro ps
  induction ps with
  | nil => exact Safe.pure trivial
  | cons p r ih =>
    unfold entryLines
    exact Safe.bind (safe_entryLine k p) (fun _ _ => Safe.bind ih (fun _ _ => Safe.pure trivial))

theorem safe_toString {B : Nat} (k : Kind) (id loc : Bytes) (ps : List PatchEntry) :
    Safe B (toString true k id loc ps) (fun _ => True) := by
  unfold toString
  exact Safe.bind (safe_total ps 0) (fun _ _ => Safe.bind (safe_entryLines k ps) (fun _ _ => Safe.pure trivial))

end Patchlist

end Physis.F
