import PhysisModel.Base.Fault
import PhysisModel.Base.ParserF
import PhysisModel.Base.StrF
import PhysisModel.Model.Fault.Cfg
import PhysisModel.Model.Fault.Fiin
import PhysisModel.Model.Fault.Gearsets
import PhysisModel.Model.Fault.Log
import PhysisModel.Model.Fault.Patchlist
/-!
# C17 helper lemmas: every fault model is `Safe` under the input-proportional budget
-/
namespace Physis.F
open Physis StrF

theorem budget_ge (n : Nat) : n ≤ budget n := by unfold budget; omega
theorem budget_ge2 (n : Nat) : 2 * n + 32 ≤ budget n := by unfold budget; omega
theorem budget_ge2' (n : Nat) : 2 * n + 8 ≤ budget n := by unfold budget; omega
theorem budget_mono {a b : Nat} (h : a ≤ b) : budget a ≤ budget b := by unfold budget; omega
theorem const_le_budget {c n : Nat} (h : c ≤ 2 ^ 24) : c ≤ budget n := by unfold budget; omega

/-! ### cfg / exl -/
namespace Cfg

theorem safe_step (B : Nat) (cfg : ConfigFile) (line : Bytes) :
    Safe B (step true cfg line) (fun _ => True) := by
  unfold step
  split
  · split
    · simp only [if_true]
      split <;> exact Safe.pure trivial
    · split <;> exact Safe.pure trivial
  · exact Safe.pure trivial

theorem safe_loop (B : Nat) : ∀ (ls : List Bytes) (cfg : ConfigFile),
    Safe B (loop true ls cfg) (fun _ => True) := by
  intro ls
  induction ls with
  | nil => intro cfg; exact Safe.pure trivial
  | cons l r ih => intro cfg; exact Safe.bind (safe_step B cfg l) (fun a _ => ih a)

theorem safe_fromExisting (b : Bytes) : Safe (budget b.length) (fromExisting true b) (fun _ => True) :=
  Safe.bind (Safe.alloc (budget_ge _)) (fun _ _ => safe_loop _ _ _)

end Cfg

namespace Exl
theorem safe_fromExisting (b : Bytes) : Safe (budget b.length) (fromExisting b) (fun _ => True) :=
  Safe.bind (Safe.alloc (budget_ge _)) (fun _ _ => Safe.pure trivial)
end Exl

/-! ### shared string closures -/

theorem safeP_readString {B : Nat} {inp : Bytes} (x : Bytes) :
    SafeP B inp (readString true x) (fun _ => True) := by
  unfold readString decodeString
  simp only [if_true]
  exact SafeP.bind (SafeP.pure (Q := fun _ => True) trivial) (fun _ _ => SafeP.pure trivial)

/-! ### fiin -/
namespace Fiin

theorem safeP_entry {B : Nat} {inp : Bytes} (hB : 2 ^ 24 ≤ B) :
    SafeP B inp (entry true) (fun _ => True) := by
  unfold entry
  refine SafeP.bind SafeP.u32le (fun _ _ => ?_)
  refine SafeP.bind SafeP.skip (fun _ _ => ?_)
  refine SafeP.bind (SafeP.vecU8 (by omega) (by omega)) (fun raw _ => ?_)
  refine SafeP.bind (safeP_readString raw) (fun _ _ => ?_)
  refine SafeP.bind (SafeP.vecU8 (by omega) (by omega)) (fun _ _ => ?_)
  exact SafeP.pure trivial

theorem safeP_fileInfo {B : Nat} {inp : Bytes} (hB : 2 ^ 24 ≤ B) :
    SafeP B inp (fileInfo true) (fun _ => True) := by
  unfold fileInfo
  refine SafeP.bind SafeP.magic (fun _ _ => ?_)
  refine SafeP.bind SafeP.skip (fun _ _ => ?_)
  refine SafeP.bind SafeP.u32le (fun _ _ => ?_)
  refine SafeP.bind SafeP.u32le (fun _ _ => ?_)
  refine SafeP.bind SafeP.skip (fun _ _ => ?_)
  refine SafeP.bind SafeP.guard (fun _ _ => ?_)
  exact SafeP.triv (SafeP.count (safeP_entry hB))

theorem safe_fromExisting (b : Bytes) : Safe (budget b.length) (fromExisting true b) (fun _ => True) :=
  SafeP.run (safeP_fileInfo (by unfold budget; omega))

end Fiin

/-! ### chardat -/
namespace Chardat

theorem safeP_reprU8 {B : Nat} {inp : Bytes} (v : UInt8 → Bool) :
    SafeP B inp (reprU8 v) (fun _ => True) := by
  unfold reprU8
  refine SafeP.bind SafeP.u8 (fun _ _ => ?_)
  refine SafeP.bind SafeP.guard (fun _ _ => ?_)
  exact SafeP.pure trivial

theorem safeP_customize {B : Nat} {inp : Bytes} (en : Enums) :
    SafeP B inp (customize en) (fun _ => True) := by
  unfold customize
  refine SafeP.bind (safeP_reprU8 _) (fun _ _ => ?_)
  refine SafeP.bind (safeP_reprU8 _) (fun _ _ => ?_)
  refine SafeP.bind SafeP.u8 (fun _ _ => ?_)
  refine SafeP.bind SafeP.u8 (fun _ _ => ?_)
  refine SafeP.bind (safeP_reprU8 _) (fun _ _ => ?_)
  refine SafeP.bind SafeP.u8 (fun _ _ => ?_)
  refine SafeP.bind SafeP.u8 (fun _ _ => ?_)
  refine SafeP.bind SafeP.u8 (fun _ _ => ?_)
  refine SafeP.bind SafeP.take (fun _ _ => ?_)
  exact SafeP.pure trivial

theorem safeP_characterData {B : Nat} {inp : Bytes} (en : Enums) (hB : 2 ^ 24 ≤ B) :
    SafeP B inp (characterData true en) (fun _ => True) := by
  unfold characterData
  refine SafeP.bind SafeP.magic (fun _ _ => ?_)
  refine SafeP.bind SafeP.u32le (fun _ _ => ?_)
  refine SafeP.bind SafeP.u32le (fun _ _ => ?_)
  refine SafeP.bind SafeP.skip (fun _ _ => ?_)
  refine SafeP.bind (safeP_customize en) (fun _ _ => ?_)
  refine SafeP.bind SafeP.skip (fun _ _ => ?_)
  refine SafeP.bind SafeP.u32le (fun _ _ => ?_)
  refine SafeP.bind (SafeP.vecU8 (by omega) (by omega)) (fun raw _ => ?_)
  refine SafeP.bind (safeP_readString raw) (fun _ _ => ?_)
  exact SafeP.pure trivial

theorem safe_fromExisting (en : Enums) (b : Bytes) :
    Safe (budget b.length) (fromExisting true en b) (fun _ => True) :=
  SafeP.run (safeP_characterData en (by unfold budget; omega))

end Chardat

/-! ### gearsets -/
namespace Gearsets

theorem safeP_header {B : Nat} {inp : Bytes} : SafeP B inp header (fun _ => True) := by
  unfold header
  refine SafeP.bind SafeP.magic (fun _ _ => ?_)
  refine SafeP.bind SafeP.u32le (fun _ _ => ?_)
  refine SafeP.bind SafeP.u32le (fun _ _ => ?_)
  refine SafeP.bind SafeP.skip (fun _ _ => ?_)
  refine SafeP.bind SafeP.u8 (fun _ _ => ?_)
  exact SafeP.pure trivial

theorem safeP_slot {B : Nat} {inp : Bytes} (i : Nat) : SafeP B inp (slot i) (fun _ => True) := by
  unfold slot
  refine SafeP.bind SafeP.u32le (fun _ _ => ?_)
  refine SafeP.bind SafeP.u32le (fun _ _ => ?_)
  refine SafeP.bind SafeP.take (fun _ _ => ?_)
  exact SafeP.pure trivial

theorem safeP_slots {B : Nat} {inp : Bytes} : ∀ (k i : Nat), SafeP B inp (slots k i) (fun _ => True) := by
  intro k
  induction k with
  | zero => intro i; exact SafeP.pure trivial
  | succ k ih =>
    intro i
    unfold slots
    refine SafeP.bind (safeP_slot i) (fun _ _ => ?_)
    refine SafeP.bind (ih (i + 1)) (fun _ _ => ?_)
    exact SafeP.pure trivial

theorem safeP_gearSet {B : Nat} {inp : Bytes} (hB : 2 * inp.length + 8 ≤ B) :
    SafeP B inp gearSet (fun _ => True) := by
  unfold gearSet
  refine SafeP.bind SafeP.u8 (fun _ _ => ?_)
  refine SafeP.bind (SafeP.padSizeTo (SafeP.nullString hB)) (fun _ _ => ?_)
  refine SafeP.bind SafeP.u64le (fun _ _ => ?_)
  refine SafeP.bind (safeP_slots 14 0) (fun _ _ => ?_)
  refine SafeP.bind SafeP.u32le (fun _ _ => ?_)
  exact SafeP.pure trivial

theorem safeP_gearSets {B : Nat} {inp : Bytes} (hB : 2 * inp.length + 8 ≤ B) :
    SafeP B inp gearSets (fun _ => True) := by
  unfold gearSets
  refine SafeP.bind SafeP.u8 (fun _ _ => ?_)
  refine SafeP.bind SafeP.u8 (fun _ _ => ?_)
  refine SafeP.bind SafeP.u16le (fun _ _ => ?_)
  refine SafeP.bind (SafeP.count (safeP_gearSet hB)) (fun _ _ => ?_)
  exact SafeP.pure trivial

theorem safe_payload {B : Nat} (b : Bytes) (cs : UInt32) (start : Nat) :
    Safe B (payload true b cs start) (fun e => e.length ≤ b.length) := by
  unfold payload
  simp only [if_true]
  refine Safe.bind (Q := fun _ => True) (Safe.ofOption (fun _ _ => trivial)) (fun n _ => ?_)
  refine Safe.ofOption (fun r hr => ?_)
  have := Sl.get?_length hr
  omega

theorem safe_fromExisting (b : Bytes) : Safe (budget b.length) (fromExisting true b) (fun _ => True) := by
  unfold fromExisting
  refine Safe.bind (Q := fun _ => True) (SafeP.run ?_) (fun hp _ => ?_)
  · unfold headerAndPos
    refine SafeP.bind safeP_header (fun _ _ => ?_)
    refine SafeP.bind SafeP.getPos (fun _ _ => ?_)
    exact SafeP.pure trivial
  · refine Safe.bind (safe_payload b hp.1 hp.2) (fun encoded henc => ?_)
    refine Safe.bind (Safe.alloc (Nat.le_trans henc (budget_ge _))) (fun _ _ => ?_)
    refine SafeP.run (safeP_gearSets ?_)
    simp only [List.length_map]
    have := budget_ge2' b.length
    omega

end Gearsets

/-! ### chat log -/
namespace Log

theorem safeP_header {B : Nat} {inp : Bytes} (hB : 2 * inp.length + 32 ≤ B) :
    SafeP B inp header (fun _ => True) := by
  unfold header
  refine SafeP.bind SafeP.u32le (fun _ _ => ?_)
  refine SafeP.bind SafeP.u32le (fun _ _ => ?_)
  refine SafeP.bind (SafeP.vecU32le hB) (fun _ _ => ?_)
  exact SafeP.pure trivial

theorem safeP_entry {B : Nat} {inp : Bytes} (en : Enums) : SafeP B inp (entry en) (fun _ => True) := by
  unfold entry
  refine SafeP.bind SafeP.u32le (fun _ _ => ?_)
  refine SafeP.bind SafeP.u8 (fun _ _ => ?_)
  refine SafeP.bind (SafeP.ofOption (Q := fun _ => True) (fun _ _ => trivial)) (fun _ _ => ?_)
  refine SafeP.bind SafeP.u8 (fun _ _ => ?_)
  refine SafeP.bind (SafeP.ofOption (Q := fun _ => True) (fun _ _ => trivial)) (fun _ _ => ?_)
  refine SafeP.bind SafeP.u32le (fun _ _ => ?_)
  exact SafeP.pure trivial

theorem u32_toUInt64_lt (x : UInt32) : x.toUInt64.toNat < 2 ^ 32 := by
  rw [UInt32.toNat_toUInt64]; exact x.toNat_lt

theorem safeP_nextOffset {B : Nat} {inp : Bytes} (co : UInt64) (hco : co.toNat < 2 ^ 36) (n : Nat) :
    ∀ rest : List UInt32, SafeP B inp (nextOffset co n rest) (fun _ => True) := by
  intro rest
  cases rest with
  | nil => exact SafeP.pure trivial
  | cons o2 _ =>
    have h2 := u32_toUInt64_lt o2
    unfold nextOffset
    refine SafeP.bind (SafeP.lift (Arith.safe_addU64 (by omega))) (fun _ _ => ?_)
    exact SafeP.pure trivial

theorem safeP_message {B : Nat} {inp : Bytes} (b : Bytes) (pos next : Nat) :
    SafeP B inp (message true b pos next) (fun m => m.length ≤ b.length) := by
  unfold message
  simp only [if_true]
  refine SafeP.ofOption (fun r hr => ?_)
  have := Sl.get?_length hr
  omega

theorem safeP_loop {inp : Bytes} (en : Enums) (co : UInt64) (hco : co.toNat < 2 ^ 36) :
    ∀ offs : List UInt32, SafeP (budget inp.length) inp (loop true en co offs) (fun _ => True) := by
  intro offs
  induction offs with
  | nil => exact SafeP.pure trivial
  | cons off rest ih =>
    unfold loop
    refine SafeP.bind SafeP.input (fun b hb => ?_)
    have h1 := u32_toUInt64_lt off
    refine SafeP.bind (SafeP.lift (Arith.safe_addU64 (by omega))) (fun _ _ => ?_)
    refine SafeP.bind SafeP.seekStart (fun _ _ => ?_)
    simp only [expectOr, if_true]
    refine SafeP.bind (safeP_entry en) (fun fc _ => ?_)
    refine SafeP.bind (safeP_nextOffset co hco _ rest) (fun next _ => ?_)
    refine SafeP.bind SafeP.getPos (fun pos _ => ?_)
    refine SafeP.bind (safeP_message b pos next) (fun msg hmsg => ?_)
    subst hb
    refine SafeP.bind (SafeP.alloc (by unfold budget; omega)) (fun _ _ => ?_)
    refine SafeP.bind ih (fun _ _ => ?_)
    exact SafeP.pure trivial

theorem safeP_contentOffsetOf {B : Nat} {inp : Bytes} (fileSize : UInt32) :
    SafeP B inp (contentOffsetOf true fileSize) (fun co => co.toNat < 2 ^ 36) := by
  unfold contentOffsetOf
  simp only [if_true]
  have hf := u32_toUInt64_lt fileSize
  have h4 : (4 : UInt64).toNat = 4 := rfl
  have h8 : (8 : UInt64).toNat = 8 := rfl
  refine SafeP.bind (SafeP.lift (Arith.safe_mulU64 (by rw [h4]; omega))) (fun m hm => ?_)
  rw [h4] at hm
  refine SafeP.mono (SafeP.lift (Arith.safe_addU64 (by rw [h8]; omega))) (fun r hr => ?_)
  rw [h8] at hr
  omega

theorem safeP_chatLog {inp : Bytes} (en : Enums) :
    SafeP (budget inp.length) inp (chatLog true en) (fun _ => True) := by
  unfold chatLog
  refine SafeP.bind SafeP.input (fun b _ => ?_)
  simp only [expectOr, if_true]
  refine SafeP.bind (safeP_header (budget_ge2 _)) (fun hdr _ => ?_)
  refine SafeP.bind SafeP.guard (fun _ _ => ?_)
  exact SafeP.bind (safeP_contentOffsetOf _) (fun co hco => safeP_loop en co hco _)

theorem safe_fromExisting (en : Enums) (b : Bytes) :
    Safe (budget b.length) (fromExisting true en b) (fun _ => True) :=
  SafeP.run (safeP_chatLog en)

end Log

end Physis.F
