import PhysisModel.Base.Half
import PhysisModel.Spec.HalfValue
import Std.Tactic.BVDecide
/-! Structural facts about `halfToF32` (bit-vector reasoning over all 65 536 patterns). -/
namespace Physis
open Physis.Spec.HalfValue

/-- injective on non-NaN patterns (a signalling NaN and its quieted twin widen to the same NaN) -/
theorem halfToF32_injective (a b : UInt16) (ha : a &&& 0x7FFF ≤ 0x7C00) (hb : b &&& 0x7FFF ≤ 0x7C00)
    (h : halfToF32 a = halfToF32 b) : a = b := by
  simp only [halfToF32, halfHiBit] at h
  bv_decide (timeout := 300)

/-- sign bit preserved -/
theorem halfToF32_sign (a : UInt16) : halfToF32 a >>> 31 = (a >>> 15).toUInt32 := by
  simp only [halfToF32, halfHiBit]
  bv_decide (timeout := 300)

/-- zero ↔ zero, infinity ↔ infinity, NaN ↔ NaN (exponent all ones, mantissa zero / non-zero) -/
theorem halfToF32_classes (a : UInt16) :
    ((halfToF32 a &&& 0x7FFFFFFF = 0) ↔ (a &&& 0x7FFF = 0)) ∧
    ((halfToF32 a &&& 0x7FFFFFFF = 0x7F800000) ↔ (a &&& 0x7FFF = 0x7C00)) ∧
    ((halfToF32 a &&& 0x7FFFFFFF > 0x7F800000) ↔ (a &&& 0x7FFF > 0x7C00)) := by
  simp only [halfToF32, halfHiBit]
  refine ⟨?_, ?_, ?_⟩ <;> bv_decide (timeout := 300)

/-- order preserved on the magnitudes (finite, infinite): the widening is strictly monotone -/
theorem halfToF32_monotone (a b : UInt16) (ha : a ≤ 0x7C00) (hb : b ≤ 0x7C00) (h : a < b) :
    halfToF32 a < halfToF32 b := by
  simp only [halfToF32, halfHiBit]
  bv_decide (timeout := 300)

/-- every result is exactly representable back: the low 13 mantissa bits are zero -/
theorem halfToF32_low_bits (a : UInt16) : halfToF32 a &&& 0x1FFF = 0 := by
  simp only [halfToF32, halfHiBit]
  bv_decide (timeout := 300)

/-- widening is exact: for every finite half, the binary32 result denotes the same real number
(`|v|·2^149 = |v|·2^24 · 2^125`) and is itself finite -/
theorem halfToF32_value (h : UInt16) (hfin : (h >>> 10) &&& 0x1F ≠ 0x1F) :
    f32Mag (halfToF32 h) = halfMag h <<< 125 ∧ (halfToF32 h >>> 23) &&& 0xFF ≠ 0xFF := by
  simp only [f32Mag, halfMag, halfToF32, halfHiBit]
  constructor <;> bv_decide (timeout := 300)

end Physis
