import PhysisModel.Proofs.Fs
import PhysisModel.Proofs.WriteAt
import PhysisModel.Model.Patch
/-! C03 / C04: the AddFile block loop of `ZiPatch::apply` after fix C17-13 (every block is written
as soon as it is read) has the effect of one write of the concatenated blocks. -/
set_option linter.unusedSimpArgs false
namespace Physis.Patch
open Physis Physis.Fs

/-! ### the block loop writes what the concatenated blocks are (fix C17-13) -/

theorem openCreate_file (t : Tree) (p : Path) (t' : Tree) (h : openCreate t p = some t') :
    ∃ old, get t' p = some (.file old) := by
  unfold openCreate at h
  split at h
  · cases h
  · split at h
    · next old hg => cases h; exact ⟨old, hg⟩
    · cases h
    · split at h
      · cases h; exact ⟨[], by simp [get_set]⟩
      · cases h

theorem modifyFile_set (t : Tree) (p : Path) (old : Bytes) (f : Bytes → Bytes) :
    modifyFile (set t p (.file old)) p f = set t p (.file (f old)) := by
  simp [modifyFile, get_set, set_set]

theorem modifyFile_of_get_file (t : Tree) (p : Path) (old : Bytes) (f : Bytes → Bytes)
    (h : get t p = some (.file old)) : modifyFile t p f = set t p (.file (f old)) := by
  simp [modifyFile, h]

/-- Whenever the blocks of an AddFile all parse (`readBlocks` succeeds with `data`), writing them
one by one as they are read leaves the target exactly as one write of `data` does, and the same
rest of the patch. -/
theorem streamBlocks_of_readBlocks (inflate : Bytes → Nat → Option Bytes) (full : Path) (size pos0 : Nat)
    (base : Bytes) (t0 : Tree) :
    ∀ (fuel : Nat) (s acc data s' : Bytes), readBlocks inflate fuel s size acc = some (data, s') →
      streamBlocks inflate full true fuel s (size - acc.length) (pos0 + acc.length)
          (set t0 full (.file (writeAt base pos0 acc))) =
        (set t0 full (.file (writeAt base pos0 data)), some s') := by
  intro fuel
  induction fuel with
  | zero => intro s acc data s' h; simp [readBlocks] at h
  | succ fuel ih =>
    intro s acc data s' h
    unfold readBlocks at h
    unfold streamBlocks
    by_cases hlt : acc.length < size
    · have hpos : 0 < size - acc.length := by omega
      simp only [hlt, ↓reduceIte] at h
      simp only [hpos, ↓reduceIte]
      cases hrd : readDataBlockPatch inflate s with
      | none => simp [hrd] at h
      | some r =>
        obtain ⟨d, s1⟩ := r
        simp only [hrd] at h
        have := ih s1 (acc ++ d) data s' h
        simp only [List.length_append] at this
        simp only [modifyFile_set, writeAt_seq]
        rw [show size - acc.length - d.length = size - (acc.length + d.length) by omega,
          show pos0 + acc.length + d.length = pos0 + (acc.length + d.length) by omega]
        exact this
    · have hpos : ¬ 0 < size - acc.length := by omega
      simp only [hlt, ↓reduceIte, Option.some.injEq, Prod.mk.injEq] at h
      obtain ⟨rfl, rfl⟩ := h
      simp only [hpos, ↓reduceIte]

/-- the same when the target could not be opened: the blocks are consumed, the tree is untouched -/
theorem streamBlocks_closed (inflate : Bytes → Nat → Option Bytes) (full : Path) (size : Nat) (t : Tree) :
    ∀ (fuel : Nat) (s acc data s' : Bytes) (pos : Nat), readBlocks inflate fuel s size acc = some (data, s') →
      streamBlocks inflate full false fuel s (size - acc.length) pos t = (t, some s') := by
  intro fuel
  induction fuel with
  | zero => intro s acc data s' pos h; simp [readBlocks] at h
  | succ fuel ih =>
    intro s acc data s' pos h
    unfold readBlocks at h
    unfold streamBlocks
    by_cases hlt : acc.length < size
    · have hpos : 0 < size - acc.length := by omega
      simp only [hlt, ↓reduceIte] at h
      simp only [hpos, ↓reduceIte]
      cases hrd : readDataBlockPatch inflate s with
      | none => simp [hrd] at h
      | some r =>
        obtain ⟨d, s1⟩ := r
        simp only [hrd] at h
        have := ih s1 (acc ++ d) data s' (pos + d.length) h
        simp only [List.length_append] at this
        simp only [Bool.false_eq_true, ↓reduceIte]
        rw [show size - acc.length - d.length = size - (acc.length + d.length) by omega]
        exact this
    · have hpos : ¬ 0 < size - acc.length := by omega
      simp only [hlt, ↓reduceIte, Option.some.injEq, Prod.mk.injEq] at h
      obtain ⟨rfl, rfl⟩ := h
      simp only [hpos, ↓reduceIte]

/-- the AddFile arm of `applyLoop` once the parent directories exist and the blocks parse: the
effect of `applyChunk` on the concatenated blocks -/
theorem addFileBlocks_of_readBlocks (inflate : Bytes → Nat → Option Bytes) (full : Path) (off : UInt64)
    (size fuel : Nat) (sb data s' : Bytes) (t1 : Tree)
    (hrb : readBlocks inflate fuel sb size [] = some (data, s')) :
    addFileBlocks inflate t1 full off size fuel sb =
      ((match openCreate t1 full with
        | none => t1
        | some t2 => modifyFile t2 full (fun old => writeAt (if off = 0 then [] else old) off.toNat data)),
       some s') := by
  unfold addFileBlocks
  cases ho : openCreate t1 full with
  | none =>
    exact streamBlocks_closed inflate full size t1 fuel sb [] data s' off.toNat hrb
  | some t2 =>
    obtain ⟨old, hg⟩ := openCreate_file t1 full t2 ho
    have := streamBlocks_of_readBlocks inflate full size off.toNat (if off = 0 then [] else old) t2 fuel sb [] data s' hrb
    simp only [List.length_nil, Nat.sub_zero, Nat.add_zero] at this
    have hw : writeAt (if off = 0 then [] else old) off.toNat [] = (if off = 0 then [] else old) := by
      simp [writeAt]
    rw [hw] at this
    simp only [modifyFile_of_get_file t2 full old _ hg, this]

end Physis.Patch
