import PhysisModel.Proofs.MdlRep
import PhysisModel.Proofs.MdlUpdate
import PhysisModel.Spec.MdlRelayout
/-!
# C07 — an in-memory model with consistent headers that represents a laid-out abstract model
carries exactly that model's header tables (on the LODs in use)

`HeaderOK m` pins the layout fields of `m` down as numbers (sums / maxima over the mesh table);
`Rep a m` ties every other field to the abstract model `a`; `StartsFromSubmesh m` is what the first
loop of `update_headers` assigns.  For `a` well-formed, canonical (`startsOk`) and `LaidOut`, these
numbers are the ones `Spec.encodeMdl a` uses: the mesh table of `m` **is** `(modelData a).meshes`,
the rows of the LODs in use **are** those of `(modelData a).lods`, and the file header agrees with
`fileHeader a` except in the array slots of unused LODs (`frame_hyps`).
-/
namespace Physis.Mdl
open Physis Physis.Spec.Mdl

/-! ### small list / record facts -/

private theorem psum_succ (f : α → Nat) (l : List α) (i : Nat) (x : α) (h : l[i]? = some x) :
    psum f l (i + 1) = psum f l i + f x := by
  simp [psum, List.take_succ, h]

theorem psum_mono (f : α → Nat) (l : List α) : ∀ i j, i ≤ j → psum f l i ≤ psum f l j := by
  induction l with
  | nil => intro i j _; simp
  | cons x xs ih =>
    intro i j hij
    cases i with
    | zero => simp
    | succ i =>
      cases j with
      | zero => omega
      | succ j =>
        rw [psum_cons_succ, psum_cons_succ]
        have := ih i j (by omega)
        omega

theorem psum_le_of_lt (f : α → Nat) (l : List α) (k i : Nat) (x : α) (h : l[k]? = some x)
    (hk : k < i) : psum f l k + f x ≤ psum f l i := by
  rw [← psum_succ f l k x h]
  exact psum_mono f l _ _ hk

theorem map_eq_getElem? {f : α → β} {l1 l2 : List α} (h : l1.map f = l2.map f) {i : Nat} {y : α}
    (hy : l2[i]? = some y) : ∃ x, l1[i]? = some x ∧ f x = f y := by
  have := congrArg (fun l => l[i]?) h
  simp only [List.getElem?_map, hy, Option.map_some] at this
  cases hx : l1[i]? with
  | none => rw [hx] at this; cases this
  | some x => rw [hx] at this; exact ⟨x, rfl, by simpa using this⟩

theorem mesh_eq_of_strip {x y : Mesh} (h : stripMesh x = stripMesh y)
    (hs : x.startIndex = y.startIndex) (hv : x.vertexBufferOffsets = y.vertexBufferOffsets) :
    x = y := by
  cases x; cases y
  simp only [stripMesh, Mesh.mk.injEq] at h
  simp only at hs hv
  obtain ⟨h1, h2, h3, h4, h5, h6, -, -, h9, h10⟩ := h
  subst h1 h2 h3 h4 h5 h6 h9 h10 hs hv
  rfl

theorem lod_eq_of_strip {x y : MeshLod} (h : stripLod x = stripLod y)
    (h1 : x.edgeGeometryDataOffset = y.edgeGeometryDataOffset)
    (h2 : x.vertexBufferSize = y.vertexBufferSize) (h3 : x.indexBufferSize = y.indexBufferSize)
    (h4 : x.vertexDataOffset = y.vertexDataOffset) (h5 : x.indexDataOffset = y.indexDataOffset) :
    x = y := by
  cases x; cases y
  simp only [stripLod, MeshLod.mk.injEq] at h
  simp only at h1 h2 h3 h4 h5
  obtain ⟨a1, a2, a3, -, a5, -, -, -, -⟩ := h
  subst a1 a2 a3 a5 h1 h2 h3 h4 h5
  rfl

theorem arr3_eq_of_zeroBelow {n : Nat} {a b : Arr3 UInt32} (hz : zeroBelow n a = zeroBelow n b)
    (hlt : ∀ s, s < n → s < 3 → a.get? s = b.get? s) : a = b := by
  rcases a with ⟨a0, a1, a2⟩
  rcases b with ⟨b0, b1, b2⟩
  simp only [zeroBelow, Arr3.mk.injEq] at hz
  have h0 := hlt 0
  have h1 := hlt 1
  have h2 := hlt 2
  simp only [Arr3.get?, Option.some.injEq] at h0 h1 h2
  by_cases c0 : 0 < n <;> by_cases c1 : 1 < n <;> by_cases c2 : 2 < n <;> simp_all

theorem startsOk_getElem? : ∀ (l : List AMesh) (ib d : Nat) (mesh : AMesh), startsOk ib l = true →
    l[d]? = some mesh →
    ∃ s rest, mesh.submeshes = s :: rest ∧ s.indexOffset.toNat = ib + psum meshIndexWords l d := by
  intro l
  induction l with
  | nil => intro _ d _ _ h; simp at h
  | cons x xs ih =>
    intro ib d mesh hs hd
    simp only [startsOk, Bool.and_eq_true] at hs
    cases d with
    | zero =>
      simp only [List.getElem?_cons_zero, Option.some.injEq] at hd
      subst hd
      cases hsub : x.submeshes with
      | nil => rw [hsub] at hs; simp at hs
      | cons s rest =>
        rw [hsub] at hs
        exact ⟨s, rest, rfl, by simpa using hs.1⟩
    | succ d =>
      simp only [List.getElem?_cons_succ] at hd
      obtain ⟨s, rest, h1, h2⟩ := ih _ d mesh hs.2 hd
      exact ⟨s, rest, h1, by rw [h2, psum_cons_succ]; omega⟩

theorem Chain.get : ∀ (rows : List MeshLod) (start : Nat), Chain start rows →
    ∀ i row, rows[i]? = some row →
      row.vertexDataOffset.toNat = start +
        psum (fun r => r.vertexBufferSize.toNat + r.indexBufferSize.toNat) rows i ∧
      row.indexDataOffset.toNat = row.vertexDataOffset.toNat + row.vertexBufferSize.toNat ∧
      row.edgeGeometryDataOffset = row.indexDataOffset := by
  intro rows
  induction rows with
  | nil => intro _ _ i row h; simp at h
  | cons r rest ih =>
    intro start hc i row hi
    obtain ⟨c1, c2, c3, c4⟩ := hc
    cases i with
    | zero =>
      simp only [List.getElem?_cons_zero, Option.some.injEq] at hi
      subst hi
      exact ⟨by simpa using c1, c2, c3⟩
    | succ i =>
      simp only [List.getElem?_cons_succ] at hi
      obtain ⟨d1, d2, d3⟩ := ih _ c4 i row hi
      refine ⟨?_, d2, d3⟩
      rw [d1, psum_cons_succ]
      omega

theorem maxTo_last (f : Nat → Nat) (g : Nat → Nat) (hg : ∀ d, g d ≤ f d ∧ f d ≤ g (d + 1)) :
    ∀ n, maxTo f n ≤ g n ∧ maxTo f (n + 1) = f n := by
  have hg0 : ∀ n, maxTo f n ≤ g n := by
    intro n
    induction n with
    | zero => exact Nat.zero_le _
    | succ n ih =>
      show max (maxTo f n) (f n) ≤ g (n + 1)
      have := hg n
      omega
  intro n
  refine ⟨hg0 n, ?_⟩
  show max (maxTo f n) (f n) = f n
  have := hg0 n
  have := hg n
  omega

private theorem length_encMeshLod (l : MeshLod) : (encMeshLod l).length = l.mid.length + 32 := by
  simp [encMeshLod, zeros]
  omega

/-- the encoded runtime block has the same length whatever the `MeshLod` rows hold, as long as
their `mid` blocks have the same lengths -/
private theorem length_encModelData_lods (v : UInt32) (d : ModelData) (L : List MeshLod)
    (h : L.map (·.mid.length) = d.lods.map (·.mid.length)) :
    (encModelData v { d with lods := L }).length = (encModelData v d).length := by
  have : (L.flatMap encMeshLod).length = (d.lods.flatMap encMeshLod).length := by
    rw [List.length_flatMap, List.length_flatMap]
    congr 1
    have e : ∀ (X : List MeshLod), X.map (fun l => (encMeshLod l).length) =
        (X.map (·.mid.length)).map (· + 32) := by
      intro X
      rw [List.map_map]
      exact List.map_congr_left (fun l _ => length_encMeshLod l)
    rw [e, e, h]
  simp only [encModelData, List.length_append, this]

theorem Rep.lodsMap {a : AbstractModel} {m : MDL} (hrep : Rep a m) :
    m.modelData.lods.map stripLod = (modelData a).lods.map stripLod := by
  have := congrArg ModelData.lods hrep.md
  exact this

theorem Rep.meshesMap {a : AbstractModel} {m : MDL} (hrep : Rep a m) :
    m.modelData.meshes.map stripMesh = (modelData a).meshes.map stripMesh := by
  have := congrArg ModelData.meshes hrep.md
  exact this

/-! ### what `Rep` says about one row -/

theorem rep_lod_row {a : AbstractModel} {m : MDL} (hrep : Rep a m) {i : Nat} {l : ALod}
    (hl : a.lods[i]? = some l) :
    ∃ row, m.modelData.lods[i]? = some row ∧ stripLod row = stripLod (lodRowOf a i l) :=
  map_eq_getElem? hrep.lodsMap (lods_row a i l hl)

theorem rep_mesh_row {a : AbstractModel} {m : MDL} (hrep : Rep a m) {i : Nat} {l : ALod}
    (hl : a.lods[i]? = some l) {d : Nat} {mesh : AMesh} (hm : l.meshes[d]? = some mesh) :
    ∃ r, m.modelData.meshes[psum meshCountOf a.lods i + d]? = some r ∧
      stripMesh r = stripMesh (meshRowOf a i l d mesh) :=
  map_eq_getElem? hrep.meshesMap (meshes_row a i l hl d mesh hm)

/-- numbers of one LOD row of `m`, from `Rep` -/
theorem rep_lod_range {a : AbstractModel} (h : WF a = true) {m : MDL} (hrep : Rep a m) {i : Nat}
    {l : ALod} (hl : a.lods[i]? = some l) {row : MeshLod} (hrow : m.modelData.lods[i]? = some row)
    (hs : stripLod row = stripLod (lodRowOf a i l)) :
    lodAt m.modelData.lods i = row ∧ row.meshIndex.toNat = psum meshCountOf a.lods i ∧
      row.meshCount.toNat = l.meshes.length := by
  have hle := meshBase_le a i l hl
  have hnm := (wf_facts a h).nMesh
  refine ⟨by simp [lodAt, hrow], ?_, ?_⟩
  · rw [show row.meshIndex = (lodRowOf a i l).meshIndex from (congrArg MeshLod.meshIndex hs :)]
    exact toUInt16_toNat _ (by omega)
  · rw [show row.meshCount = (lodRowOf a i l).meshCount from (congrArg MeshLod.meshCount hs :)]
    exact toUInt16_toNat _ (by omega)

/-! ### the vertex layout: `sumTo` / `meshAt` numbers = `psum` numbers -/

section mesh
variable {a : AbstractModel} (h : WF a = true) {m : MDL} (hrep : Rep a m)
  {i : Nat} {l : ALod} (hl : a.lods[i]? = some l)

include h hrep hl

theorem rep_meshAt {d : Nat} {mesh : AMesh} (hm : l.meshes[d]? = some mesh) :
    stripMesh (meshAt m.modelData.meshes (psum meshCountOf a.lods i + d)) =
      stripMesh (meshRowOf a i l d mesh) := by
  obtain ⟨r, hr, hs⟩ := rep_mesh_row hrep hl hm
  simp only [meshAt, hr, Option.getD_some]
  exact hs

theorem rep_streamCount {d : Nat} {mesh : AMesh} (hm : l.meshes[d]? = some mesh) :
    (meshAt m.modelData.meshes (psum meshCountOf a.lods i + d)).vertexStreamCount.toNat =
      mesh.streams.length := by
  have hs := rep_meshAt h hrep hl hm
  rw [show (meshAt m.modelData.meshes (psum meshCountOf a.lods i + d)).vertexStreamCount =
    (meshRowOf a i l d mesh).vertexStreamCount from (congrArg Mesh.vertexStreamCount hs :)]
  exact toUInt8_toNat _ (by have := (wf_mesh a h hl hm).s3; omega)

theorem rep_strideAt {d : Nat} {mesh : AMesh} (hm : l.meshes[d]? = some mesh) {s : Nat}
    {st : AStream} (hst : mesh.streams[s]? = some st) :
    (meshAt m.modelData.meshes (psum meshCountOf a.lods i + d)).strideAt s = st.stride.toNat := by
  have hs := rep_meshAt h hrep hl hm
  have h3 : s < 3 := by
    have := (wf_mesh a h hl hm).s3; have := lt_of_getElem? hst; omega
  unfold Mesh.strideAt
  rw [show (meshAt m.modelData.meshes (psum meshCountOf a.lods i + d)).vertexBufferStrides =
    (meshRowOf a i l d mesh).vertexBufferStrides from (congrArg Mesh.vertexBufferStrides hs :),
    row_strides a i l d mesh s st hst h3]
  rfl

theorem rep_vertexCount {d : Nat} {mesh : AMesh} (hm : l.meshes[d]? = some mesh) :
    (meshAt m.modelData.meshes (psum meshCountOf a.lods i + d)).vertexCount = mesh.vertexCount :=
  congrArg Mesh.vertexCount (rep_meshAt h hrep hl hm)

/-- C2: bytes of the first `s` streams -/
theorem rep_streamPrefix {d : Nat} {mesh : AMesh} (hm : l.meshes[d]? = some mesh) :
    ∀ s, s ≤ mesh.streams.length →
      mesh.vertexCount.toNat *
        sumTo (meshAt m.modelData.meshes (psum meshCountOf a.lods i + d)).strideAt s =
      psum dataLen mesh.streams s := by
  intro s
  induction s with
  | zero => intro _; simp [sumTo]
  | succ s ih =>
    intro hs
    have hlt : s < mesh.streams.length := by omega
    have hst : mesh.streams[s]? = some mesh.streams[s] := List.getElem?_eq_getElem hlt
    rw [psum_succ dataLen _ s _ hst, ← ih (by omega)]
    show _ * (sumTo _ s + _) = _
    rw [rep_strideAt h hrep hl hm hst, Nat.mul_add, dataLen,
      (wf_mesh a h hl hm).dataLen _ (List.getElem_mem hlt)]

/-- C3 -/
theorem rep_vertexBytes {d : Nat} {mesh : AMesh} (hm : l.meshes[d]? = some mesh) :
    (meshAt m.modelData.meshes (psum meshCountOf a.lods i + d)).vertexBytes = streamSize mesh := by
  unfold Mesh.vertexBytes Mesh.vertexStride
  rw [rep_streamCount h hrep hl hm, rep_vertexCount h hrep hl hm,
    rep_streamPrefix h hrep hl hm _ (Nat.le_refl _), psum_length]
  rfl

/-- C4 -/
theorem rep_vertexBytesTo : ∀ d, d ≤ l.meshes.length →
    vertexBytesTo m.modelData.meshes (psum meshCountOf a.lods i) d = psum streamSize l.meshes d := by
  intro d
  induction d with
  | zero => intro _; simp [vertexBytesTo, sumTo]
  | succ d ih =>
    intro hd
    have hlt : d < l.meshes.length := by omega
    have hm : l.meshes[d]? = some l.meshes[d] := List.getElem?_eq_getElem hlt
    rw [vertexBytesTo_succ, ih (by omega), rep_vertexBytes h hrep hl hm, psum_succ streamSize _ d _ hm]

end mesh

/-! ### the mesh table -/

/-- the parts list of a model that represents `a` has one entry per LOD in use -/
theorem rep_parts_length {a : AbstractModel} (h : WF a = true) {m : MDL} (hrep : Rep a m) :
    m.lods.length = a.lodCount.toNat := by
  have W := wf_facts a h
  have := (congrArg List.length hrep.parts :)
  rw [List.length_map, length_specKeys] at this
  have := W.lc3; have := W.lods3; omega

/-- the used LODs of `m` own the consecutive mesh ranges of `a` -/
theorem rep_rangesDisjoint {a : AbstractModel} (h : WF a = true) {m : MDL} (hrep : Rep a m) :
    RangesDisjoint m.modelData.lods a.lodCount.toNat := by
  have W := wf_facts a h
  intro i hi k hk
  have hi3 : i < a.lods.length := by have := W.lc3; have := W.lods3; omega
  have hk3 : k < a.lods.length := by omega
  have hl : a.lods[i]? = some a.lods[i] := List.getElem?_eq_getElem hi3
  have hlk : a.lods[k]? = some a.lods[k] := List.getElem?_eq_getElem hk3
  obtain ⟨row, hrow, hs⟩ := rep_lod_row hrep hl
  obtain ⟨rowk, hrowk, hsk⟩ := rep_lod_row hrep hlk
  obtain ⟨e1, e2, _⟩ := rep_lod_range h hrep hl hrow hs
  obtain ⟨f1, f2, f3⟩ := rep_lod_range h hrep hlk hrowk hsk
  rw [e1, f1]
  right; right; left
  rw [e2, f2, f3]
  exact psum_le_of_lt meshCountOf a.lods k i _ hlk hk

/-- … stated with the bound `update_headers` uses: the number of parsed LODs -/
theorem rep_rangesDisjoint' {a : AbstractModel} (h : WF a = true) {m : MDL} (hrep : Rep a m) :
    RangesDisjoint m.modelData.lods m.lods.length := by
  rw [rep_parts_length h hrep]; exact rep_rangesDisjoint h hrep

/-- the in-memory mesh row of mesh `d` of LOD `i` **is** the row of `modelData a` -/
theorem rep_mesh_eq {a : AbstractModel} (h : WF a = true) (hcan : Canonical a = true) {m : MDL}
    (hrep : Rep a m) (hok : HeaderOK m) (hst : StartsFromSubmesh m) {i : Nat} {l : ALod}
    (hl : a.lods[i]? = some l) (hi : i < a.lodCount.toNat) {d : Nat} {mesh : AMesh}
    (hm : l.meshes[d]? = some mesh) :
    meshAt m.modelData.meshes (psum meshCountOf a.lods i + d) = meshRowOf a i l d mesh := by
  have W := wf_facts a h
  have hlc : m.lods.length = a.lodCount.toNat := rep_parts_length h hrep
  have hd := lt_of_getElem? hm
  obtain ⟨row, hrow, hsr⟩ := rep_lod_row hrep hl
  obtain ⟨e1, e2, e3⟩ := rep_lod_range h hrep hl hrow hsr
  have hstrip := rep_meshAt h hrep hl hm
  generalize hr : meshAt m.modelData.meshes (psum meshCountOf a.lods i + d) = r at hstrip
  have MF := wf_mesh a h hl hm
  -- start index
  have hstart : r.startIndex = (meshRowOf a i l d mesh).startIndex := by
    have h1 := hst i (by rw [hlc]; exact hi) d (by rw [e1, e3]; exact hd)
    rw [e1, e2, hr] at h1
    have hsub : m.modelData.submeshes = (modelData a).submeshes := (congrArg ModelData.submeshes hrep.md :)
    have hle := subBase_le a i l hl d mesh hm
    have hsi : r.submeshIndex.toNat = subBase a i l d := by
      rw [show r.submeshIndex = (meshRowOf a i l d mesh).submeshIndex from
        (congrArg Mesh.submeshIndex hstrip :)]
      exact toUInt16_toNat _ (by have := W.nSub; unfold subBase at hle; omega)
    have hso : (a.lods.all fun l => startsOk 0 l.meshes) = true := by
      simp only [Canonical, Bool.and_eq_true, and_assoc] at hcan
      exact hcan.2.2.2.2.2.1
    have hsl := List.all_eq_true.mp hso l (mem_of_getElem? hl)
    obtain ⟨s, rest, hs1, hs2⟩ := startsOk_getElem? l.meshes 0 d mesh hsl hm
    have hget := submeshes_getElem? a i l hl d mesh hm 0 (by rw [hs1]; simp)
    rw [Nat.add_zero, hs1] at hget
    simp only [List.getElem?_cons_zero] at hget
    rw [h1]
    simp only [firstSub, hsub, hsi, hget, Option.getD_some]
    apply UInt32.toNat_inj.mp
    rw [hs2, Nat.zero_add]
    have hsl' := index_slice a i l hl d mesh hm
    have hlen := hsl'.length_le
    have hfl := W.fileLen
    exact (toUInt32_toNat _ (by omega)).symm
  -- stream offsets
  have hsc : r.vertexStreamCount.toNat = mesh.streams.length := by
    rw [← hr]; exact rep_streamCount h hrep hl hm
  have hoff : r.vertexBufferOffsets = (meshRowOf a i l d mesh).vertexBufferOffsets := by
    have hz : zeroBelow r.vertexStreamCount.toNat r.vertexBufferOffsets =
        zeroBelow r.vertexStreamCount.toNat (meshRowOf a i l d mesh).vertexBufferOffsets := by
      have h0 : zeroBelow r.vertexStreamCount.toNat r.vertexBufferOffsets =
          zeroBelow (meshRowOf a i l d mesh).vertexStreamCount.toNat
            (meshRowOf a i l d mesh).vertexBufferOffsets :=
        (congrArg Mesh.vertexBufferOffsets hstrip :)
      have h1 : r.vertexStreamCount = (meshRowOf a i l d mesh).vertexStreamCount :=
        (congrArg Mesh.vertexStreamCount hstrip :)
      rw [h0, h1]
    apply arr3_eq_of_zeroBelow hz
    intro s hs h3
    rw [hsc] at hs
    have hss : mesh.streams[s]? = some mesh.streams[s] := List.getElem?_eq_getElem hs
    have hstr := hok.streams (by rw [hlc]; exact rep_rangesDisjoint h hrep) i (by rw [hlc]; exact hi)
    unfold StreamsOK at hstr
    rw [e1, e2, e3] at hstr
    have h1 := hstr d hd s (by rw [hr, hsc]; exact hs)
    rw [hr] at h1
    rw [← hr, rep_vertexBytesTo h hrep hl d (by omega), rep_vertexCount h hrep hl hm,
      rep_streamPrefix h hrep hl hm s (by omega), hr] at h1
    rw [row_offsets a i l d mesh s hs h3]
    obtain ⟨_, _, hlt, _⟩ := stream_bounds a h i l hl d mesh hm s _ hss
    have hb : psum streamSize l.meshes d + psum dataLen mesh.streams s < 4294967296 := by
      unfold streamAddr at hlt; omega
    cases hg : r.vertexBufferOffsets.get? s with
    | none =>
      exfalso
      match s, h3 with
      | 0, _ => simp [Arr3.get?] at hg
      | 1, _ => simp [Arr3.get?] at hg
      | 2, _ => simp [Arr3.get?] at hg
    | some x =>
      simp only [Mesh.offAt, hg, Option.map_some, Option.getD_some] at h1
      congr 1
      apply UInt32.toNat_inj.mp
      rw [h1, toUInt32_toNat _ hb]
  exact mesh_eq_of_strip hstrip hstart hoff

/-- the mesh table of `m` is the one of `modelData a` -/
theorem rep_meshes_eq {a : AbstractModel} (h : WF a = true) (hcan : Canonical a = true) {m : MDL}
    (hrep : Rep a m) (hok : HeaderOK m) (hst : StartsFromSubmesh m) :
    m.modelData.meshes = (modelData a).meshes := by
  have hmap := hrep.meshesMap
  have hlen : m.modelData.meshes.length = (modelData a).meshes.length := by
    have := (congrArg List.length hmap :)
    simpa using this
  apply List.ext_getElem?
  intro j
  by_cases hj : j < (modelData a).meshes.length
  · have hj' : j < (a.lods.map meshCountOf).sum := by
      have : (modelData a).meshes.length = (allMeshes a).length := length_allMeshRows a.lods 0
      rw [this, show (allMeshes a).length = (a.lods.map meshCountOf).sum from
        length_flatMap' _ meshCountOf (fun _ => rfl) _] at hj
      exact hj
    obtain ⟨i, l, d, hl, hjd, hd⟩ := psum_locate meshCountOf a.lods j hj'
    have hm : l.meshes[d]? = some l.meshes[d] := List.getElem?_eq_getElem hd
    have hi := canonical_lodCount a hcan hl hm
    have := rep_mesh_eq h hcan hrep hok hst hl hi hm
    obtain ⟨r, hr, _⟩ := rep_mesh_row hrep hl hm
    rw [hjd, meshes_row a i l hl d _ hm, hr]
    simp only [meshAt, hr, Option.getD_some] at this
    rw [this]
  · rw [List.getElem?_eq_none (by omega), List.getElem?_eq_none (by omega)]

/-! ### the LOD rows -/

/-- every LOD in use of a laid-out model -/
structure LaidFacts (a : AbstractModel) (i : Nat) (l : ALod) : Prop where
  ne : l.meshes ≠ []
  pad : lodIndexSize l = paddedIndexSize l
  edge : l.edgeGeometryDataOffset = (sectionOffset a i + lodVertexSize l).toUInt32

theorem laid_facts {a : AbstractModel} (hlay : LaidOut a = true) {i : Nat} {l : ALod}
    (hl : a.lods[i]? = some l) (hi : i < a.lodCount.toNat) : LaidFacts a i l := by
  simp only [LaidOut, List.all_eq_true, List.mem_range] at hlay
  have := hlay i hi
  rw [hl] at this
  simp only [Bool.and_eq_true, Bool.not_eq_true', beq_iff_eq, List.isEmpty_eq_false_iff] at this
  exact ⟨this.1.1, this.1.2, this.2⟩

/-- C7: the largest index extent of the LOD's meshes is that of the last one -/
theorem rep_indexExtent {a : AbstractModel} (h : WF a = true) (hcan : Canonical a = true) {m : MDL}
    (hrep : Rep a m) (hok : HeaderOK m) (hst : StartsFromSubmesh m) {i : Nat} {l : ALod}
    (hl : a.lods[i]? = some l) (hi : i < a.lodCount.toNat) (hne : l.meshes ≠ []) :
    indexExtentTo m.modelData.meshes (psum meshCountOf a.lods i) l.meshes.length =
      2 * lodIndexExtent l := by
  have W := wf_facts a h
  obtain ⟨n, hn⟩ : ∃ n, l.meshes.length = n + 1 :=
    ⟨l.meshes.length - 1, by have := List.length_pos_iff.mpr hne; omega⟩
  -- extent of mesh d, as a function defined everywhere
  let g : Nat → Nat := fun d => 2 * psum meshIndexWords l.meshes d
  have key : ∀ d, d < l.meshes.length →
      (meshAt m.modelData.meshes (psum meshCountOf a.lods i + d)).indexExtent =
        2 * (psum meshIndexWords l.meshes d + (l.meshes[d]?.map (·.indices.length)).getD 0) := by
    intro d hd
    have hm : l.meshes[d]? = some l.meshes[d] := List.getElem?_eq_getElem hd
    rw [rep_mesh_eq h hcan hrep hok hst hl hi hm, hm]
    have hsl := index_slice a i l hl d _ hm
    have hlen := hsl.length_le
    have hfl := W.fileLen
    rw [length_meshIndexBytes, meshIndexWords] at hlen
    unfold Mesh.indexExtent
    rw [show (meshRowOf a i l d l.meshes[d]).startIndex.toNat = psum meshIndexWords l.meshes d from
        toUInt32_toNat _ (by omega),
      show (meshRowOf a i l d l.meshes[d]).indexCount.toNat = l.meshes[d].indices.length from
        toUInt32_toNat _ (by omega)]
    rfl
  -- compare with the function that is monotone everywhere
  let f : Nat → Nat := fun d =>
    2 * (psum meshIndexWords l.meshes d + (l.meshes[d]?.map (·.indices.length)).getD 0)
  have hfg : ∀ d, g d ≤ f d ∧ f d ≤ g (d + 1) := by
    intro d
    refine ⟨by show 2 * _ ≤ 2 * (_ + _); omega, ?_⟩
    show 2 * (_ + _) ≤ 2 * _
    cases hm : l.meshes[d]? with
    | none =>
      simp only [Option.map_none, Option.getD_none, Nat.add_zero]
      have := psum_mono meshIndexWords l.meshes d (d + 1) (by omega)
      omega
    | some x =>
      rw [psum_succ meshIndexWords _ d x hm]
      simp only [Option.map_some, Option.getD_some, meshIndexWords]
      omega
  have hcong : indexExtentTo m.modelData.meshes (psum meshCountOf a.lods i) l.meshes.length =
      maxTo f l.meshes.length := maxTo_congr _ (fun d hd => key d hd)
  rw [hcong, hn, (maxTo_last f g hfg n).2]
  have hlast : l.meshes[n]? = some l.meshes[n] := List.getElem?_eq_getElem (by omega)
  show 2 * (_ + _) = _
  unfold lodIndexExtent
  rw [hn, Nat.add_sub_cancel, hlast]
  simp only [Option.map_some, Option.getD_some]
  have := psum_succ meshIndexWords l.meshes n _ hlast
  rw [← hn, psum_length] at this
  rw [this, meshIndexWords]
  omega

/-- sizes of the row of a LOD in use -/
theorem rep_lod_sizes {a : AbstractModel} (h : WF a = true) (hcan : Canonical a = true)
    (hlay : LaidOut a = true) {m : MDL} (hrep : Rep a m) (hok : HeaderOK m)
    (hst : StartsFromSubmesh m) {i : Nat} {l : ALod} (hl : a.lods[i]? = some l)
    (hi : i < a.lodCount.toNat) {row : MeshLod} (hrow : m.modelData.lods[i]? = some row)
    (hs : stripLod row = stripLod (lodRowOf a i l)) :
    row.vertexBufferSize.toNat = lodVertexSize l ∧ row.indexBufferSize.toNat = lodIndexSize l := by
  have W := wf_facts a h
  obtain ⟨_, e2, e3⟩ := rep_lod_range h hrep hl hrow hs
  have L := laid_facts hlay hl hi
  have R := hok.rows row (mem_of_getElem? hrow)
  have hsz : lodSize l ≤ (encodeMdl a).length := by
    have := psum_add_le lodSize a.lods i l hl
    rw [length_encodeMdl]; omega
  have hfl := W.fileLen
  refine ⟨?_, ?_⟩
  · rw [R.vertexSize, e2, e3, rep_vertexBytesTo h hrep hl _ (Nat.le_refl _), psum_length]
    rfl
  · rw [R.indexSize, e2, e3, rep_indexExtent h hcan hrep hok hst hl hi L.ne]
    show paddedIndexSize l % _ = _
    rw [← L.pad]
    unfold lodSize at hsz
    omega

/-- the fact about `calculate_runtime_size` this file needs (`Proofs/MdlRuntimeSize.lean`) -/
def RuntimeSizeFact : Prop :=
  ∀ (fh : FileHeader) (md : ModelData), isV5 fh.version = true → modelDataOk fh md = true →
    md.terrainShadowSubmeshes = [] → ∀ r : UInt32, calculateRuntimeSize md = .ok r →
    (encModelData fh.version md).length = fh.vertexDeclarationCount.toNat * 136 + r.toNat

theorem header_eq_of_strip {x y : ModelHeader} (h : stripHeader x = stripHeader y)
    (h1 : x.shapeCount = y.shapeCount) (h2 : x.shapeMeshCount = y.shapeMeshCount)
    (h3 : x.shapeValueCount = y.shapeValueCount) : x = y := by
  cases x; cases y
  simp only [stripHeader, ModelHeader.mk.injEq] at h
  simp only at h1 h2 h3
  simp only [ModelHeader.mk.injEq]
  simp_all

theorem md_eq_of_strip {X Y : ModelData} (h : stripMD X = stripMD Y) (hh : X.header = Y.header)
    (hm : X.meshes = Y.meshes) : X = { Y with lods := X.lods } := by
  cases X; cases Y
  simp only [stripMD, ModelData.mk.injEq] at h
  simp only at hh hm
  simp only [ModelData.mk.injEq]
  simp_all

private theorem modelDataOk_lods (fh fh' : FileHeader) (d : ModelData) (L : List MeshLod)
    (hv : fh'.version = fh.version) (hd : fh'.vertexDeclarationCount = fh.vertexDeclarationCount)
    (h : modelDataOk fh d = true) (hL : L.length = 3) (hmid : ∀ l ∈ L, l.mid.length = 28) :
    modelDataOk fh' { d with lods := L } = true := by
  simp only [modelDataOk, hv, hd, Bool.and_eq_true, beq_iff_eq, List.all_eq_true,
    decide_eq_true_eq] at h ⊢
  simp_all

/-- **the hypotheses of `write_parse_frame`** for an in-memory model with consistent headers that
represents a well-formed, canonical, laid-out abstract model -/
theorem frame_hyps (RT : RuntimeSizeFact) (a : AbstractModel) (h : WF a = true)
    (hcan : Canonical a = true) (hlay : LaidOut a = true) (m : MDL) (hrep : Rep a m)
    (hok : HeaderOK m) (hst : StartsFromSubmesh m) :
    m.fileHeader = { fileHeader a with
      vertexOffsets := m.fileHeader.vertexOffsets, indexOffsets := m.fileHeader.indexOffsets,
      vertexBufferSize := m.fileHeader.vertexBufferSize,
      indexBufferSize := m.fileHeader.indexBufferSize,
      lodCount := m.fileHeader.lodCount } ∧
    (∀ i, i < a.lodCount.toNat →
      m.fileHeader.vertexOffsets.get? i = (fileHeader a).vertexOffsets.get? i ∧
      m.fileHeader.indexOffsets.get? i = (fileHeader a).indexOffsets.get? i ∧
      m.fileHeader.vertexBufferSize.get? i = (fileHeader a).vertexBufferSize.get? i ∧
      m.fileHeader.indexBufferSize.get? i = (fileHeader a).indexBufferSize.get? i) ∧
    m.modelData = { modelData a with lods := m.modelData.lods } ∧
    m.modelData.lods.length = 3 ∧ (∀ l ∈ m.modelData.lods, l.mid.length = 28) ∧
    (∀ i, i < a.lodCount.toNat → m.modelData.lods[i]? = (modelData a).lods[i]?) := by
  have W := wf_facts a h
  have hfl := W.fileLen
  have hlodsmap := hrep.lodsMap
  have hl3 : m.modelData.lods.length = 3 := by
    have := (congrArg List.length hlodsmap :)
    simp only [List.length_map] at this
    rw [this]; exact lods_rows_length a h
  have hmid : ∀ l ∈ m.modelData.lods, l.mid.length = 28 := by
    intro l hl
    obtain ⟨j, hj⟩ := List.getElem?_of_mem hl
    have hj3 : j < (modelData a).lods.length := by
      rw [lods_rows_length a h, ← hl3]; exact lt_of_getElem? hj
    obtain ⟨x, hx, hfx⟩ := map_eq_getElem? hlodsmap.symm hj
    have hok' := wf_modelDataOk a h
    simp only [modelDataOk, Bool.and_eq_true, List.all_eq_true, beq_iff_eq, and_assoc] at hok'
    obtain ⟨_, _, _, _, _, _, hm28, _⟩ := hok'
    have := hm28 x (mem_of_getElem? hx)
    rw [show l.mid = x.mid from ((congrArg MeshLod.mid hfx :)).symm]
    exact this
  -- (O1) the runtime tables
  have hmeshes := rep_meshes_eq h hcan hrep hok hst
  have hshapes : m.modelData.shapes = (modelData a).shapes := (congrArg ModelData.shapes hrep.md :)
  have hheader : m.modelData.header = (modelData a).header := by
    refine header_eq_of_strip ((congrArg ModelData.header hrep.md :)) ?_ ?_ ?_
    · rw [hok.shapeCounts.1, hshapes]
      show (shapeRows a).length.toUInt16 = a.shapes.length.toUInt16
      simp [shapeRows, length_nameOffsets]
    · rw [hok.shapeCounts.2.1,
        show m.modelData.shapeMeshes = (modelData a).shapeMeshes from
          (congrArg ModelData.shapeMeshes hrep.md :)]
      rfl
    · rw [hok.shapeCounts.2.2,
        show m.modelData.shapeValues = (modelData a).shapeValues from
          (congrArg ModelData.shapeValues hrep.md :)]
      rfl
  have hmd := md_eq_of_strip hrep.md hheader hmeshes
  -- the file header: stack and runtime size
  have hver : m.fileHeader.version = a.version := (congrArg FileHeader.version hrep.fh :)
  have hdc : m.fileHeader.vertexDeclarationCount = (fileHeader a).vertexDeclarationCount :=
    (congrArg FileHeader.vertexDeclarationCount hrep.fh :)
  have hdcn : m.fileHeader.vertexDeclarationCount.toNat = (allMeshes a).length := by
    rw [hdc]; exact toUInt16_toNat _ W.nMesh
  have hmdok : modelDataOk m.fileHeader m.modelData = true := by
    rw [hmd]
    exact modelDataOk_lods (fileHeader a) m.fileHeader (modelData a) m.modelData.lods hver hdc
      (wf_modelDataOk a h) hl3 hmid
  have hts : m.modelData.terrainShadowSubmeshes = [] := by
    rw [show m.modelData.terrainShadowSubmeshes = (modelData a).terrainShadowSubmeshes from
      (congrArg ModelData.terrainShadowSubmeshes hrep.md :)]
    simp only [Canonical, Bool.and_eq_true, and_assoc, List.isEmpty_iff] at hcan
    exact hcan.2.2.1
  have hv5 : isV5 m.fileHeader.version = true := by rw [hver]; exact canonical_v5 a hcan
  have hrt := RT m.fileHeader m.modelData hv5 hmdok hts _ hok.runtime
  have hlenmd : (encModelData m.fileHeader.version m.modelData).length = runtimeBlockSize a := by
    rw [hmd, hver, length_encModelData_lods]
    · exact length_encModelData a _ 0
    · have := congrArg (List.map (·.mid.length)) hlodsmap
      simpa [List.map_map, Function.comp_def, stripLod] using this
  have hstackN : m.fileHeader.stackSize.toNat = stackSizeOf a := by
    rw [hok.stack, hdcn]; rfl
  have hds : 68 + m.fileHeader.stackSize.toNat + m.fileHeader.runtimeSize.toNat = dataStart a := by
    rw [hlenmd, hdcn] at hrt
    unfold dataStart
    rw [hrt, hstackN]
    show 68 + _ + _ = 68 + _
    unfold stackSizeOf
    omega
  have hstack : m.fileHeader.stackSize = (fileHeader a).stackSize := by
    apply UInt32.toNat_inj.mp
    rw [hstackN]
    exact (toUInt32_toNat _ (by unfold stackSizeOf; have := W.nMesh; omega)).symm
  have hruntime : m.fileHeader.runtimeSize = (fileHeader a).runtimeSize := by
    apply UInt32.toNat_inj.mp
    show _ = (runtimeBlockSize a - stackSizeOf a).toUInt32.toNat
    rw [hlenmd, hdcn] at hrt
    have : runtimeBlockSize a - stackSizeOf a = m.fileHeader.runtimeSize.toNat := by
      unfold stackSizeOf; omega
    rw [this]
    exact (toUInt32_toNat _ m.fileHeader.runtimeSize.toNat_lt).symm
  -- (O2) the rows of the LODs in use
  have hsizes : ∀ i l row, a.lods[i]? = some l → i < a.lodCount.toNat →
      m.modelData.lods[i]? = some row →
      row.vertexBufferSize.toNat + row.indexBufferSize.toNat = lodSize l := by
    intro i l row hl hi hrow
    obtain ⟨row', hrow', hs⟩ := rep_lod_row hrep hl
    rw [hrow] at hrow'; cases hrow'
    obtain ⟨s1, s2⟩ := rep_lod_sizes h hcan hlay hrep hok hst hl hi hrow hs
    rw [s1, s2]; rfl
  have hpsum : ∀ i, i ≤ a.lodCount.toNat →
      psum (fun r => r.vertexBufferSize.toNat + r.indexBufferSize.toNat) m.modelData.lods i =
        psum lodSize a.lods i := by
    intro i
    induction i with
    | zero => intro _; simp
    | succ i ih =>
      intro hi
      have hi3 : i < a.lods.length := by have := W.lc3; have := W.lods3; omega
      have hl : a.lods[i]? = some a.lods[i] := List.getElem?_eq_getElem hi3
      obtain ⟨row, hrow, _⟩ := rep_lod_row hrep hl
      rw [psum_succ _ _ i row hrow, psum_succ lodSize _ i _ hl, ih (by omega),
        hsizes i _ row hl (by omega) hrow]
  have hrows : ∀ i, i < a.lodCount.toNat → m.modelData.lods[i]? = (modelData a).lods[i]? := by
    intro i hi
    have hi3 : i < a.lods.length := by have := W.lc3; have := W.lods3; omega
    have hl : a.lods[i]? = some a.lods[i] := List.getElem?_eq_getElem hi3
    generalize a.lods[i] = l at hl
    obtain ⟨row, hrow, hs⟩ := rep_lod_row hrep hl
    obtain ⟨s1, s2⟩ := rep_lod_sizes h hcan hlay hrep hok hst hl hi hrow hs
    obtain ⟨c1, c2, c3⟩ := Chain.get _ _ hok.chain i row hrow
    rw [hds, hpsum i (by omega)] at c1
    have L := laid_facts hlay hl hi
    have hsz : psum lodSize a.lods i + lodSize l ≤ (a.lods.map lodSize).sum :=
      psum_add_le lodSize a.lods i l hl
    have hlen := length_encodeMdl a
    have hls : lodSize l = lodVertexSize l + lodIndexSize l := rfl
    have hb1 : dataStart a + psum lodSize a.lods i + lodSize l < 4294967296 := by omega
    have hvdo : row.vertexDataOffset = (lodRowOf a i l).vertexDataOffset := by
      apply UInt32.toNat_inj.mp
      rw [c1]
      exact (toUInt32_toNat (dataStart a + psum lodSize a.lods i) (by omega)).symm
    have hido : row.indexDataOffset = (lodRowOf a i l).indexDataOffset := by
      apply UInt32.toNat_inj.mp
      rw [c2, c1, s1]
      exact (toUInt32_toNat _ (by omega)).symm
    rw [hrow, lods_row a i l hl]
    congr 1
    refine lod_eq_of_strip hs ?_ ?_ ?_ hvdo hido
    · rw [c3, hido]
      show _ = l.edgeGeometryDataOffset
      rw [L.edge]
      rfl
    · apply UInt32.toNat_inj.mp
      rw [s1]
      exact (toUInt32_toNat _ (by omega)).symm
    · apply UInt32.toNat_inj.mp
      rw [s2]
      exact (toUInt32_toNat _ (by omega)).symm
  -- (O3) the file header
  have hfh : m.fileHeader = { fileHeader a with
      vertexOffsets := m.fileHeader.vertexOffsets, indexOffsets := m.fileHeader.indexOffsets,
      vertexBufferSize := m.fileHeader.vertexBufferSize,
      indexBufferSize := m.fileHeader.indexBufferSize,
      lodCount := m.fileHeader.lodCount } := by
    have hsf := hrep.fh
    generalize fileHeader a = F at hsf hstack hruntime ⊢
    generalize m.fileHeader = G at hsf hstack hruntime ⊢
    cases F; cases G
    simp only [stripFH, FileHeader.mk.injEq] at hsf
    simp only at hstack hruntime
    obtain ⟨q1, -, -, q2, q3, -, -, -, -, -, q5, q6⟩ := hsf
    subst q1 q2 q3 q5 q6 hstack hruntime
    rfl
  -- (O4) the array slots of the LODs in use
  have hnparts : m.lods.length = a.lodCount.toNat := by
    have := (congrArg List.length hrep.parts :)
    rw [List.length_map, length_specKeys] at this
    have := W.lc3; have := W.lods3; omega
  have harr : ∀ i, i < a.lodCount.toNat →
      m.fileHeader.vertexOffsets.get? i = (fileHeader a).vertexOffsets.get? i ∧
      m.fileHeader.indexOffsets.get? i = (fileHeader a).indexOffsets.get? i ∧
      m.fileHeader.vertexBufferSize.get? i = (fileHeader a).vertexBufferSize.get? i ∧
      m.fileHeader.indexBufferSize.get? i = (fileHeader a).indexBufferSize.get? i := by
    intro i hi
    have hi3 : i < 3 := by have := W.lc3; omega
    obtain ⟨f1, f2, f3, f4⟩ := hok.fileRows i (by rw [hnparts]; exact hi)
    have hr := hrows i hi
    have hlen3 := lods_rows_length a h
    refine ⟨?_, ?_, ?_, ?_⟩
    · rw [f1, hr]
      show _ = (Arr3.ofList 0 ((modelData a).lods.map (·.vertexDataOffset))).get? i
      rw [Arr3.get?_ofList _ _ i (by rw [List.length_map, hlen3]; exact hi3) hi3, List.getElem?_map]
    · rw [f2, hr]
      show _ = (Arr3.ofList 0 ((modelData a).lods.map (·.indexDataOffset))).get? i
      rw [Arr3.get?_ofList _ _ i (by rw [List.length_map, hlen3]; exact hi3) hi3, List.getElem?_map]
    · rw [f3, hr]
      show _ = (Arr3.ofList 0 ((modelData a).lods.map (·.vertexBufferSize))).get? i
      rw [Arr3.get?_ofList _ _ i (by rw [List.length_map, hlen3]; exact hi3) hi3, List.getElem?_map]
    · rw [f4, hr]
      show _ = (Arr3.ofList 0 ((modelData a).lods.map (·.indexBufferSize))).get? i
      rw [Arr3.get?_ofList _ _ i (by rw [List.length_map, hlen3]; exact hi3) hi3, List.getElem?_map]
  exact ⟨hfh, harr, hmd, hl3, hmid, hrows⟩

end Physis.Mdl
