import PhysisModel.Model.Utf8Lossy
/-!
`String::from_utf8_lossy` is the identity on well-formed UTF-8 (what a Rust `String` holds):
the hypothesis the round-trip theorems of C09 (comments, gear-set names) and C10 (FIIN file
names) use to get rid of the decoder.
-/
namespace Physis.Proofs.Utf8Lossy
open Physis Physis.Utf8Lossy
open Physis.Spec.Fiin (U8State utf8Step utf8Run utf8Valid)

theorem go_valid (s : Bytes) : ∀ (st : U8State) (pend : Bytes), (st = .start → pend = []) →
    utf8Run st s = some .start → go st pend s = pend.reverse ++ s := by
  induction s with
  | nil =>
    intro st pend hp h
    simp only [utf8Run, Option.some.injEq] at h
    simp [go, h, hp h]
  | cons b bs ih =>
    intro st pend hp h
    simp only [utf8Run] at h
    cases hstep : utf8Step st b with
    | none => rw [hstep] at h; exact absurd h (by simp)
    | some st' =>
      rw [hstep] at h
      simp only [go, hstep]
      by_cases hs : st' = .start
      · subst hs
        simp only [if_true]
        rw [ih .start [] (fun _ => rfl) h]
        simp
      · simp only [hs, if_false]
        rw [ih st' (b :: pend) (fun e => absurd e hs) h]
        simp

theorem fromUtf8Lossy_valid (s : Bytes) (h : utf8Valid s = true) : fromUtf8Lossy s = s := by
  simp only [utf8Valid, beq_iff_eq] at h
  simpa [fromUtf8Lossy] using go_valid s .start [] (fun _ => rfl) h

/-! ### NUL padding keeps a string well-formed -/

theorem utf8Run_append (s : U8State) (a b : Bytes) :
    utf8Run s (a ++ b) = (utf8Run s a).bind (fun s' => utf8Run s' b) := by
  induction a generalizing s with
  | nil => simp [utf8Run]
  | cons x a ih =>
    simp only [List.cons_append, utf8Run]
    cases utf8Step s x with
    | none => rfl
    | some s' => exact ih s'

theorem utf8Run_zeros (k : Nat) : utf8Run .start (List.replicate k (0 : UInt8)) = some .start := by
  induction k with
  | zero => rfl
  | succ k ih =>
    have : utf8Step .start 0 = some .start := by decide
    simp only [List.replicate_succ, utf8Run, this, ih]

theorem utf8Valid_pad (s : Bytes) (k : Nat) (h : utf8Valid s = true) :
    utf8Valid (s ++ List.replicate k (0 : UInt8)) = true := by
  simp only [utf8Valid, beq_iff_eq] at h ⊢
  rw [utf8Run_append, h]; simp [utf8Run_zeros]

/-- the decoder leaves a NUL-padded field of text alone -/
theorem fromUtf8Lossy_pad (s : Bytes) (k : Nat) (h : utf8Valid s = true) :
    fromUtf8Lossy (s ++ List.replicate k (0 : UInt8)) = s ++ List.replicate k (0 : UInt8) :=
  fromUtf8Lossy_valid _ (utf8Valid_pad s k h)

end Physis.Proofs.Utf8Lossy
