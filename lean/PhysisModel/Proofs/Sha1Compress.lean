import PhysisModel.Model.Sha1
import PhysisModel.Spec.Sha1
import Std.Tactic.BVDecide
/-!
`Sha1State::process` (four rounds at a time on `u32x4`, five rotating schedule registers) equals
the textbook compression function (80 single rounds over the sliding schedule window).

Structure of the proof:
* `grp`: one `sha1rnds4` call = four textbook rounds (any boolean function, any constant) — after
  unfolding, the two sides differ only in the order of the additions (`L1`, `L2`, `ac_rfl`);
* `bool202_eq` …: the Rust boolean macros are Ch / Parity / Maj (`bv_decide (timeout := 300)`);
* `win_shift4`: `schedule!` computes the next four schedule words (xor re-association);
* `stepN` is the rolled-up form of the unrolled register rotation; `processWords_eq_stepN` is by
  definitional unfolding; `rounds_stepN` is the induction over groups of four rounds.
-/
namespace Physis.Sha1
open Physis.Generated
open Physis.Spec.Sha1 (Vars Window)

/-- model state ↔ spec working variables -/
def toVars (s : State) : Vars := ⟨s.s0, s.s1, s.s2, s.s3, s.s4⟩

/-- a spec round with the boolean function and constant fixed -/
def round' (F : UInt32 → UInt32 → UInt32 → UInt32) (K : UInt32) (v : Vars) (wt : UInt32) : Vars :=
  ⟨Spec.Sha1.rotl5 v.a + F v.b v.c v.d + v.e + K + wt, v.a, Spec.Sha1.rotl30 v.b, v.c, v.d⟩

theorem rotl1_eq (x) : rotl1 x = Spec.Sha1.rotl1 x := rfl
theorem rotl5_eq (x) : rotl5 x = Spec.Sha1.rotl5 x := rfl
theorem rotl30_eq (x) : rotl30 x = Spec.Sha1.rotl30 x := rfl
theorem zadd (x : UInt32) : (0 : UInt32) + x = x := UInt32.zero_add x

theorem L1 (A Fv e x K : UInt32) : A + Fv + (e + x + K) = A + Fv + e + K + x := by ac_rfl
theorem L2 (d A Fv u K : UInt32) : d + A + Fv + (u + K) = A + Fv + d + K + u := by ac_rfl

/-- one `sha1rnds4` = four textbook rounds -/
theorem grp (F) (a b c d e x0 x1 x2 x3 K : UInt32) :
    round' F K (round' F K (round' F K (round' F K ⟨a, b, c, d, e⟩ x0) x1) x2) x3
    = (let h := sha1rnds4 F ⟨a, b, c, d⟩ ((sha1FirstAdd e ⟨x0, x1, x2, x3⟩).add ⟨K, K, K, K⟩)
      ⟨h.x0, h.x1, h.x2, h.x3, Spec.Sha1.rotl30 a⟩) := by
  simp only [round']
  simp only [sha1rnds4, sha1FirstAdd, U32x4.add]
  simp only [rotl5_eq, rotl30_eq]
  simp only [zadd]
  simp only [L1, L2]

theorem bool202_eq : bool202 = Spec.Sha1.ch := by
  funext a b c; simp only [bool202, Spec.Sha1.ch]; bv_decide (timeout := 300)
theorem bool150_eq : bool150 = Spec.Sha1.parity := rfl
theorem bool232_eq : bool232 = Spec.Sha1.maj := rfl

/-! ### kinds of rounds -/

def kindOf (t : Nat) : Fin 4 := if t < 20 then 0 else if t < 40 then 1 else if t < 60 then 2 else 3

def kindF : Fin 4 → UInt32 → UInt32 → UInt32 → UInt32
  | 0 => Spec.Sha1.ch | 1 => Spec.Sha1.parity | 2 => Spec.Sha1.maj | 3 => Spec.Sha1.parity

def kindK : Fin 4 → UInt32
  | 0 => 0x5a827999 | 1 => 0x6ed9eba1 | 2 => 0x8f1bbcdc | 3 => 0xca62c1d6

theorem round_eq (t : Nat) (v : Vars) (w : UInt32) :
    Spec.Sha1.round t v w = round' (kindF (kindOf t)) (kindK (kindOf t)) v w := by
  simp only [Spec.Sha1.round, round', Spec.Sha1.f, Spec.Sha1.k, kindOf]
  repeat' split
  all_goals first | rfl | omega

theorem kindOf_group (g j : Nat) (hj : j < 4) : kindOf (4 * g + j) = kindOf (4 * g) := by
  simp only [kindOf]
  repeat' split
  all_goals first | rfl | omega

/-- the model's `sha1_digest_round_x4` with index `i` uses boolean function `kindF i` and (T1)
the extracted constant, which is the FIPS constant `kindK i` -/
theorem digestRound_eq (abcd work : U32x4) (i : Fin 4) :
    sha1DigestRoundX4 abcd work i = sha1rnds4 (kindF i) abcd (work.add ⟨kindK i, kindK i, kindK i, kindK i⟩) := by
  match i with
  | 0 => simp only [sha1DigestRoundX4, sha1rnds4c, bool202_eq, kindF, kindK, sha1K0]
  | 1 => simp only [sha1DigestRoundX4, sha1rnds4p, bool150_eq, kindF, kindK, sha1K1]
  | 2 => simp only [sha1DigestRoundX4, sha1rnds4m, bool232_eq, kindF, kindK, sha1K2]
  | 3 => simp only [sha1DigestRoundX4, sha1rnds4p, bool150_eq, kindF, kindK, sha1K3]

/-! ### the rolled-up register machine -/

/-- current `abcd`, the pending `e`, and the four most recent schedule vectors -/
structure Regs where
  hc : U32x4
  e : UInt32
  A : U32x4
  B : U32x4
  C : U32x4
  D : U32x4

def Regs.vars (R : Regs) : Vars := ⟨R.hc.x0, R.hc.x1, R.hc.x2, R.hc.x3, R.e⟩

def win (A B C D : U32x4) : Window :=
  ⟨A.x0, A.x1, A.x2, A.x3, B.x0, B.x1, B.x2, B.x3, C.x0, C.x1, C.x2, C.x3, D.x0, D.x1, D.x2, D.x3⟩

def Regs.win (R : Regs) : Window := Sha1.win R.A R.B R.C R.D

/-- one `rounds4!` (+ the `schedule!` that produces the vector needed four groups later) -/
def step (i : Fin 4) (R : Regs) : Regs :=
  ⟨sha1DigestRoundX4 R.hc (sha1FirstAdd R.e R.A) i, rotl30 (sha1First R.hc), R.B, R.C, R.D,
    schedule R.A R.B R.C R.D⟩

def stepN : Nat → Nat → Regs → Regs
  | 0, _, R => R
  | n + 1, g, R => stepN n (g + 1) (step (kindOf (4 * g)) R)

theorem X1 (p q r s : UInt32) :
    rotl1 (p ^^^ q ^^^ r ^^^ s) = Spec.Sha1.rotl1 (s ^^^ r ^^^ q ^^^ p) := by
  rw [rotl1_eq]; congr 1; ac_rfl

/-- `schedule!` yields the next four schedule words -/
theorem win_shift4 (A B C D : U32x4) :
    (win A B C D).shift.shift.shift.shift = win B C D (schedule A B C D) := by
  simp only [win, Window.shift, Window.next, schedule, sha1msg1, sha1msg2, U32x4.xor, X1]

theorem step_vars (t : Nat) (R : Regs) :
    round' (kindF (kindOf t)) (kindK (kindOf t))
      (round' (kindF (kindOf t)) (kindK (kindOf t))
        (round' (kindF (kindOf t)) (kindK (kindOf t))
          (round' (kindF (kindOf t)) (kindK (kindOf t)) R.vars R.win.w0) R.win.shift.w0)
        R.win.shift.shift.w0) R.win.shift.shift.shift.w0
    = (step (kindOf t) R).vars := by
  have h := grp (kindF (kindOf t)) R.hc.x0 R.hc.x1 R.hc.x2 R.hc.x3 R.e R.A.x0 R.A.x1 R.A.x2 R.A.x3 (kindK (kindOf t))
  simp only [Regs.vars, Regs.win, win, Window.shift, step, digestRound_eq, sha1First, rotl30_eq] at h ⊢
  exact h

theorem step_win (i : Fin 4) (R : Regs) : R.win.shift.shift.shift.shift = (step i R).win := by
  simp only [Regs.win, step, win_shift4]

theorem rounds_four (n t : Nat) (v : Vars) (w : Window) :
    Spec.Sha1.rounds (n + 4) t v w =
      Spec.Sha1.rounds n (t + 4)
        (Spec.Sha1.round (t + 3) (Spec.Sha1.round (t + 2) (Spec.Sha1.round (t + 1)
          (Spec.Sha1.round t v w.w0) w.shift.w0) w.shift.shift.w0) w.shift.shift.shift.w0)
        w.shift.shift.shift.shift := by
  simp only [Spec.Sha1.rounds]

/-- `4·n` textbook rounds starting at round `4·g` = `n` steps of the register machine -/
theorem rounds_stepN (n g : Nat) (R : Regs) :
    Spec.Sha1.rounds (4 * n) (4 * g) R.vars R.win = (stepN n g R).vars := by
  induction n generalizing g R with
  | zero => rfl
  | succ n ih =>
    have e1 : 4 * (n + 1) = 4 * n + 4 := by omega
    rw [e1, rounds_four, round_eq, round_eq, round_eq, round_eq,
      kindOf_group g 1 (by omega), kindOf_group g 2 (by omega), kindOf_group g 3 (by omega),
      step_vars, step_win (kindOf (4 * g))]
    have e2 : 4 * g + 4 = 4 * (g + 1) := by omega
    rw [e2, ih]
    rfl

/-- `⟨s0 + a, …, s4 + e⟩` at the end of `process` -/
def finish (st : State) (R : Regs) : State :=
  ⟨st.s0 + R.hc.x0, st.s1 + R.hc.x1, st.s2 + R.hc.x2, st.s3 + R.hc.x3, st.s4 + R.e⟩

theorem stepN_20 (R : Regs) : stepN 20 0 R =
    step 3 (step 3 (step 3 (step 3 (step 3 (step 2 (step 2 (step 2 (step 2 (step 2
    (step 1 (step 1 (step 1 (step 1 (step 1 (step 0 (step 0 (step 0 (step 0 (step 0 R))))))))))))))))))) := by
  simp only [stepN]
  rfl

/-- the unrolled `process` body is twenty steps of the register machine (each `rN` is one
`rounds4!` line of the Rust, by unfolding the macros) -/
theorem processWords_eq_stepN (st : State)
    (m0 m1 m2 m3 m4 m5 m6 m7 m8 m9 m10 m11 m12 m13 m14 m15 : UInt32) :
    processWords st m0 m1 m2 m3 m4 m5 m6 m7 m8 m9 m10 m11 m12 m13 m14 m15 =
      finish st (stepN 20 0 ⟨⟨st.s0, st.s1, st.s2, st.s3⟩, st.s4, ⟨m0, m1, m2, m3⟩, ⟨m4, m5, m6, m7⟩,
          ⟨m8, m9, m10, m11⟩, ⟨m12, m13, m14, m15⟩⟩) := by
  unfold processWords
  extract_lets h0a w0 h1a w1 h0b w2 h1b w3 h0c w4 h1c w5 h0d w6 h1d w7 h0e w8 h1e w9 h0f w10 h1f w11 h0g w12 h1g w13 h0h w14 h1h w15 h0i w16 h1i w17 h0j w18 h1j w19 h0k e
  have r1 : step 0 (⟨h0a, st.s4, w0, w1, w2, w3⟩ : Regs) = (⟨h1a, (rotl30 (sha1First h0a)), w1, w2, w3, w4⟩ : Regs) := rfl
  have r2 : step 0 (⟨h1a, (rotl30 (sha1First h0a)), w1, w2, w3, w4⟩ : Regs) = (⟨h0b, (rotl30 (sha1First h1a)), w2, w3, w4, w5⟩ : Regs) := rfl
  have r3 : step 0 (⟨h0b, (rotl30 (sha1First h1a)), w2, w3, w4, w5⟩ : Regs) = (⟨h1b, (rotl30 (sha1First h0b)), w3, w4, w5, w6⟩ : Regs) := rfl
  have r4 : step 0 (⟨h1b, (rotl30 (sha1First h0b)), w3, w4, w5, w6⟩ : Regs) = (⟨h0c, (rotl30 (sha1First h1b)), w4, w5, w6, w7⟩ : Regs) := rfl
  have r5 : step 0 (⟨h0c, (rotl30 (sha1First h1b)), w4, w5, w6, w7⟩ : Regs) = (⟨h1c, (rotl30 (sha1First h0c)), w5, w6, w7, w8⟩ : Regs) := rfl
  have r6 : step 1 (⟨h1c, (rotl30 (sha1First h0c)), w5, w6, w7, w8⟩ : Regs) = (⟨h0d, (rotl30 (sha1First h1c)), w6, w7, w8, w9⟩ : Regs) := rfl
  have r7 : step 1 (⟨h0d, (rotl30 (sha1First h1c)), w6, w7, w8, w9⟩ : Regs) = (⟨h1d, (rotl30 (sha1First h0d)), w7, w8, w9, w10⟩ : Regs) := rfl
  have r8 : step 1 (⟨h1d, (rotl30 (sha1First h0d)), w7, w8, w9, w10⟩ : Regs) = (⟨h0e, (rotl30 (sha1First h1d)), w8, w9, w10, w11⟩ : Regs) := rfl
  have r9 : step 1 (⟨h0e, (rotl30 (sha1First h1d)), w8, w9, w10, w11⟩ : Regs) = (⟨h1e, (rotl30 (sha1First h0e)), w9, w10, w11, w12⟩ : Regs) := rfl
  have r10 : step 1 (⟨h1e, (rotl30 (sha1First h0e)), w9, w10, w11, w12⟩ : Regs) = (⟨h0f, (rotl30 (sha1First h1e)), w10, w11, w12, w13⟩ : Regs) := rfl
  have r11 : step 2 (⟨h0f, (rotl30 (sha1First h1e)), w10, w11, w12, w13⟩ : Regs) = (⟨h1f, (rotl30 (sha1First h0f)), w11, w12, w13, w14⟩ : Regs) := rfl
  have r12 : step 2 (⟨h1f, (rotl30 (sha1First h0f)), w11, w12, w13, w14⟩ : Regs) = (⟨h0g, (rotl30 (sha1First h1f)), w12, w13, w14, w15⟩ : Regs) := rfl
  have r13 : step 2 (⟨h0g, (rotl30 (sha1First h1f)), w12, w13, w14, w15⟩ : Regs) = (⟨h1g, (rotl30 (sha1First h0g)), w13, w14, w15, w16⟩ : Regs) := rfl
  have r14 : step 2 (⟨h1g, (rotl30 (sha1First h0g)), w13, w14, w15, w16⟩ : Regs) = (⟨h0h, (rotl30 (sha1First h1g)), w14, w15, w16, w17⟩ : Regs) := rfl
  have r15 : step 2 (⟨h0h, (rotl30 (sha1First h1g)), w14, w15, w16, w17⟩ : Regs) = (⟨h1h, (rotl30 (sha1First h0h)), w15, w16, w17, w18⟩ : Regs) := rfl
  have r16 : step 3 (⟨h1h, (rotl30 (sha1First h0h)), w15, w16, w17, w18⟩ : Regs) = (⟨h0i, (rotl30 (sha1First h1h)), w16, w17, w18, w19⟩ : Regs) := rfl
  have r17 : step 3 (⟨h0i, (rotl30 (sha1First h1h)), w16, w17, w18, w19⟩ : Regs) = (⟨h1i, (rotl30 (sha1First h0i)), w17, w18, w19, (schedule w16 w17 w18 w19)⟩ : Regs) := rfl
  have r18 : step 3 (⟨h1i, (rotl30 (sha1First h0i)), w17, w18, w19, (schedule w16 w17 w18 w19)⟩ : Regs) = (⟨h0j, (rotl30 (sha1First h1i)), w18, w19, (schedule w16 w17 w18 w19), (schedule w17 w18 w19 (schedule w16 w17 w18 w19))⟩ : Regs) := rfl
  have r19 : step 3 (⟨h0j, (rotl30 (sha1First h1i)), w18, w19, (schedule w16 w17 w18 w19), (schedule w17 w18 w19 (schedule w16 w17 w18 w19))⟩ : Regs) = (⟨h1j, (rotl30 (sha1First h0j)), w19, (schedule w16 w17 w18 w19), (schedule w17 w18 w19 (schedule w16 w17 w18 w19)), (schedule w18 w19 (schedule w16 w17 w18 w19) (schedule w17 w18 w19 (schedule w16 w17 w18 w19)))⟩ : Regs) := rfl
  have r20 : step 3 (⟨h1j, (rotl30 (sha1First h0j)), w19, (schedule w16 w17 w18 w19), (schedule w17 w18 w19 (schedule w16 w17 w18 w19)), (schedule w18 w19 (schedule w16 w17 w18 w19) (schedule w17 w18 w19 (schedule w16 w17 w18 w19)))⟩ : Regs) = (⟨h0k, (rotl30 (sha1First h1j)), (schedule w16 w17 w18 w19), (schedule w17 w18 w19 (schedule w16 w17 w18 w19)), (schedule w18 w19 (schedule w16 w17 w18 w19) (schedule w17 w18 w19 (schedule w16 w17 w18 w19))), (schedule w19 (schedule w16 w17 w18 w19) (schedule w17 w18 w19 (schedule w16 w17 w18 w19)) (schedule w18 w19 (schedule w16 w17 w18 w19) (schedule w17 w18 w19 (schedule w16 w17 w18 w19))))⟩ : Regs) := rfl
  rw [stepN_20]
  show _ = finish st (step 3 (step 3 (step 3 (step 3 (step 3 (step 2 (step 2 (step 2 (step 2 (step 2
    (step 1 (step 1 (step 1 (step 1 (step 1 (step 0 (step 0 (step 0 (step 0 (step 0 (⟨h0a, st.s4, w0, w1, w2, w3⟩ : Regs)))))))))))))))))))))
  rw [r1, r2, r3, r4, r5, r6, r7, r8, r9, r10, r11, r12, r13, r14, r15, r16, r17, r18, r19, r20]
  rfl

/-- `process` on sixteen words = textbook compression on the same words -/
theorem processWords_eq (st : State)
    (m0 m1 m2 m3 m4 m5 m6 m7 m8 m9 m10 m11 m12 m13 m14 m15 : UInt32) :
    toVars (processWords st m0 m1 m2 m3 m4 m5 m6 m7 m8 m9 m10 m11 m12 m13 m14 m15) =
      Spec.Sha1.compressWords (toVars st)
        ⟨m0, m1, m2, m3, m4, m5, m6, m7, m8, m9, m10, m11, m12, m13, m14, m15⟩ := by
  rw [processWords_eq_stepN]
  have h := rounds_stepN 20 0 ⟨⟨st.s0, st.s1, st.s2, st.s3⟩, st.s4, ⟨m0, m1, m2, m3⟩, ⟨m4, m5, m6, m7⟩,
          ⟨m8, m9, m10, m11⟩, ⟨m12, m13, m14, m15⟩⟩
  simp only [Spec.Sha1.compressWords, toVars, finish]
  simp only [Regs.vars, Regs.win, win] at h
  rw [h]

end Physis.Sha1

namespace Physis.Sha1
open Physis.Spec.Sha1 (Vars Window)

theorem word_eq (b0 b1 b2 b3 : UInt8) :
    (b3.toUInt32 ||| (b2.toUInt32 <<< 8) ||| (b1.toUInt32 <<< 16) ||| (b0.toUInt32 <<< 24)) =
    ((b0.toUInt32 <<< 24) ||| (b1.toUInt32 <<< 16) ||| (b2.toUInt32 <<< 8) ||| b3.toUInt32) := by
  bv_decide (timeout := 300)

theorem words_eq (blk : Bytes) : words blk = Spec.Sha1.beWords blk := by
  fun_induction words blk with
  | case1 b0 b1 b2 b3 rest ih =>
    rw [ih, Spec.Sha1.beWords]
    exact congrArg (· :: Spec.Sha1.beWords rest) (word_eq b0 b1 b2 b3)
  | case2 blk h =>
    unfold Spec.Sha1.beWords
    split
    · exact absurd rfl (h _ _ _ _ _)
    · rfl

theorem beWords_length (blk : Bytes) : (Spec.Sha1.beWords blk).length = blk.length / 4 := by
  fun_induction Spec.Sha1.beWords blk with
  | case1 a b c d rest ih => simp only [List.length_cons, ih]; omega
  | case2 blk h =>
    match blk, h with
    | [], _ => rfl
    | [_], _ => simp
    | [_, _], _ => simp
    | [_, _, _], _ => simp
    | a :: b :: c :: d :: r, h => exact absurd rfl (h a b c d r)

theorem list16 {α} (l : List α) (h : l.length = 16) :
    ∃ a0 a1 a2 a3 a4 a5 a6 a7 a8 a9 a10 a11 a12 a13 a14 a15,
      l = [a0, a1, a2, a3, a4, a5, a6, a7, a8, a9, a10, a11, a12, a13, a14, a15] := by
  match l, h with
  | [a0, a1, a2, a3, a4, a5, a6, a7, a8, a9, a10, a11, a12, a13, a14, a15], _ =>
    exact ⟨a0, a1, a2, a3, a4, a5, a6, a7, a8, a9, a10, a11, a12, a13, a14, a15, rfl⟩

/-- `Sha1State::process` on a 64-byte block is the FIPS 180-4 compression function -/
theorem process_eq (st : State) (blk : Bytes) (h : blk.length = 64) :
    toVars (process st blk) = Spec.Sha1.compress (toVars st) blk := by
  have hl : (Spec.Sha1.beWords blk).length = 16 := by rw [beWords_length, h]
  obtain ⟨a0, a1, a2, a3, a4, a5, a6, a7, a8, a9, a10, a11, a12, a13, a14, a15, hw⟩ := list16 _ hl
  simp only [process, Spec.Sha1.compress, Spec.Sha1.compress?, words_eq, hw, Window.ofWords,
    Option.map_some, processWords_eq]

end Physis.Sha1
