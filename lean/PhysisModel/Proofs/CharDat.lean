import PhysisModel.Model.CharDat
import PhysisModel.Proofs.LeRead
import PhysisModel.Proofs.Utf8Lossy
/-! Helper lemmas for C09 (character presets): the model of `src/chardat.rs` against `Spec/CharDatLayout`. -/
namespace Physis.CharDat
open Physis.LeRead Physis.Generated
open Physis.Spec.CharDat (Appearance Preset layout encode docChecksum WF raceCodes genderCodes tribeCodes boolByte commentSize)

theorem writeString_ok (s : Bytes) (h : 0 ∉ s) : writeString s = some (s ++ [0]) := by
  simp [writeString, h]

/-! ### `trim_matches('\0')` -/

theorem dropWhile_zeros (k : Nat) (l : Bytes) :
    (List.replicate k (0 : UInt8) ++ l).dropWhile (· == 0) = l.dropWhile (· == 0) := by
  induction k with
  | zero => rfl
  | succ k ih => simp [List.replicate_succ, List.dropWhile_cons, ih]

theorem dropWhile_nonzero (l : Bytes) (h : 0 ∉ l) : l.dropWhile (· == 0) = l := by
  cases l with
  | nil => rfl
  | cons a t =>
    have : a ≠ 0 := by intro e; apply h; simp [e]
    simp [List.dropWhile_cons, this]

theorem trimNul_padded (c : Bytes) (k : Nat) (h : 0 ∉ c) : trimNul (c ++ List.replicate k 0) = c := by
  unfold trimNul
  have h1 : (c ++ List.replicate k (0 : UInt8)).dropWhile (· == 0) = c ++ List.replicate k 0 ∨ c = [] := by
    cases c with
    | nil => exact Or.inr rfl
    | cons a t =>
      left
      have : a ≠ 0 := by intro e; apply h; simp [e]
      simp [List.dropWhile_cons, this]
  rcases h1 with h1 | rfl
  · rw [h1, List.reverse_append, List.reverse_replicate, dropWhile_zeros,
      dropWhile_nonzero _ (by simpa using h), List.reverse_reverse]
  · have := dropWhile_zeros k []
    simp only [List.append_nil, List.dropWhile_nil] at this
    simp [this]

/-! ### checksum -/

theorem checksumLoop_eq (region : Bytes) :
    checksumLoop region =
      (region.foldl (fun (acc : UInt32 × Nat) b => (acc.1 ^^^ (b.toUInt32 <<< (acc.2 % 24).toUInt32), acc.2 + 1)) (0, 0)).1 := rfl

/-- the bytes 0x10 … 0xD3 of the documented layout -/
def region (p : Preset) : Bytes :=
  writeCustomize p.appearance ++ [0] ++ putU32le p.timestamp ++ p.comment ++
    List.replicate (164 - p.comment.length) 0

theorem region_length (p : Preset) (h : p.comment.length ≤ 163) : (region p).length = 0xC4 := by
  simp [region, writeCustomize]; omega

theorem layout_drop (p : Preset) (c : UInt32) : (layout p c).drop 0x10 = region p := by
  simp [layout, putU32le, region, writeCustomize, boolByte, writeBool, commentSize]

theorem docChecksum_layout (p : Preset) (c : UInt32) (h : p.comment.length ≤ 163) :
    docChecksum (layout p c) = checksumLoop (region p) := by
  unfold docChecksum
  simp only [layout_drop]
  rw [List.take_of_length_le (by rw [region_length p h]; decide)]
  rfl

theorem resize_comment (c : Bytes) (h : c.length ≤ 163) :
    resize (c ++ [0]) 164 = c ++ List.replicate (164 - c.length) 0 := by
  unfold resize
  have e : 164 - c.length = (163 - c.length) + 1 := by omega
  have e2 : 164 - (c ++ [(0 : UInt8)]).length = 163 - c.length := by simp
  rw [List.take_of_length_le (by simp; omega), e, e2, List.replicate_succ]
  simp

theorem calcChecksum_eq (p : Preset) (h : WF p) : calcChecksum p = some (checksumLoop (region p)) := by
  obtain ⟨_, _, _, hlen, hnul, _⟩ := h
  simp only [calcChecksum, writeString_ok _ hnul, MAX_COMMENT_LENGTH, resize_comment _ hlen, region]
  simp

theorem layout_eq (p : Preset) (c : UInt32) :
    layout p c = [0x14, 0xFF, 0x13, 0x20] ++ (putU32le p.version ++ (putU32le c ++ ([0, 0, 0, 0] ++
      (writeCustomize p.appearance ++ ([0] ++ (putU32le p.timestamp ++
        ((p.comment ++ List.replicate (164 - p.comment.length) 0) ++ []))))))) := by
  simp [layout, writeCustomize, boolByte, writeBool, commentSize]

theorem writeChar_eq_encode (p : Preset) (h : WF p) : writeChar p = some (encode p) := by
  have hc := calcChecksum_eq p h
  obtain ⟨_, _, _, hlen, hnul, _⟩ := h
  have e : 164 - p.comment.length = (163 - p.comment.length) + 1 := by omega
  have e2 : 164 - (p.comment.length + 1) = 163 - p.comment.length := by omega
  rw [encode, docChecksum_layout p 0 hlen, layout_eq]
  simp only [writeChar, hc, writeString_ok _ hnul, MAX_COMMENT_LENGTH]
  simp [e, e2, List.replicate_succ]

/-! ### reader -/

theorem takeU32_magic (rest : Bytes) : takeU32 ([0x14, 0xFF, 0x13, 0x20] ++ rest) = some (0x2013FF14, rest) := by
  simp only [takeU32, List.cons_append, List.nil_append]
  congr 2

theorem readRace (r : UInt8) (h : r ∈ raceCodes) : readEnum raceTable r = some r := by
  revert r; decide
theorem readGender (r : UInt8) (h : r ∈ genderCodes) : readEnum genderTable r = some r := by
  revert r; decide
theorem readTribe (r : UInt8) (h : r ∈ tribeCodes) : readEnum tribeTable r = some r := by
  revert r; decide

theorem readBool_writeBool (b : Bool) : readBool (writeBool b) = b := by cases b <;> rfl

theorem readCustomize_write (a : Appearance) (rest : Bytes)
    (hr : a.race ∈ raceCodes) (hg : a.gender ∈ genderCodes) (ht : a.tribe ∈ tribeCodes) :
    readCustomize (writeCustomize a ++ rest) = some (a, rest) := by
  simp only [writeCustomize, List.cons_append, List.nil_append, readCustomize, readRace _ hr,
    readGender _ hg, readTribe _ ht, readBool_writeBool]

theorem parseChar_layout (p : Preset) (c : UInt32) (h : WF p) : parseChar (layout p c) = some p := by
  obtain ⟨hr, hg, ht, hlen, hnul, hutf⟩ := h
  have hlossy : Utf8Lossy.fromUtf8Lossy (p.comment ++ List.replicate (164 - p.comment.length) (0 : UInt8))
      = p.comment ++ List.replicate (164 - p.comment.length) (0 : UInt8) :=
    Proofs.Utf8Lossy.fromUtf8Lossy_pad _ _ hutf
  have hl : (p.comment ++ List.replicate (164 - p.comment.length) (0 : UInt8)).length = 164 := by
    simp; omega
  rw [layout_eq]
  simp only [parseChar, takeU32_magic, takeU32_put, ne_eq, not_true_eq_false, if_false, skip,
    List.drop_append_of_le_length, List.length_cons, List.length_nil, Nat.le_refl,
    List.nil_append, readCustomize_write _ _ hr hg ht, List.drop_succ_cons, List.drop_zero,
    MAX_COMMENT_LENGTH, takeN_append _ _ 164 hl, readString, hlossy, trimNul_padded _ _ hnul]

end Physis.CharDat
