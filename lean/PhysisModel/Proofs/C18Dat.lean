import PhysisModel.Base.ParserALemmas
import PhysisModel.Model.C18Dat
import PhysisModel.Proofs.C18Hdr
/-! `PGood` for the dat reader (`read_from_offset`, `read_data_block`), for every `inflate`. -/
namespace Physis.C18Dat
open Physis Physis.A Physis.C18Hdr

variable (infl : Bytes → Nat → Bool)

theorem seekFile_good (n : Nat) : PGood (seekFile n) := by unfold seekFile; pgood
theorem seekFileIgnore_good (n : Nat) : PGood (seekFileIgnore n) := by unfold seekFileIgnore; pgood
theorem nonNeg32_good (v : Nat) : PGood (nonNeg32 v) := by unfold nonNeg32; pgood
theorem nonNeg16_good (v : Nat) : PGood (nonNeg16 v) := by unfold nonNeg16; pgood
theorem addU64_good (a b : Nat) : PGood (addU64 a b) := by unfold addU64; pgood

/-- `read_data_block` (repaired): the compressed buffer is < 32000 bytes, the output buffer at most
`MAX_DECOMPRESSED_BLOCK_SIZE` = 2^24 bytes, the raw read is bounded by the data present -/
theorem readDataBlock_good (pos : Nat) : PGood (readDataBlock infl pos) := by
  unfold readDataBlock
  apply PGood.bind (seekFile_good pos); intro _
  apply PGood.bind PGood.u32le; intro _
  apply PGood.bind (PGood.skip 4); intro _
  apply PGood.bind u32leNat_good; intro x
  apply PGood.bind u32leNat_good; intro y
  apply PGood.bind (PGood.restorePosition PGood.u32le); intro _
  split
  · next hx =>
    split
    · exact PGood.failP
    · next hx2 =>
      split
      · exact PGood.failP
      · next hy =>
        split
        · exact PGood.failP
        · next hy2 =>
          unfold maxBlock at hy2
          apply PGood.bind
          · exact PGood.lift (fun B hB => good_vecAlloc (by unfold ISIZEMAX; omega) (by omega))
          · intro _
            apply PGood.bind (PGood.bytes x); intro comp
            apply PGood.bind
            · exact PGood.lift (fun B hB => good_vecAlloc (by unfold ISIZEMAX; omega) (by omega))
            · intro _
              split
              · exact PGood.pure _
              · exact PGood.failP
  · split
    · exact PGood.failP
    · apply PGood.bind (PGood.bytes y); intro _
      exact PGood.pure _

theorem memSizes_good {rd : P Nat} (h : PGood rd) : PGood (memSizes rd) := by
  unfold memSizes; pgood

theorem modelFileBlock_good : PGood modelFileBlock := by
  have := memSizes_good u32leNat_good; have := memSizes_good u16leNat_good
  unfold modelFileBlock; pgood

theorem lodBlock_good : PGood lodBlock := by
  have := u32leNat_good
  unfold lodBlock; pgood

theorem fileInfo_good : PGood fileInfo := by
  have := u32leNat_good; have := modelFileBlock_good; have := lodBlock_good
  unfold fileInfo; pgood

theorem blockEntry_good : PGood blockEntry := by
  have := u32leNat_good
  unfold blockEntry; pgood

theorem standardBlocks_good (start : Nat) : ∀ l : List Nat, PGood (standardBlocks infl start l) := by
  intro l
  induction l with
  | nil => unfold standardBlocks; exact PGood.pure _
  | cons o rest ih =>
    unfold standardBlocks
    apply PGood.bind (nonNeg32_good o); intro bo
    apply PGood.bind (addU64_good _ _); intro pos
    apply PGood.bind (readDataBlock_good infl pos); intro _
    exact ih

theorem readStandard_good (offset : Nat) (fi : FileInfo) (nb : Nat) :
    PGood (readStandard infl offset fi nb) := by
  unfold readStandard
  apply PGood.bind (PGood.count nb blockEntry_good); intro blocks
  apply PGood.bind (addU64_good _ _); intro start
  exact standardBlocks_good infl start blocks

/-! ### model files: `compressed_block_sizes[current_block]` stays in range -/

theorem modelBlocks_good (strict : Bool) :
    ∀ (n : Nat) (sizes : List Nat) (acc : Nat), n ≤ sizes.length →
      PGood (modelBlocks infl strict n sizes acc) ∧
      PPost (modelBlocks infl strict n sizes acc) (fun r => r.length + n = sizes.length) := by
  intro n
  induction n with
  | zero =>
    intro sizes acc _
    unfold modelBlocks
    exact ⟨PGood.pure _, PPost.pure (by omega)⟩
  | succ n ih =>
    intro sizes acc hn
    unfold modelBlocks
    constructor
    · apply PGood.bind PGood.getPos; intro lastPos
      apply PGood.bind (readDataBlock_good infl lastPos); intro len
      split
      · exact PGood.failP
      · split
        · next hs => simp at hn
        · next sz rest =>
          apply PGood.bind (seekFile_good _); intro _
          exact (ih rest (acc + len) (by simp at hn; omega)).1
    · refine PPost.bind_skip (fun lastPos => ?_)
      refine PPost.bind_skip (fun len => ?_)
      split
      · exact PPost.failP
      · split
        · exact PPost.lift_panic _
        · next sz rest =>
          refine PPost.bind_skip (fun _ => ?_)
          have h := (ih rest (acc + len) (by simp at hn; omega)).2
          intro w s a s' he
          have := h w s a s' he
          simp only [List.length_cons]; omega

theorem processModelData_good (base num offset : Nat) (sizes : List Nat) (h : num ≤ sizes.length) :
    PGood (processModelData infl base num offset sizes) ∧
    PPost (processModelData infl base num offset sizes) (fun r => r.length + num = sizes.length) := by
  unfold processModelData
  split
  · obtain ⟨g, q⟩ := modelBlocks_good infl true num sizes 0 h
    constructor
    · apply PGood.bind (addU64_good _ _); intro p
      apply PGood.bind (seekFileIgnore_good _); intro _
      exact g
    · refine PPost.bind_skip (fun p => ?_)
      refine PPost.bind_skip (fun _ => ?_)
      exact q
  · next hz =>
    exact ⟨PGood.pure _, PPost.pure (by omega)⟩

def sumFst (l : List (Nat × Nat)) : Nat := (l.map Prod.fst).sum

theorem lodLoop_good (base : Nat) :
    ∀ (vs es is : List (Nat × Nat)) (sizes : List Nat),
      sumFst vs + sumFst es + sumFst is ≤ sizes.length →
      PGood (lodLoop infl base vs es is sizes) := by
  intro vs
  induction vs with
  | nil => intro es is sizes _; unfold lodLoop; exact PGood.pure _
  | cons v vs ih =>
    intro es is sizes h
    cases es with
    | nil => unfold lodLoop; exact PGood.pure _
    | cons e es =>
      cases is with
      | nil => unfold lodLoop; exact PGood.pure _
      | cons i is =>
        obtain ⟨vn, vo⟩ := v
        obtain ⟨en, eo⟩ := e
        obtain ⟨inum, io⟩ := i
        unfold lodLoop
        simp only [sumFst, List.map_cons, List.sum_cons] at h
        obtain ⟨g1, q1⟩ := processModelData_good infl base vn vo sizes (by omega)
        apply PGood.bind_post g1 q1; intro s1 hs1
        obtain ⟨g2, q2⟩ := processModelData_good infl base en eo s1 (by omega)
        apply PGood.bind_post g2 q2; intro s2 hs2
        obtain ⟨g3, q3⟩ := processModelData_good infl base inum io s2 (by omega)
        apply PGood.bind_post g3 q3; intro s3 hs3
        exact ih es is s3 (by simp only [sumFst]; omega)

theorem u16Table_length : ∀ (n : Nat) (raw : Bytes), raw.length = n * 2 → (u16Table raw).length = n := by
  intro n
  induction n with
  | zero => intro raw h; cases raw with
    | nil => rfl
    | cons a r => simp at h
  | succ n ih =>
    intro raw h
    match raw, h with
    | [], h => simp at h
    | [a], h => simp at h; omega
    | a :: b :: r, h =>
      unfold u16Table
      simp only [List.length_cons] at h ⊢
      rw [ih r (by omega)]

theorem sumFst_zip_le : ∀ (a b : List Nat), sumFst (a.zip b) ≤ a.sum := by
  intro a
  induction a with
  | nil => intro b; simp [sumFst]
  | cons x xs ih =>
    intro b
    cases b with
    | nil => simp [sumFst]
    | cons y ys =>
      have := ih ys
      simp only [sumFst, List.zip_cons_cons, List.map_cons, List.sum_cons] at this ⊢
      omega

theorem u16leNat_le : PPost u16leNat (fun v => v ≤ 65535) :=
  PPost.map (fun a => by have := UInt16.toNat_lt a; omega)

/-- every count of a `ModelMemorySizes<u16>` is at most 65535 -/
def SmallSizes (s : Sizes) : Prop :=
  s.stack ≤ 65535 ∧ s.runtime ≤ 65535 ∧ s.vertex.sum ≤ 3 * 65535 ∧ s.edge.sum ≤ 3 * 65535 ∧
    s.index.sum ≤ 3 * 65535

theorem countGo_sum_le {p : P Nat} {m : Nat} (hp : PPost p (fun v => v ≤ m)) (w : Bytes) :
    ∀ (n : Nat) (s : St) (pk : Nat) (acc l : List Nat) (s' : St),
      (P.countGo p w n s pk acc).out = .ok (l, s') → l.sum ≤ n * m + acc.sum := by
  intro n
  induction n with
  | zero =>
    intro s pk acc l s' h
    unfold P.countGo at h; cases h; simp
  | succ n ih =>
    intro s pk acc l s' h
    unfold P.countGo at h
    split at h
    · next a s1 k heq =>
      have ha : a ≤ m := hp w s a s1 (by rw [heq])
      have := ih s1 (max pk k) (a :: acc) l s' h
      simp only [List.sum_cons] at this
      rw [Nat.succ_mul]; omega
    · cases h
    · cases h

theorem count_sum_le {p : P Nat} {m : Nat} (hp : PPost p (fun v => v ≤ m)) (n : Nat) :
    PPost (P.count n p) (fun l => l.sum ≤ n * m) := by
  intro w s l s' h
  have := countGo_sum_le hp w n s 0 [] l s' h
  simpa using this

theorem memSizes_u16_post : PPost (memSizes u16leNat) SmallSizes := by
  unfold memSizes
  refine PPost.bind (Q1 := fun v => v ≤ 65535) u16leNat_le (fun a ha => ?_)
  refine PPost.bind (Q1 := fun v => v ≤ 65535) u16leNat_le (fun b hb => ?_)
  refine PPost.bind (Q1 := fun l => l.sum ≤ 3 * 65535) (count_sum_le u16leNat_le 3) (fun c hc => ?_)
  refine PPost.bind (Q1 := fun l => l.sum ≤ 3 * 65535) (count_sum_le u16leNat_le 3) (fun d hd => ?_)
  refine PPost.bind (Q1 := fun l => l.sum ≤ 3 * 65535) (count_sum_le u16leNat_le 3) (fun e he => ?_)
  exact PPost.pure ⟨ha, hb, hc, hd, he⟩

theorem modelFileBlock_post : PPost modelFileBlock (fun m => SmallSizes m.num) := by
  unfold modelFileBlock
  refine PPost.bind_skip (fun _ => ?_)
  refine PPost.bind_skip (fun _ => ?_)
  refine PPost.bind_skip (fun _ => ?_)
  refine PPost.bind_skip (fun _ => ?_)
  refine PPost.bind_skip (fun _ => ?_)
  refine PPost.bind_skip (fun _ => ?_)
  refine PPost.bind_skip (fun _ => ?_)
  refine PPost.bind (Q1 := SmallSizes) memSizes_u16_post (fun num hnum => ?_)
  refine PPost.bind_skip (fun _ => ?_)
  refine PPost.bind_skip (fun _ => ?_)
  refine PPost.bind_skip (fun _ => ?_)
  refine PPost.bind_skip (fun _ => ?_)
  refine PPost.bind_skip (fun _ => ?_)
  refine PPost.bind_skip (fun _ => ?_)
  exact PPost.pure hnum

theorem readModel_good (offset : Nat) (fi : FileInfo) (m : ModelInfo) (hm : SmallSizes m.num) :
    PGood (readModel infl offset fi m) := by
  obtain ⟨h1, h2, h3, h4, h5⟩ := hm
  unfold readModel
  apply PGood.bind (addU64_good _ _); intro base
  apply PGood.bind
  · exact PGood.lift (fun B hB => good_vecAlloc (by unfold sizesTotal ISIZEMAX; omega)
      (by unfold sizesTotal; omega))
  · intro _
    apply PGood.bind_post (PGood.bytes _) (PPost.bytes_length _); intro raw hraw
    have hlen : (u16Table raw).length = sizesTotal m.num := u16Table_length _ raw hraw
    apply PGood.bind (addU64_good _ _); intro p
    apply PGood.bind (seekFile_good _); intro _
    apply PGood.bind (addU64_good _ _); intro p1
    apply PGood.bind (seekFile_good _); intro _
    obtain ⟨g1, q1⟩ := modelBlocks_good infl false m.num.stack (u16Table raw) 0
      (by rw [hlen]; unfold sizesTotal; omega)
    apply PGood.bind_post g1 q1; intro s1 hs1
    apply PGood.bind (addU64_good _ _); intro p2
    apply PGood.bind (seekFile_good _); intro _
    obtain ⟨g2, q2⟩ := modelBlocks_good infl false m.num.runtime s1 0
      (by rw [hlen] at hs1; unfold sizesTotal at hs1; omega)
    apply PGood.bind_post g2 q2; intro s2 hs2
    apply lodLoop_good
    have a1 := sumFst_zip_le m.num.vertex m.offset.vertex
    have a2 := sumFst_zip_le m.num.index m.offset.index
    have a3 := sumFst_zip_le m.num.edge m.offset.edge
    rw [hlen] at hs1; unfold sizesTotal at hs1
    omega

/-! ### texture files -/

theorem textureBlocks_good : ∀ (n running : Nat), PGood (textureBlocks infl n running) := by
  intro n
  induction n with
  | zero => intro r; unfold textureBlocks; exact PGood.pure _
  | succ n ih =>
    intro running
    unfold textureBlocks
    apply PGood.bind PGood.getPos; intro original
    apply PGood.bind (readDataBlock_good infl running); intro _
    apply PGood.bind (seekFile_good _); intro _
    apply PGood.bind u16leNat_good; intro step
    apply PGood.bind (nonNeg16_good _); intro st
    apply PGood.bind (addU64_good _ _); intro next
    exact ih next

theorem textureLods_good (offset size : Nat) : ∀ l : List Lod, PGood (textureLods infl offset size l) := by
  intro l
  induction l with
  | nil => unfold textureLods; exact PGood.pure _
  | cons x rest ih =>
    unfold textureLods
    apply PGood.bind (addU64_good _ _); intro a
    apply PGood.bind (addU64_good _ _); intro running
    apply PGood.bind (textureBlocks_good infl _ _); intro _
    exact ih

theorem readTexture_good (offset : Nat) (fi : FileInfo) (lods : List Lod) :
    PGood (readTexture infl offset fi lods) := by
  unfold readTexture
  split
  · exact PGood.failP
  · next first rest =>
    dsimp only
    split
    · apply PGood.bind PGood.getPos; intro original
      apply PGood.bind (addU64_good _ _); intro p
      apply PGood.bind (seekFile_good _); intro _
      apply PGood.bind (PGood.bytes _); intro _
      apply PGood.bind (seekFile_good _); intro _
      exact textureLods_good infl offset fi.size _
    · exact textureLods_good infl offset fi.size _

theorem fileInfo_post : PPost fileInfo (fun fi => ∀ m, fi.info = .model m → SmallSizes m.num) := by
  unfold fileInfo
  refine PPost.bind_skip (fun size => ?_)
  refine PPost.bind_skip (fun ft => ?_)
  refine PPost.bind_skip (fun fileSize => ?_)
  split
  · refine PPost.bind_skip (fun _ => ?_)
    refine PPost.bind_skip (fun _ => ?_)
    exact PPost.pure (by intro m h; cases h)
  · split
    · refine PPost.bind (Q1 := fun m => SmallSizes m.num) modelFileBlock_post (fun m hm => ?_)
      exact PPost.pure (by intro m' h; cases h; exact hm)
    · split
      · refine PPost.bind_skip (fun _ => ?_)
        refine PPost.bind_skip (fun _ => ?_)
        refine PPost.bind_skip (fun _ => ?_)
        exact PPost.pure (by intro m h; cases h)
      · exact PPost.pure (by intro m h; cases h)

theorem readFromOffsetP_good (offset : Nat) : PGood (readFromOffsetP infl offset) := by
  unfold readFromOffsetP
  apply PGood.bind (seekFile_good _); intro _
  apply PGood.bind_post fileInfo_good fileInfo_post; intro fi hfi
  split
  · exact PGood.failP
  · exact readStandard_good infl offset fi _
  · next m hm => exact readModel_good infl offset fi m (hfi m hm)
  · exact readTexture_good infl offset fi _

/-- `SqPackData::read_from_offset` (repaired): for every dat file, every offset and every behaviour
of `inflate` -/
theorem readFromOffset_good (w : Bytes) (offset : Nat) :
    Good (budget w.length) (readFromOffset infl w offset) :=
  PGood.run (readFromOffsetP_good infl offset) w

end Physis.C18Dat
