import PhysisModel.Base.ParserALemmas
import PhysisModel.Model.C18Mtrl
/-! `Good` for the model of `Material::from_existing` with the fixes (`fx = true`). -/
namespace Physis.C18Mtrl
open Physis Physis.A

theorem good_oob_fixed {α} (B : Nat) (f : Fault) : Good B (oob true f : Res α) := by
  unfold oob; simp

theorem u8_le (x : UInt8) : x.toNat ≤ 16777216 := by have := x.toNat_lt; omega
theorem u16_le (x : UInt16) : x.toNat ≤ 16777216 := by have := x.toNat_lt; omega

/-! ### stage 1 -/

theorem fileHeader_good : PGood fileHeader := by unfold fileHeader; pgood
theorem colorSet_good : PGood colorSet := by unfold colorSet; pgood

theorem tableFlags_good (n : UInt8) : PGood (tableFlags true n) := by
  unfold tableFlags
  apply PGood.padSizeTo
  apply PGood.mapRes (PGood.countBytes (u8_le n))
  intro x B _
  split
  · exact good_ok _ _
  · exact good_oob_fixed _ _

theorem halfs_good (n : Nat) : PGood (halfs n) := by
  unfold halfs
  apply PGood.bind (PGood.count _ PGood.u16le); intro _
  exact PGood.pure _
theorem legacyRow_good : PGood legacyRow := halfs_good 16
theorem dawntrailRow_good : PGood dawntrailRow := halfs_good 32

theorem colorTable_good (d : UInt8) : PGood (colorTable d) := by
  unfold colorTable
  split
  · apply PGood.bind (PGood.count _ legacyRow_good); intro _; exact PGood.pure _
  · split
    · apply PGood.bind (PGood.count _ dawntrailRow_good); intro _; exact PGood.pure _
    · exact PGood.pure _
theorem dyeTable_good (d : UInt8) : PGood (dyeTable d) := by
  unfold dyeTable
  split
  · apply PGood.bind (PGood.count _ PGood.u16le); intro _; exact PGood.pure _
  · split
    · apply PGood.bind (PGood.count _ PGood.u32le); intro _; exact PGood.pure _
    · exact PGood.pure _

theorem shaderKey_good : PGood shaderKey := by unfold shaderKey; pgood
theorem constantStruct_good : PGood constantStruct := by unfold constantStruct; pgood
theorem u32Nat_good : PGood u32Nat := PGood.map PGood.u32le
theorem sampler_good : PGood sampler := by
  have := u32Nat_good
  unfold sampler; pgood

theorem materialData_good : PGood (materialData true) := by
  have := fileHeader_good; have := colorSet_good; have := shaderKey_good
  have := constantStruct_good; have := sampler_good
  have h1 := fun n => tableFlags_good n
  have h2 := fun d => colorTable_good d
  have h3 := fun d => dyeTable_good d
  have h4 := fun (x : UInt16) => PGood.countBytes (u16_le x)
  unfold materialData
  apply PGood.bind fileHeader_good; intro h
  apply PGood.bind (PGood.countInts _ _); intro _
  apply PGood.bind (PGood.count _ colorSet_good); intro _
  apply PGood.bind (PGood.count _ colorSet_good); intro _
  apply PGood.bind (h4 _); intro strings
  apply PGood.bind (h1 _); intro flags
  apply PGood.bind (PGood.ifCond (h2 _)); intro _
  apply PGood.bind (PGood.ifCond (h3 _)); intro _
  apply PGood.bind PGood.u16le; intro svls
  apply PGood.bind PGood.u16le; intro keyCount
  apply PGood.bind PGood.u16le; intro constCount
  apply PGood.bind PGood.u16le; intro samplerCount
  apply PGood.bind PGood.u32le; intro _
  apply PGood.bind (PGood.count _ shaderKey_good); intro _
  apply PGood.bind (PGood.count _ constantStruct_good); intro cs
  apply PGood.bind (PGood.count _ sampler_good); intro _
  apply PGood.bind (PGood.count _ PGood.f32le); intro vals
  exact PGood.pure _

/-! ### stage 2 -/

theorem scanNul_good (B : Nat) : ∀ l : Bytes, Good B (scanNul true l)
  | [] => by unfold scanNul; exact good_oob_fixed _ _
  | b :: r => by
    unfold scanNul
    split
    · exact good_ok _ _
    · exact scanNul_good B r

theorem textureLoop_good (B : Nat) : ∀ (n : Nat) (l : Bytes), Good B (textureLoop true n l)
  | 0, _ => by unfold textureLoop; exact good_ok _ _
  | n + 1, l => by
    unfold textureLoop
    exact Good.bind' (scanNul_good B l) (fun r => textureLoop_good B n r)

theorem constantsLoop_good (B nvals : Nat) : ∀ cs, Good B (constantsLoop true nvals cs)
  | [] => by unfold constantsLoop; exact good_ok _ _
  | c :: r => by
    unfold constantsLoop
    split
    · exact constantsLoop_good B nvals r
    · exact good_oob_fixed _ _

theorem stage2_good (B : Nat) (d : MatData) : Good B (stage2 true d) := by
  unfold stage2
  apply Good.bind' (textureLoop_good B _ _); intro _
  apply Good.bind' (scanNul_good B _); intro _
  exact constantsLoop_good B _ _

theorem mtrl_good (b : Bytes) : Good (budget b.length) (mtrl b) := by
  unfold mtrl mtrlAt
  exact Good.bind' (PGood.run materialData_good b) (fun d => stage2_good _ d)

end Physis.C18Mtrl
