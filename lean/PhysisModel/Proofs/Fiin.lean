import PhysisModel.Model.Fiin
import PhysisModel.Base.BytesLemmas
import PhysisModel.Proofs.Utf8Lossy
/-!
FIIN: the binrw writer produces the documented layout; the reader inverts it on well-formed
tables; `FileInfo::new` yields base name, size and digest of every file.
-/
namespace Physis.Fiin
open Physis.Spec.Fiin (Entry WFEntry WF normEntry encodeEntry encode padTo utf8Run utf8Step utf8Valid U8State)

theorem writeEntry_eq : writeEntry = encodeEntry := rfl

theorem write_eq (es : List Entry) : write es = encode es := rfl

theorem zeros_eq (n : Nat) : Spec.Fiin.zeros n = zeros n := rfl

@[simp] theorem zeros_length (n : Nat) : (zeros n).length = n := by simp [zeros]

theorem padTo_length (n : Nat) (b : Bytes) (h : b.length ≤ n) : (padTo n b).length = n := by
  simp [padTo, Spec.Fiin.zeros]; omega

theorem encodeEntry_length (e : Entry) (h : WFEntry e = true) : (encodeEntry e).length = 96 := by
  simp only [WFEntry, Bool.and_eq_true, decide_eq_true_eq] at h
  simp only [encodeEntry, List.length_append, putU32le_length, zeros_eq, zeros_length,
    padTo_length 64 _ h.1.1.1.1, padTo_length 24 _ h.2]

theorem takeN_append (n : Nat) (a b : Bytes) (h : a.length = n) : takeN n (a ++ b) = some (a, b) := by
  subst h; simp [takeN]

/-! ### UTF-8 validity of a NUL-padded name -/

theorem utf8Run_append (s : U8State) (a b : Bytes) :
    utf8Run s (a ++ b) = (utf8Run s a).bind (fun s' => utf8Run s' b) := by
  induction a generalizing s with
  | nil => simp [utf8Run]
  | cons x a ih =>
    simp only [List.cons_append, utf8Run]
    cases utf8Step s x with
    | none => simp
    | some s' => simp [ih]

theorem utf8Run_zeros (k : Nat) : utf8Run .start (zeros k) = some .start := by
  induction k with
  | zero => rfl
  | succ k ih =>
    have : zeros (k + 1) = 0 :: zeros k := by simp [zeros, List.replicate_succ]
    rw [this]
    simp only [utf8Run]
    have : utf8Step .start 0 = some .start := by decide
    rw [this]; exact ih

theorem utf8Valid_pad (name : Bytes) (k : Nat) (h : utf8Valid name = true) :
    utf8Valid (name ++ zeros k) = true := by
  simp only [utf8Valid, beq_iff_eq] at h ⊢
  rw [utf8Run_append, h]; simp [utf8Run_zeros]

/-! ### trimming the padding -/

theorem dropWhile_zeros_append (k : Nat) (l : Bytes) :
    (zeros k ++ l).dropWhile (· == 0) = l.dropWhile (· == 0) := by
  induction k with
  | zero => simp [zeros]
  | succ k ih =>
    have : zeros (k + 1) = 0 :: zeros k := by simp [zeros, List.replicate_succ]
    rw [this]; simp [ih]

theorem trimNul_pad (name : Bytes) (k : Nat) (hh : name.head? ≠ some 0) (hl : name.getLast? ≠ some 0) :
    trimNul (name ++ zeros k) = name := by
  cases name with
  | nil =>
    have := dropWhile_zeros_append k []
    simp only [List.append_nil] at this
    simp [trimNul, this]
  | cons x rest =>
    have hx : (x == 0) = false := by
      simp only [List.head?_cons, ne_eq, Option.some.injEq] at hh
      simpa using hh
    have e1 : ((x :: rest) ++ zeros k).dropWhile (· == 0) = (x :: rest) ++ zeros k := by
      simp [hx]
    have hz : (zeros k).reverse = zeros k := by simp [zeros]
    unfold trimNul
    rw [e1, List.reverse_append, hz, dropWhile_zeros_append]
    have hne : (x :: rest).reverse ≠ [] := by simp
    obtain ⟨y, ys, hy⟩ := List.exists_cons_of_ne_nil hne
    have hy0 : (y == 0) = false := by
      have : (x :: rest).getLast? = some y := by
        rw [List.getLast?_eq_head?_reverse, hy]; rfl
      rw [this] at hl
      simp only [ne_eq, Option.some.injEq] at hl
      simpa using hl
    rw [hy]
    simp only [List.dropWhile_cons, hy0, Bool.false_eq_true, ↓reduceIte]
    rw [← hy, List.reverse_reverse]

/-! ### reader ∘ writer -/

theorem readEntry_encode (e : Entry) (rest : Bytes) (h : WFEntry e = true) :
    readEntry (encodeEntry e ++ rest) = .ok (normEntry e, rest) := by
  simp only [WFEntry, Bool.and_eq_true, decide_eq_true_eq, bne_iff_ne] at h
  obtain ⟨⟨⟨⟨hn, hu⟩, hh⟩, hl⟩, hs⟩ := h
  simp only [readEntry, encodeEntry, List.append_assoc]
  rw [takeN_append 4 _ _ (putU32le_length _)]
  simp only [getU32le_put]
  have hd : (Spec.Fiin.zeros 4 ++ (padTo 64 e.fileName ++ (padTo 24 e.sha1 ++ rest))).drop 4 =
      padTo 64 e.fileName ++ (padTo 24 e.sha1 ++ rest) := by
    exact List.drop_left' List.length_replicate
  rw [hd, takeN_append 64 _ _ (padTo_length 64 _ hn)]
  simp only
  have hv : utf8Valid (padTo 64 e.fileName) = true := utf8Valid_pad _ _ hu
  simp only [Proofs.Utf8Lossy.fromUtf8Lossy_valid _ hv]
  rw [takeN_append 24 _ _ (padTo_length 24 _ hs)]
  simp only [padTo, zeros_eq, trimNul_pad _ _ hh hl, normEntry]

theorem readEntries_encode (es : List Entry) (rest : Bytes) (h : es.all WFEntry = true) :
    readEntries es.length ((es.map encodeEntry).flatten ++ rest) = .ok (es.map normEntry) := by
  induction es with
  | nil => rfl
  | cons e es ih =>
    simp only [List.all_cons, Bool.and_eq_true] at h
    simp only [List.length_cons, List.map_cons, List.flatten_cons, List.append_assoc, readEntries]
    rw [readEntry_encode _ _ h.1]
    simp only [ih h.2]

theorem count_eq (n : Nat) (h : n * 96 < 2 ^ 31) :
    Int.tdiv (UInt32.ofNat (n * 96)).toInt32.toInt 96 = n := by
  have h1 : (UInt32.ofNat (n * 96)).toInt32.toInt = (n * 96 : Nat) := by
    rw [UInt32.toInt32_ofNat', Int32.toInt_ofNat_of_lt h]
  rw [h1]
  have : ((96 : Nat) : Int) = 96 := rfl
  rw [← this, ← Int.ofNat_tdiv]
  simp

/-- `from_existing` on the documented layout of a well-formed table -/
theorem parse_encode (es : List Entry) (h : WF es = true) :
    parse (encode es) = .ok (es.map normEntry) := by
  simp only [WF, Bool.and_eq_true, decide_eq_true_eq] at h
  simp only [parse, encode]
  rw [takeN_append 8 _ _ rfl]
  simp only [Spec.Fiin.magic, ne_eq, not_true_eq_false, ↓reduceIte]
  have hd16 : ∀ X : Bytes, (Spec.Fiin.zeros 16 ++ X).drop 16 = X := by
    intro X
    exact List.drop_left' List.length_replicate
  have hd992 : ∀ X : Bytes, (Spec.Fiin.zeros 992 ++ X).drop 992 = X := by
    intro X
    exact List.drop_left' List.length_replicate
  rw [hd16, takeN_append 4 _ _ (putU32le_length _)]
  simp only
  rw [takeN_append 4 _ _ (putU32le_length _)]
  simp only [getU32le_put, hd992, count_eq _ h.1]
  have : ¬ ((es.length : Int) < 0) := by omega
  simp only [this, ↓reduceIte, Int.toNat_natCast]
  have := readEntries_encode es [] h.2
  simpa using this

/-! ### `FileInfo::new` -/

theorem splitByteAux_ne_nil (sep : UInt8) (cur p : Bytes) : WireText.splitByteAux sep cur p ≠ [] := by
  induction p generalizing cur with
  | nil => simp [WireText.splitByteAux]
  | cons c rest ih =>
    simp only [WireText.splitByteAux]
    split
    · simp
    · exact ih _

theorem splitByteAux_getLast (cur p : Bytes) :
    (WireText.splitByteAux 0x2f cur p).getLast? = some (Spec.Fiin.baseNameGo p cur) := by
  induction p generalizing cur with
  | nil => simp [WireText.splitByteAux, Spec.Fiin.baseNameGo]
  | cons c rest ih =>
    simp only [WireText.splitByteAux, Spec.Fiin.baseNameGo]
    split
    · obtain ⟨y, ys, hy⟩ := List.exists_cons_of_ne_nil (splitByteAux_ne_nil 0x2f [] rest)
      have := ih []
      rw [hy] at this ⊢
      rw [List.getLast?_cons_cons]; exact this
    · exact ih _

theorem find_head {α} (p : α → Bool) (l : List α) (b : α) (h : l.head? = some b) (hp : p b = true) :
    l.find? p = some b := by
  cases l with
  | nil => simp at h
  | cons x xs =>
    simp only [List.head?_cons, Option.some.injEq] at h
    subst h
    simp [hp]

/-- on a path whose last component is a normal file name, `Path::file_name` is the base name -/
theorem fileName_eq (path : Bytes) (h : Spec.Fiin.WFPath path = true) :
    fileName path = some (Spec.Fiin.baseName path) := by
  simp only [Spec.Fiin.WFPath, Bool.and_eq_true, bne_iff_ne, ne_eq] at h
  obtain ⟨⟨h1, h2⟩, h3⟩ := h
  have hl : (WireText.splitByte 0x2f path).reverse.head? = some (Spec.Fiin.baseName path) := by
    rw [List.head?_reverse]; exact splitByteAux_getLast [] path
  have hf := find_head (fun c => c != [] && c != [0x2e]) _ _ hl (by simp [h1, h2])
  simp only [fileName, hf]
  have : (Spec.Fiin.baseName path == [0x2e, 0x2e]) = false := by simpa using h3
  simp [this]

/-- `FileInfo::new`: one entry per file, in order — base name, size (as `i32`), digest -/
theorem newEntries_eq (sha1 : Bytes → Bytes) (files : List (Bytes × Bytes))
    (h : files.all (fun f => Spec.Fiin.WFPath f.1) = true) :
    newEntries sha1 files =
      some (files.map fun f => ⟨UInt32.ofNat f.2.length, Spec.Fiin.baseName f.1, sha1 f.2⟩) := by
  induction files with
  | nil => rfl
  | cons f rest ih =>
    obtain ⟨p, c⟩ := f
    simp only [List.all_cons, Bool.and_eq_true] at h
    simp only [newEntries, fileName_eq p h.1, ih h.2, List.map_cons]

end Physis.Fiin
