import PhysisModel.Proofs.MdlLayout
/-!
The random-access part of `MDL::from_existing` (all abstract models, no bounds other than `WF`),
for **every file with the layout of `m`** (`SameLayout m file`: the two header parses return
`fileHeader m` / `modelData m`, and the geometry sections of `m` lie at `dataStart m`); the
statements about `encodeMdl m` are the instances `sameLayout_encode`:

1. `element_address` — the `u32` address arithmetic of `elementAddress` does not overflow and
   points at the element's slice of the abstract stream (`IsSlice` / `psum` prefix sums);
2. `decodeElement_std` — the reader's switch = `stdDecode`, except `(BlendWeights, Byte4)`
   (recorded finding; excluded by `noWeightsByte4`);
3. `readVertices_eq`; 4. `index_read`, `leU16s_flatMap_put`, `readSubmeshes_eq`, `readStreams_eq`;
5. `readPart_eq`, `readLod_eq`, `parse_encode_core`, `parse_encode_noshapes`;
6. `readShapes_eq` (the code's shape selection agrees with `shapesOf`) and hence `parse_encode` /
   `parse_encode_view` without the `m.shapes = []` restriction.

The lemmas in the namespace `SameLayout` are the general statements (`L : SameLayout m file`); the
lemmas of the same name outside it are their instances on `encodeMdl m`.  The only facts used about
the bytes of the file are the two fields of `SameLayout`; every bound on an address is derived from
`WF m` (through the instance `sections_slice` and `WFacts.fileLen`), so nothing is assumed about
the length of `file`.

The geometry chain (`stream_bounds` … `readLod_eq`, `readLods_core`) uses the second field alone:
it is proved in the namespace `HasSections` (`HasSections m file` = the sections of `m` lie at
`dataStart m`; statements about `readLod file.toArray (fileHeader m) (modelData m)`, whatever the
header stage returns on `file`), and the `SameLayout.…` lemmas are its instances through
`SameLayout.geom`.  The first field is used only at the very end (`SameLayout.parse_core`).
`Proofs/MdlRedundant.lean` combines the `HasSections` chain with files whose header records differ
from `fileHeader m` / `modelData m` in fields the reader never looks at.

The SoftFloat functions are never unfolded.  The internal statements are about the explicit rows
`lodRowOf m i l` / `meshRowOf m i l d mesh`; `lods_row` / `meshes_row` / `decls_row` identify them
with the entries of `(modelData m).lods` / `.meshes` / `.decls`.
-/
namespace Physis.Mdl
open Physis Physis.Spec.Mdl

/-! ### the result monad -/

theorem R.ok_bind (a : α) (f : α → R β) : ((Except.ok a : R α) >>= f) = f a := rfl
theorem R.pure_eq (a : α) : (pure a : R α) = .ok a := rfl

/-- `mapM` of a function that succeeds on every element of the list -/
theorem mapM_ok_of_forall (f : α → R β) (g : α → β) (l : List α)
    (h : ∀ x ∈ l, f x = .ok (g x)) : l.mapM f = .ok (l.map g) := by
  induction l with
  | nil => rfl
  | cons x xs ih =>
    rw [List.mapM_cons, h x (by simp), ih (fun y hy => h y (by simp [hy]))]
    rfl

theorem mapM_range_ok (f : Nat → R β) (g : Nat → β) (n : Nat)
    (h : ∀ d, d < n → f d = .ok (g d)) : (List.range n).mapM f = .ok ((List.range n).map g) :=
  mapM_ok_of_forall f g _ (fun x hx => h x (by simpa using hx))

theorem foldlM_ok_of_forall (f : β → α → R β) (g : β → α → β) (l : List α)
    (h : ∀ x ∈ l, ∀ acc, f acc x = .ok (g acc x)) :
    ∀ init, l.foldlM f init = .ok (l.foldl g init) := by
  induction l with
  | nil => intro init; rfl
  | cons x xs ih =>
    intro init
    rw [List.foldlM_cons, h x (by simp), R.ok_bind, ih (fun y hy => h y (by simp [hy]))]
    rfl

/-- shifting the argument of a `mapM` over a range -/
theorem mapM_range'_shift (G : Nat → R β) (mb n : Nat) : ∀ s,
    (List.range' s n).mapM (fun d => G (mb + d)) = (List.range' (mb + s) n).mapM G := by
  induction n with
  | zero => intro s; rfl
  | succ n ih =>
    intro s
    rw [List.range'_succ, List.range'_succ, List.mapM_cons, List.mapM_cons, ih (s + 1)]
    rfl

theorem mapM_range_shift (G : Nat → R β) (mb n : Nat) :
    (List.range n).mapM (fun d => G (mb + d)) = (List.range' mb n).mapM G := by
  rw [List.range_eq_range', mapM_range'_shift]; rfl

/-! ### prefix sums -/

/-- sum of `f` over the first `i` elements -/
def psum (f : α → Nat) (l : List α) (i : Nat) : Nat := ((l.take i).map f).sum

@[simp] theorem psum_zero (f : α → Nat) (l : List α) : psum f l 0 = 0 := by simp [psum]
@[simp] theorem psum_nil (f : α → Nat) (i : Nat) : psum f [] i = 0 := by simp [psum]
@[simp] theorem psum_cons_succ (f : α → Nat) (x : α) (l : List α) (i : Nat) :
    psum f (x :: l) (i + 1) = f x + psum f l i := by simp [psum]

theorem psum_add_le (f : α → Nat) (l : List α) : ∀ (i : Nat) (x : α), l[i]? = some x →
    psum f l i + f x ≤ (l.map f).sum := by
  induction l with
  | nil => intro i x h; simp at h
  | cons y ys ih =>
    intro i x h
    cases i with
    | zero => simp at h; subst h; simp
    | succ i =>
      simp only [List.getElem?_cons_succ] at h
      have := ih i x h
      simp only [psum_cons_succ, List.map_cons, List.sum_cons]; omega

theorem psum_length (f : α → Nat) (l : List α) : psum f l l.length = (l.map f).sum := by
  simp [psum]

theorem sum_map_flatMap (f : α → List β) (g : β → Nat) (l : List α) :
    ((l.flatMap f).map g).sum = (l.map (fun x => ((f x).map g).sum)).sum := by
  induction l with
  | nil => rfl
  | cons x xs ih => simp [List.flatMap_cons, List.sum_append, ih]

theorem length_flatMap' (f : α → List β) (g : α → Nat) (hg : ∀ y, (f y).length = g y)
    (l : List α) : (l.flatMap f).length = (l.map g).sum := by
  rw [List.length_flatMap]; congr 1; exact List.map_congr_left (fun y _ => hg y)

theorem flatMap_getElem? (f : α → List β) (g : α → Nat) (hg : ∀ y, (f y).length = g y)
    (l : List α) : ∀ (i : Nat) (x : α) (d : Nat), l[i]? = some x → d < g x →
    (l.flatMap f)[psum g l i + d]? = (f x)[d]? := by
  induction l with
  | nil => intro i x d h; simp at h
  | cons y ys ih =>
    intro i x d h hd
    cases i with
    | zero =>
      simp at h; subst h
      simp only [psum_zero, Nat.zero_add, List.flatMap_cons]
      exact List.getElem?_append_left (by rw [hg]; exact hd)
    | succ i =>
      simp only [List.getElem?_cons_succ] at h
      simp only [psum_cons_succ, List.flatMap_cons]
      rw [List.getElem?_append_right (by rw [hg]; omega), hg,
        show g y + psum g ys i + d - g y = psum g ys i + d by omega]
      exact ih i x d h hd

theorem flatMap_take (f : α → List β) (g : α → Nat) (hg : ∀ y, (f y).length = g y)
    (l : List α) : ∀ (i : Nat) (x : α) (d : Nat), l[i]? = some x → d ≤ g x →
    (l.flatMap f).take (psum g l i + d) = (l.take i).flatMap f ++ (f x).take d := by
  induction l with
  | nil => intro i x d h; simp at h
  | cons y ys ih =>
    intro i x d h hd
    cases i with
    | zero =>
      simp at h; subst h
      simp only [psum_zero, Nat.zero_add, List.flatMap_cons, List.take_zero, List.flatMap_nil,
        List.nil_append]
      exact List.take_append_of_le_length (by rw [hg]; exact hd)
    | succ i =>
      simp only [List.getElem?_cons_succ] at h
      simp only [psum_cons_succ, List.flatMap_cons, List.take_succ_cons, List.append_assoc]
      rw [Nat.add_assoc, ← hg y, List.take_length_add_append, ih i x d h hd]

/-! ### slices of the file -/

/-- `seg` occupies the bytes `[off, off + seg.length)` of `file` -/
def IsSlice (file : Bytes) (off : Nat) (seg : Bytes) : Prop :=
  ∃ pre post, file = pre ++ (seg ++ post) ∧ pre.length = off

theorem IsSlice.left {file : Bytes} {off : Nat} {a b : Bytes} (h : IsSlice file off (a ++ b)) :
    IsSlice file off a := by
  obtain ⟨pre, post, e, hl⟩ := h
  exact ⟨pre, b ++ post, by rw [e, List.append_assoc], hl⟩

theorem IsSlice.right {file : Bytes} {off : Nat} {a b : Bytes} (h : IsSlice file off (a ++ b)) :
    IsSlice file (off + a.length) b := by
  obtain ⟨pre, post, e, hl⟩ := h
  exact ⟨pre ++ a, post, by rw [e]; simp, by simp [hl]⟩

theorem IsSlice.length_le {file : Bytes} {off : Nat} {seg : Bytes} (h : IsSlice file off seg) :
    off + seg.length ≤ file.length := by
  obtain ⟨pre, post, e, hl⟩ := h
  rw [e]; simp; omega

theorem IsSlice.flatMap {file : Bytes} (f : α → Bytes) (g : α → Nat)
    (hg : ∀ y, (f y).length = g y) (l : List α) : ∀ (off i : Nat) (x : α),
    IsSlice file off (l.flatMap f) → l[i]? = some x → IsSlice file (off + psum g l i) (f x) := by
  induction l with
  | nil => intro off i x _ h; simp at h
  | cons y ys ih =>
    intro off i x hs h
    rw [List.flatMap_cons] at hs
    cases i with
    | zero => simp at h; subst h; simpa using hs.left
    | succ i =>
      simp only [List.getElem?_cons_succ] at h
      have := ih (off + (f y).length) i x hs.right h
      rw [psum_cons_succ, ← Nat.add_assoc, ← hg y]; exact this

/-- reading inside a slice -/
theorem IsSlice.readAt {file : Bytes} {off : Nat} {seg : Bytes} (h : IsSlice file off seg)
    (k n : Nat) (hk : k + n ≤ seg.length) :
    readAt file.toArray (off + k) n = some ((seg.drop k).take n) := by
  obtain ⟨pre, post, e, hl⟩ := h
  subst hl
  unfold Physis.Mdl.readAt
  by_cases hn : n = 0
  · simp [hn]
  · have hsz : pre.length + k + n ≤ file.toArray.size := by
      rw [e]; simp; omega
    simp only [hn, ↓reduceIte, hsz, Option.some.injEq]
    rw [Array.toList_extract, List.extract_eq_take_drop, e]
    rw [show pre.length + k + n - (pre.length + k) = n by omega, List.drop_append]
    simp only [show pre.length + k - pre.length = k by omega,
      List.drop_eq_nil_of_le (show pre.length ≤ pre.length + k by omega), List.nil_append]
    rw [List.drop_append_of_le_length (by omega), List.take_append_of_le_length (by simp; omega)]

/-! ### the layout tables, entry by entry -/

/-- the `MeshLod` row of a LOD whose first mesh is `mbase` and whose sections start at `off` -/
def lodRow (mbase off : Nat) (l : ALod) : MeshLod :=
  { meshIndex := mbase.toUInt16
    meshCount := l.meshes.length.toUInt16
    mid := l.mid
    edgeGeometryDataOffset := l.edgeGeometryDataOffset
    polygonCount := l.polygonCount
    vertexBufferSize := (lodVertexSize l).toUInt32
    indexBufferSize := (lodIndexSize l).toUInt32
    vertexDataOffset := off.toUInt32
    indexDataOffset := (off + lodVertexSize l).toUInt32 }

/-- the `Mesh` row of a mesh with running vertex offset / start index / sub-mesh index -/
def meshRow (vbase ibase sbase : Nat) (m : AMesh) : Mesh :=
  { vertexCount := m.vertexCount
    indexCount := m.indices.length.toUInt32
    materialIndex := m.materialIndex
    submeshIndex := sbase.toUInt16
    submeshCount := m.submeshes.length.toUInt16
    boneTableIndex := m.boneTableIndex
    startIndex := ibase.toUInt32
    vertexBufferOffsets := Arr3.ofList 0 ((streamOffsets vbase m.streams).map Nat.toUInt32)
    vertexBufferStrides := Arr3.ofList 0 (m.streams.map (·.stride))
    vertexStreamCount := m.streams.length.toUInt8 }

def lodSize (l : ALod) : Nat := lodVertexSize l + lodIndexSize l
def subLen (x : AMesh) : Nat := x.submeshes.length
def lodSubCount (l : ALod) : Nat := (l.meshes.map subLen).sum
def meshCountOf (l : ALod) : Nat := l.meshes.length
def dataLen (s : AStream) : Nat := s.data.length

theorem streamOffsets_getElem? (l : List AStream) : ∀ (j base : Nat), j < l.length →
    (streamOffsets base l)[j]? = some (base + psum dataLen l j) := by
  induction l with
  | nil => intro j base h; simp at h
  | cons x xs ih =>
    intro j base h
    cases j with
    | zero => simp [streamOffsets]
    | succ j =>
      simp only [streamOffsets, List.getElem?_cons_succ, psum_cons_succ]
      rw [ih j _ (by simpa using h), dataLen, Nat.add_assoc]

theorem length_streamOffsets (l : List AStream) : ∀ base, (streamOffsets base l).length = l.length := by
  induction l with
  | nil => intro _; rfl
  | cons x xs ih => intro b; simp [streamOffsets, ih]

theorem lodRows_getElem? (l : List ALod) : ∀ (i mbase off : Nat) (x : ALod), l[i]? = some x →
    (lodRows mbase off l)[i]? =
      some (lodRow (mbase + psum meshCountOf l i) (off + psum lodSize l i) x) := by
  induction l with
  | nil => intro i _ _ x h; simp at h
  | cons y ys ih =>
    intro i mbase off x h
    cases i with
    | zero => simp at h; subst h; simp [lodRows, lodRow]
    | succ i =>
      simp only [List.getElem?_cons_succ] at h
      simp only [lodRows, List.getElem?_cons_succ, psum_cons_succ]
      rw [ih i _ _ x h, meshCountOf, lodSize]
      simp only [Nat.add_assoc]

theorem meshRows_getElem? (l : List AMesh) : ∀ (d v i s : Nat) (x : AMesh), l[d]? = some x →
    (meshRows v i s l)[d]? =
      some (meshRow (v + psum streamSize l d) (i + psum meshIndexWords l d) (s + psum subLen l d) x) := by
  induction l with
  | nil => intro d _ _ _ x h; simp at h
  | cons y ys ih =>
    intro d v i s x h
    cases d with
    | zero => simp at h; subst h; simp [meshRows, meshRow]
    | succ d =>
      simp only [List.getElem?_cons_succ] at h
      simp only [meshRows, List.getElem?_cons_succ, psum_cons_succ]
      rw [ih d _ _ _ x h, subLen]
      simp only [Nat.add_assoc]

theorem allMeshRows_getElem? (lods : List ALod) : ∀ (i sbase : Nat) (l : ALod) (d : Nat) (x : AMesh),
    lods[i]? = some l → l.meshes[d]? = some x →
    (allMeshRows sbase lods)[psum meshCountOf lods i + d]? =
      some (meshRow (psum streamSize l.meshes d) (psum meshIndexWords l.meshes d)
        (sbase + psum lodSubCount lods i + psum subLen l.meshes d) x) := by
  induction lods with
  | nil => intro i _ l _ _ h; simp at h
  | cons y ys ih =>
    intro i sbase l d x h hx
    have hd : d < l.meshes.length := (List.getElem?_eq_some_iff.mp hx).1
    cases i with
    | zero =>
      simp at h; subst h
      simp only [psum_zero, Nat.zero_add, allMeshRows, Nat.add_zero]
      rw [List.getElem?_append_left (by rw [length_meshRows]; exact hd),
        meshRows_getElem? _ d 0 0 sbase x hx]
      simp only [Nat.zero_add]
    | succ i =>
      simp only [List.getElem?_cons_succ] at h
      simp only [allMeshRows, psum_cons_succ]
      rw [List.getElem?_append_right (by rw [length_meshRows, meshCountOf]; omega),
        length_meshRows, meshCountOf,
        show y.meshes.length + psum meshCountOf ys i + d - y.meshes.length =
          psum meshCountOf ys i + d by omega]
      have := ih i (sbase + (y.meshes.map (fun (x : AMesh) => x.submeshes.length)).sum) l d x h hx
      rw [this]
      simp only [lodSubCount, Nat.add_assoc]
      rfl

theorem Arr3.get?_ofList (dflt : α) (l : List α) (j : Nat) (hj : j < l.length) (h3 : j < 3) :
    (Arr3.ofList dflt l).get? j = l[j]? := by
  rcases l with _ | ⟨a, _ | ⟨b, _ | ⟨c, t⟩⟩⟩
  · simp at hj
  · simp at hj; subst hj; rfl
  · simp at hj
    rcases j with _ | _ | j
    · rfl
    · rfl
    · omega
  · rcases j with _ | _ | _ | j
    · rfl
    · rfl
    · rfl
    · omega

/-! ### where the sections lie in the file -/

theorem length_encFileHeader (h : FileHeader) : (encFileHeader h).length = 0x44 := by
  simp [encFileHeader, putArr3U32, putBool]

theorem length_lodRows_enc (l : List ALod) : ∀ (mb a b : Nat),
    ((lodRows mb a l).flatMap encMeshLod).length = ((lodRows mb b l).flatMap encMeshLod).length := by
  induction l with
  | nil => intros; rfl
  | cons x xs ih =>
    intro mb a b
    simp only [lodRows, List.flatMap_cons, List.length_append]
    rw [ih _ _ (b + lodVertexSize x + lodIndexSize x)]
    simp [encMeshLod]

theorem length_encModelData (m : AbstractModel) (a b : Nat) :
    (encModelData m.version (modelDataAt m a)).length =
      (encModelData m.version (modelDataAt m b)).length := by
  simp only [encModelData, modelDataAt, List.length_append, length_lodRows_enc m.lods 0 a b]

/-- `dataStart m` is the length of the two header blocks -/
theorem length_headers (m : AbstractModel) :
    (encFileHeader (fileHeader m) ++ encModelData m.version (modelData m)).length = dataStart m := by
  rw [List.length_append, length_encFileHeader, dataStart, runtimeBlockSize, modelData,
    length_encModelData m _ 0]

theorem sections_slice (m : AbstractModel) : IsSlice (encodeMdl m) (dataStart m) (sections m) := by
  refine ⟨encFileHeader (fileHeader m) ++ encModelData m.version (modelData m), [], ?_,
    length_headers m⟩
  simp [encodeMdl]

/-- the geometry half of `SameLayout`: the vertex / index sections of `m` occupy the bytes of `file`
from `dataStart m` on.  Everything the reader does after the two header parses (`readLod` and below,
on the header records of `m`) is determined by this alone — the lemmas of the namespace
`HasSections`; the lemmas of the namespace `SameLayout` are their instances through
`SameLayout.geom`.  Nothing is said here about what the header stage returns on `file`
(`Proofs/MdlRedundant.lean` uses this for files whose header records differ from those of `m` in
fields the reader never looks at). -/
structure HasSections (m : AbstractModel) (file : Bytes) : Prop where
  sec : IsSlice file (dataStart m) (sections m)

/-- `file` has the layout of `m`: the header stage of the reader returns the file header and the
runtime block of `m` (what is left behind the runtime block is not constrained: the reader drops
it), and the geometry sections of `m` occupy the bytes of `file` from `dataStart m` on.  Nothing
else is assumed about `file` — in particular not the bytes of the runtime block that the header
stage ignores, nor what follows the sections, nor the length. -/
structure SameLayout (m : AbstractModel) (file : Bytes) : Prop where
  hdr : ∃ rest rest', parseFileHeader file = .ok (fileHeader m, rest) ∧
    parseModelData (fileHeader m) rest = .ok (modelData m, rest')
  sec : IsSlice file (dataStart m) (sections m)

theorem SameLayout.geom {m : AbstractModel} {file : Bytes} (L : SameLayout m file) :
    HasSections m file := ⟨L.sec⟩

/-- the encoded model has its own layout -/
theorem sameLayout_encode (m : AbstractModel) (h : WF m = true) : SameLayout m (encodeMdl m) :=
  ⟨⟨_, _, parse_fileHeader m, parse_modelData m h⟩, sections_slice m⟩

theorem length_vertexSection (l : ALod) : (vertexSection l).length = lodVertexSize l := by
  unfold vertexSection lodVertexSize
  apply length_flatMap'
  intro y
  exact length_flatMap' _ _ (fun _ => rfl) _

theorem sum_map_const (c : Nat) (l : List α) : (l.map (fun _ => c)).sum = c * l.length := by
  induction l with
  | nil => rfl
  | cons x xs ih => simp only [List.map_cons, List.sum_cons, ih, List.length_cons, Nat.mul_succ]; omega

theorem length_meshIndexBytes (x : AMesh) : (meshIndexBytes x).length = 2 * meshIndexWords x := by
  simp only [meshIndexBytes, List.length_append, zeros, List.length_replicate, meshIndexWords]
  rw [length_flatMap' putU16le (fun _ => 2) (fun _ => rfl), sum_map_const]
  omega

theorem sum_map_two_mul (f : α → Nat) (l : List α) :
    (l.map (fun x => 2 * f x)).sum = 2 * (l.map f).sum := by
  induction l with
  | nil => rfl
  | cons x xs ih => simp [ih]; omega

theorem psum_two_mul (f : α → Nat) (l : List α) (i : Nat) :
    psum (fun x => 2 * f x) l i = 2 * psum f l i := sum_map_two_mul f _

theorem length_indexSection (l : ALod) : (indexSection l).length = lodIndexSize l := by
  unfold indexSection lodIndexSize
  rw [length_flatMap' _ _ length_meshIndexBytes, sum_map_two_mul]

theorem length_lodSections (l : ALod) : (vertexSection l ++ indexSection l).length = lodSize l := by
  rw [List.length_append, length_vertexSection, length_indexSection, lodSize]

/-- the two sections of LOD `i` -/
theorem lod_slice_of {file : Bytes} (m : AbstractModel)
    (hsec : IsSlice file (dataStart m) (sections m)) (i : Nat) (l : ALod)
    (hl : m.lods[i]? = some l) :
    IsSlice file (dataStart m + psum lodSize m.lods i) (vertexSection l ++ indexSection l) :=
  IsSlice.flatMap (fun l => vertexSection l ++ indexSection l) lodSize length_lodSections m.lods
    _ i l hsec hl

theorem lod_slice (m : AbstractModel) (i : Nat) (l : ALod) (hl : m.lods[i]? = some l) :
    IsSlice (encodeMdl m) (dataStart m + psum lodSize m.lods i) (vertexSection l ++ indexSection l) :=
  lod_slice_of m (sections_slice m) i l hl

theorem length_meshStreams (x : AMesh) : (x.streams.flatMap (·.data)).length = streamSize x :=
  length_flatMap' _ _ (fun _ => rfl) _

/-- stream `j` of mesh `d` of LOD `i` -/
theorem stream_slice_of {file : Bytes} (m : AbstractModel)
    (hsec : IsSlice file (dataStart m) (sections m)) (i : Nat) (l : ALod)
    (hl : m.lods[i]? = some l)
    (d : Nat) (mesh : AMesh) (hm : l.meshes[d]? = some mesh) (j : Nat) (s : AStream)
    (hs : mesh.streams[j]? = some s) :
    IsSlice file
      (dataStart m + psum lodSize m.lods i + psum streamSize l.meshes d + psum dataLen mesh.streams j)
      s.data := by
  have h1 := (lod_slice_of m hsec i l hl).left
  have h2 := IsSlice.flatMap (fun (x : AMesh) => x.streams.flatMap (·.data)) streamSize
    length_meshStreams l.meshes _ d mesh h1 hm
  exact IsSlice.flatMap (fun (s : AStream) => s.data) dataLen (fun _ => rfl) mesh.streams _ j s h2 hs

theorem stream_slice (m : AbstractModel) (i : Nat) (l : ALod) (hl : m.lods[i]? = some l)
    (d : Nat) (mesh : AMesh) (hm : l.meshes[d]? = some mesh) (j : Nat) (s : AStream)
    (hs : mesh.streams[j]? = some s) :
    IsSlice (encodeMdl m)
      (dataStart m + psum lodSize m.lods i + psum streamSize l.meshes d + psum dataLen mesh.streams j)
      s.data :=
  stream_slice_of m (sections_slice m) i l hl d mesh hm j s hs

/-- the index bytes of mesh `d` of LOD `i` -/
theorem index_slice_of {file : Bytes} (m : AbstractModel)
    (hsec : IsSlice file (dataStart m) (sections m)) (i : Nat) (l : ALod)
    (hl : m.lods[i]? = some l)
    (d : Nat) (mesh : AMesh) (hm : l.meshes[d]? = some mesh) :
    IsSlice file
      (dataStart m + psum lodSize m.lods i + lodVertexSize l + 2 * psum meshIndexWords l.meshes d)
      (meshIndexBytes mesh) := by
  have h1 := (lod_slice_of m hsec i l hl).right
  rw [length_vertexSection] at h1
  have h2 := IsSlice.flatMap meshIndexBytes (fun x => 2 * meshIndexWords x)
    length_meshIndexBytes l.meshes _ d mesh h1 hm
  rw [psum_two_mul] at h2
  exact h2

theorem index_slice (m : AbstractModel) (i : Nat) (l : ALod) (hl : m.lods[i]? = some l)
    (d : Nat) (mesh : AMesh) (hm : l.meshes[d]? = some mesh) :
    IsSlice (encodeMdl m)
      (dataStart m + psum lodSize m.lods i + lodVertexSize l + 2 * psum meshIndexWords l.meshes d)
      (meshIndexBytes mesh) :=
  index_slice_of m (sections_slice m) i l hl d mesh hm

/-! ### what `WF` provides -/

structure WFacts (m : AbstractModel) : Prop where
  lods3 : m.lods.length = 3
  lc1 : 1 ≤ m.lodCount.toNat
  lc3 : m.lodCount.toNat ≤ 3
  meshOk : ∀ l ∈ m.lods, ∀ x ∈ l.meshes, meshOk x = true
  nMesh : (allMeshes m).length < 65536
  nSub : ((allMeshes m).map (fun (x : AMesh) => x.submeshes.length)).sum < 65536
  fileLen : (encodeMdl m).length < 4294967296

theorem wf_facts (m : AbstractModel) (h : WF m = true) : WFacts m := by
  simp only [WF, Bool.and_eq_true, decide_eq_true_eq, beq_iff_eq, List.all_eq_true, and_assoc,
    blocksOk_iff] at h
  obtain ⟨hl3, hlc1, hlc3, hlods, hf1, hf2, hnames, hnm, hnn, hns, hna, hnb, hnmat, hnsh, hnshm,
    hnshv, hne, hntm, hnts, hbe, hbtm, hbts, hbbb, hbbl, hbbs, hpad, hver, hst, hfile⟩ := h
  exact ⟨hl3, hlc1, hlc3, fun l hl => (hlods l hl).2, hnm, hns, hfile⟩

structure MeshFacts (x : AMesh) : Prop where
  elems : ∀ e ∈ x.decl, supported e.vertexUsage e.vertexType = true ∧
    ∃ s, x.streams[e.stream.toNat]? = some s ∧
      (e.offset.toNat + elemSize e ≤ s.stride.toNat ∨ x.vertexCount = 0)
  s1 : 1 ≤ x.streams.length
  s3 : x.streams.length ≤ 3
  dataLen : ∀ s ∈ x.streams, s.data.length = x.vertexCount.toNat * s.stride.toNat
  nSub : x.submeshes.length < 65536

theorem mesh_facts (x : AMesh) (h : meshOk x = true) : MeshFacts x := by
  simp only [meshOk, Bool.and_eq_true, decide_eq_true_eq, List.all_eq_true, and_assoc,
    beq_iff_eq] at h
  obtain ⟨_, _, hel, hs1, hs3, hd, hn⟩ := h
  refine ⟨fun e he => ?_, hs1, hs3, hd, hn⟩
  have := hel e he
  simp only [elemOk, Bool.and_eq_true, decide_eq_true_eq] at this
  obtain ⟨⟨hsup, hlt⟩, hmatch⟩ := this
  refine ⟨hsup, ?_⟩
  cases hs : x.streams[e.stream.toNat]? with
  | none => rw [hs] at hmatch; simp at hmatch
  | some s =>
    rw [hs] at hmatch
    simp only [Bool.or_eq_true, decide_eq_true_eq, beq_iff_eq] at hmatch
    exact ⟨s, rfl, hmatch⟩

theorem mem_of_getElem? {l : List α} {i : Nat} {x : α} (h : l[i]? = some x) : x ∈ l :=
  List.mem_of_getElem? h

theorem lt_of_getElem? {l : List α} {i : Nat} {x : α} (h : l[i]? = some x) : i < l.length :=
  (List.getElem?_eq_some_iff.mp h).1

theorem wf_mesh (m : AbstractModel) (h : WF m = true) {i : Nat} {l : ALod}
    (hl : m.lods[i]? = some l) {d : Nat} {mesh : AMesh} (hm : l.meshes[d]? = some mesh) :
    MeshFacts mesh :=
  mesh_facts mesh ((wf_facts m h).meshOk l (mem_of_getElem? hl) mesh (mem_of_getElem? hm))

/-! ### the rows of LOD `i` / mesh `d` -/

def lodRowOf (m : AbstractModel) (i : Nat) (l : ALod) : MeshLod :=
  lodRow (psum meshCountOf m.lods i) (dataStart m + psum lodSize m.lods i) l

def meshRowOf (m : AbstractModel) (i : Nat) (l : ALod) (d : Nat) (mesh : AMesh) : Mesh :=
  meshRow (psum streamSize l.meshes d) (psum meshIndexWords l.meshes d)
    (psum lodSubCount m.lods i + psum subLen l.meshes d) mesh

theorem lods_row (m : AbstractModel) (i : Nat) (l : ALod) (hl : m.lods[i]? = some l) :
    (modelData m).lods[i]? = some (lodRowOf m i l) := by
  show (lodRows 0 (dataStart m) m.lods)[i]? = _
  rw [lodRows_getElem? _ i 0 _ l hl, Nat.zero_add]; rfl

theorem meshes_row (m : AbstractModel) (i : Nat) (l : ALod) (hl : m.lods[i]? = some l)
    (d : Nat) (mesh : AMesh) (hm : l.meshes[d]? = some mesh) :
    (modelData m).meshes[psum meshCountOf m.lods i + d]? = some (meshRowOf m i l d mesh) := by
  show (allMeshRows 0 m.lods)[_]? = _
  rw [allMeshRows_getElem? _ i 0 l d mesh hl hm, Nat.zero_add]; rfl

theorem allMeshes_getElem? (m : AbstractModel) (i : Nat) (l : ALod) (hl : m.lods[i]? = some l)
    (d : Nat) (mesh : AMesh) (hm : l.meshes[d]? = some mesh) :
    (allMeshes m)[psum meshCountOf m.lods i + d]? = some mesh := by
  unfold allMeshes
  rw [flatMap_getElem? (fun (l : ALod) => l.meshes) meshCountOf (fun _ => rfl) m.lods i l d hl
    (lt_of_getElem? hm)]
  exact hm

theorem decls_row (m : AbstractModel) (i : Nat) (l : ALod) (hl : m.lods[i]? = some l)
    (d : Nat) (mesh : AMesh) (hm : l.meshes[d]? = some mesh) :
    (modelData m).decls[psum meshCountOf m.lods i + d]? = some mesh.decl := by
  show ((allMeshes m).map (fun (x : AMesh) => x.decl))[_]? = _
  rw [List.getElem?_map, allMeshes_getElem? m i l hl d mesh hm]; rfl

/-! ### checked arithmetic -/

theorem idx3_ok {a : Arr3 α} {i : Nat} {v : α} (h : a.get? i = some v) : idx3 a i = .ok v := by
  simp only [idx3, h]

theorem idx_ok {l : List α} {i : Nat} {v : α} (h : l[i]? = some v) : idx l i = .ok v := by
  simp only [idx, h]

theorem addU32_ok (a b : UInt32) (h : a.toNat + b.toNat < 4294967296) :
    addU32 a b = .ok (a + b) := by simp only [addU32, h, ↓reduceIte]

theorem mulU32_ok (a b : UInt32) (h : a.toNat * b.toNat < 4294967296) :
    mulU32 a b = .ok (a * b) := by simp only [mulU32, h, ↓reduceIte]

theorem addU16_ok (a b : UInt16) (h : a.toNat + b.toNat < 65536) :
    addU16 a b = .ok (a + b) := by simp only [addU16, h, ↓reduceIte]

theorem toNat_add32 (a b : UInt32) (h : a.toNat + b.toNat < 4294967296) :
    (a + b).toNat = a.toNat + b.toNat := by rw [UInt32.toNat_add]; omega

theorem toNat_mul32 (a b : UInt32) (h : a.toNat * b.toNat < 4294967296) :
    (a * b).toNat = a.toNat * b.toNat := by rw [UInt32.toNat_mul]; omega

theorem elementAddress_ok (lod : MeshLod) (row : Mesh) (e : VertexElement) (k : UInt16)
    (off : UInt32) (stride : UInt8)
    (h1 : row.vertexBufferOffsets.get? e.stream.toNat = some off)
    (h2 : row.vertexBufferStrides.get? e.stream.toNat = some stride)
    (hb : lod.vertexDataOffset.toNat + off.toNat + e.offset.toNat + stride.toNat * k.toNat
      < 4294967296) :
    ∃ a, elementAddress lod row e k = .ok a ∧
      a.toNat = lod.vertexDataOffset.toNat + off.toNat + e.offset.toNat + stride.toNat * k.toNat := by
  have hm : stride.toUInt32.toNat * k.toUInt32.toNat = stride.toNat * k.toNat := by
    rw [UInt8.toNat_toUInt32, UInt16.toNat_toUInt32]
  have h3 := toNat_mul32 stride.toUInt32 k.toUInt32 (by rw [hm]; omega)
  have h4 := toNat_add32 lod.vertexDataOffset off (by omega)
  have h5 := toNat_add32 (lod.vertexDataOffset + off) e.offset.toUInt32
    (by rw [h4, UInt8.toNat_toUInt32]; omega)
  rw [UInt8.toNat_toUInt32] at h5
  refine ⟨lod.vertexDataOffset + off + e.offset.toUInt32 + stride.toUInt32 * k.toUInt32, ?_, ?_⟩
  · unfold elementAddress
    rw [idx3_ok h1, R.ok_bind, addU32_ok _ _ (by omega), R.ok_bind,
      addU32_ok _ _ (by rw [h4, UInt8.toNat_toUInt32]; omega), R.ok_bind, idx3_ok h2, R.ok_bind,
      mulU32_ok _ _ (by rw [hm]; omega), R.ok_bind, addU32_ok _ _ (by rw [h5, h4, h3, hm]; omega)]
  · rw [toNat_add32 _ _ (by rw [h5, h4, h3, hm]; omega), h5, h4, h3, hm]

/-! ### 1. element addresses -/

/-- file offset of stream `j` of mesh `d` of LOD `i` -/
def streamAddr (m : AbstractModel) (i : Nat) (l : ALod) (d : Nat) (mesh : AMesh) (j : Nat) : Nat :=
  dataStart m + psum lodSize m.lods i + psum streamSize l.meshes d + psum dataLen mesh.streams j

theorem row_offsets (m : AbstractModel) (i : Nat) (l : ALod) (d : Nat) (mesh : AMesh) (j : Nat)
    (hj : j < mesh.streams.length) (h3 : j < 3) :
    (meshRowOf m i l d mesh).vertexBufferOffsets.get? j =
      some (psum streamSize l.meshes d + psum dataLen mesh.streams j).toUInt32 := by
  show (Arr3.ofList 0 ((streamOffsets _ mesh.streams).map Nat.toUInt32)).get? j = _
  rw [Arr3.get?_ofList _ _ j (by rw [List.length_map, length_streamOffsets]; exact hj) h3,
    List.getElem?_map, streamOffsets_getElem? _ j _ hj]
  rfl

theorem row_strides (m : AbstractModel) (i : Nat) (l : ALod) (d : Nat) (mesh : AMesh) (j : Nat)
    (s : AStream) (hs : mesh.streams[j]? = some s) (h3 : j < 3) :
    (meshRowOf m i l d mesh).vertexBufferStrides.get? j = some s.stride := by
  show (Arr3.ofList 0 (mesh.streams.map (·.stride))).get? j = _
  rw [Arr3.get?_ofList _ _ j (by rw [List.length_map]; exact lt_of_getElem? hs) h3,
    List.getElem?_map, hs]
  rfl

/-- the facts about one stream needed by every address computation (the bound on the address comes
from `WF m`, the slice from the layout of `file`) -/
theorem HasSections.stream_bounds {m : AbstractModel} {file : Bytes} (L : HasSections m file)
    (h : WF m = true) (i : Nat) (l : ALod)
    (hl : m.lods[i]? = some l) (d : Nat) (mesh : AMesh) (hm : l.meshes[d]? = some mesh)
    (j : Nat) (s : AStream) (hs : mesh.streams[j]? = some s) :
    j < 3 ∧ s.data.length = mesh.vertexCount.toNat * s.stride.toNat ∧
      streamAddr m i l d mesh j + s.data.length < 4294967296 ∧
      IsSlice file (streamAddr m i l d mesh j) s.data := by
  have MF := wf_mesh m h hl hm
  have := (stream_slice m i l hl d mesh hm j s hs).length_le
  have := (wf_facts m h).fileLen
  have := lt_of_getElem? hs
  have := MF.s3
  exact ⟨by omega, MF.dataLen s (mem_of_getElem? hs), by unfold streamAddr; omega,
    stream_slice_of m L.sec i l hl d mesh hm j s hs⟩

theorem SameLayout.stream_bounds {m : AbstractModel} {file : Bytes} (L : SameLayout m file)
    (h : WF m = true) (i : Nat) (l : ALod)
    (hl : m.lods[i]? = some l) (d : Nat) (mesh : AMesh) (hm : l.meshes[d]? = some mesh)
    (j : Nat) (s : AStream) (hs : mesh.streams[j]? = some s) :
    j < 3 ∧ s.data.length = mesh.vertexCount.toNat * s.stride.toNat ∧
      streamAddr m i l d mesh j + s.data.length < 4294967296 ∧
      IsSlice file (streamAddr m i l d mesh j) s.data :=
  L.geom.stream_bounds h i l hl d mesh hm j s hs

theorem stream_bounds (m : AbstractModel) (h : WF m = true) (i : Nat) (l : ALod)
    (hl : m.lods[i]? = some l) (d : Nat) (mesh : AMesh) (hm : l.meshes[d]? = some mesh)
    (j : Nat) (s : AStream) (hs : mesh.streams[j]? = some s) :
    j < 3 ∧ s.data.length = mesh.vertexCount.toNat * s.stride.toNat ∧
      streamAddr m i l d mesh j + s.data.length < 4294967296 ∧
      IsSlice (encodeMdl m) (streamAddr m i l d mesh j) s.data :=
  (sameLayout_encode m h).stream_bounds h i l hl d mesh hm j s hs

theorem mul_succ_le {k vc st : Nat} (hk : k < vc) : st * k + st ≤ vc * st := by
  have := Nat.mul_le_mul_right st (show k + 1 ≤ vc from hk)
  rw [Nat.succ_mul, Nat.mul_comm k st] at this
  exact this

theorem HasSections.element_address' {m : AbstractModel} {file : Bytes} (L : HasSections m file)
    (h : WF m = true) (i : Nat) (l : ALod)
    (hl : m.lods[i]? = some l) (d : Nat) (mesh : AMesh) (hm : l.meshes[d]? = some mesh)
    (e : VertexElement) (he : e ∈ mesh.decl) (s : AStream)
    (hs : mesh.streams[e.stream.toNat]? = some s) (k : Nat) (hk : k < mesh.vertexCount.toNat) :
    ∃ a, elementAddress (lodRowOf m i l) (meshRowOf m i l d mesh) e k.toUInt16 = .ok a ∧
      a.toNat = streamAddr m i l d mesh e.stream.toNat + e.offset.toNat + s.stride.toNat * k ∧
      ∀ n, e.offset.toNat + n ≤ s.stride.toNat →
        readAt file.toArray a.toNat n =
          some ((s.data.drop (k * s.stride.toNat + e.offset.toNat)).take n) := by
  obtain ⟨h3, hdl, hlt, hsl⟩ := L.stream_bounds h i l hl d mesh hm _ s hs
  obtain ⟨_, s', hs', hoff⟩ := (wf_mesh m h hl hm).elems e he
  rw [hs] at hs'; cases hs'
  have hoff' : e.offset.toNat ≤ s.stride.toNat := by
    rcases hoff with hoff | hoff
    · omega
    · rw [hoff] at hk; simp at hk
  have hmul := mul_succ_le (st := s.stride.toNat) hk
  have hvc := mesh.vertexCount.toNat_lt
  have hk16 : k.toUInt16.toNat = k := toUInt16_toNat k (by omega)
  have hA : (dataStart m + psum lodSize m.lods i).toUInt32.toNat =
      dataStart m + psum lodSize m.lods i := toUInt32_toNat _ (by unfold streamAddr at hlt; omega)
  have hB : (psum streamSize l.meshes d + psum dataLen mesh.streams e.stream.toNat).toUInt32.toNat =
      psum streamSize l.meshes d + psum dataLen mesh.streams e.stream.toNat :=
    toUInt32_toNat _ (by unfold streamAddr at hlt; omega)
  have hlodv : (lodRowOf m i l).vertexDataOffset = (dataStart m + psum lodSize m.lods i).toUInt32 := rfl
  obtain ⟨a, ha, hav⟩ := elementAddress_ok (lodRowOf m i l) (meshRowOf m i l d mesh) e k.toUInt16 _ _
    (row_offsets m i l d mesh _ (lt_of_getElem? hs) h3) (row_strides m i l d mesh _ s hs h3)
    (by rw [hlodv, hA, hB, hk16]; unfold streamAddr at hlt; omega)
  rw [hlodv, hA, hB, hk16] at hav
  have hav' : a.toNat = streamAddr m i l d mesh e.stream.toNat + (k * s.stride.toNat + e.offset.toNat) := by
    rw [hav, Nat.mul_comm k]; unfold streamAddr; omega
  refine ⟨a, ha, by rw [hav]; unfold streamAddr; omega, fun n hn => ?_⟩
  rw [hav']
  exact hsl.readAt _ n (by rw [hdl, Nat.mul_comm k]; omega)

theorem SameLayout.element_address' {m : AbstractModel} {file : Bytes} (L : SameLayout m file)
    (h : WF m = true) (i : Nat) (l : ALod)
    (hl : m.lods[i]? = some l) (d : Nat) (mesh : AMesh) (hm : l.meshes[d]? = some mesh)
    (e : VertexElement) (he : e ∈ mesh.decl) (s : AStream)
    (hs : mesh.streams[e.stream.toNat]? = some s) (k : Nat) (hk : k < mesh.vertexCount.toNat) :
    ∃ a, elementAddress (lodRowOf m i l) (meshRowOf m i l d mesh) e k.toUInt16 = .ok a ∧
      a.toNat = streamAddr m i l d mesh e.stream.toNat + e.offset.toNat + s.stride.toNat * k ∧
      ∀ n, e.offset.toNat + n ≤ s.stride.toNat →
        readAt file.toArray a.toNat n =
          some ((s.data.drop (k * s.stride.toNat + e.offset.toNat)).take n) :=
  L.geom.element_address' h i l hl d mesh hm e he s hs k hk

theorem element_address' (m : AbstractModel) (h : WF m = true) (i : Nat) (l : ALod)
    (hl : m.lods[i]? = some l) (d : Nat) (mesh : AMesh) (hm : l.meshes[d]? = some mesh)
    (e : VertexElement) (he : e ∈ mesh.decl) (s : AStream)
    (hs : mesh.streams[e.stream.toNat]? = some s) (k : Nat) (hk : k < mesh.vertexCount.toNat) :
    ∃ a, elementAddress (lodRowOf m i l) (meshRowOf m i l d mesh) e k.toUInt16 = .ok a ∧
      a.toNat = streamAddr m i l d mesh e.stream.toNat + e.offset.toNat + s.stride.toNat * k ∧
      ∀ n, e.offset.toNat + n ≤ s.stride.toNat →
        readAt (encodeMdl m).toArray a.toNat n =
          some ((s.data.drop (k * s.stride.toNat + e.offset.toNat)).take n) :=
  (sameLayout_encode m h).element_address' h i l hl d mesh hm e he s hs k hk

/-- **element address**, in every file with the layout of `m` -/
theorem HasSections.element_address {m : AbstractModel} {file : Bytes} (L : HasSections m file)
    (h : WF m = true) (i : Nat) (l : ALod)
    (hl : m.lods[i]? = some l) (d : Nat) (mesh : AMesh) (hm : l.meshes[d]? = some mesh)
    (lod : MeshLod) (hlod : (modelData m).lods[i]? = some lod)
    (row : Mesh) (hrow : (modelData m).meshes[((m.lods.take i).map (·.meshes.length)).sum + d]? = some row)
    (e : VertexElement) (he : e ∈ mesh.decl) (s : AStream)
    (hs : mesh.streams[e.stream.toNat]? = some s) (k : Nat) (hk : k < mesh.vertexCount.toNat) :
    ∃ a, elementAddress lod row e k.toUInt16 = .ok a ∧
      a.toNat = dataStart m + ((m.lods.take i).map (fun l => lodVertexSize l + lodIndexSize l)).sum +
        ((l.meshes.take d).map streamSize).sum +
        ((mesh.streams.take e.stream.toNat).map (·.data.length)).sum +
        e.offset.toNat + s.stride.toNat * k ∧
      ∀ n, e.offset.toNat + n ≤ s.stride.toNat →
        readAt file.toArray a.toNat n =
          some ((s.data.drop (k * s.stride.toNat + e.offset.toNat)).take n) := by
  have h1 := lods_row m i l hl
  rw [hlod] at h1
  have h2 := meshes_row m i l hl d mesh hm
  rw [show psum meshCountOf m.lods i = ((m.lods.take i).map (·.meshes.length)).sum from rfl, hrow] at h2
  cases h1; cases h2
  exact L.element_address' h i l hl d mesh hm e he s hs k hk

theorem SameLayout.element_address {m : AbstractModel} {file : Bytes} (L : SameLayout m file)
    (h : WF m = true) (i : Nat) (l : ALod)
    (hl : m.lods[i]? = some l) (d : Nat) (mesh : AMesh) (hm : l.meshes[d]? = some mesh)
    (lod : MeshLod) (hlod : (modelData m).lods[i]? = some lod)
    (row : Mesh) (hrow : (modelData m).meshes[((m.lods.take i).map (·.meshes.length)).sum + d]? = some row)
    (e : VertexElement) (he : e ∈ mesh.decl) (s : AStream)
    (hs : mesh.streams[e.stream.toNat]? = some s) (k : Nat) (hk : k < mesh.vertexCount.toNat) :
    ∃ a, elementAddress lod row e k.toUInt16 = .ok a ∧
      a.toNat = dataStart m + ((m.lods.take i).map (fun l => lodVertexSize l + lodIndexSize l)).sum +
        ((l.meshes.take d).map streamSize).sum +
        ((mesh.streams.take e.stream.toNat).map (·.data.length)).sum +
        e.offset.toNat + s.stride.toNat * k ∧
      ∀ n, e.offset.toNat + n ≤ s.stride.toNat →
        readAt file.toArray a.toNat n =
          some ((s.data.drop (k * s.stride.toNat + e.offset.toNat)).take n) :=
  L.geom.element_address h i l hl d mesh hm lod hlod row hrow e he s hs k hk

/-- **element address** (exported as `c06_element_address`) -/
theorem element_address (m : AbstractModel) (h : WF m = true) (i : Nat) (l : ALod)
    (hl : m.lods[i]? = some l) (d : Nat) (mesh : AMesh) (hm : l.meshes[d]? = some mesh)
    (lod : MeshLod) (hlod : (modelData m).lods[i]? = some lod)
    (row : Mesh) (hrow : (modelData m).meshes[((m.lods.take i).map (·.meshes.length)).sum + d]? = some row)
    (e : VertexElement) (he : e ∈ mesh.decl) (s : AStream)
    (hs : mesh.streams[e.stream.toNat]? = some s) (k : Nat) (hk : k < mesh.vertexCount.toNat) :
    ∃ a, elementAddress lod row e k.toUInt16 = .ok a ∧
      a.toNat = dataStart m + ((m.lods.take i).map (fun l => lodVertexSize l + lodIndexSize l)).sum +
        ((l.meshes.take d).map streamSize).sum +
        ((mesh.streams.take e.stream.toNat).map (·.data.length)).sum +
        e.offset.toNat + s.stride.toNat * k ∧
      ∀ n, e.offset.toNat + n ≤ s.stride.toNat →
        readAt (encodeMdl m).toArray a.toNat n =
          some ((s.data.drop (k * s.stride.toNat + e.offset.toNat)).take n) :=
  (sameLayout_encode m h).element_address h i l hl d mesh hm lod hlod row hrow e he s hs k hk

/-! ### 2. decoding one element -/

theorem leU32s_eq : leU32s = f32sOf := by
  funext b
  fun_induction leU32s b <;> simp_all [f32sOf]

theorem leU16s_eq : leU16s = u16sOf := by
  funext b
  fun_induction leU16s b <;> simp_all [u16sOf]

theorem readOrPanic_ok {file : Array UInt8} {off n : Nat} {raw : Bytes}
    (h : readAt file off n = some raw) : readOrPanic file off n = .ok raw := by
  simp only [readOrPanic, h]

set_option linter.unusedSimpArgs false in
/-- the reader's switch decodes every supported `(usage, type)` with the standard meaning of the
type, except `(BlendWeights, Byte4)` (recorded finding: decoded with the tangent formula) -/
theorem decodeElement_std (file : Array UInt8) (off : Nat) (e : VertexElement) (raw : Bytes)
    (v : Vertex) (hr : readAt file off (elemSize e) = some raw)
    (hs : supported e.vertexUsage e.vertexType = true)
    (hn : ¬ (e.vertexUsage = VU.blendWeights ∧ e.vertexType = VT.byte4)) :
    decodeElement file off e.vertexUsage e.vertexType v =
      .ok (stdDecode e.vertexUsage e.vertexType raw v) := by
  obtain ⟨st, of, t, u, ui⟩ := e
  simp only at hs hn ⊢
  simp only [elemSize] at hr
  simp only [supported, Bool.or_eq_true, Bool.and_eq_true, beq_iff_eq] at hs
  rcases hs with (((((((⟨rfl, (rfl | rfl) | rfl⟩ | ⟨rfl, (rfl | rfl) | rfl⟩) | ⟨rfl, rfl | rfl⟩) |
    ⟨rfl, rfl | rfl⟩) | ⟨rfl, ((rfl | rfl) | rfl) | rfl⟩) | ⟨rfl, rfl⟩) | ⟨rfl, rfl⟩) | ⟨rfl, rfl⟩)
  all_goals first
    | exact absurd ⟨rfl, rfl⟩ hn
    | (simp (config := {decide := true}) only [typeSize, VU.position, VU.blendWeights,
        VU.blendIndices, VU.normal, VU.uv, VU.tangent, VU.biTangent, VU.color, VT.single3,
        VT.single4, VT.byte4, VT.byteFloat4, VT.half2, VT.half4, VT.ushort4, ↓reduceIte] at hr
       simp (config := {decide := true}) only [decodeElement, stdDecode, VU.position, VU.blendWeights,
        VU.blendIndices, VU.normal, VU.uv, VU.tangent, VU.biTangent, VU.color, VT.single3,
        VT.single4, VT.byte4, VT.byteFloat4, VT.half2, VT.half4, VT.ushort4, ↓reduceIte,
        readSingle4, readSingle3, readHalf4, readHalf2, readByteFloat4, readByte4, readUShort4,
        readTangent, readOrPanic_ok hr, R.ok_bind, R.pure_eq, leU32s_eq, leU16s_eq, snormBytes])

/-! ### 3. vertices -/

/-- the mesh has no `(BlendWeights, Byte4)` element (or no vertices at all) -/
def noWeightsByte4Mesh (mesh : AMesh) : Bool :=
  mesh.vertexCount == 0 ||
    mesh.decl.all fun e => !(e.vertexUsage == VU.blendWeights && e.vertexType == VT.byte4)

/-- every mesh with `vertexCount ≠ 0` has no `(BlendWeights, Byte4)` element — the class outside
which the recorded finding on `decodeElement` does not apply -/
def noWeightsByte4 (m : AbstractModel) : Bool :=
  m.lods.all fun l => l.meshes.all noWeightsByte4Mesh

theorem HasSections.readVertex_eq {m : AbstractModel} {file : Bytes} (L : HasSections m file)
    (h : WF m = true) (i : Nat) (l : ALod)
    (hl : m.lods[i]? = some l) (d : Nat) (mesh : AMesh) (hm : l.meshes[d]? = some mesh)
    (hw : noWeightsByte4Mesh mesh = true) (k : Nat) (hk : k < mesh.vertexCount.toNat) :
    readVertex file.toArray (lodRowOf m i l) (meshRowOf m i l d mesh) mesh.decl k.toUInt16 =
      .ok (vertexOf mesh k) := by
  have hvc : mesh.vertexCount ≠ 0 := by
    intro h0; rw [h0] at hk; simp at hk
  unfold readVertex vertexOf
  apply foldlM_ok_of_forall
  intro e he acc
  obtain ⟨hsup, s, hs, hoff⟩ := (wf_mesh m h hl hm).elems e he
  have hoff' : e.offset.toNat + elemSize e ≤ s.stride.toNat := by
    rcases hoff with hoff | hoff
    · exact hoff
    · exact absurd hoff hvc
  obtain ⟨a, ha, _, hread⟩ := L.element_address' h i l hl d mesh hm e he s hs k hk
  have hn : ¬ (e.vertexUsage = VU.blendWeights ∧ e.vertexType = VT.byte4) := by
    simp only [noWeightsByte4Mesh, Bool.or_eq_true, beq_iff_eq, List.all_eq_true, Bool.not_eq_true',
      Bool.and_eq_false_iff] at hw
    rcases hw with hw | hw
    · exact absurd hw hvc
    · intro ⟨h1, h2⟩
      rcases hw e he with h' | h'
      · rw [h1] at h'; simp at h'
      · rw [h2] at h'; simp at h'
  rw [ha, R.ok_bind, decodeElement_std _ _ e _ acc (hread _ hoff') hsup hn]
  simp only [hs]

theorem SameLayout.readVertex_eq {m : AbstractModel} {file : Bytes} (L : SameLayout m file)
    (h : WF m = true) (i : Nat) (l : ALod)
    (hl : m.lods[i]? = some l) (d : Nat) (mesh : AMesh) (hm : l.meshes[d]? = some mesh)
    (hw : noWeightsByte4Mesh mesh = true) (k : Nat) (hk : k < mesh.vertexCount.toNat) :
    readVertex file.toArray (lodRowOf m i l) (meshRowOf m i l d mesh) mesh.decl k.toUInt16 =
      .ok (vertexOf mesh k) :=
  L.geom.readVertex_eq h i l hl d mesh hm hw k hk

/-- **all vertices of a mesh** -/
theorem HasSections.readVertices_eq {m : AbstractModel} {file : Bytes} (L : HasSections m file)
    (h : WF m = true) (i : Nat) (l : ALod)
    (hl : m.lods[i]? = some l) (d : Nat) (mesh : AMesh) (hm : l.meshes[d]? = some mesh)
    (hw : noWeightsByte4Mesh mesh = true) :
    readVertices file.toArray (lodRowOf m i l) (meshRowOf m i l d mesh) mesh.decl =
      .ok (verticesOf mesh) := by
  unfold readVertices verticesOf
  exact mapM_range_ok _ _ _ (fun k hk => L.readVertex_eq h i l hl d mesh hm hw k hk)

theorem SameLayout.readVertices_eq {m : AbstractModel} {file : Bytes} (L : SameLayout m file)
    (h : WF m = true) (i : Nat) (l : ALod)
    (hl : m.lods[i]? = some l) (d : Nat) (mesh : AMesh) (hm : l.meshes[d]? = some mesh)
    (hw : noWeightsByte4Mesh mesh = true) :
    readVertices file.toArray (lodRowOf m i l) (meshRowOf m i l d mesh) mesh.decl =
      .ok (verticesOf mesh) :=
  L.geom.readVertices_eq h i l hl d mesh hm hw

theorem noWeightsByte4_mesh (m : AbstractModel) (hw : noWeightsByte4 m = true) {i : Nat} {l : ALod}
    (hl : m.lods[i]? = some l) {d : Nat} {mesh : AMesh} (hm : l.meshes[d]? = some mesh) :
    noWeightsByte4Mesh mesh = true := by
  simp only [noWeightsByte4, List.all_eq_true] at hw
  exact hw l (mem_of_getElem? hl) mesh (mem_of_getElem? hm)

/-! ### 4. indices, sub-meshes, raw streams -/

theorem leU16s_put (v : UInt16) (r : Bytes) : leU16s (putU16le v ++ r) = v :: leU16s r := by
  have h := getU16le_put v
  simp only [putU16le, getU16le, Option.some.injEq] at h
  simp only [putU16le, leU16s, List.cons_append, List.nil_append, h]

theorem leU16s_flatMap_put (l : List UInt16) : leU16s (l.flatMap putU16le) = l := by
  induction l with
  | nil => rfl
  | cons x xs ih =>
    rw [List.flatMap_cons, leU16s_put, ih]

theorem length_flatMap_putU16le (l : List UInt16) : (l.flatMap putU16le).length = 2 * l.length := by
  rw [length_flatMap' putU16le (fun _ => 2) (fun _ => rfl), sum_map_const]

theorem lods_rows_length (m : AbstractModel) (h : WF m = true) : (modelData m).lods.length = 3 := by
  show (lodRows 0 (dataStart m) m.lods).length = 3
  rw [length_lodRows, (wf_facts m h).lods3]

theorem header_indexOffset (m : AbstractModel) (h : WF m = true) (i : Nat) (l : ALod)
    (hl : m.lods[i]? = some l) :
    (fileHeader m).indexOffsets.get? i =
      some (dataStart m + psum lodSize m.lods i + lodVertexSize l).toUInt32 := by
  have hi : i < 3 := by have := lt_of_getElem? hl; have := (wf_facts m h).lods3; omega
  show (Arr3.ofList 0 ((modelData m).lods.map (·.indexDataOffset))).get? i = _
  rw [Arr3.get?_ofList _ _ i (by rw [List.length_map, lods_rows_length m h]; exact hi) hi,
    List.getElem?_map, lods_row m i l hl]
  rfl

/-- **indices**: the index address of the reader points at the mesh's indices -/
theorem HasSections.index_read {m : AbstractModel} {file : Bytes} (L : HasSections m file)
    (h : WF m = true) (i : Nat) (l : ALod)
    (hl : m.lods[i]? = some l) (d : Nat) (mesh : AMesh) (hm : l.meshes[d]? = some mesh) :
    ∃ ioff, (fileHeader m).indexOffsets.get? i = some ioff ∧
      ioff.toNat + 2 * (meshRowOf m i l d mesh).startIndex.toNat < 4294967296 ∧
      (meshRowOf m i l d mesh).indexCount.toNat = mesh.indices.length ∧
      readAt file.toArray (ioff.toNat + 2 * (meshRowOf m i l d mesh).startIndex.toNat)
        (2 * mesh.indices.length) = some (mesh.indices.flatMap putU16le) := by
  have hsl := index_slice_of m L.sec i l hl d mesh hm
  have hlen := (index_slice m i l hl d mesh hm).length_le
  have hfl := (wf_facts m h).fileLen
  rw [length_meshIndexBytes, meshIndexWords] at hlen
  have hs : (meshRowOf m i l d mesh).startIndex.toNat = psum meshIndexWords l.meshes d :=
    toUInt32_toNat _ (by omega)
  have hc : (meshRowOf m i l d mesh).indexCount.toNat = mesh.indices.length :=
    toUInt32_toNat _ (by omega)
  have ho : (dataStart m + psum lodSize m.lods i + lodVertexSize l).toUInt32.toNat =
      dataStart m + psum lodSize m.lods i + lodVertexSize l := toUInt32_toNat _ (by omega)
  refine ⟨_, header_indexOffset m h i l hl, by rw [hs, ho]; omega, hc, ?_⟩
  rw [hs, ho]
  have := hsl.left.readAt 0 (2 * mesh.indices.length) (by rw [length_flatMap_putU16le]; omega)
  rw [Nat.add_zero, List.drop_zero, ← length_flatMap_putU16le, List.take_length] at this
  rw [← length_flatMap_putU16le]
  exact this

theorem SameLayout.index_read {m : AbstractModel} {file : Bytes} (L : SameLayout m file)
    (h : WF m = true) (i : Nat) (l : ALod)
    (hl : m.lods[i]? = some l) (d : Nat) (mesh : AMesh) (hm : l.meshes[d]? = some mesh) :
    ∃ ioff, (fileHeader m).indexOffsets.get? i = some ioff ∧
      ioff.toNat + 2 * (meshRowOf m i l d mesh).startIndex.toNat < 4294967296 ∧
      (meshRowOf m i l d mesh).indexCount.toNat = mesh.indices.length ∧
      readAt file.toArray (ioff.toNat + 2 * (meshRowOf m i l d mesh).startIndex.toNat)
        (2 * mesh.indices.length) = some (mesh.indices.flatMap putU16le) :=
  L.geom.index_read h i l hl d mesh hm

theorem index_read (m : AbstractModel) (h : WF m = true) (i : Nat) (l : ALod)
    (hl : m.lods[i]? = some l) (d : Nat) (mesh : AMesh) (hm : l.meshes[d]? = some mesh) :
    ∃ ioff, (fileHeader m).indexOffsets.get? i = some ioff ∧
      ioff.toNat + 2 * (meshRowOf m i l d mesh).startIndex.toNat < 4294967296 ∧
      (meshRowOf m i l d mesh).indexCount.toNat = mesh.indices.length ∧
      readAt (encodeMdl m).toArray (ioff.toNat + 2 * (meshRowOf m i l d mesh).startIndex.toNat)
        (2 * mesh.indices.length) = some (mesh.indices.flatMap putU16le) :=
  (sameLayout_encode m h).index_read h i l hl d mesh hm

theorem zip_range_map [Inhabited α] (l : List α) (F : Nat × α → β) :
    (List.zip (List.range l.length) l).map F =
      (List.range l.length).map (fun t => F (t, l[t]?.getD default)) := by
  apply List.ext_getElem
  · simp
  · intro n h1 h2
    simp only [List.length_map, List.length_range] at h2
    simp [List.getElem?_eq_getElem h2]

/-- first sub-mesh index of mesh `d` of LOD `i` -/
def subBase (m : AbstractModel) (i : Nat) (l : ALod) (d : Nat) : Nat :=
  psum lodSubCount m.lods i + psum subLen l.meshes d

theorem length_lodSubs (l : ALod) :
    (l.meshes.flatMap (fun (x : AMesh) => x.submeshes)).length = lodSubCount l :=
  length_flatMap' _ subLen (fun _ => rfl) _

theorem subBase_le (m : AbstractModel) (i : Nat) (l : ALod) (hl : m.lods[i]? = some l) (d : Nat)
    (mesh : AMesh) (hm : l.meshes[d]? = some mesh) :
    subBase m i l d + mesh.submeshes.length ≤
      ((allMeshes m).map (fun (x : AMesh) => x.submeshes.length)).sum := by
  have h1 := psum_add_le lodSubCount m.lods i l hl
  have h2 := psum_add_le subLen l.meshes d mesh hm
  have h3 : ((allMeshes m).map (fun (x : AMesh) => x.submeshes.length)).sum =
      (m.lods.map lodSubCount).sum := sum_map_flatMap _ _ _
  rw [h3]; unfold subBase
  change _ + subLen mesh ≤ _
  have : (l.meshes.map subLen).sum = lodSubCount l := rfl
  omega

theorem submeshes_getElem? (m : AbstractModel) (i : Nat) (l : ALod) (hl : m.lods[i]? = some l)
    (d : Nat) (mesh : AMesh) (hm : l.meshes[d]? = some mesh) (t : Nat)
    (ht : t < mesh.submeshes.length) :
    (modelData m).submeshes[subBase m i l d + t]? = mesh.submeshes[t]? := by
  show ((allMeshes m).flatMap (fun (x : AMesh) => x.submeshes))[_]? = _
  have h2 : psum subLen l.meshes d + mesh.submeshes.length ≤ lodSubCount l :=
    psum_add_le subLen l.meshes d mesh hm
  unfold allMeshes subBase
  rw [List.flatMap_assoc, Nat.add_assoc,
    flatMap_getElem? _ lodSubCount length_lodSubs m.lods i l _ hl (by omega),
    flatMap_getElem? _ subLen (fun _ => rfl) l.meshes d mesh t hm ht]

/-- **sub-meshes** -/
theorem readSubmeshes_eq (m : AbstractModel) (h : WF m = true) (i : Nat) (l : ALod)
    (hl : m.lods[i]? = some l) (d : Nat) (mesh : AMesh) (hm : l.meshes[d]? = some mesh) :
    readSubmeshes (modelData m) (meshRowOf m i l d mesh) =
      .ok ((List.zip (List.range mesh.submeshes.length) mesh.submeshes).map
        fun (t, s) => ⟨subBase m i l d + t, s.indexCount, s.indexOffset⟩) := by
  have hle := subBase_le m i l hl d mesh hm
  have hns := (wf_facts m h).nSub
  have hc : (meshRowOf m i l d mesh).submeshCount.toNat = mesh.submeshes.length :=
    toUInt16_toNat _ (by omega)
  have hi : (meshRowOf m i l d mesh).submeshIndex.toNat = subBase m i l d :=
    toUInt16_toNat _ (by unfold subBase at hle; omega)
  unfold readSubmeshes
  rw [hc, hi, zip_range_map]
  apply mapM_range_ok
  intro t ht
  rw [idx_ok (v := mesh.submeshes[t]?.getD default)
    (by rw [submeshes_getElem? m i l hl d mesh hm t ht, List.getElem?_eq_getElem ht]; rfl)]
  rfl

theorem flatten_chunks (l : List α) (k : Nat) : ∀ n,
    ((List.range n).map (fun z => (l.drop (z * k)).take k)).flatten = l.take (n * k) := by
  intro n
  induction n with
  | zero => simp
  | succ n ih =>
    rw [List.range_succ, List.map_append, List.flatten_append, ih, Nat.succ_mul, List.take_add]
    simp

theorem foldl_snoc2 (D : Nat → β) (T : Nat → γ) (n : Nat) (a : List β) (b : List γ) :
    (List.range n).foldl (fun (acc : List β × List γ) j => (acc.1 ++ [D j], acc.2 ++ [T j])) (a, b) =
      (a ++ (List.range n).map D, b ++ (List.range n).map T) := by
  induction n with
  | zero => simp
  | succ n ih => rw [List.range_succ, List.foldl_append, ih]; simp

theorem range_map_getD [Inhabited α] (l : List α) (f : α → β) :
    (List.range l.length).map (fun j => f (l[j]?.getD default)) = l.map f := by
  apply List.ext_getElem
  · simp
  · intro n h1 h2
    simp only [List.length_map] at h2
    simp [List.getElem?_eq_getElem h2]

/-- one `stride`-sized chunk of a stream, as read by `readStreams` -/
theorem HasSections.stream_chunk {m : AbstractModel} {file : Bytes} (L : HasSections m file)
    (h : WF m = true) (i : Nat) (l : ALod)
    (hl : m.lods[i]? = some l) (d : Nat) (mesh : AMesh) (hm : l.meshes[d]? = some mesh)
    (j : Nat) (s : AStream) (hs : mesh.streams[j]? = some s) (z : Nat)
    (hz : z < mesh.vertexCount.toNat) :
    (do
      let off ← idx3 (meshRowOf m i l d mesh).vertexBufferOffsets j
      let a ← addU32 (lodRowOf m i l).vertexDataOffset off
      let b ← mulU32 z.toUInt32 s.stride.toUInt32
      let c ← addU32 a b
      match readAt file.toArray c.toNat s.stride.toNat with
      | some d => pure d
      | none => .error .fail : R Bytes) =
    .ok ((s.data.drop (z * s.stride.toNat)).take s.stride.toNat) := by
  obtain ⟨h3, hdl, hlt, hsl⟩ := L.stream_bounds h i l hl d mesh hm j s hs
  have hmul := mul_succ_le (st := s.stride.toNat) hz
  have hvc := mesh.vertexCount.toNat_lt
  have hz32 : z.toUInt32.toNat = z := toUInt32_toNat z (by omega)
  have hA : (dataStart m + psum lodSize m.lods i).toUInt32.toNat =
      dataStart m + psum lodSize m.lods i := toUInt32_toNat _ (by unfold streamAddr at hlt; omega)
  have hB : (psum streamSize l.meshes d + psum dataLen mesh.streams j).toUInt32.toNat =
      psum streamSize l.meshes d + psum dataLen mesh.streams j :=
    toUInt32_toNat _ (by unfold streamAddr at hlt; omega)
  have hlodv : (lodRowOf m i l).vertexDataOffset = (dataStart m + psum lodSize m.lods i).toUInt32 := rfl
  have hzs : z.toUInt32.toNat * s.stride.toUInt32.toNat = s.stride.toNat * z := by
    rw [hz32, UInt8.toNat_toUInt32, Nat.mul_comm]
  have h1 := toNat_add32 (dataStart m + psum lodSize m.lods i).toUInt32
    (psum streamSize l.meshes d + psum dataLen mesh.streams j).toUInt32 (by rw [hA, hB]; unfold streamAddr at hlt; omega)
  have h2 := toNat_mul32 z.toUInt32 s.stride.toUInt32 (by rw [hzs]; omega)
  rw [idx3_ok (row_offsets m i l d mesh j (lt_of_getElem? hs) h3), R.ok_bind, hlodv,
    addU32_ok _ _ (by rw [hA, hB]; unfold streamAddr at hlt; omega), R.ok_bind,
    mulU32_ok _ _ (by rw [hzs]; omega), R.ok_bind,
    addU32_ok _ _ (by rw [h1, h2, hA, hB, hzs]; unfold streamAddr at hlt; omega), R.ok_bind,
    toNat_add32 _ _ (by rw [h1, h2, hA, hB, hzs]; unfold streamAddr at hlt; omega), h1, h2, hA, hB, hzs,
    show dataStart m + psum lodSize m.lods i + (psum streamSize l.meshes d + psum dataLen mesh.streams j) +
      s.stride.toNat * z = streamAddr m i l d mesh j + z * s.stride.toNat by
        unfold streamAddr; rw [Nat.mul_comm z]; omega,
    hsl.readAt _ _ (by rw [hdl, Nat.mul_comm z]; omega)]
  rfl

theorem SameLayout.stream_chunk {m : AbstractModel} {file : Bytes} (L : SameLayout m file)
    (h : WF m = true) (i : Nat) (l : ALod)
    (hl : m.lods[i]? = some l) (d : Nat) (mesh : AMesh) (hm : l.meshes[d]? = some mesh)
    (j : Nat) (s : AStream) (hs : mesh.streams[j]? = some s) (z : Nat)
    (hz : z < mesh.vertexCount.toNat) :
    (do
      let off ← idx3 (meshRowOf m i l d mesh).vertexBufferOffsets j
      let a ← addU32 (lodRowOf m i l).vertexDataOffset off
      let b ← mulU32 z.toUInt32 s.stride.toUInt32
      let c ← addU32 a b
      match readAt file.toArray c.toNat s.stride.toNat with
      | some d => pure d
      | none => .error .fail : R Bytes) =
    .ok ((s.data.drop (z * s.stride.toNat)).take s.stride.toNat) :=
  L.geom.stream_chunk h i l hl d mesh hm j s hs z hz

/-- **raw streams** -/
theorem HasSections.readStreams_eq {m : AbstractModel} {file : Bytes} (L : HasSections m file)
    (h : WF m = true) (i : Nat) (l : ALod)
    (hl : m.lods[i]? = some l) (d : Nat) (mesh : AMesh) (hm : l.meshes[d]? = some mesh) :
    readStreams file.toArray (lodRowOf m i l) (meshRowOf m i l d mesh) =
      .ok (mesh.streams.map (·.data), mesh.streams.map (·.stride.toNat)) := by
  have MF := wf_mesh m h hl hm
  have hn : (meshRowOf m i l d mesh).vertexStreamCount.toNat = mesh.streams.length :=
    toUInt8_toNat _ (by have := MF.s3; omega)
  have hvc : (meshRowOf m i l d mesh).vertexCount = mesh.vertexCount := rfl
  unfold readStreams
  rw [hn, hvc]
  rw [foldlM_ok_of_forall _
    (fun (acc : List Bytes × List Nat) j =>
      (acc.1 ++ [(mesh.streams[j]?.getD default).data],
        acc.2 ++ [(mesh.streams[j]?.getD default).stride.toNat]))]
  · rw [foldl_snoc2, List.nil_append, List.nil_append, range_map_getD mesh.streams (·.data),
      range_map_getD mesh.streams (·.stride.toNat)]
  · intro j hj acc
    have hj' : j < mesh.streams.length := by simpa using hj
    have hs : mesh.streams[j]? = some mesh.streams[j] := List.getElem?_eq_getElem hj'
    generalize mesh.streams[j] = s at hs
    obtain ⟨h3, hdl, _, _⟩ := L.stream_bounds h i l hl d mesh hm j s hs
    rw [idx3_ok (row_strides m i l d mesh j s hs h3), R.ok_bind,
      mapM_range_ok (g := fun z => (s.data.drop (z * s.stride.toNat)).take s.stride.toNat)]
    · rw [R.ok_bind, flatten_chunks, ← hdl, List.take_length, hs]
      rfl
    · intro z hz
      exact L.stream_chunk h i l hl d mesh hm j s hs z hz

theorem SameLayout.readStreams_eq {m : AbstractModel} {file : Bytes} (L : SameLayout m file)
    (h : WF m = true) (i : Nat) (l : ALod)
    (hl : m.lods[i]? = some l) (d : Nat) (mesh : AMesh) (hm : l.meshes[d]? = some mesh) :
    readStreams file.toArray (lodRowOf m i l) (meshRowOf m i l d mesh) =
      .ok (mesh.streams.map (·.data), mesh.streams.map (·.stride.toNat)) :=
  L.geom.readStreams_eq h i l hl d mesh hm

/-! ### 5. parts, LODs, the whole file -/

/-- the part the specification reports for a mesh with mesh index `mb`, first sub-mesh `sb` -/
def partOf (mb sb : Nat) (mesh : AMesh) (sh : List Shape) : Part :=
  { meshIndex := mb.toUInt16
    vertices := verticesOf mesh
    vertexStreams := mesh.streams.map (·.data)
    vertexStreamStrides := mesh.streams.map (·.stride.toNat)
    indices := mesh.indices
    materialIndex := mesh.materialIndex
    submeshes := (List.zip (List.range mesh.submeshes.length) mesh.submeshes).map
      fun (i, s) => ⟨sb + i, s.indexCount, s.indexOffset⟩
    shapes := sh }

theorem HasSections.readPart_eq {m : AbstractModel} {file : Bytes} (L : HasSections m file)
    (h : WF m = true) (hw : noWeightsByte4 m = true) (i : Nat)
    (l : ALod) (hl : m.lods[i]? = some l) (d : Nat) (mesh : AMesh) (hm : l.meshes[d]? = some mesh)
    (sh : List Shape)
    (hsh : readShapes (modelData m) i (meshRowOf m i l d mesh) (verticesOf mesh) mesh.indices = .ok sh) :
    readPart file.toArray (fileHeader m) (modelData m) i (lodRowOf m i l)
        (psum meshCountOf m.lods i + d) =
      .ok (partOf (psum meshCountOf m.lods i + d) (subBase m i l d) mesh sh) := by
  obtain ⟨ioff, hio, hib, hic, hread⟩ := L.index_read h i l hl d mesh hm
  have h2 : (2 : UInt32).toNat = 2 := rfl
  have hmul := toNat_mul32 (meshRowOf m i l d mesh).startIndex 2 (by rw [h2]; omega)
  rw [h2] at hmul
  have hadd := toNat_add32 ioff ((meshRowOf m i l d mesh).startIndex * 2) (by rw [hmul]; omega)
  unfold readPart
  rw [idx_ok (decls_row m i l hl d mesh hm), R.ok_bind, idx_ok (meshes_row m i l hl d mesh hm),
    R.ok_bind, L.readVertices_eq h i l hl d mesh hm (noWeightsByte4_mesh m hw hl hm), R.ok_bind,
    idx3_ok hio, R.ok_bind, hic, Nat.mul_comm _ 2, hread]
  dsimp only
  rw [R.pure_eq, R.ok_bind, leU16s_flatMap_put, readSubmeshes_eq m h i l hl d mesh hm, R.ok_bind, hsh,
    R.ok_bind, L.readStreams_eq h i l hl d mesh hm, R.ok_bind]
  rfl

theorem SameLayout.readPart_eq {m : AbstractModel} {file : Bytes} (L : SameLayout m file)
    (h : WF m = true) (hw : noWeightsByte4 m = true) (i : Nat)
    (l : ALod) (hl : m.lods[i]? = some l) (d : Nat) (mesh : AMesh) (hm : l.meshes[d]? = some mesh)
    (sh : List Shape)
    (hsh : readShapes (modelData m) i (meshRowOf m i l d mesh) (verticesOf mesh) mesh.indices = .ok sh) :
    readPart file.toArray (fileHeader m) (modelData m) i (lodRowOf m i l)
        (psum meshCountOf m.lods i + d) =
      .ok (partOf (psum meshCountOf m.lods i + d) (subBase m i l d) mesh sh) :=
  L.geom.readPart_eq h hw i l hl d mesh hm sh hsh

theorem parts_suffix (m : AbstractModel) (lodIx : Nat) (F : Nat → R Part) (suf : List AMesh) :
    ∀ (mb ib sb : Nat) (ps : List Part),
    (∀ t mesh sh, suf[t]? = some mesh →
        shapesOf m lodIx (ib + psum meshIndexWords suf t) mesh = some sh →
        F (mb + t) = .ok (partOf (mb + t) (sb + psum subLen suf t) mesh sh)) →
    partsOf m lodIx mb ib sb suf = some ps → (List.range' mb suf.length).mapM F = .ok ps := by
  induction suf with
  | nil =>
    intro mb ib sb ps _ hp
    simp only [partsOf, Option.some.injEq] at hp
    subst hp; rfl
  | cons mesh rest ih =>
    intro mb ib sb ps hF hp
    cases hsh : shapesOf m lodIx ib mesh with
    | none => simp [partsOf, hsh] at hp
    | some sh =>
      cases htl : partsOf m lodIx (mb + 1) (ib + meshIndexWords mesh) (sb + mesh.submeshes.length) rest with
      | none => simp [partsOf, hsh, htl] at hp
      | some tail =>
        simp only [partsOf, hsh, htl, Option.bind_eq_bind, Option.bind_some, Option.some.injEq] at hp
        subst hp
        have h0 := hF 0 mesh sh rfl (by simpa using hsh)
        simp only [Nat.add_zero, psum_zero] at h0
        rw [List.length_cons, List.range'_succ, List.mapM_cons, h0, R.ok_bind,
          ih (mb + 1) (ib + meshIndexWords mesh) (sb + mesh.submeshes.length) tail ?_ htl]
        · rfl
        · intro t mesh' sh' ht hs'
          have := hF (t + 1) mesh' sh' (by simpa using ht)
            (by rw [psum_cons_succ, ← Nat.add_assoc]; exact hs')
          rw [psum_cons_succ, ← Nat.add_assoc, ← Nat.add_assoc] at this
          rw [Nat.add_assoc mb 1 t, Nat.add_comm 1 t]
          exact this

theorem meshBase_le (m : AbstractModel) (i : Nat) (l : ALod) (hl : m.lods[i]? = some l) :
    psum meshCountOf m.lods i + l.meshes.length ≤ (allMeshes m).length := by
  have := psum_add_le meshCountOf m.lods i l hl
  rw [show (allMeshes m).length = (m.lods.map meshCountOf).sum from
    length_flatMap' _ meshCountOf (fun _ => rfl) _]
  exact this

theorem HasSections.readLod_eq {m : AbstractModel} {file : Bytes} (L : HasSections m file)
    (h : WF m = true) (hw : noWeightsByte4 m = true) (i : Nat)
    (l : ALod) (hl : m.lods[i]? = some l)
    (HS : ∀ d mesh sh, l.meshes[d]? = some mesh →
      shapesOf m i (psum meshIndexWords l.meshes d) mesh = some sh →
      readShapes (modelData m) i (meshRowOf m i l d mesh) (verticesOf mesh) mesh.indices = .ok sh)
    (ps : List Part)
    (hp : partsOf m i (psum meshCountOf m.lods i) 0 (psum lodSubCount m.lods i) l.meshes = some ps) :
    readLod file.toArray (fileHeader m) (modelData m) i = .ok ps := by
  have hle := meshBase_le m i l hl
  have hnm := (wf_facts m h).nMesh
  have hmi : (lodRowOf m i l).meshIndex.toNat = psum meshCountOf m.lods i :=
    toUInt16_toNat _ (by omega)
  have hmc : (lodRowOf m i l).meshCount.toNat = l.meshes.length := toUInt16_toNat _ (by omega)
  have hsum : ((lodRowOf m i l).meshIndex + (lodRowOf m i l).meshCount).toNat =
      psum meshCountOf m.lods i + l.meshes.length := by
    rw [UInt16.toNat_add, hmi, hmc]; omega
  unfold readLod
  rw [idx_ok (lods_row m i l hl), R.ok_bind, addU16_ok _ _ (by rw [hmi, hmc]; omega), R.ok_bind,
    hsum, hmi, show psum meshCountOf m.lods i + l.meshes.length - psum meshCountOf m.lods i =
      l.meshes.length by omega, mapM_range_shift]
  apply parts_suffix m i _ l.meshes _ 0 (psum lodSubCount m.lods i) ps ?_ hp
  intro t mesh sh ht hsh
  rw [Nat.zero_add] at hsh
  exact L.readPart_eq h hw i l hl t mesh ht sh (HS t mesh sh ht hsh)

theorem SameLayout.readLod_eq {m : AbstractModel} {file : Bytes} (L : SameLayout m file)
    (h : WF m = true) (hw : noWeightsByte4 m = true) (i : Nat)
    (l : ALod) (hl : m.lods[i]? = some l)
    (HS : ∀ d mesh sh, l.meshes[d]? = some mesh →
      shapesOf m i (psum meshIndexWords l.meshes d) mesh = some sh →
      readShapes (modelData m) i (meshRowOf m i l d mesh) (verticesOf mesh) mesh.indices = .ok sh)
    (ps : List Part)
    (hp : partsOf m i (psum meshCountOf m.lods i) 0 (psum lodSubCount m.lods i) l.meshes = some ps) :
    readLod file.toArray (fileHeader m) (modelData m) i = .ok ps :=
  L.geom.readLod_eq h hw i l hl HS ps hp

theorem lods_suffix (m : AbstractModel) (F : Nat → R (List Part)) (suf : List ALod) :
    ∀ (n j mb sb : Nat) (ls : List (List Part)), j + n = m.lodCount.toNat → n ≤ suf.length →
    (∀ t l ps, suf[t]? = some l → t < n →
        partsOf m (j + t) (mb + psum meshCountOf suf t) 0 (sb + psum lodSubCount suf t) l.meshes =
          some ps →
        F (j + t) = .ok ps) →
    lodsView m n mb sb suf = some ls → (List.range' j n).mapM F = .ok ls := by
  induction suf with
  | nil =>
    intro n j mb sb ls _ hn _ hv
    have : n = 0 := by simpa using hn
    subst this
    simp only [lodsView, Option.some.injEq] at hv
    subst hv; rfl
  | cons l rest ih =>
    intro n j mb sb ls hj hn hF hv
    cases n with
    | zero =>
      simp only [lodsView, Option.some.injEq] at hv
      subst hv; rfl
    | succ n =>
      have hjx : m.lodCount.toNat - (n + 1) = j := by omega
      cases hp : partsOf m j mb 0 sb l.meshes with
      | none => simp [lodsView, hjx, hp] at hv
      | some ps =>
        cases htl : lodsView m n (mb + l.meshes.length)
            (sb + (l.meshes.map (fun (x : AMesh) => x.submeshes.length)).sum) rest with
        | none => simp [lodsView, hjx, hp, htl] at hv
        | some tail =>
          simp only [lodsView, hjx, hp, htl, Option.bind_eq_bind, Option.bind_some,
            Option.some.injEq] at hv
          subst hv
          have h0 := hF 0 l ps rfl (by omega) (by simpa using hp)
          rw [Nat.add_zero] at h0
          rw [List.range'_succ, List.mapM_cons, h0, R.ok_bind,
            ih n (j + 1) (mb + l.meshes.length)
              (sb + (l.meshes.map (fun (x : AMesh) => x.submeshes.length)).sum) tail (by omega)
              (by simpa using hn) ?_ htl]
          · rfl
          · intro t l' ps' ht htn hp'
            have e1 : j + (t + 1) = j + 1 + t := by omega
            have e2 : mb + psum meshCountOf (l :: rest) (t + 1) =
                mb + l.meshes.length + psum meshCountOf rest t := by
              rw [psum_cons_succ, Nat.add_assoc]; rfl
            have e3 : sb + psum lodSubCount (l :: rest) (t + 1) =
                sb + (l.meshes.map (fun (x : AMesh) => x.submeshes.length)).sum +
                  psum lodSubCount rest t := by
              rw [psum_cons_succ, Nat.add_assoc]; rfl
            have := hF (t + 1) l' ps' (by simpa using ht) (by omega)
              (by rw [e1, e2, e3]; exact hp')
            rw [← e1]
            exact this

/-- all LODs, relative to the agreement of `readShapes` with `shapesOf` -/
theorem HasSections.readLods_core {m : AbstractModel} {file : Bytes} (L : HasSections m file)
    (h : WF m = true) (hw : noWeightsByte4 m = true)
    (HS : ∀ i l d mesh sh, m.lods[i]? = some l → l.meshes[d]? = some mesh →
      shapesOf m i (psum meshIndexWords l.meshes d) mesh = some sh →
      readShapes (modelData m) i (meshRowOf m i l d mesh) (verticesOf mesh) mesh.indices = .ok sh)
    (ls : List (List Part)) (hlv : lodsView m m.lodCount.toNat 0 0 m.lods = some ls) :
    (List.range (modelData m).header.lodCount.toNat).mapM
        (readLod file.toArray (fileHeader m) (modelData m)) = .ok ls := by
  have W := wf_facts m h
  show (List.range m.lodCount.toNat).mapM _ = _
  rw [List.range_eq_range']
  apply lods_suffix m _ m.lods m.lodCount.toNat 0 0 0 ls (by omega) (by have := W.lc3; have := W.lods3; omega) ?_ hlv
  intro t l ps ht _ hp
  rw [Nat.zero_add] at hp ⊢
  rw [Nat.zero_add, Nat.zero_add] at hp
  exact L.readLod_eq h hw t l ht (fun d mesh sh hm hs => HS t l d mesh sh ht hm hs) ps hp

/-- the assembled theorem, relative to the agreement of `readShapes` with `shapesOf` -/
theorem SameLayout.parse_core {m : AbstractModel} {file : Bytes} (L : SameLayout m file)
    (h : WF m = true) (hw : noWeightsByte4 m = true)
    (HS : ∀ i l d mesh sh, m.lods[i]? = some l → l.meshes[d]? = some mesh →
      shapesOf m i (psum meshIndexWords l.meshes d) mesh = some sh →
      readShapes (modelData m) i (meshRowOf m i l d mesh) (verticesOf mesh) mesh.indices = .ok sh)
    (v : View) (hv : view m = some v) :
    fromExisting file =
      .ok { fileHeader := fileHeader m, modelData := modelData m, lods := v.lods,
            affectedBoneNames := v.affectedBoneNames, materialNames := v.materialNames } := by
  cases hlv : lodsView m m.lodCount.toNat 0 0 m.lods with
  | none => simp [view, hlv] at hv
  | some ls =>
    simp only [view, hlv, Option.bind_eq_bind, Option.bind_some, Option.some.injEq] at hv
    subst hv
    have hl := L.geom.readLods_core h hw HS ls hlv
    obtain ⟨rest, rest', hfh, hmd⟩ := L.hdr
    unfold fromExisting
    rw [hfh, R.ok_bind]
    dsimp only
    rw [hmd, R.ok_bind]
    dsimp only
    rw [bone_names m h, R.ok_bind, material_names m h, R.ok_bind, hl, R.ok_bind]
    rfl

theorem parse_encode_core (m : AbstractModel) (h : WF m = true) (hw : noWeightsByte4 m = true)
    (HS : ∀ i l d mesh sh, m.lods[i]? = some l → l.meshes[d]? = some mesh →
      shapesOf m i (psum meshIndexWords l.meshes d) mesh = some sh →
      readShapes (modelData m) i (meshRowOf m i l d mesh) (verticesOf mesh) mesh.indices = .ok sh)
    (v : View) (hv : view m = some v) :
    fromExisting (encodeMdl m) =
      .ok { fileHeader := fileHeader m, modelData := modelData m, lods := v.lods,
            affectedBoneNames := v.affectedBoneNames, materialNames := v.materialNames } :=
  (sameLayout_encode m h).parse_core h hw HS v hv

theorem shapeRows_nil (m : AbstractModel) (hs : m.shapes = []) : (modelData m).shapes = [] := by
  show shapeRows m = []
  simp [shapeRows, hs]

theorem partsOf_noshapes (m : AbstractModel) (hs : m.shapes = []) (lodIx : Nat) (suf : List AMesh) :
    ∀ mb ib sb, ∃ ps, partsOf m lodIx mb ib sb suf = some ps := by
  induction suf with
  | nil => intro _ _ _; exact ⟨[], rfl⟩
  | cons x xs ih =>
    intro mb ib sb
    obtain ⟨tl, htl⟩ := ih (mb + 1) (ib + meshIndexWords x) (sb + x.submeshes.length)
    have : shapesOf m lodIx ib x = some [] := by simp [shapesOf, hs]
    exact ⟨_, by rw [partsOf, this, htl]; rfl⟩

theorem lodsView_noshapes (m : AbstractModel) (hs : m.shapes = []) (suf : List ALod) :
    ∀ n mb sb, ∃ ls, lodsView m n mb sb suf = some ls := by
  induction suf with
  | nil => intro n _ _; exact ⟨[], by simp [lodsView]⟩
  | cons x xs ih =>
    intro n mb sb
    cases n with
    | zero => exact ⟨[], by simp [lodsView]⟩
    | succ n =>
      obtain ⟨ps, hps⟩ := partsOf_noshapes m hs (m.lodCount.toNat - (n + 1)) x.meshes mb 0 sb
      obtain ⟨tl, htl⟩ := ih n (mb + x.meshes.length)
        (sb + (x.meshes.map (fun (x : AMesh) => x.submeshes.length)).sum)
      exact ⟨_, by rw [lodsView, hps, htl]; rfl⟩

/-- **parse ∘ encode on models without shapes** (exported as `c06_parse_encode_partial`) -/
theorem parse_encode_noshapes (m : AbstractModel) (h : WF m = true) (hs : m.shapes = [])
    (hw : noWeightsByte4 m = true) :
    ∃ v, view m = some v ∧
      fromExisting (encodeMdl m) =
        .ok { fileHeader := fileHeader m, modelData := modelData m, lods := v.lods,
              affectedBoneNames := v.affectedBoneNames, materialNames := v.materialNames } ∧
      (fromExisting (encodeMdl m)).map MDL.view = .ok v := by
  obtain ⟨ls, hls⟩ := lodsView_noshapes m hs m.lods m.lodCount.toNat 0 0
  have hv : view m = some ⟨ls, m.bones.map (·.flatMap latin1Utf8), m.materials.map (·.flatMap latin1Utf8)⟩ := by
    simp only [view, hls, Option.bind_eq_bind, Option.bind_some]
  have hfe := parse_encode_core m h hw (fun i l d mesh sh _ _ hsh => by
    have : shapesOf m i (psum meshIndexWords l.meshes d) mesh = some [] := by simp [shapesOf, hs]
    rw [this] at hsh; cases hsh
    simp only [readShapes, shapeRows_nil m hs]
    rfl) _ hv
  exact ⟨_, hv, hfe, by rw [hfe]; rfl⟩

/-! ### 6. shapes -/

theorem foldlM_opt_R (f : β → α → Option β) (g : β → α → R β) (l : List α)
    (hfg : ∀ acc x b, f acc x = some b → g acc x = .ok b) :
    ∀ init r, l.foldlM f init = some r → l.foldlM g init = .ok r := by
  induction l with
  | nil => intro init r h; simp only [List.foldlM_nil] at h ⊢; cases h; rfl
  | cons x xs ih =>
    intro init r h
    rw [List.foldlM_cons] at h ⊢
    cases hx : f init x with
    | none => rw [hx] at h; simp at h
    | some b =>
      rw [hx] at h
      rw [hfg init x b hx, R.ok_bind]
      exact ih b r h

theorem foldlM_opt_R₂ (f : β → α → Option β) (g : β → γ → R β) :
    ∀ (l1 : List α) (l2 : List γ), l1.length = l2.length →
    (∀ (p : Nat) x y, l1[p]? = some x → l2[p]? = some y → ∀ acc b, f acc x = some b → g acc y = .ok b) →
    ∀ init r, l1.foldlM f init = some r → l2.foldlM g init = .ok r := by
  intro l1
  induction l1 with
  | nil =>
    intro l2 hlen _ init r h
    have : l2 = [] := by simpa using hlen.symm
    subst this
    simp only [List.foldlM_nil] at h ⊢; cases h; rfl
  | cons x xs ih =>
    intro l2 hlen hfg init r h
    match l2, hlen with
    | y :: ys, hlen =>
      rw [List.foldlM_cons] at h ⊢
      cases hx : f init x with
      | none => rw [hx] at h; simp at h
      | some b =>
        rw [hx] at h
        rw [hfg 0 x y rfl rfl init b hx, R.ok_bind]
        exact ih ys (by simpa using hlen) (fun p x' y' h1 h2 => hfg (p + 1) x' y' (by simpa using h1) (by simpa using h2)) b r h

theorem filterAuxM_ok {α : Type} (f : α → R Bool) (p : α → Bool) (l : List α)
    (h : ∀ x ∈ l, f x = .ok (p x)) :
    ∀ acc, List.filterAuxM f l acc = .ok ((l.filter p).reverse ++ acc) := by
  induction l with
  | nil => intro acc; rfl
  | cons x xs ih =>
    intro acc
    rw [List.filterAuxM, h x (by simp), R.ok_bind, ih (fun y hy => h y (by simp [hy]))]
    cases hp : p x <;> simp [hp]

theorem filterM_ok {α : Type} (f : α → R Bool) (p : α → Bool) (l : List α)
    (h : ∀ x ∈ l, f x = .ok (p x)) : l.filterM f = .ok (l.filter p) := by
  rw [List.filterM, filterAuxM_ok f p l h, R.ok_bind]
  simp [R.pure_eq]

theorem morph_of_shapeDeltas (verts : List Vertex) (indices : List UInt16) (vals : List ShapeValue)
    (d : List Vertex) (h : shapeDeltas verts indices vals = some d) :
    morph verts indices vals = .ok d := by
  unfold morph
  unfold shapeDeltas at h
  refine foldlM_opt_R _ _ vals ?_ _ _ h
  intro acc sv b hstep
  dsimp only at hstep ⊢
  cases h1 : indices[sv.baseIndicesIndex.toNat]? with
  | none => simp [h1] at hstep
  | some ix =>
    cases h2 : verts[ix.toNat]? with
    | none => simp [h1, h2] at hstep
    | some old =>
      cases h3 : verts[sv.replacingVertexIndex.toNat]? with
      | none => simp [h1, h3] at hstep
      | some new =>
        by_cases h4 : ix.toNat < acc.length
        · simp only [h1, h2, h3, h4, Option.bind_eq_bind, Option.bind_some, ↓reduceIte,
            Option.some.injEq] at hstep
          subst hstep
          rw [idx_ok h1, R.ok_bind, idx_ok h2, R.ok_bind, idx_ok h3, R.ok_bind,
            idx_ok (List.getElem?_eq_getElem h4), R.ok_bind]
          simp [R.pure_eq, List.getD_eq_getElem?_getD, List.getElem?_eq_getElem h4]
        · simp [h1, h2, h3, h4] at hstep

theorem nameAt_offsets (names : List Bytes) : ∀ (pre post : Bytes) (p : Nat) (n : Bytes) (o : Nat),
    (∀ n ∈ names, nameOk n = true) → pre.length + namesSize names < 4294967296 + 1 →
    names[p]? = some n → (nameOffsets pre.length names)[p]? = some o →
    nameAt (pre ++ (names.flatMap cstr ++ post)) o.toUInt32 = .ok (n.flatMap latin1Utf8) := by
  induction names with
  | nil => intro _ _ p n o _ _ h; simp at h
  | cons x xs ih =>
    intro pre post p n o hok hlen hn ho
    have hsz : namesSize (x :: xs) = x.length + 1 + namesSize xs := by simp [namesSize]
    cases p with
    | zero =>
      simp only [nameOffsets, List.getElem?_cons_zero, Option.some.injEq] at hn ho
      subst hn ho
      rw [List.flatMap_cons, List.append_assoc]
      exact nameAt_cstr pre x _ (hok x (by simp)) (by omega)
    | succ p =>
      simp only [nameOffsets, List.getElem?_cons_succ] at hn ho
      have e : pre ++ ((x :: xs).flatMap cstr ++ post) = (pre ++ cstr x) ++ (xs.flatMap cstr ++ post) := by
        simp
      have e2 : pre.length + x.length + 1 = (pre ++ cstr x).length := by simp [cstr]; omega
      rw [e]
      rw [e2] at ho
      exact ih (pre ++ cstr x) post p n o (fun y hy => hok y (by simp [hy])) (by rw [← e2]; omega) hn ho

theorem shapeRows_getElem? (m : AbstractModel) (p : Nat) (x : AShape) (y : ShapeStruct)
    (hx : m.shapes[p]? = some x) (hy : (shapeRows m)[p]? = some y) :
    ∃ o, (nameOffsets (shapeBase m) (m.shapes.map (·.name)))[p]? = some o ∧
      y = { stringOffset := o.toUInt32, shapeMeshStartIndex := x.shapeMeshStartIndex,
            shapeMeshCount := x.shapeMeshCount } := by
  simp only [shapeRows, List.getElem?_map, Option.map_eq_some_iff] at hy
  obtain ⟨⟨o, s⟩, hz, rfl⟩ := hy
  rw [List.getElem?_zip_eq_some] at hz
  obtain ⟨ho, hs⟩ := hz
  rw [hx] at hs; cases hs
  exact ⟨o, ho, rfl⟩

theorem shape_name (m : AbstractModel) (h : WF m = true) (p : Nat) (x : AShape) (o : Nat)
    (hx : m.shapes[p]? = some x)
    (ho : (nameOffsets (shapeBase m) (m.shapes.map (·.name)))[p]? = some o) :
    nameAt (modelData m).header.strings o.toUInt32 = .ok (x.name.flatMap latin1Utf8) := by
  obtain ⟨hok, hlen⟩ := wf_names m h
  have hs : (modelData m).header.strings = stringTable m := rfl
  have e : stringTable m = (m.attributes.flatMap cstr ++ m.bones.flatMap cstr ++ m.materials.flatMap cstr) ++
      ((m.shapes.map (·.name)).flatMap cstr ++ []) := by
    rw [stringTable_split]; simp
  have hb : shapeBase m =
      (m.attributes.flatMap cstr ++ m.bones.flatMap cstr ++ m.materials.flatMap cstr).length := by
    simp only [shapeBase, materialBase, boneBase, length_flatMap_cstr, List.length_append]
  rw [hb] at ho
  rw [hs, e]
  apply nameAt_offsets _ _ _ p x.name o
  · intro n hn; exact hok n (by simp only [allNames, List.mem_append]; exact Or.inr (Or.inr (Or.inr hn)))
  · rw [e] at hlen
    simp only [List.length_append, length_flatMap_cstr, List.length_nil] at hlen ⊢
    omega
  · rw [List.getElem?_map, hx]; rfl
  · exact ho

theorem shapeValueInMesh_ok (row : Mesh) (start len : Nat) (hs : row.startIndex = start.toUInt32)
    (hc : row.indexCount = len.toUInt32) (hb : start + len < 4294967296) (sv : ShapeValue) :
    shapeValueInMesh row sv =
      .ok (decide (sv.baseIndicesIndex ≥ start.toUInt32.toUInt16) &&
        decide (sv.baseIndicesIndex < (start + len).toUInt32.toUInt16)) := by
  have h1 : start.toUInt32.toNat = start := toUInt32_toNat _ (by omega)
  have h2 : len.toUInt32.toNat = len := toUInt32_toNat _ (by omega)
  have h3 : start.toUInt32 + len.toUInt32 = (start + len).toUInt32 := by
    apply UInt32.toNat_inj.mp
    rw [toNat_add32 _ _ (by rw [h1, h2]; exact hb), h1, h2, toUInt32_toNat _ hb]
  unfold shapeValueInMesh
  rw [hs, hc]
  by_cases hge : sv.baseIndicesIndex ≥ start.toUInt32.toUInt16
  · rw [if_pos hge, addU32_ok _ _ (by rw [h1, h2]; exact hb), R.ok_bind, h3, decide_eq_true hge,
      Bool.true_and]
    rfl
  · rw [if_neg hge, decide_eq_false hge, Bool.false_and]
    rfl

theorem readShapes_eq (m : AbstractModel) (h : WF m = true) (i : Nat) (l : ALod)
    (hl : m.lods[i]? = some l) (d : Nat) (mesh : AMesh) (hm : l.meshes[d]? = some mesh)
    (sh : List Shape) (hsh : shapesOf m i (psum meshIndexWords l.meshes d) mesh = some sh) :
    readShapes (modelData m) i (meshRowOf m i l d mesh) (verticesOf mesh) mesh.indices = .ok sh := by
  have hsl := index_slice m i l hl d mesh hm
  have hlen := hsl.length_le
  have hfl := (wf_facts m h).fileLen
  rw [length_meshIndexBytes, meshIndexWords] at hlen
  unfold readShapes
  unfold shapesOf at hsh
  refine foldlM_opt_R₂ _ _ m.shapes (shapeRows m) (by simp [shapeRows, length_nameOffsets]) ?_ [] sh hsh
  intro p x y hx hy acc b hstep
  obtain ⟨o, ho, rfl⟩ := shapeRows_getElem? m p x y hx hy
  dsimp only at hstep ⊢
  cases h1 : x.shapeMeshStartIndex.get? i with
  | none => simp [h1] at hstep
  | some s0 =>
    cases h2 : x.shapeMeshCount.get? i with
    | none => simp [h1, h2] at hstep
    | some c0 =>
      rw [idx3_ok h1, R.ok_bind, idx3_ok h2, R.ok_bind,
        filterM_ok _ _ _ (fun sv _ => shapeValueInMesh_ok (meshRowOf m i l d mesh)
          (psum meshIndexWords l.meshes d) mesh.indices.length rfl rfl (by omega) sv), R.ok_bind]
      simp only [h1, h2, Option.bind_eq_bind, Option.bind_some] at hstep
      have e1 : (modelData m).shapeMeshes = m.shapeMeshes := rfl
      have e2 : (modelData m).shapeValues = m.shapeValues := rfl
      have e3 : (meshRowOf m i l d mesh).startIndex = (psum meshIndexWords l.meshes d).toUInt32 := rfl
      rw [e1, e2, e3]
      generalize (List.filter _ (List.flatMap _ _)) = vals at hstep ⊢
      by_cases hv : vals.isEmpty = true
      · rw [if_pos hv] at hstep ⊢
        cases hstep; rfl
      · rw [if_neg hv] at hstep ⊢
        cases hd : shapeDeltas (verticesOf mesh) mesh.indices vals with
        | none => rw [hd] at hstep; simp at hstep
        | some dl =>
          rw [hd] at hstep
          simp only [Option.bind_some, Option.some.injEq] at hstep
          subst hstep
          rw [morph_of_shapeDeltas _ _ _ _ hd, R.ok_bind, shape_name m h p x o hx ho, R.ok_bind]
          rfl


/-- **the whole file, for every file with the layout of `m`** (exported as
`c06_parse_any_file_partial`): well-formed `m` outside the recorded `(BlendWeights, Byte4)` class;
`view m = some v` says the shape tables refer inside their meshes -/
theorem SameLayout.parse {m : AbstractModel} {file : Bytes} (L : SameLayout m file)
    (h : WF m = true) (hw : noWeightsByte4 m = true) (v : View) (hv : view m = some v) :
    fromExisting file =
      .ok { fileHeader := fileHeader m, modelData := modelData m, lods := v.lods,
            affectedBoneNames := v.affectedBoneNames, materialNames := v.materialNames } :=
  L.parse_core h hw
    (fun i l d mesh sh hl hm hsh => readShapes_eq m h i l hl d mesh hm sh hsh) v hv

theorem SameLayout.parse_view {m : AbstractModel} {file : Bytes} (L : SameLayout m file)
    (h : WF m = true) (hw : noWeightsByte4 m = true) (v : View) (hv : view m = some v) :
    (fromExisting file).map MDL.view = .ok v := by
  rw [L.parse h hw v hv]; rfl

/-- **parse ∘ encode** on every well-formed model outside the recorded `(BlendWeights, Byte4)`
class; `view m = some v` says the shape tables refer inside their meshes -/
theorem parse_encode (m : AbstractModel) (h : WF m = true) (hw : noWeightsByte4 m = true)
    (v : View) (hv : view m = some v) :
    fromExisting (encodeMdl m) =
      .ok { fileHeader := fileHeader m, modelData := modelData m, lods := v.lods,
            affectedBoneNames := v.affectedBoneNames, materialNames := v.materialNames } :=
  (sameLayout_encode m h).parse h hw v hv

theorem parse_encode_view (m : AbstractModel) (h : WF m = true) (hw : noWeightsByte4 m = true)
    (v : View) (hv : view m = some v) :
    (fromExisting (encodeMdl m)).map MDL.view = .ok v :=
  (sameLayout_encode m h).parse_view h hw v hv

end Physis.Mdl
