import PhysisModel.Model.Tera
import PhysisModel.Spec.Tera
import Std.Tactic.BVDecide
/-!
The binary32 arithmetic of `src/tera.rs` on the 128-unit grid, for **all** 65 536 plate coordinates,
by bit-blasting (`bv_decide`), one rounding per lemma:

  reader:  c ─ofI16→ c ─(+½)→ c+½ ─(·128)→ 128c+64
  writer:  128c+64 ─(/128)→ c+½ ─(−½)→ c ─as i16→ c

`c + ½ = (2c+1)/2` is the float of the odd integer `2c+1` with its exponent field lowered by one.
-/
namespace Physis.TeraFloat
open Physis Physis.F32Arith Physis.Spec.Tera

/-- float of the i16 `c` (0 for 0) -/
def fOfCoord (c : UInt16) : UInt32 := if c = 0 then 0 else f32OfInt32 (sext16 c)
/-- float of `c + ½` -/
def fHalfOdd (c : UInt16) : UInt32 := f32OfInt32 (2 * sext16 c + 1) - 0x800000

theorem ofU32_128 : ofU32 128 = 0x43000000 := by decide +kernel

theorem ofI16_eq (c : UInt16) : ofI16 c = fOfCoord c := by
  simp -zeta only [fOfCoord, ofI16, round, roundMag, F32Arith.msb, signBit,
    f32OfInt32, mag32, sext16, Spec.Tera.msb, Spec.Tera.msb1, Spec.Tera.msb2, Spec.Tera.msb3, Spec.Tera.msb4]
  bv_decide

end Physis.TeraFloat
