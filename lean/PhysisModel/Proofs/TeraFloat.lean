import PhysisModel.Model.Tera
import PhysisModel.Spec.Tera
import Std.Tactic.BVDecide
/-!
The binary32 arithmetic of `src/tera.rs` on the 128-unit grid, for **all** 65 536 plate coordinates,
by bit-blasting (`bv_decide (timeout := 300)`), one rounding per lemma:

  reader:  c ─ofI16→ c ─(+½)→ c+½ ─(·128)→ 128c+64
  writer:  128c+64 ─(/128)→ c+½ ─(−½)→ c ─as i16→ c

`c + ½ = (2c+1)/2` is the float of the odd integer `2c+1` with its exponent field lowered by one.
-/
namespace Physis.TeraFloat
open Physis Physis.F32Arith Physis.Spec.Tera

/-- float of the i16 `c` (0 for 0) -/
def fOfCoord (c : UInt16) : UInt32 := if c = 0 then 0 else f32OfInt32 (sext16 c)
/-- float of `c + ½` -/
def fHalfOdd (c : UInt16) : UInt32 := f32OfInt32 (2 * sext16 c + 1) - 0x800000

theorem ofU32_128 : ofU32 128 = 0x43000000 := by decide +kernel

theorem ofI16_eq (c : UInt16) : ofI16 c = fOfCoord c := by
  simp -zeta only [fOfCoord, ofI16, round, roundMag, F32Arith.msb, signBit,
    f32OfInt32, mag32, sext16, Spec.Tera.msb, Spec.Tera.msb1, Spec.Tera.msb2, Spec.Tera.msb3, Spec.Tera.msb4]
  bv_decide (timeout := 300)

/-- unfold the closed forms in the hypothesis `h`, the float operation in the goal (in stages, keeping
the `let`s shared), and bit-blast -/
macro "float_blast" h:ident : tactic => `(tactic| (
  simp -zeta only [fOfCoord, fHalfOdd, gridPos, gridInt, f32OfInt32, mag32, sext16, Spec.Tera.msb, Spec.Tera.msb1,
    Spec.Tera.msb2, Spec.Tera.msb3, Spec.Tera.msb4] at $h:ident
  simp -zeta only [fOfCoord, fHalfOdd, gridPos, gridInt, sub, neg, add, mul, divPow2, toI16, half, magFix, sh, mant,
    expField, isNaN, isInf, isNeg, canonicalNaN]
  try simp -zeta only [round, signBit]
  try simp -zeta only [roundMag]
  try simp -zeta only [F32Arith.msb]
  try simp -zeta only [f32OfInt32, mag32, sext16, Spec.Tera.msb, Spec.Tera.msb1, Spec.Tera.msb2, Spec.Tera.msb3,
    Spec.Tera.msb4]
  bv_decide (config := { timeout := 300 })))

theorem add_half_pos (c : UInt16) (a : UInt32) (h : a = fOfCoord c) (hc : c < 0x8000) :
    add a half = fHalfOdd c := by float_blast h
theorem add_half_neg (c : UInt16) (a : UInt32) (h : a = fOfCoord c) (hc : c ≥ 0x8000) :
    add a half = fHalfOdd c := by float_blast h
theorem add_half (c : UInt16) : add (fOfCoord c) half = fHalfOdd c := by
  by_cases hc : c < 0x8000
  · exact add_half_pos c _ rfl hc
  · exact add_half_neg c _ rfl (by simpa using hc)

theorem mul_128_aux (c : UInt16) (b : UInt32) (h : b = fHalfOdd c) : mul 0x43000000 b = gridPos c := by
  float_blast h
theorem mul_128 (c : UInt16) : mul 0x43000000 (fHalfOdd c) = gridPos c := mul_128_aux c _ rfl

theorem div_128_aux (c : UInt16) (p : UInt32) (h : p = gridPos c) : divPow2 p 7 = fHalfOdd c := by
  float_blast h
theorem div_128 (c : UInt16) : divPow2 (gridPos c) 7 = fHalfOdd c := div_128_aux c _ rfl

theorem sub_half_pos (c : UInt16) (b : UInt32) (h : b = fHalfOdd c) (hc : c < 0x8000) :
    sub b half = fOfCoord c := by float_blast h
theorem sub_half_neg (c : UInt16) (b : UInt32) (h : b = fHalfOdd c) (hc : c ≥ 0x8000) :
    sub b half = fOfCoord c := by float_blast h
theorem sub_half (c : UInt16) : sub (fHalfOdd c) half = fOfCoord c := by
  by_cases hc : c < 0x8000
  · exact sub_half_pos c _ rfl hc
  · exact sub_half_neg c _ rfl (by simpa using hc)

set_option maxRecDepth 4096 in
theorem toI16_aux (c : UInt16) (a : UInt32) (h : a = fOfCoord c) : toI16 a = c := by
  float_blast h
theorem toI16_coord (c : UInt16) : toI16 (fOfCoord c) = c := toI16_aux c _ rfl

/-- reader: `128 as f32 * (c as f32 + 0.5)` is the float `128c + 64`, for every i16 `c` -/
theorem centre_grid (c : UInt16) : Tera.centre 128 c = gridPos c := by
  simp only [Tera.centre, ofU32_128, ofI16_eq, add_half, mul_128]

/-- writer: `((128c + 64) / 128 − 0.5) as i16 = c`, for every i16 `c` -/
theorem coord_grid (c : UInt16) : Tera.coord (gridPos c) = c := by
  simp only [Tera.coord, div_128, sub_half, toI16_coord]

end Physis.TeraFloat
