import PhysisModel.Base.Binrw
/-!
Proof tools for the T4 tie theorems (`Proofs/BinrwTie*.lean`).

`binrw_norm [extra]` rewrites both sides of `model reader l = via proj (Layout.read e <generated> l)`
into the same normal form — a right-nested chain of `Option.bind` over the primitive readers with
`.fst/.snd` projections — after which `rfl` closes the goal.  `extra` = the definitions to unfold
(the model reader, the generated layout) and the side lemmas of the struct (enum checks).
-/
namespace Physis.Binrw
open Physis Physis.Reader

theorem require_bind_unit {β : Type} (c : Bool) (k : Unit → Option β) :
    (require c).bind k = if c then k () else none := by
  cases c <;> rfl

theorem ite_none_bind {α β : Type} (c : Bool) (x : Option α) (k : α → Option β) :
    (if c = true then x else none).bind k = if c = true then x.bind k else none := by
  cases c <;> rfl

/-- unfold the interpreter on a literal layout / flatten a model reader -/
syntax "binrw_norm" ("[" Lean.Parser.Tactic.simpLemma,* "]")? (Lean.Parser.Tactic.location)? : tactic
macro_rules
  | `(tactic| binrw_norm) => `(tactic| binrw_norm [])
  | `(tactic| binrw_norm [$extra,*]) => `(tactic| simp only [Layout.read, Layout.readFields, Field.read, Kind.read,
      readMagic, readPrim, Prim.width, Prim.signed, Kind.size, Layout.size, Layout.sizeFields, Field.size, Count.eval,
      Value.validIn, Value.asCount, Value.bits, repeatN, via, Option.getD, skip,
      List.drop_zero, List.nil_append, List.cons_append, List.length_cons, List.length_nil,
      List.getElem?_cons_zero, List.getElem?_cons_succ,
      Option.bind_some, Option.bind_none, Option.map_some, Option.map_none, Option.bind_map, Option.map_bind,
      Option.map_map, Function.comp_def, Nat.zero_sub, Option.bind_assoc, bind, Option.bind_eq_bind,
      require_bind_unit, ite_none_bind, $extra,*])
  | `(tactic| binrw_norm [$extra,*] $loc:location) => `(tactic| simp only [Layout.read, Layout.readFields, Field.read, Kind.read,
      readMagic, readPrim, Prim.width, Prim.signed, Kind.size, Layout.size, Layout.sizeFields, Field.size, Count.eval,
      Value.validIn, Value.asCount, Value.bits, repeatN, via, Option.getD, skip,
      List.drop_zero, List.nil_append, List.cons_append, List.length_cons, List.length_nil,
      List.getElem?_cons_zero, List.getElem?_cons_succ,
      Option.bind_some, Option.bind_none, Option.map_some, Option.map_none, Option.bind_map, Option.map_bind,
      Option.map_map, Function.comp_def, Nat.zero_sub, Option.bind_assoc, bind, Option.bind_eq_bind,
      require_bind_unit, ite_none_bind, $extra,*] $loc:location)

/-- the same for large structs (several hundred primitive reads): higher simp step limit -/
syntax "binrw_norm!" "[" Lean.Parser.Tactic.simpLemma,* "]" : tactic
macro_rules
  | `(tactic| binrw_norm! [$extra,*]) => `(tactic| simp (config := { maxSteps := 4000000 }) only [Layout.read, Layout.readFields, Field.read, Kind.read,
      readMagic, readPrim, Prim.width, Prim.signed, Kind.size, Layout.size, Layout.sizeFields, Field.size, Count.eval,
      Value.validIn, Value.asCount, Value.bits, repeatN, via, Option.getD, skip,
      List.drop_zero, List.nil_append, List.cons_append, List.length_cons, List.length_nil,
      List.getElem?_cons_zero, List.getElem?_cons_succ,
      Option.bind_some, Option.bind_none, Option.map_some, Option.map_none, Option.bind_map, Option.map_bind,
      Option.map_map, Function.comp_def, Nat.zero_sub, Option.bind_assoc, bind, Option.bind_eq_bind,
      require_bind_unit, ite_none_bind, $extra,*])

/-! ### `normalize` preserves what is read -/

theorem Field.read_pushEndian (le : Option Endian) (e : Endian) (env : List Value) (f : Field) :
    Field.read (le.getD e) env (f.pushEndian le) = Field.read (le.getD e) env f ∧
    Field.read e env (f.pushEndian le) = Field.read (le.getD e) env f := by
  rcases f with ⟨n, fe, m, pb, k, pst, pa⟩
  cases fe <;> cases le <;> simp [Field.pushEndian, Field.read]

theorem readFields_pushEndian (le : Option Endian) (e : Endian) (fs : List Field) :
    ∀ (acc : List Value) (l : Bytes),
    Layout.readFields (le.getD e) acc (fs.map (Field.pushEndian le)) l = Layout.readFields (le.getD e) acc fs l ∧
    Layout.readFields e acc (fs.map (Field.pushEndian le)) l = Layout.readFields (le.getD e) acc fs l := by
  induction fs with
  | nil => intro acc l; exact ⟨rfl, rfl⟩
  | cons f fs ih =>
    intro acc l
    simp only [List.map_cons, Layout.readFields, (Field.read_pushEndian le e acc f).1,
      (Field.read_pushEndian le e acc f).2]
    constructor
    · congr 1; funext x; exact (ih _ _).1
    · congr 1; funext x; exact (ih _ _).2

theorem readFields_mergePads (e : Endian) (fs : List Field) :
    ∀ (acc : List Value) (l : Bytes),
    Layout.readFields e acc (mergePads fs) l = Layout.readFields e acc fs l := by
  induction fs with
  | nil => intro acc l; rfl
  | cons f fs ih =>
    intro acc l
    rcases f with ⟨n, fe, m, pb, k, pst, pa⟩
    have rhs : Layout.readFields e acc (.mk n fe m pb k pst pa :: fs) l =
        (Field.read e acc (.mk n fe m pb k pst pa) l).bind fun x =>
          Layout.readFields e (acc ++ [x.1]) (mergePads fs) x.2 := by
      simp only [Layout.readFields]; congr 1; funext x; exact (ih _ _).symm
    rw [rhs]
    simp only [mergePads]
    split
    · next n2 fe2 pb2 k2 pst2 pa2 gs h =>
      rw [h]
      simp only [Layout.readFields, Field.read, readMagic, Option.bind_some, skip,
        Option.bind_assoc, List.drop_drop, Nat.add_zero, Nat.add_assoc]
    · simp only [Layout.readFields]

theorem Layout.read_normalize (e : Endian) (lay : Layout) (l : Bytes) :
    Layout.read e lay.normalize l = Layout.read e lay l := by
  rcases lay with ⟨le, m, fs, c⟩
  cases m with
  | int p v =>
    simp only [Layout.normalize, Layout.read, readFields_mergePads]
    congr 1; funext x; exact (readFields_pushEndian le e fs [] x).1
  | none =>
    simp only [Layout.normalize, Layout.read, Option.getD, readFields_mergePads,
      (readFields_pushEndian le e fs _ _).2, readMagic]
  | bytes b =>
    simp only [Layout.normalize, Layout.read, Option.getD, readFields_mergePads,
      (readFields_pushEndian le e fs _ _).2, readMagic]

theorem Layout.read_normalizeAt (e : Endian) (lay : Layout) (l : Bytes) :
    Layout.read e (lay.normalizeAt e) l = Layout.read e lay l := by
  rcases lay with ⟨le, m, fs, c⟩
  rw [Layout.normalizeAt, Layout.read_normalize]
  cases le <;> simp only [Layout.read, Option.getD]

/-- two layouts with the same normal form read the same -/
theorem Layout.read_congr (e : Endian) {G E : Layout} (h : G.normalizeAt e = E.normalizeAt e) :
    Layout.read e G = Layout.read e E := by
  funext l; rw [← Layout.read_normalizeAt e G, h, Layout.read_normalizeAt]

/-- the two steps of a tie combined: `model = read expected` (by hand, once) and
`normalize generated = normalize expected` (re-checked on every run) give `model = read generated` -/
theorem tie {α : Type} {proj : List Value → Option α} {model : Bytes → Option (α × Bytes)} {e : Endian}
    {G E : Layout} (h1 : ∀ l, model l = via proj (Layout.read e E l)) (h2 : G.normalizeAt e = E.normalizeAt e)
    (l : Bytes) : model l = via proj (Layout.read e G l) := by
  rw [h1, Layout.read_congr e h2]

theorem Kind.read_array_struct_congr (e : Endian) (env : List Value) (n : Count) {G E : Layout}
    (h : G.normalizeAt e = E.normalizeAt e) (l : Bytes) :
    Kind.read e env (.array n (.struct G)) l = Kind.read e env (.array n (.struct E)) l := by
  simp only [Kind.read, Layout.read_congr e h]

/-- a hand-written `count = n` list reader (`rdN`, built from the element reader `rd`) is `repeatN`
of the layout's element reader `k` followed by the element projection — also when the projection
fails (both sides are then `none`) -/
theorem listReader_eq_repeatN {α : Type} (rd : Bytes → Option (α × Bytes))
    (rdN : Nat → Bytes → Option (List α × Bytes)) (k : Bytes → Option (Value × Bytes)) (proj : Value → Option α)
    (h0 : ∀ l, rdN 0 l = some ([], l))
    (hS : ∀ n l, rdN (n + 1) l = (rd l).bind fun x => (rdN n x.2).bind fun xs => some (x.1 :: xs.1, xs.2))
    (h : ∀ l, rd l = (k l).bind fun v => (proj v.1).map (·, v.2)) :
    ∀ n l, rdN n l = (repeatN k n l).bind fun vs => (projAll proj vs.1).map (·, vs.2) := by
  intro n
  induction n with
  | zero => intro l; rw [h0]; rfl
  | succ n ih =>
    intro l
    rw [hS, h]
    simp only [repeatN]
    cases hk : k l with
    | none => rfl
    | some v =>
      simp only [Option.bind_some]
      cases hp : proj v.1 with
      | none =>
        simp only [Option.map_none, Option.bind_none]
        cases repeatN k n v.2 <;> simp [projAll, hp]
      | some a =>
        simp only [Option.map_some, Option.bind_some, ih]
        cases repeatN k n v.2 with
        | none => rfl
        | some vs =>
          simp only [Option.bind_some, projAll, hp]
          cases projAll proj vs.1 <;> rfl

end Physis.Binrw
