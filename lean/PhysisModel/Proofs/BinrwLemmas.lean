import PhysisModel.Base.Binrw
/-!
Proof tools for the T4 tie theorems (`Proofs/BinrwTie*.lean`).

`binrw_norm [extra]` rewrites both sides of `model reader l = via proj (Layout.read e <generated> l)`
into the same normal form — a right-nested chain of `Option.bind` over the primitive readers with
`.fst/.snd` projections — after which `rfl` closes the goal.  `extra` = the definitions to unfold
(the model reader, the generated layout) and the side lemmas of the struct (enum checks).
-/
namespace Physis.Binrw
open Physis Physis.Reader

theorem require_bind_unit {β : Type} (c : Bool) (k : Unit → Option β) :
    (require c).bind k = if c then k () else none := by
  cases c <;> rfl

theorem ite_none_bind {α β : Type} (c : Bool) (x : Option α) (k : α → Option β) :
    (if c = true then x else none).bind k = if c = true then x.bind k else none := by
  cases c <;> rfl

/-- unfold the interpreter on a literal layout / flatten a model reader -/
syntax "binrw_norm" ("[" Lean.Parser.Tactic.simpLemma,* "]")? : tactic
macro_rules
  | `(tactic| binrw_norm) => `(tactic| binrw_norm [])
  | `(tactic| binrw_norm [$extra,*]) => `(tactic| simp only [Layout.read, Layout.readFields, Field.read, Kind.read,
      readMagic, readPrim, Prim.width, Prim.signed, Kind.size, Layout.size, Layout.sizeFields, Field.size, Count.eval,
      Value.validIn, Value.asCount, Value.bits, repeatN, via, Option.getD, skip,
      List.drop_zero, List.nil_append, List.cons_append, List.length_cons, List.length_nil,
      List.getElem?_cons_zero, List.getElem?_cons_succ,
      Option.bind_some, Option.bind_none, Option.map_some, Option.map_none, Option.bind_map, Option.map_bind,
      Option.map_map, Function.comp_def, Nat.zero_sub, Option.bind_assoc, bind, Option.bind_eq_bind,
      require_bind_unit, ite_none_bind, $extra,*])

end Physis.Binrw
