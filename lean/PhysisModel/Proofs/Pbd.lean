import PhysisModel.Model.Pbd
import PhysisModel.Spec.Pbd
/-! The parent-chain walk of `get_deform_matrices` against the specification's ancestor list. -/
namespace Physis.Pbd
open Physis.Spec.Pbd

def convBone (b : Spec.Pbd.Bone) : Bone := ⟨b.name, b.deform⟩
def convItem (i : Spec.Pbd.Item) : Item := ⟨i.bodyId, i.linkIndex, i.bones.map convBone⟩
def convLink (l : Spec.Pbd.Link) : Link := ⟨l.parent, l.firstChild, l.nextSibling, l.deformerIndex⟩
/-- the parsed header holding exactly the records of `f` -/
def toModel (f : File) : Header := ⟨f.items.map convItem, f.links.map convLink⟩

theorem ancestors_mono (links : List Spec.Pbd.Link) :
    ∀ fuel i L, ancestors links fuel i = some L → ancestors links (fuel + 1) i = some L := by
  intro fuel
  induction fuel with
  | zero => intro i L h; simp [ancestors] at h
  | succ n ih =>
    intro i L h
    rw [ancestors] at h ⊢
    cases hl : links[i]? with
    | none => simp [hl] at h
    | some l =>
      simp only [hl] at h ⊢
      by_cases hp : l.parent = none16
      · simpa [hp] using h
      · simp only [hp, if_false] at h ⊢
        cases ha : ancestors links n l.parent.toNat with
        | none => simp [ha] at h
        | some L' =>
          rw [ih _ _ ha]
          simpa [ha] using h

theorem i16AsUsize_small (x : UInt16) (h : x < 0x8000) : i16AsUsize x = x.toNat := by
  simp [i16AsUsize, h]

theorem walk_spec (f : File) (to : UInt16)
    (hdef : ∀ l ∈ f.links, l.deformerIndex.toNat < f.items.length ∧ (l.parent = none16 ∨ l.parent < 0x8000)) :
    ∀ fuel i L, ancestors f.links (fuel + 1) i = some L →
    ∀ (next : Spec.Pbd.Link) (item : Spec.Pbd.Item) (acc : List Bone), f.links[i]? = some next →
    ∃ above, L.tail.mapM (itemOfLink f) = some above ∧
      walk (toModel f) to fuel (convItem item) (convLink next) acc =
        .ok (acc ++ (item.bones ++ (above.takeWhile (·.bodyId != to)).flatMap (·.bones)).map convBone) := by
  intro fuel
  induction fuel with
  | zero =>
    intro i L h next item acc hnext
    rw [ancestors] at h
    simp only [hnext] at h
    by_cases hp : next.parent = none16
    · simp only [hp, if_true, Option.some.injEq] at h
      subst h
      refine ⟨[], by simp, ?_⟩
      have : (convLink next).parent = 0xFFFF := hp
      simp [walk, this, convItem]
    · simp [hp, ancestors] at h
  | succ n ih =>
    intro i L h next item acc hnext
    rw [ancestors] at h
    simp only [hnext] at h
    by_cases hp : next.parent = none16
    · simp only [hp, if_true, Option.some.injEq] at h
      subst h
      refine ⟨[], by simp, ?_⟩
      have : (convLink next).parent = 0xFFFF := hp
      simp [walk, this, convItem]
    · simp only [hp, if_false] at h
      cases ha : ancestors f.links (n + 1) next.parent.toNat with
      | none => simp [ha] at h
      | some L' =>
        simp only [ha, Option.map_some, Option.some.injEq] at h
        subst h
        -- the parent link exists (otherwise `ancestors` fails) …
        have hnm : next ∈ f.links := List.mem_of_getElem? hnext
        have hsmall : next.parent < 0x8000 := (hdef next hnm).2.resolve_left hp
        cases hl' : f.links[next.parent.toNat]? with
        | none => rw [ancestors] at ha; simp [hl'] at ha
        | some next' =>
          -- … and so does the item it points to
          have hn'm : next' ∈ f.links := List.mem_of_getElem? hl'
          have hd := (hdef next' hn'm).1
          have hit : f.items[next'.deformerIndex.toNat]? = some (f.items[next'.deformerIndex.toNat]) :=
            List.getElem?_eq_getElem hd
          obtain ⟨above, hab, hw⟩ := ih _ _ ha next' (f.items[next'.deformerIndex.toNat])
            (acc ++ (convItem item).bones) hl'
          have hL' : ∃ T, L' = next.parent.toNat :: T := by
            rw [ancestors] at ha
            simp only [hl'] at ha
            by_cases hp' : next'.parent = none16
            · simp [hp'] at ha; exact ⟨[], ha.symm⟩
            · simp only [hp', if_false] at ha
              cases hx : ancestors f.links n next'.parent.toNat with
              | none => simp [hx] at ha
              | some T => simp [hx] at ha; exact ⟨T, ha.symm⟩
          obtain ⟨T, rfl⟩ := hL'
          have hiol : itemOfLink f next.parent.toNat = some (f.items[next'.deformerIndex.toNat]) := by
            simp [itemOfLink, hl', hit]
          refine ⟨f.items[next'.deformerIndex.toNat] :: above, ?_, ?_⟩
          · simp only [List.tail_cons] at hab ⊢
            simp [List.mapM_cons, hiol, hab]
          · have hpar : (convLink next).parent ≠ 0xFFFF := hp
            have hlm : (toModel f).links[i16AsUsize (convLink next).parent]? = some (convLink next') := by
              show (f.links.map convLink)[i16AsUsize next.parent]? = _
              rw [i16AsUsize_small _ hsmall, List.getElem?_map, hl']; rfl
            have him : (toModel f).items[(convLink next').deformerIndex.toNat]? =
                some (convItem (f.items[next'.deformerIndex.toNat])) := by
              show (f.items.map convItem)[next'.deformerIndex.toNat]? = _
              rw [List.getElem?_map, hit]; rfl
            rw [walk]
            simp only [hpar, if_false, hlm, him]
            by_cases hto : (f.items[next'.deformerIndex.toNat]).bodyId = to
            · have : (convItem (f.items[next'.deformerIndex.toNat])).bodyId = to := hto
              simp [this, hto, convItem, List.takeWhile_cons]
            · have : (convItem (f.items[next'.deformerIndex.toNat])).bodyId ≠ to := hto
              simp only [this, if_false, hw]
              simp [convItem, List.takeWhile_cons, hto, List.append_assoc]

end Physis.Pbd
