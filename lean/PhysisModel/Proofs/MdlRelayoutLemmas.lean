import PhysisModel.Proofs.MdlRep
import PhysisModel.Spec.MdlRelayout
/-!
# C07 — `relayout` changes only the layout

`relayout a` re-pads the last mesh of every LOD and resets every LOD's `edgeGeometryDataOffset`.
Neither the reported geometry (`view`) nor anything `Rep` looks at depends on these two fields.
-/
namespace Physis.Mdl
open Physis Physis.Spec.Mdl

/-- `a` with another list of LODs -/
def withLods (a : AbstractModel) (L : List ALod) : AbstractModel := { a with lods := L }

/-- the lists of LODs `relayout` relates: the last mesh re-padded, some edge-geometry offset -/
inductive LodsSim : List ALod → List ALod → Prop
  | nil : LodsSim [] []
  | cons (l : ALod) (e : UInt32) {ls ls' : List ALod} : LodsSim ls ls' →
      LodsSim (l :: ls) ({ l with meshes := padLast 0 l.meshes, edgeGeometryDataOffset := e } :: ls')

theorem relayout_eq (a : AbstractModel) : relayout a = withLods a (relayout a).lods := rfl

theorem lodsSim_zip (h : Nat → ALod → UInt32) (ls : List ALod) : ∀ s,
    LodsSim ls ((List.zip (List.range' s ls.length)
      (ls.map fun l => { l with meshes := padLast 0 l.meshes })).map fun (i, l) =>
        { l with edgeGeometryDataOffset := h i l }) := by
  induction ls with
  | nil => intro s; exact LodsSim.nil
  | cons x xs ih =>
    intro s
    simp only [List.length_cons, List.range'_succ, List.map_cons, List.zip_cons_cons]
    exact LodsSim.cons x _ (ih (s + 1))

theorem relayout_sim (a : AbstractModel) : LodsSim a.lods (relayout a).lods := by
  have := lodsSim_zip (fun i l => (sectionOffset (relayoutPads a) i + lodVertexSize l).toUInt32)
    a.lods 0
  rw [← List.range_eq_range'] at this
  show LodsSim a.lods ((List.zip (List.range (relayoutPads a).lods.length) (relayoutPads a).lods).map _)
  rw [show (relayoutPads a).lods.length = a.lods.length from List.length_map _]
  exact this

/-! ### `padLast` -/

theorem map_padLast {β : Type} (f : AMesh → β) (hf : ∀ (x : AMesh) (p : Nat), f { x with indexPad := p } = f x)
    (l : List AMesh) : ∀ ib, (padLast ib l).map f = l.map f := by
  induction l with
  | nil => intro _; rfl
  | cons x xs ih =>
    intro ib
    cases xs with
    | nil => simp only [padLast, List.map_cons, List.map_nil, hf]
    | cons y rest =>
      simp only [padLast, List.map_cons]
      rw [ih]; rfl

theorem length_padLast (l : List AMesh) (ib : Nat) : (padLast ib l).length = l.length := by
  have := congrArg List.length (map_padLast (fun _ => ()) (fun _ _ => rfl) l ib)
  simpa using this

theorem isEmpty_padLast (l : List AMesh) (ib : Nat) : (padLast ib l).isEmpty = l.isEmpty := by
  rcases l with _ | ⟨x, _ | ⟨y, rest⟩⟩ <;> rfl

/-! ### the flattened mesh list -/

theorem sim_map_meshes {β : Type} (f : AMesh → β)
    (hf : ∀ (x : AMesh) (p : Nat), f { x with indexPad := p } = f x) {ls L : List ALod}
    (h : LodsSim ls L) :
    (L.flatMap (·.meshes)).map f = (ls.flatMap (·.meshes)).map f := by
  induction h with
  | nil => rfl
  | cons l e _ ih =>
    simp only [List.flatMap_cons, List.map_append, ih, map_padLast f hf]

theorem allMeshes_withLods (a : AbstractModel) (L : List ALod) :
    allMeshes (withLods a L) = L.flatMap (·.meshes) := rfl

/-! ### `view` -/

theorem partsOf_withLods (a : AbstractModel) (L : List ALod) (lod : Nat) (meshes : List AMesh) :
    ∀ mb ib sb, partsOf (withLods a L) lod mb ib sb meshes = partsOf a lod mb ib sb meshes := by
  induction meshes with
  | nil => intro _ _ _; rfl
  | cons x xs ih =>
    intro mb ib sb
    simp only [partsOf, ih]
    rfl

theorem lodsView_withLods (a : AbstractModel) (L : List ALod) (ls : List ALod) :
    ∀ n mb sb, lodsView (withLods a L) n mb sb ls = lodsView a n mb sb ls := by
  induction ls with
  | nil => intro _ _ _; simp only [lodsView]
  | cons x xs ih =>
    intro n mb sb
    cases n with
    | zero => simp only [lodsView]
    | succ n =>
      simp only [lodsView, ih, partsOf_withLods]
      rfl

theorem shapesOf_pad (a : AbstractModel) (lod ib : Nat) (x : AMesh) (p : Nat) :
    shapesOf a lod ib { x with indexPad := p } = shapesOf a lod ib x := rfl

theorem partsOf_padLast (a : AbstractModel) (lod : Nat) (l : List AMesh) :
    ∀ mb ib sb ib', partsOf a lod mb ib sb (padLast ib' l) = partsOf a lod mb ib sb l := by
  induction l with
  | nil => intro _ _ _ _; rfl
  | cons x xs ih =>
    intro mb ib sb ib'
    cases xs with
    | nil =>
      simp only [padLast, partsOf, shapesOf_pad]
      rfl
    | cons y rest =>
      simp only [padLast]
      rw [partsOf, partsOf, ih]

theorem lodsView_sim (a : AbstractModel) {ls L : List ALod} (h : LodsSim ls L) :
    ∀ n mb sb, lodsView a n mb sb L = lodsView a n mb sb ls := by
  induction h with
  | nil => intro _ _ _; rfl
  | cons l e _ ih =>
    intro n mb sb
    cases n with
    | zero => simp only [lodsView]
    | succ n =>
      simp only [lodsView, partsOf_padLast, length_padLast, ih,
        map_padLast (fun (x : AMesh) => x.submeshes.length) (fun _ _ => rfl)]

/-- the reported geometry is the same -/
theorem view_relayout (a : AbstractModel) : view (relayout a) = view a := by
  rw [relayout_eq]
  unfold view
  rw [show (withLods a (relayout a).lods).lods = (relayout a).lods from rfl,
    show (withLods a (relayout a).lods).lodCount = a.lodCount from rfl,
    lodsView_withLods, lodsView_sim a (relayout_sim a)]
  rfl

/-! ### `Rep` -/

theorem length_allMeshes_sim {ls L : List ALod} (h : LodsSim ls L) :
    (L.flatMap (·.meshes)).length = (ls.flatMap (·.meshes)).length := by
  have := congrArg List.length (sim_map_meshes (fun _ => ()) (fun _ _ => rfl) h)
  simpa using this

private theorem stripFH_fileHeader (m : AbstractModel) : stripFH (fileHeader m) =
    { version := m.version, stackSize := 0, runtimeSize := 0,
      vertexDeclarationCount := (allMeshes m).length.toUInt16,
      materialCount := m.fileMaterialCount,
      vertexOffsets := Arr3.rep 0, indexOffsets := Arr3.rep 0,
      vertexBufferSize := Arr3.rep 0, indexBufferSize := Arr3.rep 0,
      lodCount := 0,
      indexBufferStreamingEnabled := m.indexBufferStreamingEnabled,
      hasEdgeGeometry := m.hasEdgeGeometry } := rfl

theorem stripFH_sim (a : AbstractModel) {L : List ALod} (h : LodsSim a.lods L) :
    stripFH (fileHeader (withLods a L)) = stripFH (fileHeader a) := by
  rw [stripFH_fileHeader, stripFH_fileHeader, allMeshes_withLods, length_allMeshes_sim h]
  rfl

theorem specKeysLod_padLast (l : List AMesh) :
    ∀ mb sb ib, specKeysLod mb sb (padLast ib l) = specKeysLod mb sb l := by
  induction l with
  | nil => intro _ _ _; rfl
  | cons x xs ih =>
    intro mb sb ib
    cases xs with
    | nil => rfl
    | cons y rest =>
      simp only [padLast]
      rw [specKeysLod, specKeysLod, ih]

theorem specKeys_sim {ls L : List ALod} (h : LodsSim ls L) :
    ∀ n mb sb, specKeys n mb sb L = specKeys n mb sb ls := by
  induction h with
  | nil => intro _ _ _; rfl
  | cons l e _ ih =>
    intro n mb sb
    cases n with
    | zero => simp only [specKeys]
    | succ n =>
      simp only [specKeys, specKeysLod_padLast, length_padLast, ih, lodSubCount,
        map_padLast subLen (fun _ _ => rfl)]

theorem stripMD_ext {X Y : ModelData}
    (h1 : X.decls = Y.decls) (h2 : stripHeader X.header = stripHeader Y.header)
    (h3 : X.elementIds = Y.elementIds) (h4 : X.lods.map stripLod = Y.lods.map stripLod)
    (h5 : X.meshes.map stripMesh = Y.meshes.map stripMesh)
    (h6 : X.attributeNameOffsets = Y.attributeNameOffsets)
    (h7 : X.terrainShadowMeshes = Y.terrainShadowMeshes) (h8 : X.submeshes = Y.submeshes)
    (h9 : X.terrainShadowSubmeshes = Y.terrainShadowSubmeshes)
    (h10 : X.materialNameOffsets = Y.materialNameOffsets)
    (h11 : X.boneNameOffsets = Y.boneNameOffsets) (h12 : X.boneTables = Y.boneTables)
    (h13 : X.boneTablesV2 = Y.boneTablesV2) (h14 : X.shapes = Y.shapes)
    (h15 : X.shapeMeshes = Y.shapeMeshes) (h16 : X.shapeValues = Y.shapeValues)
    (h17 : X.submeshBoneMapSize = Y.submeshBoneMapSize)
    (h18 : X.submeshBoneMapSizeV2 = Y.submeshBoneMapSizeV2)
    (h19 : X.submeshBoneMap = Y.submeshBoneMap) (h20 : X.paddingAmount = Y.paddingAmount)
    (h21 : X.unknownPadding = Y.unknownPadding) (h22 : X.boundingBoxes = Y.boundingBoxes)
    (h23 : X.boneBoundingBoxes = Y.boneBoundingBoxes) : stripMD X = stripMD Y := by
  cases X; cases Y
  simp only at h1 h2 h3 h4 h5 h6 h7 h8 h9 h10 h11 h12 h13 h14 h15 h16 h17 h18 h19 h20 h21 h22 h23
  subst h1 h3 h6 h7 h8 h9 h10 h11 h12 h13 h14 h15 h16 h17 h18 h19 h20 h21 h22 h23
  simp only [stripMD, h2, h4, h5]

theorem header_withLods (a : AbstractModel) (L : List ALod) :
    (modelData (withLods a L)).header =
      { (modelData a).header with
        meshCount := (L.flatMap (·.meshes)).length.toUInt16
        submeshCount :=
          ((L.flatMap (·.meshes)).map (fun (x : AMesh) => x.submeshes.length)).sum.toUInt16 } := rfl

theorem header_sim (a : AbstractModel) {L : List ALod} (h : LodsSim a.lods L) :
    (modelData (withLods a L)).header = (modelData a).header := by
  rw [header_withLods, length_allMeshes_sim h,
    sim_map_meshes (fun (x : AMesh) => x.submeshes.length) (fun _ _ => rfl) h]
  rfl

theorem stripLod_lodRows_cons (mb off : Nat) (l : ALod) (rest : List ALod) :
    (lodRows mb off (l :: rest)).map stripLod =
      { meshIndex := mb.toUInt16, meshCount := l.meshes.length.toUInt16, mid := l.mid,
        edgeGeometryDataOffset := 0, polygonCount := l.polygonCount, vertexBufferSize := 0,
        indexBufferSize := 0, vertexDataOffset := 0, indexDataOffset := 0 } ::
      (lodRows (mb + l.meshes.length) (off + lodVertexSize l + lodIndexSize l) rest).map stripLod :=
  rfl

theorem map_stripLod_off (ls : List ALod) : ∀ mb off off',
    (lodRows mb off ls).map stripLod = (lodRows mb off' ls).map stripLod := by
  induction ls with
  | nil => intro _ _ _; rfl
  | cons x xs ih =>
    intro mb off off'
    rw [stripLod_lodRows_cons, stripLod_lodRows_cons, ih]

theorem stripLod_sim {ls L : List ALod} (h : LodsSim ls L) : ∀ mb off off',
    (lodRows mb off L).map stripLod = (lodRows mb off' ls).map stripLod := by
  induction h with
  | nil => intro _ _ _; rfl
  | cons l e _ ih =>
    intro mb off off'
    rw [stripLod_lodRows_cons, stripLod_lodRows_cons]
    simp only [length_padLast]
    rw [ih]

theorem stripMesh_meshRow (x : AMesh) (h : x.streams.length ≤ 3) (v i s : Nat) :
    stripMesh (meshRow v i s x) = stripMesh (meshRow 0 0 s x) := by
  rcases x with ⟨decl, vc, streams, indices, pad, mi, bti, subs⟩
  rcases streams with _ | ⟨s0, _ | ⟨s1, _ | ⟨s2, _ | ⟨s3, t⟩⟩⟩⟩
  · rfl
  · rfl
  · rfl
  · rfl
  · simp at h

theorem meshRows_cons (v i s : Nat) (x : AMesh) (rest : List AMesh) :
    meshRows v i s (x :: rest) = meshRow v i s x ::
      meshRows (v + streamSize x) (i + meshIndexWords x) (s + x.submeshes.length) rest := rfl

theorem stripMesh_meshRows (l : List AMesh) (h3 : ∀ x ∈ l, x.streams.length ≤ 3) : ∀ v i s v' i',
    (meshRows v i s l).map stripMesh = (meshRows v' i' s l).map stripMesh := by
  induction l with
  | nil => intro _ _ _ _ _; rfl
  | cons x xs ih =>
    intro v i s v' i'
    rw [meshRows_cons, meshRows_cons, List.map_cons, List.map_cons,
      stripMesh_meshRow x (h3 x (by simp)) v i, stripMesh_meshRow x (h3 x (by simp)) v' i',
      ih (fun y hy => h3 y (by simp [hy]))]

theorem stripMesh_padLast (l : List AMesh) (h3 : ∀ x ∈ l, x.streams.length ≤ 3) : ∀ v i s ib,
    (meshRows v i s (padLast ib l)).map stripMesh = (meshRows v i s l).map stripMesh := by
  induction l with
  | nil => intro _ _ _ _; rfl
  | cons x xs ih =>
    intro v i s ib
    cases xs with
    | nil => rfl
    | cons y rest =>
      simp only [padLast]
      rw [meshRows_cons, meshRows_cons, List.map_cons, List.map_cons,
        ih (fun z hz => h3 z (by simp [hz]))]

theorem stripMesh_sim {ls L : List ALod} (h : LodsSim ls L)
    (h3 : ∀ l ∈ ls, ∀ x ∈ l.meshes, x.streams.length ≤ 3) : ∀ sb,
    (allMeshRows sb L).map stripMesh = (allMeshRows sb ls).map stripMesh := by
  induction h with
  | nil => intro _; rfl
  | cons l e _ ih =>
    intro sb
    simp only [allMeshRows, List.map_append,
      map_padLast (fun (x : AMesh) => x.submeshes.length) (fun _ _ => rfl)]
    rw [stripMesh_padLast l.meshes (h3 l (by simp)), ih (fun y hy => h3 y (by simp [hy]))]

theorem stripMD_sim (a : AbstractModel) {L : List ALod} (h : LodsSim a.lods L)
    (h3 : ∀ x ∈ allMeshes a, x.streams.length ≤ 3) :
    stripMD (modelData (withLods a L)) = stripMD (modelData a) := by
  apply stripMD_ext
  · exact sim_map_meshes (fun (x : AMesh) => x.decl) (fun _ _ => rfl) h
  · rw [header_sim a h]
  · rfl
  · exact stripLod_sim h 0 _ _
  · refine stripMesh_sim h (fun l hl x hx => h3 x ?_) 0
    exact List.mem_flatMap.mpr ⟨l, hl, hx⟩
  · rfl
  · rfl
  · show (L.flatMap (·.meshes)).flatMap (fun (x : AMesh) => x.submeshes) =
      (a.lods.flatMap (·.meshes)).flatMap (fun (x : AMesh) => x.submeshes)
    rw [List.flatMap_def, List.flatMap_def (l := a.lods.flatMap (·.meshes)),
      sim_map_meshes (fun (x : AMesh) => x.submeshes) (fun _ _ => rfl) h]
  all_goals rfl

/-- `Rep` does not see the difference -/
theorem rep_relayout (a : AbstractModel) (m : MDL)
    (h3 : ∀ x ∈ allMeshes a, x.streams.length ≤ 3) (h : Rep a m) : Rep (relayout a) m := by
  rw [relayout_eq]
  have hs := relayout_sim a
  refine ⟨?_, ?_, ?_, h.bones, h.mats⟩
  · rw [stripMD_sim a hs h3]; exact h.md
  · rw [stripFH_sim a hs]; exact h.fh
  · rw [h.parts]
    exact (specKeys_sim hs _ 0 0).symm

/-! ### `Canonical` -/

theorem sim_all_drop (p : ALod → Bool)
    (hp : ∀ (l : ALod) (e : UInt32),
      p { l with meshes := padLast 0 l.meshes, edgeGeometryDataOffset := e } = p l)
    {ls L : List ALod} (h : LodsSim ls L) : ∀ n, (L.drop n).all p = (ls.drop n).all p := by
  induction h with
  | nil => intro _; rfl
  | cons l e _ ih =>
    intro n
    cases n with
    | zero =>
      have := ih 0
      simp only [List.drop_zero] at this
      simp only [List.drop_zero, List.all_cons, hp, this]
    | succ n => simp only [List.drop_succ_cons, ih]

theorem sim_all (p : ALod → Bool)
    (hp : ∀ (l : ALod) (e : UInt32),
      p { l with meshes := padLast 0 l.meshes, edgeGeometryDataOffset := e } = p l)
    {ls L : List ALod} (h : LodsSim ls L) : L.all p = ls.all p := by
  have := sim_all_drop p hp h 0
  simpa only [List.drop_zero] using this

theorem startsOk_padLast (l : List AMesh) : ∀ ib, startsOk ib (padLast ib l) = startsOk ib l := by
  induction l with
  | nil => intro _; rfl
  | cons x xs ih =>
    intro ib
    cases xs with
    | nil => rfl
    | cons y rest =>
      simp only [padLast]
      rw [startsOk, startsOk, ih]

theorem all_eq_of_map_eq {α : Type} {l l' : List α} {p : α → Bool} (h : l.map p = l'.map p) :
    l.all p = l'.all p := by
  have := congrArg (fun z => z.all id) h
  simpa only [List.all_map, Function.id_comp] using this

theorem canonical_sim (a : AbstractModel) {L : List ALod} (hs : LodsSim a.lods L)
    (h : Canonical a = true) : Canonical (withLods a L) = true := by
  simp only [Canonical, Bool.and_eq_true] at h ⊢
  obtain ⟨⟨⟨⟨⟨⟨⟨⟨⟨⟨⟨⟨c1, c2⟩, c3⟩, c4⟩, c5⟩, c6⟩, c7⟩, c8⟩, c9⟩, c10⟩, c11⟩, c12⟩, c13⟩ := h
  refine ⟨⟨⟨⟨⟨⟨⟨⟨⟨⟨⟨⟨c1, c2⟩, c3⟩, ?_⟩, ?_⟩, ?_⟩, c7⟩, c8⟩, c9⟩, ?_⟩, c11⟩, c12⟩, c13⟩
  · rw [← c4]
    exact sim_all_drop (fun l => l.meshes.isEmpty) (fun l _ => isEmpty_padLast l.meshes 0) hs _
  · rw [← c5]
    exact all_eq_of_map_eq (sim_map_meshes canonicalMesh (fun _ _ => rfl) hs)
  · rw [← c6]
    exact sim_all (fun l => startsOk 0 l.meshes) (fun l _ => startsOk_padLast l.meshes 0) hs
  · rw [← c10]
    exact sim_all (fun l => noNaNBlock (l.mid.take 8)) (fun _ _ => rfl) hs

theorem canonical_relayout (a : AbstractModel) (h : Canonical a = true) :
    Canonical (relayout a) = true := by
  rw [relayout_eq]
  exact canonical_sim a (relayout_sim a) h

/-! ### `LaidOut` -/

/-- equal up to the edge-geometry offsets -/
inductive EdgeSim : List ALod → List ALod → Prop
  | nil : EdgeSim [] []
  | cons (l : ALod) (e : UInt32) {ls ls' : List ALod} : EdgeSim ls ls' →
      EdgeSim (l :: ls) ({ l with edgeGeometryDataOffset := e } :: ls')

theorem edgeSim_zip (h : Nat → ALod → UInt32) (ls : List ALod) : ∀ s,
    EdgeSim ls ((List.zip (List.range' s ls.length) ls).map fun (i, l) =>
        { l with edgeGeometryDataOffset := h i l }) := by
  induction ls with
  | nil => intro s; exact EdgeSim.nil
  | cons x xs ih =>
    intro s
    simp only [List.length_cons, List.range'_succ, List.map_cons, List.zip_cons_cons]
    exact EdgeSim.cons x _ (ih (s + 1))

theorem relayout_edgeSim (a : AbstractModel) : EdgeSim (relayoutPads a).lods (relayout a).lods := by
  have := edgeSim_zip (fun i l => (sectionOffset (relayoutPads a) i + lodVertexSize l).toUInt32)
    (relayoutPads a).lods 0
  rw [← List.range_eq_range'] at this
  exact this

theorem zip_range_getElem? {β : Type} (g : Nat × ALod → β) (ls : List ALod) :
    ∀ (s i : Nat) (l : ALod), ls[i]? = some l →
      ((List.zip (List.range' s ls.length) ls).map g)[i]? = some (g (s + i, l)) := by
  induction ls with
  | nil => intro _ i l h; simp at h
  | cons x xs ih =>
    intro s i l h
    simp only [List.length_cons, List.range'_succ, List.map_cons, List.zip_cons_cons]
    cases i with
    | zero => simp at h; subst h; rfl
    | succ i =>
      simp only [List.getElem?_cons_succ] at h ⊢
      rw [ih (s + 1) i l h, show s + 1 + i = s + (i + 1) by omega]

theorem relayout_getElem? (a : AbstractModel) (i : Nat) (l : ALod) (h : a.lods[i]? = some l) :
    (relayout a).lods[i]? = some
      { l with meshes := padLast 0 l.meshes
               edgeGeometryDataOffset := (sectionOffset (relayoutPads a) i +
                 lodVertexSize { l with meshes := padLast 0 l.meshes }).toUInt32 } := by
  have h1 : (relayoutPads a).lods[i]? = some { l with meshes := padLast 0 l.meshes } := by
    show (a.lods.map _)[i]? = _
    rw [List.getElem?_map, h]; rfl
  have := zip_range_getElem? (fun (p : Nat × ALod) =>
      ({ p.2 with edgeGeometryDataOffset :=
          (sectionOffset (relayoutPads a) p.1 + lodVertexSize p.2).toUInt32 } : ALod))
    (relayoutPads a).lods 0 i _ h1
  rw [← List.range_eq_range', Nat.zero_add] at this
  exact this

theorem edgeSim_map {β : Type} (f : ALod → β)
    (hf : ∀ (l : ALod) (e : UInt32), f { l with edgeGeometryDataOffset := e } = f l)
    {ls L : List ALod} (h : EdgeSim ls L) : L.map f = ls.map f := by
  induction h with
  | nil => rfl
  | cons l e _ ih => simp only [List.map_cons, hf, ih]

theorem edgeSim_meshes {ls L : List ALod} (h : EdgeSim ls L) :
    L.flatMap (·.meshes) = ls.flatMap (·.meshes) := by
  rw [List.flatMap_def, List.flatMap_def, edgeSim_map (·.meshes) (fun _ _ => rfl) h]

theorem edgeSim_allMeshRows {ls L : List ALod} (h : EdgeSim ls L) :
    ∀ sb, allMeshRows sb L = allMeshRows sb ls := by
  induction h with
  | nil => intro _; rfl
  | cons l e _ ih => intro sb; simp only [allMeshRows, ih]

theorem edgeSim_lodRows_enc {ls L : List ALod} (h : EdgeSim ls L) : ∀ mb off,
    ((lodRows mb off L).flatMap encMeshLod).length =
      ((lodRows mb off ls).flatMap encMeshLod).length := by
  induction h with
  | nil => intro _ _; rfl
  | cons l e _ ih =>
    intro mb off
    simp only [lodRows, List.flatMap_cons, List.length_append]
    rw [show lodVertexSize { l with edgeGeometryDataOffset := e } = lodVertexSize l from rfl,
      show lodIndexSize { l with edgeGeometryDataOffset := e } = lodIndexSize l from rfl, ih]
    simp [encMeshLod]

theorem modelDataAt_withLods (a : AbstractModel) (L : List ALod) (d : Nat) :
    modelDataAt (withLods a L) d =
      { modelDataAt a d with
        decls := (L.flatMap (·.meshes)).map (fun (x : AMesh) => x.decl)
        header :=
          { (modelDataAt a d).header with
            meshCount := (L.flatMap (·.meshes)).length.toUInt16
            submeshCount :=
              ((L.flatMap (·.meshes)).map (fun (x : AMesh) => x.submeshes.length)).sum.toUInt16 }
        lods := lodRows 0 d L
        meshes := allMeshRows 0 L
        submeshes := (L.flatMap (·.meshes)).flatMap (fun (x : AMesh) => x.submeshes) } := rfl

private theorem length_encModelData_lods (v : UInt32) (Y : ModelData) (R : List MeshLod)
    (h : (R.flatMap encMeshLod).length = (Y.lods.flatMap encMeshLod).length) :
    (encModelData v { Y with lods := R }).length = (encModelData v Y).length := by
  simp only [encModelData, List.length_append, h]

theorem runtimeBlockSize_edgeSim (a : AbstractModel) {ls L : List ALod} (h : EdgeSim ls L) :
    runtimeBlockSize (withLods a L) = runtimeBlockSize (withLods a ls) := by
  unfold runtimeBlockSize
  show (encModelData a.version (modelDataAt (withLods a L) 0)).length =
    (encModelData a.version (modelDataAt (withLods a ls) 0)).length
  rw [modelDataAt_withLods, modelDataAt_withLods a ls, edgeSim_meshes h, edgeSim_allMeshRows h]
  exact length_encModelData_lods a.version
    { modelDataAt a 0 with
        decls := (ls.flatMap (·.meshes)).map (fun (x : AMesh) => x.decl)
        header :=
          { (modelDataAt a 0).header with
            meshCount := (ls.flatMap (·.meshes)).length.toUInt16
            submeshCount :=
              ((ls.flatMap (·.meshes)).map (fun (x : AMesh) => x.submeshes.length)).sum.toUInt16 }
        lods := lodRows 0 0 ls
        meshes := allMeshRows 0 ls
        submeshes := (ls.flatMap (·.meshes)).flatMap (fun (x : AMesh) => x.submeshes) }
    (lodRows 0 0 L) (edgeSim_lodRows_enc h 0 0)

theorem sectionOffset_relayout (a : AbstractModel) (i : Nat) :
    sectionOffset (relayout a) i = sectionOffset (relayoutPads a) i := by
  have hs := relayout_edgeSim a
  unfold sectionOffset dataStart
  rw [show runtimeBlockSize (relayout a) = runtimeBlockSize (withLods a (relayout a).lods) from rfl,
    show runtimeBlockSize (relayoutPads a) = runtimeBlockSize (withLods a (relayoutPads a).lods)
      from rfl,
    runtimeBlockSize_edgeSim a hs, List.map_take, List.map_take,
    edgeSim_map (fun l => lodVertexSize l + lodIndexSize l) (fun _ _ => rfl) hs]

theorem padLast_spec (l : List AMesh) : l ≠ [] → ∀ ib, ∃ last,
    (padLast ib l)[(padLast ib l).length - 1]? = some last ∧
    ib + ((padLast ib l).map meshIndexWords).sum =
      (2 * (ib + ((padLast ib l).map meshIndexWords).sum - last.indexPad) / 16 + 1) * 8 := by
  induction l with
  | nil => intro h; exact absurd rfl h
  | cons x xs ih =>
    intro _ ib
    cases xs with
    | nil =>
      refine ⟨_, rfl, ?_⟩
      simp only [padLast, List.map_cons, List.map_nil, List.sum_cons, List.sum_nil, meshIndexWords]
      omega
    | cons y rest =>
      obtain ⟨last, h1, h2⟩ := ih (by simp) (ib + meshIndexWords x)
      have hlen : (padLast (ib + meshIndexWords x) (y :: rest)).length = rest.length + 1 := by
        rw [length_padLast]; rfl
      rw [hlen, Nat.add_sub_cancel] at h1
      refine ⟨last, ?_, ?_⟩
      · simp only [padLast, List.length_cons]
        rw [hlen, Nat.add_sub_cancel, List.getElem?_cons_succ]
        exact h1
      · simp only [padLast, List.map_cons, List.sum_cons]
        omega

theorem lodIndexSize_padLast (l : ALod) (e : UInt32) (hne : l.meshes ≠ []) :
    lodIndexSize { l with meshes := padLast 0 l.meshes, edgeGeometryDataOffset := e } =
      paddedIndexSize { l with meshes := padLast 0 l.meshes, edgeGeometryDataOffset := e } := by
  obtain ⟨last, h1, h2⟩ := padLast_spec l.meshes hne 0
  show 2 * ((padLast 0 l.meshes).map meshIndexWords).sum =
    (2 * (match (padLast 0 l.meshes)[(padLast 0 l.meshes).length - 1]? with
      | some last => ((padLast 0 l.meshes).map meshIndexWords).sum - last.indexPad
      | none => 0) / 16 + 1) * 16
  rw [h1]
  simp only []
  omega

theorem laidOut_relayout (a : AbstractModel) (hl : a.lods.length = 3) (hc : a.lodCount.toNat ≤ 3)
    (hne : ∀ i l, i < a.lodCount.toNat → a.lods[i]? = some l → l.meshes ≠ []) :
    LaidOut (relayout a) = true := by
  unfold LaidOut
  rw [List.all_eq_true]
  intro i hi
  have hi : i < a.lodCount.toNat := List.mem_range.mp hi
  have hlt : i < a.lods.length := by omega
  have hget : a.lods[i]? = some a.lods[i] := List.getElem?_eq_getElem hlt
  have hne' := hne i _ hi hget
  rw [relayout_getElem? a i _ hget]
  simp only [Bool.and_eq_true, Bool.not_eq_true', beq_iff_eq]
  refine ⟨⟨?_, lodIndexSize_padLast _ _ hne'⟩, ?_⟩
  · rw [isEmpty_padLast]
    cases hm : a.lods[i].meshes with
    | nil => exact absurd hm hne'
    | cons _ _ => rfl
  · rw [sectionOffset_relayout]
    rfl

end Physis.Mdl
