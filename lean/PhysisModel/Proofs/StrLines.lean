import PhysisModel.Model.StrLines
/-! Lemmas about the std-lib text models (`lines`, `split_once`, slicing). -/
namespace Physis.StrLines

theorem rawLines_append_lf (l rest : Bytes) (h : 10 ∉ l) :
    rawLines (l ++ 10 :: rest) = (l, true) :: rawLines rest := by
  induction l with
  | nil => simp [rawLines]
  | cons b t ih =>
    have hb : b ≠ 10 := by intro e; apply h; simp [e]
    have ht : 10 ∉ t := by intro e; apply h; simp [e]
    simp [rawLines, hb, ih ht]

theorem rawLines_noLF (l : Bytes) (h : 10 ∉ l) (hne : l ≠ []) : rawLines l = [(l, false)] := by
  induction l with
  | nil => exact absurd rfl hne
  | cons b t ih =>
    have hb : b ≠ 10 := by intro e; apply h; simp [e]
    have ht : 10 ∉ t := by intro e; apply h; simp [e]
    cases t with
    | nil => simp [rawLines, hb]
    | cons c u =>
      have e := ih ht (by simp)
      rw [rawLines, if_neg hb, e]

theorem stripEol_cr (l : Bytes) : stripEol (l ++ [13], true) = l := by
  simp [stripEol]

/-- a CRLF-terminated line without LF is read back as itself -/
theorem lines_crlf (l rest : Bytes) (h : 10 ∉ l) :
    lines (l ++ [13, 10] ++ rest) = l :: lines rest := by
  have h' : 10 ∉ l ++ [13] := by simp [h]
  have e : l ++ [13, 10] ++ rest = (l ++ [13]) ++ 10 :: rest := by simp
  rw [e, lines, rawLines_append_lf _ _ h', List.map_cons, stripEol_cr, lines]

/-- an LF-terminated line without LF that does not end in CR is read back as itself -/
theorem lines_lf (l rest : Bytes) (h : 10 ∉ l) (hcr : l.getLast? ≠ some 13) :
    lines (l ++ 10 :: rest) = l :: lines rest := by
  rw [lines, rawLines_append_lf _ _ h, List.map_cons, lines]
  simp [stripEol, hcr]

/-- a last line without LF is read back as itself -/
theorem lines_last (l : Bytes) (h : 10 ∉ l) (hne : l ≠ []) : lines l = [l] := by
  simp [lines, rawLines_noLF l h hne, stripEol]

theorem lines_nil : lines [] = [] := rfl

theorem lines_flatMap_crlf (ls : List Bytes) (tail : Bytes) (h : ∀ l ∈ ls, 10 ∉ l) :
    lines (ls.flatMap (fun l => l ++ [13, 10]) ++ tail) = ls ++ lines tail := by
  induction ls with
  | nil => simp
  | cons l t ih =>
    have hl : 10 ∉ l := h l (by simp)
    have ht : ∀ x ∈ t, 10 ∉ x := fun x hx => h x (by simp [hx])
    rw [List.flatMap_cons, List.append_assoc, lines_crlf _ _ hl, ih ht, List.cons_append]

theorem splitOnce_append (d : UInt8) (k v : Bytes) (h : d ∉ k) :
    splitOnce d (k ++ d :: v) = some (k, v) := by
  induction k with
  | nil => simp [splitOnce]
  | cons b t ih =>
    have hb : b ≠ d := by intro e; apply h; simp [e]
    have ht : d ∉ t := by intro e; apply h; simp [e]
    simp [splitOnce, hb, ih ht]

theorem splitOnce_none (d : UInt8) (l : Bytes) (h : d ∉ l) : splitOnce d l = none := by
  induction l with
  | nil => simp [splitOnce]
  | cons b t ih =>
    have hb : b ≠ d := by intro e; apply h; simp [e]
    have ht : d ∉ t := by intro e; apply h; simp [e]
    simp [splitOnce, hb, ih ht]

/-- `&line[1 .. line.len()-1]` of `<name>` is `name` -/
theorem slice_bracket (n : Bytes) (hn : ∀ b, n.head? = some b → (b &&& 0xC0) ≠ 0x80) :
    slice (60 :: (n ++ [62])) 1 ((60 :: (n ++ [62])).length - 1) = some n := by
  have hb1 : isBoundary (60 :: (n ++ [62])) 1 = true := by
    cases n with
    | nil => simp [isBoundary, isCont]; decide
    | cons b t =>
      have := hn b (by simp)
      simp [isBoundary, isCont, this]
  have hb2 : isBoundary (60 :: (n ++ [62])) (n.length + 1) = true := by
    simp [isBoundary, isCont]; decide
  simp [slice, hb1, hb2]

end Physis.StrLines
