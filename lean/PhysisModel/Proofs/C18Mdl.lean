import PhysisModel.Base.ParserALemmas
import PhysisModel.Model.C18Mdl
/-! `PGood` for the binrw stage of the model reader, and `Good` for the hand-written stage. -/
namespace Physis.C18Mdl
open Physis Physis.A

theorem u8Nat_good : PGood u8Nat := PGood.map PGood.u8
theorem u16Nat_good : PGood u16Nat := PGood.map PGood.u16le
theorem u32Nat_good : PGood u32Nat := PGood.map PGood.u32le

theorem fileHeader_good : PGood fileHeader := by
  have := u16Nat_good; have := u32Nat_good
  unfold fileHeader; pgood

theorem element_good : PGood element := by
  have := u8Nat_good
  unfold element; pgood

theorem u8Nat_consumes : Consumes u8Nat := by
  intro w s a s' h
  unfold u8Nat P.map P.bind P.u8 at h
  split at h
  · next a0 s1 k heq =>
    split at heq
    · next x r hr =>
      simp only [Res.ok] at heq
      cases heq
      simp only [P.pure, Res.ok] at h
      cases h
      simp only [hr, List.length_cons]; omega
    · cases heq
  · cases h
  · cases h

theorem element_consumes : Consumes element := by
  unfold element
  apply Consumes.of_first u8Nat_consumes
  intro a w s b s' h
  have hn : NonInc (do
      let offset ← u8Nat
      let ty ← P.reprEnum u8Nat vertexTypes
      let usage ← P.reprEnum u8Nat vertexUsages
      let _ ← P.u8
      P.skip 3
      (pure ⟨a, offset, ty, usage⟩ : P Element)) := by
    apply NonInc.bind u8Nat_consumes.nonInc; intro _
    apply NonInc.bind
    · unfold P.reprEnum
      apply NonInc.bind u8Nat_consumes.nonInc; intro v
      split
      · exact NonInc.pure _
      · intro w s a s' h; cases h
    intro _
    apply NonInc.bind
    · unfold P.reprEnum
      apply NonInc.bind u8Nat_consumes.nonInc; intro v
      split
      · exact NonInc.pure _
      · intro w s a s' h; cases h
    intro _
    apply NonInc.bind NonInc.u8; intro _
    apply NonInc.bind (NonInc.skip 3); intro _
    exact NonInc.pure _
  exact hn w s b s' h

theorem declGo_good (w : Bytes) :
    ∀ (fuel : Nat) (s : St) (pk : Nat) (acc : List Element), Inv w s → pk ≤ budget w.length →
      s.rest.length < fuel →
      Good (budget w.length) (declGo w fuel s pk acc) ∧
      ∀ a s', (declGo w fuel s pk acc).out = .ok (a, s') → Inv w s' := by
  intro fuel
  induction fuel with
  | zero => intro s pk acc _ _ h; omega
  | succ f ih =>
    intro s pk acc hs hpk hf
    obtain ⟨⟨g1, g2⟩, hi⟩ := element_good w s hs
    unfold declGo
    split
    · next e s' k heq =>
      rw [heq] at g2 hi
      have hlt := element_consumes w s e s' (by rw [heq])
      split
      · exact ⟨⟨not_faults_ok _ _, Nat.max_le.mpr ⟨hpk, g2⟩⟩,
          by intro a s'' he; cases he; exact hi e s' rfl⟩
      · exact ih s' (max pk k) (e :: acc) (hi e s' rfl) (Nat.max_le.mpr ⟨hpk, g2⟩) (by omega)
    · next e k heq =>
      rw [heq] at g2
      exact ⟨⟨not_faults_fail _ _, Nat.max_le.mpr ⟨hpk, g2⟩⟩, by intro a s' he; cases he⟩
    · next x k heq =>
      rw [heq] at g1; exact absurd ⟨x, rfl⟩ g1

theorem declElems_good (e0 : Element) : PGood (declElems e0) := by
  intro w s hs
  exact declGo_good w (s.rest.length + 1) s 0 [e0] hs (Nat.zero_le _) (Nat.lt_succ_self _)

theorem declaration_good : PGood declaration := by
  unfold declaration
  apply PGood.bind element_good; intro e0
  apply PGood.bind (declElems_good e0); intro els
  pgood

theorem header_good (n : Nat) (hn : n ≤ 65535) : PGood (header n) := by
  have := u8Nat_good; have := u16Nat_good; have := u32Nat_good; have := declaration_good
  have h0 : PGood (P.lift (vecAlloc n 24)) :=
    PGood.lift (fun B hB => good_vecAlloc (by unfold ISIZEMAX; omega) (by omega))
  unfold header; pgood

theorem meshLod_good : PGood meshLod := by
  have := u16Nat_good; have := u32Nat_good
  unfold meshLod; pgood

theorem mesh_good : PGood mesh := by
  have := u8Nat_good; have := u16Nat_good; have := u32Nat_good
  unfold mesh; pgood

theorem boneTable_good : PGood boneTable := by unfold boneTable; pgood

theorem boneTableV2_good : PGood boneTableV2 := by
  have := u16Nat_good
  unfold boneTableV2; pgood

theorem shape_good : PGood shape := by
  have := u16Nat_good; have := u32Nat_good
  unfold shape; pgood
theorem shapeMesh_good : PGood shapeMesh := by
  have := u32Nat_good
  unfold shapeMesh; pgood
theorem shapeValue_good : PGood shapeValue := by
  have := u16Nat_good
  unfold shapeValue; pgood

theorem padding_good : PGood padding := by
  unfold padding
  apply PGood.bind PGood.u8
  intro n
  exact PGood.countBytes (by have := n.toNat_lt; omega)

/-- the declaration count is a `u16` -/
theorem u16Nat_le : PPost u16Nat (fun v => v ≤ 65535) :=
  PPost.map (fun a => by have := UInt16.toNat_lt a; omega)

theorem fileHeader_post : PPost fileHeader (fun fh => fh.declCount ≤ 65535) := by
  unfold fileHeader
  refine PPost.bind_skip (fun version => ?_)
  refine PPost.bind_skip (fun _ => ?_)
  refine PPost.bind_skip (fun _ => ?_)
  refine PPost.bind (Q1 := fun v => v ≤ 65535) u16Nat_le (fun declCount hd => ?_)
  refine PPost.bind_skip (fun _ => ?_)
  refine PPost.bind_skip (fun _ => ?_)
  refine PPost.bind_skip (fun _ => ?_)
  refine PPost.bind_skip (fun _ => ?_)
  refine PPost.bind_skip (fun _ => ?_)
  refine PPost.bind_skip (fun _ => ?_)
  refine PPost.bind_skip (fun _ => ?_)
  refine PPost.bind_skip (fun _ => ?_)
  refine PPost.bind_skip (fun _ => ?_)
  refine PPost.bind_skip (fun _ => ?_)
  exact PPost.pure hd

theorem tables_good (hd : Header) : PGood (tables hd) := by
  have := meshLod_good; have := mesh_good
  unfold tables; pgood

theorem boneTables_good (v n : Nat) : PGood (boneTables v n) := by
  have := boneTable_good; have := boneTableV2_good
  unfold boneTables; pgood

theorem shapeTables_good (hd : Header) : PGood (shapeTables hd) := by
  have := shape_good; have := shapeMesh_good; have := shapeValue_good
  unfold shapeTables; pgood

theorem trailer_good (v n : Nat) : PGood (trailer v n) := by
  have := u16Nat_good; have := u32Nat_good; have := padding_good
  unfold trailer; pgood

theorem modelData_good (fh : FileHeader) (h : fh.declCount ≤ 65535) : PGood (modelData fh) := by
  unfold modelData
  apply PGood.bind (header_good fh.declCount h); intro hd
  apply PGood.bind (tables_good hd); intro t
  apply PGood.bind (boneTables_good _ _); intro _
  apply PGood.bind (shapeTables_good hd); intro t2
  apply PGood.bind (trailer_good _ _); intro _
  exact PGood.pure _

theorem modelFile_good : PGood modelFile := by
  unfold modelFile
  exact PGood.bind_post fileHeader_good fileHeader_post (fun fh h => modelData_good fh h)

theorem mdlHeader_good (b : Bytes) : Good (budget b.length) (mdlHeader b) := by
  unfold mdlHeader
  apply PGood.run
  have := modelFile_good
  pgood

end Physis.C18Mdl
