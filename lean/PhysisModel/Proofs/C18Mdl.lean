import PhysisModel.Base.ParserALemmas
import PhysisModel.Model.C18Mdl
/-! `PGood` for the binrw stage of the model reader, and `Good` for the hand-written stage. -/
namespace Physis.C18Mdl
open Physis Physis.A

theorem u8Nat_good : PGood u8Nat := PGood.map PGood.u8
theorem u16Nat_good : PGood u16Nat := PGood.map PGood.u16le
theorem u32Nat_good : PGood u32Nat := PGood.map PGood.u32le

theorem fileHeader_good : PGood fileHeader := by
  have := u16Nat_good; have := u32Nat_good
  unfold fileHeader; pgood

theorem element_good : PGood element := by
  have := u8Nat_good
  unfold element; pgood

theorem u8Nat_consumes : Consumes u8Nat := by
  intro w s a s' h
  unfold u8Nat P.map P.bind P.u8 at h
  split at h
  · next a0 s1 k heq =>
    split at heq
    · next x r hr =>
      simp only [Res.ok] at heq
      cases heq
      simp only [P.pure, Res.ok] at h
      cases h
      simp only [hr, List.length_cons]; omega
    · cases heq
  · cases h
  · cases h

theorem element_consumes : Consumes element := by
  unfold element
  apply Consumes.of_first u8Nat_consumes
  intro a w s b s' h
  have hn : NonInc (do
      let offset ← u8Nat
      let ty ← P.reprEnum u8Nat vertexTypes
      let usage ← P.reprEnum u8Nat vertexUsages
      let _ ← P.u8
      P.skip 3
      (pure ⟨a, offset, ty, usage⟩ : P Element)) := by
    apply NonInc.bind u8Nat_consumes.nonInc; intro _
    apply NonInc.bind
    · unfold P.reprEnum
      apply NonInc.bind u8Nat_consumes.nonInc; intro v
      split
      · exact NonInc.pure _
      · intro w s a s' h; cases h
    intro _
    apply NonInc.bind
    · unfold P.reprEnum
      apply NonInc.bind u8Nat_consumes.nonInc; intro v
      split
      · exact NonInc.pure _
      · intro w s a s' h; cases h
    intro _
    apply NonInc.bind NonInc.u8; intro _
    apply NonInc.bind (NonInc.skip 3); intro _
    exact NonInc.pure _
  exact hn w s b s' h

theorem declGo_good (w : Bytes) :
    ∀ (fuel : Nat) (s : St) (pk : Nat) (acc : List Element), Inv w s → pk ≤ budget w.length →
      s.rest.length < fuel →
      Good (budget w.length) (declGo w fuel s pk acc) ∧
      ∀ a s', (declGo w fuel s pk acc).out = .ok (a, s') → Inv w s' := by
  intro fuel
  induction fuel with
  | zero => intro s pk acc _ _ h; omega
  | succ f ih =>
    intro s pk acc hs hpk hf
    obtain ⟨⟨g1, g2⟩, hi⟩ := element_good w s hs
    unfold declGo
    split
    · next e s' k heq =>
      rw [heq] at g2 hi
      have hlt := element_consumes w s e s' (by rw [heq])
      split
      · exact ⟨⟨not_faults_ok _ _, Nat.max_le.mpr ⟨hpk, g2⟩⟩,
          by intro a s'' he; cases he; exact hi e s' rfl⟩
      · exact ih s' (max pk k) (e :: acc) (hi e s' rfl) (Nat.max_le.mpr ⟨hpk, g2⟩) (by omega)
    · next e k heq =>
      rw [heq] at g2
      exact ⟨⟨not_faults_fail _ _, Nat.max_le.mpr ⟨hpk, g2⟩⟩, by intro a s' he; cases he⟩
    · next x k heq =>
      rw [heq] at g1; exact absurd ⟨x, rfl⟩ g1

theorem declElems_good (e0 : Element) : PGood (declElems e0) := by
  intro w s hs
  exact declGo_good w (s.rest.length + 1) s 0 [e0] hs (Nat.zero_le _) (Nat.lt_succ_self _)

theorem declaration_good : PGood declaration := by
  unfold declaration
  apply PGood.bind element_good; intro e0
  apply PGood.bind (declElems_good e0); intro els
  pgood

theorem header_good (n : Nat) (hn : n ≤ 65535) : PGood (header n) := by
  have := u8Nat_good; have := u16Nat_good; have := u32Nat_good; have := declaration_good
  have h0 : PGood (P.lift (vecAlloc n 24)) :=
    PGood.lift (fun B hB => good_vecAlloc (by unfold ISIZEMAX; omega) (by omega))
  unfold header; pgood

theorem meshLod_good : PGood meshLod := by
  have := u16Nat_good; have := u32Nat_good
  unfold meshLod; pgood

theorem mesh_good : PGood mesh := by
  have := u8Nat_good; have := u16Nat_good; have := u32Nat_good
  unfold mesh; pgood

theorem boneTable_good : PGood boneTable := by unfold boneTable; pgood

theorem boneTableV2_good : PGood boneTableV2 := by
  have := u16Nat_good
  unfold boneTableV2; pgood

theorem shape_good : PGood shape := by
  have := u16Nat_good; have := u32Nat_good
  unfold shape; pgood
theorem shapeMesh_good : PGood shapeMesh := by
  have := u32Nat_good
  unfold shapeMesh; pgood
theorem shapeValue_good : PGood shapeValue := by
  have := u16Nat_good
  unfold shapeValue; pgood

theorem padding_good : PGood padding := by
  unfold padding
  apply PGood.bind PGood.u8
  intro n
  exact PGood.countBytes (by have := n.toNat_lt; omega)

/-- the declaration count is a `u16` -/
theorem u16Nat_le : PPost u16Nat (fun v => v ≤ 65535) :=
  PPost.map (fun a => by have := UInt16.toNat_lt a; omega)

theorem fileHeader_post : PPost fileHeader (fun fh => fh.declCount ≤ 65535) := by
  unfold fileHeader
  refine PPost.bind_skip (fun version => ?_)
  refine PPost.bind_skip (fun _ => ?_)
  refine PPost.bind_skip (fun _ => ?_)
  refine PPost.bind (Q1 := fun v => v ≤ 65535) u16Nat_le (fun declCount hd => ?_)
  refine PPost.bind_skip (fun _ => ?_)
  refine PPost.bind_skip (fun _ => ?_)
  refine PPost.bind_skip (fun _ => ?_)
  refine PPost.bind_skip (fun _ => ?_)
  refine PPost.bind_skip (fun _ => ?_)
  refine PPost.bind_skip (fun _ => ?_)
  refine PPost.bind_skip (fun _ => ?_)
  refine PPost.bind_skip (fun _ => ?_)
  refine PPost.bind_skip (fun _ => ?_)
  refine PPost.bind_skip (fun _ => ?_)
  exact PPost.pure hd

theorem tables_good (hd : Header) : PGood (tables hd) := by
  have := meshLod_good; have := mesh_good
  unfold tables; pgood

theorem boneTables_good (v n : Nat) : PGood (boneTables v n) := by
  have := boneTable_good; have := boneTableV2_good
  unfold boneTables; pgood

theorem shapeTables_good (hd : Header) : PGood (shapeTables hd) := by
  have := shape_good; have := shapeMesh_good; have := shapeValue_good
  unfold shapeTables; pgood

theorem trailer_good (v n : Nat) : PGood (trailer v n) := by
  have := u16Nat_good; have := u32Nat_good; have := padding_good
  unfold trailer; pgood

theorem modelData_good (fh : FileHeader) (h : fh.declCount ≤ 65535) : PGood (modelData fh) := by
  unfold modelData
  apply PGood.bind (header_good fh.declCount h); intro hd
  apply PGood.bind (tables_good hd); intro t
  apply PGood.bind (boneTables_good _ _); intro _
  apply PGood.bind (shapeTables_good hd); intro t2
  apply PGood.bind (trailer_good _ _); intro _
  exact PGood.pure _

theorem modelFile_good : PGood modelFile := by
  unfold modelFile
  exact PGood.bind_post fileHeader_good fileHeader_post (fun fh h => modelData_good fh h)

theorem mdlHeader_good (b : Bytes) : Good (budget b.length) (mdlHeader b) := by
  unfold mdlHeader
  apply PGood.run
  have := modelFile_good
  pgood

/-! ## stage 2 -/

theorem readName_good (B : Nat) (strings : Bytes) (o : Nat) : Good B (readName strings o) := by
  unfold readName; split
  · split <;> simp
  · simp

theorem names_good (B : Nat) (strings : Bytes) : ∀ l, Good B (names strings l) := by
  intro l
  induction l with
  | nil => unfold names; simp
  | cons o r ih =>
    unfold names
    exact Good.bind' (readName_good B strings o) (fun _ => ih)

theorem readable_good (B len pos n : Nat) : Good B (readable len pos n) := by
  unfold readable; split
  · simp
  · exact good_guard _ _

theorem elementRead_good (B len : Nat) (lod : MeshLod) (me : Mesh) (k : Nat) (e : Element) :
    Good B (elementRead len lod me k e) := by
  unfold elementRead
  apply Good.bind' (good_ofOption _ _); intro off
  apply Good.bind' (good_ofOption _ _); intro stride
  apply Good.bind' (good_ofOption _ _); intro n
  exact readable_good _ _ _ _

theorem elementsLoop_good (B len : Nat) (lod : MeshLod) (me : Mesh) (k : Nat) :
    ∀ l, Good B (elementsLoop len lod me k l) := by
  intro l
  induction l with
  | nil => unfold elementsLoop; simp
  | cons e r ih =>
    unfold elementsLoop
    exact Good.bind' (elementRead_good B len lod me k e) (fun _ => ih)

theorem vertexLoop_good (B len : Nat) (lod : MeshLod) (me : Mesh) (decl : List Element) :
    ∀ n k, Good B (vertexLoop len lod me decl n k) := by
  intro n
  induction n with
  | zero => intro k; unfold vertexLoop; simp
  | succ n ih =>
    intro k
    unfold vertexLoop
    exact Good.bind' (elementsLoop_good B len lod me k decl) (fun _ => ih (k + 1))

theorem shapeValuesLoop_good (B : Nat) (indices : Array Nat) (vc : Nat) :
    ∀ l, Good B (shapeValuesLoop indices vc l) := by
  intro l
  induction l with
  | nil => unfold shapeValuesLoop; simp
  | cons v r ih =>
    unfold shapeValuesLoop
    apply Good.bind' (good_ofOption _ _); intro base
    apply Good.bind (good_guard _ _); intro u hu
    have hb := guard_ok hu
    apply Good.bind' (good_guard _ _); intro _
    apply Good.bind' (good_require hb); intro _
    exact ih

theorem shapeStartAt_good (B : Nat) (sh : Shape) {i : Nat} (hi : i < 3) : Good B (shapeStartAt sh i) := by
  match i, hi with
  | 0, _ => simp [shapeStartAt]
  | 1, _ => simp [shapeStartAt]
  | 2, _ => simp [shapeStartAt]

theorem shapeCountAt_good (B : Nat) (sh : Shape) {i : Nat} (hi : i < 3) : Good B (shapeCountAt sh i) := by
  match i, hi with
  | 0, _ => simp [shapeCountAt]
  | 1, _ => simp [shapeCountAt]
  | 2, _ => simp [shapeCountAt]

theorem indexOffsetAt_good (B : Nat) (fh : FileHeader) {i : Nat} (hi : i < 3) : Good B (indexOffsetAt fh i) := by
  match i, hi with
  | 0, _ => simp [indexOffsetAt]
  | 1, _ => simp [indexOffsetAt]
  | 2, _ => simp [indexOffsetAt]

theorem vbAtF_good (B : Nat) (me : Mesh) {i : Nat} (hi : i < 3) : Good B (vbAtF me i) := by
  match i, hi with
  | 0, _ => simp [vbAtF]
  | 1, _ => simp [vbAtF]
  | 2, _ => simp [vbAtF]

theorem strideAt_ok {me : Mesh} {i a : Nat} (h : (Res.ofOption (strideAt me i)).out = .ok a) : i < 3 := by
  match i with
  | 0 => omega
  | 1 => omega
  | 2 => omega
  | n + 3 => simp [strideAt, Res.ofOption, Res.fail] at h

theorem lodAt_ok {m : Model} {i : Nat} {a : MeshLod} (h : (Res.ofOption (lodAt m i)).out = .ok a) : i < 3 := by
  match i with
  | 0 => omega
  | 1 => omega
  | 2 => omega
  | n + 3 => simp [lodAt, Res.ofOption, Res.fail] at h

theorem vertices_alloc_good {B : Nat} (hB : 16777216 ≤ B) (n : UInt16) (sz : Nat) (hsz : sz ≤ 92) :
    Good B (vecAlloc n.toNat sz) := by
  have h1 := n.toNat_lt
  have h2 : n.toNat * sz ≤ 65535 * 92 := Nat.mul_le_mul (by omega) hsz
  exact good_vecAlloc (by unfold ISIZEMAX; omega) (by omega)

theorem shapeBody_good {B : Nat} (hB : 16777216 ≤ B) (m : Model) {i : Nat} (hi : i < 3) (me : Mesh)
    (indices : Array Nat) (sh : Shape) : Good B (shapeBody m i me indices sh) := by
  unfold shapeBody
  apply Good.bind' (shapeStartAt_good B sh hi); intro start
  apply Good.bind' (shapeCountAt_good B sh hi); intro cnt
  apply Good.bind' (vertices_alloc_good hB _ 92 (by omega)); intro _
  split
  · simp
  · apply Good.bind' (shapeValuesLoop_good _ _ _ _); intro _
    exact readName_good _ _ _

theorem shapesLoop_good {B : Nat} (hB : 16777216 ≤ B) (m : Model) {i : Nat} (hi : i < 3) (me : Mesh)
    (indices : Array Nat) : ∀ l, Good B (shapesLoop m i me indices l) := by
  intro l
  induction l with
  | nil => unfold shapesLoop; simp
  | cons sh r ih =>
    unfold shapesLoop
    exact Good.bind' (shapeBody_good hB m hi me indices sh) (fun _ => ih)

theorem streamRows_good (B len base stride : Nat) : ∀ n z, Good B (streamRows len base stride n z) := by
  intro n
  induction n with
  | zero => intro z; unfold streamRows; simp
  | succ n ih =>
    intro z
    unfold streamRows
    exact Good.bind' (readable_good _ _ _ _) (fun _ => ih (z + 1))

theorem streamsLoop_good (B len : Nat) (lod : MeshLod) (me : Mesh) :
    ∀ n st, Good B (streamsLoop len lod me n st) := by
  intro n
  induction n with
  | zero => intro st; unfold streamsLoop; simp
  | succ n ih =>
    intro st
    unfold streamsLoop
    apply Good.bind (good_ofOption _ _); intro stride hs
    apply Good.bind' (vbAtF_good B me (strideAt_ok hs)); intro vb
    apply Good.bind' (streamRows_good _ _ _ _ _ _); intro _
    exact ih (st + 1)

theorem meshBody_good {B : Nat} (hB : 16777216 ≤ B) (w : Bytes) (len : Nat) (hl : len ≤ B) (m : Model)
    {i : Nat} (hi : i < 3) (lod : MeshLod) (j : Nat) : Good B (meshBody w len m i lod j) := by
  unfold meshBody
  apply Good.bind' (good_ofOption _ _); intro decl
  apply Good.bind' (good_ofOption _ _); intro me
  apply Good.bind' (vertices_alloc_good hB _ 92 (by omega)); intro _
  apply Good.bind' (vertexLoop_good _ _ _ _ _ _ _); intro _
  apply Good.bind' (indexOffsetAt_good B m.fh hi); intro io
  dsimp only
  apply Good.bind (good_guard _ _); intro u hu
  have hg := of_decide_eq_true (guard_ok hu)
  have hic := me.indexCount.toNat_lt
  apply Good.bind' (good_vecAlloc (by unfold ISIZEMAX; omega) (by omega)); intro _
  apply Good.bind' (good_guard _ _); intro _
  apply Good.bind' (vertices_alloc_good hB _ 16 (by omega)); intro _
  apply Good.bind' (good_guard _ _); intro _
  apply Good.bind' (shapesLoop_good hB m hi _ _ _); intro _
  exact streamsLoop_good _ _ _ _ _ _

theorem meshesLoop_good {B : Nat} (hB : 16777216 ≤ B) (w : Bytes) (len : Nat) (hl : len ≤ B) (m : Model)
    {i : Nat} (hi : i < 3) (lod : MeshLod) : ∀ n j, Good B (meshesLoop w len m i lod n j) := by
  intro n
  induction n with
  | zero => intro j; unfold meshesLoop; simp
  | succ n ih =>
    intro j
    unfold meshesLoop
    exact Good.bind' (meshBody_good hB w len hl m hi lod j) (fun _ => ih (j + 1))

theorem lodsLoop_good {B : Nat} (hB : 16777216 ≤ B) (w : Bytes) (len : Nat) (hl : len ≤ B) (m : Model) :
    ∀ n i, Good B (lodsLoop w len m n i) := by
  intro n
  induction n with
  | zero => intro i; unfold lodsLoop; simp
  | succ n ih =>
    intro i
    unfold lodsLoop
    apply Good.bind (good_ofOption _ _); intro lod hlod
    apply Good.bind' (good_addQ _ _ _ _); intro hi
    apply Good.bind' (meshesLoop_good hB w len hl m (lodAt_ok hlod) lod _ _); intro _
    exact ih (i + 1)

theorem post_good {B : Nat} (hB : 16777216 ≤ B) (w : Bytes) (hl : w.length ≤ B) (m : Model) :
    Good B (post w m) := by
  unfold post
  apply Good.bind' (names_good _ _ _); intro _
  apply Good.bind' (names_good _ _ _); intro _
  exact lodsLoop_good hB w w.length hl m _ _

theorem mdl_good (b : Bytes) : Good (budget b.length) (mdl b) := by
  unfold mdl
  apply Good.bind' (PGood.run modelFile_good b); intro m
  exact post_good (budget_ge _) b (by unfold budget; omega) m

end Physis.C18Mdl
