import PhysisModel.Base.ParserALemmas
import PhysisModel.Model.C18Arc
import PhysisModel.Proofs.C18Hdr
namespace Physis.C18Arc
open Physis Physis.A Physis.C18Hdr

theorem segment_good : PGood segment := by
  have := u32leNat_good
  unfold segment; pgood
theorem indexHeader_good : PGood indexHeader := by
  have := segment_good; have := u8Nat_good
  unfold indexHeader; pgood
theorem fileEntry_good (t : Nat) : PGood (fileEntry t) := by unfold fileEntry; pgood
theorem dataEntry_good : PGood dataEntry := by unfold dataEntry; pgood
theorem folderEntry_good : PGood folderEntry := by unfold folderEntry; pgood
theorem indexFile_good : PGood indexFile := by
  have := sqpackHeader_good; have := indexHeader_good; have := fileEntry_good
  have := dataEntry_good; have := folderEntry_good
  unfold indexFile; pgood

theorem rfindSlash_go_lt : ∀ (l : Bytes) (i : Nat) (last : Option Nat) (p : Nat),
    (∀ q, last = some q → q < i) → rfindSlash.go l i last = some p → p < i + l.length := by
  intro l
  induction l with
  | nil => intro i last p hl h; unfold rfindSlash.go at h; simp only [List.length_nil]; have := hl p h; omega
  | cons x r ih =>
    intro i last p hl h
    unfold rfindSlash.go at h
    have := ih (i + 1) _ p (by
      intro q hq
      split at hq
      · cases hq; omega
      · have := hl q hq; omega) h
    simp only [List.length_cons]; omega

theorem rfindSlash_lt {l : Bytes} {p : Nat} (h : rfindSlash l = some p) : p < l.length := by
  have := rfindSlash_go_lt l 0 none p (by intro q hq; cases hq) h
  omega

theorem hashSplit_good (B : Nat) (l : Bytes) : Good B (hashSplit l) := by
  unfold hashSplit
  split
  · next pos hp =>
    have hlt := rfindSlash_lt hp
    unfold sliceF sliceFromF
    rw [if_pos (by omega)]
    apply Good.bind' (good_ok _ _); intro dir
    rw [if_pos (by omega)]
    apply Good.bind (good_ok _ _); intro file hf
    cases hf
    rw [if_pos (by simp only [List.length_drop]; omega)]
    apply Good.bind' (good_ok _ _); intro name
    exact good_pure _ _
  · exact good_ok _ _

theorem existsAscii_good (B : Nat) (ix : Index) (path : Bytes) : Good B (existsAscii ix path) := by
  unfold existsAscii
  simp only
  split
  · apply Good.bind' (hashSplit_good B _); intro ⟨dir, name⟩
    exact good_pure _ _
  · exact good_ok _ _

theorem extractFlow_good {R E D : Type} (B : Nat) (parse : Option R) (findEntry : R → Option E)
    (openDat : R → E → Option D) (read : D → E → Res Unit) (hr : ∀ d e, Good B (read d e)) :
    Good B (extractFlow parse findEntry openDat read) := by
  unfold extractFlow
  cases parse with
  | none => exact Good.bind (by simp [Res.ofOption]) (fun a h => by simp [Res.ofOption, Res.fail] at h)
  | some r =>
    apply Good.bind' (by simp [Res.ofOption]); intro r1
    apply Good.bind' (good_ofOption _ _); intro e
    apply Good.bind' (by simp [Res.unwrap]); intro r'
    apply Good.bind' (good_ofOption _ _); intro d
    exact hr d e

theorem expansionNumber_good (B : Nat) (name : Bytes) : Good B (expansionNumber name) := by
  unfold expansionNumber
  apply Good.bind' (good_guard _ _); intro _
  apply Good.bind (good_guard _ _); intro _ hg
  have h := guard_ok hg
  simp only [Bool.and_eq_true, decide_eq_true_eq] at h
  obtain ⟨⟨h3, _⟩, _⟩ := h
  apply Good.bind'
  · unfold indexF
    split
    · exact good_ok _ _
    · next hn => simp only [List.getElem?_eq_none_iff] at hn; omega
  · intro c
    apply Good.bind' (good_guard _ _); intro _
    exact good_pure _ _

end Physis.C18Arc
