import PhysisModel.Proofs.BinrwLemmas
import PhysisModel.Generated.BinrwMs
import PhysisModel.Model.Mtrl
import PhysisModel.Model.Shpk
/-!
T4 for `src/mtrl.rs` and `src/shpk.rs` (C14): the plain record structs `MaterialFileHeader`,
`MaterialHeader`, `ColorSet`, `ShaderKey`, `ConstantStruct`, `MaterialParameter`, `Key`, `Pass`,
`NodeAlias` against the `MsCommon.P` parsers (`P α = Bytes → Except Err (α × Bytes)`; a binrw read
error is `.error .fail`).  Two steps per struct as in `Proofs/BinrwTieIndex.lean`.
-/
namespace Physis.BinrwTie.Ms
open Physis Physis.Binrw Physis.Reader Physis.Generated
open Physis.MsCommon (Err P)

def toR {α : Type} : Option α → Except Err α
  | some a => .ok a
  | none => .error .fail

/-! ### bridge -/
theorem m_bind {α β : Type} (p : P α) (f : α → P β) (s : Bytes) :
    MsCommon.P.bind p f s = Except.bind (p s) fun x => f x.1 x.2 := by
  unfold MsCommon.P.bind
  cases p s <;> rfl
theorem toR_bind {α β : Type} (x : Option α) (g : α → Option β) :
    Except.bind (toR x) (fun a => toR (g a)) = toR (x.bind g) := by
  cases x <;> rfl
theorem m_pure {α : Type} (a : α) (s : Bytes) : MsCommon.P.pure a s = toR (some (a, s)) := rfl
theorem m_u8 (s : Bytes) : MsCommon.u8 s = toR (u8 s) := by
  rcases s with _ | ⟨a, r⟩ <;> rfl
theorem m_u16 (s : Bytes) : MsCommon.u16 s = toR (u16le s) := by
  rcases s with _ | ⟨a, _ | ⟨b, r⟩⟩ <;> rfl
theorem m_u32 (s : Bytes) : MsCommon.u32 s = toR (u32le s) := by
  rcases s with _ | ⟨a, _ | ⟨b, _ | ⟨c, _ | ⟨d, r⟩⟩⟩⟩ <;> rfl

syntax "ms_norm" "[" Lean.Parser.Tactic.simpLemma,* "]" : tactic
macro_rules
  | `(tactic| ms_norm [$extra,*]) => `(tactic| binrw_norm [bind, pure, m_bind, m_pure, m_u8, m_u16, m_u32, toR_bind,
      $extra,*])

/-- the endianness of the enclosing top-level structs (`MaterialData`, `ShaderPackage`: `#[br(little)]`) -/
abbrev endianMtrl : Endian := BinrwMs.materialData.endianOr .big
abbrev endianShpk : Endian := BinrwMs.shaderPackage.endianOr .big

namespace Expected
def materialFileHeader : Layout :=
  .mk none .none [
    .mk "version" none .none 0 (.prim .u32) 0 0,
    .mk "file_size" none .none 0 (.prim .u16) 0 0,
    .mk "data_set_size" none .none 0 (.prim .u16) 0 0,
    .mk "string_table_size" none .none 0 (.prim .u16) 0 0,
    .mk "shader_package_name_offset" none .none 0 (.prim .u16) 0 0,
    .mk "texture_count" none .none 0 (.prim .u8) 0 0,
    .mk "uv_set_count" none .none 0 (.prim .u8) 0 0,
    .mk "color_set_count" none .none 0 (.prim .u8) 0 0,
    .mk "additional_data_size" none .none 0 (.prim .u8) 0 0] true
def materialHeader : Layout :=
  .mk none .none [
    .mk "shader_value_list_size" none .none 0 (.prim .u16) 0 0,
    .mk "shader_key_count" none .none 0 (.prim .u16) 0 0,
    .mk "constant_count" none .none 0 (.prim .u16) 0 0,
    .mk "sampler_count" none .none 0 (.prim .u16) 0 0,
    .mk "flags" none .none 0 (.prim .u32) 0 0] true
def u16u16 : Layout :=
  .mk none .none [.mk "" none .none 0 (.prim .u16) 0 0, .mk "" none .none 0 (.prim .u16) 0 0] true
def u32u32 : Layout :=
  .mk none .none [.mk "" none .none 0 (.prim .u32) 0 0, .mk "" none .none 0 (.prim .u32) 0 0] true
def u32u16u16 : Layout :=
  .mk none .none [.mk "" none .none 0 (.prim .u32) 0 0, .mk "" none .none 0 (.prim .u16) 0 0,
    .mk "" none .none 0 (.prim .u16) 0 0] true
def u32u32u32 : Layout :=
  .mk none .none [.mk "" none .none 0 (.prim .u32) 0 0, .mk "" none .none 0 (.prim .u32) 0 0,
    .mk "" none .none 0 (.prim .u32) 0 0] true
end Expected

/-! ### step 2 (re-checked on every run) -/
theorem endian_generated : endianMtrl = .little ∧ endianShpk = .little := ⟨rfl, rfl⟩
theorem materialFileHeader_generated :
    BinrwMs.materialFileHeader.normalizeAt .little = Expected.materialFileHeader.normalizeAt .little := rfl
theorem materialHeader_generated :
    BinrwMs.materialHeader.normalizeAt .little = Expected.materialHeader.normalizeAt .little := rfl
theorem colorSet_generated : BinrwMs.colorSet.normalizeAt .little = Expected.u16u16.normalizeAt .little := rfl
theorem shaderKey_generated : BinrwMs.shaderKey.normalizeAt .little = Expected.u32u32.normalizeAt .little := rfl
theorem constantStruct_generated :
    BinrwMs.constantStruct.normalizeAt .little = Expected.u32u16u16.normalizeAt .little := rfl
theorem materialParameter_generated :
    BinrwMs.materialParameter.normalizeAt .little = Expected.u32u16u16.normalizeAt .little := rfl
theorem key_generated : BinrwMs.key.normalizeAt .little = Expected.u32u32.normalizeAt .little := rfl
theorem pass_generated : BinrwMs.pass.normalizeAt .little = Expected.u32u32u32.normalizeAt .little := rfl
theorem nodeAlias_generated : BinrwMs.nodeAlias.normalizeAt .little = Expected.u32u32.normalizeAt .little := rfl
/-- `ShaderPackage` starts with the magic `ShPk` and the u32 version (then `format` has `try_map`) -/
theorem shaderPackage_generated :
    BinrwMs.shaderPackage.normalizeAt .big =
      (Layout.mk (some .little) (.bytes [0x53, 0x68, 0x50, 0x6B]) [.mk "" none .none 0 (.prim .u32) 0 0] false).normalizeAt .big :=
  rfl

/-! ### projections -/
def materialFileHeaderOf : List Value → Option Mtrl.MaterialFileHeader
  | [.w32 .u32 v, .w16 .u16 fs, .w16 .u16 ds, .w16 .u16 st, .w16 .u16 sp, .w8 .u8 tc, .w8 .u8 uv, .w8 .u8 cs,
     .w8 .u8 ad] => some ⟨v, fs, ds, st, sp, tc, uv, cs, ad⟩
  | _ => none
def materialHeaderOf : List Value → Option Mtrl.MaterialHeader
  | [.w16 .u16 a, .w16 .u16 b, .w16 .u16 c, .w16 .u16 d, .w32 .u32 e] => some ⟨a, b, c, d, e⟩
  | _ => none
def colorSetOf : List Value → Option Mtrl.ColorSet
  | [.w16 .u16 a, .w16 .u16 b] => some ⟨a, b⟩
  | _ => none
def shaderKeyOf : List Value → Option Spec.Mtrl.ShaderKey
  | [.w32 .u32 a, .w32 .u32 b] => some { category := a, value := b }
  | _ => none
def constantStructOf : List Value → Option Mtrl.ConstantStruct
  | [.w32 .u32 a, .w16 .u16 b, .w16 .u16 c] => some ⟨a, b, c⟩
  | _ => none
def materialParameterOf : List Value → Option Spec.Shpk.MaterialParameter
  | [.w32 .u32 a, .w16 .u16 b, .w16 .u16 c] => some { id := a, byteOffset := b, byteSize := c }
  | _ => none
def keyOf : List Value → Option Spec.Shpk.Key
  | [.w32 .u32 a, .w32 .u32 b] => some { id := a, defaultValue := b }
  | _ => none
def passOf : List Value → Option Spec.Shpk.Pass
  | [.w32 .u32 a, .w32 .u32 b, .w32 .u32 c] => some { id := a, vertexShader := b, pixelShader := c }
  | _ => none
def nodeAliasOf : List Value → Option Spec.Shpk.NodeAlias
  | [.w32 .u32 a, .w32 .u32 b] => some { selector := a, node := b }
  | _ => none

/-! ### step 1 -/
theorem materialFileHeader_eq_expected (l : Bytes) :
    Mtrl.materialFileHeader l = toR (via materialFileHeaderOf (Layout.read .little Expected.materialFileHeader l)) := by
  ms_norm [Mtrl.materialFileHeader, Expected.materialFileHeader]; rfl
theorem materialHeader_eq_expected (l : Bytes) :
    Mtrl.materialHeader l = toR (via materialHeaderOf (Layout.read .little Expected.materialHeader l)) := by
  ms_norm [Mtrl.materialHeader, Expected.materialHeader]; rfl
theorem colorSet_eq_expected (l : Bytes) :
    Mtrl.colorSet l = toR (via colorSetOf (Layout.read .little Expected.u16u16 l)) := by
  ms_norm [Mtrl.colorSet, Expected.u16u16]; rfl
theorem shaderKey_eq_expected (l : Bytes) :
    Mtrl.shaderKey l = toR (via shaderKeyOf (Layout.read .little Expected.u32u32 l)) := by
  ms_norm [Mtrl.shaderKey, Expected.u32u32]; rfl
theorem constantStruct_eq_expected (l : Bytes) :
    Mtrl.constantStruct l = toR (via constantStructOf (Layout.read .little Expected.u32u16u16 l)) := by
  ms_norm [Mtrl.constantStruct, Expected.u32u16u16]; rfl
theorem materialParameter_eq_expected (l : Bytes) :
    Shpk.materialParameter l = toR (via materialParameterOf (Layout.read .little Expected.u32u16u16 l)) := by
  ms_norm [Shpk.materialParameter, Expected.u32u16u16]; rfl
theorem key_eq_expected (l : Bytes) :
    Shpk.key l = toR (via keyOf (Layout.read .little Expected.u32u32 l)) := by
  ms_norm [Shpk.key, Expected.u32u32]; rfl
theorem pass_eq_expected (l : Bytes) :
    Shpk.pass l = toR (via passOf (Layout.read .little Expected.u32u32u32 l)) := by
  ms_norm [Shpk.pass, Expected.u32u32u32]; rfl
theorem nodeAlias_eq_expected (l : Bytes) :
    Shpk.nodeAlias l = toR (via nodeAliasOf (Layout.read .little Expected.u32u32 l)) := by
  ms_norm [Shpk.nodeAlias, Expected.u32u32]; rfl

/-! ### the tie -/
theorem materialFileHeader_eq_generated (l : Bytes) :
    Mtrl.materialFileHeader l = toR (via materialFileHeaderOf (Layout.read endianMtrl BinrwMs.materialFileHeader l)) := by
  rw [endian_generated.1, Layout.read_congr _ materialFileHeader_generated]; exact materialFileHeader_eq_expected l
theorem materialHeader_eq_generated (l : Bytes) :
    Mtrl.materialHeader l = toR (via materialHeaderOf (Layout.read endianMtrl BinrwMs.materialHeader l)) := by
  rw [endian_generated.1, Layout.read_congr _ materialHeader_generated]; exact materialHeader_eq_expected l
theorem colorSet_eq_generated (l : Bytes) :
    Mtrl.colorSet l = toR (via colorSetOf (Layout.read endianMtrl BinrwMs.colorSet l)) := by
  rw [endian_generated.1, Layout.read_congr _ colorSet_generated]; exact colorSet_eq_expected l
theorem shaderKey_eq_generated (l : Bytes) :
    Mtrl.shaderKey l = toR (via shaderKeyOf (Layout.read endianMtrl BinrwMs.shaderKey l)) := by
  rw [endian_generated.1, Layout.read_congr _ shaderKey_generated]; exact shaderKey_eq_expected l
theorem constantStruct_eq_generated (l : Bytes) :
    Mtrl.constantStruct l = toR (via constantStructOf (Layout.read endianMtrl BinrwMs.constantStruct l)) := by
  rw [endian_generated.1, Layout.read_congr _ constantStruct_generated]; exact constantStruct_eq_expected l
theorem materialParameter_eq_generated (l : Bytes) :
    Shpk.materialParameter l = toR (via materialParameterOf (Layout.read endianShpk BinrwMs.materialParameter l)) := by
  rw [endian_generated.2, Layout.read_congr _ materialParameter_generated]; exact materialParameter_eq_expected l
theorem key_eq_generated (l : Bytes) :
    Shpk.key l = toR (via keyOf (Layout.read endianShpk BinrwMs.key l)) := by
  rw [endian_generated.2, Layout.read_congr _ key_generated]; exact key_eq_expected l
theorem pass_eq_generated (l : Bytes) :
    Shpk.pass l = toR (via passOf (Layout.read endianShpk BinrwMs.pass l)) := by
  rw [endian_generated.2, Layout.read_congr _ pass_generated]; exact pass_eq_expected l
theorem nodeAlias_eq_generated (l : Bytes) :
    Shpk.nodeAlias l = toR (via nodeAliasOf (Layout.read endianShpk BinrwMs.nodeAlias l)) := by
  rw [endian_generated.2, Layout.read_congr _ nodeAlias_generated]; exact nodeAlias_eq_expected l

end Physis.BinrwTie.Ms
