import PhysisModel.Model.GameData
import PhysisModel.Proofs.Index
/-!
Lemmas about the `GameData` model.
Part 1 (any disk): the cache is a memo of the disk, so `find_entry` is a function of the disk and
the repository list only (`pureFind`); answers depend on the path only through its lower-casing.
Part 2 (a disk realising a well-formed archive): `find_entry` is `Spec.Archive.locate`.
-/
namespace Physis.GameData
open Physis Physis.Str Physis.Repository Physis.Index

/-! ## Part 1 -/

/-- what `SqPackIndex::from_existing` returns for a cache key -/
def load (disk : Disk) (k : Key) : Option SqPackIndex :=
  match disk k.1 k.2 with
  | none => none
  | some content => Index.parse content

/-- every cached index file is what the disk currently parses to -/
def CacheIsMemo (disk : Disk) (cache : List (Key × SqPackIndex)) : Prop :=
  ∀ k ix, cache.lookup k = some ix → load disk k = some ix

theorem cacheIsMemo_nil (disk : Disk) : CacheIsMemo disk [] := by
  intro k ix h; simp at h

theorem cache_step (disk : Disk) (cache : List (Key × SqPackIndex)) (k : Key)
    (h : CacheIsMemo disk cache) :
    getIndexFile (cacheIndexFile disk cache k) k = load disk k ∧
    CacheIsMemo disk (cacheIndexFile disk cache k) := by
  unfold cacheIndexFile getIndexFile
  cases hl : cache.lookup k with
  | some ix => simp only [Option.isSome_some, if_true, hl]; exact ⟨(h k ix hl).symm, h⟩
  | none =>
    simp only [Option.isSome_none, Bool.false_eq_true, if_false, load]
    cases hd : disk k.1 k.2 with
    | none => simp only [hl]; exact ⟨trivial, h⟩
    | some content =>
      simp only []
      cases hp : Index.parse content with
      | none => simp only [hl]; exact ⟨trivial, h⟩
      | some ix =>
        refine ⟨by simp [List.lookup], ?_⟩
        intro k' ix' h'
        simp only [List.lookup] at h'
        by_cases hk : k' == k
        · simp only [hk] at h'
          have : k' = k := by simpa using hk
          subst this
          simp only [load, hd, hp]; exact h'
        · have hk' : (k' == k) = false := by simpa using hk
          simp only [hk'] at h'
          exact h k' ix' h'

/-- one candidate of the `find_entry` loop, as a function of the disk: `some r` = the loop stops
with `r`, `none` = it goes on -/
def tryOne (disk : Disk) (path : Bytes) (c : Key × UInt8) : Option Found :=
  match load disk c.1 with
  | some indexFile =>
    match Index.findEntry indexFile path with
    | none => some .panic
    | some (some entry) => some (.found entry c.2)
    | some none => none
  | none => none

/-- `find_entry` without a cache -/
def pureFind (disk : Disk) (path : Bytes) (names : List (Key × UInt8)) : Found :=
  match names.findSome? (tryOne disk path) with
  | some r => r
  | none => .notFound

theorem findEntryLoop_eq (disk : Disk) (path : Bytes) (names : List (Key × UInt8))
    (cache : List (Key × SqPackIndex)) (h : CacheIsMemo disk cache) :
    (findEntryLoop disk path names cache).1 = pureFind disk path names ∧
    CacheIsMemo disk (findEntryLoop disk path names cache).2 := by
  induction names generalizing cache with
  | nil => exact ⟨rfl, h⟩
  | cons c rest ih =>
    obtain ⟨k, chunk⟩ := c
    obtain ⟨hget, hmemo⟩ := cache_step disk cache k h
    simp only [findEntryLoop, hget, pureFind, List.findSome?_cons, tryOne]
    cases hl : load disk k with
    | none => exact ih _ hmemo
    | some ix =>
      simp only []
      cases hf : Index.findEntry ix path with
      | none => exact ⟨rfl, hmemo⟩
      | some r =>
        cases r with
        | none => exact ih _ hmemo
        | some e => exact ⟨rfl, hmemo⟩

/-- the handle's repositories never change and its cache stays a memo of the disk -/
structure Inv (disk : Disk) (repos : List Repository) (g : GameData) : Prop where
  repos : g.repositories = repos
  memo : CacheIsMemo disk g.indexFiles

/-- cache-free `find_entry` -/
def pureFindEntry (disk : Disk) (repos : List Repository) (path : Bytes) : Found :=
  match getIndexFilenames { repositories := repos, indexFiles := [] } path with
  | none => .panic
  | some none => .notFound
  | some (some names) => pureFind disk path names

theorem parseRepositoryCategory_repos (g : GameData) (path : Bytes) :
    parseRepositoryCategory g path =
      parseRepositoryCategory { repositories := g.repositories, indexFiles := [] } path := rfl

theorem getIndexFilenames_repos (g : GameData) (path : Bytes) :
    getIndexFilenames g path = getIndexFilenames { repositories := g.repositories, indexFiles := [] } path := rfl

theorem findEntry_eq (disk : Disk) (repos : List Repository) (g : GameData) (path : Bytes)
    (h : Inv disk repos g) :
    (findEntry disk g path).1 = pureFindEntry disk repos path ∧ Inv disk repos (findEntry disk g path).2 := by
  unfold findEntry pureFindEntry
  rw [getIndexFilenames_repos g path, h.repos]
  cases getIndexFilenames { repositories := repos, indexFiles := [] } path with
  | none => exact ⟨rfl, h⟩
  | some o =>
    cases o with
    | none => exact ⟨rfl, h⟩
    | some names =>
      obtain ⟨h1, h2⟩ := findEntryLoop_eq disk path names g.indexFiles h.memo
      simp only []
      generalize findEntryLoop disk path names g.indexFiles = r at h1 h2
      obtain ⟨a, b⟩ := r
      exact ⟨h1, ⟨rfl, h2⟩⟩

/-- cache-free answers -/
def pureAnswer (disk : Disk) (repos : List Repository) : Query → Answer
  | .exists p =>
    match getIndexFilenames { repositories := repos, indexFiles := [] } p with
    | none => .panic
    | some none => .bool false
    | some (some _) =>
      match pureFindEntry disk repos p with
      | .panic => .panic
      | .notFound => .bool false
      | .found _ _ => .bool true
  | .findOffset p =>
    match pureFindEntry disk repos p with
    | .panic => .panic
    | .notFound => .offset none
    | .found entry _ => .offset (some entry.offset)
  | .extract p =>
    match pureFindEntry disk repos p with
    | .panic => .panic
    | .notFound => .dat none
    | .found entry chunk =>
      match parseRepositoryCategory { repositories := repos, indexFiles := [] } p with
      | none => .panic
      | some none => .panic
      | some (some (repository, category)) =>
        .dat (some ((repository.name, datFilename repository chunk category entry.dataFileId.toUInt32),
                    entry.offset))

theorem step_eq (disk : Disk) (repos : List Repository) (g : GameData) (q : Query)
    (h : Inv disk repos g) :
    (step disk g q).1 = pureAnswer disk repos q ∧ Inv disk repos (step disk g q).2 := by
  cases q with
  | «exists» p =>
    simp only [step, existsQ, pureAnswer]
    rw [getIndexFilenames_repos g p, h.repos]
    cases getIndexFilenames { repositories := repos, indexFiles := [] } p with
    | none => exact ⟨rfl, h⟩
    | some o =>
      cases o with
      | none => exact ⟨rfl, h⟩
      | some names =>
        obtain ⟨h1, h2⟩ := findEntry_eq disk repos g p h
        simp only []
        rw [← h1]
        generalize findEntry disk g p = r at h2
        obtain ⟨f, g'⟩ := r
        cases f <;> exact ⟨rfl, h2⟩
  | findOffset p =>
    simp only [step, findOffsetQ, pureAnswer]
    obtain ⟨h1, h2⟩ := findEntry_eq disk repos g p h
    rw [← h1]
    generalize findEntry disk g p = r at h2
    obtain ⟨f, g'⟩ := r
    cases f <;> exact ⟨rfl, h2⟩
  | extract p =>
    simp only [step, extractQ, pureAnswer]
    obtain ⟨h1, h2⟩ := findEntry_eq disk repos g p h
    rw [← h1]
    generalize findEntry disk g p = r at h2
    obtain ⟨f, g'⟩ := r
    cases f with
    | panic => exact ⟨rfl, h2⟩
    | notFound => exact ⟨rfl, h2⟩
    | found e c =>
      simp only []
      rw [parseRepositoryCategory_repos g' p, h2.repos]
      cases parseRepositoryCategory { repositories := repos, indexFiles := [] } p with
      | none => exact ⟨rfl, h2⟩
      | some o => cases o <;> exact ⟨rfl, h2⟩

theorem run_inv (disk : Disk) (repos : List Repository) (qs : List Query) (g : GameData)
    (h : Inv disk repos g) : Inv disk repos (run disk g qs) := by
  induction qs generalizing g with
  | nil => exact h
  | cons q qs ih => exact ih _ (step_eq disk repos g q h).2

/-! ### answers depend on the path only through its lower-casing -/

theorem index_findEntry_lower (ix : SqPackIndex) (p q : Bytes) (h : lower p = lower q) :
    Index.findEntry ix p = Index.findEntry ix q := by
  simp only [Index.findEntry, calculateHash, h]

theorem parseRepositoryCategory_lower (g : GameData) (p q : Bytes) (h : lower p = lower q) :
    parseRepositoryCategory g p = parseRepositoryCategory g q := by
  simp only [parseRepositoryCategory, h]

theorem pureAnswer_lower (disk : Disk) (repos : List Repository) (p q : Bytes) (h : lower p = lower q) :
    pureAnswer disk repos (.exists p) = pureAnswer disk repos (.exists q) ∧
    pureAnswer disk repos (.findOffset p) = pureAnswer disk repos (.findOffset q) ∧
    pureAnswer disk repos (.extract p) = pureAnswer disk repos (.extract q) := by
  have h1 : ∀ g, getIndexFilenames g p = getIndexFilenames g q := by
    intro g; simp only [getIndexFilenames, parseRepositoryCategory_lower g p q h]
  have h2 : tryOne disk p = tryOne disk q := by
    funext c; simp only [tryOne, index_findEntry_lower _ p q h]
  have h3 : pureFindEntry disk repos p = pureFindEntry disk repos q := by
    simp only [pureFindEntry, h1, pureFind, h2]
  simp only [pureAnswer, h1, h3, parseRepositoryCategory_lower _ p q h, and_self]

/-! ## Part 2: a disk that realises a well-formed archive -/

open Physis.Spec.Archive

def modelPlat : Spec.Archive.Platform → Repository.Platform
  | .win32 => .win32 | .ps3 => .ps3 | .ps4 => .ps4 | .ps5 => .ps5 | .xbox => .xbox

/-- the repository object discovery creates for expansion `e` (0 = base game) -/
def repoFor (pl : Spec.Archive.Platform) (e : Nat) : Repository :=
  if e = 0 then fromExistingBase (modelPlat pl)
  else { name := exName e, platform := modelPlat pl, repoType := .expansion e }

/-- expansion number a directory name stands for -/
def expOfDir (n : Bytes) : Option Nat := (List.range' 1 9).find? (fun e => exName e == n)

theorem splitOnce_none (c : UInt8) (l : Bytes) : splitOnce c l = none ↔ c ∉ l := by
  induction l with
  | nil => simp [splitOnce]
  | cons b r ih =>
    simp only [splitOnce]
    by_cases hb : b = c
    · subst hb; simp
    · have : (b == c) = false := by simpa using hb
      simp only [this, Bool.false_eq_true, if_false, List.mem_cons, not_or]
      cases hs : splitOnce c r with
      | none => simp only [true_iff]; exact ⟨fun h => hb h.symm, ih.mp hs⟩
      | some x => simp only [reduceCtorEq, false_iff, not_and, Decidable.not_not]
                  intro _; exact Decidable.of_not_not (fun hn => by simp [ih.mpr hn] at hs)

theorem rsplitOnce_none (c : UInt8) (l : Bytes) : rsplitOnce c l = none ↔ c ∉ l := by
  unfold rsplitOnce
  cases hs : splitOnce c l.reverse with
  | none => simp only [true_iff]; have := (splitOnce_none c l.reverse).mp hs; simpa using this
  | some x =>
    simp only [reduceCtorEq, false_iff, Decidable.not_not]
    have : ¬ (c ∉ l.reverse) := fun hn => by simp [(splitOnce_none c l.reverse).mpr hn] at hs
    simpa using this

theorem exName_shape' : ∀ e ∈ List.range' 1 9,
    isDigit (48 + e).toUInt8 = true ∧ exName e = [101, 120, (48 + e).toUInt8] := by
  decide

theorem exName_shape (e : Nat) (he : e ∈ List.range' 1 9) :
    ∃ c, isDigit c = true ∧ exName e = [101, 120, c] :=
  ⟨_, exName_shape' e he⟩

theorem exName_inj : ∀ e ∈ List.range' 1 9, ∀ e' ∈ List.range' 1 9, exName e = exName e' → e = e' := by
  decide

theorem exName_ne_base : ∀ e ∈ List.range' 1 9, exName e ≠ baseDir := by decide

theorem fromExistingExpansion_ex (mp : Repository.Platform) : ∀ e ∈ List.range' 1 9,
    fromExistingExpansion mp (exName e) =
      some (some { name := exName e, platform := mp, repoType := .expansion e }) := by
  cases mp <;> decide

theorem expOfDir_some {n : Bytes} {e : Nat} (h : expOfDir n = some e) :
    e ∈ List.range' 1 9 ∧ exName e = n := by
  refine ⟨List.mem_of_find?_eq_some h, ?_⟩
  have := List.find?_some h
  simpa using this

theorem expOfDir_exName {e : Nat} (he : e ∈ List.range' 1 9) : expOfDir (exName e) = some e := by
  cases h : expOfDir (exName e) with
  | none =>
    have := (List.find?_eq_none.mp h) e he
    simp at this
  | some e' =>
    obtain ⟨h1, h2⟩ := expOfDir_some h
    rw [exName_inj e' h1 e he h2]

theorem repoFor_pos (pl : Spec.Archive.Platform) {e : Nat} (he : e ∈ List.range' 1 9) :
    repoFor pl e = { name := exName e, platform := modelPlat pl, repoType := .expansion e } := by
  have : e ≠ 0 := by
    intro h; subst h; simp only [List.mem_range'] at he
    obtain ⟨i, _, hi⟩ := he; omega
  simp [repoFor, this]

theorem fromExistingExpansion_ok (pl : Spec.Archive.Platform) (n : Bytes) (h : dirOK n = true) :
    fromExistingExpansion (modelPlat pl) n = some ((expOfDir n).map (repoFor pl)) := by
  simp only [dirOK, Bool.or_eq_true, List.any_eq_true, Bool.and_eq_true, Bool.not_eq_true',
    beq_iff_eq] at h
  rcases h with (h | ⟨e, he, hn⟩) | ⟨hdot, h3⟩
  · subst h
    have : expOfDir baseDir = none := by decide
    rw [this]; rfl
  · subst hn
    rw [fromExistingExpansion_ex _ e he, expOfDir_exName he, Option.map_some, repoFor_pos pl he]
  · have hstem : fileStem n = n := by
      have : rsplitOnce 46 n = none := (rsplitOnce_none 46 n).mpr (by
        intro hm
        have hc : n.contains 46 = true := List.contains_iff_mem.mpr hm
        rw [hdot] at hc; cases hc)
      simp [fileStem, this]
    have hexp : expOfDir n = none := by
      apply List.find?_eq_none.mpr
      intro e he heq
      have heq' : exName e = n := by simpa using heq
      obtain ⟨c, hc, hs⟩ := exName_shape e he
      rw [← heq', hs] at h3
      simp [hc] at h3
    rw [hexp]
    simp only [fromExistingExpansion, hstem, Option.map_none]
    match n, h3 with
    | _ :: _ :: c :: _, h3 =>
      simp only [Bool.not_eq_eq_eq_not, Bool.not_true] at h3
      have : ¬ (48 ≤ c ∧ c ≤ 57) := by
        simpa [isDigit] using h3
      simp [this]

def expsOf (pl : Spec.Archive.Platform) (dirs : List Bytes) : List Repository :=
  dirs.filterMap (fun n => (expOfDir n).map (repoFor pl))

theorem discover_ok (pl : Spec.Archive.Platform) (dirs : List Bytes) (h : ∀ n ∈ dirs, dirOK n = true) :
    discover (modelPlat pl) dirs = some (expsOf pl dirs) := by
  induction dirs with
  | nil => rfl
  | cons d ds ih =>
    have hd := fromExistingExpansion_ok pl d (h d (by simp))
    have ih' := ih (fun n hn => h n (by simp [hn]))
    simp only [discover, hd, ih', expsOf, List.filterMap_cons]
    cases expOfDir d <;> rfl

theorem insertSorted_base (mp : Repository.Platform) (l : List Repository) :
    insertSorted (fromExistingBase mp) l = fromExistingBase mp :: l := by
  cases l <;> simp [insertSorted, Repository.cmp, fromExistingBase]

theorem mem_insertSorted (r x : Repository) (l : List Repository) :
    r ∈ insertSorted x l ↔ r = x ∨ r ∈ l := by
  induction l with
  | nil => simp [insertSorted]
  | cons y ys ih =>
    simp only [insertSorted]
    split
    · simp
    · simp only [List.mem_cons, ih]
      constructor
      · rintro (h | h | h) <;> simp [h]
      · rintro (h | h | h) <;> simp [h]

theorem mem_sort (r : Repository) (l : List Repository) : r ∈ Repository.sort l ↔ r ∈ l := by
  induction l with
  | nil => simp [Repository.sort]
  | cons y ys ih => simp [Repository.sort, mem_insertSorted, ih]

/-- the repository list of a handle opened on an archive's directories -/
def reposOf (pl : Spec.Archive.Platform) (dirs : List Bytes) : List Repository :=
  fromExistingBase (modelPlat pl) :: Repository.sort (expsOf pl dirs)

theorem fromExisting_ok (pl : Spec.Archive.Platform) (dirs : List Bytes) (h : ∀ n ∈ dirs, dirOK n = true) :
    fromExisting (modelPlat pl) dirs = some { repositories := reposOf pl dirs, indexFiles := [] } := by
  simp only [fromExisting, discover_ok pl dirs h, Repository.sort, insertSorted_base, reposOf]

/-! ### `parse_repository_category` is `resolve` -/

theorem lookup_cons_ite {β : Type} (s k : Bytes) (v : β) (rest : List (Bytes × β)) :
    List.lookup s ((k, v) :: rest) = if s = k then some v else List.lookup s rest := by
  simp only [List.lookup]
  by_cases h : s = k
  · subst h; simp
  · have : (s == k) = false := by simpa using h
    simp [this, h]

theorem map_ite_some {α β : Type} (f : α → β) (c : Prop) [Decidable c] (v : α) (x : Option α) :
    Option.map f (if c then some v else x) = if c then some (f v) else Option.map f x := by
  split <;> rfl

theorem stringToCategory_eq (s : Bytes) : stringToCategory s = (catOfName s).map Category.id := by
  simp only [stringToCategory, catOfName, categoryNames, lookup_cons_ite, List.lookup_nil,
    map_ite_some, Option.map_none, Category.id]

theorem mem_expsOf (pl : Spec.Archive.Platform) (dirs : List Bytes) (r : Repository) :
    r ∈ expsOf pl dirs ↔ ∃ e ∈ List.range' 1 9, exName e ∈ dirs ∧ r = repoFor pl e := by
  simp only [expsOf, List.mem_filterMap, Option.map_eq_some_iff]
  constructor
  · rintro ⟨n, hn, e, he, rfl⟩
    obtain ⟨h1, h2⟩ := expOfDir_some he
    exact ⟨e, h1, h2 ▸ hn, rfl⟩
  · rintro ⟨e, he, hd, rfl⟩
    exact ⟨exName e, hd, e, expOfDir_exName he, rfl⟩

/-- the repository the loop of `parse_repository_category` selects (with the fallback) -/
def chosen (repos : List Repository) (tok : Bytes) : Option Repository :=
  match repos.find? (fun r => r.name == tok) with
  | some r => some r
  | none => repos.head?

theorem chosen_eq (a : Archive) (tok : Bytes) :
    chosen (reposOf a.platform a.dirs) tok = some (repoFor a.platform (expansionOf a tok)) := by
  unfold chosen
  cases hf : (reposOf a.platform a.dirs).find? (fun r => r.name == tok) with
  | some r =>
    have hmem := List.mem_of_find?_eq_some hf
    have hname : r.name = tok := by simpa using List.find?_some hf
    simp only [reposOf, List.mem_cons, mem_sort, mem_expsOf] at hmem
    rcases hmem with hb | ⟨e, he, hd, hr⟩
    · -- the base repository: the token is "ffxiv", which names no expansion
      subst hb
      have ht : tok = baseDir := hname.symm
      subst ht
      have : expansionOf a baseDir = 0 := by
        have h0 : (List.range' 1 9).find? (fun e => exName e == baseDir) = none := by decide
        simp only [expansionOf, h0]
      rw [this]; rfl
    · subst hr
      have ht : tok = exName e := by rw [← hname, repoFor_pos _ he]
      subst ht
      have h1 : (List.range' 1 9).find? (fun e' => exName e' == exName e) = some e := expOfDir_exName he
      have h2 : a.dirs.contains (exName e) = true := List.contains_iff_mem.mpr hd
      simp only [expansionOf, h1, h2, if_true]
  | none =>
    have hnone := List.find?_eq_none.mp hf
    have hexp : expansionOf a tok = 0 := by
      unfold expansionOf
      cases h1 : (List.range' 1 9).find? (fun e => exName e == tok) with
      | none => rfl
      | some e =>
        simp only []
        split
        · rename_i hc
          exfalso
          obtain ⟨he, hn⟩ := expOfDir_some (n := tok) h1
          have hd : exName e ∈ a.dirs := by rw [hn]; exact List.contains_iff_mem.mp hc
          have hm : repoFor a.platform e ∈ reposOf a.platform a.dirs := by
            simp only [reposOf, List.mem_cons, mem_sort, mem_expsOf]
            exact Or.inr ⟨e, he, hd, rfl⟩
          have := hnone _ hm
          rw [repoFor_pos _ he] at this
          simp [hn] at this
        · rfl
    rw [hexp]; rfl

theorem parseRepositoryCategory_eq (a : Archive) (p : Bytes) :
    parseRepositoryCategory { repositories := reposOf a.platform a.dirs, indexFiles := [] } p =
      some ((resolve a p).map (fun ec => (repoFor a.platform ec.1, ec.2.id))) := by
  unfold parseRepositoryCategory resolve
  cases hs : splitOnce slash (lower p) with
  | none => rfl
  | some t =>
    obtain ⟨t0, t1⟩ := t
    have hc := chosen_eq a (firstToken slash t1)
    unfold chosen at hc
    simp only [stringToCategory_eq]
    cases hf : (reposOf a.platform a.dirs).find? (fun r => r.name == firstToken slash t1) with
    | some r =>
      simp only [hf, Option.some.injEq] at hc
      subst hc
      cases catOfName t0 <;> rfl
    | none =>
      simp only [hf] at hc
      simp only [reposOf] at hc ⊢
      simp only [List.head?_cons, Option.some.injEq] at hc
      rw [hc]
      cases catOfName t0 <;> rfl

/-! ### file names -/

theorem platformString_eq (pl : Spec.Archive.Platform) : platformString (modelPlat pl) = pl.suffix := by
  cases pl <;> rfl

theorem repoFor_name (pl : Spec.Archive.Platform) (e : Nat) : (repoFor pl e).name = repoDir e := by
  unfold repoFor repoDir; split <;> rfl

theorem repoFor_expansion (pl : Spec.Archive.Platform) (e : Nat) : expansion (repoFor pl e) = e := by
  unfold repoFor; split
  · rename_i h; subst h; rfl
  · rfl

theorem repoFor_platform (pl : Spec.Archive.Platform) (e : Nat) : (repoFor pl e).platform = modelPlat pl := by
  unfold repoFor; split <;> rfl

theorem chunk_toNat (ch : Nat) (h : ch < 255) : ch.toUInt8.toNat = ch := by
  simp only [Nat.toUInt8, UInt8.toNat_ofNat']; omega

theorem indexFilename_eq (pl : Spec.Archive.Platform) (e : Nat) (c : Category) (ch : Nat) (h : ch < 255) :
    indexFilename (repoFor pl e) ch.toUInt8 c.id = indexName pl e c ch .index1 := by
  simp only [indexFilename, indexName, stem, repoFor_expansion, repoFor_platform, platformString_eq,
    chunk_toNat ch h, List.append_nil]

theorem index2Filename_eq (pl : Spec.Archive.Platform) (e : Nat) (c : Category) (ch : Nat) (h : ch < 255) :
    index2Filename (repoFor pl e) ch.toUInt8 c.id = indexName pl e c ch .index2 := by
  simp only [index2Filename, indexFilename, indexName, stem, repoFor_expansion, repoFor_platform,
    platformString_eq, chunk_toNat ch h]

theorem datFilename_eq (pl : Spec.Archive.Platform) (e : Nat) (c : Category) (ch : Nat) (h : ch < 255)
    (d : UInt8) :
    datFilename (repoFor pl e) ch.toUInt8 c.id d.toUInt32 = datName pl e c ch d.toNat := by
  simp only [datFilename, datName, stem, repoFor_expansion, repoFor_platform, platformString_eq,
    chunk_toNat ch h, UInt8.toNat_toUInt32]

theorem flatMap_congr' {α β : Type} (l : List α) (f g : α → List β) (h : ∀ x ∈ l, f x = g x) :
    l.flatMap f = l.flatMap g := by
  induction l with
  | nil => rfl
  | cons x xs ih =>
    simp only [List.flatMap_cons, h x (by simp), ih (fun y hy => h y (by simp [hy]))]

/-- candidate of the model for a candidate of the specification -/
def nameOf (pl : Spec.Archive.Platform) (e : Nat) (c : Category) (x : Nat × Kind) : Key × UInt8 :=
  ((repoDir e, indexName pl e c x.1 x.2), x.1.toUInt8)

theorem indexFilenamesOf_eq (pl : Spec.Archive.Platform) (e : Nat) (c : Category) :
    indexFilenamesOf (repoFor pl e) c.id = candidates.map (nameOf pl e c) := by
  simp only [indexFilenamesOf, candidates, List.map_flatMap]
  apply flatMap_congr'
  intro ch hch
  have h := List.mem_range.mp hch
  simp only [List.map_cons, List.map_nil, nameOf, repoFor_name, indexFilename_eq pl e c ch h,
    index2Filename_eq pl e c ch h]

theorem mem_candidates {x : Nat × Kind} (h : x ∈ candidates) : x.1 < 255 := by
  simp only [candidates, List.mem_flatMap, List.mem_range] at h
  obtain ⟨ch, hch, hx⟩ := h
  simp only [List.mem_cons, List.mem_nil_iff, or_false] at hx
  rcases hx with rfl | rfl <;> exact hch

/-! ### `find_entry` is `locate` -/

theorem load_eq (disk : Disk) (a : Archive) (hr : Realises disk a) (hw : a.WF)
    (e : Nat) (c : Category) (ch : Nat) (k : Kind) (he : e < 10) (hch : ch < 255) :
    load disk (repoDir e, indexName a.platform e c ch k) =
      match a.slot e c ch k with
      | .file f => some (indexToModel f)
      | _ => none := by
  have h := hr e c ch k he hch
  have hwf := hw.2 e c ch k he hch
  simp only [load, h]
  cases hs : a.slot e c ch k with
  | absent => rfl
  | file f => rw [hs] at hwf; exact parse_encodeIndex f hwf
  | junk bs => rw [hs] at hwf; exact parse_junk bs hwf

theorem hashOf_isSome_of_slash (k : Kind) (lp : Bytes) (h : splitOnce slash lp ≠ none) :
    (hashOf k lp).isSome = true := by
  cases k with
  | index2 => rfl
  | index1 =>
    have hm : slash ∈ lp := Decidable.of_not_not (fun hn => h ((splitOnce_none slash lp).mpr hn))
    have : rsplitOnce slash lp ≠ none := fun hn => (rsplitOnce_none slash lp).mp hn hm
    simp only [hashOf]
    cases hr : rsplitOnce slash lp with
    | none => exact absurd hr this
    | some x => rfl

/-- what the specification does with one candidate -/
def specTry (a : Archive) (e : Nat) (c : Category) (lp : Bytes) (x : Nat × Kind) : Option Loc :=
  match (a.slot e c x.1 x.2).find lp with
  | some en => some ⟨e, c, x.1, en.datId, en.offset⟩
  | none => none

theorem tryOne_eq (disk : Disk) (a : Archive) (hr : Realises disk a) (hw : a.WF)
    (e : Nat) (c : Category) (p : Bytes) (hs : splitOnce slash (lower p) ≠ none) (x : Nat × Kind)
    (he : e < 10) (hx : x.1 < 255) :
    tryOne disk p (nameOf a.platform e c x) =
      (specTry a e c (lower p) x).map (fun l => .found ⟨l.datId, l.offset⟩ l.chunk.toUInt8) := by
  simp only [tryOne, nameOf, load_eq disk a hr hw e c x.1 x.2 he hx, specTry]
  cases hslot : a.slot e c x.1 x.2 with
  | absent => rfl
  | junk bs => rfl
  | file f =>
    simp only [Slot.find, Index.findEntry_eq]
    have hh := hashOf_isSome_of_slash f.kind (lower p) hs
    obtain ⟨h, hh'⟩ := Option.isSome_iff_exists.mp hh
    simp only [hh', Option.map_some]
    cases findIn f (lower p) <;> rfl

theorem findSome?_congr' {α β : Type} (l : List α) (f g : α → Option β) (h : ∀ x ∈ l, f x = g x) :
    l.findSome? f = l.findSome? g := by
  induction l with
  | nil => rfl
  | cons x xs ih =>
    simp only [List.findSome?_cons, h x (by simp), ih (fun y hy => h y (by simp [hy]))]

theorem findSome?_map_some {α β γ : Type} (l : List α) (f : α → Option β) (g : β → γ) :
    l.findSome? (fun x => (f x).map g) = (l.findSome? f).map g := by
  induction l with
  | nil => rfl
  | cons x xs ih =>
    simp only [List.findSome?_cons]
    cases f x <;> simp [ih]

theorem locate_eq (a : Archive) (p : Bytes) :
    locate a p = (resolve a p).bind (fun ec => candidates.findSome? (specTry a ec.1 ec.2 (lower p))) := by
  unfold locate
  cases resolve a p with
  | none => rfl
  | some ec => obtain ⟨e, c⟩ := ec; rfl

theorem expansionOf_lt (a : Archive) (tok : Bytes) : expansionOf a tok < 10 := by
  unfold expansionOf
  cases h : (List.range' 1 9).find? (fun e => exName e == tok) with
  | none => simp only []; omega
  | some e =>
    have := List.mem_of_find?_eq_some h
    simp only [List.mem_range'] at this
    obtain ⟨i, hi, rfl⟩ := this
    simp only []
    split <;> omega

theorem resolve_lt {a : Archive} {p : Bytes} {ec : Nat × Category} (h : resolve a p = some ec) :
    ec.1 < 10 := by
  unfold resolve at h
  cases hs : splitOnce slash (lower p) with
  | none => rw [hs] at h; cases h
  | some t =>
    rw [hs] at h
    simp only [] at h
    cases hc : catOfName t.1 with
    | none => rw [hc] at h; cases h
    | some c =>
      rw [hc] at h
      simp only [Option.some.injEq] at h
      subst h
      exact expansionOf_lt a _

theorem resolve_slash {a : Archive} {p : Bytes} {ec : Nat × Category} (h : resolve a p = some ec) :
    splitOnce slash (lower p) ≠ none := by
  unfold resolve at h
  intro hn; rw [hn] at h; cases h

/-- the specification's answer to `find_entry` -/
def foundOf : Option Loc → Found
  | some l => .found ⟨l.datId, l.offset⟩ l.chunk.toUInt8
  | none => .notFound

theorem pureFindEntry_eq (disk : Disk) (a : Archive) (hr : Realises disk a) (hw : a.WF) (p : Bytes) :
    pureFindEntry disk (reposOf a.platform a.dirs) p = foundOf (locate a p) := by
  simp only [pureFindEntry, getIndexFilenames, parseRepositoryCategory_eq, locate_eq]
  cases hres : resolve a p with
  | none => rfl
  | some ec =>
    obtain ⟨e, c⟩ := ec
    have hs := resolve_slash hres
    have he : e < 10 := resolve_lt hres
    simp only [Option.map_some, Option.bind_some, pureFind, indexFilenamesOf_eq, List.findSome?_map]
    have : candidates.findSome? (tryOne disk p ∘ nameOf a.platform e c) =
        (candidates.findSome? (specTry a e c (lower p))).map
          (fun l => Found.found ⟨l.datId, l.offset⟩ l.chunk.toUInt8) := by
      rw [← findSome?_map_some]
      apply findSome?_congr'
      intro x hx
      exact tryOne_eq disk a hr hw e c p hs x he (mem_candidates hx)
    rw [this]
    cases candidates.findSome? (specTry a e c (lower p)) <;> rfl

theorem locate_chunk {a : Archive} {p : Bytes} {l : Loc} (h : locate a p = some l) :
    l.chunk < 255 ∧ resolve a p = some (l.exp, l.cat) := by
  rw [locate_eq] at h
  cases hres : resolve a p with
  | none => rw [hres] at h; cases h
  | some ec =>
    obtain ⟨e, c⟩ := ec
    rw [hres] at h
    simp only [Option.bind_some] at h
    obtain ⟨x, hx, hx2⟩ := List.exists_of_findSome?_eq_some h
    simp only [specTry] at hx2
    cases hf : (a.slot e c x.1 x.2).find (lower p) with
    | none => rw [hf] at hx2; cases hx2
    | some en =>
      rw [hf] at hx2
      simp only [Option.some.injEq] at hx2
      subst hx2
      exact ⟨mem_candidates hx, rfl⟩

/-- the specification's answers -/
def specAnswer (a : Archive) : Query → Answer
  | .exists p => .bool (locate a p).isSome
  | .findOffset p => .offset ((locate a p).map (·.offset))
  | .extract p => .dat ((locate a p).map (fun l => (l.datFile a.platform, l.offset)))

theorem pureAnswer_eq (disk : Disk) (a : Archive) (hr : Realises disk a) (hw : a.WF) (q : Query) :
    pureAnswer disk (reposOf a.platform a.dirs) q = specAnswer a q := by
  cases q with
  | «exists» p =>
    simp only [pureAnswer, specAnswer, pureFindEntry_eq disk a hr hw, getIndexFilenames,
      parseRepositoryCategory_eq]
    cases hres : resolve a p with
    | none => simp [locate_eq, hres]
    | some ec =>
      simp only [Option.map_some]
      cases locate a p <;> rfl
  | findOffset p =>
    simp only [pureAnswer, specAnswer, pureFindEntry_eq disk a hr hw]
    cases locate a p <;> rfl
  | extract p =>
    simp only [pureAnswer, specAnswer, pureFindEntry_eq disk a hr hw]
    cases hl : locate a p with
    | none => rfl
    | some l =>
      obtain ⟨hch, hres⟩ := locate_chunk hl
      simp only [foundOf, parseRepositoryCategory_eq, hres, Option.map_some, Loc.datFile,
        repoFor_name, datFilename_eq a.platform l.exp l.cat l.chunk hch]

/-- the handle `GameData::from_existing(platform, dir)` returns for the archive's directories -/
def fresh (a : Archive) : GameData := { repositories := reposOf a.platform a.dirs, indexFiles := [] }


theorem fresh_inv (disk : Disk) (a : Archive) : Inv disk (reposOf a.platform a.dirs) (fresh a) :=
  ⟨rfl, cacheIsMemo_nil disk⟩


theorem mem_candidates_iff (ch : Nat) (k : Kind) : (ch, k) ∈ candidates ↔ ch < 255 := by
  simp only [candidates, List.mem_flatMap, List.mem_range, List.mem_cons, Prod.mk.injEq,
    List.mem_nil_iff, or_false]
  constructor
  · rintro ⟨c, hc, (⟨rfl, _⟩ | ⟨rfl, _⟩)⟩ <;> exact hc
  · intro h; exact ⟨ch, h, by cases k <;> simp⟩


end Physis.GameData
