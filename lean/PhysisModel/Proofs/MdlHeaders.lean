import PhysisModel.Model.MdlWrite
/-!
# The headers recomputed by `MDL::update_headers` are self-consistent (property C07)

`HeaderOK m` states that the `MeshLod` rows, the per-mesh stream offsets and the file header of an
in-memory `MDL` agree with each other:

* (a) `chain` — section offsets (`Chain`, three-row form: `HeaderOK.three_rows`);
* (b) `RowOK.indexSize` — index section size = largest index extent of the row's meshes rounded up
  to the next multiple of 16 above it, **mod 2³²** (`RowOK.index_mod16`, `RowOK.index_bounds`,
  `RowOK.index_wrapped`; the wrap is reachable: `index_padding_wrap_witness`);
* (c) `RowOK.vertexSize`;
* (d) `streams` — cumulative stream offsets of the used LODs, under `RangesDisjoint` (needed:
  `streams_overlap_witness`); consequences `StreamsUpTo.ordered`, `StreamsUpTo.contained`,
  `HeaderOK.stream_in_section`;
* (e) `stack`, `runtime`, `fileRows`, `shapeCounts`.

`updateHeaders_ok`: every successful run of `updateHeaders` ends in `HeaderOK`, whatever the input.
Every edit ends with `updateHeaders`: `replaceVertices_ok`, `removeShapeMeshes_ok`,
`addShapeMesh_ok`, and `headers_consistent` for every history of edits (`history_inv` carries the
side conditions "three rows" and "disjoint mesh ranges" along; `Frame` = what no edit changes).
`HeaderOK` is decidable; the examples at the end evaluate it on concrete models.
-/
namespace Physis.Mdl
open Physis

/-! ### inversion lemmas for the result monad -/

theorem bind_ok {x : R α} {f : α → R β} {b : β} (h : (x >>= f) = .ok b) :
    ∃ a, x = .ok a ∧ f a = .ok b := by
  cases x with
  | error e => cases h
  | ok a => exact ⟨a, rfl, h⟩

theorem pure_ok {a b : α} (h : (pure a : R α) = .ok b) : a = b := by
  cases h; rfl

theorem addU32_inv {a b c : UInt32} (h : addU32 a b = .ok c) :
    c = a + b ∧ c.toNat = a.toNat + b.toNat := by
  unfold addU32 at h
  split at h
  · cases h
    refine ⟨rfl, ?_⟩
    rw [UInt32.toNat_add]; omega
  · cases h

theorem mulU32_inv {a b c : UInt32} (h : mulU32 a b = .ok c) :
    c = a * b ∧ c.toNat = a.toNat * b.toNat := by
  unfold mulU32 at h
  split at h
  · cases h
    refine ⟨rfl, ?_⟩
    rw [UInt32.toNat_mul]; omega
  · cases h

theorem addU16_inv {a b c : UInt16} (h : addU16 a b = .ok c) :
    c = a + b ∧ c.toNat = a.toNat + b.toNat := by
  unfold addU16 at h
  split at h
  · cases h
    refine ⟨rfl, ?_⟩
    rw [UInt16.toNat_add]; omega
  · cases h

theorem idx_inv {l : List α} {i : Nat} {a : α} (h : idx l i = .ok a) : l[i]? = some a := by
  unfold idx at h
  split at h
  · cases h; assumption
  · cases h

theorem idx3_inv {x : Arr3 α} {i : Nat} {a : α} (h : idx3 x i = .ok a) : x.get? i = some a := by
  unfold idx3 at h
  split at h
  · cases h; assumption
  · cases h

theorem Arr3.get?_lt {x : Arr3 α} {i : Nat} {a : α} (h : x.get? i = some a) : i < 3 := by
  match i, h with
  | 0, _ => omega
  | 1, _ => omega
  | 2, _ => omega

theorem Arr3.get?_set (x : Arr3 α) (i j : Nat) (v : α) :
    (x.set i v).get? j = if i = j ∧ i < 3 then some v else x.get? j := by
  match i, j with
  | 0, 0 | 0, 1 | 0, 2 | 0, _ + 3 => simp [Arr3.set, Arr3.get?]
  | 1, 0 | 1, 1 | 1, 2 | 1, _ + 3 => simp [Arr3.set, Arr3.get?]
  | 2, 0 | 2, 1 | 2, 2 | 2, _ + 3 => simp [Arr3.set, Arr3.get?]
  | _ + 3, _ => simp [Arr3.set]; omega

/-- invariant rule for a `foldlM` in `R` -/
theorem foldlM_inv (f : β → α → R β) (P : β → Prop) :
    ∀ (l : List α) (b0 b : β), P b0 →
      (∀ a, a ∈ l → ∀ b b', P b → f b a = .ok b' → P b') → l.foldlM f b0 = .ok b → P b := by
  intro l
  induction l with
  | nil => intro b0 b h0 _ h; cases h; exact h0
  | cons a l ih =>
    intro b0 b h0 hs h
    rw [List.foldlM_cons] at h
    obtain ⟨b1, h1, h⟩ := bind_ok h
    exact ih b1 b (hs a (by simp) b0 b1 h0 h1) (fun a' ha' => hs a' (by simp [ha'])) h

/-- invariant rule for a `foldlM` over `List.range n`, the invariant indexed by the step -/
theorem foldlM_range_inv (f : β → Nat → R β) (P : Nat → β → Prop) (b0 : β) (h0 : P 0 b0) :
    ∀ (n : Nat) (b : β), (∀ i b b', i < n → P i b → f b i = .ok b' → P (i + 1) b') →
      (List.range n).foldlM f b0 = .ok b → P n b := by
  intro n
  induction n with
  | zero => intro b _ h; cases h; exact h0
  | succ n ih =>
    intro b hs h
    rw [List.range_succ, List.foldlM_append] at h
    obtain ⟨b1, h1, h⟩ := bind_ok h
    have hb1 := ih b1 (fun i b b' hi => hs i b b' (by omega)) h1
    rw [List.foldlM_cons] at h
    obtain ⟨b2, h2, h⟩ := bind_ok h
    have e : b2 = b := pure_ok h
    rw [← e]
    exact hs n b1 b2 (by omega) hb1 h2

/-- a successful `mapM` in `R`: same length, element-wise success -/
theorem mapM_inv (f : α → R β) : ∀ (l : List α) (out : List β), l.mapM f = .ok out →
    out.length = l.length ∧ ∀ (i : Nat) b, out[i]? = some b → ∃ a, l[i]? = some a ∧ f a = .ok b := by
  intro l
  induction l with
  | nil =>
    intro out h
    rw [List.mapM_nil] at h
    cases h
    simp
  | cons a l ih =>
    intro out h
    rw [List.mapM_cons] at h
    obtain ⟨b, hb, h⟩ := bind_ok h
    obtain ⟨bs, hbs, h⟩ := bind_ok h
    cases h
    obtain ⟨hl, hi⟩ := ih bs hbs
    refine ⟨by simp [hl], ?_⟩
    intro i b' hb'
    cases i with
    | zero => simp at hb'; subst hb'; exact ⟨a, by simp, hb⟩
    | succ i => simpa using hi i b' (by simpa using hb')

/-! ### the quantities the headers are compared with -/

/-- `Σ_{k < n} f k` -/
def sumTo (f : Nat → Nat) : Nat → Nat
  | 0 => 0
  | n + 1 => sumTo f n + f n

/-- `max_{k < n} f k` (0 for `n = 0`) -/
def maxTo (f : Nat → Nat) : Nat → Nat
  | 0 => 0
  | n + 1 => max (maxTo f n) (f n)

theorem le_maxTo (f : Nat → Nat) : ∀ n k, k < n → f k ≤ maxTo f n := by
  intro n
  induction n with
  | zero => intro k h; omega
  | succ n ih =>
    intro k h
    show f k ≤ max (maxTo f n) (f n)
    by_cases hk : k = n
    · subst hk; omega
    · have := ih k (by omega); omega

theorem sumTo_congr {f g : Nat → Nat} : ∀ n, (∀ k, k < n → f k = g k) → sumTo f n = sumTo g n := by
  intro n
  induction n with
  | zero => intro _; rfl
  | succ n ih =>
    intro h
    show sumTo f n + f n = sumTo g n + g n
    rw [ih (fun k hk => h k (by omega)), h n (by omega)]

theorem maxTo_congr {f g : Nat → Nat} : ∀ n, (∀ k, k < n → f k = g k) → maxTo f n = maxTo g n := by
  intro n
  induction n with
  | zero => intro _; rfl
  | succ n ih =>
    intro h
    show max (maxTo f n) (f n) = max (maxTo g n) (g n)
    rw [ih (fun k hk => h k (by omega)), h n (by omega)]

theorem sumTo_mono (f : Nat → Nat) : ∀ n k, k ≤ n → sumTo f k ≤ sumTo f n := by
  intro n
  induction n with
  | zero => intro k h; have : k = 0 := by omega
            subst this; exact Nat.le_refl _
  | succ n ih =>
    intro k h
    by_cases hk : k = n + 1
    · subst hk; exact Nat.le_refl _
    · have := ih k (by omega)
      show sumTo f k ≤ sumTo f n + f n
      omega

/-- mesh `j` of the mesh table (`default` outside the table; every use below comes with
`j < ms.length`) -/
def meshAt (ms : List Mesh) (j : Nat) : Mesh := ms[j]?.getD default

/-- stride of vertex stream `s` in bytes (0 for `s ≥ 3`; every use below has `s < 3`) -/
def Mesh.strideAt (x : Mesh) (s : Nat) : Nat := ((x.vertexBufferStrides.get? s).map UInt8.toNat).getD 0
/-- byte offset of vertex stream `s` inside the LOD's vertex section -/
def Mesh.offAt (x : Mesh) (s : Nat) : Nat := ((x.vertexBufferOffsets.get? s).map UInt32.toNat).getD 0
/-- bytes of one vertex over all declared streams -/
def Mesh.vertexStride (x : Mesh) : Nat := sumTo x.strideAt x.vertexStreamCount.toNat
/-- bytes of the mesh in the vertex section: `vertexCount · Σ_{s < streamCount} stride_s` -/
def Mesh.vertexBytes (x : Mesh) : Nat := x.vertexCount.toNat * x.vertexStride
/-- end of the mesh's own index range, in bytes from the start of the index section -/
def Mesh.indexExtent (x : Mesh) : Nat := 2 * (x.startIndex.toNat + x.indexCount.toNat)

/-- `Σ` of the vertex bytes of the first `k` meshes of the range starting at mesh `lo` -/
def vertexBytesTo (ms : List Mesh) (lo k : Nat) : Nat := sumTo (fun d => (meshAt ms (lo + d)).vertexBytes) k
/-- the largest index extent among the first `k` meshes of the range starting at mesh `lo` -/
def indexExtentTo (ms : List Mesh) (lo k : Nat) : Nat := maxTo (fun d => (meshAt ms (lo + d)).indexExtent) k

/-- (b), (c): one `MeshLod` row against the mesh table -/
structure RowOK (ms : List Mesh) (l : MeshLod) : Prop where
  /-- the mesh range does not leave `u16` -/
  rangeU16 : l.meshIndex.toNat + l.meshCount.toNat < 65536
  /-- every mesh of the range exists and declares at most 3 streams -/
  inRange : ∀ d, d < l.meshCount.toNat → l.meshIndex.toNat + d < ms.length ∧
    (meshAt ms (l.meshIndex.toNat + d)).vertexStreamCount.toNat ≤ 3
  /-- (c) -/
  vertexSize : l.vertexBufferSize.toNat = vertexBytesTo ms l.meshIndex.toNat l.meshCount.toNat
  /-- the largest extent fits `u32` (checked multiplication by 2) -/
  extentU32 : indexExtentTo ms l.meshIndex.toNat l.meshCount.toNat < 4294967296
  /-- (b): the extent rounded up to the next multiple of 16 strictly above it, **mod 2³²**
  (`wrapping_add` of the padding) -/
  indexSize : l.indexBufferSize.toNat =
    (indexExtentTo ms l.meshIndex.toNat l.meshCount.toNat / 16 + 1) * 16 % 4294967296

/-- (a): the sections of the rows follow each other from byte `start` on -/
def Chain : Nat → List MeshLod → Prop
  | _, [] => True
  | start, l :: rest =>
    l.vertexDataOffset.toNat = start ∧
    l.indexDataOffset.toNat = l.vertexDataOffset.toNat + l.vertexBufferSize.toNat ∧
    l.edgeGeometryDataOffset = l.indexDataOffset ∧
    Chain (l.indexDataOffset.toNat + l.indexBufferSize.toNat) rest

/-! ### `updateLodSizes` -/

theorem strideFold_inv (x : Mesh) (t : UInt32)
    (h : (List.range x.vertexStreamCount.toNat).foldlM (fun (t : UInt32) s => do
        let st ← idx3 x.vertexBufferStrides s
        addU32 t st.toUInt32) 0 = .ok t) :
    t.toNat = x.vertexStride ∧ x.vertexStreamCount.toNat ≤ 3 := by
  have := foldlM_range_inv _ (fun k (t : UInt32) => t.toNat = sumTo x.strideAt k ∧ k ≤ 3) 0
    ⟨rfl, by omega⟩ _ t ?_ h
  · exact this
  · intro i b b' _ hP hf
    obtain ⟨st, hst, hf⟩ := bind_ok hf
    have hst := idx3_inv hst
    have hi := Arr3.get?_lt hst
    obtain ⟨_, hb'⟩ := addU32_inv hf
    refine ⟨?_, by omega⟩
    show b'.toNat = sumTo x.strideAt i + x.strideAt i
    rw [hb', hP.1]
    simp [Mesh.strideAt, hst]

theorem pad_toNat (ti : UInt32) :
    (ti + (if ti % 16 == 0 then 16 else 16 - ti % 16)).toNat = (ti.toNat / 16 + 1) * 16 % 4294967296 := by
  have hm : (ti % 16).toNat = ti.toNat % 16 := by rw [UInt32.toNat_mod]; rfl
  have hlt := ti.toNat_lt
  split
  · rename_i h
    have h0 : ti % 16 = 0 := by simpa using h
    rw [h0, show (0 : UInt32).toNat = 0 from rfl] at hm
    rw [UInt32.toNat_add, show (16 : UInt32).toNat = 16 from rfl]
    omega
  · rename_i h
    have h0 : ¬ ti % 16 = 0 := by simpa using h
    have h1 : (ti % 16).toNat ≠ 0 := fun e => h0 (UInt32.toNat_inj.mp e)
    rw [UInt32.toNat_add, UInt32.toNat_sub, hm, show (16 : UInt32).toNat = 16 from rfl]
    omega

theorem updateLodSizes_inv {ms : List Mesh} {l l' : MeshLod} (h : updateLodSizes ms l = .ok l') :
    RowOK ms l' ∧ ∃ tv ib, l' = { l with vertexBufferSize := tv, indexBufferSize := ib } := by
  unfold updateLodSizes at h
  obtain ⟨hi, hhi, h⟩ := bind_ok h
  obtain ⟨_, hhi⟩ := addU16_inv hhi
  obtain ⟨⟨tv, ti⟩, hfold, h⟩ := bind_ok h
  have e := pure_ok h
  have hn : hi.toNat - l.meshIndex.toNat = l.meshCount.toNat := by omega
  have hilt := hi.toNat_lt
  rw [hn] at hfold
  have inv := foldlM_range_inv _ (fun k (acc : UInt32 × UInt32) =>
      acc.1.toNat = vertexBytesTo ms l.meshIndex.toNat k ∧
      acc.2.toNat = indexExtentTo ms l.meshIndex.toNat k ∧
      ∀ d, d < k → l.meshIndex.toNat + d < ms.length ∧
        (meshAt ms (l.meshIndex.toNat + d)).vertexStreamCount.toNat ≤ 3) (0, 0)
    ⟨rfl, rfl, fun d hd => by omega⟩ _ (tv, ti) ?_ hfold
  · obtain ⟨h1, h2, h3⟩ := inv
    subst e
    refine ⟨⟨by simp only []; omega, h3, h1, ?_, ?_⟩, _, _, rfl⟩
    · rw [← h2]; exact ti.toNat_lt
    · simp only []
      rw [← h2]
      exact pad_toNat ti
  · intro k acc acc' _ hP hf
    obtain ⟨mesh, hmesh, hf⟩ := bind_ok hf
    have hmesh := idx_inv hmesh
    obtain ⟨stride, hstride, hf⟩ := bind_ok hf
    obtain ⟨hs1, hs2⟩ := strideFold_inv mesh stride hstride
    obtain ⟨a, ha, hf⟩ := bind_ok hf
    obtain ⟨_, ha⟩ := mulU32_inv ha
    obtain ⟨tv', htv', hf⟩ := bind_ok hf
    obtain ⟨_, htv'⟩ := addU32_inv htv'
    obtain ⟨e', he', hf⟩ := bind_ok hf
    obtain ⟨_, he'⟩ := addU32_inv he'
    obtain ⟨b, hb, hf⟩ := bind_ok hf
    obtain ⟨_, hb⟩ := mulU32_inv hb
    rw [show (2 : UInt32).toNat = 2 from rfl] at hb
    have e2 := pure_ok hf
    subst e2
    have hm : meshAt ms (l.meshIndex.toNat + k) = mesh := by simp [meshAt, hmesh]
    have hlen : l.meshIndex.toNat + k < ms.length := by
      apply Classical.byContradiction
      intro hc
      rw [List.getElem?_eq_none (by omega)] at hmesh
      cases hmesh
    obtain ⟨p1, p2, p3⟩ := hP
    refine ⟨?_, ?_, ?_⟩
    · show tv'.toNat = vertexBytesTo ms l.meshIndex.toNat k + (meshAt ms (l.meshIndex.toNat + k)).vertexBytes
      rw [hm, htv', ha, p1, hs1, UInt16.toNat_toUInt32]
      rfl
    · show (if acc.2 < b then b else acc.2).toNat =
        max (indexExtentTo ms l.meshIndex.toNat k) (meshAt ms (l.meshIndex.toNat + k)).indexExtent
      rw [hm, ← p2, Mesh.indexExtent, ← he']
      split
      · rename_i hlt
        have := UInt32.lt_iff_toNat_lt.mp hlt
        omega
      · rename_i hlt
        have : ¬ acc.2.toNat < b.toNat := fun hc => hlt (UInt32.lt_iff_toNat_lt.mpr hc)
        omega
    · intro d hd
      by_cases hdk : d = k
      · subst hdk
        exact ⟨hlen, by rw [hm]; exact hs2⟩
      · exact p3 d (by omega)

theorem RowOK.setOffsets {ms : List Mesh} {l : MeshLod} (h : RowOK ms l) (vo io eo : UInt32) :
    RowOK ms { l with vertexDataOffset := vo, indexDataOffset := io, edgeGeometryDataOffset := eo } :=
  ⟨h.rangeU16, h.inRange, h.vertexSize, h.extentU32, h.indexSize⟩

/-! ### `assignOffsets`, `copy3`, `calculateStackSize` -/

theorem assignOffsets_inv (D : UInt32) : ∀ (rows out : List MeshLod) (o : UInt32),
    assignOffsets D rows o = .ok out →
    Chain (D.toNat + o.toNat) out ∧ out.length = rows.length ∧
    ∀ (i : Nat) l', out[i]? = some l' → ∃ l, rows[i]? = some l ∧ ∃ vo io,
      l' = { l with vertexDataOffset := vo, indexDataOffset := io, edgeGeometryDataOffset := io } := by
  intro rows
  induction rows with
  | nil =>
    intro out o h
    cases h
    exact ⟨trivial, rfl, by simp⟩
  | cons l rest ih =>
    intro out o h
    unfold assignOffsets at h
    obtain ⟨vo, hvo, h⟩ := bind_ok h
    obtain ⟨_, hvo⟩ := addU32_inv hvo
    obtain ⟨o1, ho1, h⟩ := bind_ok h
    obtain ⟨_, ho1⟩ := addU32_inv ho1
    obtain ⟨io, hio, h⟩ := bind_ok h
    obtain ⟨_, hio⟩ := addU32_inv hio
    obtain ⟨o2, ho2, h⟩ := bind_ok h
    obtain ⟨_, ho2⟩ := addU32_inv ho2
    obtain ⟨tail, htail, h⟩ := bind_ok h
    have e := pure_ok h
    subst e
    obtain ⟨hc, hl, hr⟩ := ih tail o2 htail
    refine ⟨⟨hvo, ?_, rfl, ?_⟩, by simp [hl], ?_⟩
    · show io.toNat = vo.toNat + l.vertexBufferSize.toNat
      omega
    · have e : D.toNat + o2.toNat = io.toNat + l.indexBufferSize.toNat := by omega
      rw [e] at hc
      exact hc
    · intro i l' hl'
      cases i with
      | zero =>
        simp at hl'
        exact ⟨l, by simp, vo, io, hl'.symm⟩
      | succ i => simpa using hr i l' (by simpa using hl')

theorem copy3_inv {n : Nat} {dst r : Arr3 UInt32} {src : List UInt32}
    (h : copy3 n dst src = .ok r) :
    n ≤ 3 ∧ n ≤ src.length ∧ ∀ i, i < n → r.get? i = src[i]? := by
  unfold copy3 at h
  refine foldlM_range_inv _ (fun k (a : Arr3 UInt32) =>
    k ≤ 3 ∧ k ≤ src.length ∧ ∀ i, i < k → a.get? i = src[i]?) dst
    ⟨by omega, by omega, fun i hi => by omega⟩ n r ?_ h
  intro k a a' _ hP hf
  split at hf
  · cases hf
  · rename_i hk
    obtain ⟨v, hv, hf⟩ := bind_ok hf
    have hv := idx_inv hv
    have e := pure_ok hf
    subst e
    have hlen : k < src.length := by
      apply Classical.byContradiction
      intro hc
      rw [List.getElem?_eq_none (by omega)] at hv
      cases hv
    refine ⟨by omega, by omega, ?_⟩
    intro i hi
    rw [Arr3.get?_set]
    by_cases hik : i = k
    · subst hik
      rw [if_pos ⟨rfl, by omega⟩, hv]
    · rw [if_neg (by omega)]
      exact hP.2.2 i (by omega)

theorem calculateStackSize_inv {fh : FileHeader} {s : UInt32} (h : calculateStackSize fh = .ok s) :
    s.toNat = fh.vertexDeclarationCount.toNat * 136 := by
  unfold calculateStackSize at h
  obtain ⟨a, ha, h⟩ := bind_ok h
  obtain ⟨_, ha⟩ := mulU32_inv ha
  obtain ⟨_, h⟩ := mulU32_inv h
  rw [h, ha, UInt16.toNat_toUInt32, show (17 : UInt32).toNat = 17 from rfl,
    show (8 : UInt32).toNat = 8 from rfl]
  omega

theorem calculateRuntimeSize_lods (d : ModelData) (lods : List MeshLod) :
    calculateRuntimeSize { d with lods := lods } = calculateRuntimeSize d := rfl

/-! ### (d) the stream offsets written by the first loop of `update_headers` -/

/-- two mesh rows with the same vertex layout (count, strides, number of streams) -/
structure SameShape (a b : Mesh) : Prop where
  vc : a.vertexCount = b.vertexCount
  strides : a.vertexBufferStrides = b.vertexBufferStrides
  sc : a.vertexStreamCount = b.vertexStreamCount

theorem SameShape.refl (a : Mesh) : SameShape a a := ⟨rfl, rfl, rfl⟩
theorem SameShape.symm {a b : Mesh} (h : SameShape a b) : SameShape b a :=
  ⟨h.vc.symm, h.strides.symm, h.sc.symm⟩
theorem SameShape.trans {a b c : Mesh} (h1 : SameShape a b) (h2 : SameShape b c) : SameShape a c :=
  ⟨h1.vc.trans h2.vc, h1.strides.trans h2.strides, h1.sc.trans h2.sc⟩
theorem SameShape.strideAt {a b : Mesh} (h : SameShape a b) : a.strideAt = b.strideAt := by
  funext s; unfold Mesh.strideAt; rw [h.strides]
theorem SameShape.vertexStride {a b : Mesh} (h : SameShape a b) : a.vertexStride = b.vertexStride := by
  unfold Mesh.vertexStride; rw [h.strideAt, h.sc]
theorem SameShape.vertexBytes {a b : Mesh} (h : SameShape a b) : a.vertexBytes = b.vertexBytes := by
  unfold Mesh.vertexBytes; rw [h.vertexStride, h.vc]

/-- same length, same vertex layout row by row -/
def ShapeEqL (a b : List Mesh) : Prop :=
  a.length = b.length ∧ ∀ j, SameShape (meshAt a j) (meshAt b j)

theorem ShapeEqL.refl (a : List Mesh) : ShapeEqL a a := ⟨rfl, fun _ => SameShape.refl _⟩

theorem ShapeEqL.vertexBytesTo {a b : List Mesh} (h : ShapeEqL a b) (lo k : Nat) :
    vertexBytesTo a lo k = vertexBytesTo b lo k :=
  sumTo_congr k (fun d _ => (h.2 (lo + d)).vertexBytes)

/-- (d) for the meshes `lo, …, lo + k − 1` of `ms`, the layout taken from `ref`: stream `s` of
mesh `lo + d` starts after the full vertex blocks of the meshes before it and after the streams
`< s` of its own mesh -/
def StreamsUpTo (ref ms : List Mesh) (lo k : Nat) : Prop :=
  ∀ d, d < k → ∀ s, s < (meshAt ref (lo + d)).vertexStreamCount.toNat →
    (meshAt ms (lo + d)).offAt s = vertexBytesTo ref lo d +
      (meshAt ref (lo + d)).vertexCount.toNat * sumTo (meshAt ref (lo + d)).strideAt s

theorem StreamsUpTo.ofShape {ref ms : List Mesh} {lo k : Nat} (h : StreamsUpTo ref ms lo k)
    (hs : ShapeEqL ref ms) : StreamsUpTo ms ms lo k := by
  intro d hd s hsc
  have e := hs.2 (lo + d)
  rw [← e.sc] at hsc
  rw [h d hd s hsc, hs.vertexBytesTo, e.vc, e.strideAt]

theorem meshAt_set (ms : List Mesh) (j j' : Nat) (x : Mesh) (hj : j < ms.length) :
    meshAt (ms.set j x) j' = if j = j' then x else meshAt ms j' := by
  unfold meshAt
  rw [List.getElem?_set]
  by_cases h : j = j'
  · subst h; simp [hj]
  · simp [h]

theorem streamFold_inv (x0 : Mesh) (v0 : UInt32) (r : Mesh × UInt32)
    (h : (List.range x0.vertexStreamCount.toNat).foldlM
      (fun (ms : Mesh × UInt32) s => do
        if s ≥ 3 then (Except.error Err.panic : R (Mesh × UInt32)) else
        let stride ← idx3 ms.1.vertexBufferStrides s
        let p ← mulU32 ms.1.vertexCount.toUInt32 stride.toUInt32
        let nv ← addU32 ms.2 p
        pure ({ ms.1 with vertexBufferOffsets := ms.1.vertexBufferOffsets.set s ms.2 }, nv))
      (x0, v0) = .ok r) :
    SameShape r.1 x0 ∧ r.2.toNat = v0.toNat + x0.vertexBytes ∧
    ∀ s, s < x0.vertexStreamCount.toNat →
      r.1.offAt s = v0.toNat + x0.vertexCount.toNat * sumTo x0.strideAt s := by
  refine foldlM_range_inv _ (fun k (st : Mesh × UInt32) =>
    SameShape st.1 x0 ∧ st.2.toNat = v0.toNat + x0.vertexCount.toNat * sumTo x0.strideAt k ∧
    ∀ s, s < k → st.1.offAt s = v0.toNat + x0.vertexCount.toNat * sumTo x0.strideAt s) (x0, v0)
    ⟨SameShape.refl _, by simp [sumTo], fun s hs => by omega⟩ _ r ?_ h
  intro k st st' _ hP hf
  obtain ⟨p1, p2, p3⟩ := hP
  split at hf
  · cases hf
  · rename_i hk
    obtain ⟨stride, hstride, hf⟩ := bind_ok hf
    have hstride := idx3_inv hstride
    obtain ⟨p, hp, hf⟩ := bind_ok hf
    obtain ⟨_, hp⟩ := mulU32_inv hp
    obtain ⟨nv, hnv, hf⟩ := bind_ok hf
    obtain ⟨_, hnv⟩ := addU32_inv hnv
    have e := pure_ok hf
    subst e
    have hsk : x0.strideAt k = stride.toNat := by
      rw [← p1.strideAt]; simp [Mesh.strideAt, hstride]
    refine ⟨⟨p1.vc, p1.strides, p1.sc⟩, ?_, ?_⟩
    · show nv.toNat = v0.toNat + x0.vertexCount.toNat * (sumTo x0.strideAt k + x0.strideAt k)
      rw [hnv, hp, p2, UInt16.toNat_toUInt32, UInt8.toNat_toUInt32, hsk, p1.vc, Nat.mul_add]
      omega
    · intro s hs
      show (((st.1.vertexBufferOffsets.set k st.2).get? s).map UInt32.toNat).getD 0 = _
      rw [Arr3.get?_set]
      by_cases hsk' : s = k
      · subst hsk'
        rw [if_pos ⟨rfl, by omega⟩]
        exact p2
      · rw [if_neg (by omega)]
        exact p3 s (by omega)

theorem meshFold_inv (subs : List Submesh) (ref ms : List Mesh) (lo cnt : Nat)
    (hs : ShapeEqL ref ms) (r : List Mesh × UInt32)
    (h : (List.range cnt).foldlM
      (fun (st : List Mesh × UInt32) dj => do
        let j := lo + dj
        let mesh ← idx st.1 j
        let sub ← idx subs mesh.submeshIndex.toNat
        let mesh := { mesh with startIndex := sub.indexOffset }
        let r ← (List.range mesh.vertexStreamCount.toNat).foldlM
          (fun (ms : Mesh × UInt32) s => do
            if s ≥ 3 then (Except.error Err.panic : R (Mesh × UInt32)) else
            let stride ← idx3 ms.1.vertexBufferStrides s
            let p ← mulU32 ms.1.vertexCount.toUInt32 stride.toUInt32
            let nv ← addU32 ms.2 p
            pure ({ ms.1 with vertexBufferOffsets := ms.1.vertexBufferOffsets.set s ms.2 }, nv))
          (mesh, st.2)
        pure (st.1.set j r.1, r.2)) (ms, 0) = .ok r) :
    ShapeEqL ref r.1 ∧ (∀ j, j < lo ∨ lo + cnt ≤ j → r.1[j]? = ms[j]?) ∧
    StreamsUpTo ref r.1 lo cnt := by
  have inv := foldlM_range_inv _ (fun k (st : List Mesh × UInt32) =>
    ShapeEqL ref st.1 ∧ (∀ j, j < lo ∨ lo + k ≤ j → st.1[j]? = ms[j]?) ∧
    st.2.toNat = vertexBytesTo ref lo k ∧ StreamsUpTo ref st.1 lo k) (ms, 0)
    ⟨hs, fun _ _ => rfl, rfl, fun d hd => by omega⟩ cnt r ?_ h
  · exact ⟨inv.1, inv.2.1, inv.2.2.2⟩
  · intro k st st' _ hP hf
    obtain ⟨p1, p2, p3, p4⟩ := hP
    obtain ⟨mesh, hmesh, hf⟩ := bind_ok hf
    have hmesh := idx_inv hmesh
    obtain ⟨sub, _, hf⟩ := bind_ok hf
    obtain ⟨r', hr', hf⟩ := bind_ok hf
    obtain ⟨q1, q2, q3⟩ := streamFold_inv { mesh with startIndex := sub.indexOffset } st.2 r' hr'
    have e := pure_ok hf
    subst e
    have hlen : lo + k < st.1.length := by
      apply Classical.byContradiction
      intro hc
      rw [List.getElem?_eq_none (by omega)] at hmesh
      cases hmesh
    have hm : meshAt st.1 (lo + k) = mesh := by simp [meshAt, hmesh]
    have hshape : SameShape (meshAt ref (lo + k)) r'.1 := by
      have := p1.2 (lo + k)
      rw [hm] at this
      have e0 : SameShape mesh { mesh with startIndex := sub.indexOffset } := ⟨rfl, rfl, rfl⟩
      exact this.trans (e0.trans q1.symm)
    refine ⟨⟨?_, ?_⟩, ?_, ?_, ?_⟩
    · show ref.length = (st.1.set (lo + k) r'.1).length
      rw [List.length_set]; exact p1.1
    · intro j
      show SameShape (meshAt ref j) (meshAt (st.1.set (lo + k) r'.1) j)
      rw [meshAt_set _ _ _ _ hlen]
      by_cases hj : lo + k = j
      · rw [if_pos hj, ← hj]; exact hshape
      · rw [if_neg hj]; exact p1.2 j
    · intro j hj
      show (st.1.set (lo + k) r'.1)[j]? = ms[j]?
      rw [List.getElem?_set_ne (by omega)]
      exact p2 j (by omega)
    · show r'.2.toNat = vertexBytesTo ref lo k + (meshAt ref (lo + k)).vertexBytes
      rw [q2, p3, (hshape.trans q1).vertexBytes]
    · intro d hd s hsc
      show (meshAt (st.1.set (lo + k) r'.1) (lo + d)).offAt s = _
      rw [meshAt_set _ _ _ _ hlen]
      by_cases hdk : d = k
      · subst hdk
        rw [if_pos rfl]
        have e1 := hshape.trans q1
        rw [e1.sc] at hsc
        rw [q3 s hsc, p3, e1.vc, e1.strideAt]
      · rw [if_neg (by omega)]
        exact p4 d (by omega) s hsc

/-- row `i` of the LOD table (`default` = the empty range outside the table) -/
def lodAt (lods : List MeshLod) (i : Nat) : MeshLod := lods[i]?.getD default

/-- the mesh ranges of two rows do not overlap -/
def RangeDisjoint (a b : MeshLod) : Prop :=
  a.meshCount.toNat = 0 ∨ b.meshCount.toNat = 0 ∨
  a.meshIndex.toNat + a.meshCount.toNat ≤ b.meshIndex.toNat ∨
  b.meshIndex.toNat + b.meshCount.toNat ≤ a.meshIndex.toNat

instance (a b : MeshLod) : Decidable (RangeDisjoint a b) := by
  unfold RangeDisjoint; infer_instance

/-- the mesh ranges of the first `n` rows are pairwise disjoint -/
def RangesDisjoint (lods : List MeshLod) (n : Nat) : Prop :=
  ∀ i, i < n → ∀ k, k < i → RangeDisjoint (lodAt lods k) (lodAt lods i)

instance (lods : List MeshLod) (n : Nat) : Decidable (RangesDisjoint lods n) := by
  unfold RangesDisjoint; infer_instance

theorem updateMeshOffsets_inv {md : ModelData} {n : Nat} {out : List Mesh}
    (h : updateMeshOffsets md n = .ok out) :
    ShapeEqL md.meshes out ∧ (∀ i, i < n → i < md.lods.length) ∧
    (RangesDisjoint md.lods n → ∀ i, i < n →
      StreamsUpTo md.meshes out (lodAt md.lods i).meshIndex.toNat (lodAt md.lods i).meshCount.toNat) := by
  unfold updateMeshOffsets at h
  have inv := foldlM_range_inv _ (fun k (ms : List Mesh) =>
    ShapeEqL md.meshes ms ∧ (∀ i, i < k → i < md.lods.length) ∧
    (RangesDisjoint md.lods n → ∀ i, i < k →
      StreamsUpTo md.meshes ms (lodAt md.lods i).meshIndex.toNat (lodAt md.lods i).meshCount.toNat))
    md.meshes ⟨ShapeEqL.refl _, fun i hi => by omega, fun _ i hi => by omega⟩ n out ?_ h
  · exact inv
  · intro k ms ms' hk hP hf
    obtain ⟨p1, p2, p3⟩ := hP
    obtain ⟨lod, hlod, hf⟩ := bind_ok hf
    have hlod := idx_inv hlod
    obtain ⟨hi, hhi, hf⟩ := bind_ok hf
    obtain ⟨_, hhi⟩ := addU16_inv hhi
    obtain ⟨r, hr, hf⟩ := bind_ok hf
    have e := pure_ok hf
    subst e
    have hn : hi.toNat - lod.meshIndex.toNat = lod.meshCount.toNat := by omega
    rw [hn] at hr
    obtain ⟨q1, q2, q3⟩ := meshFold_inv md.submeshes md.meshes ms lod.meshIndex.toNat
      lod.meshCount.toNat p1 r hr
    have hklen : k < md.lods.length := by
      apply Classical.byContradiction
      intro hc
      rw [List.getElem?_eq_none (by omega)] at hlod
      cases hlod
    have hat : lodAt md.lods k = lod := by simp [lodAt, hlod]
    refine ⟨q1, ?_, ?_⟩
    · intro i hi
      by_cases hik : i = k
      · subst hik; exact hklen
      · exact p2 i (by omega)
    · intro hd i hi
      by_cases hik : i = k
      · subst hik; rw [hat]; exact q3
      · have hold := p3 hd i (by omega)
        have hdis := hd k hk i (by omega)
        rw [hat] at hdis
        intro d hdc s hsc
        have hfr : meshAt r.1 ((lodAt md.lods i).meshIndex.toNat + d) =
            meshAt ms ((lodAt md.lods i).meshIndex.toNat + d) := by
          unfold meshAt
          rw [q2]
          unfold RangeDisjoint at hdis
          omega
        rw [hfr]
        exact hold d hdc s hsc

theorem lodAt_ranges {a b : List MeshLod} (hlen : b.length = a.length)
    (h : ∀ (i : Nat) l', b[i]? = some l' → ∃ l, a[i]? = some l ∧
      l'.meshIndex = l.meshIndex ∧ l'.meshCount = l.meshCount) (i : Nat) :
    (lodAt b i).meshIndex = (lodAt a i).meshIndex ∧ (lodAt b i).meshCount = (lodAt a i).meshCount := by
  unfold lodAt
  cases hb : b[i]? with
  | none =>
    have : a[i]? = none := by
      rw [List.getElem?_eq_none_iff] at hb ⊢
      omega
    rw [this]
    exact ⟨rfl, rfl⟩
  | some l' =>
    obtain ⟨l, hl, e1, e2⟩ := h i l' hb
    rw [hl]
    exact ⟨e1, e2⟩

theorem RangesDisjoint.of_ranges {a b : List MeshLod}
    (hr : ∀ i, (lodAt b i).meshIndex = (lodAt a i).meshIndex ∧
      (lodAt b i).meshCount = (lodAt a i).meshCount) {n : Nat}
    (h : RangesDisjoint b n) : RangesDisjoint a n := by
  intro i hi k hk
  have := h i hi k hk
  unfold RangeDisjoint at this ⊢
  rw [(hr i).1, (hr i).2, (hr k).1, (hr k).2] at this
  exact this

theorem RangesDisjoint.to_ranges {a b : List MeshLod}
    (hr : ∀ i, (lodAt b i).meshIndex = (lodAt a i).meshIndex ∧
      (lodAt b i).meshCount = (lodAt a i).meshCount) {n : Nat}
    (h : RangesDisjoint a n) : RangesDisjoint b n :=
  RangesDisjoint.of_ranges (a := b) (b := a) (fun i => ⟨(hr i).1.symm, (hr i).2.symm⟩) h

/-- (d) for one LOD row -/
def StreamsOK (ms : List Mesh) (l : MeshLod) : Prop :=
  StreamsUpTo ms ms l.meshIndex.toNat l.meshCount.toNat

/-! ### the predicate -/

/-- The in-memory headers of `m` are self-consistent. -/
structure HeaderOK (m : MDL) : Prop where
  /-- (a) section offsets: the first vertex section starts right after the runtime block as the
  file header declares it, every index section right after its vertex section, the next LOD's
  vertex section right after the index section; `edge_geometry_data_offset = index_data_offset` -/
  chain : Chain (68 + m.fileHeader.stackSize.toNat + m.fileHeader.runtimeSize.toNat) m.modelData.lods
  /-- (b), (c) sizes of every row -/
  rows : ∀ l, l ∈ m.modelData.lods → RowOK m.modelData.meshes l
  /-- (e) -/
  stack : m.fileHeader.stackSize.toNat = m.fileHeader.vertexDeclarationCount.toNat * 136
  runtime : calculateRuntimeSize m.modelData = .ok m.fileHeader.runtimeSize
  partsLe : m.lods.length ≤ 3 ∧ m.lods.length ≤ m.modelData.lods.length
  fileRows : ∀ i, i < m.lods.length →
    m.fileHeader.vertexOffsets.get? i = m.modelData.lods[i]?.map (·.vertexDataOffset) ∧
    m.fileHeader.indexOffsets.get? i = m.modelData.lods[i]?.map (·.indexDataOffset) ∧
    m.fileHeader.vertexBufferSize.get? i = m.modelData.lods[i]?.map (·.vertexBufferSize) ∧
    m.fileHeader.indexBufferSize.get? i = m.modelData.lods[i]?.map (·.indexBufferSize)
  shapeCounts :
    m.modelData.header.shapeCount = m.modelData.shapes.length.toUInt16 ∧
    m.modelData.header.shapeMeshCount = m.modelData.shapeMeshes.length.toUInt16 ∧
    m.modelData.header.shapeValueCount = m.modelData.shapeValues.length.toUInt16
  /-- every used LOD has a row -/
  usedLe : m.lods.length ≤ m.modelData.lods.length
  /-- (d) stream offsets of the meshes of the used LODs, when the mesh ranges of the used LODs do
  not overlap (otherwise the offsets of a shared mesh are those of the last LOD that owns it) -/
  streams : RangesDisjoint m.modelData.lods m.lods.length →
    ∀ i, i < m.lods.length → StreamsOK m.modelData.meshes (lodAt m.modelData.lods i)

/-- what `updateHeaders` leaves alone -/
structure Frame (m m' : MDL) : Prop where
  lodsLen : m'.modelData.lods.length = m.modelData.lods.length
  ranges : ∀ (i : Nat) l', m'.modelData.lods[i]? = some l' → ∃ l, m.modelData.lods[i]? = some l ∧
    l'.meshIndex = l.meshIndex ∧ l'.meshCount = l.meshCount
  lodCount : m'.fileHeader.lodCount = m.fileHeader.lodCount
  partsLen : m'.lods.length = m.lods.length

theorem updateHeaders_core {m m' : MDL} (h : updateHeaders m = .ok m') : HeaderOK m' ∧ Frame m m' := by
  unfold updateHeaders at h
  obtain ⟨meshes, hmeshes, h⟩ := bind_ok h
  obtain ⟨lods1, hlods1, h⟩ := bind_ok h
  obtain ⟨stack, hstack, h⟩ := bind_ok h
  obtain ⟨runtime, hruntime, h⟩ := bind_ok h
  obtain ⟨d0, hd0, h⟩ := bind_ok h
  obtain ⟨_, hd0⟩ := addU32_inv hd0
  obtain ⟨dataOffset, hdo, h⟩ := bind_ok h
  obtain ⟨_, hdo⟩ := addU32_inv hdo
  obtain ⟨lods2, hlods2, h⟩ := bind_ok h
  obtain ⟨vbs, hvbs, h⟩ := bind_ok h
  obtain ⟨vo, hvo, h⟩ := bind_ok h
  obtain ⟨ibs, hibs, h⟩ := bind_ok h
  obtain ⟨io, hio, h⟩ := bind_ok h
  have e := pure_ok h
  subst e
  have hstack := calculateStackSize_inv hstack
  obtain ⟨hlen1, hrow1⟩ := mapM_inv _ _ _ hlods1
  obtain ⟨hchain, hlen2, hrow2⟩ := assignOffsets_inv _ _ _ _ hlods2
  obtain ⟨n3, nvbs, gvbs⟩ := copy3_inv hvbs
  obtain ⟨_, _, gvo⟩ := copy3_inv hvo
  obtain ⟨_, _, gibs⟩ := copy3_inv hibs
  obtain ⟨_, _, gio⟩ := copy3_inv hio
  rw [List.length_map] at nvbs
  have hrows : ∀ (i : Nat) l', lods2[i]? = some l' → ∃ l, m.modelData.lods[i]? = some l ∧
      RowOK meshes l' ∧ l'.meshIndex = l.meshIndex ∧ l'.meshCount = l.meshCount := by
    intro i l' hl'
    obtain ⟨l1, hl1, vo', io', e1⟩ := hrow2 i l' hl'
    obtain ⟨l0, hl0, hu⟩ := hrow1 i l1 hl1
    obtain ⟨hok, tv, ib, e0⟩ := updateLodSizes_inv hu
    subst e1
    refine ⟨l0, hl0, hok.setOffsets _ _ _, ?_, ?_⟩
    · subst e0; rfl
    · subst e0; rfl
  obtain ⟨s1, s2, s3⟩ := updateMeshOffsets_inv hmeshes
  have hlen : lods2.length = m.modelData.lods.length := by rw [hlen2]; exact hlen1
  have hranges := lodAt_ranges hlen (fun i l' hl' => by
    obtain ⟨l, hl, _, h1, h2⟩ := hrows i l' hl'
    exact ⟨l, hl, h1, h2⟩)
  refine ⟨⟨?_, ?_, hstack, hruntime, ⟨n3, nvbs⟩, ?_, ⟨rfl, rfl, rfl⟩, ?_, ?_⟩, ⟨?_, ?_, rfl, rfl⟩⟩
  · have e : dataOffset.toNat + (0 : UInt32).toNat = 68 + stack.toNat + runtime.toNat := by
      rw [show (0 : UInt32).toNat = 0 from rfl, hdo, hd0, show (68 : UInt32).toNat = 68 from rfl]
      omega
    rw [e] at hchain
    exact hchain
  · intro l' hl'
    obtain ⟨i, hi⟩ := List.getElem?_of_mem hl'
    obtain ⟨_, _, hok, _⟩ := hrows i l' hi
    exact hok
  · intro i hi
    refine ⟨?_, ?_, ?_, ?_⟩
    · rw [← List.getElem?_map]; exact gvo i hi
    · rw [← List.getElem?_map]; exact gio i hi
    · rw [← List.getElem?_map]; exact gvbs i hi
    · rw [← List.getElem?_map]; exact gibs i hi
  · show m.lods.length ≤ lods2.length
    rw [hlen]
    apply Classical.byContradiction
    intro hc
    have := s2 m.modelData.lods.length (by omega)
    omega
  · intro hd i hi
    show StreamsUpTo meshes meshes (lodAt lods2 i).meshIndex.toNat (lodAt lods2 i).meshCount.toNat
    have hd0 : RangesDisjoint m.modelData.lods m.lods.length := hd.of_ranges hranges
    rw [(hranges i).1, (hranges i).2]
    exact (s3 hd0 i hi).ofShape s1
  · exact hlen
  · intro i l' hl'
    obtain ⟨l, hl, _, h1, h2⟩ := hrows i l' hl'
    exact ⟨l, hl, h1, h2⟩

theorem Frame.refl (m : MDL) : Frame m m :=
  ⟨rfl, fun _ l' h => ⟨l', h, rfl, rfl⟩, rfl, rfl⟩

theorem Frame.trans {a b c : MDL} (h1 : Frame a b) (h2 : Frame b c) : Frame a c := by
  refine ⟨h2.lodsLen.trans h1.lodsLen, ?_, h2.lodCount.trans h1.lodCount, h2.partsLen.trans h1.partsLen⟩
  intro i l'' hl''
  obtain ⟨l', hl', e1, e2⟩ := h2.ranges i l'' hl''
  obtain ⟨l, hl, e3, e4⟩ := h1.ranges i l' hl'
  exact ⟨l, hl, e1.trans e3, e2.trans e4⟩

/-- **(1)** whatever the input, a successful `update_headers` leaves consistent headers -/
theorem updateHeaders_ok (m m' : MDL) (h : updateHeaders m = .ok m') : HeaderOK m' :=
  (updateHeaders_core h).1

theorem updateHeaders_frame (m m' : MDL) (h : updateHeaders m = .ok m') : Frame m m' :=
  (updateHeaders_core h).2

/-! ### the edit operations -/

theorem edit_of_update {m m1 m' : MDL} (h : updateHeaders m1 = .ok m')
    (hl : m1.modelData.lods = m.modelData.lods) (hc : m1.fileHeader = m.fileHeader)
    (hp : m1.lods.length = m.lods.length) : HeaderOK m' ∧ Frame m m' := by
  obtain ⟨hok, hf⟩ := updateHeaders_core h
  refine ⟨hok, Frame.trans ⟨by rw [hl], ?_, by rw [hc], hp⟩ hf⟩
  intro i l' hl'
  exact ⟨l', by rw [← hl]; exact hl', rfl, rfl⟩

theorem replaceVertices_core {m m' : MDL} {lodIndex partIndex : Nat} {vertices : List Vertex}
    {indices : List UInt16} {subs : List (UInt32 × UInt32)}
    (h : replaceVertices m lodIndex partIndex vertices indices subs = .ok m') :
    HeaderOK m' ∧ Frame m m' := by
  unfold replaceVertices at h
  obtain ⟨parts, _, h⟩ := bind_ok h
  obtain ⟨part, _, h⟩ := bind_ok h
  obtain ⟨submeshes, _, h⟩ := bind_ok h
  obtain ⟨meshes, _, h⟩ := bind_ok h
  exact edit_of_update h rfl rfl (by simp)

theorem removeShapeMeshes_core {m m' : MDL} (h : removeShapeMeshes m = .ok m') :
    HeaderOK m' ∧ Frame m m' := by
  unfold removeShapeMeshes at h
  exact edit_of_update h rfl rfl rfl

theorem addShapeMesh_core {m m' : MDL} {lodIndex shapeIndex shapeMeshIndex partIndex : Nat}
    {vals : List (UInt32 × Vertex)}
    (h : addShapeMesh m lodIndex shapeIndex shapeMeshIndex partIndex vals = .ok m') :
    HeaderOK m' ∧ Frame m m' := by
  unfold addShapeMesh at h
  obtain ⟨parts, _, h⟩ := bind_ok h
  obtain ⟨part, _, h⟩ := bind_ok h
  dsimp only at h
  have two : ∀ {p q : Prop} [Decidable p] [Decidable q] {a b c : R MDL},
      (if p then (if q then a else b) else c) = .ok m' → a = .ok m' ∨ b = .ok m' ∨ c = .ok m' := by
    intro p q _ _ a b c h
    split at h
    · split at h
      · exact .inl h
      · exact .inr (.inl h)
    · exact .inr (.inr h)
  rcases two h with h | h | h
  all_goals
    obtain ⟨shapes, _, h⟩ := bind_ok h
    obtain ⟨mesh, _, h⟩ := bind_ok h
    obtain ⟨⟨verts, svals⟩, _, h⟩ := bind_ok h
    obtain ⟨sh, _, h⟩ := bind_ok h
    split at h
    · cases h
    · obtain ⟨c, _, h⟩ := bind_ok h
      obtain ⟨c', _, h⟩ := bind_ok h
      obtain ⟨meshes, _, h⟩ := bind_ok h
      exact edit_of_update h rfl rfl (by simp)

/-- **(2)** every edit operation leaves consistent headers -/
theorem replaceVertices_ok (m m' : MDL) (lodIndex partIndex : Nat) (vertices : List Vertex)
    (indices : List UInt16) (subs : List (UInt32 × UInt32))
    (h : replaceVertices m lodIndex partIndex vertices indices subs = .ok m') : HeaderOK m' :=
  (replaceVertices_core h).1

theorem removeShapeMeshes_ok (m m' : MDL) (h : removeShapeMeshes m = .ok m') : HeaderOK m' :=
  (removeShapeMeshes_core h).1

theorem addShapeMesh_ok (m m' : MDL) (lodIndex shapeIndex shapeMeshIndex partIndex : Nat)
    (vals : List (UInt32 × Vertex))
    (h : addShapeMesh m lodIndex shapeIndex shapeMeshIndex partIndex vals = .ok m') : HeaderOK m' :=
  (addShapeMesh_core h).1

/-! ### histories of edits -/

/-- one call of the public edit API, with its arguments -/
inductive Edit
  | replaceVertices (lodIndex partIndex : Nat) (vertices : List Vertex) (indices : List UInt16)
      (subs : List (UInt32 × UInt32))
  | removeShapeMeshes
  | addShapeMesh (lodIndex shapeIndex shapeMeshIndex partIndex : Nat) (vals : List (UInt32 × Vertex))

def applyEdit (m : MDL) : Edit → R MDL
  | .replaceVertices l p vs is subs => replaceVertices m l p vs is subs
  | .removeShapeMeshes => removeShapeMeshes m
  | .addShapeMesh l s sm p vals => addShapeMesh m l s sm p vals

theorem applyEdit_core {m m' : MDL} {e : Edit} (h : applyEdit m e = .ok m') :
    HeaderOK m' ∧ Frame m m' := by
  cases e with
  | replaceVertices l p vs is subs => exact replaceVertices_core h
  | removeShapeMeshes => exact removeShapeMeshes_core h
  | addShapeMesh l s sm p vals => exact addShapeMesh_core h

theorem history_core (es : List Edit) (m m' : MDL) (h0 : HeaderOK m)
    (h : es.foldlM applyEdit m = .ok m') : HeaderOK m' ∧ Frame m m' := by
  refine foldlM_inv applyEdit (fun x => HeaderOK x ∧ Frame m x) es m m' ⟨h0, Frame.refl m⟩ ?_ h
  intro e _ b b' hb hf
  obtain ⟨hok, hfr⟩ := applyEdit_core hf
  exact ⟨hok, hb.2.trans hfr⟩

/-- **(3)** after any history of edits the headers are consistent -/
theorem headers_consistent (es : List Edit) (m m' : MDL) (h0 : HeaderOK m)
    (h : es.foldlM applyEdit m = .ok m') : HeaderOK m' :=
  (history_core es m m' h0 h).1

/-- … and the row count, the mesh ranges of the rows, `lod_count` and the number of parsed LODs
are what they were -/
theorem history_frame (es : List Edit) (m m' : MDL) (h : es.foldlM applyEdit m = .ok m') :
    Frame m m' := by
  refine foldlM_inv applyEdit (fun x => Frame m x) es m m' (Frame.refl m) ?_ h
  intro e _ b b' hb hf
  exact hb.trans (applyEdit_core hf).2

/-- a non-empty history needs no assumption on the model it starts from -/
theorem headers_consistent_of_ne_nil (es : List Edit) (hne : es ≠ []) (m m' : MDL)
    (h : es.foldlM applyEdit m = .ok m') : HeaderOK m' := by
  obtain ⟨e, rest, rfl⟩ := List.exists_cons_of_ne_nil hne
  rw [List.foldlM_cons] at h
  obtain ⟨m1, h1, h⟩ := bind_ok h
  exact headers_consistent rest m1 m' (applyEdit_core h1).1 h

theorem history_three_rows (es : List Edit) (m m' : MDL) (h3 : m.modelData.lods.length = 3)
    (h : es.foldlM applyEdit m = .ok m') : m'.modelData.lods.length = 3 :=
  (history_frame es m m' h).lodsLen.trans h3

/-! ### consequences in the form of the property statement -/

/-- (a) for the three rows: sections in file order, each starting where the previous one ends,
the first one at the end of the runtime block as the file header declares it -/
theorem HeaderOK.three_rows {m : MDL} (h : HeaderOK m) {l0 l1 l2 : MeshLod}
    (h3 : m.modelData.lods = [l0, l1, l2]) :
    l0.vertexDataOffset.toNat = 68 + m.fileHeader.stackSize.toNat + m.fileHeader.runtimeSize.toNat ∧
    l0.indexDataOffset.toNat = l0.vertexDataOffset.toNat + l0.vertexBufferSize.toNat ∧
    l1.vertexDataOffset.toNat = l0.indexDataOffset.toNat + l0.indexBufferSize.toNat ∧
    l1.indexDataOffset.toNat = l1.vertexDataOffset.toNat + l1.vertexBufferSize.toNat ∧
    l2.vertexDataOffset.toNat = l1.indexDataOffset.toNat + l1.indexBufferSize.toNat ∧
    l2.indexDataOffset.toNat = l2.vertexDataOffset.toNat + l2.vertexBufferSize.toNat ∧
    l0.edgeGeometryDataOffset = l0.indexDataOffset ∧ l1.edgeGeometryDataOffset = l1.indexDataOffset ∧
    l2.edgeGeometryDataOffset = l2.indexDataOffset := by
  have hc := h.chain
  rw [h3] at hc
  obtain ⟨a1, a2, a3, b1, b2, b3, c1, c2, c3, _⟩ := hc
  exact ⟨a1, a2, b1, b2, c1, c2, a3, b3, c3⟩

/-- (b) the index section size is always a multiple of 16 (also when the padding wrapped: then it is 0) -/
theorem RowOK.index_mod16 {ms : List Mesh} {l : MeshLod} (h : RowOK ms l) :
    l.indexBufferSize.toNat % 16 = 0 := by
  rw [h.indexSize]; omega

/-- (b) when `ti + pad` does not wrap (`ti < 2³² − 16`): the index section covers the index range
of every mesh of the row and exceeds the largest extent by 1 … 16 bytes -/
theorem RowOK.index_bounds {ms : List Mesh} {l : MeshLod} (h : RowOK ms l)
    (hw : indexExtentTo ms l.meshIndex.toNat l.meshCount.toNat < 4294967280) :
    (∀ d, d < l.meshCount.toNat →
      (meshAt ms (l.meshIndex.toNat + d)).indexExtent ≤ l.indexBufferSize.toNat) ∧
    indexExtentTo ms l.meshIndex.toNat l.meshCount.toNat < l.indexBufferSize.toNat ∧
    l.indexBufferSize.toNat ≤ indexExtentTo ms l.meshIndex.toNat l.meshCount.toNat + 16 := by
  have hs := h.indexSize
  refine ⟨?_, by omega, by omega⟩
  intro d hd
  have : (meshAt ms (l.meshIndex.toNat + d)).indexExtent ≤
      indexExtentTo ms l.meshIndex.toNat l.meshCount.toNat :=
    le_maxTo (fun d => (meshAt ms (l.meshIndex.toNat + d)).indexExtent) _ d hd
  omega

/-- (b) in the remaining case `2³² − 16 ≤ ti` the `wrapping_add` wraps: the size becomes 0 -/
theorem RowOK.index_wrapped {ms : List Mesh} {l : MeshLod} (h : RowOK ms l)
    (hw : 4294967280 ≤ indexExtentTo ms l.meshIndex.toNat l.meshCount.toNat) :
    l.indexBufferSize.toNat = 0 := by
  have hs := h.indexSize
  have := h.extentU32
  omega

theorem vertexBytesTo_succ (ms : List Mesh) (lo d : Nat) :
    vertexBytesTo ms lo (d + 1) = vertexBytesTo ms lo d + (meshAt ms (lo + d)).vertexBytes := rfl

theorem vertexBytesTo_mono (ms : List Mesh) (lo : Nat) {k n : Nat} (h : k ≤ n) :
    vertexBytesTo ms lo k ≤ vertexBytesTo ms lo n := sumTo_mono _ n k h

/-- (d) the byte range of stream `s` of mesh `d` ends inside the block of mesh `d` -/
theorem StreamsUpTo.end_le_block {ms : List Mesh} {lo cnt : Nat} (hS : StreamsUpTo ms ms lo cnt)
    {d s : Nat} (hd : d < cnt) (hs : s < (meshAt ms (lo + d)).vertexStreamCount.toNat) :
    vertexBytesTo ms lo d ≤ (meshAt ms (lo + d)).offAt s ∧
    (meshAt ms (lo + d)).offAt s +
      (meshAt ms (lo + d)).vertexCount.toNat * (meshAt ms (lo + d)).strideAt s ≤
      vertexBytesTo ms lo (d + 1) := by
  have e := hS d hd s hs
  have h1 : (meshAt ms (lo + d)).vertexCount.toNat * sumTo (meshAt ms (lo + d)).strideAt (s + 1) =
      (meshAt ms (lo + d)).vertexCount.toNat * sumTo (meshAt ms (lo + d)).strideAt s +
      (meshAt ms (lo + d)).vertexCount.toNat * (meshAt ms (lo + d)).strideAt s := Nat.mul_add _ _ _
  have h2 : (meshAt ms (lo + d)).vertexCount.toNat * sumTo (meshAt ms (lo + d)).strideAt (s + 1) ≤
      (meshAt ms (lo + d)).vertexBytes :=
    Nat.mul_le_mul_left _ (sumTo_mono _ _ _ (by omega))
  rw [vertexBytesTo_succ]
  omega

/-- (d) the byte ranges `[off, off + vertexCount · stride)` of the streams of a LOD are laid out in
the order (mesh, stream) without overlap -/
theorem StreamsUpTo.ordered {ms : List Mesh} {lo cnt : Nat} (hS : StreamsUpTo ms ms lo cnt)
    {d d' s s' : Nat} (hd' : d' < cnt)
    (hs : s < (meshAt ms (lo + d)).vertexStreamCount.toNat)
    (hs' : s' < (meshAt ms (lo + d')).vertexStreamCount.toNat)
    (hlt : d < d' ∨ (d = d' ∧ s < s')) :
    (meshAt ms (lo + d)).offAt s +
      (meshAt ms (lo + d)).vertexCount.toNat * (meshAt ms (lo + d)).strideAt s ≤
    (meshAt ms (lo + d')).offAt s' := by
  rcases hlt with hlt | ⟨rfl, hlt⟩
  · have a := (hS.end_le_block (by omega : d < cnt) hs).2
    have b := (hS.end_le_block hd' hs').1
    have c := vertexBytesTo_mono ms lo (by omega : d + 1 ≤ d')
    omega
  · have e := hS d hd' s hs
    have e' := hS d hd' s' hs'
    have h1 : (meshAt ms (lo + d)).vertexCount.toNat * sumTo (meshAt ms (lo + d)).strideAt (s + 1) =
        (meshAt ms (lo + d)).vertexCount.toNat * sumTo (meshAt ms (lo + d)).strideAt s +
        (meshAt ms (lo + d)).vertexCount.toNat * (meshAt ms (lo + d)).strideAt s := Nat.mul_add _ _ _
    have h2 : (meshAt ms (lo + d)).vertexCount.toNat * sumTo (meshAt ms (lo + d)).strideAt (s + 1) ≤
        (meshAt ms (lo + d)).vertexCount.toNat * sumTo (meshAt ms (lo + d)).strideAt s' :=
      Nat.mul_le_mul_left _ (sumTo_mono _ _ _ (by omega))
    omega

/-- (d) … and every one of them lies inside the LOD's vertex section -/
theorem StreamsUpTo.contained {ms : List Mesh} {lo cnt : Nat} (hS : StreamsUpTo ms ms lo cnt)
    {d s : Nat} (hd : d < cnt) (hs : s < (meshAt ms (lo + d)).vertexStreamCount.toNat) :
    (meshAt ms (lo + d)).offAt s +
      (meshAt ms (lo + d)).vertexCount.toNat * (meshAt ms (lo + d)).strideAt s ≤
    vertexBytesTo ms lo cnt := by
  have a := (hS.end_le_block hd hs).2
  have c := vertexBytesTo_mono ms lo (by omega : d + 1 ≤ cnt)
  omega

theorem lodAt_mem {lods : List MeshLod} {i : Nat} (h : i < lods.length) : lodAt lods i ∈ lods := by
  unfold lodAt
  rw [List.getElem?_eq_getElem h]
  exact List.getElem_mem h

/-- (d) for a used LOD of a consistent model: every stream range lies inside
`[0, vertex_buffer_size)` of its LOD row -/
theorem HeaderOK.stream_in_section {m : MDL} (h : HeaderOK m)
    (hd : RangesDisjoint m.modelData.lods m.lods.length)
    {i : Nat} (hi : i < m.lods.length) {d s : Nat}
    (hdc : d < (lodAt m.modelData.lods i).meshCount.toNat)
    (hs : s < (meshAt m.modelData.meshes
      ((lodAt m.modelData.lods i).meshIndex.toNat + d)).vertexStreamCount.toNat) :
    (meshAt m.modelData.meshes ((lodAt m.modelData.lods i).meshIndex.toNat + d)).offAt s +
      (meshAt m.modelData.meshes ((lodAt m.modelData.lods i).meshIndex.toNat + d)).vertexCount.toNat *
      (meshAt m.modelData.meshes ((lodAt m.modelData.lods i).meshIndex.toNat + d)).strideAt s ≤
    (lodAt m.modelData.lods i).vertexBufferSize.toNat := by
  have hrow := h.rows _ (lodAt_mem (Nat.lt_of_lt_of_le hi h.usedLe))
  rw [hrow.vertexSize]
  exact (h.streams hd i hi).contained hdc hs

/-! ### histories, with the side conditions carried along -/

theorem Frame.lodAt_ranges {m m' : MDL} (hf : Frame m m') (i : Nat) :
    (lodAt m'.modelData.lods i).meshIndex = (lodAt m.modelData.lods i).meshIndex ∧
    (lodAt m'.modelData.lods i).meshCount = (lodAt m.modelData.lods i).meshCount :=
  Physis.Mdl.lodAt_ranges hf.lodsLen hf.ranges i

theorem Frame.rangesDisjoint {m m' : MDL} (hf : Frame m m')
    (hd : RangesDisjoint m.modelData.lods m.lods.length) :
    RangesDisjoint m'.modelData.lods m'.lods.length := by
  rw [hf.partsLen]
  exact hd.to_ranges hf.lodAt_ranges

/-- the invariant of an edit session: consistent headers, three LOD rows, disjoint mesh ranges of
the used LODs -/
structure Inv (m : MDL) : Prop where
  ok : HeaderOK m
  three : m.modelData.lods.length = 3
  disjoint : RangesDisjoint m.modelData.lods m.lods.length

theorem history_inv (es : List Edit) (m m' : MDL) (h0 : Inv m)
    (h : es.foldlM applyEdit m = .ok m') : Inv m' := by
  obtain ⟨hok, hf⟩ := history_core es m m' h0.ok h
  exact ⟨hok, hf.lodsLen.trans h0.three, hf.rangesDisjoint h0.disjoint⟩

/-- (d) after any history of edits of a model whose used LODs own disjoint mesh ranges -/
theorem history_streams (es : List Edit) (m m' : MDL) (h0 : Inv m)
    (h : es.foldlM applyEdit m = .ok m') (i : Nat) (hi : i < m'.lods.length) :
    StreamsOK m'.modelData.meshes (lodAt m'.modelData.lods i) :=
  let h' := history_inv es m m' h0 h
  h'.ok.streams h'.disjoint i hi

/-! ### `HeaderOK` is decidable: it can be evaluated on concrete models -/

instance decEqOk [DecidableEq α] (r : R α) (a : α) : Decidable (r = .ok a) :=
  match r with
  | .ok b => if h : b = a then isTrue (by rw [h]) else isFalse (fun e => h (by cases e; rfl))
  | .error _ => isFalse (fun e => by cases e)

instance Chain.dec : ∀ (s : Nat) (l : List MeshLod), Decidable (Chain s l)
  | _, [] => isTrue trivial
  | _, l :: rest =>
    have := Chain.dec (l.indexDataOffset.toNat + l.indexBufferSize.toNat) rest
    by unfold Chain; infer_instance

instance (ms : List Mesh) (l : MeshLod) : Decidable (RowOK ms l) :=
  decidable_of_iff
    ((l.meshIndex.toNat + l.meshCount.toNat < 65536) ∧
     (∀ d, d < l.meshCount.toNat → l.meshIndex.toNat + d < ms.length ∧
        (meshAt ms (l.meshIndex.toNat + d)).vertexStreamCount.toNat ≤ 3) ∧
     (l.vertexBufferSize.toNat = vertexBytesTo ms l.meshIndex.toNat l.meshCount.toNat) ∧
     (indexExtentTo ms l.meshIndex.toNat l.meshCount.toNat < 4294967296) ∧
     (l.indexBufferSize.toNat =
        (indexExtentTo ms l.meshIndex.toNat l.meshCount.toNat / 16 + 1) * 16 % 4294967296))
    ⟨fun ⟨a, b, c, d, e⟩ => ⟨a, b, c, d, e⟩, fun h => ⟨h.1, h.2, h.3, h.4, h.5⟩⟩

instance (ref ms : List Mesh) (lo k : Nat) : Decidable (StreamsUpTo ref ms lo k) := by
  unfold StreamsUpTo; infer_instance

instance (ms : List Mesh) (l : MeshLod) : Decidable (StreamsOK ms l) := by
  unfold StreamsOK; infer_instance

instance (m : MDL) : Decidable (HeaderOK m) :=
  decidable_of_iff
    (Chain (68 + m.fileHeader.stackSize.toNat + m.fileHeader.runtimeSize.toNat) m.modelData.lods ∧
     (∀ l, l ∈ m.modelData.lods → RowOK m.modelData.meshes l) ∧
     (m.fileHeader.stackSize.toNat = m.fileHeader.vertexDeclarationCount.toNat * 136) ∧
     (calculateRuntimeSize m.modelData = .ok m.fileHeader.runtimeSize) ∧
     (m.lods.length ≤ 3 ∧ m.lods.length ≤ m.modelData.lods.length) ∧
     (∀ i, i < m.lods.length →
        m.fileHeader.vertexOffsets.get? i = m.modelData.lods[i]?.map (·.vertexDataOffset) ∧
        m.fileHeader.indexOffsets.get? i = m.modelData.lods[i]?.map (·.indexDataOffset) ∧
        m.fileHeader.vertexBufferSize.get? i = m.modelData.lods[i]?.map (·.vertexBufferSize) ∧
        m.fileHeader.indexBufferSize.get? i = m.modelData.lods[i]?.map (·.indexBufferSize)) ∧
     (m.modelData.header.shapeCount = m.modelData.shapes.length.toUInt16 ∧
        m.modelData.header.shapeMeshCount = m.modelData.shapeMeshes.length.toUInt16 ∧
        m.modelData.header.shapeValueCount = m.modelData.shapeValues.length.toUInt16) ∧
     (m.lods.length ≤ m.modelData.lods.length) ∧
     (RangesDisjoint m.modelData.lods m.lods.length →
        ∀ i, i < m.lods.length → StreamsOK m.modelData.meshes (lodAt m.modelData.lods i)))
    ⟨fun ⟨a, b, c, d, e, f, g, h, i⟩ => ⟨a, b, c, d, e, f, g, h, i⟩,
     fun h => ⟨h.1, h.2, h.3, h.4, h.5, h.6, h.7, h.8, h.9⟩⟩


/-! ### a concrete model: 1 LOD in use, 2 meshes with 2 streams each -/

def exMesh (vc : UInt16) (ic : UInt32) (sub : UInt16) (s0 s1 : UInt8) : Mesh :=
  { vertexCount := vc, indexCount := ic, materialIndex := 0, submeshIndex := sub, submeshCount := 1,
    boneTableIndex := 0, startIndex := 0, vertexBufferOffsets := ⟨0, 0, 0⟩,
    vertexBufferStrides := ⟨s0, s1, 0⟩, vertexStreamCount := 2 }

def exLod (mi mc : UInt16) : MeshLod :=
  { meshIndex := mi, meshCount := mc, mid := [], edgeGeometryDataOffset := 0, polygonCount := 0,
    vertexBufferSize := 0, indexBufferSize := 0, vertexDataOffset := 0, indexDataOffset := 0 }

def exPart (mi : UInt16) (sub : Nat) (cnt off : UInt32) : Part :=
  { meshIndex := mi, vertices := [], vertexStreams := [], vertexStreamStrides := [], indices := [],
    materialIndex := 0, submeshes := [⟨sub, cnt, off⟩], shapes := [] }

/-- headers all zero: nothing is consistent before the first `update_headers` -/
def exMdl : MDL :=
  { fileHeader := { (default : FileHeader) with version := 0x1000005, vertexDeclarationCount := 2, lodCount := 1 },
    modelData := { (default : ModelData) with
      lods := [exLod 0 2, exLod 2 0, exLod 2 0],
      meshes := [exMesh 4 6 0 12 8, exMesh 3 3 1 16 4],
      submeshes := [⟨0, 6, 0, 0, 0⟩, ⟨6, 3, 0, 0, 0⟩] },
    lods := [[exPart 0 0 6 0, exPart 1 1 3 6]],
    affectedBoneNames := [], materialNames := [] }


def exLodOut (mi mc : UInt16) (vo vs io isz : UInt32) : MeshLod :=
  { exLod mi mc with
    edgeGeometryDataOffset := io, vertexBufferSize := vs, indexBufferSize := isz,
    vertexDataOffset := vo, indexDataOffset := io }

/-- `exMdl` after `update_headers`: stack 2·136 = 272, runtime block 449, data from 68+272+449 = 789;
LOD 0 = 4·(12+8) + 3·(16+4) = 140 vertex bytes, index extent 2·(6+3) = 18 → 32; the unused rows
hold 16 bytes of index padding each -/
def exOut : MDL :=
  { exMdl with
    fileHeader := { exMdl.fileHeader with
      stackSize := 272, runtimeSize := 449, vertexOffsets := ⟨789, 0, 0⟩, indexOffsets := ⟨929, 0, 0⟩,
      vertexBufferSize := ⟨140, 0, 0⟩, indexBufferSize := ⟨32, 0, 0⟩ },
    modelData := { exMdl.modelData with
      lods := [exLodOut 0 2 789 140 929 32, exLodOut 2 0 961 0 961 16, exLodOut 2 0 977 0 977 16],
      meshes := [{ exMesh 4 6 0 12 8 with vertexBufferOffsets := ⟨0, 48, 0⟩ },
                 { exMesh 3 3 1 16 4 with startIndex := 6, vertexBufferOffsets := ⟨80, 128, 0⟩ }] } }

theorem exMdl_update : updateHeaders exMdl = .ok exOut := by rfl

/-- **(4)** the hypothesis of `updateHeaders_ok` is satisfiable and its conclusion holds on the result -/
example : HeaderOK exOut := updateHeaders_ok exMdl exOut exMdl_update


/-- the same, by evaluating the predicate -/
example : HeaderOK exOut := by decide +kernel

/-- before the first `update_headers` the all-zero headers are *not* consistent: the predicate is
not trivially true -/
example : ¬ HeaderOK exMdl := by decide +kernel

/-! ### the two places where the naive statement fails -/

/-- `exOut` after `replace_vertices(0, 1, 3 vertices, [0, 1, 2], [SubMesh { index_offset: 2147483644,
index_count: 3 }])` -/
def exWrapped : MDL :=
  { exOut with
    fileHeader := { exOut.fileHeader with indexBufferSize := ⟨0, 0, 0⟩ },
    modelData := { exOut.modelData with
      lods := [exLodOut 0 2 789 140 929 0, exLodOut 2 0 929 0 929 16, exLodOut 2 0 945 0 945 16],
      meshes := [{ exMesh 4 6 0 12 8 with vertexBufferOffsets := ⟨0, 48, 0⟩ },
                 { exMesh 3 3 1 16 4 with startIndex := 2147483644, vertexBufferOffsets := ⟨80, 128, 0⟩ }],
      submeshes := [⟨0, 6, 0, 0, 0⟩, ⟨2147483644, 3, 0, 0, 0⟩] },
    lods := [[exPart 0 0 6 0,
      { exPart 1 1 3 6 with
        vertices := [Vertex.default, Vertex.default, Vertex.default], indices := [0, 1, 2] }]] }

/-- **(b) without the no-wrap side condition is false.**  A sub-mesh `index_offset` with
`2·(start_index + index_count) ≥ 2³² − 16` passes every checked operation, then
`total_index_buffer_size.wrapping_add(index_padding)` wraps: the row and the file header declare an
index section of 0 bytes although mesh 1 owns the index bytes up to 4294967294, and the next
section starts at the same offset.  `HeaderOK` (which records the size mod 2³²) still holds. -/
theorem index_padding_wrap_witness :
    replaceVertices exOut 0 1 [Vertex.default, Vertex.default, Vertex.default] [0, 1, 2]
      [(2147483644, 3)] = .ok exWrapped ∧
    HeaderOK exWrapped ∧
    (lodAt exWrapped.modelData.lods 0).indexBufferSize = 0 ∧
    (meshAt exWrapped.modelData.meshes 1).indexExtent = 4294967294 ∧
    (lodAt exWrapped.modelData.lods 1).vertexDataOffset = (lodAt exWrapped.modelData.lods 0).indexDataOffset :=
  ⟨by rfl, by decide +kernel, by decide +kernel, by decide +kernel, by decide +kernel⟩

/-- `exMdl` with two LODs in use whose mesh ranges `[0, 2)` and `[1, 2)` share mesh 1 -/
def exOverlap : MDL :=
  { exMdl with
    fileHeader := { exMdl.fileHeader with lodCount := 2 },
    modelData := { exMdl.modelData with lods := [exLod 0 2, exLod 1 1, exLod 2 0] },
    lods := [[exPart 0 0 6 0, exPart 1 1 3 6], [exPart 1 1 3 6]] }

def exOverlapOut : MDL :=
  { exOverlap with
    fileHeader := { exOverlap.fileHeader with
      stackSize := 272, runtimeSize := 449, vertexOffsets := ⟨789, 961, 0⟩, indexOffsets := ⟨929, 1021, 0⟩,
      vertexBufferSize := ⟨140, 60, 0⟩, indexBufferSize := ⟨32, 32, 0⟩ },
    modelData := { exOverlap.modelData with
      lods := [exLodOut 0 2 789 140 929 32, exLodOut 1 1 961 60 1021 32, exLodOut 2 0 1053 0 1053 16],
      meshes := [{ exMesh 4 6 0 12 8 with vertexBufferOffsets := ⟨0, 48, 0⟩ },
                 { exMesh 3 3 1 16 4 with startIndex := 6, vertexBufferOffsets := ⟨0, 48, 0⟩ }] } }

/-- **(d) needs `RangesDisjoint`.**  When two used LODs share a mesh, the first loop of
`update_headers` writes its stream offsets once per owning LOD and the last one wins: mesh 1 gets
the offsets 0 / 48 of LOD 1, which inside LOD 0 are the bytes of mesh 0.  Everything else of
`HeaderOK` still holds. -/
theorem streams_overlap_witness :
    updateHeaders exOverlap = .ok exOverlapOut ∧ HeaderOK exOverlapOut ∧
    ¬ RangesDisjoint exOverlapOut.modelData.lods exOverlapOut.lods.length ∧
    ¬ StreamsOK exOverlapOut.modelData.meshes (lodAt exOverlapOut.modelData.lods 0) ∧
    StreamsOK exOverlapOut.modelData.meshes (lodAt exOverlapOut.modelData.lods 1) :=
  ⟨by rfl, by decide +kernel, by decide +kernel, by decide +kernel, by decide +kernel⟩

/-! ### the history theorem is not vacuous -/

def isOk : R α → Bool
  | .ok _ => true
  | .error _ => false

theorem exists_ok {r : R α} (h : isOk r = true) : ∃ a, r = .ok a := by
  cases r with
  | ok a => exact ⟨a, rfl⟩
  | error e => cases h

/-- `exOut` with one (empty) shape, so that `add_shape_mesh` has something to extend -/
def exShape : MDL :=
  { exOut with modelData := { exOut.modelData with shapes := [⟨0, ⟨0, 0, 0⟩, ⟨0, 0, 0⟩⟩] } }

def exHistory : List Edit :=
  [.replaceVertices 0 1 [Vertex.default, Vertex.default, Vertex.default, Vertex.default]
     [0, 1, 2, 1, 2, 3] [(6, 6)],
   .removeShapeMeshes,
   .replaceVertices 0 0 [Vertex.default, Vertex.default, Vertex.default] [0, 1, 2] [(0, 3)]]

def exHistory2 : List Edit :=
  [.addShapeMesh 0 0 0 1 [(0, Vertex.default), (2, Vertex.default)], .removeShapeMeshes]

/-- three edits applied to the consistent model `exOut` succeed; the invariant survives -/
example : ∃ m', exHistory.foldlM applyEdit exOut = .ok m' ∧ Inv m' := by
  obtain ⟨m', h⟩ := exists_ok (r := exHistory.foldlM applyEdit exOut) (by rfl)
  exact ⟨m', h, history_inv exHistory exOut m' ⟨by decide +kernel, rfl, by decide +kernel⟩ h⟩

/-- a history with `add_shape_mesh`, started from a model whose headers are stale -/
example : ¬ HeaderOK exShape ∧ ∃ m', exHistory2.foldlM applyEdit exShape = .ok m' ∧ HeaderOK m' := by
  obtain ⟨m', h⟩ := exists_ok (r := exHistory2.foldlM applyEdit exShape) (by rfl)
  exact ⟨by decide +kernel, m', h,
    headers_consistent_of_ne_nil exHistory2 (List.cons_ne_nil _ _) exShape m' h⟩

end Physis.Mdl
