import PhysisModel.Model.Blowfish
import PhysisModel.Spec.Blowfish
import PhysisModel.Base.BytesLemmas
import Std.Tactic.BVDecide
/-! Helper lemmas for C11 (`Properties/C11.lean`). -/
namespace Physis.Blowfish
open Physis.Generated

/-! ## Feistel structure: `decrypt_pair` undoes `encrypt_pair` for arbitrary tables -/

/-- two unrolled rounds with subkeys `a`, `b` around an arbitrary round function -/
def encR (F : UInt32 → UInt32) (a b : UInt32) (x : UInt32 × UInt32) : UInt32 × UInt32 :=
  let l := x.1 ^^^ a
  let r := x.2 ^^^ F l ^^^ b
  (l ^^^ F r, r)

theorem encryptPair_eq (st : State) (l r : UInt32) : encryptPair st l r =
    let x := encR (f st) st.p[14] st.p[15] (encR (f st) st.p[12] st.p[13] (encR (f st) st.p[10] st.p[11]
      (encR (f st) st.p[8] st.p[9] (encR (f st) st.p[6] st.p[7] (encR (f st) st.p[4] st.p[5]
      (encR (f st) st.p[2] st.p[3] (encR (f st) st.p[0] st.p[1] (l, r))))))))
    (x.2 ^^^ st.p[17], x.1 ^^^ st.p[16]) := rfl

theorem decryptPair_eq (st : State) (l r : UInt32) : decryptPair st l r =
    let x := encR (f st) st.p[3] st.p[2] (encR (f st) st.p[5] st.p[4] (encR (f st) st.p[7] st.p[6]
      (encR (f st) st.p[9] st.p[8] (encR (f st) st.p[11] st.p[10] (encR (f st) st.p[13] st.p[12]
      (encR (f st) st.p[15] st.p[14] (encR (f st) st.p[17] st.p[16] (l, r))))))))
    (x.2 ^^^ st.p[0], x.1 ^^^ st.p[1]) := rfl

theorem xor_cancel_right (a b : UInt32) : a ^^^ b ^^^ b = a := by
  rw [UInt32.xor_assoc, UInt32.xor_self, UInt32.xor_zero]

/-- the step of the inversion: a decryption double round with `(c, d)` applied to the whitened,
swapped output of an encryption double round with `(a, b)` gives the whitened, swapped input -/
theorem encR_inv (F : UInt32 → UInt32) (a b c d : UInt32) (x : UInt32 × UInt32) :
    encR F c d ((encR F a b x).2 ^^^ c, (encR F a b x).1 ^^^ d) = (x.2 ^^^ b, x.1 ^^^ a) := by
  have h (u v w : UInt32) : u ^^^ v ^^^ w ^^^ v = u ^^^ w := by bv_decide (timeout := 300)
  simp only [encR, xor_cancel_right, h]

theorem decryptPair_encryptPair (st : State) (l r : UInt32) :
    decryptPair st (encryptPair st l r).1 (encryptPair st l r).2 = (l, r) := by
  simp only [encryptPair_eq, decryptPair_eq, encR_inv, xor_cancel_right]

theorem encryptPair_decryptPair (st : State) (l r : UInt32) :
    encryptPair st (decryptPair st l r).1 (decryptPair st l r).2 = (l, r) := by
  simp only [encryptPair_eq, decryptPair_eq, encR_inv, xor_cancel_right]

/-! ## block mode: `pad_buffer`, the block loop -/

open Physis.Spec.Blowfish (pad8 ecb le32)

theorem padBuffer_eq (m : Bytes) : padBuffer m = pad8 m := by
  simp only [padBuffer, pad8]
  congr 2
  split <;> rename_i h <;> simp at h <;> omega

theorem pad8_length_mod (m : Bytes) : (pad8 m).length % 8 = 0 := by
  simp only [pad8, List.length_append, List.length_replicate]; omega

theorem pad8_of_mod (m : Bytes) (h : m.length % 8 = 0) : pad8 m = m := by
  simp [pad8, h]

theorem fromLe_eq : fromLe = le32 := rfl

theorem le32_put (v : UInt32) :
    le32 v.toUInt8 (v >>> 8).toUInt8 (v >>> 16).toUInt8 (v >>> 24).toUInt8 = v := by
  simp only [le32]; bv_decide (timeout := 300)

theorem le32_b0 (a b c d : UInt8) : (le32 a b c d).toUInt8 = a := by simp only [le32]; bv_decide (timeout := 300)
theorem le32_b1 (a b c d : UInt8) : (le32 a b c d >>> 8).toUInt8 = b := by simp only [le32]; bv_decide (timeout := 300)
theorem le32_b2 (a b c d : UInt8) : (le32 a b c d >>> 16).toUInt8 = c := by simp only [le32]; bv_decide (timeout := 300)
theorem le32_b3 (a b c d : UInt8) : (le32 a b c d >>> 24).toUInt8 = d := by simp only [le32]; bv_decide (timeout := 300)

/-- the block loop never fails on a whole number of blocks and is the spec's `ecb` -/
theorem blockLoop_eq (pair : UInt32 → UInt32 → UInt32 × UInt32) :
    ∀ l : Bytes, l.length % 8 = 0 → blockLoop pair l = some (ecb (fun x => pair x.1 x.2) l)
  | [], _ => by simp [blockLoop, ecb]
  | [_], h | [_, _], h | [_, _, _], h | [_, _, _, _], h | [_, _, _, _, _], h
  | [_, _, _, _, _, _], h | [_, _, _, _, _, _, _], h => by simp at h
  | b0 :: b1 :: b2 :: b3 :: b4 :: b5 :: b6 :: b7 :: rest, h => by
    have ih := blockLoop_eq pair rest (by simp only [List.length_cons] at h; omega)
    simp only [blockLoop, ecb, ih, fromLe_eq]

theorem ecb_length (f : UInt32 × UInt32 → UInt32 × UInt32) :
    ∀ l : Bytes, l.length % 8 = 0 → (ecb f l).length = l.length
  | [], _ => by simp [ecb]
  | [_], h | [_, _], h | [_, _, _], h | [_, _, _, _], h | [_, _, _, _, _], h
  | [_, _, _, _, _, _], h | [_, _, _, _, _, _, _], h => by simp at h
  | b0 :: b1 :: b2 :: b3 :: b4 :: b5 :: b6 :: b7 :: rest, h => by
    have ih := ecb_length f rest (by simp only [List.length_cons] at h; omega)
    simp only [ecb, List.length_append, putU32le_length, ih, List.length_cons]; omega

/-- block-wise: if `g` undoes `f` on every block, `ecb g` undoes `ecb f` -/
theorem ecb_inverse (f g : UInt32 × UInt32 → UInt32 × UInt32) (hgf : ∀ x, g (f x) = x) :
    ∀ l : Bytes, l.length % 8 = 0 → ecb g (ecb f l) = l
  | [], _ => by simp [ecb]
  | [_], h | [_, _], h | [_, _, _], h | [_, _, _, _], h | [_, _, _, _, _], h
  | [_, _, _, _, _, _], h | [_, _, _, _, _, _, _], h => by simp at h
  | b0 :: b1 :: b2 :: b3 :: b4 :: b5 :: b6 :: b7 :: rest, h => by
    have ih := ecb_inverse f g hgf rest (by simp only [List.length_cons] at h; omega)
    simp only [ecb, putU32le, List.cons_append, List.nil_append, le32_put, hgf, ih,
      le32_b0, le32_b1, le32_b2, le32_b3]

/-! ## the model's rounds are the textbook rounds -/

/-- the model's state read as the specification's tables -/
def toSpec (st : State) : Spec.Blowfish.Tables := ⟨st.p, st.s⟩
/-- and back -/
def ofSpec (t : Spec.Blowfish.Tables) : State := ⟨t.p, t.s⟩

@[simp] theorem toSpec_ofSpec (t) : toSpec (ofSpec t) = t := rfl
@[simp] theorem ofSpec_toSpec (st) : ofSpec (toSpec st) = st := rfl

theorem toUInt8_toNat_and (x : UInt32) : x.toUInt8.toNat = (x &&& 0xFF).toNat := by
  simp only [UInt32.toNat_toUInt8, UInt32.toNat_and, UInt32.reduceToNat]
  exact (Nat.and_two_pow_sub_one_eq_mod x.toNat 8).symm

theorem F_eq (st : State) (x : UInt32) : Spec.Blowfish.F (toSpec st) x = f st x := by
  have h24 : (x >>> 24) &&& (255 : UInt32) = x >>> 24 := by bv_decide (timeout := 300)
  simp only [Spec.Blowfish.F, Spec.Blowfish.sbox_eq, f, toSpec, toUInt8_toNat_and, h24]
  rfl

theorem F_fun_eq (st : State) : Spec.Blowfish.F (toSpec st) = f st := funext (F_eq st)

theorem two_rounds (t : Spec.Blowfish.Tables) (a b : UInt32) (x : UInt32 × UInt32) :
    Spec.Blowfish.round t b (Spec.Blowfish.round t a x) = encR (Spec.Blowfish.F t) a b x := rfl

theorem encryptPair_eq_spec (st : State) (l r : UInt32) :
    encryptPair st l r = Spec.Blowfish.encryptBlock (toSpec st) (l, r) := by
  simp only [encryptPair_eq, Spec.Blowfish.encryptBlock, Spec.Blowfish.crypt, Spec.Blowfish.encKeys,
    List.foldl_cons, List.foldl_nil, two_rounds, F_fun_eq]
  rfl

theorem decryptPair_eq_spec (st : State) (l r : UInt32) :
    decryptPair st l r = Spec.Blowfish.decryptBlock (toSpec st) (l, r) := by
  simp only [decryptPair_eq, Spec.Blowfish.decryptBlock, Spec.Blowfish.crypt, Spec.Blowfish.decKeys,
    List.foldl_cons, List.foldl_nil, two_rounds, F_fun_eq]
  rfl

/-! ## key schedule -/

theorem fillP_eq (ks : List (Fin 9)) (st : State) (x : UInt32 × UInt32) :
    fillP ks (st, x) =
      (ofSpec (ks.foldl Spec.Blowfish.stepP (toSpec st, x)).1, (ks.foldl Spec.Blowfish.stepP (toSpec st, x)).2) := by
  induction ks generalizing st x with
  | nil => rfl
  | cons k rest ih =>
    obtain ⟨l, r⟩ := x
    simp only [fillP, List.foldl_cons, ih]
    simp only [Spec.Blowfish.stepP, encryptPair_eq_spec]
    rfl

theorem fillBox_eq (b : Fin 4) (ks : List (Fin 128)) (st : State) (x : UInt32 × UInt32) :
    fillBox b ks (st, x) =
      (ofSpec (ks.foldl (Spec.Blowfish.stepBox b) (toSpec st, x)).1,
        (ks.foldl (Spec.Blowfish.stepBox b) (toSpec st, x)).2) := by
  induction ks generalizing st x with
  | nil => rfl
  | cons k rest ih =>
    obtain ⟨l, r⟩ := x
    simp only [fillBox, List.foldl_cons, ih]
    simp only [Spec.Blowfish.stepBox, encryptPair_eq_spec]
    rfl
theorem fillS_cons (b) (rest) (sx) : fillS (b :: rest) sx = fillS rest (fillBox b (List.finRange 128) sx) := rfl
theorem fillS_eq (bs : List (Fin 4)) (st : State) (x : UInt32 × UInt32) :
    fillS bs (st, x) =
      (ofSpec (bs.foldl Spec.Blowfish.fillBox (toSpec st, x)).1,
        (bs.foldl Spec.Blowfish.fillBox (toSpec st, x)).2) := by
  induction bs generalizing st x with
  | nil => rfl
  | cons b rest ih =>
    rw [fillS_cons, fillBox_eq, ih, toSpec_ofSpec, Prod.eta, List.foldl_cons, Spec.Blowfish.fillBox]

/-- big-endian word -/
def beWord (a b c d : UInt8) : UInt32 :=
  (a.toUInt32 <<< 24) ||| (b.toUInt32 <<< 16) ||| (c.toUInt32 <<< 8) ||| d.toUInt32

theorem keyWord_0 (k0 k1 k2 k3 k4 k5 k6 k7 : UInt8) (rest : Bytes) :
    keyWord (k0 :: k1 :: k2 :: k3 :: k4 :: k5 :: k6 :: k7 :: rest) 4 0 0 = some (beWord k0 k1 k2 k3, 4) := by
  simp [keyWord, blowfishKeyBytes, beWord]
  bv_decide (timeout := 300)

theorem keyWord_4 (k0 k1 k2 k3 k4 k5 k6 k7 : UInt8) (rest : Bytes) :
    keyWord (k0 :: k1 :: k2 :: k3 :: k4 :: k5 :: k6 :: k7 :: rest) 4 0 4 = some (beWord k4 k5 k6 k7, 0) := by
  simp [keyWord, blowfishKeyBytes, beWord]
  bv_decide (timeout := 300)

theorem spec_keyWord_even (k0 k1 k2 k3 k4 k5 k6 k7 : UInt8) (h) (i : Nat) (hi : i % 2 = 0) :
    Spec.Blowfish.keyWord [k0, k1, k2, k3, k4, k5, k6, k7] h i = beWord k0 k1 k2 k3 := by
  have e0 : (4 * i) % 8 = 0 := by omega
  have e1 : (4 * i + 1) % 8 = 1 := by omega
  have e2 : (4 * i + 2) % 8 = 2 := by omega
  have e3 : (4 * i + 3) % 8 = 3 := by omega
  simp [Spec.Blowfish.keyWord, Spec.Blowfish.keyByte, e0, e1, e2, e3, beWord]

theorem spec_keyWord_odd (k0 k1 k2 k3 k4 k5 k6 k7 : UInt8) (h) (i : Nat) (hi : i % 2 = 1) :
    Spec.Blowfish.keyWord [k0, k1, k2, k3, k4, k5, k6, k7] h i = beWord k4 k5 k6 k7 := by
  have e0 : (4 * i) % 8 = 4 := by omega
  have e1 : (4 * i + 1) % 8 = 5 := by omega
  have e2 : (4 * i + 2) % 8 = 6 := by omega
  have e3 : (4 * i + 3) % 8 = 7 := by omega
  simp [Spec.Blowfish.keyWord, Spec.Blowfish.keyByte, e0, e1, e2, e3, beWord]

theorem finRange18 : List.finRange 18 = [0,1,2,3,4,5,6,7,8,9,10,11,12,13,14,15,16,17] := by decide

theorem xorKey_eq (k0 k1 k2 k3 k4 k5 k6 k7 : UInt8) (rest : Bytes) (st : State) (h) :
    xorKey (k0 :: k1 :: k2 :: k3 :: k4 :: k5 :: k6 :: k7 :: rest) (List.finRange 18) st 0 =
      some (ofSpec (Spec.Blowfish.xorKey (toSpec st) [k0, k1, k2, k3, k4, k5, k6, k7] h)) := by
  simp only [finRange18, xorKey, keyWord_0, keyWord_4, Spec.Blowfish.xorKey, List.foldl_cons, List.foldl_nil]
  simp (disch := decide) only [spec_keyWord_even, spec_keyWord_odd]
  rfl

theorem new_cons (k0 k1 k2 k3 k4 k5 k6 k7 : UInt8) (rest : Bytes) (h) :
    new (k0 :: k1 :: k2 :: k3 :: k4 :: k5 :: k6 :: k7 :: rest) =
      some (ofSpec (Spec.Blowfish.keySchedule (toSpec initial) [k0, k1, k2, k3, k4, k5, k6, k7] h)) := by
  unfold new
  rw [xorKey_eq _ _ _ _ _ _ _ _ _ _ h]
  simp only []
  rw [fillP_eq, fillS_eq, toSpec_ofSpec, Prod.eta]
  simp only [Spec.Blowfish.keySchedule, Spec.Blowfish.fillS, Spec.Blowfish.fillP, toSpec_ofSpec]

theorem new_eq : ∀ (key : Bytes) (h : 8 ≤ key.length),
    new key = some (ofSpec (Spec.Blowfish.keySchedule (toSpec initial) (key.take 8)
      (by simp only [List.length_take]; omega)))
  | [], h | [_], h | [_, _], h | [_, _, _], h | [_, _, _, _], h | [_, _, _, _, _], h
  | [_, _, _, _, _, _], h | [_, _, _, _, _, _, _], h => by simp at h
  | k0 :: k1 :: k2 :: k3 :: k4 :: k5 :: k6 :: k7 :: rest, _ => by
    rw [new_cons k0 k1 k2 k3 k4 k5 k6 k7 rest (by simp)]
    simp only [List.take_succ_cons, List.take_zero]

/-! ## the tables in the source are the digits of π (T1: re-proved on every run) -/

open Physis.Spec.Blowfish (piWords piWordsStormer piTableWords piSlice vecOfList stdTables) in
section
set_option maxRecDepth 100000 in
theorem tables_are_pi :
    blowfishP.toList ++ blowfishS0.toList ++ blowfishS1.toList ++ blowfishS2.toList ++ blowfishS3.toList
      = piWords 1042 := by
  decide +kernel

theorem slice_of_append (a b c : List UInt32) (off n : Nat) (ha : a.length = off) (hb : b.length = n) :
    ((a ++ b ++ c).drop off).take n = b := by
  subst ha hb; simp

theorem piSlice_toList (off n h) : (piSlice off n h).toList = (piTableWords.drop off).take n := by
  simp [piSlice, vecOfList]

theorem initial_eq : toSpec initial = stdTables := by
  have H := tables_are_pi
  have hp : blowfishP = piSlice 0 18 (by decide) := by
    apply Vector.toList_inj.mp
    rw [piSlice_toList, piTableWords, ← H]
    simp [List.append_assoc]
  have h0 : blowfishS0 = piSlice 18 256 (by decide) := by
    apply Vector.toList_inj.mp
    rw [piSlice_toList, piTableWords, ← H]
    simp [List.append_assoc]
  have h1 : blowfishS1 = piSlice 274 256 (by decide) := by
    apply Vector.toList_inj.mp
    rw [piSlice_toList, piTableWords, ← H]
    simpa [List.append_assoc] using (slice_of_append (blowfishP.toList ++ blowfishS0.toList) blowfishS1.toList _ 274 256 (by simp) (by simp)).symm
  have h2 : blowfishS2 = piSlice 530 256 (by decide) := by
    apply Vector.toList_inj.mp
    rw [piSlice_toList, piTableWords, ← H]
    simpa [List.append_assoc] using (slice_of_append (blowfishP.toList ++ blowfishS0.toList ++ blowfishS1.toList) blowfishS2.toList _ 530 256 (by simp) (by simp)).symm
  have h3 : blowfishS3 = piSlice 786 256 (by decide) := by
    apply Vector.toList_inj.mp
    rw [piSlice_toList, piTableWords, ← H]
    simpa [List.append_assoc] using (slice_of_append (blowfishP.toList ++ blowfishS0.toList ++ blowfishS1.toList ++ blowfishS2.toList) blowfishS3.toList [] 786 256 (by simp) (by simp)).symm
  simp only [toSpec, initial, stdTables, blowfishS, ← hp, ← h0, ← h1, ← h2, ← h3]
end

/-- `Blowfish::new(key)` for a key of at least 8 bytes: the standard Blowfish subkeys of its first 8 bytes -/
theorem new_standard (key : Bytes) (h : 8 ≤ key.length) :
    new key = some (ofSpec (Spec.Blowfish.subkeys (key.take 8) (by simp only [List.length_take]; omega))) := by
  rw [new_eq key h, initial_eq]; rfl

end Physis.Blowfish
