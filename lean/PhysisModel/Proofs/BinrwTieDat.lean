import PhysisModel.Proofs.BinrwLemmas
import PhysisModel.Generated.BinrwDat
import PhysisModel.Model.Dat
/-!
T4 for `src/sqpack/data.rs` (C02): `TextureLodBlock` (single and as `Vec` with `count = n`),
`Block` (as `Vec`), the translated prefixes of `BlockHeader` (size, x, y — `compression` has `args`)
and `FileInfo` (size, file_type, file_size — the optional blocks have `if`).
Two steps per struct as in `Proofs/BinrwTieIndex.lean`.
-/
namespace Physis.BinrwTie.Dat
open Physis Physis.Binrw Physis.Reader Physis.Generated

/-- `TextureLodBlock`, `StandardFileBlock`, … declare no endianness: they are read inside `FileInfo` -/
abbrev endian : Endian := BinrwDat.fileInfo.endianOr .little

namespace Expected
def textureLodBlock : Layout :=
  .mk none .none [
    .mk "compressed_offset" none .none 0 (.prim .u32) 0 0,
    .mk "compressed_size" none .none 0 (.prim .u32) 0 0,
    .mk "decompressed_size" none .none 0 (.prim .u32) 0 0,
    .mk "block_offset" none .none 0 (.prim .u32) 0 0,
    .mk "block_count" none .none 0 (.prim .u32) 0 0] true
def block : Layout :=
  .mk (some .little) .none [.mk "offset" none .none 0 (.prim .i32) 0 4] true
def blockHeaderPrefix : Layout :=
  .mk (some .little) .none [
    .mk "size" none .none 0 (.prim .u32) 0 4,
    .mk "x" none .none 0 (.prim .i32) 0 0,
    .mk "y" none .none 0 (.prim .i32) 0 0] false
def fileInfoPrefix : Layout :=
  .mk (some .little) .none [
    .mk "size" none .none 0 (.prim .u32) 0 0,
    .mk "file_type" none .none 0 (.enum .i32 [1, 2, 3, 4]) 0 0,
    .mk "file_size" none .none 0 (.prim .u32) 0 0] false
def standardFileBlock : Layout :=
  .mk none .none [.mk "num_blocks" none .none 8 (.prim .u32) 0 0] true
def textureBlock (lod : Layout) : Layout :=
  .mk none .none [
    .mk "num_blocks" none .none 8 (.prim .u32) 0 0,
    .mk "lods" none .none 0 (.array (.field 0) (.struct lod)) 0 0] true
end Expected

/-! ### step 2 (re-checked on every run) -/
theorem endian_generated : endian = .little := rfl
theorem textureLodBlock_generated :
    BinrwDat.textureLodBlock.normalizeAt .little = Expected.textureLodBlock.normalizeAt .little := rfl
theorem block_generated : BinrwDat.block.normalizeAt .little = Expected.block.normalizeAt .little := rfl
theorem blockHeader_generated :
    BinrwDat.blockHeader.normalizeAt .little = Expected.blockHeaderPrefix.normalizeAt .little := rfl
theorem fileInfo_generated :
    BinrwDat.fileInfo.normalizeAt .little = Expected.fileInfoPrefix.normalizeAt .little := rfl
theorem standardFileBlock_generated :
    BinrwDat.standardFileBlock.normalizeAt .little = Expected.standardFileBlock.normalizeAt .little := rfl
theorem textureBlock_generated :
    BinrwDat.textureBlock.normalizeAt .little =
      (Expected.textureBlock BinrwDat.textureLodBlock).normalizeAt .little := rfl

/-! ### projections -/
def lodOf : List Value → Option Dat.TextureLodBlock
  | [.w32 .u32 a, .w32 .u32 b, .w32 .u32 c, .w32 .u32 d, .w32 .u32 e] => some ⟨a, b, c, d, e⟩
  | _ => none
def lodOfV : Value → Option Dat.TextureLodBlock
  | .struct vs => lodOf vs
  | _ => none
def offsetOfV : Value → Option UInt32
  | .struct [.w32 .i32 o] => some o
  | _ => none
def blockHeaderOf : List Value → Option (UInt32 × UInt32 × UInt32)
  | [.w32 .u32 size, .w32 .i32 x, .w32 .i32 y] => some (size, x, y)
  | _ => none

/-! ### step 1 (by hand, once) -/

theorem readLod_eq_expected (l : Bytes) :
    Dat.readLod l = via lodOf (Layout.read .little Expected.textureLodBlock l) := by
  binrw_norm [Dat.readLod, Expected.textureLodBlock]
  rfl

/-- `BlockHeader::read`: the translated prefix, then `compression` reads one more `i32` and restores
the position -/
theorem readBlockHeader_eq_expected (l : Bytes) :
    Dat.readBlockHeader l =
      (via blockHeaderOf (Layout.read .little Expected.blockHeaderPrefix l)).bind fun x =>
        (u32le x.2).map fun _ => x := by
  binrw_norm [Dat.readBlockHeader, Expected.blockHeaderPrefix]
  simp only [blockHeaderOf, Option.bind_some, Option.map_eq_bind, Function.comp_def]

theorem readLods_eq_expected (n : Nat) (l : Bytes) :
    Dat.readLods n l =
      (repeatN (Kind.read .little [] (.struct Expected.textureLodBlock)) n l).bind fun vs =>
        (projAll lodOfV vs.1).map (·, vs.2) := by
  apply listReader_eq_repeatN Dat.readLod Dat.readLods
  · intro l; rfl
  · intro n l; binrw_norm [Dat.readLods]
  · intro l
    rw [readLod_eq_expected]
    binrw_norm [Expected.textureLodBlock]
    rfl

theorem readBlocks_eq_expected (n : Nat) (l : Bytes) :
    Dat.readBlocks n l =
      (repeatN (Kind.read .little [] (.struct Expected.block)) n l).bind fun vs =>
        (projAll offsetOfV vs.1).map (·, vs.2) := by
  apply listReader_eq_repeatN (fun l => (u32le l).map fun x => (x.1, skip 4 x.2)) Dat.readBlocks
  · intro l; rfl
  · intro n l; binrw_norm [Dat.readBlocks]
  · intro l
    binrw_norm [Expected.block]
    simp only [offsetOfV, Option.bind_some, Option.map_eq_bind, Function.comp_def]

/-! ### `FileInfo`: prefix, then the block selected by `file_type` -/

def stdOf (size fileSize : UInt32) : List Value → Option Dat.FileInfo
  | [.w32 .u32 n] => some ⟨size, fileSize, .standard n⟩
  | _ => none
def texOf (size fileSize : UInt32) : List Value → Option Dat.FileInfo
  | [.w32 .u32 n, .list lods] => (projAll lodOfV lods).map fun ls => ⟨size, fileSize, .texture n ls⟩
  | _ => none

/-- what `FileInfo::read` does after the translated prefix: the three `#[br(if(file_type == …))]`
fields, of which `StandardFileBlock` and `TextureBlock` are read through their layouts -/
def infoRest (std tex : Layout) : List Value × Bytes → Option (Dat.FileInfo × Bytes)
  | ([.w32 .u32 size, .w32 .i32 ft, .w32 .u32 fileSize], l) =>
    if ft == 1 then some (⟨size, fileSize, .empty⟩, l)
    else if ft == 2 then via (stdOf size fileSize) (Layout.read .little std l)
    else if ft == 3 then (Dat.readModelFileBlock l).map fun x => (⟨size, fileSize, .model x.1⟩, x.2)
    else if ft == 4 then via (texOf size fileSize) (Layout.read .little tex l)
    else none
  | _ => none

theorem fileType_valid (v : UInt32) :
    ([1, 2, 3, 4] : List Nat).contains v.toNat = (v == 1 || v == 2 || v == 3 || v == 4) := by
  rw [Bool.eq_iff_iff]; simp [← UInt32.toNat_inj, or_assoc]

theorem readFileInfo_eq_expected (l : Bytes) :
    Dat.readFileInfo l =
      (Layout.read .little Expected.fileInfoPrefix l).bind
        (infoRest Expected.standardFileBlock (Expected.textureBlock Expected.textureLodBlock)) := by
  have hl := readLods_eq_expected
  binrw_norm [Expected.textureLodBlock] at hl
  binrw_norm [Dat.readFileInfo, Expected.fileInfoPrefix, fileType_valid, infoRest, Expected.standardFileBlock,
    Expected.textureBlock, Expected.textureLodBlock, stdOf, texOf, hl]
  cases u32le l with
  | none => rfl
  | some a =>
    simp only [Option.bind_some]
    cases u32le a.2 with
    | none => rfl
    | some b =>
      simp only [Option.bind_some]
      cases u32le b.2 with
      | none => simp
      | some c =>
        simp only [Option.bind_some]
        by_cases h1 : b.1 = 1
        · simp [h1]
        by_cases h2 : b.1 = 2
        · simp [h2]
        by_cases h3 : b.1 = 3
        · simp [h3, Option.map_eq_bind, Function.comp_def]
        by_cases h4 : b.1 = 4
        · simp [h4, Option.map_eq_bind, Function.comp_def]
        simp [h1, h2, h3, h4]

/-! ### `ModelFileBlock` with the two instantiations of the generic `ModelMemorySizes<T>` -/

namespace Expected
def modelMemorySizes (p : Prim) : Layout :=
  .mk none .none [
    .mk "stack_size" none .none 0 (.prim p) 0 0,
    .mk "runtime_size" none .none 0 (.prim p) 0 0,
    .mk "vertex_buffer_size" none .none 0 (.array (.lit 3) (.prim p)) 0 0,
    .mk "edge_geometry_vertex_buffer_size" none .none 0 (.array (.lit 3) (.prim p)) 0 0,
    .mk "index_buffer_size" none .none 0 (.array (.lit 3) (.prim p)) 0 0] true
def modelFileBlock (m32 m16 : Layout) : Layout :=
  .mk none .none [
    .mk "num_blocks" none .none 0 (.prim .u32) 0 0,
    .mk "num_used_blocks" none .none 0 (.prim .u32) 0 0,
    .mk "version" none .none 0 (.prim .u32) 0 0,
    .mk "uncompressed_size" none .none 0 (.struct m32) 0 0,
    .mk "compressed_size" none .none 0 (.struct m32) 0 0,
    .mk "offset" none .none 0 (.struct m32) 0 0,
    .mk "index" none .none 0 (.struct m16) 0 0,
    .mk "num" none .none 0 (.struct m16) 0 0,
    .mk "vertex_declaration_num" none .none 0 (.prim .u16) 0 0,
    .mk "material_num" none .none 0 (.prim .u16) 0 0,
    .mk "num_lods" none .none 0 (.prim .u8) 0 0,
    .mk "index_buffer_streaming_enabled" none .none 0 (.prim .u8) 0 0,   -- map = read_bool_from::<u8>
    .mk "edge_geometry_enabled" none .none 0 (.prim .u8) 0 1] true
end Expected

theorem modelMemorySizes_u32_generated :
    BinrwDat.modelMemorySizes_u32.normalizeAt .little = (Expected.modelMemorySizes .u32).normalizeAt .little := rfl
theorem modelMemorySizes_u16_generated :
    BinrwDat.modelMemorySizes_u16.normalizeAt .little = (Expected.modelMemorySizes .u16).normalizeAt .little := rfl
theorem modelFileBlock_generated :
    BinrwDat.modelFileBlock.normalizeAt .little =
      (Expected.modelFileBlock BinrwDat.modelMemorySizes_u32 BinrwDat.modelMemorySizes_u16).normalizeAt .little := rfl

def mms32Of : List Value → Option (Dat.MMS UInt32)
  | [.w32 .u32 s, .w32 .u32 r, .list [.w32 .u32 v0, .w32 .u32 v1, .w32 .u32 v2],
     .list [.w32 .u32 e0, .w32 .u32 e1, .w32 .u32 e2], .list [.w32 .u32 i0, .w32 .u32 i1, .w32 .u32 i2]] =>
    some ⟨s, r, ⟨v0, v1, v2⟩, ⟨e0, e1, e2⟩, ⟨i0, i1, i2⟩⟩
  | _ => none
def mms16Of : List Value → Option (Dat.MMS UInt16)
  | [.w16 .u16 s, .w16 .u16 r, .list [.w16 .u16 v0, .w16 .u16 v1, .w16 .u16 v2],
     .list [.w16 .u16 e0, .w16 .u16 e1, .w16 .u16 e2], .list [.w16 .u16 i0, .w16 .u16 i1, .w16 .u16 i2]] =>
    some ⟨s, r, ⟨v0, v1, v2⟩, ⟨e0, e1, e2⟩, ⟨i0, i1, i2⟩⟩
  | _ => none

/-- the two `map = read_bool_from::<u8>` closures (`x == 1`) are applied here -/
def modelFileBlockOf : List Value → Option Dat.ModelFileBlock
  | [.w32 .u32 nb, .w32 .u32 nub, .w32 .u32 ver, .struct us, .struct cs, .struct off, .struct idx, .struct num,
     .w16 .u16 vdn, .w16 .u16 mn, .w8 .u8 lods, .w8 .u8 ibs, .w8 .u8 ege] =>
    (mms32Of us).bind fun us => (mms32Of cs).bind fun cs => (mms32Of off).bind fun off =>
    (mms16Of idx).bind fun idx => (mms16Of num).bind fun num =>
      some ⟨nb, nub, ver, us, cs, off, idx, num, vdn, mn, lods, ibs == 1, ege == 1⟩
  | _ => none

theorem readMMS32_eq_expected (l : Bytes) :
    Dat.readMMS u32le l = via mms32Of (Layout.read .little (Expected.modelMemorySizes .u32) l) := by
  binrw_norm [Dat.readMMS, Dat.readTri, Expected.modelMemorySizes]
  rfl
theorem readMMS16_eq_expected (l : Bytes) :
    Dat.readMMS u16le l = via mms16Of (Layout.read .little (Expected.modelMemorySizes .u16) l) := by
  binrw_norm [Dat.readMMS, Dat.readTri, Expected.modelMemorySizes]
  rfl

set_option maxHeartbeats 1600000 in
theorem readModelFileBlock_eq_expected (l : Bytes) :
    Dat.readModelFileBlock l =
      via modelFileBlockOf (Layout.read .little
        (Expected.modelFileBlock (Expected.modelMemorySizes .u32) (Expected.modelMemorySizes .u16)) l) := by
  binrw_norm! [Dat.readModelFileBlock, Dat.readMMS, Dat.readTri, Expected.modelFileBlock, Expected.modelMemorySizes]
  rfl

theorem modelFileBlock_congr (e : Endian) {a1 a2 b1 b2 : Layout}
    (ha : a1.normalizeAt e = a2.normalizeAt e) (hb : b1.normalizeAt e = b2.normalizeAt e) :
    Layout.read e (Expected.modelFileBlock a1 b1) = Layout.read e (Expected.modelFileBlock a2 b2) := by
  funext l
  simp only [Expected.modelFileBlock, Layout.read, Layout.readFields, Field.read, Kind.read, Option.getD,
    Layout.read_congr e ha, Layout.read_congr e hb, Nat.zero_sub]

/-! ### the tie: model readers = interpretation of the regenerated descriptors -/

theorem readMMS32_eq_generated (l : Bytes) :
    Dat.readMMS u32le l = via mms32Of (Layout.read endian BinrwDat.modelMemorySizes_u32 l) :=
  endian_generated ▸ tie readMMS32_eq_expected modelMemorySizes_u32_generated l
theorem readMMS16_eq_generated (l : Bytes) :
    Dat.readMMS u16le l = via mms16Of (Layout.read endian BinrwDat.modelMemorySizes_u16 l) :=
  endian_generated ▸ tie readMMS16_eq_expected modelMemorySizes_u16_generated l
theorem readModelFileBlock_eq_generated (l : Bytes) :
    Dat.readModelFileBlock l = via modelFileBlockOf (Layout.read endian BinrwDat.modelFileBlock l) := by
  rw [endian_generated, Layout.read_congr _ modelFileBlock_generated,
    modelFileBlock_congr _ modelMemorySizes_u32_generated modelMemorySizes_u16_generated]
  exact readModelFileBlock_eq_expected l


theorem readLod_eq_generated (l : Bytes) :
    Dat.readLod l = via lodOf (Layout.read endian BinrwDat.textureLodBlock l) :=
  endian_generated ▸ tie readLod_eq_expected textureLodBlock_generated l

theorem readBlockHeader_eq_generated (l : Bytes) :
    Dat.readBlockHeader l =
      (via blockHeaderOf (Layout.read .little BinrwDat.blockHeader l)).bind fun x =>
        (u32le x.2).map fun _ => x := by
  rw [Layout.read_congr _ blockHeader_generated]; exact readBlockHeader_eq_expected l

theorem readLods_eq_generated (n : Nat) (l : Bytes) :
    Dat.readLods n l =
      (repeatN (Kind.read endian [] (.struct BinrwDat.textureLodBlock)) n l).bind fun vs =>
        (projAll lodOfV vs.1).map (·, vs.2) := by
  rw [readLods_eq_expected]
  simp only [endian_generated, Kind.read, Layout.read_congr _ textureLodBlock_generated]

theorem readBlocks_eq_generated (n : Nat) (l : Bytes) :
    Dat.readBlocks n l =
      (repeatN (Kind.read .little [] (.struct BinrwDat.block)) n l).bind fun vs =>
        (projAll offsetOfV vs.1).map (·, vs.2) := by
  rw [readBlocks_eq_expected]
  simp only [Kind.read, Layout.read_congr _ block_generated]

theorem textureBlock_congr (e : Endian) {s1 s2 : Layout} (h : s1.normalizeAt e = s2.normalizeAt e) :
    Layout.read e (Expected.textureBlock s1) = Layout.read e (Expected.textureBlock s2) := by
  funext l
  simp only [Expected.textureBlock, Layout.read, Layout.readFields, Field.read, Kind.read, Option.getD,
    Layout.read_congr e h, Nat.zero_sub]

theorem readFileInfo_eq_generated (l : Bytes) :
    Dat.readFileInfo l =
      (Layout.read .little BinrwDat.fileInfo l).bind
        (infoRest BinrwDat.standardFileBlock BinrwDat.textureBlock) := by
  have e : infoRest BinrwDat.standardFileBlock BinrwDat.textureBlock =
      infoRest Expected.standardFileBlock (Expected.textureBlock Expected.textureLodBlock) := by
    funext x
    unfold infoRest
    simp only [Layout.read_congr _ standardFileBlock_generated, Layout.read_congr _ textureBlock_generated,
      textureBlock_congr _ textureLodBlock_generated]
  rw [e, Layout.read_congr _ fileInfo_generated]
  exact readFileInfo_eq_expected l

end Physis.BinrwTie.Dat
