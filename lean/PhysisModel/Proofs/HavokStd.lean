import PhysisModel.Proofs.HavokRead
/-!
The reader on the standard skeleton file `Spec.HavokTag.stdFile`: the type table, then the root
container, the animation container and the skeleton object.
-/
namespace Physis.Havok
open Physis.Spec.HavokTag

/-! ### the type table -/

/-- the reader's type list after a run of declarations -/
def buildTypes : List HType → List TypeDecl → Option (List HType)
  | types, [] => some types
  | types, t :: ts =>
    match types[t.parent]? with
    | none => none
    | some par => buildTypes (types ++ [toT par t]) ts

/-- the encoder's string table after a run of declarations -/
def tblAfter (p : Enc) : List Bytes → List TypeDecl → List Bytes
  | tbl, [] => tbl
  | tbl, t :: ts => tblAfter p (encType p tbl t).2 ts

theorem tagLoop_types (p : Enc) : ∀ (ts : List TypeDecl) (fuel : Nat) (st : St) (decls : List TypeDecl)
    (items : List Item) (r : Bytes) (types' : List HType),
    (∀ t ∈ ts, typeOK t = true) → buildTypes st.types ts = some types' →
    tagLoop (fuel + ts.length) st (encItems p st.strings decls (ts.map Item.type ++ items) ++ r) =
      tagLoop fuel { st with strings := tblAfter p st.strings ts, types := types' }
        (encItems p (tblAfter p st.strings ts) (decls ++ ts) items ++ r) := by
  intro ts
  induction ts with
  | nil =>
    intro fuel st decls items r types' _ hb
    simp only [buildTypes, Option.some.injEq] at hb
    subst hb
    simp [tblAfter]
  | cons t rest ih =>
    intro fuel st decls items r types' hok hb
    have ht := hok t (by simp)
    have hrest : ∀ x ∈ rest, typeOK x = true := fun x hx => hok x (by simp [hx])
    simp only [buildTypes] at hb
    split at hb
    · exact absurd hb (by simp)
    · rename_i par hpar
      simp only [List.map_cons, List.cons_append, encItems, List.length_cons, List.append_assoc]
      rw [show fuel + (rest.length + 1) = (fuel + rest.length) + 1 by omega,
        tagLoop_type p _ st t par _ ht hpar]
      have := ih fuel { st with strings := (encType p st.strings t).2, types := st.types ++ [toT par t] }
        (decls ++ [t]) items r types' hrest hb
      simp only [List.append_assoc, List.singleton_append] at this
      rw [this]
      simp [tblAfter]

def hRoot : HType := toT objectType tRoot
def hNamedVariant : HType := toT objectType tNamedVariant
def hBase : HType := toT objectType tBase
def hReferenced : HType := toT hBase tReferenced
def hContainer : HType := toT hReferenced tContainer
def hSkeleton : HType := toT hReferenced tSkeleton
def hBone : HType := toT objectType tBone

def stdHTypes : List HType :=
  [objectType, hRoot, hNamedVariant, hBase, hReferenced, hContainer, hSkeleton, hBone]

theorem buildTypes_std : buildTypes [objectType] stdTypes = some stdHTypes := by decide

theorem stdTypes_ok : ∀ t ∈ stdTypes, typeOK t = true := by decide

/-! ### the three objects -/

theorem bf (bits : List Bool) (n : Nat) (r : Bytes) (hn : bits.length = n) (h : n + 7 < 2 ^ 32) :
    readBitField n (encodeBits bits ++ r) = some (bits, r) := by
  subst hn; exact readBitField_encode bits r h

theorem std_get (i : Nat) (t : HType) (st : St) (hst : st.types = stdHTypes) (h : stdHTypes[i]? = some t) :
    st.types[i]? = some t := by rw [hst]; exact h

theorem readArray_str (fuel : Nat) (st : St) (m : Member) (len : Nat) (b : Bytes)
    (h : Havok.baseType m.ty = 10) : readArray (fuel + 1) st m len b = readMany readStringV len st b := by
  simp [readArray, h]

theorem readArray_ref (fuel : Nat) (st : St) (m : Member) (len : Nat) (b : Bytes)
    (h : Havok.baseType m.ty = 8) : readArray (fuel + 1) st m len b = readMany readRefV len st b := by
  simp [readArray, h]

theorem readArray_byte (fuel : Nat) (st : St) (m : Member) (len : Nat) (b : Bytes)
    (h : Havok.baseType m.ty = 1) : readArray (fuel + 1) st m len b = readMany readByteV len st b := by
  simp [readArray, h]

theorem readArray_int (fuel : Nat) (st : St) (m : Member) (len : Nat) (b : Bytes)
    (h : Havok.baseType m.ty = 2) (hv : st.ver = 3) :
    readArray (fuel + 1) st m len b =
      match (readPackedInt b).map (·.2) with
      | none => none
      | some b => readMany readIntV len st b := by
  simp [readArray, h, hv]
  rfl

theorem readArray_real (fuel : Nat) (st : St) (m : Member) (len : Nat) (b : Bytes)
    (h : Havok.baseType m.ty = 3) : readArray (fuel + 1) st m len b = readMany readRealV len st b := by
  simp [readArray, h]

theorem readArray_vec (fuel : Nat) (st : St) (m : Member) (len : Nat) (b : Bytes)
    (h : 4 ≤ Havok.baseType m.ty ∧ Havok.baseType m.ty ≤ 7) :
    readArray (fuel + 1) st m len b = readMany (readVecV (Spec.HavokTag.vecSize (Havok.baseType m.ty))) len st b := by
  obtain ⟨h4, h7⟩ := h
  have hcases : Havok.baseType m.ty = 4 ∨ Havok.baseType m.ty = 5 ∨ Havok.baseType m.ty = 6 ∨
      Havok.baseType m.ty = 7 := by omega
  rcases hcases with h | h | h | h <;> simp [readArray, h, isVecBase, vecSize, Spec.HavokTag.vecSize]

theorem readArray_vec12 (fuel : Nat) (st : St) (m : Member) (len : Nat) (b : Bytes)
    (h : Havok.baseType m.ty = 6) : readArray (fuel + 1) st m len b = readMany (readVecV 12) len st b := by
  simp [readArray, h, isVecBase, vecSize]

theorem readArray_struct (fuel : Nat) (st : St) (m : Member) (len : Nat) (b : Bytes) (cls : Bytes) (t : HType)
    (h : Havok.baseType m.ty = 9) (hc : m.cls = some cls) (ht : findType st cls = some t) :
    readArray (fuel + 1) st m len b =
      match readBitField t.all.length b with
      | none => none
      | some (ex, b) =>
        match readColumnsWith (readArray fuel) st t.all ex 0 len b with
        | none => none
        | some (cols, st, b) => some ((List.range len).map (fun i => Value.obj t (rowOf cols i)), st, b) := by
  simp [readArray, h, hc, ht, memberCount]
  rfl

theorem std_find (st : St) (hst : st.types = stdHTypes) (cls : Bytes) (t : HType)
    (h : stdHTypes.find? (·.name == cls) = some t) : findType st cls = some t := by
  rw [findType, hst]; exact h

theorem readRef1 (p : Enc) (st : St) (i : Nat) (r : Bytes) (h : i < 2 ^ 31) :
    readMany readRefV 1 st (p.nat i ++ r) = some ([.ref i], st.noteRef i, r) := by
  simp [readMany, readRefV, readNat p i r h, asIndex_nat]

theorem readMemberValue_arr (p : Enc) (fuel : Nat) (st : St) (m : Member) (n : Nat) (b : Bytes)
    (hm : Havok.isArray m.ty = true) (hn : n < 2 ^ 31) (hl : n ≤ b.length) :
    readMemberValue fuel st m (p.nat n ++ b) =
      (readArray fuel st m n b).map fun (l, st, b) => (.arr l, st, b) := by
  simp only [readMemberValue, hm, if_true, readNat p n _ hn, asIndex_nat]
  rw [if_neg (by omega)]

theorem readMemberValue_str (fuel : Nat) (st : St) (m : Member) (b : Bytes) (hm : m.ty = 10) :
    readMemberValue fuel st m b = readStringV st b := by
  simp [readMemberValue, hm, Havok.isArray]

theorem nat_length_pos (p : Enc) (n : Nat) : 1 ≤ (p.nat n).length := int_length_pos p n

theorem le_append_left (a b : Bytes) (n : Nat) (h : n ≤ a.length) : n ≤ (a ++ b).length := by
  simp only [List.length_append]; omega

theorem le_append_right (a b : Bytes) (n : Nat) (h : n ≤ b.length) : n ≤ (a ++ b).length := by
  simp only [List.length_append]; omega

theorem ints_length (p : Enc) : ∀ l : List Int, l.length ≤ ((l.map p.int).flatten).length := by
  intro l
  induction l with
  | nil => simp
  | cons a t ih =>
    have := int_length_pos p a
    simp only [List.map_cons, List.flatten_cons, List.length_cons, List.length_append]
    omega

theorem vecs_length : ∀ l : List (List UInt32), (∀ v ∈ l, v.length = 12) →
    l.length ≤ ((l.map fun v => (v.map f32le).flatten).flatten).length := by
  intro l
  induction l with
  | nil => intro _; simp
  | cons a t ih =>
    intro h
    have ha := h a (by simp)
    have ht := ih (fun v hv => h v (by simp [hv]))
    have : 1 ≤ ((a.map f32le).flatten).length := by
      match a, ha with
      | x :: _, _ => simp only [List.map_cons, List.flatten_cons, List.length_append, f32le, putU32le_length]; omega
    simp only [List.map_cons, List.flatten_cons, List.length_cons, List.length_append]
    omega

/-- the root container: one named variant -/
theorem readRoot (p : Enc) (fuel : Nat) (st : St) (hst : st.types = stdHTypes) (vn r : Bytes)
    (hvn : okString vn = true) :
    readObject (fuel + 2) st
      (p.nat 1 ++ (encodeBits [true] ++ (p.nat 1 ++ (encodeBits [true, true, true] ++
        ((encStrings p st.strings [vn]).1 ++
          ((encStrings p (encStrings p st.strings [vn]).2 [Spec.HavokTag.n_hkaAnimationContainer]).1 ++
            (p.nat 2 ++ r))))))) =
      some (⟨hRoot, [(0, .arr [.obj hNamedVariant [(0, .str vn), (1, .str Spec.HavokTag.n_hkaAnimationContainer), (2, .ref 2)]])]⟩,
        { st with strings := (encStrings p (encStrings p st.strings [vn]).2 [Spec.HavokTag.n_hkaAnimationContainer]).2,
                  refBound := max st.refBound 3 }, r) := by
  have hs1 := readStrings_enc p [vn] st
  have hs2 := readStrings_enc p [Spec.HavokTag.n_hkaAnimationContainer] { st with strings := (encStrings p st.strings [vn]).2 }
  simp only [List.length_cons, List.length_nil, Nat.zero_add] at hs1 hs2
  simp only [readObject, readNat p 1 _ (by decide), asIndex_nat, Option.bind_some,
    std_get 1 hRoot st hst rfl]
  rw [show hRoot.all.length = 1 from rfl, bf [true] 1 _ rfl (by decide)]
  rw [show hRoot.all = [⟨n_namedVariants, 0x19, 0, some n_hkRootLevelContainerNamedVariant⟩] from rfl]
  simp only [readMembers, if_true]
  rw [readMemberValue_arr p _ _ _ 1 _ rfl (by decide) (le_append_left _ _ 1 (by decide))]
  rw [readArray_struct _ _ _ _ _ n_hkRootLevelContainerNamedVariant hNamedVariant rfl rfl
    (std_find st hst _ _ rfl)]
  rw [show hNamedVariant.all.length = 3 from rfl, bf [true, true, true] 3 _ rfl (by decide)]
  rw [show hNamedVariant.all = [⟨n_name, 10, 0, none⟩, ⟨n_className, 10, 0, none⟩,
    ⟨n_variant, 8, 0, some n_hkReferencedObject⟩] from rfl]
  simp only [readColumnsWith, if_true, show Havok.isTuple 10 = false from rfl, show Havok.isTuple 8 = false from rfl,
    Bool.false_eq_true, if_false]
  rw [readArray_str _ _ _ _ _ rfl, hs1 _ (by simpa using hvn)]
  simp only []
  rw [readArray_str _ _ _ _ _ rfl, hs2 _ (by decide)]
  simp only []
  rw [readArray_ref _ _ _ _ _ rfl, readRef1 p _ 2 r (by decide)]
  simp [rowOf, St.noteRef]

/-- the animation container: one skeleton, everything else absent -/
theorem readContainer (p : Enc) (fuel : Nat) (st : St) (hst : st.types = stdHTypes) (r : Bytes) :
    readObject (fuel + 2) st
      (p.nat 5 ++ (encodeBits [false, false, true, false, false, false, false] ++ (p.nat 1 ++ (p.nat 3 ++ r)))) =
      some (⟨hContainer, [(0, .int 0), (1, .int 0), (2, .arr [.ref 3]), (3, .arr []), (4, .arr []),
          (5, .arr []), (6, .arr [])]⟩,
        { st with refBound := max st.refBound 4 }, r) := by
  simp only [readObject, readNat p 5 _ (by decide), asIndex_nat, Option.bind_some,
    std_get 5 hContainer st hst rfl]
  rw [show hContainer.all.length = 7 from rfl, bf _ 7 _ rfl (by decide)]
  rw [show hContainer.all = [⟨n_memSizeAndFlags, 2, 0, none⟩, ⟨n_referenceCount, 2, 0, none⟩,
    ⟨n_skeletons, 0x18, 0, some n_hkaSkeleton⟩, ⟨n_animations, 0x18, 0, some n_hkaAnimation⟩,
    ⟨n_bindings, 0x18, 0, some n_hkaAnimationBinding⟩, ⟨n_attachments, 0x18, 0, some n_hkaBoneAttachment⟩,
    ⟨n_skins, 0x18, 0, some n_hkaMeshBinding⟩] from rfl]
  simp only [readMembers, if_true, Bool.false_eq_true, if_false,
    show ∀ s : St, defaultValue s 2 = some (.int 0, s) from fun _ => rfl,
    show ∀ s : St, defaultValue s 0x18 = some (.arr [], s) from fun _ => rfl, Option.map_some]
  rw [readMemberValue_arr p _ _ _ 1 _ rfl (by decide) (le_append_left _ _ 1 (nat_length_pos p _))]
  rw [readArray_ref _ _ _ _ _ rfl, readRef1 p _ 3 r (by decide)]
  simp [St.noteRef]

/-- the skeleton object: name, parent indices, bones (names and lock flags), reference pose -/
theorem readSkeleton (p : Enc) (fuel : Nat) (st : St) (hst : st.types = stdHTypes) (hver : st.ver = 3)
    (name : Bytes) (kind : Int) (n : Nat) (names : List Bytes) (parents : List Int) (locks : List UInt8)
    (poses : List (List UInt32)) (r : Bytes)
    (hname : okString name = true) (hkind : InRange kind) (hn : n < 2 ^ 31)
    (hnames : names.length = n) (hparents : parents.length = n) (hlocks : locks.length = n)
    (hposes : poses.length = n) (hnok : ∀ s ∈ names, okString s = true) (hpok : ∀ v ∈ parents, InRange v)
    (hvok : ∀ v ∈ poses, v.length = 12) :
    readObject (fuel + 2) st
      (p.nat 6 ++ (encodeBits [false, false, true, true, true, true, false, false, false, false] ++
        ((encString p st.strings name).1 ++
          (p.nat n ++ (p.int kind ++ ((parents.map p.int).flatten ++
            (p.nat n ++ (encodeBits [true, true] ++
              ((encStrings p (encString p st.strings name).2 names).1 ++ (locks ++
                (p.nat n ++ ((poses.map fun v => (v.map f32le).flatten).flatten ++ r)))))))))))) =
      some (⟨hSkeleton, [(0, .int 0), (1, .int 0), (2, .str name), (3, .arr (parents.map Value.int)),
          (4, .arr ((List.range n).map fun i => Value.obj hBone
            (rowOf [(0, names.map Value.str), (1, locks.map fun v => Value.int v.toNat)] i))),
          (5, .arr (poses.map Value.vec)), (6, .arr []), (7, .arr []), (8, .arr []), (9, .arr [])]⟩,
        { st with strings := (encStrings p (encString p st.strings name).2 names).2 }, r) := by
  have hs := readStrings_enc p names { st with strings := (encString p st.strings name).2 }
  simp only [hnames] at hs
  have hi := readInts_enc p { st with strings := (encString p st.strings name).2 } parents
  simp only [hparents] at hi
  have hb := readBytes_enc { st with strings := (encStrings p (encString p st.strings name).2 names).2 } locks
  simp only [hlocks] at hb
  have hv := readVecs_enc { st with strings := (encStrings p (encString p st.strings name).2 names).2 } 12 poses
  simp only [hposes] at hv
  simp only [readObject, readNat p 6 _ (by decide), asIndex_nat, Option.bind_some,
    std_get 6 hSkeleton st hst rfl]
  rw [show hSkeleton.all.length = 10 from rfl, bf _ 10 _ rfl (by decide)]
  rw [show hSkeleton.all = [⟨n_memSizeAndFlags, 2, 0, none⟩, ⟨n_referenceCount, 2, 0, none⟩,
    ⟨n_name, 10, 0, none⟩, ⟨n_parentIndices, 0x12, 0, none⟩, ⟨n_bones, 0x19, 0, some n_hkaBone⟩,
    ⟨n_referencePose, 0x16, 0, none⟩, ⟨n_referenceFloats, 0x13, 0, none⟩, ⟨n_floatSlots, 0x1a, 0, none⟩,
    ⟨n_localFrames, 0x19, 0, some n_hkaSkeletonLocalFrameOnBone⟩,
    ⟨n_partitions, 0x19, 0, some n_hkaSkeletonPartition⟩] from rfl]
  simp only [readMembers, if_true, Bool.false_eq_true, if_false,
    show ∀ s : St, defaultValue s 2 = some (.int 0, s) from fun _ => rfl,
    show ∀ s : St, defaultValue s 0x13 = some (.arr [], s) from fun _ => rfl,
    show ∀ s : St, defaultValue s 0x1a = some (.arr [], s) from fun _ => rfl,
    show ∀ s : St, defaultValue s 0x19 = some (.arr [], s) from fun _ => rfl, Option.map_some]
  -- name
  rw [readMemberValue_str _ _ _ _ rfl]
  simp only [readStringV, readString_enc p st name _ hname, Option.map_some]
  -- parentIndices
  rw [readMemberValue_arr p _ _ _ n _ rfl hn
    (le_append_right _ _ n (le_append_left _ _ n (by rw [← hparents]; exact ints_length p parents)))]
  rw [readArray_int _ { st with strings := (encString p st.strings name).2 } _ _ _ rfl hver,
    readInt p kind _ hkind]
  simp only [Option.map_some, hi _ hpok]
  -- bones
  rw [readMemberValue_arr p _ _ _ n _ rfl hn
    (le_append_right _ _ n (le_append_right _ _ n (le_append_left _ _ n (by omega))))]
  rw [readArray_struct _ _ _ _ _ n_hkaBone hBone rfl rfl
    (std_find { st with strings := (encString p st.strings name).2 } hst _ _ rfl)]
  rw [show hBone.all.length = 2 from rfl, bf [true, true] 2 _ rfl (by decide)]
  rw [show hBone.all = [⟨n_name, 10, 0, none⟩, ⟨n_lockTranslation, 1, 0, none⟩] from rfl]
  simp only [readColumnsWith, if_true, show Havok.isTuple 10 = false from rfl, show Havok.isTuple 1 = false from rfl,
    Bool.false_eq_true, if_false]
  rw [readArray_str _ _ _ _ _ rfl, hs _ hnok]
  simp only []
  rw [readArray_byte _ _ _ _ _ rfl, hb]
  simp only [Option.map_some]
  -- referencePose
  rw [readMemberValue_arr p _ _ _ n _ rfl hn
    (le_append_left _ _ n (by rw [← hposes]; exact vecs_length poses hvok))]
  rw [readArray_vec12 _ _ _ _ _ rfl, hv _ hvok]
  simp

/-! ### the whole file -/

theorem tagLoop_object' (p : Enc) (fuel F : Nat) (st st' : St) (o : Obj) (x r : Bytes)
    (hF : maxArrayDepth + 1 = F + 2) (h : readObject (F + 2) st x = some (o, st', r)) :
    tagLoop (fuel + 1) st (p.int 4 ++ x) = tagLoop fuel { st' with objs := st'.objs ++ [o] } r := by
  simp only [tagLoop, readInt p 4 _ (by decide), hF, h]
  rfl

theorem nat_ne_nil (p : Enc) (n : Nat) : p.nat n ≠ [] := int_ne_nil p n

theorem tagLoop_object'' (p : Enc) (fuel : Nat) (st st' : St) (o : Obj) (x r : Bytes) (hx : x ≠ [])
    (h : ∀ F, readObject (F + 2) st x = some (o, st', r)) :
    tagLoop (fuel + 1) st (p.int 4 ++ x) = tagLoop fuel { st' with objs := st'.objs ++ [o] } r := by
  exact tagLoop_object' p fuel 31 st st' o x r rfl (h _)

theorem nat_prefix_fuel (p : Enc) (n : Nat) (rest : Bytes) : ∃ F, (p.nat n ++ rest).length + 1 = F + 2 := by
  have := int_length_pos p (n : Int)
  refine ⟨(p.nat n ++ rest).length - 1, ?_⟩
  simp only [List.length_append, Enc.nat] at *
  omega

def oRoot (vn : Bytes) : Obj :=
  ⟨hRoot, [(0, .arr [.obj hNamedVariant [(0, .str vn), (1, .str Spec.HavokTag.n_hkaAnimationContainer), (2, .ref 2)]])]⟩

def oContainer : Obj :=
  ⟨hContainer, [(0, .int 0), (1, .int 0), (2, .arr [.ref 3]), (3, .arr []), (4, .arr []), (5, .arr []),
    (6, .arr [])]⟩

def oSkeleton (name : Bytes) (names : List Bytes) (parents : List Int) (locks : List UInt8)
    (poses : List (List UInt32)) : Obj :=
  ⟨hSkeleton, [(0, .int 0), (1, .int 0), (2, .str name), (3, .arr (parents.map Value.int)),
    (4, .arr ((List.range names.length).map fun i => Value.obj hBone
      (rowOf [(0, names.map Value.str), (1, locks.map fun v => Value.int v.toNat)] i))),
    (5, .arr (poses.map Value.vec)), (6, .arr []), (7, .arr []), (8, .arr []), (9, .arr [])]⟩

theorem pose_length (b : BoneRec) : b.pose.length = 12 := rfl

theorem tagLoop_std (p : Enc) (s : Skel) (hs : s.WF) (F : Nat) :
    ∃ st, tagLoop (F + 12) St.init (p.int 1 ++ (p.int 3 ++ (encItems p initStrings [] (stdFile s) ++ p.int 7))) = some st ∧
      st.refBound = 4 ∧
      st.objs = [⟨objectType, []⟩, oRoot s.variantName, oContainer,
        oSkeleton s.name (s.bones.map (·.bone.name)) (s.bones.map (·.bone.parent)) (s.bones.map (·.lock))
          (s.bones.map BoneRec.pose)] := by
  obtain ⟨hname, hvn, hkind, hlen, hbones⟩ := hs
  rw [show F + 12 = (F + 11) + 1 from rfl, tagLoop_fileInfo p _ St.init objectType [] _ rfl]
  unfold stdFile
  have key := tagLoop_types p stdTypes (F + 4)
    { ver := 3, strings := initStrings, types := [objectType], objs := [⟨objectType, []⟩], refBound := 0 } []
    [.obj 1 [.structs 1 [.strs [s.variantName], .strs [Spec.HavokTag.n_hkaAnimationContainer], .refs [2]]],
     .obj 5 [.absent, .absent, .refs [3], .absent, .absent, .absent, .absent],
     .obj 6 [.absent, .absent, .str s.name, .ints s.intKind (s.bones.map (·.bone.parent)),
       .structs s.bones.length [.strs (s.bones.map (·.bone.name)), .bytes (s.bones.map (·.lock))],
       .vecs (s.bones.map BoneRec.pose), .absent, .absent, .absent, .absent]]
    (p.int 7) stdHTypes stdTypes_ok buildTypes_std
  simp only at key
  show ∃ st, tagLoop (F + 4 + stdTypes.length)
    { ver := 3, strings := initStrings, types := [objectType], objs := [⟨objectType, []⟩], refBound := 0 } _ =
      some st ∧ _
  rw [key]
  generalize tblAfter p _ stdTypes = tbl3
  simp only [List.nil_append, encItems,
    show (membersOf stdTypes 1).map (·.ty) = [0x19] from by decide,
    show (membersOf stdTypes 5).map (·.ty) = [2, 2, 0x18, 0x18, 0x18, 0x18, 0x18] from by decide,
    show (membersOf stdTypes 6).map (·.ty) = [2, 2, 10, 0x12, 0x19, 0x16, 0x13, 0x1a, 0x19, 0x19] from by decide,
    encFields, encField, encBody, encBodies, Val.present, Val.len, List.map_cons, List.map_nil,
    show Spec.HavokTag.isArray 0x19 = true from rfl, show Spec.HavokTag.isArray 0x18 = true from rfl,
    show Spec.HavokTag.isArray 2 = false from rfl, show Spec.HavokTag.isArray 10 = false from rfl,
    show Spec.HavokTag.isArray 0x12 = true from rfl, show Spec.HavokTag.isArray 0x16 = true from rfl,
    show Spec.HavokTag.isArray 0x13 = true from rfl, show Spec.HavokTag.isArray 0x1a = true from rfl,
    Bool.and_true, Bool.and_false, if_true, if_false, Bool.false_eq_true,
    List.append_assoc, List.nil_append, List.append_nil, List.flatten_cons, List.flatten_nil, List.length_map,
    List.length_cons, List.length_nil, Nat.zero_add]
  -- the root container
  have h1 := fun r => tagLoop_object'' p (F + 3) _ _ _ _ r (List.append_ne_nil_of_left_ne_nil (nat_ne_nil p _) _)
      (fun F1 => readRoot p F1
        { ver := 3, strings := tbl3, types := stdHTypes, objs := [⟨objectType, []⟩], refBound := 0 } rfl
        s.variantName r hvn)
  simp only [] at h1
  rw [show F + 4 = (F + 3) + 1 from rfl, h1]
  generalize (encStrings p (encStrings p tbl3 [s.variantName]).2 [Spec.HavokTag.n_hkaAnimationContainer]).2 = tbl4
  clear key h1
  -- the animation container
  have h2 := fun r => tagLoop_object'' p (F + 2) _ _ _ _ r (List.append_ne_nil_of_left_ne_nil (nat_ne_nil p _) _)
      (fun F1 => readContainer p F1
        { ver := 3, strings := tbl4, types := stdHTypes,
          objs := [⟨objectType, []⟩] ++ [oRoot s.variantName], refBound := max 0 3 } rfl r)
  simp only [oRoot] at h2
  rw [show F + 3 = (F + 2) + 1 from rfl, h2]
  clear h2
  -- the skeleton
  have h3 := fun r => tagLoop_object'' p (F + 1) _ _ _ _ r (List.append_ne_nil_of_left_ne_nil (nat_ne_nil p _) _)
      (fun F1 => readSkeleton p F1
        { ver := 3, strings := tbl4, types := stdHTypes,
          objs := [⟨objectType, []⟩] ++ [oRoot s.variantName] ++ [oContainer], refBound := max (max 0 3) 4 }
        rfl rfl s.name s.intKind s.bones.length (s.bones.map (·.bone.name)) (s.bones.map (·.bone.parent))
        (s.bones.map (·.lock)) (s.bones.map BoneRec.pose) r hname hkind hlen (by simp) (by simp) (by simp)
        (by simp)
        (by intro x hx; obtain ⟨b, hb, rfl⟩ := List.mem_map.mp hx; exact (hbones b hb).1)
        (by intro x hx; obtain ⟨b, hb, rfl⟩ := List.mem_map.mp hx; exact (hbones b hb).2)
        (by intro x hx; obtain ⟨b, hb, rfl⟩ := List.mem_map.mp hx; rfl))
  simp only [oRoot, oContainer] at h3
  rw [show F + 2 = (F + 1) + 1 from rfl, h3, show p.int 7 = p.int 7 ++ [] from (List.append_nil _).symm,
    tagLoop_end]
  refine ⟨_, rfl, rfl, ?_⟩
  simp [oSkeleton, oRoot, oContainer]

theorem read_signature (b : Bytes) :
    read (signature ++ b) =
      match tagLoop (b.length + 1) St.init b with
      | none => none
      | some st => if st.refBound ≤ st.objs.length ∧ 1 < st.objs.length then some st.objs else none := by
  simp only [signature, List.cons_append, List.nil_append, read, readF32]
  rfl

/-- the reader on the standard file: the four remembered objects -/
theorem read_std (p : Enc) (s : Skel) (hs : s.WF) :
    read (encode p (stdFile s)) =
      some [⟨objectType, []⟩, oRoot s.variantName, oContainer,
        oSkeleton s.name (s.bones.map (·.bone.name)) (s.bones.map (·.bone.parent)) (s.bones.map (·.lock))
          (s.bones.map BoneRec.pose)] := by
  unfold encode
  simp only [List.append_assoc]
  rw [read_signature]
  have hl : ∃ F, (p.int 1 ++ (p.int 3 ++ (encItems p initStrings [] (stdFile s) ++ p.int 7))).length + 1 = F + 12 := by
    have h1 := int_length_pos p 1
    have h3 := int_length_pos p 3
    have h7 := int_length_pos p 7
    have hi := encItems_length p (stdFile s) initStrings []
    have hf : (stdFile s).length = 10 := by simp [stdFile, stdTypes]
    refine ⟨(p.int 1 ++ (p.int 3 ++ (encItems p initStrings [] (stdFile s) ++ p.int 7))).length + 1 - 12, ?_⟩
    simp only [List.length_append] at *
    omega
  obtain ⟨F, hF⟩ := hl
  obtain ⟨st, hst, hrb, hobjs⟩ := tagLoop_std p s hs F
  rw [hF, hst]
  simp [hrb, hobjs]

end Physis.Havok
