import PhysisModel.Proofs.HavokInt
import PhysisModel.Proofs.HavokBits
/-!
The tag-file reader on the encoder's output, piece by piece: strings (with the remembered-string
table), lists of integers / bytes / floats / vectors, type declarations.
-/
namespace Physis.Havok
open Physis.Spec.HavokTag

/-! ### integers -/

theorem readInt (p : Enc) (n : Int) (r : Bytes) (h : InRange n) :
    readPackedInt (p.int n ++ r) = some (n, r) := readPackedInt_encode p.width n r h

theorem readNat (p : Enc) (n : Nat) (r : Bytes) (h : n < 2 ^ 31) :
    readPackedInt (p.nat n ++ r) = some ((n : Int), r) :=
  readInt p n r ⟨by omega, by omega⟩

theorem asIndex_nat (n : Nat) : asIndex (n : Int) = some n := by
  simp [asIndex]

/-! ### strings -/

theorem findString_spec (tbl : List Bytes) (s : Bytes) (i : Nat) (h : findString tbl s = some i) :
    0 < i ∧ tbl[i]? = some s := by
  cases tbl with
  | nil => simp [findString] at h
  | cons a t =>
    simp only [findString, Option.map_eq_some_iff] at h
    obtain ⟨j, hj, rfl⟩ := h
    have := List.findIdx?_eq_some_iff_getElem.mp hj
    obtain ⟨hlt, heq, _⟩ := this
    refine ⟨by omega, ?_⟩
    simp only [List.getElem?_cons_succ]
    rw [List.getElem?_eq_getElem hlt]
    simpa using heq

theorem readString_lit (p : Enc) (st : St) (s r : Bytes) (h : okString s = true) :
    readString st (p.nat s.length ++ s ++ r) =
      some (s, { st with strings := st.strings ++ [s] }, r) := by
  simp only [okString, Bool.and_eq_true, decide_eq_true_eq] at h
  rw [List.append_assoc]
  simp only [readString, readNat p _ _ h.2]
  have : ¬ ((s.length : Int) < 0) := by omega
  simp [this, h.1]

theorem readString_enc (p : Enc) (st : St) (s r : Bytes) (h : okString s = true) :
    readString st ((encString p st.strings s).1 ++ r) =
      some (s, { st with strings := (encString p st.strings s).2 }, r) := by
  unfold encString
  split
  · rename_i i hi
    obtain ⟨hpos, hget⟩ := findString_spec _ _ _ hi
    split
    · rename_i hc
      simp only [Bool.and_eq_true, decide_eq_true_eq] at hc
      have hr : InRange (-(i : Int)) := ⟨by omega, by omega⟩
      have hlt : (-(i : Int)) < 0 := by omega
      have hidx : (-(-(i : Int))).toNat = i := by omega
      simp only [readString, readInt p _ _ hr, if_pos hlt, hidx, hget]
    · exact readString_lit p st s r h
  · exact readString_lit p st s r h

theorem readStrings_enc (p : Enc) : ∀ (l : List Bytes) (st : St) (r : Bytes), (∀ s ∈ l, okString s = true) →
    readMany readStringV l.length st ((encStrings p st.strings l).1 ++ r) =
      some (l.map Value.str, { st with strings := (encStrings p st.strings l).2 }, r) := by
  intro l
  induction l with
  | nil => intro st r _; simp [readMany, encStrings]
  | cons s t ih =>
    intro st r h
    have hs := h s (by simp)
    have ht : ∀ x ∈ t, okString x = true := fun x hx => h x (by simp [hx])
    simp only [encStrings, List.length_cons, readMany, List.append_assoc, readStringV,
      readString_enc p st s _ hs, Option.map_some]
    have := ih { st with strings := (encString p st.strings s).2 } r ht
    simp only at this
    rw [this]
    simp

/-! ### arrays of integers, bytes, floats, vectors -/

theorem readInts_enc (p : Enc) (st : St) : ∀ (l : List Int) (r : Bytes), (∀ v ∈ l, InRange v) →
    readMany readIntV l.length st ((l.map p.int).flatten ++ r) = some (l.map Value.int, st, r) := by
  intro l
  induction l with
  | nil => intro r _; simp [readMany]
  | cons v t ih =>
    intro r h
    have hv := h v (by simp)
    have ht : ∀ x ∈ t, InRange x := fun x hx => h x (by simp [hx])
    simp only [List.length_cons, readMany, List.map_cons, List.flatten_cons, List.append_assoc, readIntV,
      readInt p v _ hv, Option.map_some, ih r ht]

theorem readBytes_enc (st : St) : ∀ (l : List UInt8) (r : Bytes),
    readMany readByteV l.length st (l ++ r) = some (l.map (fun v => Value.int v.toNat), st, r) := by
  intro l
  induction l with
  | nil => intro r; simp [readMany]
  | cons v t ih =>
    intro r
    simp only [List.length_cons, readMany, List.cons_append, readByteV, readU8, Option.map_some, ih r,
      List.map_cons]

theorem readF32_put (v : UInt32) (r : Bytes) : readF32 (f32le v ++ r) = some (v, r) := by
  simp only [f32le, putU32le, readF32, List.cons_append, List.nil_append]
  congr 2; bv_decide (timeout := 300)

theorem readF32s_put : ∀ (v : List UInt32) (r : Bytes),
    readF32s v.length ((v.map f32le).flatten ++ r) = some (v, r) := by
  intro v
  induction v with
  | nil => intro r; simp [readF32s]
  | cons a t ih =>
    intro r
    simp only [List.length_cons, readF32s, List.map_cons, List.flatten_cons, List.append_assoc,
      readF32_put, ih r]

theorem readVecs_enc (st : St) (k : Nat) : ∀ (l : List (List UInt32)) (r : Bytes), (∀ v ∈ l, v.length = k) →
    readMany (readVecV k) l.length st ((l.map fun v => (v.map f32le).flatten).flatten ++ r) =
      some (l.map Value.vec, st, r) := by
  intro l
  induction l with
  | nil => intro r _; simp [readMany]
  | cons v t ih =>
    intro r h
    have hv := h v (by simp)
    have ht : ∀ x ∈ t, x.length = k := fun x hx => h x (by simp [hx])
    have := readF32s_put v (((t.map fun v => (v.map f32le).flatten).flatten) ++ r)
    rw [hv] at this
    simp only [List.length_cons, readMany, List.map_cons, List.flatten_cons, List.append_assoc, readVecV,
      this, Option.map_some, ih r ht]

/-! ### type declarations -/

/-- the model's view of a declared member -/
def toM (m : MemberDecl) : Member :=
  ⟨m.name, m.ty, if Spec.HavokTag.isTuple m.ty then m.tuple else 0,
    if Spec.HavokTag.baseType m.ty == 8 || Spec.HavokTag.baseType m.ty == 9 then some m.cls else none⟩

theorem isTuple_eq (ty : Nat) : Havok.isTuple ty = Spec.HavokTag.isTuple ty := rfl
theorem isArray_eq (ty : Nat) : Havok.isArray ty = Spec.HavokTag.isArray ty := rfl
theorem baseType_eq (ty : Nat) : Havok.baseType ty = Spec.HavokTag.baseType ty := rfl

theorem readMember_enc (p : Enc) (st : St) (m : MemberDecl) (r : Bytes) (h : memberOK m = true) :
    readMember st ((encMember p st.strings m).1 ++ r) =
      some (toM m, { st with strings := (encMember p st.strings m).2 }, r) := by
  simp only [memberOK, Bool.and_eq_true, decide_eq_true_eq] at h
  obtain ⟨⟨⟨hn, hty⟩, htu⟩, hc⟩ := h
  have hty' : ¬ (((m.ty : Nat) : Int) < 0 ∨ (64 : Int) ≤ (m.ty : Nat)) := by omega
  have hcls := readString_enc p { st with strings := (encString p st.strings m.name).2 } m.cls r hc
  simp only at hcls
  unfold encMember toM
  cases hb : (Spec.HavokTag.baseType m.ty == 8 || Spec.HavokTag.baseType m.ty == 9) <;>
  cases ht : Spec.HavokTag.isTuple m.ty <;>
  simp only [if_true, if_false, Bool.false_eq_true, List.append_assoc, readMember, readString_enc p st _ _ hn,
    readNat p m.ty _ (by omega), hty', Int.toNat_natCast, isTuple_eq, baseType_eq, ht, hb, readInt p _ _ htu,
    List.nil_append, hcls]

theorem readMembers_enc (p : Enc) : ∀ (ms : List MemberDecl) (st : St) (r : Bytes),
    (∀ m ∈ ms, memberOK m = true) →
    readMany readMember ms.length st ((encMembers p st.strings ms).1 ++ r) =
      some (ms.map toM, { st with strings := (encMembers p st.strings ms).2 }, r) := by
  intro ms
  induction ms with
  | nil => intro st r _; simp [readMany, encMembers]
  | cons m t ih =>
    intro st r h
    have hm := h m (by simp)
    have ht : ∀ x ∈ t, memberOK x = true := fun x hx => h x (by simp [hx])
    have := ih { st with strings := (encMember p st.strings m).2 } r ht
    simp only at this
    simp only [encMembers, List.length_cons, readMany, List.append_assoc, readMember_enc p st m _ hm, this,
      List.map_cons]

theorem int_ne_nil (p : Enc) (n : Int) : p.int n ≠ [] := by
  simp only [Enc.int, encodePackedIntW, packedBytes]
  split
  · split <;> simp
  · simp

theorem int_length_pos (p : Enc) (n : Int) : 1 ≤ (p.int n).length := by
  have := int_ne_nil p n
  cases h : p.int n with
  | nil => exact absurd h this
  | cons a t => simp

theorem encMember_length (p : Enc) (tbl : List Bytes) (m : MemberDecl) : 1 ≤ (encMember p tbl m).1.length := by
  have h := int_length_pos p (m.ty : Int)
  unfold encMember
  rcases encString p tbl m.name with ⟨a, tbl1⟩
  simp only []
  split
  · rcases encString p tbl1 m.cls with ⟨c, tbl2⟩
    simp only [List.length_append, Enc.nat]; omega
  · simp only [List.length_append, Enc.nat]; omega

theorem encMembers_length (p : Enc) : ∀ (ms : List MemberDecl) (tbl : List Bytes),
    ms.length ≤ (encMembers p tbl ms).1.length := by
  intro ms
  induction ms with
  | nil => intro _; simp [encMembers]
  | cons m t ih =>
    intro tbl
    have h1 := encMember_length p tbl m
    have h2 := ih (encMember p tbl m).2
    simp only [encMembers, List.length_cons, List.length_append]
    omega

/-- a declared type is well formed on its own (`Spec.HavokTag.itemsOK` without the context part) -/
def typeOK (t : TypeDecl) : Bool :=
  okString t.name && decide (InRange t.version) && decide (t.parent < 2 ^ 31) &&
  decide (t.members.length < 2 ^ 31) && t.members.all memberOK

/-- the `HavokObjectType` the reader builds for a declaration whose parent is `par` -/
def toT (par : HType) (t : TypeDecl) : HType := ⟨t.name, t.members.map toM, par.all ++ t.members.map toM⟩

theorem readType_enc (p : Enc) (st : St) (t : TypeDecl) (par : HType) (r : Bytes) (h : typeOK t = true)
    (hp : st.types[t.parent]? = some par) :
    readType st ((encType p st.strings t).1 ++ r) =
      some (toT par t, { st with strings := (encType p st.strings t).2 }, r) := by
  simp only [typeOK, Bool.and_eq_true, decide_eq_true_eq, List.all_eq_true] at h
  obtain ⟨⟨⟨⟨hn, hv⟩, hpar⟩, hlen⟩, hms⟩ := h
  have hmem := readMembers_enc p t.members { st with strings := (encString p st.strings t.name).2 } r hms
  simp only at hmem
  have hcount : ¬ ((((encMembers p (encString p st.strings t.name).2 t.members).1 ++ r).length : Int) <
      (t.members.length : Int)) := by
    have := encMembers_length p t.members (encString p st.strings t.name).2
    simp only [List.length_append]
    omega
  simp only [encType, List.append_assoc, readType, readString_enc p st _ _ hn, readInt p _ _ hv,
    readNat p _ _ hpar, readNat p _ _ hlen, hcount, if_false, asIndex_nat, Option.bind_some, hp,
    Int.toNat_natCast, hmem, toT]

/-! ### the tag loop -/

theorem tagLoop_fileInfo (p : Enc) (fuel : Nat) (st : St) (t0 : HType) (ts : List HType) (r : Bytes)
    (ht : st.types = t0 :: ts) :
    tagLoop (fuel + 1) st (p.int 1 ++ (p.int 3 ++ r)) =
      tagLoop fuel { st with ver := 3, objs := st.objs ++ [⟨t0, []⟩] } r := by
  simp only [tagLoop, readInt p 1 _ (by decide), readInt p 3 _ (by decide), ht]
  rfl

theorem tagLoop_type (p : Enc) (fuel : Nat) (st : St) (t : TypeDecl) (par : HType) (r : Bytes)
    (h : typeOK t = true) (hp : st.types[t.parent]? = some par) :
    tagLoop (fuel + 1) st (p.int 2 ++ ((encType p st.strings t).1 ++ r)) =
      tagLoop fuel { st with strings := (encType p st.strings t).2, types := st.types ++ [toT par t] } r := by
  simp only [tagLoop, readInt p 2 _ (by decide), readType_enc p st t par r h hp]
  rfl

theorem tagLoop_object (p : Enc) (fuel : Nat) (st st' : St) (o : Obj) (b r : Bytes)
    (h : readObject (maxArrayDepth + 1) st (b ++ r) = some (o, st', r)) :
    tagLoop (fuel + 1) st (p.int 4 ++ (b ++ r)) = tagLoop fuel { st' with objs := st'.objs ++ [o] } r := by
  simp only [tagLoop, readInt p 4 _ (by decide), h]
  rfl

theorem tagLoop_end (p : Enc) (fuel : Nat) (st : St) (r : Bytes) :
    tagLoop (fuel + 1) st (p.int 7 ++ r) = some st := by
  simp only [tagLoop, readInt p 7 _ (by decide)]
  rfl

theorem encItems_length (p : Enc) : ∀ (items : List Item) (tbl : List Bytes) (decls : List TypeDecl),
    items.length ≤ (encItems p tbl decls items).length := by
  intro items
  induction items with
  | nil => intro _ _; simp [encItems]
  | cons it rest ih =>
    intro tbl decls
    cases it with
    | type t =>
      simp only [encItems, List.length_cons, List.length_append]
      have := ih (encType p tbl t).2 (decls ++ [t])
      have := int_length_pos p 2
      omega
    | obj ty fs =>
      simp only [encItems, List.length_cons, List.length_append]
      have := ih (encFields p tbl ((membersOf decls ty).map (·.ty)) fs).2 decls
      have := int_length_pos p 4
      omega

end Physis.Havok
