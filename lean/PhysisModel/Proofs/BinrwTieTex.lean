import PhysisModel.Proofs.BinrwLemmas
import PhysisModel.Generated.BinrwTex
import PhysisModel.Model.Tex
/-!
T4 for `src/tex.rs` (C13): `TexHeader` (`#[brw(little)]`; `TextureAttribute` — a `bitflags!` struct
over `u32` — read as a plain u32, `TextureFormat` `repr = u32`, four u16, `[u32; 3]`, `[u32; 13]`)
against `Tex.readHeader`, which destructures the first 16 bytes at once.
Two steps as in `Proofs/BinrwTieIndex.lean`.
-/
namespace Physis.BinrwTie.Tex
open Physis Physis.Binrw Physis.Reader Physis.Generated
open Physis.Tex (TextureFormat TexHeader)

namespace Expected
def texHeader : Layout :=
  .mk (some .little) .none [
    .mk "attribute" none .none 0 (.prim .u32) 0 0,
    .mk "format" none .none 0 (.enum .u32 [0x1440, 0x1450, 0x3420, 0x3431, 0x6230]) 0 0,
    .mk "width" none .none 0 (.prim .u16) 0 0,
    .mk "height" none .none 0 (.prim .u16) 0 0,
    .mk "depth" none .none 0 (.prim .u16) 0 0,
    .mk "mip_levels" none .none 0 (.prim .u16) 0 0,
    .mk "lod_offsets" none .none 0 (.array (.lit 3) (.prim .u32)) 0 0,
    .mk "offset_to_surface" none .none 0 (.array (.lit 13) (.prim .u32)) 0 0] true
end Expected

/-- step 2 (re-checked on every run; the ambient `.big` is deliberately the wrong endianness) -/
theorem texHeader_generated :
    BinrwTex.texHeader.normalizeAt .big = Expected.texHeader.normalizeAt .big := rfl

def u32OfV : Value → Option UInt32
  | .w32 .u32 v => some v
  | _ => none

def texHeaderOf : List Value → Option TexHeader
  | [.w32 .u32 attrs, .w32 .u32 f, .w16 .u16 w, .w16 .u16 h, .w16 .u16 d, .w16 .u16 m, .list lods, .list surf] =>
    (TextureFormat.ofU32 f).bind fun fmt =>
    (projAll u32OfV lods).bind fun lods =>
    (projAll u32OfV surf).bind fun surf => some ⟨attrs, fmt, w, h, d, m, lods, surf⟩
  | _ => none

theorem format_valid (v : UInt32) :
    ([0x1440, 0x1450, 0x3420, 0x3431, 0x6230] : List Nat).contains v.toNat = (TextureFormat.ofU32 v).isSome := by
  unfold TextureFormat.ofU32
  by_cases h1 : v = 0x1440
  · subst h1; rfl
  by_cases h2 : v = 0x1450
  · subst h2; rfl
  by_cases h3 : v = 0x3420
  · subst h3; rfl
  by_cases h4 : v = 0x3431
  · subst h4; rfl
  by_cases h5 : v = 0x6230
  · subst h5; rfl
  have n1 : v.toNat ≠ 0x1440 := fun h => h1 (UInt32.toNat_inj.mp h)
  have n2 : v.toNat ≠ 0x1450 := fun h => h2 (UInt32.toNat_inj.mp h)
  have n3 : v.toNat ≠ 0x3420 := fun h => h3 (UInt32.toNat_inj.mp h)
  have n4 : v.toNat ≠ 0x3431 := fun h => h4 (UInt32.toNat_inj.mp h)
  have n5 : v.toNat ≠ 0x6230 := fun h => h5 (UInt32.toNat_inj.mp h)
  simp [h1, h2, h3, h4, h5, n1, n2, n3, n4, n5]

theorem readU32s_zero (l : Bytes) : Tex.readU32s 0 l = some ([], l) := rfl
theorem readU32s_succ (n : Nat) (l : Bytes) :
    Tex.readU32s (n + 1) l =
      (Reader.u32le l).bind fun x => (Tex.readU32s n x.2).bind fun y => some (x.1 :: y.1, y.2) := by
  rcases l with _ | ⟨a, _ | ⟨b, _ | ⟨c, _ | ⟨d, r⟩⟩⟩⟩ <;> try rfl
  simp only [Tex.readU32s, Reader.u32le, Option.bind_some]
  cases Tex.readU32s n r <;> rfl

/-- the model's 16-byte destructuring is the six sequential reads (also on truncated input) -/
theorem readHeader_unfold (buffer : Bytes) :
    Tex.readHeader buffer =
      (u32le buffer).bind fun a => (u32le a.2).bind fun f => (u16le f.2).bind fun w => (u16le w.2).bind fun h =>
      (u16le h.2).bind fun d => (u16le d.2).bind fun m =>
      (TextureFormat.ofU32 f.1).bind fun fmt =>
      (Tex.readU32s 3 m.2).bind fun lods => (Tex.readU32s 13 lods.2).bind fun surf =>
        some (⟨a.1, fmt, w.1, h.1, d.1, m.1, lods.1, surf.1⟩, surf.2) := by
  iterate 16 (rcases buffer with _ | ⟨_, buffer⟩; · rfl)
  simp only [Tex.readHeader, u32le, u16le, Option.bind_some, Tex.u32le, Tex.u16le]
  cases TextureFormat.ofU32 _ with
  | none => rfl
  | some fmt =>
    simp only [Option.bind_some]
    cases Tex.readU32s 3 buffer with
    | none => rfl
    | some lods =>
      simp only [Option.bind_some]
      cases Tex.readU32s 13 lods.2 <;> rfl

theorem readHeader_eq_expected (buffer : Bytes) :
    Tex.readHeader buffer = via texHeaderOf (Layout.read .big Expected.texHeader buffer) := by
  rw [readHeader_unfold]
  binrw_norm [Expected.texHeader, format_valid, readU32s_succ, readU32s_zero]
  cases u32le buffer with
  | none => rfl
  | some a =>
  simp only [Option.bind_some]
  cases u32le a.2 with
  | none => rfl
  | some f =>
  simp only [Option.bind_some]
  cases hf : TextureFormat.ofU32 f.1 with
  | none =>
    simp only [Option.isSome_none, Bool.false_eq_true, if_false, Option.bind_none]
    cases u16le f.2 with
    | none => rfl
    | some w =>
    simp only [Option.bind_some]
    cases u16le w.2 with
    | none => rfl
    | some h =>
    simp only [Option.bind_some]
    cases u16le h.2 with
    | none => rfl
    | some d =>
    simp only [Option.bind_some]
    cases u16le d.2 <;> rfl
  | some fmt =>
    simp only [Option.isSome_some, if_true, Option.bind_some, texHeaderOf, hf, projAll, u32OfV, Option.map_some]

theorem readHeader_eq_generated (buffer : Bytes) :
    Tex.readHeader buffer = via texHeaderOf (Layout.read .big BinrwTex.texHeader buffer) :=
  tie readHeader_eq_expected texHeader_generated buffer

end Physis.BinrwTie.Tex
