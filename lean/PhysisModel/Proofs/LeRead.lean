import PhysisModel.Model.LeRead
import Std.Tactic.BVDecide
/-! Read-after-write lemmas for the sequential little-endian readers. -/
namespace Physis.LeRead

theorem takeU8_cons (a : UInt8) (rest : Bytes) : takeU8 (a :: rest) = some (a, rest) := rfl

theorem takeU16_put (v : UInt16) (rest : Bytes) : takeU16 (putU16le v ++ rest) = some (v, rest) := by
  simp only [putU16le, takeU16, List.cons_append, List.nil_append]
  congr 2; bv_decide (timeout := 300)

theorem takeU32_put (v : UInt32) (rest : Bytes) : takeU32 (putU32le v ++ rest) = some (v, rest) := by
  simp only [putU32le, takeU32, List.cons_append, List.nil_append]
  congr 2; bv_decide (timeout := 300)

theorem takeU64_put (v : UInt64) (rest : Bytes) : takeU64 (putU64le v ++ rest) = some (v, rest) := by
  simp only [putU64le, takeU64, List.cons_append, List.nil_append]
  congr 2; bv_decide (timeout := 300)

theorem takeN_append (l rest : Bytes) (n : Nat) (h : l.length = n) : takeN n (l ++ rest) = some (l, rest) := by
  subst h; simp [takeN]

end Physis.LeRead
