import PhysisModel.Proofs.MdlRep
/-!
# C07 — `Rep` holds initially and is preserved by the covered edits

* `small_of_wf`, `rep_initial` — the model parsed from `encodeMdl a` represents `a`
  (`keys_partsOf` / `keys_lodsView`: the keys of the reported parts are `specKeys`).
* `rep_replace`, `rep_removeShapes`, `rep_step` — one covered edit step keeps `Rep` and `Small`;
  the final `update_headers` call is transported with the hypothesis `UpdateStrip`.
* `rep_history` — histories.

Ingredients: `strip_allMeshRows` (the stripped mesh table is `sRows 0 (allMeshes a)`: it depends
only on the running sub-mesh index and the mesh), `specKeys_getElem?` / `specKeys_set`, `flat_set`
(the flat mesh list after a `replace`), `subTable_split` + `subsFold` (the sub-mesh loop of
`replace_vertices` computes `updSubs` in place), `strip_lodRows` (LOD rows up to offsets / sizes),
`stripMD_set_lods`, `stripMD_clear` (the abstract header tables after the two edits).
-/
namespace Physis.Mdl
open Physis Physis.Spec.Mdl

/-- what `update_headers` keeps (proved elsewhere; a hypothesis here) -/
def UpdateStrip : Prop := ∀ {m m' : MDL}, updateHeaders m = .ok m' →
    stripMD m'.modelData = stripMD m.modelData ∧ stripFH m'.fileHeader = stripFH m.fileHeader ∧
    m'.lods = m.lods ∧ m'.affectedBoneNames = m.affectedBoneNames ∧
    m'.materialNames = m.materialNames

/-- sizes that keep the `u16` / `u8` table indices exact -/
def Small (a : AbstractModel) : Prop :=
  (allMeshes a).length < 65536 ∧
  ((allMeshes a).map (fun (x : AMesh) => x.submeshes.length)).sum < 65536 ∧
  ∀ x ∈ allMeshes a, x.streams.length ≤ 3

theorem small_of_wf (a : AbstractModel) (h : WF a = true) : Small a := by
  have W := wf_facts a h
  refine ⟨W.nMesh, W.nSub, fun x hx => ?_⟩
  simp only [allMeshes, List.mem_flatMap] at hx
  obtain ⟨l, hl, hx⟩ := hx
  exact (mesh_facts x (W.meshOk l hl x hx)).s3

/-! ### the initial state -/

theorem subIdx_map (sb : Nat) (l : List Submesh) :
    ((List.zip (List.range l.length) l).map
        (fun (i, s) => (⟨sb + i, s.indexCount, s.indexOffset⟩ : SubMeshView))).map
      (·.submeshIndex) = (List.range l.length).map (sb + ·) := by
  rw [List.map_map, zip_range_map]
  rfl

theorem keys_partsOf (m : AbstractModel) (lodIx : Nat) (suf : List AMesh) :
    ∀ (mb ib sb : Nat) (ps : List Part), partsOf m lodIx mb ib sb suf = some ps →
      ps.map partKey = specKeysLod mb sb suf := by
  induction suf with
  | nil =>
    intro mb ib sb ps hp
    simp only [partsOf, Option.some.injEq] at hp
    subst hp
    rfl
  | cons mesh rest ih =>
    intro mb ib sb ps hp
    cases hsh : shapesOf m lodIx ib mesh with
    | none => simp [partsOf, hsh] at hp
    | some sh =>
      cases htl : partsOf m lodIx (mb + 1) (ib + meshIndexWords mesh) (sb + mesh.submeshes.length) rest with
      | none => simp [partsOf, hsh, htl] at hp
      | some tail =>
        simp only [partsOf, hsh, htl, Option.bind_eq_bind, Option.bind_some, Option.some.injEq] at hp
        subst hp
        rw [List.map_cons, ih _ _ _ tail htl, specKeysLod]
        congr 1
        simp only [partKey]
        rw [subIdx_map]

theorem keys_lodsView (m : AbstractModel) (suf : List ALod) :
    ∀ (n mb sb : Nat) (ls : List (List Part)), lodsView m n mb sb suf = some ls →
      ls.map (·.map partKey) = specKeys n mb sb suf := by
  induction suf with
  | nil =>
    intro n mb sb ls hv
    simp only [lodsView, Option.some.injEq] at hv
    subst hv
    simp [specKeys]
  | cons l rest ih =>
    intro n mb sb ls hv
    cases n with
    | zero =>
      simp only [lodsView, Option.some.injEq] at hv
      subst hv
      simp [specKeys]
    | succ n =>
      cases hp : partsOf m (m.lodCount.toNat - (n + 1)) mb 0 sb l.meshes with
      | none => simp [lodsView, hp] at hv
      | some ps0 =>
        cases htl : lodsView m n (mb + l.meshes.length)
            (sb + (l.meshes.map (fun (x : AMesh) => x.submeshes.length)).sum) rest with
        | none => simp [lodsView, hp, htl] at hv
        | some tail =>
          simp only [lodsView, hp, htl, Option.bind_eq_bind, Option.bind_some,
            Option.some.injEq] at hv
          subst hv
          rw [List.map_cons, keys_partsOf m _ _ _ _ _ _ hp, ih _ _ _ tail htl, specKeys]
          rfl

set_option linter.unusedVariables false in
/-- the model parsed from `encodeMdl a` represents `a` -/
theorem rep_initial (a : AbstractModel) (h : WF a = true) (v : View) (hv : view a = some v) :
    Rep a { fileHeader := fileHeader a, modelData := modelData a, lods := v.lods,
            affectedBoneNames := v.affectedBoneNames, materialNames := v.materialNames } := by
  unfold view at hv
  cases hl : lodsView a a.lodCount.toNat 0 0 a.lods with
  | none => simp [hl] at hv
  | some ls =>
    simp only [hl, Option.bind_eq_bind, Option.bind_some, Option.some.injEq] at hv
    subst hv
    exact ⟨rfl, rfl, keys_lodsView a a.lods _ 0 0 ls hl, rfl, rfl⟩


/-! ### stripped mesh rows -/

/-- the stripped mesh row: depends only on the running sub-mesh index and the mesh -/
def sRow (s : Nat) (x : AMesh) : Mesh :=
  { vertexCount := x.vertexCount
    indexCount := x.indices.length.toUInt32
    materialIndex := x.materialIndex
    submeshIndex := s.toUInt16
    submeshCount := x.submeshes.length.toUInt16
    boneTableIndex := x.boneTableIndex
    startIndex := 0
    vertexBufferOffsets := ⟨0, 0, 0⟩
    vertexBufferStrides := Arr3.ofList 0 (x.streams.map (·.stride))
    vertexStreamCount := x.streams.length.toUInt8 }

theorem strip_meshRow (v i s : Nat) (x : AMesh) (h3 : x.streams.length ≤ 3) :
    stripMesh (meshRow v i s x) = sRow s x := by
  obtain ⟨decl, vc, streams, ind, pad, mi, bt, subs⟩ := x
  simp only at h3
  rcases streams with _ | ⟨a, _ | ⟨b, _ | ⟨c, _ | ⟨d, t⟩⟩⟩⟩
  · rfl
  · rfl
  · rfl
  · rfl
  · simp at h3

def sRows : Nat → List AMesh → List Mesh
  | _, [] => []
  | s, x :: rest => sRow s x :: sRows (s + x.submeshes.length) rest

theorem strip_meshRows (l : List AMesh) : ∀ (v i s : Nat), (∀ x ∈ l, x.streams.length ≤ 3) →
    (meshRows v i s l).map stripMesh = sRows s l := by
  induction l with
  | nil => intros; rfl
  | cons x xs ih =>
    intro v i s h
    have := strip_meshRow v i s x (h x (by simp))
    rw [meshRows, List.map_cons, ih _ _ _ (fun y hy => h y (by simp [hy])), sRows, ← this]
    rfl

theorem sRows_append (xs ys : List AMesh) : ∀ s,
    sRows s (xs ++ ys) = sRows s xs ++ sRows (s + (xs.map (fun (x : AMesh) => x.submeshes.length)).sum) ys := by
  induction xs with
  | nil => intro s; simp [sRows]
  | cons x xs ih =>
    intro s
    simp only [List.cons_append, sRows, ih, List.map_cons, List.sum_cons, Nat.add_assoc]

theorem strip_allMeshRows (lods : List ALod) : ∀ sb,
    (∀ x ∈ lods.flatMap (·.meshes), x.streams.length ≤ 3) →
    (allMeshRows sb lods).map stripMesh = sRows sb (lods.flatMap (·.meshes)) := by
  induction lods with
  | nil => intros; rfl
  | cons l rest ih =>
    intro sb h
    rw [allMeshRows, List.map_append, List.flatMap_cons, sRows_append,
      strip_meshRows _ _ _ _ (fun x hx => h x (by simp [hx])),
      ih _ (fun x hx => h x (by rw [List.flatMap_cons]; exact List.mem_append_right _ hx))]

theorem sRows_getElem? (l : List AMesh) : ∀ (d s : Nat) (x : AMesh), l[d]? = some x →
    (sRows s l)[d]? = some (sRow (s + psum subLen l d) x) := by
  induction l with
  | nil => intro d _ x h; simp at h
  | cons y ys ih =>
    intro d s x h
    cases d with
    | zero => simp at h; subst h; simp [sRows]
    | succ d =>
      simp only [List.getElem?_cons_succ] at h
      simp only [sRows, List.getElem?_cons_succ, psum_cons_succ]
      rw [ih d _ x h, subLen, Nat.add_assoc]

theorem sRows_set (l : List AMesh) : ∀ (d s : Nat) (x x' : AMesh), l[d]? = some x →
    x'.submeshes.length = x.submeshes.length →
    sRows s (l.set d x') = (sRows s l).set d (sRow (s + psum subLen l d) x') := by
  induction l with
  | nil => intro d _ x _ h; simp at h
  | cons y ys ih =>
    intro d s x x' h hx
    cases d with
    | zero => simp at h; subst h; simp [sRows, hx]
    | succ d =>
      simp only [List.getElem?_cons_succ] at h
      simp only [List.set_cons_succ, sRows, psum_cons_succ]
      rw [ih d _ x x' h hx, subLen, Nat.add_assoc]


/-! ### the part keys, entry by entry -/

def keyOf (mb sb : Nat) (mesh : AMesh) : UInt16 × List Vertex × List UInt16 × List Nat :=
  (mb.toUInt16, verticesOf mesh, mesh.indices, (List.range mesh.submeshes.length).map (sb + ·))

theorem specKeysLod_getElem? (l : List AMesh) : ∀ (d mb sb : Nat) (x : AMesh), l[d]? = some x →
    (specKeysLod mb sb l)[d]? = some (keyOf (mb + d) (sb + psum subLen l d) x) := by
  induction l with
  | nil => intro d _ _ x h; simp at h
  | cons y ys ih =>
    intro d mb sb x h
    cases d with
    | zero => simp at h; subst h; simp [specKeysLod, keyOf]
    | succ d =>
      simp only [List.getElem?_cons_succ] at h
      simp only [specKeysLod, List.getElem?_cons_succ, psum_cons_succ]
      rw [ih d _ _ x h, subLen, Nat.add_assoc, Nat.add_assoc, Nat.add_comm 1 d]

theorem specKeysLod_set (l : List AMesh) : ∀ (d mb sb : Nat) (x x' : AMesh), l[d]? = some x →
    x'.submeshes.length = x.submeshes.length →
    specKeysLod mb sb (l.set d x') =
      (specKeysLod mb sb l).set d (keyOf (mb + d) (sb + psum subLen l d) x') := by
  induction l with
  | nil => intro d _ _ x _ h; simp at h
  | cons y ys ih =>
    intro d mb sb x x' h hx
    cases d with
    | zero => simp at h; subst h; simp [specKeysLod, keyOf, hx]
    | succ d =>
      simp only [List.getElem?_cons_succ] at h
      simp only [List.set_cons_succ, specKeysLod, psum_cons_succ]
      rw [ih d _ _ x x' h hx, subLen, Nat.add_assoc, Nat.add_assoc, Nat.add_comm 1 d]

theorem specKeys_getElem? (lods : List ALod) : ∀ (i n mb sb : Nat) (l : ALod), lods[i]? = some l →
    i < n →
    (specKeys n mb sb lods)[i]? =
      some (specKeysLod (mb + psum meshCountOf lods i) (sb + psum lodSubCount lods i) l.meshes) := by
  induction lods with
  | nil => intro i _ _ _ l h; simp at h
  | cons y ys ih =>
    intro i n mb sb l h hn
    cases n with
    | zero => omega
    | succ n =>
      cases i with
      | zero => simp at h; subst h; simp [specKeys]
      | succ i =>
        simp only [List.getElem?_cons_succ] at h
        simp only [specKeys, List.getElem?_cons_succ, psum_cons_succ]
        rw [ih i n _ _ l h (by omega), meshCountOf, Nat.add_assoc, Nat.add_assoc]

theorem specKeys_set (lods : List ALod) : ∀ (i n mb sb : Nat) (l l' : ALod), lods[i]? = some l →
    i < n → l'.meshes.length = l.meshes.length → lodSubCount l' = lodSubCount l →
    specKeys n mb sb (lods.set i l') =
      (specKeys n mb sb lods).set i
        (specKeysLod (mb + psum meshCountOf lods i) (sb + psum lodSubCount lods i) l'.meshes) := by
  induction lods with
  | nil => intro i _ _ _ l _ h; simp at h
  | cons y ys ih =>
    intro i n mb sb l l' h hn h1 h2
    cases n with
    | zero => omega
    | succ n =>
      cases i with
      | zero => simp at h; subst h; simp [specKeys, h1, h2]
      | succ i =>
        simp only [List.getElem?_cons_succ] at h
        simp only [List.set_cons_succ, specKeys, psum_cons_succ]
        rw [ih i n _ _ l l' h (by omega) h1 h2, meshCountOf, Nat.add_assoc, Nat.add_assoc]

/-! ### the flat mesh list -/

theorem flat_set (lods : List ALod) : ∀ (i : Nat) (l : ALod) (d : Nat) (x' : AMesh),
    lods[i]? = some l → d < l.meshes.length →
    (lods.set i { l with meshes := l.meshes.set d x' }).flatMap (·.meshes) =
      (lods.flatMap (·.meshes)).set (psum meshCountOf lods i + d) x' := by
  induction lods with
  | nil => intro i l _ _ h; simp at h
  | cons y ys ih =>
    intro i l d x' h hd
    cases i with
    | zero =>
      simp at h; subst h
      simp only [List.set_cons_zero, List.flatMap_cons, psum_zero, Nat.zero_add]
      rw [List.set_append_left _ _ hd]
    | succ i =>
      simp only [List.getElem?_cons_succ] at h
      simp only [List.set_cons_succ, List.flatMap_cons, psum_cons_succ]
      rw [ih i l d x' h hd, List.set_append_right _ _ (by rw [meshCountOf]; omega), meshCountOf,
        show y.meshes.length + psum meshCountOf ys i + d - y.meshes.length = psum meshCountOf ys i + d by omega]

theorem psum_flat (lods : List ALod) (i : Nat) (l : ALod) (d : Nat) (hl : lods[i]? = some l)
    (hd : d ≤ l.meshes.length) :
    psum subLen (lods.flatMap (·.meshes)) (psum meshCountOf lods i + d) =
      psum lodSubCount lods i + psum subLen l.meshes d := by
  have h := flatMap_take (fun (l : ALod) => l.meshes) meshCountOf (fun _ => rfl) lods i l d hl hd
  show (((lods.flatMap (·.meshes)).take (psum meshCountOf lods i + d)).map subLen).sum = _
  rw [h, List.map_append, List.sum_append, sum_map_flatMap]
  rfl

/-- the flat sub-mesh table around the sub-meshes of one mesh -/
theorem subTable_split (L : List AMesh) : ∀ (j : Nat) (x : AMesh), L[j]? = some x →
    ∃ pre post, L.flatMap (fun (x : AMesh) => x.submeshes) = pre ++ (x.submeshes ++ post) ∧
      (∀ x' : AMesh, (L.set j x').flatMap (fun (x : AMesh) => x.submeshes) =
        pre ++ (x'.submeshes ++ post)) ∧
      pre.length = psum subLen L j := by
  induction L with
  | nil => intro j x h; simp at h
  | cons y ys ih =>
    intro j x h
    cases j with
    | zero =>
      simp at h; subst h
      exact ⟨[], ys.flatMap (fun (x : AMesh) => x.submeshes), by simp, fun x' => by simp, by simp⟩
    | succ j =>
      simp only [List.getElem?_cons_succ] at h
      obtain ⟨pre, post, h1, h2, h3⟩ := ih j x h
      refine ⟨y.submeshes ++ pre, post, ?_, fun x' => ?_, ?_⟩
      · rw [List.flatMap_cons, h1, List.append_assoc]
      · rw [List.set_cons_succ, List.flatMap_cons, h2 x', List.append_assoc]
      · rw [List.length_append, h3, psum_cons_succ]; rfl

/-! ### the sub-mesh loop of `replace_vertices` -/

private theorem updSubs_nil_left (subs : List (UInt32 × UInt32)) : updSubs [] subs = [] := by
  cases subs <;> rfl

private theorem updSubs_nil_right (ss : List Submesh) : updSubs ss [] = ss := by
  cases ss <;> rfl

private theorem length_updSubs (ss : List Submesh) : ∀ subs, (updSubs ss subs).length = ss.length := by
  induction ss with
  | nil => intro subs; rw [updSubs_nil_left]
  | cons s ss ih =>
    intro subs
    cases subs with
    | nil => rw [updSubs_nil_right]
    | cons p rest => obtain ⟨o, c⟩ := p; simp [updSubs, ih]

private theorem setAt_inv {l r : List α} {i : Nat} {f : α → α} (h : setAt l i f = .ok r) :
    ∃ a, l[i]? = some a ∧ r = l.set i (f a) := by
  unfold setAt at h
  split at h
  · cases h; exact ⟨_, by assumption, rfl⟩
  · cases h

theorem subsFold (subs : List (UInt32 × UInt32))
    (f : List Submesh → Nat × SubMeshView → R (List Submesh))
    (hf : ∀ tbl i sv, f tbl (i, sv) = match subs[i]? with
      | some (off, cnt) => setAt tbl sv.submeshIndex (fun s => { s with indexOffset := off, indexCount := cnt })
      | none => pure tbl) :
    ∀ (ss : List Submesh) (svs : List SubMeshView) (o : Nat) (pre post r : List Submesh),
      svs.length = ss.length →
      (∀ i sv, svs[i]? = some sv → sv.submeshIndex = pre.length + i) →
      (List.zip (List.range' o svs.length) svs).foldlM f (pre ++ (ss ++ post)) = .ok r →
      r = pre ++ (updSubs ss (subs.drop o) ++ post) := by
  intro ss
  induction ss with
  | nil =>
    intro svs o pre post r hlen _ h
    have : svs = [] := by simpa using hlen
    subst this
    cases h
    rw [updSubs_nil_left]
  | cons s ss ih =>
    intro svs o pre post r hlen hidx h
    cases svs with
    | nil => simp at hlen
    | cons sv svs =>
      rw [List.length_cons, List.range'_succ, List.zip_cons_cons, List.foldlM_cons] at h
      obtain ⟨t1, h1, h⟩ := bind_ok h
      have hsv : sv.submeshIndex = pre.length := by simpa using hidx 0 sv rfl
      have hidx' : ∀ i sv', svs[i]? = some sv' → sv'.submeshIndex = (pre ++ [s]).length + i := by
        intro i sv' hi
        have := hidx (i + 1) sv' (by simpa using hi)
        rw [this]; simp; omega
      have hlen' : svs.length = ss.length := by simpa using hlen
      rw [hf] at h1
      cases hsub : subs[o]? with
      | none =>
        rw [hsub] at h1
        cases h1
        have ho : subs.length ≤ o := by simpa using hsub
        have := ih svs (o + 1) (pre ++ [s]) post r hlen' hidx' (by simpa using h)
        rw [this, List.drop_eq_nil_of_le ho, List.drop_eq_nil_of_le (by omega), updSubs_nil_right,
          updSubs_nil_right]
        simp
      | some p =>
        obtain ⟨off, cnt⟩ := p
        rw [hsub] at h1
        obtain ⟨a, ha, ht1⟩ := setAt_inv h1
        rw [hsv] at ha ht1
        have ha' : s = a := by simpa using ha
        subst ha'
        have ho : o < subs.length := by
          rcases Nat.lt_or_ge o subs.length with hlt | hge
          · exact hlt
          · simp [List.getElem?_eq_none hge] at hsub
        have hd : subs.drop o = (off, cnt) :: subs.drop (o + 1) := by
          rw [List.drop_eq_getElem_cons ho]
          have := List.getElem?_eq_getElem ho
          rw [hsub] at this
          rw [← Option.some.inj this]
        have ht1' : t1 = (pre ++ [{ s with indexOffset := off, indexCount := cnt }]) ++ (ss ++ post) := by
          rw [ht1]; simp
        rw [ht1'] at h
        have hidx'' : ∀ i sv', svs[i]? = some sv' →
            sv'.submeshIndex = (pre ++ [{ s with indexOffset := off, indexCount := cnt }]).length + i := by
          intro i sv' hi
          rw [hidx' i sv' hi]; simp
        have := ih svs (o + 1) _ post r hlen' hidx'' h
        rw [this, hd, updSubs]
        simp


/-! ### LOD rows up to offsets -/

def lodKey (l : ALod) : Nat × Bytes × UInt32 := (l.meshes.length, l.mid, l.polygonCount)

theorem strip_lodRows (lods : List ALod) : ∀ (lods' : List ALod) (mb off off' : Nat),
    lods'.map lodKey = lods.map lodKey →
    (lodRows mb off' lods').map stripLod = (lodRows mb off lods).map stripLod := by
  induction lods with
  | nil =>
    intro lods' mb off off' h
    have : lods' = [] := by simpa using h
    subst this; rfl
  | cons l rest ih =>
    intro lods' mb off off' h
    cases lods' with
    | nil => simp at h
    | cons l' rest' =>
      simp only [List.map_cons, List.cons.injEq, lodKey, Prod.mk.injEq] at h
      obtain ⟨⟨h1, h2, h3⟩, h4⟩ := h
      simp only [lodRows, List.map_cons, stripLod, h1, h2, h3]
      rw [ih rest' _ _ _ h4]

theorem stripMD_set_lods (a : AbstractModel) (lods' : List ALod) (ds ds' : Nat)
    (hd : (lods'.flatMap (·.meshes)).map (fun (x : AMesh) => x.decl) =
      (allMeshes a).map (fun (x : AMesh) => x.decl))
    (hn : (lods'.flatMap (·.meshes)).length = (allMeshes a).length)
    (hs : ((lods'.flatMap (·.meshes)).map (fun (x : AMesh) => x.submeshes.length)).sum =
      ((allMeshes a).map (fun (x : AMesh) => x.submeshes.length)).sum)
    (hl : (lodRows 0 ds' lods').map stripLod = (lodRows 0 ds a.lods).map stripLod) :
    stripMD (modelDataAt { a with lods := lods' } ds') =
      { stripMD (modelDataAt a ds) with
          meshes := (allMeshRows 0 lods').map stripMesh
          submeshes := (lods'.flatMap (·.meshes)).flatMap (fun (x : AMesh) => x.submeshes) } := by
  simp only [stripMD, modelDataAt, stripHeader, allMeshes, hd, hn, hs, hl]
  rfl


/-! ### `remove_shape_meshes` on the abstract side -/

def clearA (s : AShape) : AShape :=
  { s with shapeMeshStartIndex := Arr3.rep 0, shapeMeshCount := Arr3.rep 0 }
def clearS (s : ShapeStruct) : ShapeStruct :=
  { s with shapeMeshCount := Arr3.rep 0, shapeMeshStartIndex := Arr3.rep 0 }

theorem names_clear (l : List AShape) : (l.map clearA).map (·.name) = l.map (·.name) := by
  rw [List.map_map]; rfl

theorem shapeRows_clear (a : AbstractModel) (sm : List ShapeMesh) (sv : List ShapeValue) :
    shapeRows { a with shapeMeshes := sm, shapeValues := sv, shapes := a.shapes.map clearA } =
      (shapeRows a).map clearS := by
  simp only [shapeRows, shapeBase, materialBase, boneBase, List.zip_map_right, List.map_map]
  rfl

theorem stripMD_clear (a : AbstractModel) (ds ds' : Nat) :
    stripMD (modelDataAt
        { a with shapeMeshes := [], shapeValues := [], shapes := a.shapes.map clearA } ds') =
      { stripMD (modelDataAt a ds) with
          shapeMeshes := [], shapeValues := [], shapes := (shapeRows a).map clearS } := by
  have hl := strip_lodRows a.lods a.lods 0 ds ds' rfl
  have hsr := shapeRows_clear a [] []
  simp only [stripMD, modelDataAt, stripHeader, allMeshes, allNames, stringTable, names_clear,
    hl, hsr]
  rfl


/-! ### small list facts -/

private theorem set_self {l : List α} {i : Nat} {x : α} (h : l[i]? = some x) : l.set i x = l := by
  obtain ⟨hi, rfl⟩ := List.getElem?_eq_some_iff.mp h
  exact List.set_getElem_self hi

private theorem map_set_same (f : α → β) {l : List α} {i : Nat} {x x' : α} (h : l[i]? = some x)
    (hx : f x' = f x) : (l.set i x').map f = l.map f := by
  rw [List.map_set, hx, set_self (by rw [List.getElem?_map, h]; rfl)]

theorem stripFH_fileHeader (a : AbstractModel) :
    stripFH (fileHeader a) =
      ⟨a.version, 0, 0, (allMeshes a).length.toUInt16, a.fileMaterialCount, Arr3.rep 0, Arr3.rep 0,
        Arr3.rep 0, Arr3.rep 0, 0, a.indexBufferStreamingEnabled, a.hasEdgeGeometry⟩ := rfl

/-! ### one step: `replace_vertices` -/

/-- the mesh after `replace` -/
def replMesh (mesh : AMesh) (vc : UInt16) (streams : List AStream) (indices : List UInt16)
    (subs : List (UInt32 × UInt32)) : AMesh :=
  { mesh with vertexCount := vc, streams := streams, indices := indices, indexPad := 0,
              submeshes := updSubs mesh.submeshes subs }

/-- the model after `replace` -/
def replLod (l : ALod) (part : Nat) (x : AMesh) : ALod := { l with meshes := l.meshes.set part x }
def replModel (a : AbstractModel) (lod : Nat) (l : ALod) (part : Nat) (x : AMesh) : AbstractModel :=
  { a with lods := a.lods.set lod (replLod l part x) }

theorem allMeshes_repl (a : AbstractModel) (lod : Nat) (l : ALod) (part : Nat) (x : AMesh) :
    allMeshes (replModel a lod l part x) = (a.lods.set lod (replLod l part x)).flatMap (·.meshes) := rfl

theorem replLod_meshes (l : ALod) (part : Nat) (x : AMesh) :
    (replLod l part x).meshes = l.meshes.set part x := rfl

private theorem length_verticesOf (x : AMesh) : (verticesOf x).length = x.vertexCount.toNat := by
  simp [verticesOf]

theorem rep_replace (US : UpdateStrip) (a : AbstractModel) (m m' : MDL) (lod part : Nat)
    (vc : UInt16) (streams : List AStream) (indices : List UInt16) (subs : List (UInt32 × UInt32))
    (l : ALod) (mesh : AMesh) (hl : a.lods[lod]? = some l) (hmesh : l.meshes[part]? = some mesh)
    (hlc : lod < a.lodCount.toNat)
    (hstr : streams.map (·.stride) = mesh.streams.map (·.stride))
    (hs : Small a) (hrep : Rep a m)
    (hm : replaceVertices m lod part
      (verticesOf { mesh with vertexCount := vc, streams := streams }) indices subs = .ok m') :
    Rep (replModel a lod l part (replMesh mesh vc streams indices subs)) m' ∧
      Small (replModel a lod l part (replMesh mesh vc streams indices subs)) := by
  obtain ⟨hnM, hnS, hs3⟩ := hs
  -- abstract side
  have hj := allMeshes_getElem? a lod l hl part mesh hmesh
  have hjlt := lt_of_getElem? hj
  have hpart : part < l.meshes.length := lt_of_getElem? hmesh
  have hsub' : (replMesh mesh vc streams indices subs).submeshes.length = mesh.submeshes.length :=
    length_updSubs _ _
  have hstrl : streams.length = mesh.streams.length := by
    simpa using congrArg List.length hstr
  have hflat : (a.lods.set lod (replLod l part (replMesh mesh vc streams indices subs))).flatMap
      (·.meshes) =
      (allMeshes a).set (psum meshCountOf a.lods lod + part) (replMesh mesh vc streams indices subs) :=
    flat_set a.lods lod l part _ hl hpart
  have hlen : ((allMeshes a).set (psum meshCountOf a.lods lod + part)
      (replMesh mesh vc streams indices subs)).length = (allMeshes a).length := List.length_set
  have hsum := congrArg List.sum (map_set_same (fun (x : AMesh) => x.submeshes.length) hj hsub')
  have hdecl := map_set_same (fun (x : AMesh) => x.decl) (x' := replMesh mesh vc streams indices subs)
    hj rfl
  have hs3' : ∀ x ∈ (allMeshes a).set (psum meshCountOf a.lods lod + part)
      (replMesh mesh vc streams indices subs), x.streams.length ≤ 3 := by
    intro x hx
    rcases List.mem_or_eq_of_mem_set hx with h | rfl
    · exact hs3 x h
    · have := hs3 mesh (mem_of_getElem? hj)
      show streams.length ≤ 3
      omega
  have hsmall : Small (replModel a lod l part (replMesh mesh vc streams indices subs)) := by
    refine ⟨?_, ?_, ?_⟩
    · rw [allMeshes_repl, hflat, hlen]; exact hnM
    · rw [allMeshes_repl, hflat, hsum]; exact hnS
    · rw [allMeshes_repl, hflat]; exact hs3'
  refine ⟨?_, hsmall⟩
  -- the call
  unfold replaceVertices at hm
  obtain ⟨parts, hparts, hm⟩ := bind_ok hm
  obtain ⟨P, hP, hm⟩ := bind_ok hm
  obtain ⟨tbl, htbl, hm⟩ := bind_ok hm
  obtain ⟨rows, hrows, hm⟩ := bind_ok hm
  have hparts := idx_inv hparts
  have hP := idx_inv hP
  obtain ⟨u1, u2, u3, u4, u5⟩ := US hm
  -- the key of the part
  have hk1 : (specKeys a.lodCount.toNat 0 0 a.lods)[lod]? = some (parts.map partKey) := by
    rw [← hrep.parts, List.getElem?_map, hparts]; rfl
  rw [specKeys_getElem? a.lods lod _ 0 0 l hl hlc] at hk1
  have hk1 := Option.some.inj hk1
  have hk2 : (parts.map partKey)[part]? = some (partKey P) := by
    rw [List.getElem?_map, hP]; rfl
  rw [← hk1, specKeysLod_getElem? l.meshes part _ _ mesh hmesh] at hk2
  have hk2 := Option.some.inj hk2
  simp only [Nat.zero_add] at hk1 hk2
  have hmi : P.meshIndex = (psum meshCountOf a.lods lod + part).toUInt16 :=
    (congrArg (·.1) hk2).symm
  have hsi : P.submeshes.map (·.submeshIndex) = (List.range mesh.submeshes.length).map
      (psum lodSubCount a.lods lod + psum subLen l.meshes part + ·) := (congrArg (·.2.2.2) hk2).symm
  have hPj : P.meshIndex.toNat = psum meshCountOf a.lods lod + part := by
    rw [hmi, toUInt16_toNat _ (by omega)]
  -- the sub-mesh table
  have hT : m.modelData.submeshes = (allMeshes a).flatMap (fun (x : AMesh) => x.submeshes) :=
    congrArg ModelData.submeshes hrep.md
  obtain ⟨pre, post, hsplit, hsplit', hprelen⟩ :=
    subTable_split (allMeshes a) (psum meshCountOf a.lods lod + part) mesh hj
  have hpre : pre.length = psum lodSubCount a.lods lod + psum subLen l.meshes part := by
    rw [hprelen]; exact psum_flat a.lods lod l part hl (Nat.le_of_lt hpart)
  have hlenP : P.submeshes.length = mesh.submeshes.length := by
    simpa using congrArg List.length hsi
  have hidxP : ∀ i sv, P.submeshes[i]? = some sv → sv.submeshIndex = pre.length + i := by
    intro i sv hi
    have h1 : (P.submeshes.map (·.submeshIndex))[i]? = some sv.submeshIndex := by
      rw [List.getElem?_map, hi]; rfl
    have hi' : i < mesh.submeshes.length := by have := lt_of_getElem? hi; omega
    rw [hsi, List.getElem?_map, List.getElem?_range hi'] at h1
    rw [hpre]
    exact (Option.some.inj h1).symm
  unfold zipIdx' at htbl
  rw [hT, hsplit, List.range_eq_range'] at htbl
  have htbl' := subsFold subs _ (fun _ _ _ => rfl) mesh.submeshes P.submeshes 0 pre post tbl hlenP
    hidxP htbl
  rw [List.drop_zero] at htbl'
  have htbl'' : tbl = ((allMeshes a).set (psum meshCountOf a.lods lod + part)
      (replMesh mesh vc streams indices subs)).flatMap (fun (x : AMesh) => x.submeshes) := by
    rw [hsplit' (replMesh mesh vc streams indices subs)]; exact htbl'
  -- the mesh table
  obtain ⟨row, hrow, hrows⟩ := setAt_inv hrows
  rw [hPj] at hrow hrows
  have hM : m.modelData.meshes.map stripMesh = sRows 0 (allMeshes a) :=
    (congrArg ModelData.meshes hrep.md).trans (strip_allMeshRows a.lods 0 hs3)
  have hrowS : stripMesh row = sRow (0 + psum subLen (allMeshes a) (psum meshCountOf a.lods lod + part)) mesh := by
    have h1 : (m.modelData.meshes.map stripMesh)[psum meshCountOf a.lods lod + part]? =
        some (stripMesh row) := by rw [List.getElem?_map, hrow]; rfl
    rw [hM, sRows_getElem? _ _ 0 mesh hj] at h1
    exact (Option.some.inj h1).symm
  have hvl : (verticesOf { mesh with vertexCount := vc, streams := streams }).length.toUInt16 = vc := by
    rw [length_verticesOf]; simp
  have hrowsS : rows.map stripMesh =
      sRows 0 ((allMeshes a).set (psum meshCountOf a.lods lod + part)
        (replMesh mesh vc streams indices subs)) := by
    rw [hrows, List.map_set, hM, sRows_set _ _ 0 mesh _ hj hsub']
    congr 1
    show ({ stripMesh row with
      vertexCount := (verticesOf { mesh with vertexCount := vc, streams := streams }).length.toUInt16,
      indexCount := indices.length.toUInt32 } : Mesh) = _
    rw [hrowS, hvl]
    simp only [sRow, replMesh, hstr, hstrl, length_updSubs]
  -- the LOD rows
  have hlk : (a.lods.set lod (replLod l part (replMesh mesh vc streams indices subs))).map lodKey =
      a.lods.map lodKey :=
    map_set_same lodKey hl (by simp [lodKey, replLod])
  have hlsub : lodSubCount (replLod l part (replMesh mesh vc streams indices subs)) = lodSubCount l :=
    congrArg List.sum (map_set_same subLen hmesh hsub')
  refine ⟨?_, ?_, ?_, ?_, ?_⟩
  · rw [u1]
    show ({ stripMD m.modelData with submeshes := tbl, meshes := rows.map stripMesh } : ModelData) =
      stripMD (modelDataAt (replModel a lod l part (replMesh mesh vc streams indices subs)) _)
    rw [hrep.md, hrowsS, htbl'']
    unfold replModel
    rw [stripMD_set_lods a _ (dataStart a) _ (by rw [hflat]; exact hdecl) (by rw [hflat]; exact hlen)
      (by rw [hflat]; exact hsum) (strip_lodRows a.lods _ 0 _ _ hlk),
      strip_allMeshRows _ 0 (by rw [hflat]; exact hs3'), hflat]
    rfl
  · rw [u2]
    refine hrep.fh.trans ?_
    rw [stripFH_fileHeader, stripFH_fileHeader, allMeshes_repl, hflat, hlen]
    rfl
  · rw [u3]
    show (m.lods.set lod (parts.set part _)).map (·.map partKey) =
      specKeys a.lodCount.toNat 0 0 (a.lods.set lod _)
    rw [List.map_set, List.map_set, hrep.parts,
      specKeys_set a.lods lod _ 0 0 l _ hl hlc List.length_set hlsub, ← hk1,
      replLod_meshes, specKeysLod_set l.meshes part _ _ mesh _ hmesh hsub']
    simp only [Nat.zero_add]
    congr 2
    simp only [partKey, keyOf, hmi, hsi, hsub']
    rfl
  · rw [u4]; exact hrep.bones
  · rw [u5]; exact hrep.mats


theorem rep_removeShapes (US : UpdateStrip) (a : AbstractModel) (m m' : MDL) (hs : Small a)
    (hrep : Rep a m) (hm : removeShapeMeshes m = .ok m') :
    Rep { a with shapeMeshes := [], shapeValues := [], shapes := a.shapes.map clearA } m' ∧
      Small { a with shapeMeshes := [], shapeValues := [], shapes := a.shapes.map clearA } := by
  unfold removeShapeMeshes at hm
  obtain ⟨u1, u2, u3, u4, u5⟩ := US hm
  refine ⟨⟨?_, ?_, ?_, ?_, ?_⟩, hs⟩
  · have hsh : m.modelData.shapes = shapeRows a := congrArg ModelData.shapes hrep.md
    rw [u1]
    show ({ stripMD m.modelData with
      shapeMeshes := [], shapeValues := [], shapes := m.modelData.shapes.map clearS } : ModelData) = _
    rw [hsh, hrep.md]
    exact (stripMD_clear a (dataStart a) _).symm
  · rw [u2]
    refine hrep.fh.trans ?_
    rw [stripFH_fileHeader, stripFH_fileHeader]
    rfl
  · rw [u3]; exact hrep.parts
  · rw [u4]; exact hrep.bones
  · rw [u5]; exact hrep.mats

/-- one covered edit step -/
theorem rep_step (US : UpdateStrip) (a a' : AbstractModel) (m m' : MDL) (e : AEdit) (ce : Edit)
    (hs : Small a) (hrep : Rep a m) (hok : editOk a e = true)
    (ha : Spec.Mdl.applyEdit a e = some a') (hc : cedit a e = some ce)
    (hm : Mdl.applyEdit m ce = .ok m') : Rep a' m' ∧ Small a' := by
  cases e with
  | addShape lod shape smi part bases streams => simp [editOk] at hok
  | removeShapes =>
    simp only [cedit, Option.some.injEq] at hc
    subst hc
    simp only [Spec.Mdl.applyEdit, Option.some.injEq] at ha
    subst ha
    exact rep_removeShapes US a m m' hs hrep hm
  | replace lod part vc streams indices subs =>
    cases hl : a.lods[lod]? with
    | none => simp [Spec.Mdl.applyEdit, modifyMesh, hl] at ha
    | some l =>
      cases hmesh : l.meshes[part]? with
      | none => simp [Spec.Mdl.applyEdit, modifyMesh, hl, hmesh] at ha
      | some mesh =>
        have hmo : meshOfA a lod part = some mesh := by simp [meshOfA, hl, hmesh]
        simp only [editOk, hmo, beq_iff_eq] at hok
        simp only [cedit, hmo, Option.bind_eq_bind, Option.bind_some, Option.some.injEq] at hc
        subst hc
        by_cases hlc : lod ≥ a.lodCount.toNat
        · simp [Spec.Mdl.applyEdit, modifyMesh, hl, hlc] at ha
        · simp only [Spec.Mdl.applyEdit, modifyMesh, hl, hmesh, hlc, Option.bind_eq_bind,
            Option.bind_some, ↓reduceIte, Option.some.injEq] at ha
          subst ha
          exact rep_replace US a m m' lod part vc streams indices subs l mesh hl hmesh (by omega)
            hok hs hrep hm

/-- histories -/
theorem rep_history (US : UpdateStrip) : ∀ (es : List AEdit) (a a' : AbstractModel) (m m' : MDL)
    (ces : List Edit), Small a → Rep a m → editsOk a es = true → applyEdits a es = some a' →
    cedits a es = some ces → ces.foldlM Mdl.applyEdit m = .ok m' → Rep a' m' ∧ Small a' := by
  intro es
  induction es with
  | nil =>
    intro a a' m m' ces hs hrep _ ha hc hm
    simp only [applyEdits, List.foldlM_nil] at ha
    cases ha
    simp only [cedits, Option.some.injEq] at hc
    subst hc
    cases hm
    exact ⟨hrep, hs⟩
  | cons e rest ih =>
    intro a a' m m' ces hs hrep hok ha hc hm
    cases h1 : Spec.Mdl.applyEdit a e with
    | none => simp [editsOk, h1] at hok
    | some a1 =>
      cases h2 : cedit a e with
      | none => simp [cedits, h2] at hc
      | some c =>
        cases h3 : cedits a1 rest with
        | none => simp [cedits, h1, h2, h3] at hc
        | some cs =>
          simp only [cedits, h1, h2, h3, Option.bind_eq_bind, Option.bind_some,
            Option.some.injEq] at hc
          subst hc
          simp only [editsOk, h1, Bool.and_eq_true] at hok
          rw [List.foldlM_cons] at hm
          obtain ⟨m1, hm1, hm⟩ := bind_ok hm
          have ha' : applyEdits a1 rest = some a' := by
            simpa [applyEdits, List.foldlM_cons, h1] using ha
          obtain ⟨hrep1, hs1⟩ := rep_step US a a1 m m1 e c hs hrep hok.1 h1 h2 hm1
          exact ih a1 a' m1 m' cs hs1 hrep1 hok.2 ha' h3 hm

end Physis.Mdl
