import PhysisModel.Model.PatchList
import PhysisModel.Proofs.WireText
/-!
Patch lists: `to_string` emits the documented wire text; `from_string` reads it back
(patches and total length) on well-formed lists.
-/
namespace Physis.PatchList
open Physis.WireText
open Physis.Spec.PatchList

/-! ### writer -/

theorem sumLengths_eq (acc : Int) (ps : List PatchEntry) (h0 : 0 ≤ acc)
    (hpos : ∀ p ∈ ps, 0 ≤ p.length) (hlt : acc + totalLength ps < 2 ^ 63) :
    sumLengths acc ps = some (acc + totalLength ps) := by
  induction ps generalizing acc with
  | nil => simp [sumLengths, totalLength]
  | cons p ps ih =>
    have hp := hpos p (by simp)
    have htot : totalLength (p :: ps) = p.length + totalLength ps := by simp [totalLength]
    have hnn : 0 ≤ totalLength ps := by
      have : ∀ qs : List PatchEntry, (∀ q ∈ qs, 0 ≤ q.length) → 0 ≤ totalLength qs := by
        intro qs
        induction qs with
        | nil => intro _; simp [totalLength]
        | cons q qs ihq =>
          intro hq
          have h1 := hq q (by simp)
          have h2 := ihq (fun x hx => hq x (by simp [hx]))
          simp only [totalLength, List.map_cons, List.sum_cons] at h2 ⊢
          omega
      exact this ps (fun x hx => hpos x (by simp [hx]))
    rw [htot] at hlt
    simp only [sumLengths]
    have hc : -(2 ^ 63 : Int) ≤ acc + p.length ∧ acc + p.length < 2 ^ 63 := by omega
    simp only [hc, and_self, ↓reduceIte]
    rw [ih (acc + p.length) (by omega) (fun x hx => hpos x (by simp [hx])) (by omega), htot]
    congr 1; omega

theorem pushHashes_eq (h : Bytes) (rest : List Bytes) :
    pushHashes (h :: rest) = some (joinHashes (h :: rest)) := by
  simp only [pushHashes]
  congr 1
  induction rest generalizing h with
  | nil => simp [joinHashes]
  | cons r rest ih =>
    simp only [List.map_cons, List.flatten_cons, joinHashes]
    rw [← ih r]; simp [comma]

theorem rowToString_eq (kind : Kind) (p : PatchEntry) (h : kind = .game → p.hashes ≠ []) :
    rowToString kind p = some (encodeRow kind p) := by
  cases kind with
  | boot => simp [rowToString, encodeRow, tab, crlf]
  | game =>
    obtain ⟨x, xs, hx⟩ := List.exists_cons_of_ne_nil (h rfl)
    simp [rowToString, encodeRow, hx, pushHashes_eq, tab, crlf, litSha1, sSha1]

theorem rowsToString_eq (kind : Kind) (ps : List PatchEntry)
    (h : ∀ p ∈ ps, kind = .game → p.hashes ≠ []) :
    rowsToString kind ps = some ((ps.map (encodeRow kind)).flatten) := by
  induction ps with
  | nil => rfl
  | cons p ps ih =>
    simp only [rowsToString, rowToString_eq kind p (h p (by simp)),
      ih (fun x hx => h x (by simp [hx])), List.map_cons, List.flatten_cons]

theorem wf_entries {kind : Kind} {pl : PatchList} (h : WF kind pl = true) :
    ∀ p ∈ pl.patches, WFEntry kind p = true := by
  simp only [WF, Bool.and_eq_true, List.all_eq_true] at h
  exact h.1.2

theorem wfEntry_hashes {kind : Kind} {p : PatchEntry} (h : WFEntry kind p = true) :
    kind = .game → p.hashes ≠ [] := by
  intro hk; subst hk
  simp only [WFEntry, Bool.and_eq_true] at h
  intro he
  simp [he] at h

theorem wfEntry_len {kind : Kind} {p : PatchEntry} (h : WFEntry kind p = true) : 0 ≤ p.length := by
  simp only [WFEntry, Bool.and_eq_true, decide_eq_true_eq] at h
  exact h.1.1.1.1.1.2

/-- `to_string` writes the documented wire text -/
theorem toString_eq (kind : Kind) (pl : PatchList) (h : WF kind pl = true) :
    toString kind pl = some (encode kind pl) := by
  have he := wf_entries h
  have hsum := sumLengths_eq 0 pl.patches (by omega) (fun p hp => wfEntry_len (he p hp)) (by
    simp only [WF, Bool.and_eq_true, decide_eq_true_eq] at h
    omega)
  have hrows := rowsToString_eq kind pl.patches (fun p hp => wfEntry_hashes (he p hp))
  simp only [Int.zero_add] at hsum
  simp only [toString, hsum, hrows, encode, headerPrefix, litDashes, litContentType,
    litContentLocation, litPatchLength, litDashesCrlf, sDashes, sContentType, sContentLocation,
    sPatchLength, crlf]
  simp

/-! ### separator-freeness -/

theorem sepFree_mem {s : Bytes} (h : sepFree s = true) : (9 : UInt8) ∉ s ∧ (13 : UInt8) ∉ s ∧ (10 : UInt8) ∉ s := by
  simp only [sepFree, List.all_eq_true, Bool.and_eq_true, bne_iff_ne, ne_eq] at h
  exact ⟨fun m => (h _ m).1.1 rfl, fun m => (h _ m).1.2 rfl, fun m => (h _ m).2 rfl⟩

theorem hashOk_mem {s : Bytes} (h : hashOk s = true) :
    (9 : UInt8) ∉ s ∧ (13 : UInt8) ∉ s ∧ (10 : UInt8) ∉ s ∧ (0x2c : UInt8) ∉ s := by
  simp only [hashOk, List.all_eq_true, Bool.and_eq_true, bne_iff_ne, ne_eq] at h
  exact ⟨fun m => (h _ m).1.1.1 rfl, fun m => (h _ m).1.1.2 rfl, fun m => (h _ m).1.2 rfl,
    fun m => (h _ m).2 rfl⟩

theorem showInt_free (i : Int) (x : UInt8) (hx : x ≠ 0x2d ∧ ¬ (48 ≤ x ∧ x ≤ 57)) : x ∉ showInt i := by
  intro hm
  rcases showInt_chars i x hm with h | h
  · exact hx.1 h
  · exact hx.2 h

theorem showInt_no9 (i : Int) : (9 : UInt8) ∉ showInt i := showInt_free i 9 (by decide)
theorem showInt_no13 (i : Int) : (13 : UInt8) ∉ showInt i := showInt_free i 13 (by decide)

/-! ### reader: the `X-Patch-Length` header -/

theorem occurs_eq (pat s : Bytes) : occurs pat s = occursIn pat s := by
  induction s with
  | nil => rfl
  | cons c s ih => simp [occurs, occursIn, ih]

theorem headerPrefix_last (id cl : Bytes) : (headerPrefix id cl).getLast? = some 10 := by
  have : headerPrefix id cl = (sDashes ++ (id ++ (crlf ++ (sContentType ++ (crlf ++ (sContentLocation ++ (cl ++ [13]))))))) ++ [10] := by
    simp [headerPrefix, crlf]
  rw [this, List.getLast?_append]; rfl

theorem parsePatchLength_encode (kind : Kind) (pl : PatchList) (h : WF kind pl = true) :
    parsePatchLength (encode kind pl) = (totalLength pl.patches).toNat := by
  have he := wf_entries h
  simp only [WF, Bool.and_eq_true, decide_eq_true_eq, Bool.not_eq_true', occurs_eq] at h
  obtain ⟨⟨⟨⟨_, _⟩, hocc⟩, _⟩, htot⟩ := h
  have hnn : 0 ≤ totalLength pl.patches := by
    have : ∀ qs : List PatchEntry, (∀ q ∈ qs, 0 ≤ q.length) → 0 ≤ totalLength qs := by
      intro qs
      induction qs with
      | nil => intro _; simp [totalLength]
      | cons q qs ihq =>
        intro hq
        have h1 := hq q (by simp)
        have h2 := ihq (fun x hx => hq x (by simp [hx]))
        simp only [totalLength, List.map_cons, List.sum_cons] at h2 ⊢
        omega
    exact this _ (fun p hp => wfEntry_len (he p hp))
  have hlast := headerPrefix_last pl.id pl.contentLocation
  simp only [parsePatchLength, encode]
  generalize headerPrefix pl.id pl.contentLocation = H at hocc hlast ⊢
  generalize (List.map (encodeRow kind) pl.patches).flatten ++ (sDashes ++ (pl.id ++ (sDashes ++ crlf))) = REST
  have hlit : litPatchLength = sPatchLength := rfl
  have hne : sPatchLength ≠ [] := by decide
  have h10 : (10 : UInt8) ∉ sPatchLength := by decide
  have h16 : sPatchLength.length = 16 := rfl
  rw [hlit, findSub_skip sPatchLength H _ hocc (Or.inr hlast) h10, findSub_self _ _ hne]
  simp only [Option.map_some, Nat.zero_add]
  have hdrop : (H ++ (sPatchLength ++ (showInt (totalLength pl.patches) ++ (crlf ++ (crlf ++ REST))))).drop
      (H.length + sPatchLength.length) = showInt (totalLength pl.patches) ++ 13 :: 10 :: (crlf ++ REST) := by
    rw [← List.append_assoc, ← List.length_append, List.drop_left']
    · rfl
    · rfl
  rw [hdrop, findSub_crlf _ _ (showInt_no13 _)]
  simp only [List.take_left']
  rw [parseU64_showInt _ hnn (by omega)]

/-! ### reader: rows -/

/-- a row without its line terminator -/
def rowBody (kind : Kind) (p : PatchEntry) : Bytes :=
  showInt p.length ++ (9 : UInt8) :: (showInt p.sizeOnDisk ++ (9 : UInt8) :: (showInt p.unknownA ++ (9 : UInt8) ::
    (showInt p.unknownB ++ (9 : UInt8) :: (p.version ++ (9 : UInt8) ::
      (match kind with
       | .boot => p.url
       | .game => sSha1 ++ (9 : UInt8) :: (showInt p.hashBlockSize ++ (9 : UInt8) ::
          (joinHashes p.hashes ++ (9 : UInt8) :: p.url)))))))

theorem encodeRow_eq (kind : Kind) (p : PatchEntry) : encodeRow kind p = rowBody kind p ++ [13, 10] := by
  cases kind <;> simp [encodeRow, rowBody, tab, crlf]

theorem joinHashes_free (x : UInt8) (hx : x ≠ 0x2c) (hs : List Bytes) (h : ∀ s ∈ hs, x ∉ s) :
    x ∉ joinHashes hs := by
  induction hs with
  | nil => simp [joinHashes]
  | cons a rest ih =>
    cases rest with
    | nil => simpa [joinHashes] using h a (by simp)
    | cons b rest =>
      simp only [joinHashes, List.mem_append, List.mem_cons, not_or, comma]
      exact ⟨h a (by simp), hx, ih (fun s hs => h s (by simp [hs]))⟩

theorem split_joinHashes (a : Bytes) (rest : List Bytes) (h : ∀ s ∈ a :: rest, (0x2c : UInt8) ∉ s) :
    splitByte 0x2c (joinHashes (a :: rest)) = a :: rest := by
  unfold splitByte
  induction rest generalizing a with
  | nil => simp [joinHashes, splitByteAux_last _ _ _ (h a (by simp))]
  | cons b rest ih =>
    simp only [joinHashes, comma]
    rw [splitByteAux_sep _ _ _ _ (h a (by simp)), ih b (fun s hs => h s (by simp [hs]))]
    simp

theorem isI64_bounds {i : Int} (h : isI64 i = true) : -(2 ^ 63 : Int) ≤ i ∧ i < 2 ^ 63 := by
  simpa [isI64] using h

theorem parseRow_body (kind : Kind) (p : PatchEntry) (h : WFEntry kind p = true) :
    parseRow kind (rowBody kind p) = some (carried kind p) := by
  simp only [WFEntry, Bool.and_eq_true, decide_eq_true_eq] at h
  obtain ⟨⟨⟨⟨⟨⟨⟨⟨hurl, hver⟩, hhbs⟩, _⟩, hlen⟩, hsize⟩, _⟩, _⟩, hk⟩ := h
  have ⟨u9, _, _⟩ := sepFree_mem hurl
  have ⟨v9, _, _⟩ := sepFree_mem hver
  have l1 := parseI64_showInt _ (isI64_bounds hlen).1 (isI64_bounds hlen).2
  have l2 := parseI64_showInt _ (isI64_bounds hsize).1 (isI64_bounds hsize).2
  have l3 := parseI64_showInt _ (isI64_bounds hhbs).1 (isI64_bounds hhbs).2
  cases kind with
  | boot =>
    simp only [parseRow, rowBody, splitByte, splitByteAux_sep _ _ _ _ (showInt_no9 _),
      splitByteAux_sep _ _ _ _ v9, splitByteAux_last _ _ _ u9]
    simp [l1, l2, carried]
  | game =>
    simp only [Bool.and_eq_true, Bool.not_eq_true', List.all_eq_true] at hk
    obtain ⟨hne, hall⟩ := hk
    obtain ⟨a, rest, hx⟩ := List.exists_cons_of_ne_nil (by
      intro he; simp [he] at hne : p.hashes ≠ [])
    have s9 : (9 : UInt8) ∉ sSha1 := by decide
    have j9 : (9 : UInt8) ∉ joinHashes p.hashes :=
      joinHashes_free 9 (by decide) _ (fun s hs => (hashOk_mem (hall s hs)).1)
    have hsplit : splitByte 0x2c (joinHashes p.hashes) = p.hashes := by
      rw [hx]; exact split_joinHashes a rest (fun s hs => (hashOk_mem (hall s (hx ▸ hs))).2.2.2)
    simp only [parseRow, rowBody, splitByte, splitByteAux_sep _ _ _ _ (showInt_no9 _),
      splitByteAux_sep _ _ _ _ v9, splitByteAux_sep _ _ _ _ s9, splitByteAux_sep _ _ _ _ j9,
      splitByteAux_last _ _ _ u9]
    simp only [splitByte] at hsplit
    simp [l1, l2, l3, carried, hsplit]

theorem parseRows_bodies (kind : Kind) (ps : List PatchEntry) (h : ∀ p ∈ ps, WFEntry kind p = true) :
    parseRows kind (ps.map (rowBody kind)) = ps.map (carried kind) := by
  induction ps with
  | nil => rfl
  | cons p ps ih =>
    have := ih (fun x hx => h x (by simp [hx]))
    simp only [parseRows] at this ⊢
    simp only [List.map_cons, List.filterMap_cons, parseRow_body kind p (h p (by simp)), this]

/-! ### reader: the whole text -/

theorem joinCRLF_append (a b : List Bytes) : joinCRLF (a ++ b) = joinCRLF a ++ joinCRLF b := by
  induction a with
  | nil => rfl
  | cons x a ih => simp [joinCRLF, ih]

theorem joinCRLF_rows (kind : Kind) (ps : List PatchEntry) :
    joinCRLF (ps.map (rowBody kind)) = (ps.map (encodeRow kind)).flatten := by
  induction ps with
  | nil => rfl
  | cons p ps ih => simp [joinCRLF, ih, encodeRow_eq]

/-- the lines of the wire text -/
def textLines (kind : Kind) (pl : PatchList) : List Bytes :=
  [sDashes ++ pl.id, sContentType, sContentLocation ++ pl.contentLocation,
    sPatchLength ++ showInt (totalLength pl.patches), []] ++
  (pl.patches.map (rowBody kind) ++ [sDashes ++ (pl.id ++ sDashes)])

theorem encode_eq_join (kind : Kind) (pl : PatchList) : encode kind pl = joinCRLF (textLines kind pl) := by
  simp only [textLines, joinCRLF_append, joinCRLF, joinCRLF_rows, encode, headerPrefix, crlf]
  simp

theorem rowBody_no13 (kind : Kind) (p : PatchEntry) (h : WFEntry kind p = true) :
    (13 : UInt8) ∉ rowBody kind p := by
  simp only [WFEntry, Bool.and_eq_true, decide_eq_true_eq] at h
  obtain ⟨⟨⟨⟨⟨⟨⟨⟨hurl, hver⟩, _⟩, _⟩, _⟩, _⟩, _⟩, _⟩, hk⟩ := h
  have ⟨_, u13, _⟩ := sepFree_mem hurl
  have ⟨_, v13, _⟩ := sepFree_mem hver
  have n := showInt_no13
  cases kind with
  | boot =>
    simp only [rowBody, List.mem_append, List.mem_cons, not_or]
    exact ⟨n _, by decide, n _, by decide, n _, by decide, n _, by decide, v13, by decide, u13⟩
  | game =>
    simp only [Bool.and_eq_true, Bool.not_eq_true', List.all_eq_true] at hk
    have j13 : (13 : UInt8) ∉ joinHashes p.hashes :=
      joinHashes_free 13 (by decide) _ (fun s hs => (hashOk_mem (hk.2 s hs)).2.1)
    have s13 : (13 : UInt8) ∉ sSha1 := by decide
    simp only [rowBody, List.mem_append, List.mem_cons, not_or]
    exact ⟨n _, by decide, n _, by decide, n _, by decide, n _, by decide, v13, by decide, s13,
      by decide, n _, by decide, j13, by decide, u13⟩

theorem textLines_no13 (kind : Kind) (pl : PatchList) (h : WF kind pl = true) :
    ∀ l ∈ textLines kind pl, (13 : UInt8) ∉ l := by
  have he := wf_entries h
  simp only [WF, Bool.and_eq_true] at h
  obtain ⟨⟨⟨⟨hid, hcl⟩, _⟩, _⟩, _⟩ := h
  have ⟨_, i13, _⟩ := sepFree_mem hid
  have ⟨_, c13, _⟩ := sepFree_mem hcl
  have d13 : (13 : UInt8) ∉ sDashes := by decide
  have t13 : (13 : UInt8) ∉ sContentType := by decide
  have l13 : (13 : UInt8) ∉ sContentLocation := by decide
  have p13 : (13 : UInt8) ∉ sPatchLength := by decide
  intro l hl
  simp only [textLines, List.mem_append, List.mem_cons, List.mem_map, List.not_mem_nil, or_false] at hl
  rcases hl with (rfl | rfl | rfl | rfl | rfl) | (⟨p, hp, rfl⟩ | rfl)
  · simp [d13, i13]
  · exact t13
  · simp [l13, c13]
  · simp [p13, showInt_no13]
  · simp
  · exact rowBody_no13 kind p (he p hp)
  · simp [d13, i13]

theorem take_drop_rows {α} (a b c : List α) (ha : a.length = 5) (hc : c.length = 2) :
    ((a ++ (b ++ c)).take ((a ++ (b ++ c)).length - 2)).drop 5 = b := by
  have e : (a ++ (b ++ c)).length - 2 = (a ++ b).length := by simp [ha, hc]; omega
  rw [e, ← List.append_assoc, List.take_left' rfl, ← ha, List.drop_left' rfl]

/-- `from_string` on the documented wire text of a well-formed list -/
theorem fromString_encode (kind : Kind) (pl : PatchList) (h : WF kind pl = true) :
    fromString kind (encode kind pl) = some (decoded kind pl) := by
  have hpl := parsePatchLength_encode kind pl h
  have hsplit : splitCRLF (encode kind pl) = textLines kind pl ++ [[]] := by
    rw [encode_eq_join, splitCRLF_join _ (textLines_no13 kind pl h)]
  have hparts : textLines kind pl ++ [[]] =
      [sDashes ++ pl.id, sContentType, sContentLocation ++ pl.contentLocation,
        sPatchLength ++ showInt (totalLength pl.patches), []] ++
      (pl.patches.map (rowBody kind) ++ [sDashes ++ (pl.id ++ sDashes), []]) := by
    simp [textLines]
  simp only [fromString, hpl, hsplit, hparts]
  rw [take_drop_rows _ _ _ rfl rfl]
  simp only [parseRows_bodies kind _ (wf_entries h), decoded]

/-- write → read round trip -/
theorem roundtrip (kind : Kind) (pl : PatchList) (h : WF kind pl = true) :
    (toString kind pl).bind (fromString kind) = some (decoded kind pl) := by
  rw [toString_eq kind pl h]; exact fromString_encode kind pl h

end Physis.PatchList
