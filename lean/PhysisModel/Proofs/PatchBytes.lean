import PhysisModel.Base.BytesLemmas
import PhysisModel.Model.Patch
import Std.Tactic.BVDecide
/-! Byte-level lemmas for the patch model: readers undo the writers, block round trip. -/
namespace Physis.Patch
open Physis Physis.Fs

@[simp] theorem rdU8_cons (a : UInt8) (r : Bytes) : rdU8 (a :: r) = some (a, r) := rfl

@[simp] theorem rdU16be_put (v : UInt16) (r : Bytes) : rdU16be (putU16be v ++ r) = some (v, r) := by
  have := getU16be_put v
  simp only [putU16be] at this
  simp [putU16be, rdU16be, this]

@[simp] theorem rdU32be_put (v : UInt32) (r : Bytes) : rdU32be (putU32be v ++ r) = some (v, r) := by
  have := getU32be_put v
  simp only [putU32be] at this
  simp [putU32be, rdU32be, this]

@[simp] theorem rdU32le_put (v : UInt32) (r : Bytes) : rdU32le (putU32le v ++ r) = some (v, r) := by
  have := getU32le_put v
  simp only [putU32le] at this
  simp [putU32le, rdU32le, this]

@[simp] theorem rdU64be_put (v : UInt64) (r : Bytes) : rdU64be (putU64be v ++ r) = some (v, r) := by
  have := getU64be_put v
  simp only [putU64be] at this
  simp [putU64be, rdU64be, this]

@[simp] theorem rdU64le_put (v : UInt64) (r : Bytes) : rdU64le (putU64le v ++ r) = some (v, r) := by
  have := getU64le_put v
  simp only [putU64le] at this
  simp [putU64le, rdU64le, this]

theorem rdN_append (x r : Bytes) : rdN x.length (x ++ r) = some (x, r) := by
  simp [rdN]

theorem rdN_append' (n : Nat) (x r : Bytes) (h : n = x.length) : rdN n (x ++ r) = some (x, r) := by
  subst h; exact rdN_append x r

/-- a 32-bit read needs four bytes -/
theorem rdU32le_isSome (s : Bytes) (h : 4 ≤ s.length) : ∃ v r, rdU32le s = some (v, r) := by
  match s, h with
  | a :: b :: c :: d :: r, _ => exact ⟨_, r, rfl⟩

/-! ### `pad128` facts (bit-vector) -/

theorem pad128_ge (l : UInt64) (h : l < 0x80000000) : ¬ pad128 l < (pad128 l - l).toUInt32.toUInt64 + l := by
  simp only [pad128]; bv_decide (timeout := 300)

theorem pad128_sub (l : UInt64) (h : l < 0x80000000) :
    pad128 l - (pad128 l - l).toUInt32.toUInt64 - l = 0 := by
  simp only [pad128]; bv_decide (timeout := 300)

theorem ofNat_toUInt32_toUInt64 (l : UInt64) (h : l < 0x80000000) : l.toUInt32.toUInt64 = l := by
  bv_decide (timeout := 300)

@[simp] theorem drop4_putU32le (v : UInt32) (r : Bytes) : (putU32le v ++ r).drop 4 = r := by
  simp [putU32le]
@[simp] theorem drop4_putU32be (v : UInt32) (r : Bytes) : (putU32be v ++ r).drop 4 = r := by
  simp [putU32be]

/-- `read_data_block_patch` undoes `write_data_block_patch`, for every length (the reader needs four
bytes after the 16-byte header for its look-ahead: data or whatever follows) -/
theorem readDataBlockPatch_write (inflate : Bytes → Nat → Option Bytes) (d rest : Bytes)
    (hd : d.length < 2 ^ 31) (hpeek : 4 ≤ d.length + rest.length) :
    readDataBlockPatch inflate (writeDataBlockPatch d ++ rest) = some (d, rest) := by
  obtain ⟨pv, pr, hp⟩ := rdU32le_isSome (d ++ rest) (by simp; omega)
  have hLn : (UInt64.ofNat d.length).toNat = d.length := by
    simp [UInt64.toNat_ofNat']; omega
  generalize hL : UInt64.ofNat d.length = L at hLn
  have hlt : L < 0x80000000 := by
    rw [UInt64.lt_iff_toNat_lt, hLn]; simpa using hd
  have h32 : L.toUInt32.toUInt64 = L := ofNat_toUInt32_toUInt64 L hlt
  have hy : L.toUInt32.toNat = d.length := by
    have := congrArg UInt64.toNat h32
    simpa [hLn] using this
  simp only [writeDataBlockPatch, hL, List.append_assoc, readDataBlockPatch, rdU32le_put, drop4_putU32le,
    Option.bind_eq_bind, Option.bind_some, hp, h32, hy]
  have hx : (32000 : UInt32).toNat = 32000 := by decide
  have h1 : ¬ (2 ^ 31 ≤ (32000 : UInt32).toNat ∨ 2 ^ 31 ≤ d.length) := by rw [hx]; omega
  have h2 : ¬ (32000 : UInt32).toNat < 32000 := by rw [hx]; omega
  have h3 := pad128_ge L hlt
  have h4 := pad128_sub L hlt
  generalize hS : (pad128 L - L).toUInt32 = S at h3 h4 ⊢
  simp only [h1, h2, h3, h4, ↓reduceIte, rdN_append]
  rfl

end Physis.Patch
