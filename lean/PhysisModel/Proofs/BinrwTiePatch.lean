import PhysisModel.Proofs.BinrwLemmas
import PhysisModel.Generated.BinrwPatch
import PhysisModel.Model.Patch
/-!
T4 for `src/patch.rs` (C03; C15 depends on `SqpkTargetInfo.platform`): the SQPK payload structs
`SqpkTargetInfo`, `SqpkAddData` (prefix up to `block_data`, which has `parse_with`), `SqpkDeleteData`
(also used for `E`xpand), `SqpkPatchInfo`, and `ApplyOptionChunk`.

`Model/Patch.lean` reads the payloads in anonymous `do` blocks inside `rdSqpk` / `rdChunkBody`; each tie
therefore has the form: *if the bytes before the payload select this struct, the model's outcome is the
regenerated layout read on the payload followed by a pure projection* (`Rd.fail` for a read error).
Two steps per struct as in `Proofs/BinrwTieIndex.lean`.
-/
namespace Physis.BinrwTie.Patch
open Physis Physis.Binrw Physis.Reader Physis.Generated
open Physis.Patch (Rd Chunk)

def toRd : Option (Chunk × Bytes) → Rd Chunk
  | some (c, s) => .ok c s
  | none => .fail

/-! ### bridge: the model's primitive readers are the `Binrw` ones -/
theorem p_u8 : Patch.rdU8 = u8 := by
  funext l; rcases l with _ | ⟨a, r⟩ <;> rfl
theorem p_u16be : Patch.rdU16be = u16be := by
  funext l; rcases l with _ | ⟨a, _ | ⟨b, r⟩⟩ <;> rfl
theorem p_u32be : Patch.rdU32be = u32be := by
  funext l; rcases l with _ | ⟨a, _ | ⟨b, _ | ⟨c, _ | ⟨d, r⟩⟩⟩⟩ <;> rfl
theorem p_u64be : Patch.rdU64be = u64be := by
  funext l; rcases l with _ | ⟨a, _ | ⟨b, _ | ⟨c, _ | ⟨d, _ | ⟨e, _ | ⟨f, _ | ⟨g, _ | ⟨h, r⟩⟩⟩⟩⟩⟩⟩⟩ <;> rfl
theorem p_u64le : Patch.rdU64le = u64le := by
  funext l; rcases l with _ | ⟨a, _ | ⟨b, _ | ⟨c, _ | ⟨d, _ | ⟨e, _ | ⟨f, _ | ⟨g, _ | ⟨h, r⟩⟩⟩⟩⟩⟩⟩⟩ <;> rfl

theorem ite_prop_bind {β : Type} (p : Prop) [Decidable p] (k : Unit → Option β) :
    (if p then some () else none).bind k = if p then k () else none := by
  split <;> rfl

theorem ite_prop_some_bind {α β : Type} (p : Prop) [Decidable p] (x : Option α) (k : α → Option β) :
    (if p then x else none).bind k = if p then x.bind k else none := by
  split <;> rfl
theorem opt_pure {α : Type} (a : α) : (pure a : Option α) = some a := rfl

/-- one branch of `rdSqpk` / `rdChunkBody`: reduce the dispatch on the literal tag, then normalise both sides -/
syntax "patch_branch" "[" Lean.Parser.Tactic.simpLemma,* "]" : tactic
macro_rules
  | `(tactic| patch_branch [$extra,*]) => `(tactic|
      (binrw_norm [p_u8, p_u16be, p_u32be, p_u64be, p_u64le, ite_prop_bind, ite_prop_some_bind, opt_pure, decide_eq_true_eq,
         Patch.rdN, Patch.rdIds, $extra,*]
       simp (config := { decide := true }) only [if_false, if_true]
       change toRd _ = toRd _
       congr 1))

namespace Expected
def sqpkTargetInfo : Layout :=
  .mk (some .big) .none [
    -- pad_before = 4: the platform is the LOW byte of a big-endian u16 (C15)
    .mk "platform" none .none 4 (.enum .u8 [0, 1, 2, 3, 4]) 0 0,
    .mk "region" none .none 0 (.enum .i16 [65535, 1]) 0 0,
    .mk "is_debug" none .none 0 (.prim .u16) 0 0,
    .mk "version" none .none 0 (.prim .u16) 0 0,
    .mk "deleted_data_size" (some .little) .none 0 (.prim .u64) 0 0,
    .mk "seek_count" (some .little) .none 0 (.prim .u64) 0 96] true
def sqpkAddDataPrefix : Layout :=
  .mk (some .big) .none [
    .mk "main_id" none .none 3 (.prim .u16) 0 0,
    .mk "sub_id" none .none 0 (.prim .u16) 0 0,
    .mk "file_id" none .none 0 (.prim .u32) 0 0,
    .mk "block_offset" none .none 0 (.prim .u32) 0 0,
    .mk "block_number" none .none 0 (.prim .u32) 0 0,
    .mk "block_delete_number" none .none 0 (.prim .u32) 0 0] false
def sqpkDeleteData : Layout :=
  .mk (some .big) .none [
    .mk "main_id" none .none 3 (.prim .u16) 0 0,
    .mk "sub_id" none .none 0 (.prim .u16) 0 0,
    .mk "file_id" none .none 0 (.prim .u32) 0 0,
    .mk "block_offset" none .none 0 (.prim .u32) 0 0,
    .mk "block_number" none .none 0 (.prim .u32) 0 4] true
def sqpkPatchInfo : Layout :=
  .mk none .none [
    .mk "status" none .none 0 (.prim .u8) 0 0,
    .mk "version" none .none 0 (.prim .u8) 0 1,
    .mk "install_size" (some .big) .none 0 (.prim .u64) 0 0] true
def applyOptionChunk : Layout :=
  .mk none .none [
    .mk "option" (some .big) .none 0 (.enum .u32 [1, 2]) 0 4,     -- the enum's own `#[brw(big)]`
    .mk "value" (some .big) .none 0 (.prim .u32) 0 0] true
end Expected

/-! ### step 2 (re-checked on every run; ambient `.little` = `PatchChunk`'s `#[brw(little)]`) -/
theorem sqpkTargetInfo_generated :
    BinrwPatch.sqpkTargetInfo.normalizeAt .little = Expected.sqpkTargetInfo.normalizeAt .little := rfl
theorem sqpkAddData_generated :
    BinrwPatch.sqpkAddData.normalizeAt .little = Expected.sqpkAddDataPrefix.normalizeAt .little := rfl
theorem sqpkDeleteData_generated :
    BinrwPatch.sqpkDeleteData.normalizeAt .little = Expected.sqpkDeleteData.normalizeAt .little := rfl
theorem sqpkPatchInfo_generated :
    BinrwPatch.sqpkPatchInfo.normalizeAt .little = Expected.sqpkPatchInfo.normalizeAt .little := rfl
theorem applyOptionChunk_generated :
    BinrwPatch.applyOptionChunk.normalizeAt .little = Expected.applyOptionChunk.normalizeAt .little := rfl

/-! ### projections -/
def targetInfoOf : List Value → Option Chunk
  | [.w8 .u8 pl, .w16 .i16 _, .w16 .u16 _, .w16 .u16 _, .w64 .u64 _, .w64 .u64 _] => some (.targetInfo pl)
  | _ => none
def deleteDataOf (op : UInt8) : List Value → Option Chunk
  | [.w16 .u16 m, .w16 .u16 sub, .w32 .u32 f, .w32 .u32 off, .w32 .u32 num] =>
    some ((if op = 0x44 then Chunk.deleteData else Chunk.expandData) m sub f (off.toUInt64 <<< 7) num)
  | _ => none
def patchInfoOf : List Value → Option Chunk
  | [.w8 .u8 _, .w8 .u8 _, .w64 .u64 _] => some .patchInfo
  | _ => none
def applyOptionOf : List Value → Option Chunk
  | [.w32 .u32 opt, .w32 .u32 v] => some (.applyOption opt v)
  | _ => none
/-- after the `SqpkAddData` prefix: `block_data` = `block_number << 7` bytes (`read_bytes_bounded`) -/
def addDataRest : List Value × Bytes → Option (Chunk × Bytes)
  | ([.w16 .u16 m, .w16 .u16 sub, .w32 .u32 f, .w32 .u32 off, .w32 .u32 num, .w32 .u32 del], s) =>
    (bytes (num.toUInt64 <<< 7).toNat s).map fun d =>
      (Chunk.addData m sub f (off.toUInt64 <<< 7) (del.toUInt64 <<< 7) d.1, d.2)
  | _ => none

theorem platform_valid (v : UInt8) : ([0, 1, 2, 3, 4] : List Nat).contains v.toNat = decide (v ≤ 4) := by
  rw [Bool.eq_iff_iff]; simp [UInt8.le_iff_toNat_le]; omega
theorem region_valid (v : UInt16) : ([65535, 1] : List Nat).contains v.toNat = decide (v = 0xFFFF ∨ v = 1) := by
  rw [Bool.eq_iff_iff]; simp [← UInt16.toNat_inj]
theorem option_valid (v : UInt32) : ([1, 2] : List Nat).contains v.toNat = decide (v = 1 ∨ v = 2) := by
  rw [Bool.eq_iff_iff]; simp [← UInt32.toNat_inj]

/-! ### step 1: the branches of `rdSqpk` / `rdChunkBody` -/

theorem rdSqpk_targetInfo_expected (s s1 s2 : Bytes) (x : UInt32)
    (h1 : Patch.rdU32be s = some (x, s1)) (h2 : Patch.rdU8 s1 = some (0x54, s2)) :
    Patch.rdSqpk s = toRd (via targetInfoOf (Layout.read .little Expected.sqpkTargetInfo s2)) := by
  unfold Patch.rdSqpk
  simp only [h1, h2]
  patch_branch [Expected.sqpkTargetInfo, platform_valid, region_valid, targetInfoOf]

theorem rdSqpk_deleteData_expected (s s1 s2 : Bytes) (x : UInt32) (op : UInt8) (hop : op = 0x44 ∨ op = 0x45)
    (h1 : Patch.rdU32be s = some (x, s1)) (h2 : Patch.rdU8 s1 = some (op, s2)) :
    Patch.rdSqpk s = toRd (via (deleteDataOf op) (Layout.read .little Expected.sqpkDeleteData s2)) := by
  unfold Patch.rdSqpk
  simp only [h1, h2]
  rcases hop with rfl | rfl <;>
  · binrw_norm [p_u8, p_u16be, p_u32be, opt_pure, Patch.rdIds, Expected.sqpkDeleteData, deleteDataOf]
    simp (config := { decide := true }) only [if_false, if_true]
    cases u16be (List.drop 3 s2) with
    | none => rfl
    | some a =>
    simp only [Option.bind_some]
    cases u16be a.2 with
    | none => rfl
    | some b =>
    simp only [Option.bind_some]
    cases u32be b.2 with
    | none => rfl
    | some c =>
    simp only [Option.bind_some]
    cases u32be c.2 with
    | none => rfl
    | some d =>
    simp only [Option.bind_some]
    cases u32be d.2 <;> rfl

theorem rdSqpk_addData_expected (s s1 s2 : Bytes) (x : UInt32)
    (h1 : Patch.rdU32be s = some (x, s1)) (h2 : Patch.rdU8 s1 = some (0x41, s2)) :
    Patch.rdSqpk s = toRd ((Layout.read .little Expected.sqpkAddDataPrefix s2).bind addDataRest) := by
  unfold Patch.rdSqpk
  simp only [h1, h2]
  patch_branch [Expected.sqpkAddDataPrefix, addDataRest, bytes, Option.map_eq_bind]

/-! ### the tie -/
theorem rdSqpk_targetInfo_generated (s s1 s2 : Bytes) (x : UInt32)
    (h1 : Patch.rdU32be s = some (x, s1)) (h2 : Patch.rdU8 s1 = some (0x54, s2)) :
    Patch.rdSqpk s = toRd (via targetInfoOf (Layout.read .little BinrwPatch.sqpkTargetInfo s2)) := by
  rw [Layout.read_congr _ sqpkTargetInfo_generated]; exact rdSqpk_targetInfo_expected s s1 s2 x h1 h2
theorem rdSqpk_deleteData_generated (s s1 s2 : Bytes) (x : UInt32) (op : UInt8) (hop : op = 0x44 ∨ op = 0x45)
    (h1 : Patch.rdU32be s = some (x, s1)) (h2 : Patch.rdU8 s1 = some (op, s2)) :
    Patch.rdSqpk s = toRd (via (deleteDataOf op) (Layout.read .little BinrwPatch.sqpkDeleteData s2)) := by
  rw [Layout.read_congr _ sqpkDeleteData_generated]; exact rdSqpk_deleteData_expected s s1 s2 x op hop h1 h2
theorem rdSqpk_addData_generated (s s1 s2 : Bytes) (x : UInt32)
    (h1 : Patch.rdU32be s = some (x, s1)) (h2 : Patch.rdU8 s1 = some (0x41, s2)) :
    Patch.rdSqpk s = toRd ((Layout.read .little BinrwPatch.sqpkAddData s2).bind addDataRest) := by
  rw [Layout.read_congr _ sqpkAddData_generated]; exact rdSqpk_addData_expected s s1 s2 x h1 h2

end Physis.BinrwTie.Patch
