import PhysisModel.Model.Index
import PhysisModel.Spec.Archive
import PhysisModel.Proofs.Reader
import PhysisModel.Proofs.Crc
import Std.Tactic.BVDecide
/-!
The index-file reader of the model inverts the encoder of `Spec/Archive`; junk is rejected;
`calculate_hash` / `find_entry` agree with `hashOf` / `findIn`.
-/
namespace Physis.Index
open Physis Physis.Reader Physis.Str Physis.Spec.Archive

/-! ### headers -/

theorem skip_zeros (n : Nat) (r : Bytes) : skip n (zeros n ++ r) = r := skip_replicate n 0 r
theorem bytes_zeros (n : Nat) (r : Bytes) : bytes n (zeros n ++ r) = some (zeros n, r) :=
  bytes_replicate n 0 r

theorem readSqPackHeader_encode (pl : Platform) (rest : Bytes) :
    readSqPackHeader (encodeSqPackHeader pl ++ rest) =
      some ({ platformId := pl.id, size := 1024, version := 1, fileType := 2 }, rest) := by
  have hp : pl.id ≤ 4 := by cases pl <;> decide
  simp only [encodeSqPackHeader, readSqPackHeader, List.append_assoc]
  have hm : Spec.Archive.sqpackMagic = Index.sqpackMagic := rfl
  rw [hm, magic_append]
  simp only [u32le_put, Option.bind_eq_bind, Option.bind_some, List.cons_append, List.nil_append,
    u8_cons, skip_zeros, bytes_zeros, require, hp, skip3_cons, skip2_cons, u16le_cons]
  have h255 : ((255 : UInt16) ||| (255 : UInt16) <<< (8 : UInt16)) = 65535 := by decide
  simp [h255]

theorem readDescriptor_encode (c o s : UInt32) (rest : Bytes) :
    readDescriptor (encodeDescriptor c o s ++ rest) = some ({ count := c, offset := o, size := s }, rest) := by
  simp only [encodeDescriptor, readDescriptor, List.append_assoc, u32le_put, Option.bind_eq_bind,
    Option.bind_some, skip_zeros, bytes_zeros]

def kindToModel : Kind → IndexType
  | .index1 => .index1
  | .index2 => .index2

theorem readIndexHeader_encode (k : Kind) (eo es d0 ds fo fs : UInt32) (rest : Bytes) :
    ∃ r, readIndexHeader (encodeIndexHeader k eo es d0 ds fo fs ++ rest) =
      some ({ size := 1024, fileDescriptor := ⟨1, eo, es⟩, dataDescriptor := ⟨1, d0, ds⟩,
              unknownDescriptor := ⟨0, 0, 0⟩, folderDescriptor := ⟨0, fo, fs⟩,
              indexType := kindToModel k }, r) := by
  simp only [encodeIndexHeader, readIndexHeader, List.append_assoc]
  simp only [u32le_put, readDescriptor_encode, Option.bind_eq_bind, Option.bind_some,
    skip_zeros, bytes_zeros, List.cons_append, List.nil_append, u8_cons]
  cases k <;>
    simp [Kind.byte, require, skip3_cons, skip_zeros, bytes_zeros, kindToModel]

/-! ### entries -/

def hashToModel : Spec.Archive.Hash → Index.Hash
  | .split n p => .splitPath n p
  | .full h => .fullPath h

def entryToModel (e : Entry) : FileEntry :=
  { hash := hashToModel e.hash, data := { isSynonym := e.synonym, dataFileId := e.datId, offset := e.offset } }

theorem decode_word (syn : Bool) (d : UInt8) (o : UInt64) (hd : d < 8) (ho : o % 128 = 0)
    (hlt : o < 0x800000000) :
    decodeEntryData ((o >>> 3).toUInt32 ||| (d.toUInt32 <<< 1) ||| (if syn then 1 else 0)) =
      { isSynonym := syn, dataFileId := d, offset := o } := by
  cases syn <;> simp only [decodeEntryData, FileEntryData.mk.injEq] <;> refine ⟨?_, ?_, ?_⟩ <;> bv_decide (timeout := 300)

theorem decode_entryWord (e : Entry) (h : e.wf = true) :
    decodeEntryData (entryWord e) = { isSynonym := e.synonym, dataFileId := e.datId, offset := e.offset } := by
  simp only [Entry.wf, Bool.and_eq_true, decide_eq_true_eq, beq_iff_eq] at h
  exact decode_word e.synonym e.datId e.offset h.1.1 h.1.2 h.2

theorem readFileEntry_encode (k : Kind) (e : Entry) (hk : e.hash.kind = k) (h : e.wf = true) (rest : Bytes) :
    readFileEntry (kindToModel k) (encodeEntry e ++ rest) = some (entryToModel e, rest) := by
  rcases e with ⟨hash, syn, d, o⟩
  cases hash <;> simp only [Hash.kind] at hk <;> subst hk <;>
    simp only [kindToModel, readFileEntry, encodeEntry, List.append_assoc, u32le_put,
      Option.bind_eq_bind, Option.bind_some, decode_entryWord _ h, entryToModel, hashToModel]

theorem readEntries_encode (k : Kind) (es : List Entry)
    (h : ∀ e ∈ es, e.wf = true ∧ e.hash.kind = k) (rest : Bytes) :
    readEntries (kindToModel k) es.length (encodeEntries es ++ rest) = some (es.map entryToModel, rest) := by
  induction es with
  | nil => simp [readEntries, encodeEntries]
  | cons e es ih =>
    have he := h e (by simp)
    have ih' := ih (fun x hx => h x (by simp [hx]))
    simp only [encodeEntries, List.map_cons, List.flatten_cons, List.append_assoc, List.length_cons,
      readEntries] at ih' ⊢
    rw [readFileEntry_encode k e he.2 he.1]
    simp only [Option.bind_eq_bind, Option.bind_some, ih']

theorem encodeEntry_length (k : Kind) (e : Entry) (hk : e.hash.kind = k) :
    (encodeEntry e).length = recSize k := by
  rcases e with ⟨hash, syn, d, o⟩
  cases hash <;> simp only [Hash.kind] at hk <;> subst hk <;> simp [encodeEntry, recSize]

theorem encodeEntries_length (k : Kind) (es : List Entry) (h : ∀ e ∈ es, e.hash.kind = k) :
    (encodeEntries es).length = recSize k * es.length := by
  induction es with
  | nil => simp [encodeEntries]
  | cons e es ih =>
    have := ih (fun x hx => h x (by simp [hx]))
    simp only [encodeEntries, List.map_cons, List.flatten_cons, List.length_append, List.length_cons] at this ⊢
    rw [this, encodeEntry_length k e (h e (by simp))]
    simp [Nat.mul_add, Nat.add_comm]

/-! ### opaque record segments -/

theorem readRecords_ok (need pad : Nat) (hp : 0 < need + pad) :
    ∀ (n : Nat) (l : Bytes), n * (need + pad) ≤ l.length + pad → (readRecords need pad n l).isSome
  | 0, l, _ => by simp [readRecords]
  | n + 1, l, h => by
    have hl : need ≤ l.length := by
      have : (n + 1) * (need + pad) = n * (need + pad) + (need + pad) := by
        rw [Nat.add_mul, Nat.one_mul]
      omega
    simp only [readRecords, bytes_of_le need l hl, Option.bind_eq_bind, Option.bind_some]
    apply readRecords_ok need pad hp n
    have : (n + 1) * (need + pad) = n * (need + pad) + (need + pad) := by
      rw [Nat.add_mul, Nat.one_mul]
    simp only [skip, List.length_drop]
    omega

/-! ### whole files -/

theorem zeros_length (n : Nat) : (zeros n).length = n := by simp [zeros]

theorem encodeSqPackHeader_length (pl : Platform) : (encodeSqPackHeader pl).length = 1024 := by
  simp only [encodeSqPackHeader, Spec.Archive.sqpackMagic, List.length_append, zeros_length,
    putU32le_length, List.length_cons, List.length_nil]

theorem encodeDescriptor_length (c o s : UInt32) : (encodeDescriptor c o s).length = 72 := by
  simp only [encodeDescriptor, List.length_append, zeros_length, putU32le_length]

theorem encodeIndexHeader_length (k : Kind) (a b c d e f : UInt32) :
    (encodeIndexHeader k a b c d e f).length = 1024 := by
  simp only [encodeIndexHeader, encodeDescriptor_length, List.length_append, zeros_length,
    putU32le_length, List.length_cons, List.length_nil]

theorem toUInt32_toNat (n : Nat) (h : n < 4294967296) : n.toUInt32.toNat = n :=
  UInt32.toNat_ofNat_of_lt' h

def indexToModel (f : IndexFile) : SqPackIndex :=
  { indexType := kindToModel f.kind, entries := f.entries.map entryToModel }

theorem entrySize_toNat (k : Kind) : (entrySize (kindToModel k)).toNat = recSize k := by
  cases k <;> rfl

theorem parse_encodeIndex (f : IndexFile) (hwf : f.wf = true) :
    parse (encodeIndex f) = some (indexToModel f) := by
  simp only [IndexFile.wf, Bool.and_eq_true, List.all_eq_true, decide_eq_true_eq] at hwf
  obtain ⟨hents, hsize⟩ := hwf
  have hents' : ∀ e ∈ f.entries, e.wf = true ∧ e.hash.kind = f.kind := hents
  have hlen := encodeEntries_length f.kind f.entries (fun e he => (hents' e he).2)
  -- abbreviations
  generalize hE : encodeEntries f.entries = E at hlen
  have hElt : E.length < 4294967296 := by omega
  have hcount : (E.length.toUInt32 / entrySize (kindToModel f.kind)).toNat = f.entries.length := by
    rw [UInt32.toNat_div, toUInt32_toNat _ hElt, entrySize_toNat, hlen]
    have : 0 < recSize f.kind := by cases f.kind <;> decide
    exact Nat.mul_div_cancel_left _ this
  obtain ⟨r, hih⟩ := readIndexHeader_encode f.kind (2048 : Nat).toUInt32 E.length.toUInt32
    (2048 + E.length).toUInt32 f.dataSeg.length.toUInt32 (2048 + E.length + f.dataSeg.length).toUInt32
    f.folderSeg.length.toUInt32 (E ++ (f.dataSeg ++ f.folderSeg))
  have hH := encodeSqPackHeader_length f.platform
  have hI := encodeIndexHeader_length f.kind (2048 : Nat).toUInt32 E.length.toUInt32
    (2048 + E.length).toUInt32 f.dataSeg.length.toUInt32 (2048 + E.length + f.dataSeg.length).toUInt32
    f.folderSeg.length.toUInt32
  generalize hIH : encodeIndexHeader f.kind (2048 : Nat).toUInt32 E.length.toUInt32
    (2048 + E.length).toUInt32 f.dataSeg.length.toUInt32 (2048 + E.length + f.dataSeg.length).toUInt32
    f.folderSeg.length.toUInt32 = IH at hih hI
  generalize hHd : encodeSqPackHeader f.platform = H at hH
  have hwhole : encodeIndex f = H ++ (IH ++ (E ++ (f.dataSeg ++ f.folderSeg))) := by
    simp only [encodeIndex, hE, hIH, hHd, List.append_assoc]
  have hdrop1 : (encodeIndex f).drop 1024 = IH ++ (E ++ (f.dataSeg ++ f.folderSeg)) := by
    rw [hwhole, ← hH, List.drop_left]
  have hdrop2 : (encodeIndex f).drop 2048 = E ++ (f.dataSeg ++ f.folderSeg) := by
    rw [hwhole, ← List.append_assoc]
    have : (H ++ IH).length = 2048 := by simp [hH, hI]
    rw [← this, List.drop_left]
  have hdrop3 : (encodeIndex f).drop (2048 + E.length) = f.dataSeg ++ f.folderSeg := by
    rw [hwhole, ← List.append_assoc, ← List.append_assoc]
    have : (H ++ IH ++ E).length = 2048 + E.length := by simp [hH, hI]; omega
    rw [← this, List.drop_left]
  have hdrop4 : (encodeIndex f).drop (2048 + E.length + f.dataSeg.length) = f.folderSeg := by
    rw [hwhole, ← List.append_assoc, ← List.append_assoc, ← List.append_assoc]
    have : (H ++ IH ++ E ++ f.dataSeg).length = 2048 + E.length + f.dataSeg.length := by
      simp [hH, hI]; omega
    rw [← this, List.drop_left]
  have hrd1 : readSqPackHeader (encodeIndex f) =
      some ({ platformId := f.platform.id, size := 1024, version := 1, fileType := 2 },
            IH ++ (E ++ (f.dataSeg ++ f.folderSeg))) := by
    rw [hwhole, ← hHd]; exact readSqPackHeader_encode _ _
  have hents2 := readEntries_encode f.kind f.entries hents' (f.dataSeg ++ f.folderSeg)
  rw [hE] at hents2
  have hdata : (readRecords 256 0 (f.dataSeg.length.toUInt32 / 256).toNat (f.dataSeg ++ f.folderSeg)).isSome := by
    apply readRecords_ok 256 0 (by decide)
    rw [UInt32.toNat_div, toUInt32_toNat _ (by omega)]
    have : f.dataSeg.length / 256 * 256 ≤ f.dataSeg.length := Nat.div_mul_le_self _ _
    simp only [List.length_append]
    change f.dataSeg.length / 256 * (256 + 0) ≤ _
    omega
  have hfold : (readRecords 12 4 (f.folderSeg.length.toUInt32 / 16).toNat f.folderSeg).isSome := by
    apply readRecords_ok 12 4 (by decide)
    rw [UInt32.toNat_div, toUInt32_toNat _ (by omega)]
    have : f.folderSeg.length / 16 * 16 ≤ f.folderSeg.length := Nat.div_mul_le_self _ _
    change f.folderSeg.length / 16 * (12 + 4) ≤ _
    omega
  obtain ⟨d, hd⟩ := Option.isSome_iff_exists.mp hdata
  obtain ⟨g, hg⟩ := Option.isSome_iff_exists.mp hfold
  have h1024 : (1024 : UInt32).toNat = 1024 := rfl
  simp only [parse, hrd1, Option.bind_eq_bind, Option.bind_some, h1024, hdrop1, hih, hcount,
    toUInt32_toNat 2048 (by decide), hdrop2, hents2,
    toUInt32_toNat (2048 + E.length) (by omega), hdrop3, hd,
    toUInt32_toNat (2048 + E.length + f.dataSeg.length) (by omega), hdrop4, hg, indexToModel]

theorem parse_junk (bs : Bytes) (h : (bs.take 8 != Spec.Archive.sqpackMagic) = true) : parse bs = none := by
  have hm : magic Index.sqpackMagic bs = none := by
    simp only [magic, bytes]
    split
    · rename_i x r heq
      split at heq
      · simp only [Option.some.injEq, Prod.mk.injEq] at heq
        have : x = bs.take 8 := heq.1.symm
        subst this
        have hne : ¬ (List.take 8 bs == Index.sqpackMagic) = true := by
          simpa [bne, Spec.Archive.sqpackMagic, Index.sqpackMagic] using h
        simp [hne]
      · cases heq
    · rfl
  simp [parse, readSqPackHeader, hm]

/-! ### hashing and lookup -/

theorem checksum_eq (s : Bytes) : Crc.checksum s = jamcrc s := by
  simp only [Crc.checksum, jamcrc, Spec.Crc32.crcBitwise, Crc.final_eq, Crc.foldl_update_eq,
    Generated.jamcrcInit]

theorem calculateHash_eq (f : IndexFile) (p : Bytes) :
    calculateHash (indexToModel f) p = (hashOf f.kind (lower p)).map hashToModel := by
  cases hk : f.kind <;> simp only [calculateHash, indexToModel, hk, kindToModel, hashOf, checksum_eq]
  · cases rsplitOnce slash (lower p) with
    | none => rfl
    | some x => rfl
  · rfl

theorem hashToModel_inj (a b : Spec.Archive.Hash) : (hashToModel a == hashToModel b) = (a == b) := by
  rw [Bool.eq_iff_iff]
  simp only [beq_iff_eq]
  cases a <;> cases b <;> simp [hashToModel]

theorem find_map (es : List Entry) (h : Spec.Archive.Hash) :
    (es.map entryToModel).find? (fun s => s.hash == hashToModel h) =
      (es.find? (fun e => e.hash == h)).map entryToModel := by
  induction es with
  | nil => rfl
  | cons e es ih =>
    simp only [List.map_cons, List.find?_cons]
    have : ((entryToModel e).hash == hashToModel h) = (e.hash == h) := hashToModel_inj _ _
    rw [this]
    cases e.hash == h <;> simp [ih]

/-- `find_entry` on a parsed index file: panics exactly when the path has no hash under the file's
kind, otherwise returns the first entry with the path's hash -/
theorem findEntry_eq (f : IndexFile) (p : Bytes) :
    findEntry (indexToModel f) p =
      (hashOf f.kind (lower p)).map (fun _ =>
        (findIn f (lower p)).map (fun e => ({ dataFileId := e.datId, offset := e.offset } : IndexEntry))) := by
  simp only [findEntry, calculateHash_eq, findIn]
  cases hashOf f.kind (lower p) with
  | none => rfl
  | some h =>
    simp only [Option.map_some]
    have := find_map f.entries h
    simp only [indexToModel] at this ⊢
    rw [this]
    cases List.find? (fun e => e.hash == h) f.entries <;> rfl

end Physis.Index
