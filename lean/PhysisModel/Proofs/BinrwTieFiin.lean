import PhysisModel.Proofs.BinrwLemmas
import PhysisModel.Generated.BinrwFiin
import PhysisModel.Model.Fiin
/-!
T4 for `src/fiin.rs` (C10): `FIINEntry` (complete) and the translated prefix of `FileInfo`
(magic, endianness, `_unknown`, `entries_size`; the `entries` field has `count = <expression>`).
Two steps per struct as in `Proofs/BinrwTieIndex.lean`.
-/
namespace Physis.BinrwTie.Fiin
open Physis Physis.Binrw Physis.Reader Physis.Generated
open Physis.Spec.Fiin (Entry)

/-- `FIINEntry` declares no endianness: it is read inside `FileInfo` -/
abbrev endian : Endian := BinrwFiin.fileInfo.endianOr .little

namespace Expected
def fIINEntry : Layout :=
  .mk none .none [
    .mk "file_size" none .none 0 (.prim .i32) 0 0,
    .mk "file_name" none .none 4 (.bytes (.lit 64)) 0 0,     -- read type of the `map` closure: Vec<u8>
    .mk "sha1" none .none 0 (.bytes (.lit 24)) 0 0] true
/-- magic, `#[brw(little)]`, the two `i32` before `entries` -/
def fileInfoPrefix : Layout :=
  .mk (some .little) (.bytes [0x46, 0x69, 0x6c, 0x65, 0x49, 0x6e, 0x66, 0x6f]) [
    .mk "_unknown" none .none 16 (.prim .i32) 0 0,
    .mk "entries_size" none .none 0 (.prim .i32) 0 0] false
end Expected

theorem endian_generated : endian = .little := rfl
theorem fIINEntry_generated :
    BinrwFiin.fIINEntry.normalizeAt .little = Expected.fIINEntry.normalizeAt .little := rfl
theorem fileInfo_generated :
    BinrwFiin.fileInfo.normalizeAt .little = Expected.fileInfoPrefix.normalizeAt .little := rfl

/-- the `map` closure of `file_name` is applied by the projection -/
def entryOf : List Value → Option Entry
  | [.w32 .i32 sz, .bytes raw, .bytes sha] =>
    some ⟨sz, Physis.Fiin.trimNul (Utf8Lossy.fromUtf8Lossy raw), sha⟩
  | _ => none

def toRes {α : Type} : Option α → Physis.Fiin.Res α
  | some a => .ok a
  | none => .none

theorem readEntry_eq_expected (bs : Bytes) :
    Physis.Fiin.readEntry bs = toRes (via entryOf (Layout.read .little Expected.fIINEntry bs)) := by
  binrw_norm [Expected.fIINEntry]
  unfold Physis.Fiin.readEntry
  rcases bs with _ | ⟨a, _ | ⟨b, _ | ⟨c, _ | ⟨d, r⟩⟩⟩⟩ <;> try rfl
  simp only [Physis.Fiin.takeN, u32le, bytes, getU32le]
  have h4 : 4 ≤ (a :: b :: c :: d :: r).length := by simp
  simp only [h4, if_true, List.take_succ_cons, List.take_zero, List.drop_succ_cons, List.drop_zero,
    Option.bind_some]
  by_cases h1 : 64 ≤ (List.drop 4 r).length <;>
    simp only [h1, if_true, if_false, Option.bind_some, Option.bind_none] <;> try rfl
  by_cases h2 : 24 ≤ (List.drop 64 (List.drop 4 r)).length <;>
    simp only [h2, if_true, if_false, Option.bind_some, Option.bind_none] <;> rfl

theorem u32le_none {l : Bytes} (h : u32le l = none) : bytes 4 l = none := by
  rcases l with _ | ⟨a, _ | ⟨b, _ | ⟨c, _ | ⟨d, r⟩⟩⟩⟩ <;> simp [u32le, bytes] at h ⊢

theorem u32le_some {l : Bytes} {v : UInt32} {r : Bytes} (h : u32le l = some (v, r)) :
    ∃ x, bytes 4 l = some (x, r) ∧ getU32le x = some v := by
  rcases l with _ | ⟨a, _ | ⟨b, _ | ⟨c, _ | ⟨d, r'⟩⟩⟩⟩ <;> simp [u32le, bytes] at h ⊢
  obtain ⟨h1, h2⟩ := h
  subst h2
  exact ⟨[a, b, c, d], ⟨rfl, rfl⟩, by simp [getU32le, h1]⟩

/-- what `FileInfo::read` does after the translated prefix: `pad_before = 992`,
`count = entries_size / 96` (i32 division, `usize::try_from`), the entries -/
def rest : List Value × Bytes → Physis.Fiin.Res (List Entry)
  | ([.w32 .i32 _, .w32 .i32 entriesSize], bs) =>
    let count : Int := Int.tdiv entriesSize.toInt32.toInt 96
    if count < 0 then .none else Physis.Fiin.readEntries count.toNat (bs.drop 992)
  | _ => .none

theorem parse_eq_expected (buffer : Bytes) :
    Physis.Fiin.parse buffer =
      match Layout.read .little Expected.fileInfoPrefix buffer with
      | some x => rest x
      | none => .none := by
  binrw_norm [Expected.fileInfoPrefix, magic]
  unfold Physis.Fiin.parse
  show (match bytes 8 buffer with | none => _ | some (m, bs) => _) = _
  cases h8 : bytes 8 buffer with
  | none => rfl
  | some p =>
    obtain ⟨m, bs⟩ := p
    by_cases hm : m = [0x46, 0x69, 0x6c, 0x65, 0x49, 0x6e, 0x66, 0x6f]
    · subst hm
      simp only [ne_eq, not_true_eq_false, if_false, Option.bind_some, BEq.rfl, if_true, List.length_cons, List.length_nil]
      cases h1 : u32le (List.drop 16 bs) with
      | none => simp only [show Physis.Fiin.takeN 4 (List.drop 16 bs) = none from u32le_none h1, Option.bind_none]
      | some q =>
        obtain ⟨v1, r1⟩ := q
        obtain ⟨x1, hx1, _⟩ := u32le_some h1
        simp only [show Physis.Fiin.takeN 4 (List.drop 16 bs) = some (x1, r1) from hx1, Option.bind_some]
        cases h2 : u32le r1 with
        | none => simp only [show Physis.Fiin.takeN 4 r1 = none from u32le_none h2, Option.bind_none]
        | some q2 =>
          obtain ⟨v2, r2⟩ := q2
          obtain ⟨x2, hx2, hg2⟩ := u32le_some h2
          simp only [show Physis.Fiin.takeN 4 r1 = some (x2, r2) from hx2, hg2, Option.bind_some, rest]
    · have : (m == [0x46, 0x69, 0x6c, 0x65, 0x49, 0x6e, 0x66, 0x6f]) = false := by simpa using hm
      simp only [ne_eq, hm, not_false_eq_true, if_true, this, Bool.false_eq_true, if_false, Option.bind_none,
        List.length_cons, List.length_nil]

/-! ### the tie -/

theorem readEntry_eq_generated (bs : Bytes) :
    Physis.Fiin.readEntry bs = toRes (via entryOf (Layout.read endian BinrwFiin.fIINEntry bs)) := by
  rw [endian_generated, Layout.read_congr _ fIINEntry_generated]; exact readEntry_eq_expected bs

theorem parse_eq_generated (buffer : Bytes) :
    Physis.Fiin.parse buffer =
      match Layout.read .little BinrwFiin.fileInfo buffer with
      | some x => rest x
      | none => .none := by
  rw [Layout.read_congr _ fileInfo_generated]; exact parse_eq_expected buffer

end Physis.BinrwTie.Fiin
