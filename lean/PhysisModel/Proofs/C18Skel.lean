import PhysisModel.Base.ParserALemmas
import PhysisModel.Base.ParserASkelLemmas
import PhysisModel.Model.C18Skel
import PhysisModel.Proofs.C18Hdr
/-! `Good` for `tera`, `pbd`, `pbd` + `get_deform_matrices` (including: the fuel of the walk is never
used up — termination). -/
namespace Physis.C18Skel
open Physis Physis.A Physis.C18Hdr

/-! ## tera -/

theorem platePosition_good : PGood platePosition := by unfold platePosition; pgood

theorem terrainHeader_good : PGood terrainHeader := by
  have := u32leNat_good; have := platePosition_good
  unfold terrainHeader; pgood

theorem terrainHeader_post : PPost terrainHeader (fun h => h.positions.size = h.plateCount) := by
  unfold terrainHeader
  refine PPost.bind_skip (fun _ => ?_)
  refine PPost.bind_skip (fun n => ?_)
  refine PPost.bind_skip (fun _ => ?_)
  refine PPost.bind_skip (fun _ => ?_)
  refine PPost.bind_skip (fun _ => ?_)
  refine PPost.bind_skip (fun _ => ?_)
  refine PPost.bind (Q1 := fun l => l.length = n) (PPost.count_length _ _) (fun l hl => ?_)
  exact PPost.pure (by simp [hl])

theorem platesLoop_good (pos : Array (UInt16 × UInt16)) (B : Nat) :
    ∀ n i, i + n ≤ pos.size → Good B (platesLoop pos n i) := by
  intro n
  induction n with
  | zero => intro i _; unfold platesLoop; exact good_ok _ _
  | succ n ih =>
    intro i h
    unfold platesLoop
    have hi : i < pos.size := by omega
    rw [Array.getElem?_eq_getElem hi]
    exact ih (i + 1) (by omega)

theorem tera_good (b : Bytes) : Good (budget b.length) (tera b) := by
  unfold tera
  apply Good.bind (PGood.run terrainHeader_good b); intro h hh
  have hp := PPost.run terrainHeader_post hh
  apply Good.bind' (platesLoop_good _ _ _ _ (by omega)); intro _
  exact good_pure _ _

/-! ## pbd: parsing -/

/-- what `get_deform_matrices` relies on: the three vectors of a parsed deformer have `bone_count`
elements -/
def DeformerWF (d : Deformer) : Prop := d.names = d.boneCount ∧ d.transforms = d.boneCount

def HeaderWF (h : Header) : Prop := ∀ it ∈ h.items, DeformerWF it.deformer

theorem i32Count_good (v : UInt32) : PGood (i32Count v) := by
  unfold i32Count; split
  · exact PGood.pure _
  · exact PGood.failP

theorem nameAt_good (base : Nat) (hb : base < 2147483648) (off : UInt16) : PGood (nameAt base off) := by
  unfold nameAt
  apply PGood.bind
  · apply PGood.lift; intro B _
    apply good_addC
    have := UInt16.toNat_lt off
    simp only [U64MAX]; omega
  · intro so
    apply PGood.bind (PGood.seekStart _); intro _
    exact PGood.cstr

theorem stringsParser_good (base : Nat) (offs : List UInt16) (hb : base < 2147483648) :
    PGood (stringsParser base offs) :=
  PGood.forEach offs (nameAt_good base hb)

theorem stringsParser_post (base : Nat) (offs : List UInt16) :
    PPost (stringsParser base offs) (fun m => m = offs.length) :=
  PPost.forEach_count offs _

section parser
variable {strings : Nat → List UInt16 → P Nat}

theorem deformerWith_good (hs : ∀ base offs, base < 2147483648 → PGood (strings base offs))
    (base : Nat) (hb : base < 2147483648) : PGood (deformerWith strings base) := by
  unfold deformerWith
  apply PGood.bind PGood.u32le; intro bc
  apply PGood.bind (i32Count_good bc); intro n
  apply PGood.bind (PGood.count n PGood.u16le); intro offs
  apply PGood.bind (PGood.restorePosition (hs base offs hb)); intro names
  apply PGood.bind (PGood.ifCond PGood.u16le); intro _
  apply PGood.bind (PGood.count n (PGood.bytes 48)); intro tr
  exact PGood.pure _

theorem deformerWith_post (hp : ∀ base offs, PPost (strings base offs) (fun m => m = offs.length))
    (base : Nat) : PPost (deformerWith strings base) DeformerWF := by
  unfold deformerWith
  refine PPost.bind_skip (fun bc => ?_)
  refine PPost.bind_skip (fun n => ?_)
  refine PPost.bind (Q1 := fun l => l.length = n) (PPost.count_length _ _) (fun offs ho => ?_)
  refine PPost.bind (Q1 := fun m => m = offs.length) (PPost.restorePosition (hp base offs)) (fun names hn => ?_)
  refine PPost.bind_skip (fun _ => ?_)
  refine PPost.bind (Q1 := fun l => l.length = n) (PPost.count_length _ _) (fun tr ht => ?_)
  exact PPost.pure ⟨by simp only; omega, by simp only; omega⟩

theorem deformerAtWith_good (hs : ∀ base offs, base < 2147483648 → PGood (strings base offs))
    (v : UInt32) : PGood (deformerAtWith strings v) := by
  unfold deformerAtWith
  split
  · next h =>
    apply PGood.bind (PGood.seekStart _); intro _
    exact deformerWith_good hs _ h
  · exact PGood.eofP

theorem deformerAtWith_post (hp : ∀ base offs, PPost (strings base offs) (fun m => m = offs.length))
    (v : UInt32) : PPost (deformerAtWith strings v) DeformerWF := by
  unfold deformerAtWith
  split
  · exact PPost.bind_skip (fun _ => deformerWith_post hp _)
  · exact PPost.eofP

theorem itemWith_good (hs : ∀ base offs, base < 2147483648 → PGood (strings base offs)) :
    PGood (itemWith strings) := by
  unfold itemWith
  apply PGood.bind u16leNat_good; intro body
  apply PGood.bind PGood.u16le; intro link
  apply PGood.bind PGood.u32le; intro off
  apply PGood.bind (PGood.skip 4); intro _
  apply PGood.bind (PGood.restorePosition (deformerAtWith_good hs off)); intro d
  exact PGood.pure _

theorem itemWith_post (hp : ∀ base offs, PPost (strings base offs) (fun m => m = offs.length)) :
    PPost (itemWith strings) (fun it => DeformerWF it.deformer) := by
  unfold itemWith
  refine PPost.bind_skip (fun body => ?_)
  refine PPost.bind_skip (fun link => ?_)
  refine PPost.bind_skip (fun off => ?_)
  refine PPost.bind_skip (fun _ => ?_)
  refine PPost.bind (Q1 := DeformerWF) (PPost.restorePosition (deformerAtWith_post hp off)) (fun d hd => ?_)
  exact PPost.pure hd

theorem link_good : PGood link := by
  have := u16leNat_good
  unfold link; pgood

theorem headerWith_good (hs : ∀ base offs, base < 2147483648 → PGood (strings base offs)) :
    PGood (headerWith strings) := by
  unfold headerWith
  apply PGood.bind PGood.u32le; intro c
  apply PGood.bind (i32Count_good c); intro n
  apply PGood.bind (PGood.count n (itemWith_good hs)); intro items
  apply PGood.bind (PGood.count n link_good); intro links
  exact PGood.pure _

theorem headerWith_post (hp : ∀ base offs, PPost (strings base offs) (fun m => m = offs.length)) :
    PPost (headerWith strings) HeaderWF := by
  unfold headerWith
  refine PPost.bind_skip (fun c => ?_)
  refine PPost.bind_skip (fun n => ?_)
  refine PPost.bind (Q1 := fun l => ∀ x ∈ l, DeformerWF x.deformer)
    (PPost.count_all n (itemWith_post hp)) (fun items hi => ?_)
  refine PPost.bind_skip (fun links => ?_)
  refine PPost.pure ?_
  intro it hit
  exact hi it (by simpa using hit)

end parser

theorem header_good : PGood header := headerWith_good stringsParser_good
theorem header_post : PPost header HeaderWF := headerWith_post stringsParser_post

theorem pbd_good (b : Bytes) : Good (budget b.length) (pbd b) := PGood.run header_good b

/-! ## pbd: `get_deform_matrices` -/

theorem bonesLoop_good (d : Deformer) (B : Nat) :
    ∀ n i, i + n ≤ d.names → i + n ≤ d.transforms → Good B (bonesLoop d n i) := by
  intro n
  induction n with
  | zero => intro i _ _; unfold bonesLoop; exact good_ok _ _
  | succ n ih =>
    intro i h1 h2
    unfold bonesLoop
    rw [if_pos ⟨by omega, by omega⟩]
    exact ih (i + 1) (by omega) (by omega)

theorem bonesLoop_wf (d : Deformer) (B : Nat) (hd : DeformerWF d) : Good B (bonesLoop d d.boneCount 0) :=
  bonesLoop_good d B _ _ (by have := hd.1; omega) (by have := hd.2; omega)

/-- the walk is fault-free, and in particular **never runs out of fuel**, as soon as
`fuel + steps > links.len()`: every further round increases `steps`, and the Rust code returns `None`
when `steps` reaches `links.len()` -/
theorem walk_good (h : Header) (hw : HeaderWF h) (to B : Nat) :
    ∀ (fuel : Nat) (item : Item) (next : Link) (steps : Nat),
      DeformerWF item.deformer → 1 ≤ fuel → h.links.size + 1 ≤ fuel + steps →
      Good B (walk h to fuel item next steps) := by
  intro fuel
  induction fuel with
  | zero => intro item next steps _ h1 _; omega
  | succ fuel ih =>
    intro item next steps hd _ hf
    have hb := bonesLoop_wf item.deformer B hd
    unfold walk
    split
    · split
      · exact good_ok _ _
      · simp only []
        split
        · exact good_fail _
        · next hlt =>
          split
          · exact good_fail _
          · next next' _ =>
            split
            · exact good_fail _
            · next item' hitem =>
              split
              · exact good_ok _ _
              · refine ih item' next' (steps + 1) ?_ (by omega) (by omega)
                exact hw item' (Array.mem_of_getElem? hitem)
    · next e k heq =>
      rw [heq] at hb
      exact ⟨not_faults_fail _ _, hb.2⟩
    · next x k heq =>
      rw [heq] at hb
      exact absurd ⟨x, rfl⟩ hb.1

theorem getDeformMatrices_good (h : Header) (hw : HeaderWF h) (frm to B : Nat) :
    Good B (getDeformMatrices h frm to) := by
  unfold getDeformMatrices
  split
  · exact good_fail _
  · split
    · exact good_fail _
    · next item hitem =>
      split
      · exact good_fail _
      · next next _ =>
        split
        · exact good_fail _
        · refine walk_good h hw to B _ item next 0 ?_ (by omega) (by omega)
          exact hw item (Array.mem_of_find?_eq_some hitem)

theorem pbdDeform_good (b : Bytes) (frm to : Nat) : Good (budget b.length) (pbdDeform b frm to) := by
  unfold pbdDeform
  apply Good.bind (pbd_good b); intro h hh
  exact getDeformMatrices_good h (PPost.run header_post hh) frm to _

end Physis.C18Skel
