import PhysisModel.Proofs.ExcelRow
/-!
C05 helper lemmas, part 5: the EXD header / index round trip and the lookup of a row id.
-/
namespace Physis.Proofs.Excel
open Physis Physis.ParserBE Physis.Spec.Excel Physis.Exh Physis.Exd

/-- the index the reader must obtain: row ids with the absolute offsets of their chunks -/
def indexEntries : List (UInt32 × Bytes) → Nat → List ExcelDataOffset
  | [], _ => []
  | (id, chunk) :: rest, base => ⟨id, UInt32.ofNat base⟩ :: indexEntries rest (base + chunk.length)

theorem reads_pDataOffset (id off : UInt32) :
    Reads pDataOffset (putU32be id ++ putU32be off) ⟨id, off⟩ := by
  unfold pDataOffset
  simp only [bind_eq, pure_eq]
  refine Reads.bind (reads_u32be _) ?_
  have := Reads.bind (f := fun o => P.pure (⟨id, o⟩ : ExcelDataOffset)) (reads_u32be off) (Reads.pure _)
  simpa only [List.append_nil] using this

theorem reads_index : ∀ (chunks : List (UInt32 × Bytes)) (base : Nat),
    Reads (count pDataOffset chunks.length) (encodeIndex chunks base) (indexEntries chunks base)
  | [], _ => Reads.pure []
  | (id, chunk) :: rest, base => by
    simp only [List.length_cons, count, encodeIndex, indexEntries]
    refine Reads.bind (reads_pDataOffset id _) ?_
    have := Reads.bind (f := fun as => P.pure ((⟨id, UInt32.ofNat base⟩ : ExcelDataOffset) :: as))
      (reads_index rest (base + chunk.length)) (Reads.pure _)
    simpa only [List.append_nil] using this

theorem encodeIndex_length : ∀ (chunks : List (UInt32 × Bytes)) (base : Nat),
    (encodeIndex chunks base).length = 8 * chunks.length
  | [], _ => rfl
  | (id, chunk) :: rest, base => by
    simp only [encodeIndex, List.length_append, putU32be_length, encodeIndex_length rest,
      List.length_cons]
    omega

theorem encodeExdHeader_length (a b : Nat) : (encodeExdHeader a b).length = 32 := by
  simp [encodeExdHeader, Spec.Excel.exdMagic]

theorem div8 (n : Nat) (h : 8 * n < 4294967296) : (UInt32.ofNat (8 * n) / 8).toNat = n := by
  rw [UInt32.toNat_div, UInt32.toNat_ofNat', Nat.mod_eq_of_lt h]
  show 8 * n / 8 = n
  omega

/-- what `EXD::from_existing` must return on `encodeExd s rows` -/
def toExd (s : Schema) (rows : List Row) : EXD :=
  { version := exdVersion, indexSize := UInt32.ofNat (8 * rows.length),
    dataOffsets := indexEntries (chunksOf s rows) (32 + 8 * rows.length),
    data := encodeExd s rows }

theorem exd_parse (s : Schema) (rows : List Row) (h : 8 * rows.length < 4294967296) :
    Exd.fromExisting (encodeExd s rows) = some (toExd s rows) := by
  have hidx := reads_index (chunksOf s rows) (32 + 8 * rows.length)
    (((chunksOf s rows).map (·.2)).flatten)
  have hlen : (chunksOf s rows).length = rows.length := by simp [chunksOf]
  rw [hlen] at hidx
  have hhead : pExdHead (encodeExd s rows) = some ((exdVersion, UInt32.ofNat (8 * rows.length),
      indexEntries (chunksOf s rows) (32 + 8 * rows.length)), ((chunksOf s rows).map (·.2)).flatten) := by
    simp only [pExdHead, encodeExd, encodeExdHeader, Spec.Excel.exdMagic, Exd.exdMagic, putU16be,
      putU32be, List.replicate, bind_eq, pure_eq, P.bind, P.pure, List.cons_append, List.nil_append,
      magic, skip, List.take, List.drop, List.length, u16be_put, u32be_put, if_true, div8 _ h, hidx]
  simp only [Exd.fromExisting, hhead, toExd]

theorem encodeExd_length (s : Schema) (rows : List Row) :
    (encodeExd s rows).length = 32 + 8 * rows.length + (((chunksOf s rows).map (·.2)).flatten).length := by
  simp only [encodeExd, List.length_append, encodeExdHeader_length, encodeIndex_length]
  simp [chunksOf]

theorem find_index : ∀ (pre : List (UInt32 × Bytes)) (post : List (UInt32 × Bytes)) (id : UInt32)
    (chunk : Bytes) (base : Nat), id ∉ pre.map (·.1) →
    (indexEntries (pre ++ (id, chunk) :: post) base).find? (fun o => o.rowId == id)
      = some ⟨id, UInt32.ofNat (base + (pre.map (·.2)).flatten.length)⟩
  | [], post, id, chunk, base, _ => by
    simp [indexEntries]
  | (id', c') :: pre, post, id, chunk, base, h => by
    simp only [List.map_cons, List.mem_cons, not_or] at h
    have hne : (id' == id) = false := by
      simp only [beq_eq_false_iff_ne, ne_eq]; exact fun e => h.1 e.symm
    simp only [List.cons_append, indexEntries, List.find?_cons, hne, List.map_cons,
      List.flatten_cons, List.length_append]
    rw [find_index pre post id chunk _ h.2, Nat.add_assoc]

theorem find_index_none : ∀ (chunks : List (UInt32 × Bytes)) (id : UInt32) (base : Nat),
    id ∉ chunks.map (·.1) → (indexEntries chunks base).find? (fun o => o.rowId == id) = none
  | [], _, _, _ => rfl
  | (id', c') :: rest, id, base, h => by
    simp only [List.map_cons, List.mem_cons, not_or] at h
    have hne : (id' == id) = false := by
      simp only [beq_eq_false_iff_ne, ne_eq]; exact fun e => h.1 e.symm
    simp only [indexEntries, List.find?_cons, hne]
    exact find_index_none rest id _ h.2

end Physis.Proofs.Excel
