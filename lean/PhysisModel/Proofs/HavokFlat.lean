import PhysisModel.Proofs.HavokStd
/-!
Objects of ARBITRARY types whose present members are scalars (BYTE, INT, REAL, STRING, OBJECT) or flat
arrays (of those, or of vectors): the reader returns exactly the stored values, default values for the
absent members, the encoder's string table, and stops behind the object.  (STRUCT arrays: only for the
standard classes, `Proofs/HavokStd.lean`.)
-/
namespace Physis.Havok
open Physis.Spec.HavokTag

/-- the value the reader builds for a present flat member -/
def flatValue : Val → Option Value
  | .byte v => some (.int v.toNat)
  | .int v => some (.int v)
  | .real v => some (.real v)
  | .str s => some (.str s)
  | .ref i => some (.ref i)
  | .bytes l => some (.arr (l.map fun v => Value.int v.toNat))
  | .ints _ l => some (.arr (l.map Value.int))
  | .reals l => some (.arr (l.map Value.real))
  | .strs l => some (.arr (l.map Value.str))
  | .refs l => some (.arr (l.map Value.ref))
  | .vecs l => some (.arr (l.map Value.vec))
  | _ => none

/-- `refBound` after the member: every object index that was read -/
def boundAfter (rb : Nat) : Val → Nat
  | .ref i => max rb (i + 1)
  | .refs l => l.foldl (fun rb i => max rb (i + 1)) rb
  | _ => rb

/-- a present flat member fits its declared type (`Spec.HavokTag.fieldOK` without the struct case and
with the bound an object index needs to be written at all) -/
def flatOK (m : MemberDecl) : Val → Prop
  | .byte _ => m.ty = 1
  | .int v => m.ty = 2 ∧ InRange v
  | .real _ => m.ty = 3
  | .str s => m.ty = 10 ∧ okString s = true
  | .ref i => m.ty = 8 ∧ i < 2 ^ 31
  | .bytes l => Spec.HavokTag.isArray m.ty = true ∧ Spec.HavokTag.baseType m.ty = 1 ∧ l.length < 2 ^ 31
  | .ints k l => Spec.HavokTag.isArray m.ty = true ∧ Spec.HavokTag.baseType m.ty = 2 ∧ l.length < 2 ^ 31 ∧
      InRange k ∧ ∀ v ∈ l, InRange v
  | .reals l => Spec.HavokTag.isArray m.ty = true ∧ Spec.HavokTag.baseType m.ty = 3 ∧ l.length < 2 ^ 31
  | .strs l => Spec.HavokTag.isArray m.ty = true ∧ Spec.HavokTag.baseType m.ty = 10 ∧ l.length < 2 ^ 31 ∧
      ∀ s ∈ l, okString s = true
  | .refs l => Spec.HavokTag.isArray m.ty = true ∧ Spec.HavokTag.baseType m.ty = 8 ∧ l.length < 2 ^ 31 ∧
      ∀ i ∈ l, i < 2 ^ 31
  | .vecs l => Spec.HavokTag.isArray m.ty = true ∧ 4 ≤ Spec.HavokTag.baseType m.ty ∧
      Spec.HavokTag.baseType m.ty ≤ 7 ∧ l.length < 2 ^ 31 ∧
      ∀ v ∈ l, v.length = Spec.HavokTag.vecSize (Spec.HavokTag.baseType m.ty)
  | _ => False

/-! ### the remaining list readers -/

theorem readReals_enc (st : St) : ∀ (l : List UInt32) (r : Bytes),
    readMany readRealV l.length st ((l.map f32le).flatten ++ r) = some (l.map Value.real, st, r) := by
  intro l
  induction l with
  | nil => intro r; simp [readMany]
  | cons v t ih =>
    intro r
    simp only [List.length_cons, readMany, List.map_cons, List.flatten_cons, List.append_assoc, readRealV,
      readF32_put, Option.map_some, ih r]

theorem readRefs_enc (p : Enc) : ∀ (l : List Nat) (st : St) (r : Bytes), (∀ i ∈ l, i < 2 ^ 31) →
    readMany readRefV l.length st ((l.map fun i => p.nat i).flatten ++ r) =
      some (l.map Value.ref, { st with refBound := l.foldl (fun rb i => max rb (i + 1)) st.refBound }, r) := by
  intro l
  induction l with
  | nil => intro st r _; simp [readMany]
  | cons i t ih =>
    intro st r h
    have hi := h i (by simp)
    have ht : ∀ x ∈ t, x < 2 ^ 31 := fun x hx => h x (by simp [hx])
    have := ih (st.noteRef i) r ht
    simp only [St.noteRef] at this
    simp only [List.length_cons, readMany, List.map_cons, List.flatten_cons, List.append_assoc, readRefV,
      readNat p i _ hi, asIndex_nat, St.noteRef, this, List.foldl_cons]

theorem reals_length (l : List UInt32) : l.length ≤ ((l.map f32le).flatten).length := by
  induction l with
  | nil => simp
  | cons a t ih =>
    simp only [List.map_cons, List.flatten_cons, List.length_cons, List.length_append, f32le, putU32le_length]
    omega

theorem refs_length (p : Enc) (l : List Nat) : l.length ≤ ((l.map fun i => p.nat i).flatten).length := by
  induction l with
  | nil => simp
  | cons a t ih =>
    have := nat_length_pos p a
    simp only [List.map_cons, List.flatten_cons, List.length_cons, List.length_append]
    omega

theorem encString_length (p : Enc) (tbl : List Bytes) (s : Bytes) : 1 ≤ (encString p tbl s).1.length := by
  have h1 := nat_length_pos p s.length
  unfold encString
  split
  · split
    · exact int_length_pos p _
    · simp only [List.length_append]; omega
  · simp only [List.length_append]; omega

theorem strs_length (p : Enc) : ∀ (l : List Bytes) (tbl : List Bytes), l.length ≤ (encStrings p tbl l).1.length := by
  intro l
  induction l with
  | nil => intro _; simp [encStrings]
  | cons s t ih =>
    intro tbl
    have h1 := encString_length p tbl s
    have h2 := ih (encString p tbl s).2
    simp only [encStrings, List.length_cons, List.length_append]
    omega

theorem vecsK_length (k : Nat) (hk : 1 ≤ k) : ∀ l : List (List UInt32), (∀ v ∈ l, v.length = k) →
    l.length ≤ ((l.map fun v => (v.map f32le).flatten).flatten).length := by
  intro l
  induction l with
  | nil => intro _; simp
  | cons a t ih =>
    intro h
    have ha := h a (by simp)
    have ht := ih (fun v hv => h v (by simp [hv]))
    have := reals_length a
    simp only [List.map_cons, List.flatten_cons, List.length_cons, List.length_append]
    omega

/-! ### one present member -/

theorem toM_ty (m : MemberDecl) : (toM m).ty = m.ty := rfl

theorem readField_flat (p : Enc) (fuel : Nat) (st : St) (m : MemberDecl) (v : Val) (val : Value) (r : Bytes)
    (hver : st.ver = 3) (hok : flatOK m v) (hval : flatValue v = some val) :
    readMemberValue (fuel + 1) st (toM m) ((encField p st.strings m.ty v).1 ++ r) =
      some (val, { st with strings := (encField p st.strings m.ty v).2,
                           refBound := boundAfter st.refBound v }, r) := by
  cases v with
  | absent => exact absurd hok id
  | structs n cols => exact absurd hok id
  | byte b =>
    have hty : m.ty = 1 := hok
    simp only [flatValue, Option.some.injEq] at hval; subst hval
    simp [encField, encBody, readMemberValue, toM_ty, hty, Havok.isArray, Spec.HavokTag.isArray, readByteV, readU8,
      boundAfter]
  | int x =>
    obtain ⟨hty, hx⟩ := hok
    simp only [flatValue, Option.some.injEq] at hval; subst hval
    simp [encField, encBody, readMemberValue, toM_ty, hty, Havok.isArray, Spec.HavokTag.isArray, readIntV,
      readInt p x r hx, boundAfter]
  | real x =>
    have hty : m.ty = 3 := hok
    simp only [flatValue, Option.some.injEq] at hval; subst hval
    simp [encField, encBody, readMemberValue, toM_ty, hty, Havok.isArray, Spec.HavokTag.isArray, readRealV,
      readF32_put, boundAfter]
  | str x =>
    obtain ⟨hty, hx⟩ := hok
    simp only [flatValue, Option.some.injEq] at hval; subst hval
    simp [encField, encBody, readMemberValue, toM_ty, hty, Havok.isArray, Spec.HavokTag.isArray, readStringV,
      readString_enc p st x r hx, boundAfter]
  | ref i =>
    obtain ⟨hty, hi⟩ := hok
    simp only [flatValue, Option.some.injEq] at hval; subst hval
    simp [encField, encBody, readMemberValue, toM_ty, hty, Havok.isArray, Spec.HavokTag.isArray, readRefV,
      readNat p i r hi, asIndex_nat, St.noteRef, boundAfter]
  | bytes l =>
    obtain ⟨ha, hb, hl⟩ := hok
    simp only [flatValue, Option.some.injEq] at hval; subst hval
    simp only [encField, ha, Val.present, Bool.and_true, if_true, encBody, Val.len, List.append_assoc]
    rw [readMemberValue_arr p _ _ _ _ _ (by rw [toM_ty, isArray_eq]; exact ha) hl (le_append_left _ _ _ (Nat.le_refl _)),
      readArray_byte _ _ _ _ _ (by rw [toM_ty, baseType_eq]; exact hb), readBytes_enc]
    simp [boundAfter]
  | ints k l =>
    obtain ⟨ha, hb, hl, hk, hv⟩ := hok
    simp only [flatValue, Option.some.injEq] at hval; subst hval
    simp only [encField, ha, Val.present, Bool.and_true, if_true, encBody, Val.len, List.append_assoc]
    rw [readMemberValue_arr p _ _ _ _ _ (by rw [toM_ty, isArray_eq]; exact ha) hl
        (le_append_right _ _ _ (le_append_left _ _ _ (ints_length p l))),
      readArray_int _ _ _ _ _ (by rw [toM_ty, baseType_eq]; exact hb) hver, readInt p k _ hk]
    simp [readInts_enc p st l r hv, boundAfter]
  | reals l =>
    obtain ⟨ha, hb, hl⟩ := hok
    simp only [flatValue, Option.some.injEq] at hval; subst hval
    simp only [encField, ha, Val.present, Bool.and_true, if_true, encBody, Val.len, List.append_assoc]
    rw [readMemberValue_arr p _ _ _ _ _ (by rw [toM_ty, isArray_eq]; exact ha) hl
        (le_append_left _ _ _ (reals_length l)),
      readArray_real _ _ _ _ _ (by rw [toM_ty, baseType_eq]; exact hb), readReals_enc]
    simp [boundAfter]
  | strs l =>
    obtain ⟨ha, hb, hl, hs⟩ := hok
    simp only [flatValue, Option.some.injEq] at hval; subst hval
    simp only [encField, ha, Val.present, Bool.and_true, if_true, encBody, Val.len, List.append_assoc]
    rw [readMemberValue_arr p _ _ _ _ _ (by rw [toM_ty, isArray_eq]; exact ha) hl
        (le_append_left _ _ _ (strs_length p l st.strings)),
      readArray_str _ _ _ _ _ (by rw [toM_ty, baseType_eq]; exact hb), readStrings_enc p l st r hs]
    simp [boundAfter]
  | refs l =>
    obtain ⟨ha, hb, hl, hi⟩ := hok
    simp only [flatValue, Option.some.injEq] at hval; subst hval
    simp only [encField, ha, Val.present, Bool.and_true, if_true, encBody, Val.len, List.append_assoc]
    rw [readMemberValue_arr p _ _ _ _ _ (by rw [toM_ty, isArray_eq]; exact ha) hl
        (le_append_left _ _ _ (refs_length p l)),
      readArray_ref _ _ _ _ _ (by rw [toM_ty, baseType_eq]; exact hb), readRefs_enc p l st r hi]
    simp [boundAfter]
  | vecs l =>
    obtain ⟨ha, hb4, hb7, hl, hv⟩ := hok
    simp only [flatValue, Option.some.injEq] at hval; subst hval
    simp only [encField, ha, Val.present, Bool.and_true, if_true, encBody, Val.len, List.append_assoc]
    rw [readMemberValue_arr p _ _ _ _ _ (by rw [toM_ty, isArray_eq]; exact ha) hl
        (le_append_left _ _ _ (vecsK_length _ (by simp only [Spec.HavokTag.vecSize]; omega) l hv)),
      readArray_vec _ _ _ _ _ (by rw [toM_ty, baseType_eq]; exact ⟨hb4, hb7⟩),
      readVecs_enc st _ l r (by rw [toM_ty, baseType_eq]; exact hv)]
    simp [boundAfter]

/-! ### absent members -/

/-- the default value of an absent member (`none`: `default_value` has no case for the type) -/
def dfltVal (ty : Nat) : Option Value := (defaultValue St.init ty).map (·.1)

theorem defaultValue_eq (st : St) (ty : Nat) :
    defaultValue st ty = (dfltVal ty).map fun v => (v, if ty = 8 then st.noteRef 0 else st) := by
  by_cases h8 : ty = 8
  · subst h8; rfl
  · simp only [defaultValue, dfltVal, h8, if_false]
    repeat' split
    all_goals first | rfl | (simp_all; done)

/-! ### all members of an object -/

/-- the `data` the reader builds: stored values for present members, defaults for absent ones -/
def flatData : List MemberDecl → List Val → Nat → Option (List (Nat × Value))
  | [], [], _ => some []
  | m :: ms, v :: vs, idx =>
    match (if v.present then flatValue v else dfltVal m.ty), flatData ms vs (idx + 1) with
    | some x, some rest => some ((idx, x) :: rest)
    | _, _ => none
  | _, _, _ => none

/-- `refBound` after the object -/
def boundAll : Nat → List MemberDecl → List Val → Nat
  | rb, m :: ms, v :: vs =>
    boundAll (if v.present then boundAfter rb v else if m.ty = 8 then max rb 1 else rb) ms vs
  | rb, _, _ => rb

/-- every present member is flat and fits its type -/
def flatAllOK : List MemberDecl → List Val → Prop
  | [], [] => True
  | m :: ms, v :: vs => (v.present = true → flatOK m v) ∧ flatAllOK ms vs
  | _, _ => False

theorem readMembers_flat (p : Enc) (fuel : Nat) : ∀ (ms : List MemberDecl) (vs : List Val) (st : St) (idx : Nat)
    (r : Bytes) (data : List (Nat × Value)), st.ver = 3 → flatAllOK ms vs → flatData ms vs idx = some data →
    readMembers (fuel + 1) st (ms.map toM) (vs.map Val.present) idx
        ((encFields p st.strings (ms.map (·.ty)) vs).1 ++ r) =
      some (data, { st with strings := (encFields p st.strings (ms.map (·.ty)) vs).2,
                            refBound := boundAll st.refBound ms vs }, r) := by
  intro ms
  induction ms with
  | nil =>
    intro vs st idx r data _ hok hd
    cases vs with
    | nil =>
      simp only [flatData, Option.some.injEq] at hd; subst hd
      simp [readMembers, encFields, boundAll]
    | cons v vs => exact absurd hok id
  | cons m ms ih =>
    intro vs st idx r data hver hok hd
    cases vs with
    | nil => exact absurd hok id
    | cons v vs =>
      obtain ⟨hv, hrest⟩ := hok
      simp only [flatData] at hd
      split at hd
      · rename_i x rest hx hr
        simp only [Option.some.injEq] at hd; subst hd
        by_cases hp : v.present = true
        · -- a present member
          simp only [hp, if_true] at hx
          have hf := readField_flat p fuel st m v x
            ((encFields p (encField p st.strings m.ty v).2 (ms.map (·.ty)) vs).1 ++ r) hver (hv hp) hx
          have hi := ih vs
            (St.mk st.ver (encField p st.strings m.ty v).2 st.types st.objs (boundAfter st.refBound v))
            (idx + 1) r rest hver hrest hr
          simp only at hi
          simp only [List.map_cons, readMembers, hp, if_true, encFields, List.append_assoc, hf, hi, boundAll]
        · -- an absent member: no bytes, the default value
          have hp' : v.present = false := by simpa using hp
          simp only [hp', Bool.false_eq_true, if_false] at hx
          have habs : v = .absent := by cases v <;> simp_all [Val.present]
          subst habs
          have hi := ih vs (if m.ty = 8 then st.noteRef 0 else st) (idx + 1) r rest
            (by split <;> simp [St.noteRef, hver]) hrest hr
          have henc : encField p st.strings m.ty Val.absent = ([], st.strings) := by
            simp [encField, Val.present, encBody]
          have hstr : (if m.ty = 8 then st.noteRef 0 else st).strings = st.strings := by split <;> rfl
          rw [hstr] at hi
          simp only [List.map_cons, readMembers, Val.present, Bool.false_eq_true, if_false, encFields, henc,
            List.nil_append, toM_ty, defaultValue_eq, hx, Option.map_some, hi, boundAll]
          by_cases h8 : m.ty = 8 <;> simp [h8, St.noteRef]
      · exact absurd hd (by simp)

theorem flatAllOK_length : ∀ (ms : List MemberDecl) (vs : List Val), flatAllOK ms vs → vs.length = ms.length := by
  intro ms
  induction ms with
  | nil => intro vs h; cases vs with
    | nil => rfl
    | cons v vs => exact absurd h id
  | cons m ms ih => intro vs h; cases vs with
    | nil => exact absurd h id
    | cons v vs => simp [ih vs h.2]

/-- an object of any type all of whose present members are flat -/
theorem readObject_flat (p : Enc) (fuel : Nat) (st : St) (ti : Nat) (t : HType) (ms : List MemberDecl)
    (vs : List Val) (r : Bytes) (data : List (Nat × Value)) (hver : st.ver = 3) (hti : ti < 2 ^ 31)
    (htype : st.types[ti]? = some t) (hall : t.all = ms.map toM) (hlen : vs.length + 7 < 2 ^ 32)
    (hok : flatAllOK ms vs) (hd : flatData ms vs 0 = some data) :
    readObject (fuel + 1) st (p.nat ti ++ (encodeBits (vs.map Val.present) ++
        ((encFields p st.strings (ms.map (·.ty)) vs).1 ++ r))) =
      some (⟨t, data⟩, { st with strings := (encFields p st.strings (ms.map (·.ty)) vs).2,
                                 refBound := boundAll st.refBound ms vs }, r) := by
  have hl := flatAllOK_length ms vs hok
  have hbits : (vs.map Val.present).length = t.all.length := by simp [hall, hl]
  simp only [readObject, readNat p ti _ hti, asIndex_nat, Option.bind_some, htype]
  rw [bf _ _ _ hbits (by rw [hall, List.length_map, ← hl]; exact hlen), hall]
  simp only [readMembers_flat p fuel ms vs st 0 r data hver hok hd]

/-- the tag loop over such an object as the encoder writes it -/
theorem tagLoop_object_flat (p : Enc) (fuel : Nat) (st : St) (decls : List TypeDecl) (ti : Nat) (t : HType)
    (vs : List Val) (items : List Item) (r : Bytes) (data : List (Nat × Value)) (hver : st.ver = 3)
    (hti : ti < 2 ^ 31) (htype : st.types[ti]? = some t) (hall : t.all = (membersOf decls ti).map toM)
    (hlen : vs.length + 7 < 2 ^ 32) (hok : flatAllOK (membersOf decls ti) vs)
    (hd : flatData (membersOf decls ti) vs 0 = some data) :
    tagLoop (fuel + 1) st (encItems p st.strings decls (.obj ti vs :: items) ++ r) =
      tagLoop fuel
        { st with strings := (encFields p st.strings ((membersOf decls ti).map (·.ty)) vs).2,
                  refBound := boundAll st.refBound (membersOf decls ti) vs,
                  objs := st.objs ++ [⟨t, data⟩] }
        (encItems p (encFields p st.strings ((membersOf decls ti).map (·.ty)) vs).2 decls items ++ r) := by
  simp only [encItems, List.append_assoc]
  rw [tagLoop_object'' p fuel st _ ⟨t, data⟩ _ _ (List.append_ne_nil_of_left_ne_nil (nat_ne_nil p _) _)
    (fun F => readObject_flat p (F + 1) st ti t (membersOf decls ti) vs _ data hver hti htype hall hlen hok hd)]

end Physis.Havok
