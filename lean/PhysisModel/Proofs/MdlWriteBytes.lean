import PhysisModel.Proofs.MdlWriteParse
import PhysisModel.Proofs.SoftFloat
/-!
# C07 — the writer reproduces the canonical encoding (whole file)

For an abstract model `a` with `WF a`, `Canonical a`, `view a = some v`, writing the model parsed
from `encodeMdl a` gives `encodeMdl a` back byte for byte (`writeToBuffer_encode`), hence
`write_parse`.

A. one element: re-encoding the decoded value of a canonical raw element gives the raw bytes back
   (`encodeElement_canonical`, from `half_reencode`, `byteFloat_reencode`, `tangent_reencode`,
   `tangentW_reencode`); decoding another usage does not disturb it (`encodeElement_stdDecode_ne`);
   hence `encodeElement_foldl` for the vertex `vertexOf mesh k`.
B. `Good F buf` — the growing vector agrees with the target file `F` wherever it is not zero;
   `Step F S buf buf'` — a later state in which all of `S` is correct; one write of a slice of `F`
   (`writeAtL_step`), a successful `foldlM` of steps (`foldlM_step`).
C. one element write / one vertex (`writeVertex_elem`, `writeVertex_ok`).
D. one part: the vertex loop and the index write make every byte of the mesh's vertex and index
   ranges correct — covered by an element / the indices, or zero in the canonical file
   (`vertex_region_cover`, `index_region_cover`, `writePart_ok`).
E. `partsOf_getElem?`, `lodsView_getElem?` — the reported parts, entry by entry.
F. `writeLod_ok`, `writeLods_ok`.
G. every byte after the runtime block belongs to a mesh (`sections_locate`), the final zero fill
   stops at the end of the file (`stop_eq`), `writeToBuffer_encode`.
H. `write_parse`.

The SoftFloat functions are never unfolded (two closed evaluations: `f32ToHalf 1.0`, `f32ToHalf 0.0`).
-/
namespace Physis.Mdl
open Physis Physis.Spec.Mdl Physis.SoftFloat

/-! ## A. one element -/

theorem putU32le_combine (a b c d : UInt8) :
    putU32le (a.toUInt32 ||| (b.toUInt32 <<< 8) ||| (c.toUInt32 <<< 16) ||| (d.toUInt32 <<< 24)) =
      [a, b, c, d] := by
  simp only [putU32le, List.cons.injEq, and_true]
  refine ⟨?_, ?_, ?_, ?_⟩ <;> bv_decide (timeout := 300)

theorem putU16le_combine (a b : UInt8) :
    putU16le (a.toUInt16 ||| (b.toUInt16 <<< 8)) = [a, b] := by
  simp only [putU16le, List.cons.injEq, and_true]
  refine ⟨?_, ?_⟩ <;> bv_decide (timeout := 300)

theorem flatMap_putU32le_f32sOf (raw : Bytes) (h : raw.length % 4 = 0) :
    (f32sOf raw).flatMap putU32le = raw := by
  fun_induction f32sOf raw with
  | case1 a b c d rest ih =>
    simp only [List.length_cons] at h
    rw [List.flatMap_cons, putU32le_combine, ih (by omega)]; rfl
  | case2 l hne =>
    match l, hne with
    | [], _ => rfl
    | [_], _ => simp at h
    | [_, _], _ => simp at h
    | [_, _, _], _ => simp at h
    | a :: b :: c :: d :: r, hne => exact absurd rfl (hne a b c d r)

theorem flatMap_putU16le_u16sOf (raw : Bytes) (h : raw.length % 2 = 0) :
    (u16sOf raw).flatMap putU16le = raw := by
  fun_induction u16sOf raw with
  | case1 a b rest ih =>
    simp only [List.length_cons] at h
    rw [List.flatMap_cons, putU16le_combine, ih (by omega)]; rfl
  | case2 l hne =>
    match l, hne with
    | [], _ => rfl
    | [_], _ => simp at h
    | a :: b :: r, hne => exact absurd rfl (hne a b r)

theorem length_f32sOf (raw : Bytes) : (f32sOf raw).length = raw.length / 4 := by
  fun_induction f32sOf raw with
  | case1 a b c d rest ih => simp only [List.length_cons, ih]; omega
  | case2 l hne =>
    match l, hne with
    | [], _ => rfl
    | [_], _ => simp
    | [_, _], _ => simp
    | [_, _, _], _ => simp
    | a :: b :: c :: d :: r, hne => exact absurd rfl (hne a b c d r)

theorem length_u16sOf (raw : Bytes) : (u16sOf raw).length = raw.length / 2 := by
  fun_induction u16sOf raw with
  | case1 a b rest ih => simp only [List.length_cons, ih]; omega
  | case2 l hne =>
    match l, hne with
    | [], _ => rfl
    | [_], _ => simp
    | a :: b :: r, hne => exact absurd rfl (hne a b r)

theorem f32ToHalf_one : f32ToHalf 0x3F800000 = 0x3C00 := by decide
theorem f32ToHalf_zero : f32ToHalf 0 = 0 := by decide

theorem wSingles_f32sOf (raw : Bytes) (h : raw.length % 4 = 0) : wSingles (f32sOf raw) = raw :=
  flatMap_putU32le_f32sOf raw h

theorem wSingles_pad (raw : Bytes) (c : UInt32) (h : raw.length = 16)
    (hd : (f32sOf raw).drop 3 = [c]) : wSingles (padSlice ((f32sOf raw).take 3) c) = raw := by
  have hl : (f32sOf raw).length = 4 := by rw [length_f32sOf, h]
  have : padSlice ((f32sOf raw).take 3) c = f32sOf raw := by
    unfold padSlice
    rw [List.length_take, hl, show 4 - min 3 4 = 1 from rfl, List.replicate_one, ← hd,
      List.take_append_drop]
  rw [this, wSingles_f32sOf raw (by omega)]

theorem wHalf4_append (a b : List UInt32) : wHalf4 (a ++ b) = wHalf4 a ++ wHalf4 b := by
  simp [wHalf4]

theorem wHalf4_map (hs : List UInt16) (hok : ∀ h ∈ hs, isNaN16 h = false) :
    wHalf4 (hs.map halfToF32) = hs.flatMap putU16le := by
  induction hs with
  | nil => rfl
  | cons x xs ih =>
    simp only [wHalf4, List.map_cons, List.flatMap_cons] at ih ⊢
    rw [half_reencode x (hok x (by simp)), ih (fun h hh => hok h (by simp [hh]))]

theorem halfOk_all_raw (raw : Bytes) (h : (u16sOf raw).all Spec.Mdl.halfOk = true) :
    ∀ x ∈ u16sOf raw, isNaN16 x = false := by
  intro x hx
  have := List.all_eq_true.mp h x hx
  simpa [Spec.Mdl.halfOk] using this

theorem wHalf4_u16sOf (raw : Bytes) (h : raw.length % 2 = 0) (hok : (u16sOf raw).all Spec.Mdl.halfOk = true) :
    wHalf4 ((u16sOf raw).map halfToF32) = raw := by
  rw [wHalf4_map _ (halfOk_all_raw raw hok), flatMap_putU16le_u16sOf raw h]

theorem wHalf4_pad (raw : Bytes) (c : UInt32) (c16 : UInt16) (hc : f32ToHalf c = c16)
    (h : raw.length = 8) (hok : (u16sOf raw).all Spec.Mdl.halfOk = true)
    (hd : (u16sOf raw).drop 3 = [c16]) :
    wHalf4 (padSlice (((u16sOf raw).map halfToF32).take 3) c) = raw := by
  have hl : (u16sOf raw).length = 4 := by rw [length_u16sOf, h]
  unfold padSlice
  rw [List.length_take, List.length_map, hl, show 4 - min 3 4 = 1 from rfl, List.replicate_one,
    wHalf4_append, ← List.map_take,
    wHalf4_map _ (fun x hx => halfOk_all_raw raw hok x (List.mem_of_mem_take hx))]
  have : wHalf4 [c] = ((u16sOf raw).drop 3).flatMap putU16le := by
    rw [hd]; simp [wHalf4, hc]
  rw [this, ← List.flatMap_append, List.take_append_drop, flatMap_putU16le_u16sOf raw (by omega)]

theorem wByteFloat4_read (raw : Bytes) : wByteFloat4 (raw.map readByteFloat) = raw := by
  unfold wByteFloat4
  rw [List.map_map]
  conv => rhs; rw [← List.map_id raw]
  apply List.map_congr_left
  intro b _; exact byteFloat_reencode b

theorem wTangent_snorm (raw : Bytes) (h : raw.length = 4)
    (hw : (raw.drop 3).all (fun b => b == 0 || b == 255) = true) :
    wTangent (snormBytes raw) = raw := by
  unfold wTangent snormBytes
  have hl : ((raw.take 3).map readTangentXYZ).length = 3 := by simp [h]
  rw [List.take_append_of_le_length (by omega), List.take_of_length_le (by omega),
    List.drop_append_of_le_length (by omega), List.drop_of_length_le (l := List.map _ _) (by omega),
    List.nil_append, List.map_map, List.map_map]
  have h1 : (raw.take 3).map (writeTangentXYZ ∘ readTangentXYZ) = raw.take 3 := by
    conv => rhs; rw [← List.map_id (raw.take 3)]
    apply List.map_congr_left
    intro b _; exact tangent_reencode b
  have h2 : (raw.drop 3).map (writeTangentW ∘ readTangentW) = raw.drop 3 := by
    conv => rhs; rw [← List.map_id (raw.drop 3)]
    apply List.map_congr_left
    intro b hb
    have := List.all_eq_true.mp hw b hb
    simp only [Bool.or_eq_true, beq_iff_eq] at this
    simp only [Function.comp, tangentW_reencode, id]
    rcases this with rfl | rfl <;> rfl
  rw [h1, h2, List.take_append_drop]

set_option linter.unusedSimpArgs false in
theorem encodeElement_canonical (u t : UInt8) (raw : Bytes) (v : Vertex)
    (hw : writable u t = true) (hl : raw.length = typeSize t)
    (hc : canonicalRaw u t raw = true) :
    encodeElement u t (stdDecode u t raw v) = .ok raw := by
  simp only [writable, Bool.or_eq_true, Bool.and_eq_true, beq_iff_eq] at hw
  rcases hw with ((((((⟨rfl, (rfl | rfl) | rfl⟩ | ⟨rfl, rfl⟩) | ⟨rfl, rfl⟩) | ⟨rfl, rfl | rfl⟩) |
    ⟨rfl, rfl | rfl⟩) | ⟨rfl, rfl⟩) | ⟨rfl, rfl⟩)
  all_goals
    simp (config := {decide := true}) only [typeSize, VU.position, VU.blendWeights,
      VU.blendIndices, VU.normal, VU.uv, VU.tangent, VU.biTangent, VU.color, VT.single3,
      VT.single4, VT.byte4, VT.byteFloat4, VT.half2, VT.half4, VT.ushort4, ↓reduceIte] at hl
    simp (config := {decide := true}) only [canonicalRaw, VU.position, VU.blendWeights,
      VU.blendIndices, VU.normal, VU.uv, VU.tangent, VU.biTangent, VU.color, VT.single3,
      VT.single4, VT.byte4, VT.byteFloat4, VT.half2, VT.half4, VT.ushort4, ↓reduceIte,
      Bool.and_eq_true, Bool.or_eq_true, beq_iff_eq, Bool.true_and, Bool.and_true, Bool.false_or,
      Bool.or_false, Bool.true_or, Bool.or_true, bne_self_eq_false, bne_iff_ne, ne_eq] at hc
    simp (config := {decide := true}) only [encodeElement, stdDecode, VU.position, VU.blendWeights,
      VU.blendIndices, VU.normal, VU.uv, VU.tangent, VU.biTangent, VU.color, VT.single3,
      VT.single4, VT.byte4, VT.byteFloat4, VT.half2, VT.half4, VT.ushort4, ↓reduceIte]
  · exact congrArg Except.ok (wSingles_pad raw f32OneBits hl hc.2)
  · exact congrArg Except.ok (wHalf4_pad raw f32OneBits 0x3C00 f32ToHalf_one hl hc.1.1 hc.1.2)
  · exact congrArg Except.ok (wSingles_f32sOf raw (by omega))
  · exact congrArg Except.ok (wByteFloat4_read raw)
  · exact congrArg Except.ok (wHalf4_pad raw 0 0 f32ToHalf_zero hl hc.1.1 hc.2)
  · exact congrArg Except.ok (wSingles_f32sOf raw (by omega))
  · rw [List.take_append_drop]; exact congrArg Except.ok (wHalf4_u16sOf raw (by omega) hc.1.1)
  · rw [List.take_append_drop]; exact congrArg Except.ok (wSingles_f32sOf raw (by omega))
  · exact congrArg Except.ok (wTangent_snorm raw hl hc)
  · exact congrArg Except.ok (wByteFloat4_read raw)


theorem encodeElement_stdDecode_ne (u t u' t' : UInt8) (raw : Bytes) (v : Vertex) (h : u ≠ u') :
    encodeElement u t (stdDecode u' t' raw v) = encodeElement u t v := by
  unfold stdDecode
  repeat' split
  all_goals first
    | rfl
    | (simp only [beq_iff_eq] at *
       subst_vars
       simp only [encodeElement, beq_iff_eq, h, ↓reduceIte])

/-- one step of `vertexOf` -/
def vstep (m : AMesh) (k : Nat) (v : Vertex) (e : VertexElement) : Vertex :=
  match m.streams[e.stream.toNat]? with
  | some s =>
    stdDecode e.vertexUsage e.vertexType
      ((s.data.drop (k * s.stride.toNat + e.offset.toNat)).take (elemSize e)) v
  | none => v

theorem vertexOf_eq (m : AMesh) (k : Nat) : vertexOf m k = m.decl.foldl (vstep m k) Vertex.default := rfl

theorem encode_foldl_ne (m : AMesh) (k : Nat) (u t : UInt8) (post : List VertexElement) :
    ∀ v, (∀ y ∈ post, u ≠ y.vertexUsage) →
      encodeElement u t (post.foldl (vstep m k) v) = encodeElement u t v := by
  induction post with
  | nil => intro v _; rfl
  | cons y ys ih =>
    intro v h
    rw [List.foldl_cons, ih _ (fun z hz => h z (by simp [hz]))]
    unfold vstep
    split
    · exact encodeElement_stdDecode_ne _ _ _ _ _ _ (h y (by simp))
    · rfl

/-- the raw bytes of element `e` of vertex `k` -/
def rawOf (s : AStream) (e : VertexElement) (k : Nat) : Bytes :=
  (s.data.drop (k * s.stride.toNat + e.offset.toNat)).take (elemSize e)

theorem encodeElement_foldl (m : AMesh) (k : Nat) (e : VertexElement) (s : AStream)
    (hs : m.streams[e.stream.toNat]? = some s)
    (hw : writable e.vertexUsage e.vertexType = true)
    (hl : (rawOf s e k).length = typeSize e.vertexType)
    (hc : canonicalRaw e.vertexUsage e.vertexType (rawOf s e k) = true)
    (decl : List VertexElement) :
    ∀ v, decl.Pairwise (fun a b => a.vertexUsage ≠ b.vertexUsage) → e ∈ decl →
      encodeElement e.vertexUsage e.vertexType (decl.foldl (vstep m k) v) = .ok (rawOf s e k) := by
  induction decl with
  | nil => intro v _ he; simp at he
  | cons y ys ih =>
    intro v hp he
    rw [List.pairwise_cons] at hp
    rw [List.foldl_cons]
    by_cases hmem : e ∈ ys
    · exact ih _ hp.2 hmem
    · have hey : e = y := by simpa [hmem] using he
      subst hey
      rw [encode_foldl_ne m k _ _ ys _ (fun z hz => hp.1 z hz)]
      unfold vstep
      simp only [hs]
      exact encodeElement_canonical _ _ _ _ hw hl hc

theorem mem_zip_range {l : List α} {i : Nat} {x : α} (h : l[i]? = some x) :
    (i, x) ∈ List.zip (List.range l.length) l := by
  have hi := lt_of_getElem? h
  rw [List.mem_iff_getElem?]
  refine ⟨i, ?_⟩
  rw [List.getElem?_zip_eq_some]
  simp only [List.getElem?_range hi, h, and_self]

structure CanonFacts (x : AMesh) : Prop where
  distinct : x.decl.Pairwise (fun a b => a.vertexUsage ≠ b.vertexUsage)
  writable : ∀ e ∈ x.decl, writable e.vertexUsage e.vertexType = true
  record : ∀ si s, x.streams[si]? = some s → ∀ k, k < x.vertexCount.toNat →
    canonicalRecord x.decl si ((s.data.drop (k * s.stride.toNat)).take s.stride.toNat) = true

theorem canon_facts (x : AMesh) (h : canonicalMesh x = true) : CanonFacts x := by
  simp only [canonicalMesh, Bool.and_eq_true, List.all_eq_true] at h
  obtain ⟨⟨hw, hd⟩, hr⟩ := h
  refine ⟨?_, hw, ?_⟩
  · rw [List.pairwise_iff_getElem]
    intro i j hi hj hij
    simp only [disjointElems, List.all_eq_true, List.mem_range] at hd
    have := hd i hi j hj
    rw [List.getElem?_eq_getElem hi, List.getElem?_eq_getElem hj] at this
    simp only [Bool.or_eq_true, decide_eq_true_eq, Bool.and_eq_true, bne_iff_ne, ne_eq] at this
    rcases this with h1 | h1
    · omega
    · exact h1.1
  · intro si s hs k hk
    have := hr (si, s) (mem_zip_range hs)
    apply this
    simp only [chunks, List.mem_map, List.mem_range]
    exact ⟨k, hk, rfl⟩

/-! ## B. buffers that agree with the target file wherever they are not (yet) zero -/

/-- byte `i` of the buffer is the byte of the target file (both read as 0 past the end) -/
def Correct (F buf : Bytes) (i : Nat) : Prop := buf.getD i 0 = F.getD i 0

structure Good (F buf : Bytes) : Prop where
  len : buf.length ≤ F.length
  zero : ∀ i, Correct F buf i ∨ buf.getD i 0 = 0

/-- `buf'` is a later state of `buf`: still good, correct bytes stay correct, and all of `S`
is now correct -/
structure Step (F : Bytes) (S : Nat → Prop) (buf buf' : Bytes) : Prop where
  good : Good F buf'
  mono : ∀ i, Correct F buf i → Correct F buf' i
  cover : ∀ i, S i → Correct F buf' i

theorem Step.refl {F buf : Bytes} (h : Good F buf) : Step F (fun _ => False) buf buf :=
  ⟨h, fun _ h => h, fun _ h => h.elim⟩

theorem Step.weaken {F : Bytes} {S S' : Nat → Prop} {b b' : Bytes} (h : Step F S b b')
    (hs : ∀ i, S' i → S i ∨ F.getD i 0 = 0) : Step F S' b b' := by
  refine ⟨h.good, h.mono, fun i hi => ?_⟩
  rcases hs i hi with h1 | h1
  · exact h.cover i h1
  · rcases h.good.zero i with h2 | h2
    · exact h2
    · unfold Correct; rw [h1, h2]

theorem Step.trans {F : Bytes} {S S' : Nat → Prop} {b b' b'' : Bytes} (h : Step F S b b')
    (h' : Step F S' b' b'') : Step F (fun i => S i ∨ S' i) b b'' := by
  refine ⟨h'.good, fun i hi => h'.mono i (h.mono i hi), fun i hi => ?_⟩
  rcases hi with hi | hi
  · exact h'.mono i (h.cover i hi)
  · exact h'.cover i hi

theorem IsSlice.getElem? {F : Bytes} {off : Nat} {seg : Bytes} (h : IsSlice F off seg) (j : Nat)
    (hj : j < seg.length) : F[off + j]? = seg[j]? := by
  obtain ⟨pre, post, rfl, rfl⟩ := h
  rw [List.getElem?_append_right (by omega), List.getElem?_append_left (by omega)]
  congr 1; omega

theorem IsSlice.sub {F : Bytes} {off : Nat} {seg : Bytes} (h : IsSlice F off seg) (k n : Nat)
    (hk : k + n ≤ seg.length) : IsSlice F (off + k) ((seg.drop k).take n) := by
  obtain ⟨pre, post, rfl, rfl⟩ := h
  refine ⟨pre ++ seg.take k, (seg.drop (k + n)) ++ post, ?_, by simp; omega⟩
  have : seg = seg.take k ++ ((seg.drop k).take n ++ seg.drop (k + n)) := by
    rw [← List.drop_drop, List.take_append_drop, List.take_append_drop]
  conv => lhs; rw [this]
  simp only [List.append_assoc]

theorem getD_eq (l : Bytes) (i : Nat) : l.getD i 0 = l[i]?.getD 0 := by
  simp [List.getD_eq_getElem?_getD]

/-- one write of a slice of the target file -/
theorem writeAtL_step (F buf : Bytes) (pos : Nat) (data : Bytes) (hg : Good F buf)
    (hs : IsSlice F pos data) :
    Step F (fun i => pos ≤ i ∧ i < pos + data.length) buf (writeAtL buf pos data) := by
  by_cases hd : data = []
  · subst hd
    rw [writeAtL_nil]
    exact ⟨hg, fun _ h => h, fun i hi => by simp at hi; omega⟩
  have hlen := hs.length_le
  have key : ∀ i, (writeAtL buf pos data).getD i 0 =
      if pos ≤ i ∧ i < pos + data.length then F.getD i 0 else buf.getD i 0 := by
    intro i
    by_cases h1 : i < pos
    · have : ¬ (pos ≤ i ∧ i < pos + data.length) := by omega
      simp only [this, ↓reduceIte]
      rw [getD_eq, writeAtL_getElem?_lt _ _ _ hd _ h1]; rfl
    · by_cases h2 : i < pos + data.length
      · have : pos ≤ i ∧ i < pos + data.length := by omega
        simp only [this, and_self, ↓reduceIte]
        obtain ⟨j, rfl⟩ : ∃ j, i = pos + j := ⟨i - pos, by omega⟩
        rw [getD_eq, getD_eq, writeAtL_getElem?_mid _ _ _ _ (by omega), hs.getElem? j (by omega)]
      · have : ¬ (pos ≤ i ∧ i < pos + data.length) := by omega
        simp only [this, ↓reduceIte]
        rw [getD_eq, getD_eq, writeAtL_getElem?_ge _ _ _ _ (by omega)]
  refine ⟨⟨?_, fun i => ?_⟩, fun i hi => ?_, fun i hi => ?_⟩
  · rw [writeAtL_length _ _ _ hd]; have := hg.len; omega
  · unfold Correct; rw [key]
    split
    · exact Or.inl rfl
    · exact hg.zero i
  · unfold Correct at *; rw [key]
    split
    · rfl
    · exact hi
  · unfold Correct; rw [key]; simp only [hi, and_self, ↓reduceIte]

/-- a successful fold of steps, position `n` of the list covering `cov (base + n)` -/
theorem foldlM_step (F : Bytes) (f : Array UInt8 → α → R (Array UInt8)) (cov : Nat → Nat → Prop)
    (l : List α) : ∀ (base : Nat),
    (∀ n x, l[n]? = some x → ∀ b : Array UInt8, Good F b.toList →
      ∃ b', f b x = .ok b' ∧ Step F (cov (base + n)) b.toList b'.toList) →
    ∀ b : Array UInt8, Good F b.toList →
      ∃ b', l.foldlM f b = .ok b' ∧
        Step F (fun i => ∃ n, n < l.length ∧ cov (base + n) i) b.toList b'.toList := by
  induction l with
  | nil =>
    intro base _ b hb
    exact ⟨b, rfl, hb, fun _ h => h, fun i hi => by obtain ⟨n, hn, _⟩ := hi; simp at hn⟩
  | cons x xs ih =>
    intro base h b hb
    obtain ⟨b1, h1, s1⟩ := h 0 x rfl b hb
    obtain ⟨b2, h2, s2⟩ := ih (base + 1)
      (fun n y hy c hc => by
        have := h (n + 1) y (by simpa using hy) c hc
        rwa [show base + (n + 1) = base + 1 + n by omega] at this) b1 s1.good
    refine ⟨b2, by rw [List.foldlM_cons, h1, R.ok_bind, h2], ?_⟩
    refine (s1.trans s2).weaken (fun i hi => Or.inl ?_)
    obtain ⟨n, hn, hc⟩ := hi
    cases n with
    | zero => exact Or.inl hc
    | succ n =>
      refine Or.inr ⟨n, by simpa using hn, ?_⟩
      rwa [show base + 1 + n = base + (n + 1) by omega]

/-! ## C. one vertex -/

/-- the bytes `[addr, addr + elemSize e)` of element `e` of vertex `k` -/
def elemCov (m : AbstractModel) (i : Nat) (l : ALod) (d : Nat) (mesh : AMesh) (k : Nat)
    (e : VertexElement) (p : Nat) : Prop :=
  ∃ s, mesh.streams[e.stream.toNat]? = some s ∧
    streamAddr m i l d mesh e.stream.toNat + (k * s.stride.toNat + e.offset.toNat) ≤ p ∧
    p < streamAddr m i l d mesh e.stream.toNat + (k * s.stride.toNat + e.offset.toNat) + elemSize e

theorem writable_elemSize (e : VertexElement) (h : writable e.vertexUsage e.vertexType = true) :
    elemSize e = typeSize e.vertexType := by
  unfold elemSize
  split
  · rename_i hu
    simp only [beq_iff_eq] at hu
    rw [hu] at h
    revert h
    simp (config := {decide := true}) [writable, VU.tangent, VU.position, VU.blendWeights,
      VU.blendIndices, VU.normal, VU.uv, VU.biTangent, VU.color]
  · rfl

theorem take_drop_take (X : List α) (off n st : Nat) (h : off + n ≤ st) :
    ((X.take st).drop off).take n = (X.drop off).take n := by
  rw [List.drop_take, List.take_take, Nat.min_eq_left (by omega)]

theorem writeVertex_elem (m : AbstractModel) (h : WF m = true) (i : Nat) (l : ALod)
    (hl : m.lods[i]? = some l) (d : Nat) (mesh : AMesh) (hm : l.meshes[d]? = some mesh)
    (hc : CanonFacts mesh) (k : Nat) (hk : k < mesh.vertexCount.toNat)
    (e : VertexElement) (he : e ∈ mesh.decl) (b : Array UInt8) (hb : Good (encodeMdl m) b.toList) :
    ∃ b', (do
        let off ← idx3 (meshRowOf m i l d mesh).vertexBufferOffsets e.stream.toNat
        let a ← addU32 (lodRowOf m i l).vertexDataOffset off
        let b2 ← addU32 a e.offset.toUInt32
        let stride ← idx3 (meshRowOf m i l d mesh).vertexBufferStrides e.stream.toNat
        let c ← mulU32 stride.toUInt32 k.toUInt32
        let addr ← addU32 b2 c
        let bytes ← encodeElement e.vertexUsage e.vertexType (vertexOf mesh k)
        pure (writeAt b addr.toNat bytes) : R (Array UInt8)) = .ok b' ∧
      Step (encodeMdl m) (elemCov m i l d mesh k e) b.toList b'.toList := by
  have hvc : mesh.vertexCount ≠ 0 := by
    intro h0; rw [h0] at hk; simp at hk
  obtain ⟨_, s, hs, hoff⟩ := (wf_mesh m h hl hm).elems e he
  have hoff' : e.offset.toNat + elemSize e ≤ s.stride.toNat := by
    rcases hoff with hoff | hoff
    · exact hoff
    · exact absurd hoff hvc
  obtain ⟨a, ha, hav, _⟩ := element_address' m h i l hl d mesh hm e he s hs k hk
  obtain ⟨h3, hdl, hlt, hsl⟩ := stream_bounds m h i l hl d mesh hm _ s hs
  have hk16 : k.toUInt16.toUInt32 = k.toUInt32 := by
    apply UInt32.toNat_inj.mp
    have := mesh.vertexCount.toNat_lt
    simp
    omega
  have hwr := hc.writable e he
  have hmul := mul_succ_le (st := s.stride.toNat) hk
  have hrl : (rawOf s e k).length = typeSize e.vertexType := by
    unfold rawOf
    rw [List.length_take, List.length_drop, hdl, ← writable_elemSize e hwr, Nat.mul_comm k]
    omega
  have hcr : canonicalRaw e.vertexUsage e.vertexType (rawOf s e k) = true := by
    have := hc.record _ s hs k hk
    simp only [canonicalRecord, Bool.and_eq_true, List.all_eq_true] at this
    have h1 := this.1 e he
    simp only [bne_self_eq_false, Bool.false_or] at h1
    unfold rawOf
    rw [take_drop_take _ _ _ _ hoff', List.drop_drop] at h1
    exact h1
  have henc := encodeElement_foldl mesh k e s hs hwr hrl hcr mesh.decl Vertex.default hc.distinct he
  rw [← vertexOf_eq] at henc
  unfold elementAddress at ha
  rw [hk16] at ha
  obtain ⟨x1, h1, ha⟩ := R.bind_eq_ok ha
  obtain ⟨x2, h2, ha⟩ := R.bind_eq_ok ha
  obtain ⟨x3, h3', ha⟩ := R.bind_eq_ok ha
  obtain ⟨x4, h4, ha⟩ := R.bind_eq_ok ha
  obtain ⟨x5, h5, ha⟩ := R.bind_eq_ok ha
  simp only [h1, h2, h3', h4, h5, ha, henc, R.ok_bind, R.pure_eq]
  refine ⟨_, rfl, ?_⟩
  rw [writeAt_toList]
  have hsub := hsl.sub (k * s.stride.toNat + e.offset.toNat) (elemSize e)
    (by rw [hdl, Nat.mul_comm k]; omega)
  have haddr : a.toNat = streamAddr m i l d mesh e.stream.toNat +
      (k * s.stride.toNat + e.offset.toNat) := by rw [hav, Nat.mul_comm k]; omega
  rw [haddr]
  refine (writeAtL_step _ _ _ _ hb hsub).weaken (fun p hp => Or.inl ?_)
  obtain ⟨s', hs', hp1, hp2⟩ := hp
  rw [hs] at hs'; cases hs'
  refine ⟨hp1, ?_⟩
  show p < _ + (rawOf s e k).length
  rw [hrl, ← writable_elemSize e hwr]
  exact hp2

/-! ## D. one part -/

theorem psum_locate (g : α → Nat) (l : List α) : ∀ j, j < (l.map g).sum →
    ∃ i x j', l[i]? = some x ∧ j = psum g l i + j' ∧ j' < g x := by
  induction l with
  | nil => intro j h; simp at h
  | cons y ys ih =>
    intro j h
    simp only [List.map_cons, List.sum_cons] at h
    by_cases hj : j < g y
    · exact ⟨0, y, j, rfl, by simp, hj⟩
    · obtain ⟨i, x, j', h1, h2, h3⟩ := ih (j - g y) (by omega)
      exact ⟨i + 1, x, j', by simpa using h1, by rw [psum_cons_succ]; omega, h3⟩

/-- start of the vertex data / of the index data of mesh `d` of LOD `i` -/
def meshVA (m : AbstractModel) (i : Nat) (l : ALod) (d : Nat) : Nat :=
  dataStart m + psum lodSize m.lods i + psum streamSize l.meshes d
def meshIA (m : AbstractModel) (i : Nat) (l : ALod) (d : Nat) : Nat :=
  dataStart m + psum lodSize m.lods i + lodVertexSize l + 2 * psum meshIndexWords l.meshes d

/-- the bytes of the file that belong to mesh `d` of LOD `i` -/
def meshRegion (m : AbstractModel) (i : Nat) (l : ALod) (d : Nat) (mesh : AMesh) (p : Nat) : Prop :=
  (meshVA m i l d ≤ p ∧ p < meshVA m i l d + streamSize mesh) ∨
  (meshIA m i l d ≤ p ∧ p < meshIA m i l d + 2 * meshIndexWords mesh)

theorem vertex_region_cover (m : AbstractModel) (h : WF m = true) (i : Nat) (l : ALod)
    (hl : m.lods[i]? = some l) (d : Nat) (mesh : AMesh) (hm : l.meshes[d]? = some mesh)
    (hc : CanonFacts mesh) (p : Nat) (hp1 : meshVA m i l d ≤ p)
    (hp2 : p < meshVA m i l d + streamSize mesh) :
    (∃ k, k < mesh.vertexCount.toNat ∧ ∃ e, e ∈ mesh.decl ∧ elemCov m i l d mesh k e p) ∨
      (encodeMdl m).getD p 0 = 0 := by
  obtain ⟨si, s, j', hs, hj, hj'⟩ := psum_locate dataLen mesh.streams (p - meshVA m i l d)
    (by unfold streamSize at hp2; unfold dataLen; omega)
  obtain ⟨h3, hdl, hlt, hsl⟩ := stream_bounds m h i l hl d mesh hm si s hs
  have hpa : p = streamAddr m i l d mesh si + j' := by
    unfold streamAddr; unfold meshVA at hp1 hp2 hj; omega
  have hj'' : j' < s.data.length := hj'
  have hF : (encodeMdl m).getD p 0 = s.data.getD j' 0 := by
    rw [getD_eq, getD_eq, hpa, hsl.getElem? j' hj'']
  have hst : 0 < s.stride.toNat := by
    rcases Nat.eq_zero_or_pos s.stride.toNat with h0 | h0
    · rw [hdl, h0] at hj''; simp at hj''
    · exact h0
  have hk : j' / s.stride.toNat < mesh.vertexCount.toNat := by
    rw [Nat.div_lt_iff_lt_mul hst]; rw [hdl] at hj''; exact hj''
  have hq := Nat.mod_lt j' hst
  have hdm := Nat.div_add_mod j' s.stride.toNat
  have hmul := mul_succ_le (st := s.stride.toNat) hk
  have hrec := hc.record si s hs _ hk
  simp only [canonicalRecord, Bool.and_eq_true, List.all_eq_true] at hrec
  have hreclen : ((s.data.drop (j' / s.stride.toNat * s.stride.toNat)).take s.stride.toNat).length =
      s.stride.toNat := by
    rw [List.length_take, List.length_drop, hdl, Nat.mul_comm (j' / _)]; omega
  have hget : ((s.data.drop (j' / s.stride.toNat * s.stride.toNat)).take s.stride.toNat)[j' % s.stride.toNat]? =
      some (s.data.getD j' 0) := by
    rw [List.getElem?_take_of_lt hq, List.getElem?_drop, Nat.mul_comm (j' / _), hdm, getD_eq,
      List.getElem?_eq_getElem hj'']
    rfl
  have := hrec.2 _ (mem_zip_range hget)
  simp only [Bool.or_eq_true, beq_iff_eq] at this
  rcases this with h0 | hcov
  · exact Or.inr (by rw [hF]; exact h0)
  · left
    simp only [covered, List.any_eq_true, Bool.and_eq_true, beq_iff_eq, decide_eq_true_eq] at hcov
    obtain ⟨e, he, ⟨hes, he1⟩, he2⟩ := hcov
    refine ⟨_, hk, e, he, s, by rw [hes]; exact hs, ?_, ?_⟩
    · rw [hes, hpa, Nat.mul_comm (j' / _)]; omega
    · rw [hes, hpa, Nat.mul_comm (j' / _)]; omega

theorem index_region_cover (m : AbstractModel) (i : Nat) (l : ALod)
    (hl : m.lods[i]? = some l) (d : Nat) (mesh : AMesh) (hm : l.meshes[d]? = some mesh)
    (p : Nat) (hp1 : meshIA m i l d ≤ p) (hp2 : p < meshIA m i l d + 2 * meshIndexWords mesh) :
    p < meshIA m i l d + 2 * mesh.indices.length ∨ (encodeMdl m).getD p 0 = 0 := by
  by_cases hlt : p < meshIA m i l d + 2 * mesh.indices.length
  · exact Or.inl hlt
  · right
    have hsl := index_slice m i l hl d mesh hm
    obtain ⟨j, rfl⟩ : ∃ j, p = meshIA m i l d + j := ⟨p - meshIA m i l d, by omega⟩
    have hj : j < (meshIndexBytes mesh).length := by rw [length_meshIndexBytes]; omega
    rw [getD_eq, show meshIA m i l d = dataStart m + psum lodSize m.lods i + lodVertexSize l +
      2 * psum meshIndexWords l.meshes d from rfl, hsl.getElem? j hj]
    unfold meshIndexBytes
    rw [List.getElem?_append_right (by rw [length_flatMap_putU16le]; omega), zeros,
      List.getElem?_replicate]
    rw [length_flatMap_putU16le]
    have : j - 2 * mesh.indices.length < 2 * mesh.indexPad := by
      unfold meshIndexWords at hp2; omega
    simp [this]

theorem writeVertex_ok (m : AbstractModel) (h : WF m = true) (i : Nat) (l : ALod)
    (hl : m.lods[i]? = some l) (d : Nat) (mesh : AMesh) (hm : l.meshes[d]? = some mesh)
    (hc : CanonFacts mesh) (k : Nat) (hk : k < mesh.vertexCount.toNat)
    (b : Array UInt8) (hb : Good (encodeMdl m) b.toList) :
    ∃ b', writeVertex (lodRowOf m i l) (meshRowOf m i l d mesh) mesh.decl b k (vertexOf mesh k) =
        .ok b' ∧
      Step (encodeMdl m) (fun p => ∃ e, e ∈ mesh.decl ∧ elemCov m i l d mesh k e p)
        b.toList b'.toList := by
  unfold writeVertex
  obtain ⟨b', hb', hs⟩ := foldlM_step (encodeMdl m) _
    (fun n p => ∃ e, mesh.decl[n]? = some e ∧ elemCov m i l d mesh k e p) mesh.decl 0
    (fun n e hn c hc' => by
      obtain ⟨c', h1, h2⟩ := writeVertex_elem m h i l hl d mesh hm hc k hk e (mem_of_getElem? hn) c hc'
      refine ⟨c', h1, h2.weaken (fun p hp => Or.inl ?_)⟩
      obtain ⟨e', he', hp⟩ := hp
      rw [Nat.zero_add, hn] at he'; cases he'; exact hp) b hb
  refine ⟨b', hb', hs.weaken (fun p hp => Or.inl ?_)⟩
  obtain ⟨e, he, hp⟩ := hp
  obtain ⟨n, hn⟩ := List.mem_iff_getElem?.mp he
  exact ⟨n, lt_of_getElem? hn, e, by rw [Nat.zero_add]; exact hn, hp⟩

theorem zipIdx'_getElem? {l : List α} {n : Nat} {x : Nat × α} (h : (zipIdx' l)[n]? = some x) :
    x.1 = n ∧ l[n]? = some x.2 := by
  obtain ⟨a, b⟩ := x
  unfold zipIdx' at h
  rw [List.getElem?_zip_eq_some] at h
  obtain ⟨h1, h2⟩ := h
  have hn : n < l.length := lt_of_getElem? h2
  rw [List.getElem?_range hn] at h1
  cases h1
  exact ⟨rfl, h2⟩

theorem length_zipIdx' (l : List α) : (zipIdx' l).length = l.length := by
  simp [zipIdx']

theorem writePart_ok (m : AbstractModel) (h : WF m = true) (i : Nat) (l : ALod)
    (hl : m.lods[i]? = some l) (d : Nat) (mesh : AMesh) (hm : l.meshes[d]? = some mesh)
    (hc : CanonFacts mesh) (sb : Nat) (sh : List Shape)
    (b : Array UInt8) (hb : Good (encodeMdl m) b.toList) :
    ∃ b', writePart (fileHeader m) (modelData m) i b
          (partOf (psum meshCountOf m.lods i + d) sb mesh sh) = .ok b' ∧
      Step (encodeMdl m) (meshRegion m i l d mesh) b.toList b'.toList := by
  have hle := meshBase_le m i l hl
  have hnm := (wf_facts m h).nMesh
  have hd := lt_of_getElem? hm
  have hmi : (partOf (psum meshCountOf m.lods i + d) sb mesh sh).meshIndex.toNat =
      psum meshCountOf m.lods i + d := toUInt16_toNat _ (by omega)
  -- the vertex loop
  obtain ⟨b1, hb1, hs1⟩ := foldlM_step (encodeMdl m)
    (fun buf (x : Nat × Vertex) =>
      match x with
      | (k, v) => do
        let lod ← idx (modelData m).lods i
        let row ← idx (modelData m).meshes (psum meshCountOf m.lods i + d)
        writeVertex lod row mesh.decl buf k v)
    (fun k p => ∃ e, e ∈ mesh.decl ∧ elemCov m i l d mesh k e p)
    (zipIdx' (verticesOf mesh)) 0
    (fun n x hn c hc' => by
      obtain ⟨hx1, hx2⟩ := zipIdx'_getElem? hn
      obtain ⟨k, v⟩ := x
      simp only at hx1 hx2 ⊢
      have hnv : n < mesh.vertexCount.toNat := by
        have := lt_of_getElem? hx2; simpa [verticesOf] using this
      have hx3 : v = vertexOf mesh n := by
        unfold verticesOf at hx2
        rw [List.getElem?_map, List.getElem?_range hnv] at hx2
        simpa using hx2.symm
      rw [idx_ok (lods_row m i l hl), R.ok_bind, idx_ok (meshes_row m i l hl d mesh hm),
        R.ok_bind, hx1, hx3, Nat.zero_add]
      exact writeVertex_ok m h i l hl d mesh hm hc n hnv c hc') b hb
  -- the index write
  obtain ⟨ioff, hio, hib, hic, _⟩ := index_read m h i l hl d mesh hm
  have h2 : (2 : UInt32).toNat = 2 := rfl
  have hmul := toNat_mul32 (meshRowOf m i l d mesh).startIndex 2 (by rw [h2]; omega)
  rw [h2] at hmul
  have hadd := toNat_add32 ioff ((meshRowOf m i l d mesh).startIndex * 2) (by rw [hmul]; omega)
  have hsl := index_slice m i l hl d mesh hm
  have hlen := hsl.length_le
  have hfl := (wf_facts m h).fileLen
  rw [length_meshIndexBytes, meshIndexWords] at hlen
  have hst : (meshRowOf m i l d mesh).startIndex.toNat = psum meshIndexWords l.meshes d :=
    toUInt32_toNat _ (by omega)
  have hio' := header_indexOffset m h i l hl
  rw [hio] at hio'
  have ho : ioff.toNat = dataStart m + psum lodSize m.lods i + lodVertexSize l := by
    cases hio'; exact toUInt32_toNat _ (by omega)
  have haddr : (ioff + (meshRowOf m i l d mesh).startIndex * 2).toNat = meshIA m i l d := by
    rw [hadd, hmul, hst, ho]; unfold meshIA; omega
  have hs2 := writeAtL_step (encodeMdl m) b1.toList (meshIA m i l d)
    (mesh.indices.flatMap putU16le) hs1.good hsl.left
  refine ⟨writeAt b1 (meshIA m i l d) (mesh.indices.flatMap putU16le), ?_, ?_⟩
  · unfold writePart
    rw [hmi, idx_ok (decls_row m i l hl d mesh hm), R.ok_bind]
    rw [show (partOf (psum meshCountOf m.lods i + d) sb mesh sh).vertices = verticesOf mesh from rfl,
      hb1, R.ok_bind, idx3_ok hio, R.ok_bind, idx_ok (meshes_row m i l hl d mesh hm), R.ok_bind,
      mulU32_ok _ _ (by rw [h2]; omega), R.ok_bind, addU32_ok _ _ (by rw [hmul]; omega), R.ok_bind,
      haddr]
    rfl
  · rw [writeAt_toList]
    refine (hs1.trans hs2).weaken (fun p hp => ?_)
    rcases hp with ⟨hp1, hp2⟩ | ⟨hp1, hp2⟩
    · rcases vertex_region_cover m h i l hl d mesh hm hc p hp1 hp2 with ⟨k, hk, e, he, hcov⟩ | h0
      · exact Or.inl (Or.inl ⟨k, by rw [length_zipIdx']; simpa [verticesOf] using hk, e, he,
          by rw [Nat.zero_add]; exact hcov⟩)
      · exact Or.inr h0
    · rcases index_region_cover m i l hl d mesh hm p hp1 hp2 with hlt | h0
      · exact Or.inl (Or.inr ⟨hp1, by rw [length_flatMap_putU16le]; exact hlt⟩)
      · exact Or.inr h0

/-! ## E. the parts the specification reports, entry by entry -/

theorem partsOf_getElem? (m : AbstractModel) (lodIx : Nat) (suf : List AMesh) :
    ∀ (mb ib sb : Nat) (ps : List Part), partsOf m lodIx mb ib sb suf = some ps →
      ps.length = suf.length ∧ ∀ d part, ps[d]? = some part →
        ∃ mesh sh, suf[d]? = some mesh ∧ part = partOf (mb + d) (sb + psum subLen suf d) mesh sh := by
  induction suf with
  | nil =>
    intro mb ib sb ps hp
    simp only [partsOf, Option.some.injEq] at hp
    subst hp
    exact ⟨rfl, fun d part h => by simp at h⟩
  | cons mesh rest ih =>
    intro mb ib sb ps hp
    cases hsh : shapesOf m lodIx ib mesh with
    | none => simp [partsOf, hsh] at hp
    | some sh =>
      cases htl : partsOf m lodIx (mb + 1) (ib + meshIndexWords mesh) (sb + mesh.submeshes.length) rest with
      | none => simp [partsOf, hsh, htl] at hp
      | some tail =>
        simp only [partsOf, hsh, htl, Option.bind_eq_bind, Option.bind_some, Option.some.injEq] at hp
        subst hp
        obtain ⟨hlen, hrest⟩ := ih _ _ _ tail htl
        refine ⟨by simp [hlen], fun d part hd => ?_⟩
        cases d with
        | zero =>
          simp only [List.getElem?_cons_zero, Option.some.injEq] at hd
          exact ⟨mesh, sh, rfl, by rw [← hd]; rfl⟩
        | succ d =>
          simp only [List.getElem?_cons_succ] at hd
          obtain ⟨mesh', sh', h1, h2⟩ := hrest d part hd
          refine ⟨mesh', sh', by simpa using h1, ?_⟩
          rw [h2, psum_cons_succ]
          congr 1 <;> (try unfold subLen) <;> omega

theorem lodsView_getElem? (m : AbstractModel) (suf : List ALod) :
    ∀ (n mb sb : Nat) (ls : List (List Part)), n ≤ suf.length → n ≤ m.lodCount.toNat →
      lodsView m n mb sb suf = some ls →
      ls.length = n ∧ ∀ t ps, ls[t]? = some ps →
        ∃ l, suf[t]? = some l ∧
          partsOf m (m.lodCount.toNat - n + t) (mb + psum meshCountOf suf t) 0
            (sb + psum lodSubCount suf t) l.meshes = some ps := by
  induction suf with
  | nil =>
    intro n mb sb ls hn _ hv
    have : n = 0 := by simpa using hn
    subst this
    simp only [lodsView, Option.some.injEq] at hv
    subst hv
    exact ⟨rfl, fun t ps h => by simp at h⟩
  | cons l rest ih =>
    intro n mb sb ls hn hnc hv
    cases n with
    | zero =>
      simp only [lodsView, Option.some.injEq] at hv
      subst hv
      exact ⟨rfl, fun t ps h => by simp at h⟩
    | succ n =>
      cases hp : partsOf m (m.lodCount.toNat - (n + 1)) mb 0 sb l.meshes with
      | none => simp [lodsView, hp] at hv
      | some ps0 =>
        cases htl : lodsView m n (mb + l.meshes.length)
            (sb + (l.meshes.map (fun (x : AMesh) => x.submeshes.length)).sum) rest with
        | none => simp [lodsView, hp, htl] at hv
        | some tail =>
          simp only [lodsView, hp, htl, Option.bind_eq_bind, Option.bind_some,
            Option.some.injEq] at hv
          subst hv
          obtain ⟨hlen, hrest⟩ := ih n _ _ tail (by simpa using hn) (by omega) htl
          refine ⟨by simp [hlen], fun t ps ht => ?_⟩
          cases t with
          | zero =>
            simp only [List.getElem?_cons_zero, Option.some.injEq] at ht
            subst ht
            exact ⟨l, rfl, by simpa using hp⟩
          | succ t =>
            simp only [List.getElem?_cons_succ] at ht
            obtain ⟨l', h1, h2⟩ := hrest t ps ht
            refine ⟨l', by simpa using h1, ?_⟩
            have e1 : m.lodCount.toNat - (n + 1) + (t + 1) = m.lodCount.toNat - n + t := by omega
            have e2 : mb + psum meshCountOf (l :: rest) (t + 1) =
                mb + l.meshes.length + psum meshCountOf rest t := by
              rw [psum_cons_succ, Nat.add_assoc]; rfl
            have e3 : sb + psum lodSubCount (l :: rest) (t + 1) =
                sb + (l.meshes.map (fun (x : AMesh) => x.submeshes.length)).sum +
                  psum lodSubCount rest t := by
              rw [psum_cons_succ, Nat.add_assoc]; rfl
            rw [e1, e2, e3]; exact h2

/-! ## F. LODs -/

theorem canonical_mesh (m : AbstractModel) (hcan : Canonical m = true) {i : Nat} {l : ALod}
    (hl : m.lods[i]? = some l) {d : Nat} {mesh : AMesh} (hm : l.meshes[d]? = some mesh) :
    CanonFacts mesh := by
  simp only [Canonical, Bool.and_eq_true, List.all_eq_true, and_assoc] at hcan
  obtain ⟨_, _, _, _, hmesh, _⟩ := hcan
  exact canon_facts mesh (hmesh mesh (mem_of_getElem? (allMeshes_getElem? m i l hl d mesh hm)))

theorem writeLod_ok (m : AbstractModel) (h : WF m = true) (hcan : Canonical m = true) (i : Nat)
    (l : ALod) (hl : m.lods[i]? = some l) (ps : List Part)
    (hp : partsOf m i (psum meshCountOf m.lods i) 0 (psum lodSubCount m.lods i) l.meshes = some ps)
    (b : Array UInt8) (hb : Good (encodeMdl m) b.toList) :
    ∃ b', ps.foldlM (writePart (fileHeader m) (modelData m) i) b = .ok b' ∧
      Step (encodeMdl m) (fun p => ∃ d mesh, l.meshes[d]? = some mesh ∧ meshRegion m i l d mesh p)
        b.toList b'.toList := by
  obtain ⟨hlen, hparts⟩ := partsOf_getElem? m i l.meshes _ _ _ ps hp
  obtain ⟨b', hb', hs⟩ := foldlM_step (encodeMdl m) (writePart (fileHeader m) (modelData m) i)
    (fun d p => ∃ mesh, l.meshes[d]? = some mesh ∧ meshRegion m i l d mesh p) ps 0
    (fun d part hd c hc => by
      obtain ⟨mesh, sh, hm, rfl⟩ := hparts d part hd
      obtain ⟨c', h1, h2⟩ := writePart_ok m h i l hl d mesh hm (canonical_mesh m hcan hl hm) _ sh c hc
      refine ⟨c', h1, h2.weaken (fun p hp => Or.inl ?_)⟩
      obtain ⟨mesh', hm', hp⟩ := hp
      rw [Nat.zero_add, hm] at hm'; cases hm'
      rw [Nat.zero_add] at hp; exact hp) b hb
  refine ⟨b', hb', hs.weaken (fun p hp => Or.inl ?_)⟩
  obtain ⟨d, mesh, hm, hp⟩ := hp
  exact ⟨d, by rw [hlen]; exact lt_of_getElem? hm, mesh, by rw [Nat.zero_add]; exact hm,
    by rw [Nat.zero_add]; exact hp⟩

theorem writeLods_ok (m : AbstractModel) (h : WF m = true) (hcan : Canonical m = true)
    (ls : List (List Part)) (hv : lodsView m m.lodCount.toNat 0 0 m.lods = some ls)
    (b : Array UInt8) (hb : Good (encodeMdl m) b.toList) :
    ∃ b', (zipIdx' ls).foldlM (fun buf (x : Nat × List Part) =>
        match x with
        | (t, parts) => parts.foldlM (writePart (fileHeader m) (modelData m) t) buf) b = .ok b' ∧
      Step (encodeMdl m) (fun p => ∃ i l d mesh, i < m.lodCount.toNat ∧ m.lods[i]? = some l ∧
        l.meshes[d]? = some mesh ∧ meshRegion m i l d mesh p) b.toList b'.toList := by
  have W := wf_facts m h
  obtain ⟨hlen, hlods⟩ := lodsView_getElem? m m.lods m.lodCount.toNat 0 0 ls
    (by have := W.lc3; have := W.lods3; omega) (Nat.le_refl _) hv
  obtain ⟨b', hb', hs⟩ := foldlM_step (encodeMdl m)
    (fun buf (x : Nat × List Part) =>
        match x with
        | (t, parts) => parts.foldlM (writePart (fileHeader m) (modelData m) t) buf)
    (fun i p => ∃ l d mesh, m.lods[i]? = some l ∧ l.meshes[d]? = some mesh ∧ meshRegion m i l d mesh p)
    (zipIdx' ls) 0
    (fun n x hn c hc => by
      obtain ⟨hx1, hx2⟩ := zipIdx'_getElem? hn
      obtain ⟨t, parts⟩ := x
      simp only at hx1 hx2 ⊢
      subst hx1
      obtain ⟨l, hl, hp⟩ := hlods t parts hx2
      rw [Nat.sub_self, Nat.zero_add, Nat.zero_add, Nat.zero_add] at hp
      obtain ⟨c', h1, h2⟩ := writeLod_ok m h hcan t l hl parts hp c hc
      refine ⟨c', h1, h2.weaken (fun p hp => Or.inl ?_)⟩
      obtain ⟨l', d, mesh, hl', hm, hp⟩ := hp
      rw [Nat.zero_add] at hl' hp
      rw [hl] at hl'; cases hl'
      exact ⟨d, mesh, hm, hp⟩) b hb
  refine ⟨b', hb', hs.weaken (fun p hp => Or.inl ?_)⟩
  obtain ⟨i, l, d, mesh, hi, hl, hm, hp⟩ := hp
  exact ⟨i, by rw [length_zipIdx', hlen]; exact hi, l, d, mesh, by rw [Nat.zero_add]; exact hl, hm,
    by rw [Nat.zero_add]; exact hp⟩

/-! ## G. the whole file -/

theorem length_sections (m : AbstractModel) : (sections m).length = (m.lods.map lodSize).sum :=
  length_flatMap' _ lodSize length_lodSections m.lods

theorem length_encodeMdl (m : AbstractModel) :
    (encodeMdl m).length = dataStart m + (m.lods.map lodSize).sum := by
  have hs := sections_slice m
  obtain ⟨pre, post, e, hl⟩ := hs
  have : (encodeMdl m).length = (encFileHeader (fileHeader m) ++ encModelData m.version (modelData m)).length +
      (sections m).length := by simp [encodeMdl]; omega
  rw [this, length_sections, List.length_append, length_encFileHeader, dataStart, runtimeBlockSize,
    modelData, length_encModelData m _ 0]

/-- every byte of the sections belongs to some mesh -/
theorem sections_locate (m : AbstractModel) (p : Nat) (hp1 : dataStart m ≤ p)
    (hp2 : p < (encodeMdl m).length) :
    ∃ i l d mesh, m.lods[i]? = some l ∧ l.meshes[d]? = some mesh ∧ meshRegion m i l d mesh p := by
  rw [length_encodeMdl] at hp2
  obtain ⟨i, l, j, hl, hj, hj'⟩ := psum_locate lodSize m.lods (p - dataStart m) (by omega)
  by_cases hv : j < lodVertexSize l
  · obtain ⟨d, mesh, j', hm, hjj, hjj'⟩ := psum_locate streamSize l.meshes j hv
    refine ⟨i, l, d, mesh, hl, hm, Or.inl ?_⟩
    unfold meshVA; omega
  · have hi : j - lodVertexSize l < (l.meshes.map (fun x => 2 * meshIndexWords x)).sum := by
      rw [sum_map_two_mul]; unfold lodSize lodIndexSize at hj'; omega
    obtain ⟨d, mesh, j', hm, hjj, hjj'⟩ := psum_locate _ l.meshes _ hi
    rw [psum_two_mul] at hjj
    refine ⟨i, l, d, mesh, hl, hm, Or.inr ?_⟩
    unfold meshIA; omega

theorem canonical_lodCount (m : AbstractModel) (hcan : Canonical m = true) {i : Nat} {l : ALod}
    (hl : m.lods[i]? = some l) {d : Nat} {mesh : AMesh} (hm : l.meshes[d]? = some mesh) :
    i < m.lodCount.toNat := by
  simp only [Canonical, Bool.and_eq_true, List.all_eq_true, and_assoc] at hcan
  obtain ⟨_, _, _, hdrop, _⟩ := hcan
  by_cases hi : i < m.lodCount.toNat
  · exact hi
  · exfalso
    have : l ∈ m.lods.drop m.lodCount.toNat := by
      rw [List.mem_iff_getElem?]
      refine ⟨i - m.lodCount.toNat, ?_⟩
      rw [List.getElem?_drop, ← hl]; congr 1; omega
    have := hdrop l this
    rw [List.isEmpty_iff] at this
    rw [this] at hm; simp at hm

theorem foldl_max_eq (l : List Nat) : ∀ (a N : Nat), a ≤ N → (∀ x ∈ l, x ≤ N) → N ∈ l →
    l.foldl max a = N := by
  induction l with
  | nil => intro a N _ _ h; simp at h
  | cons y ys ih =>
    intro a N ha hall hex
    rw [List.foldl_cons]
    by_cases hN : N ∈ ys
    · exact ih _ N (by have := hall y (by simp); omega) (fun x hx => hall x (by simp [hx])) hN
    · have : N = y := by simpa [hN] using hex
      subst this
      have hall' : ∀ x ∈ ys, x ≤ N := fun x hx => hall x (by simp [hx])
      clear ih hex hN hall
      have : max a N = N := by omega
      rw [this]
      induction ys with
      | nil => rfl
      | cons z zs ih2 =>
        rw [List.foldl_cons, show max N z = N from by have := hall' z (by simp); omega]
        exact ih2 (fun x hx => hall' x (by simp [hx]))

theorem u32_add_toNat (a b N : Nat) (h : a + b ≤ N) (hN : N < 4294967296) :
    a.toUInt32.toNat + b.toUInt32.toNat = a + b := by
  rw [toUInt32_toNat a (by omega), toUInt32_toNat b (by omega)]

/-- the largest section end declared by the header is the end of the file -/
theorem stop_eq (m : AbstractModel) (h : WF m = true) (n : Nat) (hn : n ≤ (encodeMdl m).length) :
    (List.zipWith (fun (o s : UInt32) => o.toNat + s.toNat)
      ((fileHeader m).vertexOffsets.toList ++ (fileHeader m).indexOffsets.toList)
      ((fileHeader m).vertexBufferSize.toList ++ (fileHeader m).indexBufferSize.toList)).foldl max n =
      (encodeMdl m).length := by
  have W := wf_facts m h
  have hF := length_encodeMdl m
  have hlt := W.fileLen
  match hm : m.lods, W.lods3 with
  | [l0, l1, l2], _ =>
    simp only [hm, List.map_cons, List.map_nil, List.sum_cons, List.sum_nil, lodSize] at hF
    have hrows : (modelData m).lods = lodRows 0 (dataStart m) [l0, l1, l2] := by
      show lodRows 0 (dataStart m) m.lods = _
      rw [hm]
    simp only [fileHeader, hrows, lodRows, List.map_cons, List.map_nil, Arr3.ofList, Arr3.toList,
      List.cons_append, List.nil_append, List.zipWith_cons_cons, List.zipWith_nil_left]
    apply foldl_max_eq _ _ _ hn
    · intro x hx
      simp only [List.mem_cons, List.not_mem_nil, or_false] at hx
      rcases hx with rfl | rfl | rfl | rfl | rfl | rfl
      all_goals (rw [u32_add_toNat _ _ (encodeMdl m).length (by omega) hlt]; omega)
    · simp only [List.mem_cons, List.not_mem_nil, or_false]
      right; right; right; right; right
      rw [u32_add_toNat _ _ (encodeMdl m).length (by omega) hlt]; omega

theorem canonical_v5 (m : AbstractModel) (hcan : Canonical m = true) : isV5 m.version = true := by
  simp only [Canonical, Bool.and_eq_true, and_assoc] at hcan
  exact hcan.1

/-- the header + runtime block, as the initial state of the writer's vector -/
theorem good_initial (H S : Bytes) : Good (H ++ S) H ∧ ∀ i, i < H.length → Correct (H ++ S) H i := by
  have key : ∀ i, i < H.length → Correct (H ++ S) H i := by
    intro i hi
    unfold Correct
    rw [getD_eq, getD_eq, List.getElem?_append_left hi]
  refine ⟨⟨by simp, fun i => ?_⟩, key⟩
  by_cases hi : i < H.length
  · exact Or.inl (key i hi)
  · right; rw [getD_eq, List.getElem?_eq_none (by omega)]; rfl

/-- a buffer that is correct everywhere, completed with zeros up to the file length, is the file -/
theorem correct_all_eq (F buf : Bytes) (hlen : buf.length ≤ F.length)
    (h : ∀ i, Correct F buf i) : buf ++ List.replicate (F.length - buf.length) 0 = F := by
  apply List.ext_getElem
  · simp; omega
  · intro i h1 h2
    by_cases hi : i < buf.length
    · rw [List.getElem_append_left hi]
      have := h i
      unfold Correct at this
      rw [getD_eq, getD_eq, List.getElem?_eq_getElem hi, List.getElem?_eq_getElem h2] at this
      simpa using this
    · rw [List.getElem_append_right (by omega), List.getElem_replicate]
      have := h i
      unfold Correct at this
      rw [getD_eq, getD_eq, List.getElem?_eq_none (by omega), List.getElem?_eq_getElem h2] at this
      simpa using this

/-- **the writer reproduces the canonical file**: writing the model parsed from `encodeMdl m`
gives `encodeMdl m` back, byte for byte -/
theorem writeToBuffer_encode (m : AbstractModel) (h : WF m = true) (hcan : Canonical m = true)
    (v : View) (hv : view m = some v) :
    writeToBuffer { fileHeader := fileHeader m, modelData := modelData m, lods := v.lods,
                    affectedBoneNames := v.affectedBoneNames, materialNames := v.materialNames } =
      .ok (encodeMdl m) := by
  have hv5 := canonical_v5 m hcan
  have hok := wf_modelDataOk m h
  cases hlv : lodsView m m.lodCount.toNat 0 0 m.lods with
  | none => simp [view, hlv] at hv
  | some ls =>
    simp only [view, hlv, Option.bind_eq_bind, Option.bind_some, Option.some.injEq] at hv
    subst hv
    have hF : encodeMdl m = (wFileHeader (fileHeader m) ++ encModelData m.version (modelData m)) ++
        sections m := by simp [encodeMdl, wFileHeader_eq]
    have hHlen : (wFileHeader (fileHeader m) ++ encModelData m.version (modelData m)).length =
        dataStart m := by
      rw [List.length_append, wFileHeader_eq, length_encFileHeader, dataStart, runtimeBlockSize,
        modelData, length_encModelData m _ 0]
    obtain ⟨hg0, hc0⟩ := good_initial
      (wFileHeader (fileHeader m) ++ encModelData m.version (modelData m)) (sections m)
    rw [← hF] at hg0 hc0
    obtain ⟨b1, hb1, hs⟩ := writeLods_ok m h hcan ls hlv
      (wFileHeader (fileHeader m) ++ encModelData m.version (modelData m)).toArray hg0
    have hall : ∀ i, Correct (encodeMdl m) b1.toList i := by
      intro i
      by_cases h1 : i < dataStart m
      · exact hs.mono i (hc0 i (by rw [hHlen]; exact h1))
      · by_cases h2 : i < (encodeMdl m).length
        · obtain ⟨t, l, d, mesh, hl, hm, hr⟩ := sections_locate m i (by omega) h2
          exact hs.cover i ⟨t, l, d, mesh, canonical_lodCount m hcan hl hm, hl, hm, hr⟩
        · unfold Correct
          have := hs.good.len
          rw [getD_eq, getD_eq, List.getElem?_eq_none (by omega), List.getElem?_eq_none (by omega)]
    unfold writeToBuffer
    dsimp only
    dsimp only at hb1
    rw [show (fileHeader m).version = m.version from rfl,
      wModelData_eq _ _ hv5 (modelDataOk_v2 _ _ hok hv5) (modelDataOk_decls _ _ hok), R.ok_bind,
      hb1, R.ok_bind, R.pure_eq, stop_eq m h b1.size (by simpa using hs.good.len)]
    congr 1
    have := correct_all_eq (encodeMdl m) b1.toList hs.good.len hall
    simpa [wZeros] using this

/-! ## H. write ∘ parse on canonical models -/

theorem canonical_noWeightsByte4 (m : AbstractModel) (hcan : Canonical m = true) :
    noWeightsByte4 m = true := by
  simp only [Canonical, Bool.and_eq_true, List.all_eq_true, and_assoc] at hcan
  obtain ⟨_, _, _, _, hmesh, _⟩ := hcan
  simp only [noWeightsByte4, List.all_eq_true]
  intro l hl mesh hm
  have hmem : mesh ∈ allMeshes m := by
    simp only [allMeshes, List.mem_flatMap]; exact ⟨l, hl, hm⟩
  have hw := (canon_facts mesh (hmesh mesh hmem)).writable
  simp only [noWeightsByte4Mesh, Bool.or_eq_true, List.all_eq_true, Bool.not_eq_true',
    Bool.and_eq_false_iff, beq_eq_false_iff_ne]
  right
  intro e he
  have := hw e he
  by_cases hu : e.vertexUsage = VU.blendWeights
  · right
    rw [hu] at this
    intro ht
    rw [ht] at this
    revert this; decide
  · exact Or.inl hu

/-- **write ∘ parse** on the canonical class: the model `m0` parsed from `encodeMdl a` is written
back as exactly `encodeMdl a`, so re-reading the written buffer gives `m0` again — the same view,
the same `file_header`, the same `model_data` -/
theorem write_parse (a : AbstractModel) (h : WF a = true) (hcan : Canonical a = true) (v : View)
    (hv : view a = some v) :
    ∃ m0 buf, fromExisting (encodeMdl a) = .ok m0 ∧ writeToBuffer m0 = .ok buf ∧
      buf = encodeMdl a ∧ fromExisting buf = .ok m0 ∧ m0.view = v ∧
      m0.fileHeader = fileHeader a ∧ m0.modelData = modelData a := by
  have hp := parse_encode a h (canonical_noWeightsByte4 a hcan) v hv
  exact ⟨_, _, hp, writeToBuffer_encode a h hcan v hv, rfl, hp, rfl, rfl, rfl⟩

end Physis.Mdl
