import PhysisModel.Proofs.PbdParse
import PhysisModel.Spec.PbdLayout
/-!
`PreBoneDeformer::from_existing` on deformer files in general position (`Spec/PbdLayout.lean`): the reader
returns the stored records wherever the out-of-line blocks lie (`fromExisting_at`), in particular for the
placed family — any block order, gaps, shared and unreferenced blocks, any reserved bytes, any trailer
(`fromExisting_placed`).
-/
namespace Physis.Pbd
open Physis.Spec.Pbd

theorem WFBones_of_WFBlock {bones : List Spec.Pbd.Bone} (h : WFBlock bones) : WFBones bones :=
  ⟨h.1, fun b m => ⟨(h.2 b m).1, fun c mc => ((h.2 b m).2 c mc).1⟩⟩

/-! ### general position -/

theorem readItems_at (file : Bytes) :
    ∀ (rows : List Row) (rest : Bytes),
    (∀ r ∈ rows, r.2.2.length = 4 ∧ WFBlock r.1.bones ∧ BlockAt file r.2.1 r.1.bones) →
    readItems file rows.length (encodeItemsAt rows ++ rest) = .ok (rows.map (fun r => convItem r.1), rest) := by
  intro rows
  induction rows with
  | nil => intro rest _; rfl
  | cons row r ih =>
    intro rest h
    obtain ⟨it, off, res⟩ := row
    obtain ⟨hres, hwf, hoff, X, hX⟩ := h (it, off, res) (by simp)
    have hr := ih rest (fun x hx => h x (by simp [hx]))
    have hdef := readDeformer_block file off it.bones X hoff (WFBones_of_WFBlock hwf) hX.symm
    have hskip : Rd.skip 4 (res ++ (encodeItemsAt r ++ rest)) = encodeItemsAt r ++ rest :=
      drop_of_length _ _ _ hres
    simp only [encodeItemsAt, List.length_cons, List.append_assoc, readItems, Rd.u16le_put, Rd.u32le_put,
      hdef, hskip, hr, List.map_cons, convItem]

theorem length_encodeItemsAt : ∀ (rows : List Row), (∀ r ∈ rows, r.2.2.length = 4) →
    (encodeItemsAt rows).length = 12 * rows.length := by
  intro rows
  induction rows with
  | nil => intro _; rfl
  | cons row r ih =>
    intro h
    obtain ⟨it, off, res⟩ := row
    have hres : res.length = 4 := h (it, off, res) (by simp)
    have hr := ih (fun x hx => h x (by simp [hx]))
    simp only [encodeItemsAt, List.length_append, length_putU16le, length_putU32le, hres, hr, List.length_cons]
    omega

theorem assemble_eq (rows : List Row) (links : List Spec.Pbd.Link) (data : Bytes) :
    assemble rows links data = putU32le (UInt32.ofNat rows.length) ++
      (encodeItemsAt rows ++ (links.flatMap encodeLink ++ data)) := by
  simp [assemble, List.append_assoc]

/-- **the reader returns the stored records of every well-formed file in general position** -/
theorem fromExisting_at (rows : List Row) (links : List Spec.Pbd.Link) (data : Bytes)
    (h : WFRows rows links data) :
    fromExisting (assemble rows links data) =
      .ok ⟨rows.map (fun r => convItem r.1), links.map convLink⟩ := by
  obtain ⟨hcount, hn, hrows⟩ := h
  have hitems := readItems_at (assemble rows links data) rows (links.flatMap encodeLink ++ data) hrows
  have hlinks := readLinks_encode links data
  rw [hcount] at hlinks
  unfold fromExisting
  rw [show Rd.u32le (assemble rows links data) = some (UInt32.ofNat rows.length, _) from by
    rw [assemble_eq]; exact Rd.u32le_put _ _]
  simp only [not_ge_ofNat _ hn, if_false, toNat_ofNat32 _ (show rows.length < 2 ^ 32 by omega),
    hitems, hlinks]

/-! ### the placed family -/

/-- every recorded block lies inside the data area, at its recorded offset -/
theorem place_spec : ∀ (stored : List Stored) (pos : Nat) (q : List Spec.Pbd.Bone × Nat),
    q ∈ (place pos stored).2 →
    pos ≤ q.2 ∧ q.2 - pos + (encodeBlock q.1).length ≤ (place pos stored).1.length ∧
    encodeBlock q.1 <+: (place pos stored).1.drop (q.2 - pos) ∧ ∃ s ∈ stored, s.bones = q.1 := by
  intro stored
  induction stored with
  | nil => intro pos q h; simp [place] at h
  | cons s r ih =>
    intro pos q h
    simp only [place, List.mem_cons] at h
    have hlen : (place pos (s :: r)).1.length =
        s.gap.length + (encodeBlock s.bones).length +
          (place (pos + s.gap.length + (encodeBlock s.bones).length) r).1.length := by
      simp only [place, List.length_append]
    rcases h with h | h
    · subst h
      refine ⟨by simp, ?_, ?_, s, by simp, rfl⟩
      · rw [hlen]; simp only []; omega
      · have : pos + s.gap.length - pos = s.gap.length := by omega
        simp only [place, this, List.append_assoc, List.drop_left]
        exact List.prefix_append _ _
    · obtain ⟨h1, h2, h3, s', hs', hb⟩ := ih _ q h
      refine ⟨by omega, by rw [hlen]; omega, ?_, s', by simp [hs'], hb⟩
      have hsplit : q.2 - pos = (s.gap ++ encodeBlock s.bones).length +
          (q.2 - (pos + s.gap.length + (encodeBlock s.bones).length)) := by
        simp only [List.length_append]; omega
      simp only [place]
      rw [hsplit, ← List.drop_drop, List.drop_left]
      exact h3

theorem offsetOf_mem (m : List (List Spec.Pbd.Bone × Nat)) (bones : List Spec.Pbd.Bone) (off : Nat)
    (h : offsetOf m bones = some off) : (bones, off) ∈ m := by
  unfold offsetOf at h
  cases hf : m.find? (fun p => decide (p.1 = bones)) with
  | none => simp [hf] at h
  | some p =>
    simp only [hf, Option.map_some, Option.some.injEq] at h
    have hp := List.find?_some hf
    have hm := List.mem_of_find?_eq_some hf
    simp only [decide_eq_true_eq] at hp
    obtain ⟨a, b⟩ := p
    simp only at hp h
    subst hp; subst h; exact hm

theorem rowsOf_spec (m : List (List Spec.Pbd.Bone × Nat)) :
    ∀ (items : List Spec.Pbd.Item) (reserved : List Bytes) (rows : List Row),
    rowsOf m items reserved = some rows →
    rows.map (·.1) = items ∧ ∀ r ∈ rows, (r.1.bones, r.2.1) ∈ m ∧ r.2.2 ∈ reserved := by
  intro items
  induction items with
  | nil =>
    intro reserved rows h
    cases reserved with
    | nil => simp only [rowsOf, Option.some.injEq] at h; subst h; simp
    | cons _ _ => simp [rowsOf] at h
  | cons it r ih =>
    intro reserved rows h
    cases reserved with
    | nil => simp [rowsOf] at h
    | cons res rs =>
      simp only [rowsOf] at h
      cases ho : offsetOf m it.bones with
      | none => simp [ho] at h
      | some off =>
        cases hr : rowsOf m r rs with
        | none => simp [ho, hr] at h
        | some rest =>
          simp only [ho, hr, Option.some.injEq] at h
          subst h
          obtain ⟨h1, h2⟩ := ih rs rest hr
          refine ⟨by simp [h1], ?_⟩
          intro x hx
          simp only [List.mem_cons] at hx
          rcases hx with hx | hx
          · subst hx; exact ⟨offsetOf_mem m _ _ ho, by simp⟩
          · exact ⟨(h2 x hx).1, by simp [(h2 x hx).2]⟩

/-- **the reader returns the records of `f` from every placed file**: any storage order of the blocks,
filler in front of each, blocks shared by items with equal bones, blocks nobody points at, any reserved
bytes, any trailer. -/
theorem fromExisting_placed (f : File) (p : Placement) (file : Bytes) (henc : encodePlaced f p = some file)
    (h : WFPlaced f p) : fromExisting file = .ok (toModel f) := by
  obtain ⟨hcount, hstored, hres, hsize⟩ := h
  rw [henc] at hsize
  simp only at hsize
  unfold encodePlaced at henc
  simp only at henc
  cases hrows : rowsOf (place (4 + 12 * f.items.length + 8 * f.links.length) p.stored).2 f.items p.reserved with
  | none => simp [hrows] at henc
  | some rows =>
    simp only [hrows, Option.some.injEq] at henc
    obtain ⟨hmap, hmem⟩ := rowsOf_spec _ _ _ _ hrows
    have hlenrows : rows.length = f.items.length := by rw [← hmap]; simp
    have hres4 : ∀ r ∈ rows, r.2.2.length = 4 := fun r hr => hres _ (hmem r hr).2
    -- the bytes in front of the data area
    have hfile : file = (putU32le (UInt32.ofNat rows.length) ++ encodeItemsAt rows ++ f.links.flatMap encodeLink) ++
        ((place (4 + 12 * f.items.length + 8 * f.links.length) p.stored).1 ++ p.trailer) := by
      rw [← henc]; simp [assemble, List.append_assoc]
    have hpre : (putU32le (UInt32.ofNat rows.length) ++ encodeItemsAt rows ++ f.links.flatMap encodeLink).length =
        4 + 12 * f.items.length + 8 * f.links.length := by
      simp only [List.length_append, length_putU32le, length_encodeItemsAt rows hres4, length_encodeLinks,
        hlenrows]
    have hflen : file.length = 4 + 12 * f.items.length + 8 * f.links.length +
        ((place (4 + 12 * f.items.length + 8 * f.links.length) p.stored).1.length + p.trailer.length) := by
      rw [hfile, List.length_append, hpre, List.length_append]
    have hwf : WFRows rows f.links ((place (4 + 12 * f.items.length + 8 * f.links.length) p.stored).1 ++ p.trailer) := by
      refine ⟨by omega, by omega, ?_⟩
      intro r hr
      obtain ⟨hq, _⟩ := hmem r hr
      obtain ⟨h1, h2, ⟨X, hX⟩, s, hs, hb⟩ := place_spec _ _ _ hq
      simp only at h1 h2 hX hb
      refine ⟨hres4 r hr, by rw [← hb]; exact hstored s hs, ?_, ?_⟩
      · have : 4 ≤ (encodeBlock r.1.bones).length := by
          simp only [encodeBlock, List.length_append, length_putU32le]; omega
        omega
      · rw [henc, hfile]
        have hsplit : r.2.1 = (putU32le (UInt32.ofNat rows.length) ++ encodeItemsAt rows ++
            f.links.flatMap encodeLink).length + (r.2.1 - (4 + 12 * f.items.length + 8 * f.links.length)) := by
          rw [hpre]; omega
        rw [hsplit, ← List.drop_drop, List.drop_left, List.drop_append_of_le_length (by omega), ← hX]
        exact ⟨X ++ p.trailer, by simp [List.append_assoc]⟩
    have := fromExisting_at rows f.links _ hwf
    rw [henc] at this
    rw [this, toModel, ← hmap]
    simp [List.map_map, Function.comp_def]

end Physis.Pbd
