import PhysisModel.Model.Havok
import PhysisModel.Spec.HavokTag
import Std.Tactic.BVDecide
/-!
Packed integers: the reader inverts the encoder for every magnitude below 2^31, either sign, every
admissible width.
-/
namespace Physis.Havok
open Physis.Spec.HavokTag

/-! ### the reader on 1..5 bytes (any bytes with the right continuation flags) -/

def grp (b : UInt8) (shift : UInt32) : UInt32 := (b.toUInt32 &&& 0xFFFFFF7F) <<< shift
def first (b : UInt8) : UInt32 := ((b &&& 0x7f) >>> 1).toUInt32

theorem bne_of_ne {a : UInt8} (h : a ≠ 0) : (a != 0) = true := by simpa using h
theorem bne_of_eq {a : UInt8} (h : a = 0) : (a != 0) = false := by simp [h]

theorem read1 (b0 : UInt8) (r : Bytes) (h0 : b0 &&& 0x80 = 0) :
    readPackedInt (b0 :: r) = (packedFinish b0 (first b0)).map (·, r) := by
  simp only [readPackedInt, bne_of_eq h0, first]; rfl

theorem read2 (b0 b1 : UInt8) (r : Bytes) (h0 : b0 &&& 0x80 ≠ 0) (h1 : b1 &&& 0x80 = 0) :
    readPackedInt (b0 :: b1 :: r) = (packedFinish b0 (first b0 ||| grp b1 6)).map (·, r) := by
  simp only [readPackedInt, packedLoop, bne_of_ne h0, bne_of_eq h1, first, grp]; rfl

theorem read3 (b0 b1 b2 : UInt8) (r : Bytes) (h0 : b0 &&& 0x80 ≠ 0) (h1 : b1 &&& 0x80 ≠ 0)
    (h2 : b2 &&& 0x80 = 0) :
    readPackedInt (b0 :: b1 :: b2 :: r) =
      (packedFinish b0 (first b0 ||| grp b1 6 ||| grp b2 13)).map (·, r) := by
  simp only [readPackedInt, packedLoop, bne_of_ne h0, bne_of_ne h1, bne_of_eq h2, first, grp]; rfl

theorem read4 (b0 b1 b2 b3 : UInt8) (r : Bytes) (h0 : b0 &&& 0x80 ≠ 0) (h1 : b1 &&& 0x80 ≠ 0)
    (h2 : b2 &&& 0x80 ≠ 0) (h3 : b3 &&& 0x80 = 0) :
    readPackedInt (b0 :: b1 :: b2 :: b3 :: r) =
      (packedFinish b0 (first b0 ||| grp b1 6 ||| grp b2 13 ||| grp b3 20)).map (·, r) := by
  simp only [readPackedInt, packedLoop, bne_of_ne h0, bne_of_ne h1, bne_of_ne h2, bne_of_eq h3, first, grp]; rfl

theorem read5 (b0 b1 b2 b3 b4 : UInt8) (r : Bytes) (h0 : b0 &&& 0x80 ≠ 0) (h1 : b1 &&& 0x80 ≠ 0)
    (h2 : b2 &&& 0x80 ≠ 0) (h3 : b3 &&& 0x80 ≠ 0) (h4 : b4 &&& 0x80 = 0) :
    readPackedInt (b0 :: b1 :: b2 :: b3 :: b4 :: r) =
      (packedFinish b0 (first b0 ||| grp b1 6 ||| grp b2 13 ||| grp b3 20 ||| grp b4 27)).map (·, r) := by
  simp only [readPackedInt, packedLoop, bne_of_ne h0, bne_of_ne h1, bne_of_ne h2, bne_of_ne h3,
    bne_of_eq h4, first, grp]; rfl

/-! ### the encoder's bytes -/

/-- the value the reader assigns: sign bit `s`, magnitude `m` -/
def signed (m : UInt32) (s : UInt8) : Int := if s = 1 then -(asI32 m) else asI32 m

theorem finish_eq (b0 s : UInt8) (res m : UInt32) (hs : s ≤ 1) (hb : b0 &&& 1 = s) (hr : res = m)
    (hm : m < 0x80000000) : packedFinish b0 res = some (signed m s) := by
  have h3 : m ≠ 0x80000000 := by bv_decide (timeout := 300)
  subst hr
  simp only [packedFinish, hb, signed]
  by_cases h : s = 1 <;> simp [h, h3]

theorem packed1 (m : UInt32) (s : UInt8) (r : Bytes) (hm : m < 0x40) (hs : s ≤ 1) :
    readPackedInt (packedBytes m s 1 ++ r) = some (signed m s, r) := by
  simp only [packedBytes, List.cons_append, List.nil_append]
  rw [read1 _ _ (by bv_decide (timeout := 300)), finish_eq _ s _ m hs (by bv_decide (timeout := 300)) (by simp only [first]; bv_decide (timeout := 300)) (by bv_decide (timeout := 300))]
  rfl

theorem packed2 (m : UInt32) (s : UInt8) (r : Bytes) (hm : m < 0x2000) (hs : s ≤ 1) :
    readPackedInt (packedBytes m s 2 ++ r) = some (signed m s, r) := by
  simp only [packedBytes, List.cons_append, List.nil_append]
  rw [read2 _ _ _ (by bv_decide (timeout := 300)) (by bv_decide (timeout := 300)),
    finish_eq _ s _ m hs (by bv_decide (timeout := 300)) (by simp only [first, grp]; bv_decide (timeout := 300)) (by bv_decide (timeout := 300))]
  rfl

theorem packed3 (m : UInt32) (s : UInt8) (r : Bytes) (hm : m < 0x100000) (hs : s ≤ 1) :
    readPackedInt (packedBytes m s 3 ++ r) = some (signed m s, r) := by
  simp only [packedBytes, List.cons_append, List.nil_append]
  rw [read3 _ _ _ _ (by bv_decide (timeout := 300)) (by bv_decide (timeout := 300)) (by bv_decide (timeout := 300)),
    finish_eq _ s _ m hs (by bv_decide (timeout := 300)) (by simp only [first, grp]; bv_decide (timeout := 300)) (by bv_decide (timeout := 300))]
  rfl

theorem packed4 (m : UInt32) (s : UInt8) (r : Bytes) (hm : m < 0x8000000) (hs : s ≤ 1) :
    readPackedInt (packedBytes m s 4 ++ r) = some (signed m s, r) := by
  simp only [packedBytes, List.cons_append, List.nil_append]
  rw [read4 _ _ _ _ _ (by bv_decide (timeout := 300)) (by bv_decide (timeout := 300)) (by bv_decide (timeout := 300)) (by bv_decide (timeout := 300)),
    finish_eq _ s _ m hs (by bv_decide (timeout := 300)) (by simp only [first, grp]; bv_decide (timeout := 300)) (by bv_decide (timeout := 300))]
  rfl

theorem packed5 (m : UInt32) (s : UInt8) (r : Bytes) (hm : m < 0x80000000) (hs : s ≤ 1) :
    readPackedInt (packedBytes m s 5 ++ r) = some (signed m s, r) := by
  simp only [packedBytes, List.cons_append, List.nil_append]
  rw [read5 _ _ _ _ _ _ (by bv_decide (timeout := 300)) (by bv_decide (timeout := 300)) (by bv_decide (timeout := 300)) (by bv_decide (timeout := 300)) (by bv_decide (timeout := 300)),
    finish_eq _ s _ m hs (by bv_decide (timeout := 300)) (by simp only [first, grp]; bv_decide (timeout := 300)) hm]
  rfl

/-! ### all widths -/

theorem minWidth_pos (m : UInt32) : 1 ≤ minWidth m ∧ minWidth m ≤ 5 := by
  unfold minWidth; repeat' split
  all_goals omega

theorem lt_of_minWidth (m : UInt32) :
    (minWidth m ≤ 1 → m < 0x40) ∧ (minWidth m ≤ 2 → m < 0x2000) ∧ (minWidth m ≤ 3 → m < 0x100000) ∧
    (minWidth m ≤ 4 → m < 0x8000000) := by
  unfold minWidth
  repeat' split
  all_goals (refine ⟨?_, ?_, ?_, ?_⟩ <;> intro h <;> first | omega | bv_decide (timeout := 300))

theorem packedBytes_read (m : UInt32) (s : UInt8) (k : Nat) (r : Bytes) (hm : m < 0x80000000)
    (hs : s ≤ 1) (hk : minWidth m ≤ k) :
    readPackedInt (packedBytes m s k ++ r) = some (signed m s, r) := by
  obtain ⟨h1, h2, h3, h4⟩ := lt_of_minWidth m
  have hp := (minWidth_pos m).1
  match k, hk with
  | 0, hk => omega
  | 1, hk => exact packed1 m s r (h1 hk) hs
  | 2, hk => exact packed2 m s r (h2 hk) hs
  | 3, hk => exact packed3 m s r (h3 hk) hs
  | 4, hk => exact packed4 m s r (h4 hk) hs
  | k + 5, _ =>
    have : packedBytes m s (k + 5) = packedBytes m s 5 := by simp only [packedBytes]
    rw [this]; exact packed5 m s r hm hs

theorem asI32_ofNat (k : Nat) (h : k < 2 ^ 31) : asI32 (UInt32.ofNat k) = k := by
  have : (UInt32.ofNat k).toNat = k := by
    rw [UInt32.toNat_ofNat']; omega
  simp only [asI32, this]; split <;> omega

/-- `c16_packed_int`: every `i32` other than `i32::MIN`, written in any admissible width, is read
back, and the reader stops exactly behind it -/
theorem readPackedInt_encode (w : Nat) (n : Int) (r : Bytes) (h : InRange n) :
    readPackedInt (encodePackedIntW w n ++ r) = some (n, r) := by
  obtain ⟨hlo, hhi⟩ := h
  have habs : n.natAbs < 2 ^ 31 := by omega
  have hm : UInt32.ofNat n.natAbs < 0x80000000 := by
    rw [UInt32.lt_iff_toNat_lt, UInt32.toNat_ofNat']
    have : (0x80000000 : UInt32).toNat = 2 ^ 31 := by decide
    omega
  unfold encodePackedIntW
  rw [if_pos habs]
  rw [packedBytes_read _ _ _ r hm (by split <;> decide) (by omega)]
  simp only [signed, asI32_ofNat _ habs]
  by_cases hn : n < 0
  · simp [hn]; omega
  · simp [hn]; omega
