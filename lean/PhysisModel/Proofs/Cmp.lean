import PhysisModel.Model.Cmp
import PhysisModel.Spec.Cmp
import PhysisModel.Proofs.ReaderC16
namespace Physis.Cmp
open Physis.Spec.Cmp

theorem encodeRow_length (r : List UInt32) : (encodeRow r).length = 4 * r.length := by
  induction r with
  | nil => rfl
  | cons v vs ih => simp only [encodeRow, List.flatMap_cons, List.length_append, putU32le_length,
      List.length_cons] at *; omega

theorem rows_length (rows : List (List UInt32)) (h : ∀ r ∈ rows, r.length = rowWords) :
    (rows.flatMap encodeRow).length = 56 * rows.length := by
  induction rows with
  | nil => rfl
  | cons r rs ih =>
    have hr : r.length = rowWords := h r (by simp)
    have hrs : ∀ r ∈ rs, r.length = rowWords := fun x hx => h x (by simp [hx])
    simp only [List.flatMap_cons, List.length_append, encodeRow_length, ih hrs, hr, rowWords,
      List.length_cons]; omega

theorem readRow_encode (r : List UInt32) (rest : Bytes) (h : r.length = rowWords) :
    readRow (encodeRow r ++ rest) = some (r, rest) := by
  have := Rd.u32s_put r rest
  rw [h] at this
  exact this

theorem readRows_encode (rows : List (List UInt32)) (rest : Bytes)
    (h : ∀ r ∈ rows, r.length = rowWords) :
    readRows rows.length (rows.flatMap encodeRow ++ rest) = some rows := by
  induction rows with
  | nil => rfl
  | cons r rs ih =>
    have hr : r.length = rowWords := h r (by simp)
    have hrs : ∀ r ∈ rs, r.length = rowWords := fun x hx => h x (by simp [hx])
    simp only [List.length_cons, List.flatMap_cons, List.append_assoc, readRows,
      readRow_encode _ _ hr, ih hrs, Option.map_some]

end Physis.Cmp
