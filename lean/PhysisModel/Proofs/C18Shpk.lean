import PhysisModel.Base.ParserALemmas
import PhysisModel.Model.C18Shpk
/-! `Good` for the models of `ShaderPackage::from_existing` / `find_node` with the fixes (`fx = true`). -/
namespace Physis.C18Shpk
open Physis Physis.A

theorem good_oob_fixed {α} (B : Nat) (f : Fault) : Good B (oob true f : Res α) := by
  unfold oob; simp

theorem u16_le (x : UInt16) : x.toNat ≤ 16777216 := by have := x.toNat_lt; omega

theorem u16Nat_good : PGood u16Nat := PGood.map PGood.u16le
theorem u32Nat_good : PGood u32Nat := PGood.map PGood.u32le

theorem good_utf8 (B : Nat) (x : Bytes) : Good B (utf8 true x) := by
  unfold utf8; split
  · exact good_ok _ _
  · exact good_oob_fixed _ _

theorem blob_good (n : Nat) : PGood (blob true n) := by
  unfold blob; exact PGood.countBytesChecked n

theorem name_good (so : Nat) (localOff : UInt32) (len : UInt16) :
    PGood (P.restorePosition (do
      P.seekStart (so + localOff.toNat)
      let x ← P.countBytes len.toNat
      P.lift (utf8 true x)
      pure len.toNat)) := by
  apply PGood.restorePosition
  apply PGood.bind (PGood.seekStart _); intro _
  apply PGood.bind (PGood.countBytes (u16_le len)); intro x
  apply PGood.bind (PGood.lift (fun B _ => good_utf8 B x)); intro _
  exact PGood.pure _

theorem resourceParameter_good (so : Nat) : PGood (resourceParameter true so) := by
  unfold resourceParameter
  apply PGood.bind PGood.u32le; intro _
  apply PGood.bind PGood.u32le; intro localOff
  apply PGood.bind PGood.u16le; intro len
  apply PGood.bind PGood.u16le; intro _
  apply PGood.bind PGood.u16le; intro _
  apply PGood.bind PGood.u16le; intro _
  exact name_good so localOff len

theorem blobAt_good (pos n : Nat) :
    PGood (P.restorePosition (do P.seekStart pos; blob true n)) := by
  apply PGood.restorePosition
  apply PGood.bind (PGood.seekStart _); intro _
  exact blob_good n

theorem shader_good (sdo so : Nat) (v : Bool) : PGood (shader true sdo so v) := by
  have hp := resourceParameter_good so
  unfold shader
  apply PGood.bind u32Nat_good; intro dataOffset
  apply PGood.bind u32Nat_good; intro dataSize
  apply PGood.bind u16Nat_good; intro c1
  apply PGood.bind u16Nat_good; intro c2
  apply PGood.bind u16Nat_good; intro c3
  apply PGood.bind u16Nat_good; intro c4
  apply PGood.bind (PGood.count _ hp); intro _
  apply PGood.bind (PGood.count _ hp); intro _
  apply PGood.bind (PGood.count _ hp); intro _
  apply PGood.bind (PGood.count _ hp); intro _
  apply PGood.bind (blobAt_good _ _); intro _
  apply PGood.bind (blobAt_good _ _); intro _
  exact PGood.pure _

theorem materialParameter_good : PGood materialParameter := by unfold materialParameter; pgood
theorem key_good : PGood key := by unfold key; pgood
theorem pass_good : PGood pass := by unfold pass; pgood

theorem node_good (a b c d : Nat) : PGood (node a b c d) := by
  unfold node
  apply PGood.bind u32Nat_good; intro selector
  apply PGood.bind u32Nat_good; intro passCount
  apply PGood.bind (PGood.bytes _); intro _
  apply PGood.bind (PGood.countInts _ _); intro _
  apply PGood.bind (PGood.countInts _ _); intro _
  apply PGood.bind (PGood.countInts _ _); intro _
  apply PGood.bind (PGood.countInts _ _); intro _
  apply PGood.bind (PGood.count _ pass_good); intro _
  exact PGood.pure _

theorem nodeAlias_good : PGood nodeAlias := by
  unfold nodeAlias
  apply PGood.bind u32Nat_good; intro s
  apply PGood.bind u32Nat_good; intro n
  exact PGood.pure _

theorem defaults_good (hasDefaults : UInt16) (size : UInt32) :
    PGood (if hasDefaults == 1 then
      (if size.toNat < 2147483648 then P.count (size.toNat / 4) P.f32le else P.failP)
    else P.count 0 P.f32le) := by
  split
  · split
    · exact PGood.count _ PGood.f32le
    · exact PGood.failP
  · exact PGood.count _ PGood.f32le

theorem shpkFile_good : PGood (shpkFile true) := by
  unfold shpkFile
  apply PGood.bind (PGood.magic _); intro _
  apply PGood.bind PGood.u32le; intro _
  apply PGood.bind (PGood.countBytes (n := 4) (by omega)); intro fmt
  apply PGood.bind (PGood.lift (fun B _ => good_utf8 B fmt)); intro _
  apply PGood.bind PGood.u32le; intro _
  apply PGood.bind u32Nat_good; intro sdo
  apply PGood.bind u32Nat_good; intro so
  apply PGood.bind u32Nat_good; intro vsCount
  apply PGood.bind u32Nat_good; intro psCount
  apply PGood.bind PGood.u32le; intro matParamsSize
  apply PGood.bind u16Nat_good; intro matParamCount
  apply PGood.bind PGood.u16le; intro hasDefaults
  apply PGood.bind u16Nat_good; intro scalarCount
  apply PGood.bind PGood.u16le; intro _
  apply PGood.bind u16Nat_good; intro samplerCount
  apply PGood.bind u16Nat_good; intro textureCount
  apply PGood.bind u16Nat_good; intro uavCount
  apply PGood.bind PGood.u16le; intro _
  apply PGood.bind u32Nat_good; intro sysC
  apply PGood.bind u32Nat_good; intro sceneC
  apply PGood.bind u32Nat_good; intro matC
  apply PGood.bind u32Nat_good; intro nodeCount
  apply PGood.bind u32Nat_good; intro aliasCount
  apply PGood.bind (PGood.count _ (shader_good _ _ _)); intro _
  apply PGood.bind (PGood.count _ (shader_good _ _ _)); intro _
  apply PGood.bind (PGood.count _ materialParameter_good); intro _
  apply PGood.bind (defaults_good _ _); intro _
  apply PGood.bind (PGood.count _ (resourceParameter_good _)); intro _
  apply PGood.bind (PGood.count _ (resourceParameter_good _)); intro _
  apply PGood.bind (PGood.count _ (resourceParameter_good _)); intro _
  apply PGood.bind (PGood.count _ (resourceParameter_good _)); intro _
  apply PGood.bind (PGood.count _ key_good); intro _
  apply PGood.bind (PGood.count _ key_good); intro _
  apply PGood.bind (PGood.count _ key_good); intro _
  apply PGood.bind PGood.u32le; intro _
  apply PGood.bind PGood.u32le; intro _
  apply PGood.bind (PGood.count _ (node_good _ _ _ _)); intro nodes
  apply PGood.bind (PGood.count _ nodeAlias_good); intro aliases
  exact PGood.pure _

theorem shpk_good (b : Bytes) : Good (budget b.length) (shpk b) := by
  unfold shpk shpkAt; exact PGood.run shpkFile_good b

theorem findNode_good (B nodes sel : Nat) : ∀ l, Good B (findNode true nodes l sel)
  | [] => by unfold findNode; exact good_fail _
  | (s, n) :: r => by
    unfold findNode
    split
    · split
      · exact good_ok _ _
      · exact good_oob_fixed _ _
    · exact findNode_good B nodes sel r

theorem shpknode_good (b : Bytes) (sel : Nat) : Good (budget b.length) (shpknode b sel) := by
  unfold shpknode shpknodeAt
  exact Good.bind' (PGood.run shpkFile_good b) (fun p => findNode_good _ _ _ _)

end Physis.C18Shpk
