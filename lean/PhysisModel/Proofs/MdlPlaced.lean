import PhysisModel.Proofs.MdlGeometry
import PhysisModel.Spec.MdlPlaced
/-!
`MDL::from_existing` on `encodeMdlP m p` — an abstract model stored with an **arbitrary placement**
of its vertex streams (`Spec/MdlPlaced.lean`): the same statements as `Proofs/MdlGeometry.lean`
proves for the back-to-back placement of `encodeMdl`, for every placement that holds the streams
(`PlacedOk`): element address, vertices, indices, sub-meshes, raw streams, shapes, whole file.

Everything that does not look at the stream offsets or the section offsets (names, sub-meshes,
shapes, the generic `parts_suffix` / `lods_suffix` inductions, `decodeElement_std`) is reused from
`MdlGeometry`; the rows of the placed tables are the canonical rows with other offsets
(`meshRowP`, `lodRowP`).
-/
namespace Physis.Mdl
open Physis Physis.Spec.Mdl

/-! ### slices -/

theorem IsSlice.trans {file seg sub : Bytes} {a b : Nat} (h1 : IsSlice file a seg)
    (h2 : IsSlice seg b sub) : IsSlice file (a + b) sub := by
  obtain ⟨pre, post, e, hl⟩ := h1
  obtain ⟨pre', post', e', hl'⟩ := h2
  exact ⟨pre ++ pre', post' ++ post, by rw [e, e']; simp, by simp [hl, hl']⟩

theorem placedAt_slice {vsec : Bytes} {off : Nat} {data : Bytes}
    (h : placedAt vsec off data = true) : IsSlice vsec off data := by
  simp only [placedAt, Bool.and_eq_true, decide_eq_true_eq, beq_iff_eq] at h
  obtain ⟨hle, he⟩ := h
  refine ⟨vsec.take off, vsec.drop (off + data.length), ?_, by simp; omega⟩
  have e1 : vsec = vsec.take off ++ vsec.drop off := (List.take_append_drop off vsec).symm
  have e2 : vsec.drop off = (vsec.drop off).take data.length ++ (vsec.drop off).drop data.length :=
    (List.take_append_drop _ _).symm
  rw [he, List.drop_drop] at e2
  rw [← e2]
  exact e1

theorem getD_of_getElem? {l : List α} {i : Nat} {x : α} (d : α) (h : l[i]? = some x) :
    l.getD i d = x := by
  simp [List.getD_eq_getElem?_getD, h]

/-! ### what `WFP` provides -/

structure WFPFacts (m : AbstractModel) (p : Placement) : Prop where
  wf : WF m = true
  placed : PlacedOk m p = true
  fileLen : (encodeMdlP m p).length < 4294967296

theorem wfp_facts (m : AbstractModel) (p : Placement) (h : WFP m p = true) : WFPFacts m p := by
  simp only [WFP, Bool.and_eq_true, decide_eq_true_eq] at h
  exact ⟨h.1.1, h.1.2, h.2⟩

theorem placed_stream (m : AbstractModel) (p : Placement) (hp : PlacedOk m p = true) {i : Nat}
    {l : ALod} (hl : m.lods[i]? = some l) {d : Nat} {mesh : AMesh} (hm : l.meshes[d]? = some mesh)
    {j : Nat} {s : AStream} (hs : mesh.streams[j]? = some s) :
    placedAt (p.vsec i) (p.off (psum meshCountOf m.lods i + d) j) s.data = true := by
  simp only [PlacedOk, List.all_eq_true, List.mem_range] at hp
  have h1 := hp i (lt_of_getElem? hl)
  rw [getD_of_getElem? _ hl] at h1
  have h2 := h1 d (lt_of_getElem? hm)
  rw [getD_of_getElem? _ hm] at h2
  have h3 := h2 j (lt_of_getElem? hs)
  rw [getD_of_getElem? _ hs] at h3
  exact h3

/-! ### the rows of the placed tables -/

/-- the `MeshLod` row of LOD `i` -/
abbrev lodRowPOf (m : AbstractModel) (p : Placement) (i : Nat) : MeshLod :=
  lodRowP m p (dataStartP m p) i

/-- the `Mesh` row of mesh `d` of LOD `i` -/
abbrev meshRowPOf (m : AbstractModel) (p : Placement) (i : Nat) (l : ALod) (d : Nat) (mesh : AMesh) :
    Mesh :=
  meshRowP (meshRowOf m i l d mesh) (p.offs.getD (psum meshCountOf m.lods i + d) [])

theorem length_lodRowsP (m : AbstractModel) (p : Placement) (ds : Nat) :
    (lodRowsP m p ds).length = m.lods.length := by
  simp [lodRowsP]

theorem lods_rowP (m : AbstractModel) (p : Placement) (i : Nat) (hi : i < m.lods.length) :
    (modelDataP m p).lods[i]? = some (lodRowPOf m p i) := by
  show (lodRowsP m p (dataStartP m p))[i]? = _
  simp [lodRowsP, List.getElem?_map, List.getElem?_range hi]

theorem meshes_rowP (m : AbstractModel) (p : Placement) (i : Nat) (l : ALod)
    (hl : m.lods[i]? = some l) (d : Nat) (mesh : AMesh) (hm : l.meshes[d]? = some mesh) :
    (modelDataP m p).meshes[psum meshCountOf m.lods i + d]? = some (meshRowPOf m p i l d mesh) := by
  have h := meshes_row m i l hl d mesh hm
  change (allMeshRows 0 m.lods)[psum meshCountOf m.lods i + d]? = _ at h
  show ((allMeshRows 0 m.lods).mapIdx _)[psum meshCountOf m.lods i + d]? = _
  rw [List.getElem?_mapIdx, h]
  rfl

theorem decls_rowP (m : AbstractModel) (p : Placement) (i : Nat) (l : ALod)
    (hl : m.lods[i]? = some l) (d : Nat) (mesh : AMesh) (hm : l.meshes[d]? = some mesh) :
    (modelDataP m p).decls[psum meshCountOf m.lods i + d]? = some mesh.decl :=
  decls_row m i l hl d mesh hm

theorem lodRowP_meshCount (m : AbstractModel) (p : Placement) (ds i : Nat) (l : ALod)
    (hl : m.lods[i]? = some l) : (lodRowP m p ds i).meshCount = l.meshes.length.toUInt16 := by
  simp only [lodRowP, getD_of_getElem? _ hl]

theorem row_offsetsP (row : Mesh) (o : List Nat) (j : Nat) (h3 : j < 3) :
    (meshRowP row o).vertexBufferOffsets.get? j = some (o.getD j 0).toUInt32 := by
  rcases j with _ | _ | _ | j
  · rfl
  · rfl
  · rfl
  · omega

/-! ### where the sections lie in the file -/

theorem length_lodRowsP_enc (m : AbstractModel) (p : Placement) (a b : Nat) :
    ((lodRowsP m p a).flatMap encMeshLod).length = ((lodRowsP m p b).flatMap encMeshLod).length := by
  simp only [lodRowsP, List.flatMap_map, List.length_flatMap]
  congr 1
  apply List.map_congr_left
  intro i _
  simp [encMeshLod, lodRowP]

theorem length_encModelDataP (m : AbstractModel) (p : Placement) (a b : Nat) :
    (encModelData m.version (modelDataAtP m p a)).length =
      (encModelData m.version (modelDataAtP m p b)).length := by
  simp only [encModelData, modelDataAtP, modelDataAt, List.length_append,
    length_lodRowsP_enc m p a b]

theorem sections_sliceP (m : AbstractModel) (p : Placement) :
    IsSlice (encodeMdlP m p) (dataStartP m p) (sectionsP m p) := by
  refine ⟨encFileHeader (fileHeaderP m p) ++ encModelData m.version (modelDataP m p), [], ?_, ?_⟩
  · simp [encodeMdlP]
  · rw [List.length_append, length_encFileHeader, dataStartP, runtimeBlockSizeP, modelDataP,
      length_encModelDataP m p _ 0]

theorem length_lodSectionsP (m : AbstractModel) (p : Placement) (i : Nat) :
    (lodBytesP m p i).length = secSizeP m p i := by
  simp only [lodBytesP, List.length_append, length_indexSection, secSizeP]

/-- the bytes of LOD `i` -/
theorem lod_sliceP (m : AbstractModel) (p : Placement) (i : Nat) (l : ALod)
    (hl : m.lods[i]? = some l) :
    IsSlice (encodeMdlP m p) (secOffP m p (dataStartP m p) i)
      (p.vgap i ++ (p.vsec i ++ (p.igap i ++ indexSection l))) := by
  have h := IsSlice.flatMap (lodBytesP m p)
    (secSizeP m p) (length_lodSectionsP m p) (List.range m.lods.length) _ i i (sections_sliceP m p)
    (List.getElem?_range (lt_of_getElem? hl))
  simp only [lodBytesP, getD_of_getElem? _ hl] at h
  exact h

/-- the vertex section of LOD `i` -/
theorem vsec_sliceP (m : AbstractModel) (p : Placement) (i : Nat) (l : ALod)
    (hl : m.lods[i]? = some l) :
    IsSlice (encodeMdlP m p) (vOffP m p (dataStartP m p) i) (p.vsec i) :=
  (lod_sliceP m p i l hl).right.left

/-- the index section of LOD `i` -/
theorem isec_sliceP (m : AbstractModel) (p : Placement) (i : Nat) (l : ALod)
    (hl : m.lods[i]? = some l) :
    IsSlice (encodeMdlP m p) (iOffP m p (dataStartP m p) i) (indexSection l) :=
  (lod_sliceP m p i l hl).right.right.right

/-- file offset of stream `j` of mesh `d` of LOD `i` -/
def streamAddrP (m : AbstractModel) (p : Placement) (i d j : Nat) : Nat :=
  vOffP m p (dataStartP m p) i + p.off (psum meshCountOf m.lods i + d) j

/-- stream `j` of mesh `d` of LOD `i` -/
theorem stream_sliceP (m : AbstractModel) (p : Placement) (hp : PlacedOk m p = true) (i : Nat)
    (l : ALod) (hl : m.lods[i]? = some l) (d : Nat) (mesh : AMesh) (hm : l.meshes[d]? = some mesh)
    (j : Nat) (s : AStream) (hs : mesh.streams[j]? = some s) :
    IsSlice (encodeMdlP m p) (streamAddrP m p i d j) s.data :=
  (vsec_sliceP m p i l hl).trans (placedAt_slice (placed_stream m p hp hl hm hs))

/-- the index bytes of mesh `d` of LOD `i` -/
theorem index_sliceP (m : AbstractModel) (p : Placement) (i : Nat) (l : ALod)
    (hl : m.lods[i]? = some l) (d : Nat) (mesh : AMesh) (hm : l.meshes[d]? = some mesh) :
    IsSlice (encodeMdlP m p)
      (iOffP m p (dataStartP m p) i + 2 * psum meshIndexWords l.meshes d)
      (meshIndexBytes mesh) := by
  have h1 := isec_sliceP m p i l hl
  have h2 := IsSlice.flatMap meshIndexBytes (fun x => 2 * meshIndexWords x)
    length_meshIndexBytes l.meshes _ d mesh h1 hm
  rw [psum_two_mul] at h2
  exact h2

theorem stream_boundsP (m : AbstractModel) (p : Placement) (h : WFP m p = true) (i : Nat) (l : ALod)
    (hl : m.lods[i]? = some l) (d : Nat) (mesh : AMesh) (hm : l.meshes[d]? = some mesh)
    (j : Nat) (s : AStream) (hs : mesh.streams[j]? = some s) :
    j < 3 ∧ s.data.length = mesh.vertexCount.toNat * s.stride.toNat ∧
      streamAddrP m p i d j + s.data.length < 4294967296 ∧
      IsSlice (encodeMdlP m p) (streamAddrP m p i d j) s.data := by
  have W := wfp_facts m p h
  have MF := wf_mesh m W.wf hl hm
  have hsl := stream_sliceP m p W.placed i l hl d mesh hm j s hs
  have := hsl.length_le
  have := W.fileLen
  have := lt_of_getElem? hs
  have := MF.s3
  exact ⟨by omega, MF.dataLen s (mem_of_getElem? hs), by omega, hsl⟩

/-! ### 1. element addresses -/

theorem element_address'P (m : AbstractModel) (p : Placement) (h : WFP m p = true) (i : Nat)
    (l : ALod) (hl : m.lods[i]? = some l) (d : Nat) (mesh : AMesh) (hm : l.meshes[d]? = some mesh)
    (e : VertexElement) (he : e ∈ mesh.decl) (s : AStream)
    (hs : mesh.streams[e.stream.toNat]? = some s) (k : Nat) (hk : k < mesh.vertexCount.toNat) :
    ∃ a, elementAddress (lodRowPOf m p i) (meshRowPOf m p i l d mesh) e k.toUInt16 = .ok a ∧
      a.toNat = streamAddrP m p i d e.stream.toNat + e.offset.toNat + s.stride.toNat * k ∧
      ∀ n, e.offset.toNat + n ≤ s.stride.toNat →
        readAt (encodeMdlP m p).toArray a.toNat n =
          some ((s.data.drop (k * s.stride.toNat + e.offset.toNat)).take n) := by
  have W := wfp_facts m p h
  obtain ⟨h3, hdl, hlt, hsl⟩ := stream_boundsP m p h i l hl d mesh hm _ s hs
  obtain ⟨_, s', hs', hoff⟩ := (wf_mesh m W.wf hl hm).elems e he
  rw [hs] at hs'; cases hs'
  have hoff' : e.offset.toNat ≤ s.stride.toNat := by
    rcases hoff with hoff | hoff
    · omega
    · rw [hoff] at hk; simp at hk
  have hmul := mul_succ_le (st := s.stride.toNat) hk
  have hvc := mesh.vertexCount.toNat_lt
  have hk16 : k.toUInt16.toNat = k := toUInt16_toNat k (by omega)
  have hA : (vOffP m p (dataStartP m p) i).toUInt32.toNat = vOffP m p (dataStartP m p) i :=
    toUInt32_toNat _ (by unfold streamAddrP at hlt; omega)
  have hB : (p.off (psum meshCountOf m.lods i + d) e.stream.toNat).toUInt32.toNat =
      p.off (psum meshCountOf m.lods i + d) e.stream.toNat :=
    toUInt32_toNat _ (by unfold streamAddrP at hlt; omega)
  have hlodv : (lodRowPOf m p i).vertexDataOffset = (vOffP m p (dataStartP m p) i).toUInt32 := rfl
  have hro : (meshRowPOf m p i l d mesh).vertexBufferOffsets.get? e.stream.toNat =
      some (p.off (psum meshCountOf m.lods i + d) e.stream.toNat).toUInt32 :=
    row_offsetsP _ _ _ h3
  obtain ⟨a, ha, hav⟩ := elementAddress_ok (lodRowPOf m p i) (meshRowPOf m p i l d mesh) e k.toUInt16 _ _
    hro (row_strides m i l d mesh _ s hs h3)
    (by rw [hlodv, hA, hB, hk16]; unfold streamAddrP at hlt; omega)
  rw [hlodv, hA, hB, hk16] at hav
  have hav' : a.toNat = streamAddrP m p i d e.stream.toNat + (k * s.stride.toNat + e.offset.toNat) := by
    rw [hav, Nat.mul_comm k]; unfold streamAddrP; omega
  refine ⟨a, ha, by rw [hav]; unfold streamAddrP; omega, fun n hn => ?_⟩
  rw [hav']
  exact hsl.readAt _ n (by rw [hdl, Nat.mul_comm k]; omega)

/-- **element address** (exported as `c06_placed_element_address`) -/
theorem element_addressP (m : AbstractModel) (p : Placement) (h : WFP m p = true) (i : Nat)
    (l : ALod) (hl : m.lods[i]? = some l) (d : Nat) (mesh : AMesh) (hm : l.meshes[d]? = some mesh)
    (lod : MeshLod) (hlod : (modelDataP m p).lods[i]? = some lod)
    (row : Mesh) (hrow : (modelDataP m p).meshes[meshBase m i + d]? = some row)
    (e : VertexElement) (he : e ∈ mesh.decl) (s : AStream)
    (hs : mesh.streams[e.stream.toNat]? = some s) (k : Nat) (hk : k < mesh.vertexCount.toNat) :
    ∃ a, elementAddress lod row e k.toUInt16 = .ok a ∧
      a.toNat = vOffP m p (dataStartP m p) i + p.off (meshBase m i + d) e.stream.toNat +
        e.offset.toNat + s.stride.toNat * k ∧
      ∀ n, e.offset.toNat + n ≤ s.stride.toNat →
        readAt (encodeMdlP m p).toArray a.toNat n =
          some ((s.data.drop (k * s.stride.toNat + e.offset.toNat)).take n) := by
  have h1 := lods_rowP m p i (lt_of_getElem? hl)
  rw [hlod] at h1
  have h2 := meshes_rowP m p i l hl d mesh hm
  rw [show psum meshCountOf m.lods i = meshBase m i from rfl, hrow] at h2
  cases h1; cases h2
  exact element_address'P m p h i l hl d mesh hm e he s hs k hk

/-! ### 3. vertices -/

theorem readVertex_eqP (m : AbstractModel) (p : Placement) (h : WFP m p = true) (i : Nat) (l : ALod)
    (hl : m.lods[i]? = some l) (d : Nat) (mesh : AMesh) (hm : l.meshes[d]? = some mesh)
    (hw : noWeightsByte4Mesh mesh = true) (k : Nat) (hk : k < mesh.vertexCount.toNat) :
    readVertex (encodeMdlP m p).toArray (lodRowPOf m p i) (meshRowPOf m p i l d mesh) mesh.decl
        k.toUInt16 = .ok (vertexOf mesh k) := by
  have W := wfp_facts m p h
  have hvc : mesh.vertexCount ≠ 0 := by
    intro h0; rw [h0] at hk; simp at hk
  unfold readVertex vertexOf
  apply foldlM_ok_of_forall
  intro e he acc
  obtain ⟨hsup, s, hs, hoff⟩ := (wf_mesh m W.wf hl hm).elems e he
  have hoff' : e.offset.toNat + elemSize e ≤ s.stride.toNat := by
    rcases hoff with hoff | hoff
    · exact hoff
    · exact absurd hoff hvc
  obtain ⟨a, ha, _, hread⟩ := element_address'P m p h i l hl d mesh hm e he s hs k hk
  have hn : ¬ (e.vertexUsage = VU.blendWeights ∧ e.vertexType = VT.byte4) := by
    simp only [noWeightsByte4Mesh, Bool.or_eq_true, beq_iff_eq, List.all_eq_true, Bool.not_eq_true',
      Bool.and_eq_false_iff] at hw
    rcases hw with hw | hw
    · exact absurd hw hvc
    · intro ⟨h1, h2⟩
      rcases hw e he with h' | h'
      · rw [h1] at h'; simp at h'
      · rw [h2] at h'; simp at h'
  rw [ha, R.ok_bind, decodeElement_std _ _ e _ acc (hread _ hoff') hsup hn]
  simp only [hs]

/-- **all vertices of a mesh** -/
theorem readVertices_eqP (m : AbstractModel) (p : Placement) (h : WFP m p = true) (i : Nat)
    (l : ALod) (hl : m.lods[i]? = some l) (d : Nat) (mesh : AMesh) (hm : l.meshes[d]? = some mesh)
    (hw : noWeightsByte4Mesh mesh = true) :
    readVertices (encodeMdlP m p).toArray (lodRowPOf m p i) (meshRowPOf m p i l d mesh) mesh.decl =
      .ok (verticesOf mesh) := by
  unfold readVertices verticesOf
  exact mapM_range_ok _ _ _ (fun k hk => readVertex_eqP m p h i l hl d mesh hm hw k hk)

/-! ### 4. indices, raw streams -/

theorem lods_rows_lengthP (m : AbstractModel) (p : Placement) (h : WF m = true) :
    (modelDataP m p).lods.length = 3 := by
  show (lodRowsP m p (dataStartP m p)).length = 3
  rw [length_lodRowsP, (wf_facts m h).lods3]

theorem header_indexOffsetP (m : AbstractModel) (p : Placement) (h : WF m = true) (i : Nat)
    (hi : i < m.lods.length) :
    (fileHeaderP m p).indexOffsets.get? i =
      some (iOffP m p (dataStartP m p) i).toUInt32 := by
  have hi3 : i < 3 := by have := (wf_facts m h).lods3; omega
  show (Arr3.ofList 0 ((modelDataP m p).lods.map (·.indexDataOffset))).get? i = _
  rw [Arr3.get?_ofList _ _ i (by rw [List.length_map, lods_rows_lengthP m p h]; exact hi3) hi3,
    List.getElem?_map, lods_rowP m p i hi]
  rfl

/-- **indices**: the index address of the reader points at the mesh's indices -/
theorem index_readP (m : AbstractModel) (p : Placement) (h : WFP m p = true) (i : Nat) (l : ALod)
    (hl : m.lods[i]? = some l) (d : Nat) (mesh : AMesh) (hm : l.meshes[d]? = some mesh) :
    ∃ ioff, (fileHeaderP m p).indexOffsets.get? i = some ioff ∧
      ioff.toNat + 2 * (meshRowPOf m p i l d mesh).startIndex.toNat < 4294967296 ∧
      (meshRowPOf m p i l d mesh).indexCount.toNat = mesh.indices.length ∧
      readAt (encodeMdlP m p).toArray (ioff.toNat + 2 * (meshRowPOf m p i l d mesh).startIndex.toNat)
        (2 * mesh.indices.length) = some (mesh.indices.flatMap putU16le) := by
  have W := wfp_facts m p h
  have hsl := index_sliceP m p i l hl d mesh hm
  have hlen := hsl.length_le
  have hfl := W.fileLen
  rw [length_meshIndexBytes, meshIndexWords] at hlen
  have hs : (meshRowPOf m p i l d mesh).startIndex.toNat = psum meshIndexWords l.meshes d :=
    toUInt32_toNat _ (by omega)
  have hc : (meshRowPOf m p i l d mesh).indexCount.toNat = mesh.indices.length :=
    toUInt32_toNat _ (by omega)
  have ho : (iOffP m p (dataStartP m p) i).toUInt32.toNat =
      iOffP m p (dataStartP m p) i := toUInt32_toNat _ (by omega)
  refine ⟨_, header_indexOffsetP m p W.wf i (lt_of_getElem? hl), by rw [hs, ho]; omega, hc, ?_⟩
  rw [hs, ho]
  have := hsl.left.readAt 0 (2 * mesh.indices.length) (by rw [length_flatMap_putU16le]; omega)
  rw [Nat.add_zero, List.drop_zero, ← length_flatMap_putU16le, List.take_length] at this
  rw [← length_flatMap_putU16le]
  exact this

/-- one `stride`-sized chunk of a stream, as read by `readStreams` -/
theorem stream_chunkP (m : AbstractModel) (p : Placement) (h : WFP m p = true) (i : Nat) (l : ALod)
    (hl : m.lods[i]? = some l) (d : Nat) (mesh : AMesh) (hm : l.meshes[d]? = some mesh)
    (j : Nat) (s : AStream) (hs : mesh.streams[j]? = some s) (z : Nat)
    (hz : z < mesh.vertexCount.toNat) :
    (do
      let off ← idx3 (meshRowPOf m p i l d mesh).vertexBufferOffsets j
      let a ← addU32 (lodRowPOf m p i).vertexDataOffset off
      let b ← mulU32 z.toUInt32 s.stride.toUInt32
      let c ← addU32 a b
      match readAt (encodeMdlP m p).toArray c.toNat s.stride.toNat with
      | some d => pure d
      | none => .error .fail : R Bytes) =
    .ok ((s.data.drop (z * s.stride.toNat)).take s.stride.toNat) := by
  obtain ⟨h3, hdl, hlt, hsl⟩ := stream_boundsP m p h i l hl d mesh hm j s hs
  have hmul := mul_succ_le (st := s.stride.toNat) hz
  have hvc := mesh.vertexCount.toNat_lt
  have hz32 : z.toUInt32.toNat = z := toUInt32_toNat z (by omega)
  have hA : (vOffP m p (dataStartP m p) i).toUInt32.toNat = vOffP m p (dataStartP m p) i :=
    toUInt32_toNat _ (by unfold streamAddrP at hlt; omega)
  have hB : (p.off (psum meshCountOf m.lods i + d) j).toUInt32.toNat =
      p.off (psum meshCountOf m.lods i + d) j :=
    toUInt32_toNat _ (by unfold streamAddrP at hlt; omega)
  have hlodv : (lodRowPOf m p i).vertexDataOffset = (vOffP m p (dataStartP m p) i).toUInt32 := rfl
  have hro : (meshRowPOf m p i l d mesh).vertexBufferOffsets.get? j =
      some (p.off (psum meshCountOf m.lods i + d) j).toUInt32 := row_offsetsP _ _ _ h3
  have hzs : z.toUInt32.toNat * s.stride.toUInt32.toNat = s.stride.toNat * z := by
    rw [hz32, UInt8.toNat_toUInt32, Nat.mul_comm]
  have h1 := toNat_add32 (vOffP m p (dataStartP m p) i).toUInt32
    (p.off (psum meshCountOf m.lods i + d) j).toUInt32
    (by rw [hA, hB]; unfold streamAddrP at hlt; omega)
  have h2 := toNat_mul32 z.toUInt32 s.stride.toUInt32 (by rw [hzs]; omega)
  rw [idx3_ok hro, R.ok_bind, hlodv,
    addU32_ok _ _ (by rw [hA, hB]; unfold streamAddrP at hlt; omega), R.ok_bind,
    mulU32_ok _ _ (by rw [hzs]; omega), R.ok_bind,
    addU32_ok _ _ (by rw [h1, h2, hA, hB, hzs]; unfold streamAddrP at hlt; omega), R.ok_bind,
    toNat_add32 _ _ (by rw [h1, h2, hA, hB, hzs]; unfold streamAddrP at hlt; omega), h1, h2, hA, hB, hzs,
    show vOffP m p (dataStartP m p) i + p.off (psum meshCountOf m.lods i + d) j +
      s.stride.toNat * z = streamAddrP m p i d j + z * s.stride.toNat by
        unfold streamAddrP; rw [Nat.mul_comm z],
    hsl.readAt _ _ (by rw [hdl, Nat.mul_comm z]; omega)]
  rfl

/-- **raw streams**: every stream is read from its own offset -/
theorem readStreams_eqP (m : AbstractModel) (p : Placement) (h : WFP m p = true) (i : Nat) (l : ALod)
    (hl : m.lods[i]? = some l) (d : Nat) (mesh : AMesh) (hm : l.meshes[d]? = some mesh) :
    readStreams (encodeMdlP m p).toArray (lodRowPOf m p i) (meshRowPOf m p i l d mesh) =
      .ok (mesh.streams.map (·.data), mesh.streams.map (·.stride.toNat)) := by
  have W := wfp_facts m p h
  have MF := wf_mesh m W.wf hl hm
  have hn : (meshRowPOf m p i l d mesh).vertexStreamCount.toNat = mesh.streams.length :=
    toUInt8_toNat _ (by have := MF.s3; omega)
  have hvc : (meshRowPOf m p i l d mesh).vertexCount = mesh.vertexCount := rfl
  unfold readStreams
  rw [hn, hvc]
  rw [foldlM_ok_of_forall _
    (fun (acc : List Bytes × List Nat) j =>
      (acc.1 ++ [(mesh.streams[j]?.getD default).data],
        acc.2 ++ [(mesh.streams[j]?.getD default).stride.toNat]))]
  · rw [foldl_snoc2, List.nil_append, List.nil_append, range_map_getD mesh.streams (·.data),
      range_map_getD mesh.streams (·.stride.toNat)]
  · intro j hj acc
    have hj' : j < mesh.streams.length := by simpa using hj
    have hs : mesh.streams[j]? = some mesh.streams[j] := List.getElem?_eq_getElem hj'
    generalize mesh.streams[j] = s at hs
    obtain ⟨h3, hdl, _, _⟩ := stream_boundsP m p h i l hl d mesh hm j s hs
    have hst : (meshRowPOf m p i l d mesh).vertexBufferStrides.get? j = some s.stride :=
      row_strides m i l d mesh j s hs h3
    rw [idx3_ok hst, R.ok_bind,
      mapM_range_ok (g := fun z => (s.data.drop (z * s.stride.toNat)).take s.stride.toNat)]
    · rw [R.ok_bind, flatten_chunks, ← hdl, List.take_length, hs]
      rfl
    · intro z hz
      exact stream_chunkP m p h i l hl d mesh hm j s hs z hz

/-! ### 5. parts, LODs, the whole file -/

theorem readPart_eqP (m : AbstractModel) (p : Placement) (h : WFP m p = true)
    (hw : noWeightsByte4 m = true) (i : Nat)
    (l : ALod) (hl : m.lods[i]? = some l) (d : Nat) (mesh : AMesh) (hm : l.meshes[d]? = some mesh)
    (sh : List Shape)
    (hsh : readShapes (modelData m) i (meshRowOf m i l d mesh) (verticesOf mesh) mesh.indices = .ok sh) :
    readPart (encodeMdlP m p).toArray (fileHeaderP m p) (modelDataP m p) i (lodRowPOf m p i)
        (psum meshCountOf m.lods i + d) =
      .ok (partOf (psum meshCountOf m.lods i + d) (subBase m i l d) mesh sh) := by
  have W := wfp_facts m p h
  obtain ⟨ioff, hio, hib, hic, hread⟩ := index_readP m p h i l hl d mesh hm
  have h2 : (2 : UInt32).toNat = 2 := rfl
  have hmul := toNat_mul32 (meshRowPOf m p i l d mesh).startIndex 2 (by rw [h2]; omega)
  rw [h2] at hmul
  have hadd := toNat_add32 ioff ((meshRowPOf m p i l d mesh).startIndex * 2) (by rw [hmul]; omega)
  have hsub : readSubmeshes (modelDataP m p) (meshRowPOf m p i l d mesh) =
      readSubmeshes (modelData m) (meshRowOf m i l d mesh) := rfl
  have hshp : readShapes (modelDataP m p) i (meshRowPOf m p i l d mesh) (verticesOf mesh) mesh.indices =
      readShapes (modelData m) i (meshRowOf m i l d mesh) (verticesOf mesh) mesh.indices := rfl
  unfold readPart
  rw [idx_ok (decls_rowP m p i l hl d mesh hm), R.ok_bind, idx_ok (meshes_rowP m p i l hl d mesh hm),
    R.ok_bind, readVertices_eqP m p h i l hl d mesh hm (noWeightsByte4_mesh m hw hl hm), R.ok_bind,
    idx3_ok hio, R.ok_bind, hic, Nat.mul_comm _ 2, hread]
  dsimp only
  rw [R.pure_eq, R.ok_bind, leU16s_flatMap_put, hsub, readSubmeshes_eq m W.wf i l hl d mesh hm,
    R.ok_bind, hshp, hsh, R.ok_bind, readStreams_eqP m p h i l hl d mesh hm, R.ok_bind]
  rfl

theorem readLod_eqP (m : AbstractModel) (p : Placement) (h : WFP m p = true)
    (hw : noWeightsByte4 m = true) (i : Nat)
    (l : ALod) (hl : m.lods[i]? = some l)
    (ps : List Part)
    (hp : partsOf m i (psum meshCountOf m.lods i) 0 (psum lodSubCount m.lods i) l.meshes = some ps) :
    readLod (encodeMdlP m p).toArray (fileHeaderP m p) (modelDataP m p) i = .ok ps := by
  have W := wfp_facts m p h
  have hle := meshBase_le m i l hl
  have hnm := (wf_facts m W.wf).nMesh
  have hmi : (lodRowPOf m p i).meshIndex.toNat = psum meshCountOf m.lods i :=
    toUInt16_toNat (psum meshCountOf m.lods i) (by omega)
  have hmc : (lodRowPOf m p i).meshCount.toNat = l.meshes.length := by
    rw [lodRowP_meshCount m p _ i l hl]; exact toUInt16_toNat _ (by omega)
  have hsum : ((lodRowPOf m p i).meshIndex + (lodRowPOf m p i).meshCount).toNat =
      psum meshCountOf m.lods i + l.meshes.length := by
    rw [UInt16.toNat_add, hmi, hmc]; omega
  unfold readLod
  rw [idx_ok (lods_rowP m p i (lt_of_getElem? hl)), R.ok_bind,
    addU16_ok _ _ (by rw [hmi, hmc]; omega), R.ok_bind,
    hsum, hmi, show psum meshCountOf m.lods i + l.meshes.length - psum meshCountOf m.lods i =
      l.meshes.length by omega, mapM_range_shift]
  apply parts_suffix m i _ l.meshes _ 0 (psum lodSubCount m.lods i) ps ?_ hp
  intro t mesh sh ht hsh
  rw [Nat.zero_add] at hsh
  exact readPart_eqP m p h hw i l hl t mesh ht sh (readShapes_eq m W.wf i l hl t mesh ht sh hsh)

/-! ### the two header parses and the names -/

theorem wf_modelDataOkP (m : AbstractModel) (p : Placement) (h : WF m = true) :
    modelDataOk (fileHeaderP m p) (modelDataP m p) = true := by
  have h0 := wf_modelDataOk m h
  simp only [modelDataOk, Bool.and_eq_true, beq_iff_eq, List.all_eq_true, blocksOk_iff, and_assoc]
    at h0 ⊢
  obtain ⟨hdl, hdo, hh, he1, he2, hl1, hl2, hm, ha, ht1, ht2, hs, hts1, hts2, hmat, hbn, hver, hsh,
    hsm, hsv, hpad, hbb, hbb1, hbb2⟩ := h0
  refine ⟨hdl, hdo, hh, he1, he2, ?_, ?_, ?_, ha, ht1, ht2, hs, hts1, hts2, hmat, hbn, hver, hsh,
    hsm, hsv, hpad, hbb, hbb1, hbb2⟩
  · exact lods_rows_lengthP m p h
  · intro x hx
    change x ∈ lodRowsP m p (dataStartP m p) at hx
    simp only [lodRowsP, List.mem_map, List.mem_range] at hx
    obtain ⟨i, hi, rfl⟩ := hx
    have hl : m.lods[i]? = some m.lods[i] := List.getElem?_eq_getElem hi
    have := hl2 (lodRowOf m i m.lods[i]) (mem_of_getElem? (lods_row m i _ hl))
    show (lodRowP m p _ i).mid.length = 28
    simp only [lodRowP, getD_of_getElem? _ hl]
    exact this
  · have : (modelDataP m p).meshes.length = (modelData m).meshes.length := by
      show ((allMeshRows 0 m.lods).mapIdx _).length = (allMeshRows 0 m.lods).length
      rw [List.length_mapIdx]
    exact this.trans hm

theorem parse_fileHeaderP (m : AbstractModel) (p : Placement) :
    parseFileHeader (encodeMdlP m p) =
      .ok (fileHeaderP m p, encModelData m.version (modelDataP m p) ++ sectionsP m p) := by
  simp only [encodeMdlP]
  exact parseFileHeader_enc _ _

theorem parse_modelDataP (m : AbstractModel) (p : Placement) (h : WF m = true) :
    parseModelData (fileHeaderP m p) (encModelData m.version (modelDataP m p) ++ sectionsP m p) =
      .ok (modelDataP m p, sectionsP m p) :=
  parseModelData_enc (fileHeaderP m p) (modelDataP m p) (wf_modelDataOkP m p h) (sectionsP m p)

/-- **parse ∘ encode for every placement of the vertex streams**, outside the recorded
`(BlendWeights, Byte4)` class -/
theorem parse_encodeP (m : AbstractModel) (p : Placement) (h : WFP m p = true)
    (hw : noWeightsByte4 m = true) (v : View) (hv : view m = some v) :
    fromExisting (encodeMdlP m p) =
      .ok { fileHeader := fileHeaderP m p, modelData := modelDataP m p, lods := v.lods,
            affectedBoneNames := v.affectedBoneNames, materialNames := v.materialNames } := by
  have WP := wfp_facts m p h
  have W := wf_facts m WP.wf
  cases hlv : lodsView m m.lodCount.toNat 0 0 m.lods with
  | none => simp [view, hlv] at hv
  | some ls =>
    simp only [view, hlv, Option.bind_eq_bind, Option.bind_some, Option.some.injEq] at hv
    subst hv
    have hl : (List.range (modelDataP m p).header.lodCount.toNat).mapM
        (readLod (encodeMdlP m p).toArray (fileHeaderP m p) (modelDataP m p)) = .ok ls := by
      show (List.range m.lodCount.toNat).mapM _ = _
      rw [List.range_eq_range']
      apply lods_suffix m _ m.lods m.lodCount.toNat 0 0 0 ls (by omega)
        (by have := W.lc3; have := W.lods3; omega) ?_ hlv
      intro t l ps ht _ hp
      rw [Nat.zero_add] at hp ⊢
      rw [Nat.zero_add, Nat.zero_add] at hp
      exact readLod_eqP m p h hw t l ht ps hp
    have hbn : (modelDataP m p).boneNameOffsets.mapM (nameAt (modelDataP m p).header.strings) =
        (.ok (m.bones.map (·.flatMap latin1Utf8)) : R (List Bytes)) := bone_names m WP.wf
    have hmn : (modelDataP m p).materialNameOffsets.mapM (nameAt (modelDataP m p).header.strings) =
        (.ok (m.materials.map (·.flatMap latin1Utf8)) : R (List Bytes)) := material_names m WP.wf
    unfold fromExisting
    rw [parse_fileHeaderP, R.ok_bind]
    dsimp only
    rw [parse_modelDataP m p WP.wf, R.ok_bind]
    dsimp only
    rw [hbn, R.ok_bind, hmn, R.ok_bind, hl, R.ok_bind]
    rfl

theorem parse_encode_viewP (m : AbstractModel) (p : Placement) (h : WFP m p = true)
    (hw : noWeightsByte4 m = true) (v : View) (hv : view m = some v) :
    (fromExisting (encodeMdlP m p)).map MDL.view = .ok v := by
  rw [parse_encodeP m p h hw v hv]; rfl

/-! ### the back-to-back placement: `encodeMdlP m (canonP m)` is `encodeMdl m` -/

theorem psum_succ' (f : α → Nat) (l : List α) (i : Nat) (x : α) (h : l[i]? = some x) :
    psum f l (i + 1) = psum f l i + f x := by
  simp [psum, List.take_add_one, h]

theorem psum_range_getD (f : α → Nat) (g : Nat → Nat) (l : List α)
    (hfg : ∀ k x, l[k]? = some x → g k = f x) :
    ∀ i, i ≤ l.length → psum g (List.range l.length) i = psum f l i := by
  intro i
  induction i with
  | zero => intro _; simp
  | succ i ih =>
    intro hi
    have hx : l[i]? = some l[i] := List.getElem?_eq_getElem (by omega)
    rw [psum_succ' g _ i i (List.getElem?_range (by omega)), psum_succ' f l i _ hx, ih (by omega),
      hfg i _ hx]

theorem range_flatMap_getD [Inhabited α] (g : α → List β) (l : List α) :
    (List.range l.length).flatMap (fun i => g (l.getD i default)) = l.flatMap g := by
  induction l with
  | nil => rfl
  | cons x xs ih =>
    rw [List.length_cons, List.range_succ_eq_map, List.flatMap_cons, List.flatMap_map,
      List.flatMap_cons, ← ih]
    rfl

theorem canon_vsec (m : AbstractModel) (i : Nat) :
    (canonP m).vsec i = vertexSection (m.lods.getD i default) := by
  show (m.lods.map vertexSection).getD i [] = _
  rw [List.getD_eq_getElem?_getD, List.getD_eq_getElem?_getD, List.getElem?_map]
  cases m.lods[i]? <;> rfl

theorem canon_vgap (m : AbstractModel) (i : Nat) : (canonP m).vgap i = [] := by
  simp [Placement.vgap, canonP]

theorem canon_igap (m : AbstractModel) (i : Nat) : (canonP m).igap i = [] := by
  simp [Placement.igap, canonP]

theorem canon_secSize (m : AbstractModel) (k : Nat) (x : ALod) (h : m.lods[k]? = some x) :
    secSizeP m (canonP m) k = lodSize x := by
  rw [secSizeP, canon_vsec, canon_vgap, canon_igap, getD_of_getElem? _ h, length_vertexSection,
    lodSize]
  simp

theorem lodRowsP_canon (m : AbstractModel) (ds : Nat) :
    lodRowsP m (canonP m) ds = lodRows 0 ds m.lods := by
  apply List.ext_getElem?
  intro i
  by_cases hi : i < m.lods.length
  · have hl : m.lods[i]? = some m.lods[i] := List.getElem?_eq_getElem hi
    generalize m.lods[i] = l at hl
    have hoff : secOffP m (canonP m) ds i = ds + psum lodSize m.lods i := by
      show ds + psum (secSizeP m (canonP m)) (List.range m.lods.length) i = _
      rw [psum_range_getD lodSize _ m.lods (canon_secSize m) i (by omega)]
    rw [lodRows_getElem? _ i 0 ds l hl]
    simp only [lodRowsP, List.getElem?_map, List.getElem?_range hi, Option.map_some]
    congr 1
    simp only [lodRowP, lodRow, vOffP, iOffP, canon_vsec, canon_vgap, canon_igap,
      getD_of_getElem? _ hl, length_vertexSection, hoff, Nat.zero_add, List.length_nil, Nat.add_zero]
    rfl
  · rw [List.getElem?_eq_none (by rw [length_lodRowsP]; omega),
      List.getElem?_eq_none (by rw [length_lodRows]; omega)]

theorem meshRowP_self (r : Mesh) :
    meshRowP r (r.vertexBufferOffsets.toList.map (·.toNat)) = r := by
  rcases r with ⟨a1, a2, a3, a4, a5, a6, a7, ⟨x, y, z⟩, a9, a10⟩
  simp [meshRowP, Arr3.toList]

theorem meshRowsP_canon (m : AbstractModel) : meshRowsP m (canonP m) = allMeshRows 0 m.lods := by
  apply List.ext_getElem?
  intro k
  show ((allMeshRows 0 m.lods).mapIdx _)[k]? = _
  rw [List.getElem?_mapIdx]
  cases hk : (allMeshRows 0 m.lods)[k]? with
  | none => rfl
  | some r =>
    have : (canonP m).offs.getD k [] = r.vertexBufferOffsets.toList.map (·.toNat) := by
      show ((allMeshRows 0 m.lods).map _).getD k [] = _
      rw [List.getD_eq_getElem?_getD, List.getElem?_map, hk]
      rfl
    simp only [Option.map_some, this, meshRowP_self]

theorem modelDataAtP_canon (m : AbstractModel) (ds : Nat) :
    modelDataAtP m (canonP m) ds = modelDataAt m ds := by
  unfold modelDataAtP
  rw [lodRowsP_canon, meshRowsP_canon]
  rfl

theorem sectionsP_canon (m : AbstractModel) : sectionsP m (canonP m) = sections m := by
  unfold sectionsP sections
  have : lodBytesP m (canonP m) =
      fun i => (fun l => vertexSection l ++ indexSection l) (m.lods.getD i default) := by
    funext i
    simp only [lodBytesP, canon_vsec, canon_vgap, canon_igap, List.nil_append]
  rw [this]
  exact range_flatMap_getD (fun l => vertexSection l ++ indexSection l) m.lods

/-- the placed encoder generalises `encodeMdl`: on the back-to-back placement they coincide -/
theorem encodeMdlP_canon (m : AbstractModel) : encodeMdlP m (canonP m) = encodeMdl m := by
  have hr : runtimeBlockSizeP m (canonP m) = runtimeBlockSize m := by
    unfold runtimeBlockSizeP runtimeBlockSize; rw [modelDataAtP_canon]
  have hd : dataStartP m (canonP m) = dataStart m := by unfold dataStartP dataStart; rw [hr]
  have hmd : modelDataP m (canonP m) = modelData m := by
    unfold modelDataP modelData; rw [modelDataAtP_canon, hd]
  have hfh : fileHeaderP m (canonP m) = fileHeader m := by
    unfold fileHeaderP; simp only [hmd, hr]; rfl
  unfold encodeMdlP encodeMdl
  rw [hfh, hmd, sectionsP_canon]

/-! ### the back-to-back placement is a placement: `WF m → WFP m (canonP m)` -/

theorem IsSlice.placedAt {vsec : Bytes} {off : Nat} {data : Bytes} (h : IsSlice vsec off data) :
    placedAt vsec off data = true := by
  obtain ⟨pre, post, e, hl⟩ := h
  subst hl
  simp only [Spec.Mdl.placedAt, Bool.and_eq_true, decide_eq_true_eq, beq_iff_eq]
  refine ⟨by rw [e]; simp, ?_⟩
  rw [e, List.drop_left, List.take_left]

theorem IsSlice.refl (b : Bytes) : IsSlice b 0 b := ⟨[], [], by simp, rfl⟩

/-- stream `j` of mesh `d` inside the vertex section of its LOD -/
theorem stream_in_vertexSection (l : ALod) (d : Nat) (mesh : AMesh) (hm : l.meshes[d]? = some mesh)
    (j : Nat) (s : AStream) (hs : mesh.streams[j]? = some s) :
    IsSlice (vertexSection l) (psum streamSize l.meshes d + psum dataLen mesh.streams j) s.data := by
  have h2 := IsSlice.flatMap (fun (x : AMesh) => x.streams.flatMap (·.data)) streamSize
    length_meshStreams l.meshes 0 d mesh (IsSlice.refl _) hm
  have h3 := IsSlice.flatMap (fun (s : AStream) => s.data) dataLen (fun _ => rfl) mesh.streams _ j s h2 hs
  rw [Nat.zero_add] at h3
  exact h3

theorem canon_off (m : AbstractModel) (h : WF m = true) (i : Nat) (l : ALod)
    (hl : m.lods[i]? = some l) (d : Nat) (mesh : AMesh) (hm : l.meshes[d]? = some mesh)
    (j : Nat) (s : AStream) (hs : mesh.streams[j]? = some s) :
    (canonP m).off (psum meshCountOf m.lods i + d) j =
      psum streamSize l.meshes d + psum dataLen mesh.streams j := by
  obtain ⟨h3, _, hlt, _⟩ := stream_bounds m h i l hl d mesh hm j s hs
  have hrow := meshes_row m i l hl d mesh hm
  change (allMeshRows 0 m.lods)[psum meshCountOf m.lods i + d]? = _ at hrow
  have ho := row_offsets m i l d mesh j (lt_of_getElem? hs) h3
  have e1 : (canonP m).offs.getD (psum meshCountOf m.lods i + d) [] =
      (meshRowOf m i l d mesh).vertexBufferOffsets.toList.map (·.toNat) := by
    show ((allMeshRows 0 m.lods).map _).getD _ [] = _
    rw [List.getD_eq_getElem?_getD, List.getElem?_map, hrow]
    rfl
  have e2 : ∀ (a : Arr3 UInt32) (v : UInt32), a.get? j = some v →
      (a.toList.map (·.toNat)).getD j 0 = v.toNat := by
    intro a v hv
    rcases j with _ | _ | _ | j
    · simp only [Arr3.get?, Option.some.injEq] at hv; subst hv; rfl
    · simp only [Arr3.get?, Option.some.injEq] at hv; subst hv; rfl
    · simp only [Arr3.get?, Option.some.injEq] at hv; subst hv; rfl
    · omega
  show ((canonP m).offs.getD _ []).getD j 0 = _
  rw [e1, e2 _ _ ho]
  exact toUInt32_toNat _ (by unfold streamAddr at hlt; omega)

theorem placedOk_canon (m : AbstractModel) (h : WF m = true) : PlacedOk m (canonP m) = true := by
  simp only [PlacedOk, List.all_eq_true, List.mem_range]
  intro i hi d hd j hj
  have hl : m.lods[i]? = some m.lods[i] := List.getElem?_eq_getElem hi
  rw [getD_of_getElem? _ hl] at hd hj ⊢
  generalize m.lods[i] = l at hl hd hj
  have hm : l.meshes[d]? = some l.meshes[d] := List.getElem?_eq_getElem hd
  rw [getD_of_getElem? _ hm] at hj ⊢
  generalize l.meshes[d] = mesh at hm hj
  have hs : mesh.streams[j]? = some mesh.streams[j] := List.getElem?_eq_getElem hj
  rw [getD_of_getElem? _ hs]
  generalize mesh.streams[j] = s at hs
  rw [canon_vsec, getD_of_getElem? _ hl]
  have := canon_off m h i l hl d mesh hm j s hs
  rw [show meshBase m i = psum meshCountOf m.lods i from rfl, this]
  exact (stream_in_vertexSection l d mesh hm j s hs).placedAt

/-- every well-formed model with its back-to-back placement is in the quantifier of the placed
theorems: `parse_encode` is the instance `p = canonP m` of `parse_encodeP` -/
theorem wfp_canon (m : AbstractModel) (h : WF m = true) : WFP m (canonP m) = true := by
  simp only [WFP, Bool.and_eq_true, decide_eq_true_eq]
  exact ⟨⟨h, placedOk_canon m h⟩, by rw [encodeMdlP_canon]; exact (wf_facts m h).fileLen⟩

end Physis.Mdl
