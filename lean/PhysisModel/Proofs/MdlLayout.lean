import PhysisModel.Proofs.MdlGrammar
/-!
The layout computed by `Spec.Mdl.encodeMdl` is consistent with its own count fields (so the
grammar reads it back), and the string table yields the names.
-/
namespace Physis.Mdl
open Physis Physis.Spec.Mdl

theorem toUInt16_toNat (n : Nat) (h : n < 65536) : n.toUInt16.toNat = n := by simp [h]
theorem toUInt32_toNat (n : Nat) (h : n < 4294967296) : n.toUInt32.toNat = n := by simp [h]
theorem toUInt8_toNat (n : Nat) (h : n < 256) : n.toUInt8.toNat = n := by simp [h]

theorem supported_valid (u t : UInt8) (h : supported u t = true) :
    validType t = true ∧ validUsage u = true := by
  simp only [supported, Bool.or_eq_true, Bool.and_eq_true, beq_iff_eq] at h
  rcases h with (((((((⟨rfl, h⟩ | ⟨rfl, h⟩) | ⟨rfl, h⟩) | ⟨rfl, h⟩) | ⟨rfl, h⟩) | ⟨rfl, rfl⟩) | ⟨rfl, rfl⟩) | ⟨rfl, rfl⟩)
  all_goals first
    | decide
    | (rcases h with ((rfl | rfl) | rfl) | rfl <;> decide)
    | (rcases h with (rfl | rfl) | rfl <;> decide)
    | (rcases h with rfl | rfl <;> decide)

theorem length_lodRows (l : List ALod) : ∀ a b, (lodRows a b l).length = l.length := by
  induction l with
  | nil => intros; rfl
  | cons x xs ih => intro a b; simp [lodRows, ih]

theorem length_meshRows (l : List AMesh) : ∀ a b c, (meshRows a b c l).length = l.length := by
  induction l with
  | nil => intros; rfl
  | cons x xs ih => intro a b c; simp [meshRows, ih]

theorem length_allMeshRows (l : List ALod) :
    ∀ a, (allMeshRows a l).length = (l.flatMap (·.meshes)).length := by
  induction l with
  | nil => intros; rfl
  | cons x xs ih => intro a; simp [allMeshRows, length_meshRows, ih]

theorem length_nameOffsets (l : List Bytes) : ∀ b, (nameOffsets b l).length = l.length := by
  induction l with
  | nil => intros; rfl
  | cons x xs ih => intro b; simp [nameOffsets, ih]

theorem mid_lodRows (l : List ALod) : ∀ a b, ∀ x ∈ lodRows a b l, ∃ y ∈ l, x.mid = y.mid := by
  induction l with
  | nil => intro a b x hx; simp [lodRows] at hx
  | cons y ys ih =>
    intro a b x hx
    simp only [lodRows, List.mem_cons] at hx
    rcases hx with rfl | hx
    · exact ⟨y, by simp, rfl⟩
    · obtain ⟨z, hz, e⟩ := ih _ _ x hx
      exact ⟨z, by simp [hz], e⟩


theorem meshOk_declOk (x : AMesh) (h : meshOk x = true) : declOk x.decl = true := by
  simp only [meshOk, Bool.and_eq_true, decide_eq_true_eq, List.all_eq_true, and_assoc] at h
  obtain ⟨h1, h16, hel, hs1, hs3, _, _⟩ := h
  simp only [declOk, Bool.and_eq_true, decide_eq_true_eq, List.all_eq_true, bne_iff_ne]
  refine ⟨⟨⟨h1, h16⟩, fun e he => ?_⟩, fun e he => ?_⟩
  · have := hel e he
    simp only [elemOk, Bool.and_eq_true] at this
    have := supported_valid _ _ this.1.1
    simp [elemValid, this.1, this.2]
  · have := hel e (List.mem_of_mem_drop he)
    simp only [elemOk, Bool.and_eq_true, decide_eq_true_eq] at this
    intro hff
    have h2 := this.1.2
    rw [hff] at h2
    have : (255 : UInt8).toNat = 255 := rfl
    omega

theorem wf_modelDataOk (m : AbstractModel) (h : WF m = true) :
    modelDataOk (fileHeader m) (modelData m) = true := by
  simp only [WF, Bool.and_eq_true, decide_eq_true_eq, beq_iff_eq, List.all_eq_true, and_assoc,
    blocksOk_iff] at h
  obtain ⟨hl3, hlc1, hlc3, hlods, hf1, hf2, hnames, hnm, hnn, hns, hna, hnb, hnmat, hnsh, hnshm,
    hnshv, hne, hntm, hnts, hbe, hbtm, hbts, hbbb, hbbl, hbbs, hpad, hver, hst, hfile⟩ := h
  simp only [modelDataOk, Bool.and_eq_true, beq_iff_eq, List.all_eq_true, blocksOk_iff, and_assoc]
  have hmeshes : ∀ x ∈ allMeshes m, meshOk x = true := by
    intro x hx
    simp only [allMeshes, List.mem_flatMap] at hx
    obtain ⟨l, hl, hx⟩ := hx
    exact (hlods l hl).2 x hx
  refine ⟨?_, ?_, ?_, ?_, hbe, ?_, ?_, ?_, ?_, ?_, hbtm, ?_, ?_, hbts, ?_, ?_, ?_, ?_, ?_, ?_, ?_,
    hbbs, ?_, hbbb⟩
  · simp [modelData, modelDataAt, fileHeader]; omega
  · intro d hd
    simp only [modelData, modelDataAt, List.mem_map] at hd
    obtain ⟨x, hx, rfl⟩ := hd
    exact meshOk_declOk x (hmeshes x hx)
  · simp [headerOk, modelData, modelDataAt, hf1, hf2]; omega
  · simp [modelData, modelDataAt]; omega
  · simp [modelData, modelDataAt, length_lodRows, hl3]
  · intro x hx
    simp only [modelData, modelDataAt] at hx
    obtain ⟨y, hy, e⟩ := mid_lodRows _ _ _ x hx
    simpa [e] using (hlods y hy).1
  · simp only [modelData, modelDataAt, length_allMeshRows]
    rw [toUInt16_toNat _ hnm]; rfl
  · simp [modelData, modelDataAt, length_nameOffsets]; omega
  · simp [modelData, modelDataAt]; omega
  · simp only [modelData, modelDataAt, List.length_flatMap]
    rw [toUInt16_toNat _ hns]
  · simp [modelData, modelDataAt]; omega
  · simp [modelData, modelDataAt, length_nameOffsets]; omega
  · simp [modelData, modelDataAt, length_nameOffsets]; omega
  · show (if isV5 (fileHeader m).version = true then _ else _) = true
    have hv : (fileHeader m).version = m.version := rfl
    rw [hv]
    rcases Bool.eq_false_or_eq_true (isV5 m.version) with hv5 | hv5
    · have hv6 := not_isV6_of_isV5 _ hv5
      simp only [hv5, ↓reduceIte, Bool.and_eq_true, decide_eq_true_eq, List.all_eq_true] at hver
      obtain ⟨⟨hb1, hb2⟩, hb3⟩ := hver
      simp only [hv5, ↓reduceIte, modelData, modelDataAt, hv6, Bool.false_eq_true,
        Bool.and_eq_true, beq_iff_eq, List.all_eq_true, List.isEmpty_nil, and_true]
      refine ⟨⟨(toUInt16_toNat _ hb1).symm, hb2⟩, ?_⟩
      simp; omega
    · have hv6 := isV6_of_not_isV5 _ hv5
      simp only [hv5, Bool.false_eq_true, ↓reduceIte, Bool.and_eq_true, decide_eq_true_eq,
        List.all_eq_true] at hver
      obtain ⟨⟨hb1, hb2⟩, hb3⟩ := hver
      simp only [hv5, Bool.false_eq_true, ↓reduceIte, modelData, modelDataAt, hv6,
        Bool.and_eq_true, beq_iff_eq, List.all_eq_true, List.isEmpty_nil, and_true]
      refine ⟨⟨(toUInt16_toNat _ hb1).symm, hb2⟩, ?_⟩
      simp; omega
  · simp only [modelData, modelDataAt]
    rw [toUInt16_toNat _ hnsh]
    simp [shapeRows, length_nameOffsets]
  · simp [modelData, modelDataAt]; omega
  · simp [modelData, modelDataAt]; omega
  · simp [modelData, modelDataAt]; omega
  · simp [modelData, modelDataAt, hbbl]; omega


/-! ### names and the two header parses on `encodeMdl m` -/


theorem takeWhile_name (name post : Bytes) (hn : nameOk name = true) :
    (name ++ 0 :: post).takeWhile (· != 0) = name := by
  induction name with
  | nil => simp
  | cons x xs ih =>
    simp only [nameOk, List.all_cons, Bool.and_eq_true] at hn
    simp only [List.cons_append, List.takeWhile_cons, hn.1, ↓reduceIte]
    rw [ih (by simpa [nameOk] using hn.2)]

theorem nameAt_cstr (pre name post : Bytes) (hn : nameOk name = true)
    (hlen : pre.length < 4294967296) :
    nameAt (pre ++ (cstr name ++ post)) pre.length.toUInt32 = .ok (name.flatMap latin1Utf8) := by
  have hd : (pre ++ (cstr name ++ post)).drop pre.length = name ++ 0 :: post := by
    simp [cstr]
  simp only [nameAt, toUInt32_toNat _ hlen, hd, takeWhile_name _ _ hn]
  simp

theorem length_flatMap_cstr (l : List Bytes) : (l.flatMap cstr).length = namesSize l := by
  induction l with
  | nil => rfl
  | cons x xs ih => simp [namesSize, cstr, List.flatMap_cons] at ih ⊢; omega

theorem names_mapM (names : List Bytes) : ∀ (pre post : Bytes),
    (∀ n ∈ names, nameOk n = true) → pre.length + namesSize names < 4294967296 + 1 →
    ((nameOffsets pre.length names).map Nat.toUInt32).mapM
        (nameAt (pre ++ (names.flatMap cstr ++ post))) =
      (.ok (names.map (·.flatMap latin1Utf8)) : R (List Bytes)) := by
  induction names with
  | nil => intros; rfl
  | cons n ns ih =>
    intro pre post hok hlen
    have hsz : namesSize (n :: ns) = n.length + 1 + namesSize ns := by simp [namesSize]
    simp only [nameOffsets, List.map_cons, List.mapM_cons, List.flatMap_cons, List.append_assoc]
    rw [nameAt_cstr pre n _ (hok n (by simp)) (by omega)]
    have e : pre ++ (cstr n ++ (ns.flatMap cstr ++ post)) = (pre ++ cstr n) ++ (ns.flatMap cstr ++ post) := by
      simp
    have e2 : pre.length + n.length + 1 = (pre ++ cstr n).length := by simp [cstr]; omega
    rw [e, e2, ih (pre ++ cstr n) post (fun x hx => hok x (by simp [hx])) (by rw [← e2]; omega)]
    rfl


theorem parse_fileHeader (m : AbstractModel) :
    parseFileHeader (encodeMdl m) =
      .ok (fileHeader m, encModelData m.version (modelData m) ++ sections m) := by
  simp only [encodeMdl]
  exact parseFileHeader_enc _ _

theorem parse_modelData (m : AbstractModel) (h : WF m = true) :
    parseModelData (fileHeader m) (encModelData m.version (modelData m) ++ sections m) =
      .ok (modelData m, sections m) :=
  parseModelData_enc (fileHeader m) (modelData m) (wf_modelDataOk m h) (sections m)

theorem wf_names (m : AbstractModel) (h : WF m = true) :
    (∀ n ∈ allNames m, nameOk n = true) ∧ (stringTable m).length < 4294967296 := by
  simp only [WF, Bool.and_eq_true, decide_eq_true_eq, List.all_eq_true, and_assoc] at h
  obtain ⟨_, _, _, _, _, _, hn, hrest⟩ := h
  refine ⟨hn, ?_⟩
  simp only [← and_assoc] at hrest
  exact hrest.1.2

theorem stringTable_split (m : AbstractModel) :
    stringTable m = m.attributes.flatMap cstr ++ (m.bones.flatMap cstr ++
      (m.materials.flatMap cstr ++ (m.shapes.map (·.name)).flatMap cstr)) := by
  simp [stringTable, allNames, List.flatMap_append]

theorem bone_names (m : AbstractModel) (h : WF m = true) :
    (modelData m).boneNameOffsets.mapM (nameAt (modelData m).header.strings) =
      (.ok (m.bones.map (·.flatMap latin1Utf8)) : R (List Bytes)) := by
  obtain ⟨hok, hlen⟩ := wf_names m h
  have hs : (modelData m).header.strings = stringTable m := rfl
  have ho : (modelData m).boneNameOffsets =
      (nameOffsets (m.attributes.flatMap cstr).length m.bones).map Nat.toUInt32 := by
    simp only [modelData, modelDataAt, boneBase, length_flatMap_cstr]
  rw [hs, ho, stringTable_split]
  apply names_mapM
  · intro n hn; exact hok n (by simp [allNames, hn])
  · rw [stringTable_split] at hlen
    simp only [List.length_append, length_flatMap_cstr] at hlen ⊢
    omega

theorem material_names (m : AbstractModel) (h : WF m = true) :
    (modelData m).materialNameOffsets.mapM (nameAt (modelData m).header.strings) =
      (.ok (m.materials.map (·.flatMap latin1Utf8)) : R (List Bytes)) := by
  obtain ⟨hok, hlen⟩ := wf_names m h
  have hs : (modelData m).header.strings = stringTable m := rfl
  have ho : (modelData m).materialNameOffsets =
      (nameOffsets (m.attributes.flatMap cstr ++ m.bones.flatMap cstr).length m.materials).map
        Nat.toUInt32 := by
    simp only [modelData, modelDataAt, materialBase, boneBase, length_flatMap_cstr, List.length_append]
  have e : stringTable m = (m.attributes.flatMap cstr ++ m.bones.flatMap cstr) ++
      (m.materials.flatMap cstr ++ (m.shapes.map (·.name)).flatMap cstr) := by
    rw [stringTable_split]; simp
  rw [hs, ho, e]
  apply names_mapM
  · intro n hn; exact hok n (by simp [allNames, hn])
  · rw [e] at hlen
    simp only [List.length_append, length_flatMap_cstr] at hlen ⊢
    omega


end Physis.Mdl
