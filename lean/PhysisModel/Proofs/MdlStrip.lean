import PhysisModel.Proofs.MdlHeaders
/-!
# C07 — what `update_headers` recomputes and what it keeps (vocabulary)

`stripMD` / `stripFH` erase exactly the fields `MDL::update_headers` recomputes (the *layout*
fields): a mesh's `start_index` and the `vertex_buffer_offsets` of its declared streams, a LOD
row's two sizes and three offsets, the three shape counts of the model header, and the stack /
runtime sizes and the four per-LOD arrays of the file header.  Two in-memory models with the same
stripped headers differ only in their layout.
-/
namespace Physis.Mdl
open Physis

/-- the offsets of the first `n` streams erased -/
def zeroBelow (n : Nat) (a : Arr3 UInt32) : Arr3 UInt32 :=
  ⟨if 0 < n then 0 else a.a, if 1 < n then 0 else a.b, if 2 < n then 0 else a.c⟩

def stripMesh (r : Mesh) : Mesh :=
  { r with startIndex := 0
           vertexBufferOffsets := zeroBelow r.vertexStreamCount.toNat r.vertexBufferOffsets }

def stripLod (l : MeshLod) : MeshLod :=
  { l with edgeGeometryDataOffset := 0, vertexBufferSize := 0, indexBufferSize := 0,
           vertexDataOffset := 0, indexDataOffset := 0 }

def stripHeader (h : ModelHeader) : ModelHeader :=
  { h with shapeCount := 0, shapeMeshCount := 0, shapeValueCount := 0 }

def stripMD (d : ModelData) : ModelData :=
  { d with header := stripHeader d.header, lods := d.lods.map stripLod,
           meshes := d.meshes.map stripMesh }

def stripFH (h : FileHeader) : FileHeader :=
  { h with stackSize := 0, runtimeSize := 0, vertexOffsets := Arr3.rep 0, indexOffsets := Arr3.rep 0,
           vertexBufferSize := Arr3.rep 0, indexBufferSize := Arr3.rep 0, lodCount := 0 }

/-- the sub-mesh record a mesh row points at (`default` outside the table) -/
def firstSub (subs : List Submesh) (x : Mesh) : Submesh := subs[x.submeshIndex.toNat]?.getD default

/-- every mesh of a used LOD starts at its first sub-mesh's index offset (what the first loop of
`update_headers` assigns) -/
def StartsFromSubmesh (m : MDL) : Prop :=
  ∀ i, i < m.lods.length → ∀ d, d < (lodAt m.modelData.lods i).meshCount.toNat →
    (meshAt m.modelData.meshes ((lodAt m.modelData.lods i).meshIndex.toNat + d)).startIndex =
      (firstSub m.modelData.submeshes
        (meshAt m.modelData.meshes ((lodAt m.modelData.lods i).meshIndex.toNat + d))).indexOffset

end Physis.Mdl
