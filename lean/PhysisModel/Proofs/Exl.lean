import PhysisModel.Model.Exl
import PhysisModel.Spec.ExlText
import PhysisModel.Proofs.StrLines
/-! Helper lemmas for C08 (Excel lists): decimal round trip, the model of `src/exl.rs` against `Spec/ExlText`. -/
namespace Physis.Exl
open Physis.StrLines Physis.Decimal
open Physis.Spec.Exl (Row ListFile rowLine headerLine encode entriesOf stripComments I32 NameOK CommentOK RowOK WF)

/-! ### decimal notation -/

theorem digit_toNat (n : Nat) (h : n < 10) : (digit n).toNat = 48 + n := by
  unfold digit; simp [UInt8.toNat_ofNat']; omega

theorem digit_isDigit (n : Nat) (h : n < 10) : isDigit (digit n) = true := by
  have := digit_toNat n h
  simp only [isDigit, Bool.and_eq_true, decide_eq_true_eq, UInt8.le_iff_toNat_le, this]
  constructor <;> simp <;> omega

/-- the accumulator loop of `parseDigits` -/
def digitsLoop (acc : Option Nat) (s : Bytes) : Option Nat :=
  s.foldl (fun acc b => match acc with
      | some n => if isDigit b then some (n * 10 + (b.toNat - 48)) else none
      | none => none) acc

theorem digitsLoop_natDigits (n : Nat) : digitsLoop (some 0) (natDigits n) = some n := by
  induction n using natDigits.induct with
  | case1 n h =>
    rw [natDigits, if_pos h]
    simp only [digitsLoop, List.foldl_cons, List.foldl_nil, digit_isDigit n h, if_true, digit_toNat n h]
    congr 1; omega
  | case2 n h ih =>
    rw [natDigits, if_neg h]
    have hd : n % 10 < 10 := Nat.mod_lt _ (by decide : 0 < 10)
    unfold digitsLoop at ih ⊢
    rw [List.foldl_append, ih]
    simp only [List.foldl_cons, List.foldl_nil, digit_isDigit _ hd, if_true, digit_toNat _ hd]
    congr 1; omega

theorem natDigits_ne_nil (n : Nat) : natDigits n ≠ [] := by
  rw [natDigits]; split <;> simp

theorem parseDigits_natDigits (n : Nat) : parseDigits (natDigits n) = some n := by
  unfold parseDigits
  rw [if_neg (natDigits_ne_nil n)]
  exact digitsLoop_natDigits n

theorem natDigits_all (n : Nat) : ∀ b ∈ natDigits n, isDigit b = true := by
  induction n using natDigits.induct with
  | case1 n h =>
    rw [natDigits, if_pos h]; intro b hb; simp at hb; rw [hb]; exact digit_isDigit n h
  | case2 n h ih =>
    rw [natDigits, if_neg h]; intro b hb
    rcases List.mem_append.mp hb with hb | hb
    · exact ih b hb
    · simp at hb; rw [hb]; exact digit_isDigit _ (Nat.mod_lt _ (by decide : 0 < 10))

theorem isDigit_ne {b : UInt8} (h : isDigit b = true) : b ≠ 10 ∧ b ≠ 13 ∧ b ≠ 44 ∧ b ≠ 45 ∧ b ≠ 43 := by
  simp only [isDigit, Bool.and_eq_true, decide_eq_true_eq, UInt8.le_iff_toNat_le] at h
  refine ⟨?_, ?_, ?_, ?_, ?_⟩ <;> intro e <;> rw [e] at h <;> simp at h

theorem natDigits_head (n : Nat) : ∃ d rest, natDigits n = d :: rest ∧ isDigit d = true := by
  cases h : natDigits n with
  | nil => exact absurd h (natDigits_ne_nil n)
  | cons d rest => exact ⟨d, rest, rfl, natDigits_all n d (by rw [h]; simp)⟩

theorem natDigits_last (n : Nat) : ∃ d, (natDigits n).getLast? = some d ∧ isDigit d = true := by
  rw [natDigits]; split
  · exact ⟨_, by simp, digit_isDigit n ‹_›⟩
  · exact ⟨digit (n % 10), by simp, digit_isDigit _ (Nat.mod_lt _ (by decide : 0 < 10))⟩

theorem showInt_mem (v : Int) : ∀ b ∈ showInt v, b = 45 ∨ isDigit b = true := by
  intro b hb; unfold showInt at hb; split at hb
  · rcases List.mem_cons.mp hb with rfl | hb
    · exact Or.inl rfl
    · exact Or.inr (natDigits_all _ b hb)
  · exact Or.inr (natDigits_all _ b hb)

theorem showInt_not_mem (v : Int) : 10 ∉ showInt v ∧ 44 ∉ showInt v := by
  constructor <;> intro h <;> rcases showInt_mem v _ h with e | e
  · exact absurd e (by decide)
  · exact (isDigit_ne e).1 rfl
  · exact absurd e (by decide)
  · exact (isDigit_ne e).2.2.1 rfl

theorem showInt_last (v : Int) : ∃ d, (showInt v).getLast? = some d ∧ isDigit d = true := by
  unfold showInt; split
  · obtain ⟨d, hd, hdig⟩ := natDigits_last v.natAbs
    obtain ⟨c, rest, hc, _⟩ := natDigits_head v.natAbs
    refine ⟨d, ?_, hdig⟩
    rw [hc] at hd ⊢
    simpa [List.getLast?_cons_cons] using hd
  · exact natDigits_last _

theorem parseI32_showInt (v : Int) (h : I32 v) : parseI32 (showInt v) = some v := by
  obtain ⟨hlo, hhi⟩ := h
  unfold showInt
  split
  · rename_i hneg
    simp only [parseI32, if_true, parseDigits_natDigits]
    have : v.natAbs ≤ 2147483648 := by omega
    simp only [this, if_true]
    congr 1; omega
  · rename_i hpos
    obtain ⟨d, rest, hd, hdig⟩ := natDigits_head v.toNat
    have hne := isDigit_ne hdig
    have hp := parseDigits_natDigits v.toNat
    rw [hd] at hp ⊢
    simp only [parseI32, hne.2.2.2.1, hne.2.2.2.2, if_false, hp]
    have : v.toNat ≤ 2147483647 := by omega
    simp only [this, if_true]
    congr 1; omega

/-! ### lines of an LF-separated file -/

theorem lines_sep (l0 : Bytes) (rest : List Bytes)
    (h0 : 10 ∉ l0 ∧ l0 ≠ [] ∧ l0.getLast? ≠ some 13)
    (hr : ∀ l ∈ rest, 10 ∉ l ∧ l ≠ [] ∧ l.getLast? ≠ some 13) :
    lines (l0 ++ rest.flatMap fun l => 10 :: l) = l0 :: rest := by
  induction rest generalizing l0 with
  | nil => simpa using lines_last l0 h0.1 h0.2.1
  | cons r t ih =>
    rw [List.flatMap_cons, List.cons_append, lines_lf _ _ h0.1 h0.2.2,
      ih r (hr r (by simp)) (fun l hl => hr l (by simp [hl]))]

theorem lineOK_of_tail (p : Bytes) (v : Int) (hp : 10 ∉ p) :
    10 ∉ p ++ showInt v ∧ p ++ showInt v ≠ [] ∧ (p ++ showInt v).getLast? ≠ some 13 := by
  obtain ⟨d, hd, hdig⟩ := showInt_last v
  have hne : showInt v ≠ [] := by intro e; rw [e] at hd; simp at hd
  refine ⟨by simp [hp, (showInt_not_mem v).1], by simp [hne], ?_⟩
  rw [List.getLast?_append, hd]
  intro e; simp only [Option.some_or] at e; injection e with e; exact (isDigit_ne hdig).2.1 e

theorem rowLine_ok (r : Row) (h : RowOK r) :
    10 ∉ rowLine r ∧ rowLine r ≠ [] ∧ (rowLine r).getLast? ≠ some 13 := by
  cases r with
  | entry n i =>
    have := lineOK_of_tail (n ++ [44]) i (by simp [h.1.2.1])
    simpa [rowLine] using this
  | comment t =>
    obtain ⟨hh, h10, hcr⟩ := h
    refine ⟨h10, ?_, hcr⟩
    intro e; simp only [rowLine] at e; rw [e] at hh; simp at hh

theorem lines_encode (f : ListFile) (h : WF f) :
    lines (encode f) = headerLine f.version :: f.rows.map rowLine := by
  unfold encode
  have h0 := lineOK_of_tail [69, 88, 76, 84, 44] f.version (by decide)
  have := lines_sep (headerLine f.version) (f.rows.map rowLine) h0 (by
    intro l hl
    obtain ⟨r, hr, rfl⟩ := List.mem_map.mp hl
    exact rowLine_ok r (h.2 r hr))
  rw [List.flatMap_map] at this
  exact this

/-! ### parser -/

theorem step_header (exl : EXL) (v : Int) (h : I32 v) :
    step exl (headerLine v) = { exl with version := v } := by
  have hs : splitOnce 44 (headerLine v) = some ([69, 88, 76, 84], showInt v) :=
    splitOnce_append 44 [69, 88, 76, 84] (showInt v) (by decide)
  simp only [step, hs, parseI32_showInt v h, if_true]

theorem step_entry (exl : EXL) (n : Bytes) (i : Int) (hn : NameOK n) (hi : I32 i) :
    step exl (rowLine (.entry n i)) = { exl with entries := exl.entries ++ [(n, i)] } := by
  have hs : splitOnce 44 (n ++ 44 :: showInt i) = some (n, showInt i) := splitOnce_append 44 n _ hn.1
  have h35 : startsWith 35 n = false := by
    simp only [startsWith, beq_eq_false_iff_ne]; exact hn.2.2.1
  simp only [step, rowLine, hs, parseI32_showInt i hi, hn.2.2.2, if_false, h35, Bool.not_false, if_true]

theorem splitOnce_some (d : UInt8) (l k v : Bytes) (h : splitOnce d l = some (k, v)) : l = k ++ d :: v := by
  induction l generalizing k with
  | nil => simp [splitOnce] at h
  | cons b t ih =>
    rw [splitOnce] at h
    split at h
    · rename_i hb; injection h with h; injection h with h1 h2; subst h1 h2 hb; rfl
    · split at h
      · rename_i k' v' hs; injection h with h; injection h with h1 h2; subst h1 h2
        rw [ih k' hs]; rfl
      · cases h

theorem step_comment (exl : EXL) (t : Bytes) (h : t.head? = some 35) : step exl t = exl := by
  unfold step
  split
  · rename_i name value hs
    have := splitOnce_some 44 t name value hs
    have hname : name.head? = some 35 := by
      cases name with
      | nil => rw [this] at h; simp at h
      | cons c u => rw [this] at h; simpa using h
    split
    · have h1 : name ≠ [69, 88, 76, 84] := by intro e; rw [e] at hname; simp at hname
      have h2 : startsWith 35 name = true := by simp [startsWith, hname]
      simp [h1, h2]
    · rfl
  · rfl

theorem fold_rows (v : Int) (es : List (Bytes × Int)) (rows : List Row) (h : ∀ r ∈ rows, RowOK r) :
    (rows.map rowLine).foldl step ⟨v, es⟩ = ⟨v, es ++ entriesOf ⟨v, rows⟩⟩ := by
  induction rows generalizing es with
  | nil => simp [entriesOf]
  | cons r t ih =>
    have hr := h r (by simp)
    have ht : ∀ x ∈ t, RowOK x := fun x hx => h x (by simp [hx])
    rw [List.map_cons, List.foldl_cons]
    cases r with
    | entry n i =>
      rw [step_entry _ n i hr.1 hr.2, ih _ ht]
      simp [entriesOf]
    | comment c =>
      rw [show rowLine (.comment c) = c from rfl, step_comment _ c hr.1, ih _ ht]
      simp [entriesOf]

theorem parseExl_encode (f : ListFile) (h : WF f) : parseExl (encode f) = ⟨f.version, entriesOf f⟩ := by
  unfold parseExl
  rw [lines_encode f h, List.foldl_cons, step_header _ _ h.1]
  have := fold_rows f.version [] f.rows h.2
  simpa using this

/-! ### writer -/

/-- the list file an `EXL` value stands for (no comment rows) -/
def toFile (e : EXL) : ListFile := ⟨e.version, e.entries.map fun p => .entry p.1 p.2⟩

theorem writeExl_eq_encode (e : EXL) : writeExl e = encode (toFile e) := by
  simp [writeExl, encode, toFile, headerLine, List.flatMap_map, rowLine]

theorem entriesOf_toFile (e : EXL) : entriesOf (toFile e) = e.entries := by
  simp only [entriesOf, toFile, List.filterMap_map]
  induction e.entries with
  | nil => rfl
  | cons a t ih => simp [List.filterMap_cons, ih]

theorem toFile_entriesOf (f : ListFile) (h : stripComments f = f) : toFile ⟨f.version, entriesOf f⟩ = f := by
  obtain ⟨v, rows⟩ := f
  simp only [stripComments, ListFile.mk.injEq, true_and] at h
  simp only [toFile, entriesOf, ListFile.mk.injEq, true_and]
  induction rows with
  | nil => rfl
  | cons r t ih =>
    cases r with
    | entry n i =>
      simp only [List.filter_cons, if_true, List.cons.injEq, true_and] at h
      simp [List.filterMap_cons, ih h]
    | comment c =>
      exfalso
      have hm : Row.comment c ∈ (Row.comment c :: t) := by simp
      rw [← h] at hm
      simp [List.mem_filter] at hm

theorem contains_iff (e : EXL) (k : Bytes) : contains e k = true ↔ k ∈ e.entries.map (·.1) := by
  unfold contains
  simp only [List.any_eq_true, beq_iff_eq, List.mem_map]

end Physis.Exl
