import PhysisModel.Base.ParserALemmas
import PhysisModel.Base.ParserAPbcLemmas
import PhysisModel.Model.C18Havok
/-!
`Skeleton::from_existing` (model `Model/C18Havok.lean`) never faults and keeps every request within
the budget, for every byte string.

`PG p` = `PGood p` (no fault, requests within the budget, cursor invariant) **and** `NonInc p` (the
cursor never moves backwards).  Every function of the tag-file reader is `PG` by construction
(`pg`); the second half gives `Consumes (tagStep hs)` - every iteration of the tag loop starts with
a packed integer, i.e. consumes at least one byte - from which the fuel `remaining + 1` of the loop is
never used up (`loopGo_good`).
-/
namespace Physis.A

def PG {α} (p : P α) : Prop := PGood p ∧ NonInc p

theorem NonInc.remaining : NonInc P.remaining := by
  intro w s a s' h; cases h; exact Nat.le_refl _

theorem PG.pure {α} (a : α) : PG (Pure.pure a : P α) := ⟨PGood.pure a, NonInc.pure a⟩
theorem PG.bind {α β} {p : P α} {f : α → P β} (hp : PG p) (hf : ∀ a, PG (f a)) : PG (p >>= f) :=
  ⟨PGood.bind hp.1 (fun a => (hf a).1), NonInc.bind hp.2 (fun a => (hf a).2)⟩
theorem PG.ite {α} {c : Prop} [Decidable c] {p q : P α} (hp : PG p) (hq : PG q) :
    PG (if c then p else q) := by
  split <;> assumption
theorem PG.u8 : PG P.u8 := ⟨PGood.u8, NonInc.u8⟩
theorem PG.u32le : PG P.u32le := ⟨PGood.u32le, NonInc.u32le⟩
theorem PG.bytes (n : Nat) : PG (P.bytes n) := ⟨PGood.bytes n, NonInc.bytes n⟩
theorem PG.countBytesChecked (n : Nat) : PG (P.countBytesChecked n) :=
  ⟨PGood.countBytesChecked n, NonInc.countBytesChecked n⟩
theorem PG.failP {α} : PG (P.failP : P α) := ⟨PGood.failP, NonInc.failP⟩
theorem PG.remaining : PG P.remaining := ⟨PGood.remaining, NonInc.remaining⟩

/-- assembles `PG` for a reader written with `do` from the primitives -/
syntax "pg_step" : tactic
macro_rules
  | `(tactic| pg_step) => `(tactic| first
    | exact PG.pure _
    | exact PG.u8 | exact PG.u32le | exact PG.bytes _ | exact PG.countBytesChecked _
    | exact PG.failP | exact PG.remaining
    | assumption
    | apply PG.bind
    | apply PG.ite
    | intro _
    | split)

macro "pg" : tactic => `(tactic| repeat pg_step)

end Physis.A

namespace Physis.C18Havok
open Physis Physis.A

/-! ### the loops -/

theorem iterGo_good {α σ} {f : σ → P (α × σ)} (hf : ∀ a, PGood (f a)) (w : Bytes) :
    ∀ (n : Nat) (a : σ) (s : St) (pk : Nat) (acc : List α), Inv w s → pk ≤ budget w.length →
      Good (budget w.length) (iterGo f w n a s pk acc) ∧
      ∀ r s', (iterGo f w n a s pk acc).out = .ok (r, s') → Inv w s' := by
  intro n
  induction n with
  | zero =>
    intro a s pk acc hs hpk
    unfold iterGo
    exact ⟨⟨not_faults_ok _ _, hpk⟩, by intro r s' he; cases he; exact hs⟩
  | succ n ih =>
    intro a s pk acc hs hpk
    obtain ⟨⟨g1, g2⟩, hi⟩ := hf a w s hs
    unfold iterGo
    split
    · next x a' s' k heq =>
      rw [heq] at g2 hi
      exact ih a' s' (max pk k) (x :: acc) (hi (x, a') s' rfl) (Nat.max_le.mpr ⟨hpk, g2⟩)
    · next e k heq =>
      rw [heq] at g2
      exact ⟨⟨not_faults_fail _ _, Nat.max_le.mpr ⟨hpk, g2⟩⟩, by intro r s' he; cases he⟩
    · next x k heq =>
      rw [heq] at g1; exact absurd ⟨x, rfl⟩ g1

theorem iterGo_nonInc {α σ} {f : σ → P (α × σ)} (hf : ∀ a, NonInc (f a)) (w : Bytes) :
    ∀ (n : Nat) (a : σ) (s : St) (pk : Nat) (acc : List α) r s',
      (iterGo f w n a s pk acc).out = .ok (r, s') → s'.rest.length ≤ s.rest.length := by
  intro n
  induction n with
  | zero =>
    intro a s pk acc r s' h
    unfold iterGo at h; cases h; exact Nat.le_refl _
  | succ n ih =>
    intro a s pk acc r s' h
    unfold iterGo at h
    split at h
    · next x a' s1 k heq =>
      have h1 := hf a w s (x, a') s1 (by rw [heq])
      have h2 := ih a' s1 (max pk k) (x :: acc) r s' h
      omega
    · cases h
    · cases h

theorem PG.iterN {α σ} {f : σ → P (α × σ)} (n : Nat) (a : σ) (hf : ∀ a, PG (f a)) : PG (iterN n f a) :=
  ⟨fun w s hs => iterGo_good (fun a => (hf a).1) w n a s 0 [] hs (Nat.zero_le _),
   fun w s r s' h => iterGo_nonInc (fun a => (hf a).2) w n a s 0 [] r s' h⟩

/-- the fuel of the loop suffices when every step that goes on has consumed input -/
theorem loopGo_good {σ β} {step : σ → P (Sum σ β)} (hp : ∀ a, PGood (step a))
    (hc : ∀ a, Consumes (step a)) (w : Bytes) :
    ∀ (fuel : Nat) (a : σ) (s : St) (pk : Nat), Inv w s → pk ≤ budget w.length →
      s.rest.length < fuel →
      Good (budget w.length) (loopGo step w fuel a s pk) ∧
      ∀ b s', (loopGo step w fuel a s pk).out = .ok (b, s') → Inv w s' := by
  intro fuel
  induction fuel with
  | zero => intro a s pk _ _ h; omega
  | succ f ih =>
    intro a s pk hs hpk hf
    obtain ⟨⟨g1, g2⟩, hi⟩ := hp a w s hs
    unfold loopGo
    split
    · next a' s' k heq =>
      rw [heq] at g2 hi
      have hlt := hc a w s (.inl a') s' (by rw [heq])
      exact ih a' s' (max pk k) (hi (.inl a') s' rfl) (Nat.max_le.mpr ⟨hpk, g2⟩) (by omega)
    · next b s' k heq =>
      rw [heq] at g2 hi
      exact ⟨⟨not_faults_ok _ _, Nat.max_le.mpr ⟨hpk, g2⟩⟩,
        by intro b' s'' he; cases he; exact hi (.inr b) s' rfl⟩
    · next e k heq =>
      rw [heq] at g2
      exact ⟨⟨not_faults_fail _ _, Nat.max_le.mpr ⟨hpk, g2⟩⟩, by intro b s' he; cases he⟩
    · next x k heq =>
      rw [heq] at g1; exact absurd ⟨x, rfl⟩ g1

theorem PGood.loopSt {σ β} {step : σ → P (Sum σ β)} (a : σ) (hp : ∀ a, PGood (step a))
    (hc : ∀ a, Consumes (step a)) : PGood (loopSt step a) := by
  intro w s hs
  exact loopGo_good hp hc w (s.rest.length + 1) a s 0 hs (Nat.zero_le _) (Nat.lt_succ_self _)

/-! ### the reader, function by function -/

theorem atLeast_pg (n : Nat) : PG (atLeast n) :=
  ⟨by apply PGood.of_simple; intro w s hs
      exact ⟨rfl, (by intro f hf; cases hf), by intro a s' he; cases he; exact hs⟩,
   by intro w s a s' h; cases h; exact Nat.le_refl _⟩

theorem lengthGe_iff {α : Type} : ∀ (l : List α) (n : Nat), lengthGe l n = true ↔ n ≤ l.length := by
  intro l
  induction l with
  | nil => intro n; cases n <;> simp [lengthGe]
  | cons a r ih => intro n; cases n <;> simp [lengthGe, ih]

theorem packedTail_pg : ∀ (l : List Nat) (r : UInt32), PG (packedTail l r) := by
  intro l
  induction l with
  | nil => intro r; unfold packedTail; pg
  | cons sh rest ih =>
    intro r; unfold packedTail
    apply PG.bind PG.u8; intro b
    exact PG.ite (ih _) (PG.pure _)

theorem packedInt_pg : PG packedInt := by
  unfold packedInt
  apply PG.bind PG.u8; intro b
  apply PG.bind
  · split
    · exact packedTail_pg _ _
    · exact PG.pure _
  · intro r; pg

theorem packedInt_consumes : Consumes packedInt := by
  unfold packedInt
  apply Consumes.bind_left Consumes.u8
  intro b
  apply NonInc.bind
  · split
    · exact (packedTail_pg _ _).2
    · exact NonInc.pure _
  · intro r
    split
    · split
      · exact NonInc.failP
      · exact NonInc.pure _
    · exact NonInc.pure _

theorem readBitField_pg (c : Nat) : PG (readBitField c) := by unfold readBitField; pg

theorem readString_pg (hs : HSt) : PG (readString hs) := by
  unfold readString
  apply PG.bind packedInt_pg; intro len
  pg

theorem readStringV_pg (hs : HSt) : PG (readStringV hs) := by
  unfold readStringV; apply PG.bind (readString_pg hs); intro r; pg
theorem readIntV_pg (hs : HSt) : PG (readIntV hs) := by
  unfold readIntV; apply PG.bind packedInt_pg; intro r; pg
theorem readByteV_pg (hs : HSt) : PG (readByteV hs) := by unfold readByteV; pg
theorem readRealV_pg (hs : HSt) : PG (readRealV hs) := by unfold readRealV; pg
theorem readRefV_pg (hs : HSt) : PG (readRefV hs) := by
  unfold readRefV; apply PG.bind packedInt_pg; intro r; pg

theorem readVecV_pg (n : Nat) (hs : HSt) : PG (readVecV n hs) := by
  unfold readVecV
  apply PG.bind
  · exact PG.iterN _ _ (fun _ => by pg)
  · intro r; pg

theorem readMember_pg (hs : HSt) : PG (readMember hs) := by
  unfold readMember
  apply PG.bind (readString_pg hs); intro r
  apply PG.bind packedInt_pg; intro tyv
  split
  · exact PG.failP
  · apply PG.bind
    · split
      · exact packedInt_pg
      · exact PG.pure _
    · intro _
      split
      · apply PG.bind (readString_pg _); intro c; pg
      · exact PG.pure _

theorem readType_pg (hs : HSt) : PG (readType hs) := by
  unfold readType
  apply PG.bind (readString_pg hs); intro r
  apply PG.bind packedInt_pg; intro _
  apply PG.bind packedInt_pg; intro parent
  apply PG.bind packedInt_pg; intro mc
  apply PG.bind (atLeast_pg _); intro enough
  split
  · exact PG.failP
  · split
    · exact PG.failP
    · apply PG.bind (PG.iterN _ _ readMember_pg); intro ms; pg

theorem readColumns_pg {ra : HSt → Member → Nat → P (List Value × HSt)}
    (hra : ∀ hs m len, PG (ra hs m len)) :
    ∀ (ms : List Member) (ex : List Bool) (idx len : Nat) (hs : HSt), PG (readColumns ra ms ex idx len hs) := by
  intro ms
  induction ms with
  | nil => intro ex idx len hs; unfold readColumns; exact PG.pure _
  | cons m rest ih =>
    intro ex idx len hs
    cases ex with
    | nil => unfold readColumns; exact PG.failP
    | cons e es =>
      unfold readColumns
      split
      · split
        · exact PG.failP
        · apply PG.bind (hra _ _ _); intro col
          apply PG.bind (ih _ _ _ _); intro r
          exact PG.pure _
      · exact ih _ _ _ _

theorem readArray_pg : ∀ (fuel : Nat) (hs : HSt) (m : Member) (len : Nat), PG (readArray fuel hs m len) := by
  intro fuel
  induction fuel with
  | zero => intro hs m len; unfold readArray; exact PG.failP
  | succ fuel ih =>
    intro hs m len
    unfold readArray
    simp only
    split
    · exact PG.iterN _ _ readStringV_pg
    · split
      · split
        · exact PG.failP
        · apply PG.bind (readBitField_pg _); intro ex
          split
          · exact PG.failP
          · apply PG.bind (readColumns_pg ih _ _ _ _ _); intro cols
            exact PG.pure _
      · split
        · exact PG.iterN _ _ readRefV_pg
        · split
          · exact PG.iterN _ _ readByteV_pg
          · split
            · apply PG.bind
              · split
                · exact packedInt_pg
                · exact PG.pure _
              · intro _; exact PG.iterN _ _ readIntV_pg
            · split
              · exact PG.iterN _ _ readRealV_pg
              · split
                · exact PG.iterN _ _ (readVecV_pg _)
                · exact PG.failP

theorem readMemberValue_pg (hs : HSt) (m : Member) : PG (readMemberValue hs m) := by
  unfold readMemberValue
  split
  · apply PG.bind packedInt_pg; intro len
    apply PG.bind (atLeast_pg _); intro enough
    split
    · exact PG.failP
    · split
      · exact PG.failP
      · apply PG.bind (readArray_pg _ _ _ _); intro l
        exact PG.pure _
  · split
    · exact readByteV_pg _
    · split
      · exact readIntV_pg _
      · split
        · exact readRealV_pg _
        · split
          · exact readStringV_pg _
          · split
            · exact readRefV_pg _
            · exact PG.failP

theorem readMembers_pg : ∀ (ms : List Member) (ex : List Bool) (idx : Nat) (hs : HSt),
    PG (readMembers ms ex idx hs) := by
  intro ms
  induction ms with
  | nil => intro ex idx hs; unfold readMembers; exact PG.pure _
  | cons m rest ih =>
    intro ex idx hs
    cases ex with
    | nil => unfold readMembers; exact PG.failP
    | cons e es =>
      unfold readMembers
      apply PG.bind
      · split
        · exact readMemberValue_pg _ _
        · split
          · exact PG.pure _
          · exact PG.failP
      · intro v
        apply PG.bind (ih _ _ _); intro r
        exact PG.pure _

theorem readObject_pg (hs : HSt) : PG (readObject hs) := by
  unfold readObject
  apply PG.bind packedInt_pg; intro ti
  split
  · exact PG.failP
  · simp only
    apply PG.bind (readBitField_pg _); intro ex
    apply PG.bind (readMembers_pg _ _ _ _); intro d
    exact PG.pure _

/-- what follows the tag of one iteration of the tag loop -/
theorem tagStep_rest_pg (hs : HSt) (tag : Int) :
    PG (do
      let t := (tag % 256).toNat
      if t == 1 then do
        let v ← packedInt
        let ver := (v % 256).toNat
        if ver != 3 then P.failP
        else
          match hs.types[0]? with
          | none => P.failP
          | some t0 => pure (.inl { hs with ver := ver, objs := hs.objs.push ⟨t0, []⟩ })
      else if t == 2 then do
        let r ← readType hs
        pure (.inl { r.2 with types := r.2.types.push r.1 })
      else if t == 4 then do
        let r ← readObject hs
        pure (.inl { r.2 with objs := r.2.objs.push r.1 })
      else if t == 7 then pure (.inr hs)
      else P.failP : P (Sum HSt HSt)) := by
  simp only
  split
  · apply PG.bind packedInt_pg; intro v; pg
  · split
    · apply PG.bind (readType_pg _); intro r; exact PG.pure _
    · split
      · apply PG.bind (readObject_pg _); intro r; exact PG.pure _
      · split
        · exact PG.pure _
        · exact PG.failP

theorem tagStep_pg (hs : HSt) : PG (tagStep hs) := by
  unfold tagStep
  exact PG.bind packedInt_pg (tagStep_rest_pg hs)

/-- every iteration of the tag loop consumes input: it starts with a packed integer -/
theorem tagStep_consumes (hs : HSt) : Consumes (tagStep hs) := by
  unfold tagStep
  exact Consumes.bind_left packedInt_consumes (fun tag => (tagStep_rest_pg hs tag).2)

theorem havokRead_good : PGood havokRead := by
  unfold havokRead
  apply PGood.bind PGood.remaining; intro len
  apply PGood.bind PGood.u32le; intro s1
  apply PGood.bind PGood.u32le; intro s2
  split
  · exact PGood.failP
  · apply PGood.bind (PGood.loopSt _ (fun a => (tagStep_pg a).1) tagStep_consumes); intro hs
    split
    · exact PGood.pure _
    · exact PGood.failP

theorem header_good : PGood header := by unfold header; pgood

theorem reader_good : PGood reader := by
  unfold reader
  apply PGood.bind header_good; intro off
  apply PGood.bind (PGood.seekStart _); intro _
  exact havokRead_good

theorem fromExisting_good (b : Bytes) : Good (budget b.length) (fromExisting b) := by
  unfold fromExisting
  exact Good.bind' (PGood.run reader_good b) (fun r => good_ofOption _ _)

end Physis.C18Havok
