import PhysisModel.Base.WireText
/-! Lemmas about the Rust string operations of `Base/WireText.lean`: decimal rendering and
parsing invert each other; splitting undoes joining when the pieces are free of the separator. -/
namespace Physis.WireText

/-! ### decimal -/

abbrev isDigitB (c : UInt8) : Prop := 48 ≤ c ∧ c ≤ 57

theorem digit_toNat (d : Nat) (h : d < 10) : (digit d).toNat = 48 + d := by
  simp [digit]; omega

theorem digit_isDigit (d : Nat) (h : d < 10) : isDigitB (digit d) := by
  have := digit_toNat d h
  constructor <;> (apply UInt8.le_iff_toNat_le.mpr; simp only [this]; simp; try omega)

theorem showNat_digits (n : Nat) : ∀ c ∈ showNat n, isDigitB c := by
  induction n using Nat.strongRecOn with
  | _ n ih =>
    rw [showNat]
    split
    · intro c hc
      simp only [List.mem_singleton] at hc
      subst hc; exact digit_isDigit n (by assumption)
    · intro c hc
      simp only [List.mem_append, List.mem_singleton] at hc
      rcases hc with hc | hc
      · exact ih (n / 10) (by omega) c hc
      · subst hc; exact digit_isDigit _ (by omega)

theorem showNat_ne_nil (n : Nat) : showNat n ≠ [] := by
  rw [showNat]; split <;> simp

theorem parseDigits_append (max acc : Nat) (a b : Bytes) :
    parseDigits max acc (a ++ b) = (parseDigits max acc a).bind (fun v => parseDigits max v b) := by
  induction a generalizing acc with
  | nil => simp [parseDigits]
  | cons c a ih =>
    simp only [List.cons_append, parseDigits]
    split
    · split
      · exact ih _
      · rfl
    · rfl

theorem parseDigits_digit (max acc d : Nat) (hd : d < 10) (h : acc * 10 + d ≤ max) :
    parseDigits max acc [digit d] = some (acc * 10 + d) := by
  have hdig := digit_isDigit d hd
  have hn := digit_toNat d hd
  simp only [parseDigits, isDigitB] at hdig ⊢
  simp only [hdig, and_self, ↓reduceIte, hn]
  have : 48 + d - 48 = d := by omega
  simp [this, h]

theorem parseDigits_showNat (max n : Nat) (h : n ≤ max) : parseDigits max 0 (showNat n) = some n := by
  induction n using Nat.strongRecOn with
  | _ n ih =>
    rw [showNat]
    split
    · have := parseDigits_digit max 0 n (by assumption) (by omega)
      simpa using this
    · rw [parseDigits_append, ih (n / 10) (by omega) (by omega)]
      simp only [Option.bind_some]
      rw [parseDigits_digit max (n / 10) (n % 10) (by omega) (by omega)]
      congr 1; omega

/-- bytes of a rendered integer: digits or `-` -/
theorem showInt_chars (i : Int) : ∀ c ∈ showInt i, c = 0x2d ∨ isDigitB c := by
  intro c hc
  unfold showInt at hc
  split at hc
  · simp only [List.mem_cons] at hc
    rcases hc with hc | hc
    · exact Or.inl hc
    · exact Or.inr (showNat_digits _ c hc)
  · exact Or.inr (showNat_digits _ c hc)

theorem head_showNat_digit (n : Nat) : ∃ c rest, showNat n = c :: rest ∧ isDigitB c := by
  obtain ⟨c, rest, h⟩ := List.exists_cons_of_ne_nil (showNat_ne_nil n)
  exact ⟨c, rest, h, showNat_digits n c (by rw [h]; simp)⟩

theorem parseI64_cons (c : UInt8) (rest : Bytes) (h : rest ≠ [] ∨ (c ≠ 0x2b ∧ c ≠ 0x2d)) :
    parseI64 (c :: rest) =
      if c = 0x2b then (parseDigits (2 ^ 63 - 1) 0 rest).map Int.ofNat
      else if c = 0x2d then (parseDigits (2 ^ 63) 0 rest).map (fun n => - Int.ofNat n)
      else (parseDigits (2 ^ 63 - 1) 0 (c :: rest)).map Int.ofNat := by
  unfold parseI64
  split
  · simp_all
  · rename_i heq; simp only [List.cons.injEq] at heq; obtain ⟨rfl, rfl⟩ := heq; simp at h
  · rename_i heq; simp only [List.cons.injEq] at heq; obtain ⟨rfl, rfl⟩ := heq; simp at h
  · rename_i c' r' _ _ heq
    simp only [List.cons.injEq] at heq
    obtain ⟨rfl, rfl⟩ := heq
    rfl

theorem parseU64_cons (c : UInt8) (rest : Bytes) (h : rest ≠ [] ∨ (c ≠ 0x2b ∧ c ≠ 0x2d)) :
    parseU64 (c :: rest) =
      if c = 0x2b then parseDigits (2 ^ 64 - 1) 0 rest else parseDigits (2 ^ 64 - 1) 0 (c :: rest) := by
  unfold parseU64
  split
  · simp_all
  · rename_i heq; simp only [List.cons.injEq] at heq; obtain ⟨rfl, rfl⟩ := heq; simp at h
  · rename_i heq; simp only [List.cons.injEq] at heq; obtain ⟨rfl, rfl⟩ := heq; simp at h
  · rename_i c' r' _ _ heq
    simp only [List.cons.injEq] at heq
    obtain ⟨rfl, rfl⟩ := heq
    rfl

theorem parseI64_showInt (i : Int) (h1 : -(2 ^ 63 : Int) ≤ i) (h2 : i < 2 ^ 63) :
    parseI64 (showInt i) = some i := by
  unfold showInt
  split
  · rename_i hneg
    have hp := parseDigits_showNat (2 ^ 63) i.natAbs (by omega)
    rw [parseI64_cons _ _ (Or.inl (showNat_ne_nil _))]
    have : ¬ ((0x2d : UInt8) = 0x2b) := by decide
    simp only [this, ↓reduceIte, hp, Option.map_some, Int.ofNat_eq_natCast]
    congr 1; omega
  · rename_i hpos
    obtain ⟨c, rest, hs, hc⟩ := head_showNat_digit i.natAbs
    have hp := parseDigits_showNat (2 ^ 63 - 1) i.natAbs (by omega)
    rw [hs] at hp ⊢
    have hc1 : c ≠ 0x2b := by
      intro h; subst h; exact absurd hc (by decide)
    have hc2 : c ≠ 0x2d := by
      intro h; subst h; exact absurd hc (by decide)
    rw [parseI64_cons _ _ (Or.inr ⟨hc1, hc2⟩)]
    simp only [hc1, hc2, ↓reduceIte, hp, Option.map_some, Int.ofNat_eq_natCast]
    congr 1; omega

theorem parseU64_showInt (i : Int) (h1 : 0 ≤ i) (h2 : i < 2 ^ 64) :
    parseU64 (showInt i) = some i.toNat := by
  unfold showInt
  have hneg : ¬ i < 0 := by omega
  simp only [hneg, ↓reduceIte]
  obtain ⟨c, rest, hs, hc⟩ := head_showNat_digit i.natAbs
  have hp := parseDigits_showNat (2 ^ 64 - 1) i.natAbs (by omega)
  rw [hs] at hp ⊢
  have hc1 : c ≠ 0x2b := by
    intro h; subst h; exact absurd hc (by decide)
  have hc2 : c ≠ 0x2d := by
    intro h; subst h; exact absurd hc (by decide)
  have hn : i.natAbs = i.toNat := by omega
  rw [parseU64_cons _ _ (Or.inr ⟨hc1, hc2⟩)]
  simp only [hc1, ↓reduceIte, hp, hn]

/-! ### splitting -/

theorem splitByteAux_sep (sep : UInt8) (cur p R : Bytes) (h : sep ∉ p) :
    splitByteAux sep cur (p ++ sep :: R) = (cur.reverse ++ p) :: splitByteAux sep [] R := by
  induction p generalizing cur with
  | nil => simp [splitByteAux]
  | cons c p ih =>
    simp only [List.mem_cons, not_or] at h
    have hc : ¬ c = sep := fun e => h.1 e.symm
    simp only [List.cons_append, splitByteAux, hc, ↓reduceIte]
    rw [ih _ h.2]; simp

theorem splitByteAux_last (sep : UInt8) (cur p : Bytes) (h : sep ∉ p) :
    splitByteAux sep cur p = [cur.reverse ++ p] := by
  induction p generalizing cur with
  | nil => simp [splitByteAux]
  | cons c p ih =>
    simp only [List.mem_cons, not_or] at h
    have hc : ¬ c = sep := fun e => h.1 e.symm
    simp only [splitByteAux, hc, ↓reduceIte]
    rw [ih _ h.2]; simp

/-- a piece free of CR followed by CR LF is split off -/
theorem splitCRLFAux_line (cur p R : Bytes) (h : (13 : UInt8) ∉ p) :
    splitCRLFAux cur (p ++ 13 :: 10 :: R) = (cur.reverse ++ p) :: splitCRLFAux [] R := by
  induction p generalizing cur with
  | nil => simp [splitCRLFAux]
  | cons c p ih =>
    simp only [List.mem_cons, not_or] at h
    have hc : ¬ c = 13 := fun e => h.1 e.symm
    cases p with
    | nil =>
      simp only [List.cons_append, List.nil_append, splitCRLFAux, hc, false_and, ↓reduceIte,
        and_self]
      simp
    | cons d p =>
      have := ih (c :: cur) h.2
      simp only [List.cons_append] at this ⊢
      simp only [splitCRLFAux, hc, false_and, ↓reduceIte]
      rw [this]; simp

/-- `lines` joined with a CR LF after each -/
def joinCRLF : List Bytes → Bytes
  | [] => []
  | l :: ls => l ++ 13 :: 10 :: joinCRLF ls

theorem splitCRLF_join (lines : List Bytes) (h : ∀ l ∈ lines, (13 : UInt8) ∉ l) :
    splitCRLF (joinCRLF lines) = lines ++ [[]] := by
  unfold splitCRLF
  induction lines with
  | nil => simp [joinCRLF, splitCRLFAux]
  | cons l ls ih =>
    simp only [joinCRLF]
    rw [splitCRLFAux_line _ _ _ (h l (by simp)), ih (fun x hx => h x (by simp [hx]))]
    simp

/-! ### searching -/

theorem isPrefix_self_append (pat R : Bytes) : isPrefix pat (pat ++ R) = true := by
  induction pat with
  | nil => cases R <;> rfl
  | cons a p ih => simp [isPrefix, ih]

theorem isPrefix_append (pat X S : Bytes) (h : isPrefix pat (X ++ S) = true) :
    isPrefix pat X = true ∨ (∀ x ∈ X, x ∈ pat) := by
  induction pat generalizing X with
  | nil => left; cases X <;> rfl
  | cons a p ih =>
    cases X with
    | nil => right; simp
    | cons x X =>
      simp only [List.cons_append, isPrefix, Bool.and_eq_true, beq_iff_eq] at h
      obtain ⟨rfl, h2⟩ := h
      rcases ih X h2 with h3 | h3
      · left; simp [isPrefix, h3]
      · right
        intro y hy
        simp only [List.mem_cons] at hy ⊢
        rcases hy with hy | hy
        · exact Or.inl hy
        · exact Or.inr (h3 y hy)

/-- `occurs` as a plain recursive predicate (the Spec's definition, restated here) -/
def occursIn (pat : Bytes) : Bytes → Bool
  | [] => pat.isEmpty
  | c :: rest => isPrefix pat (c :: rest) || occursIn pat rest

/-- the first occurrence of `pat` in `H ++ S` is not inside `H` when `H` is a sequence of complete
lines (ends with LF), `pat` has no LF and does not occur in `H` -/
theorem findSub_skip (pat H S : Bytes) (hno : occursIn pat H = false)
    (hend : H = [] ∨ H.getLast? = some 10) (hpat : (10 : UInt8) ∉ pat) :
    findSub pat (H ++ S) = (findSub pat S).map (· + H.length) := by
  induction H with
  | nil => simp
  | cons c H ih =>
    simp only [occursIn, Bool.or_eq_false_iff] at hno
    have hend' : H = [] ∨ H.getLast? = some 10 := by
      cases H with
      | nil => exact Or.inl rfl
      | cons d H' =>
        right
        rcases hend with h | h
        · simp at h
        · rw [List.getLast?_cons_cons] at h; exact h
    have hnp : isPrefix pat (c :: H ++ S) = false := by
      cases hp : isPrefix pat (c :: H ++ S) with
      | false => rfl
      | true =>
        rcases isPrefix_append pat (c :: H) S hp with h | h
        · rw [h] at hno; simp at hno
        · exfalso
          rcases hend with h' | h'
          · simp at h'
          · exact hpat (h 10 (List.mem_of_getLast? h'))
    simp only [List.cons_append] at hnp ⊢
    simp only [findSub, hnp, Bool.false_eq_true, ↓reduceIte]
    rw [ih hno.2 hend']
    cases findSub pat S with
    | none => rfl
    | some k => simp; omega

theorem findSub_self (pat R : Bytes) (h : pat ≠ []) : findSub pat (pat ++ R) = some 0 := by
  obtain ⟨a, p, rfl⟩ := List.exists_cons_of_ne_nil h
  have := isPrefix_self_append (a :: p) R
  simp only [List.cons_append] at this ⊢
  simp [findSub, this]

theorem findSub_crlf (N R : Bytes) (h : (13 : UInt8) ∉ N) :
    findSub [13, 10] (N ++ 13 :: 10 :: R) = some N.length := by
  induction N with
  | nil => simp [findSub, isPrefix]
  | cons c N ih =>
    simp only [List.mem_cons, not_or] at h
    have hc : ((13 : UInt8) == c) = false := by simpa using h.1
    simp only [List.cons_append, findSub, isPrefix, hc, Bool.false_and, Bool.false_eq_true,
      ↓reduceIte, ih h.2]
    simp

end Physis.WireText
