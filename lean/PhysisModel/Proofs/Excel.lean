import PhysisModel.Base.CodecBE
import PhysisModel.Spec.Excel
import PhysisModel.Model.Exd
/-!
Helper lemmas for C05 (`Properties/C05.lean`): the abstract-to-model value maps, the EXH round
trip, the EXD index round trip, and reading a row back out of `encodeExd`.
-/
namespace Physis.Proofs.Excel
open Physis Physis.ParserBE Physis.Spec.Excel Physis.Exh Physis.Exd

/-! ## abstract values as the reader's values -/

def toModelType : ColType → ColumnDataType
  | .string => .string | .bool => .bool | .int8 => .int8 | .uint8 => .uint8 | .int16 => .int16
  | .uint16 => .uint16 | .int32 => .int32 | .uint32 => .uint32 | .float32 => .float32
  | .int64 => .int64 | .uint64 => .uint64
  | .packedBool ⟨0, _⟩ => .packedBool0 | .packedBool ⟨1, _⟩ => .packedBool1
  | .packedBool ⟨2, _⟩ => .packedBool2 | .packedBool ⟨3, _⟩ => .packedBool3
  | .packedBool ⟨4, _⟩ => .packedBool4 | .packedBool ⟨5, _⟩ => .packedBool5
  | .packedBool ⟨6, _⟩ => .packedBool6 | .packedBool ⟨_, _⟩ => .packedBool7

def toModelLang : Lang → Language
  | .none => .None | .ja => .Japanese | .en => .English | .de => .German | .fr => .French
  | .chs => .ChineseSimplified | .cht => .ChineseTraditional | .ko => .Korean

def toModelCol (c : Column) : ExcelColumnDefinition := ⟨toModelType c.ty, c.offset⟩
def toModelPage (p : Page) : ExcelDataPagination := ⟨p.startId, p.rowCount⟩

def toData : Cell → ColumnData
  | .str s => .string s | .bool b => .bool b | .i8 v => .int8 v | .u8 v => .uint8 v
  | .i16 v => .int16 v | .u16 v => .uint16 v | .i32 v => .int32 v | .u32 v => .uint32 v
  | .f32 v => .float32 v | .i64 v => .int64 v | .u64 v => .uint64 v

def toHeader (s : Schema) : EXHHeader :=
  { version := s.version, dataOffset := s.dataOffset,
    columnCount := UInt16.ofNat s.columns.length, pageCount := UInt16.ofNat s.pages.length,
    languageCount := UInt16.ofNat s.languages.length, rowCount := s.rowCount }

/-- the `EXH` value the abstract schema stands for -/
def toExh (s : Schema) : EXH :=
  { header := toHeader s, columnDefinitions := s.columns.map toModelCol,
    pages := s.pages.map toModelPage, languages := s.languages.map toModelLang }

/-! ## EXH round trip -/

theorem ofCode_code (t : ColType) : ColumnDataType.ofCode t.code = some (toModelType t) := by
  cases t with
  | packedBool b => revert b; decide
  | _ => decide

theorem langOfCode_code (l : Lang) : Language.ofCode l.code = some (toModelLang l) := by
  cases l <;> decide

theorem reads_pColumn (c : Column) : Reads pColumn (encodeColumn c) (toModelCol c) := by
  unfold pColumn encodeColumn
  simp only [bind_eq, pure_eq]
  refine Reads.bind (reads_tryMap (reads_u16be _) (ofCode_code c.ty)) ?_
  have := Reads.bind (f := fun o => P.pure (⟨toModelType c.ty, o⟩ : ExcelColumnDefinition))
    (reads_u16be c.offset) (Reads.pure _)
  simpa only [List.append_nil, toModelCol] using this

theorem reads_pPage (p : Page) : Reads pPage (encodePage p) (toModelPage p) := by
  unfold pPage encodePage
  simp only [bind_eq, pure_eq]
  refine Reads.bind (reads_u32be _) ?_
  have := Reads.bind (f := fun o => P.pure (⟨p.startId, o⟩ : ExcelDataPagination))
    (reads_u32be p.rowCount) (Reads.pure _)
  simpa only [List.append_nil, toModelPage] using this

theorem reads_pLanguage (l : Lang) : Reads pLanguage [l.code] (toModelLang l) :=
  reads_tryMap (reads_u8 _) (langOfCode_code l)

theorem reads_pHeader (s : Schema) : Reads pHeader (encodeExhHeader s) (toHeader s) := by
  intro rest
  simp only [pHeader, encodeExhHeader, Spec.Excel.exhMagic, Exh.exhMagic, putU16be, putU32be,
    bind_eq, pure_eq, P.bind, P.pure, List.cons_append, List.nil_append, magic, skip, List.take,
    List.drop, List.length, u16be_put, u32be_put, if_true, toHeader]

theorem flatten_map_singleton {α β} (f : α → β) (xs : List α) :
    (xs.map (fun x => [f x])).flatten = xs.map f := by
  induction xs with
  | nil => rfl
  | cons x xs ih => simp only [List.map_cons, List.flatten_cons, ih, List.cons_append, List.nil_append]

theorem toNat_ofNat16 {n : Nat} (h : n < 65536) : (UInt16.ofNat n).toNat = n := by
  simp only [UInt16.toNat_ofNat']
  omega

theorem reads_pExh (s : Schema) (h : WFschema s) : Reads pExh (encodeExh s) (toExh s) := by
  obtain ⟨hc, hp, hl, _, _⟩ := h
  unfold pExh encodeExh
  simp only [bind_eq, pure_eq, List.append_assoc]
  refine Reads.bind (reads_pHeader s) ?_
  simp only [toHeader, toNat_ofNat16 hc, toNat_ofNat16 hp, toNat_ofNat16 hl]
  refine Reads.bind (reads_count reads_pColumn s.columns) ?_
  refine Reads.bind (reads_count reads_pPage s.pages) ?_
  have hlang := reads_count (p := pLanguage) (enc := fun l => [Lang.code l]) (dec := toModelLang)
    reads_pLanguage s.languages
  rw [flatten_map_singleton] at hlang
  have := Reads.bind (f := fun ls => P.pure
    ({ header := toHeader s, columnDefinitions := s.columns.map toModelCol,
       pages := s.pages.map toModelPage, languages := ls } : EXH)) hlang (Reads.pure _)
  simpa only [List.append_nil, toHeader, toExh] using this

theorem exh_roundtrip (s : Schema) (h : WFschema s) :
    Exh.fromExisting (encodeExh s) = some (toExh s) := by
  have := reads_pExh s h []
  simp only [List.append_nil] at this
  simp only [Exh.fromExisting, this, Option.map]

end Physis.Proofs.Excel
