import Std.Tactic.BVDecide
import PhysisModel.Properties.C02
import PhysisModel.Model.GameDataExcel
import PhysisModel.Proofs.ExcelIndex
import PhysisModel.Proofs.ExcelRootList
/-!
Lemmas for the archive part of C05: the Excel entry points of `GameData` on a synthetic
installation.  Everything here is glue between C01 (`locate`, history independence), C02
(`packStandard` read back) and C05 (root list / EXH / EXD round trips).
-/
namespace Physis.GameData
open Physis Physis.Str Physis.Spec.Archive Physis.Spec.SqPackData

/-! ### the handle after a call is the handle after a history of plain queries -/

theorem run_append (disk : Disk) (g : GameData) (qs rs : List Query) :
    run disk g (qs ++ rs) = run disk (run disk g qs) rs := by
  induction qs generalizing g with
  | nil => rfl
  | cons q qs ih => exact ih _

/-- `extract` leaves the handle as the `extract` query of C01's model does (the dat file is opened
and dropped; only the index cache persists) -/
theorem extractFull_snd (inflate : Dat.Inflate) (disk : Disk) (g : GameData) (p : Bytes) :
    (extractFull inflate disk g p).2 = (step disk g (.extract p)).2 := by
  simp only [extractFull, step]
  generalize extractQ disk g p = r
  obtain ⟨ans, g'⟩ := r
  cases ans with
  | dat l =>
    cases l with
    | none => rfl
    | some kl =>
      obtain ⟨k, off⟩ := kl
      simp only []
      cases disk k.1 k.2 <;> rfl
  | _ => rfl

theorem extractFull_snd_run (inflate : Dat.Inflate) (disk : Disk) (g : GameData) (p : Bytes) :
    (extractFull inflate disk g p).2 = run disk g [.extract p] := extractFull_snd inflate disk g p

theorem getAllSheetNames_snd (inflate : Dat.Inflate) (disk : Disk) (g : GameData) :
    (getAllSheetNames inflate disk g).2 = run disk g [.extract rootListPath] := by
  rw [← extractFull_snd_run inflate]
  unfold getAllSheetNames
  generalize extractFull inflate disk g rootListPath = r
  obtain ⟨res, g'⟩ := r
  cases res with
  | none => rfl
  | some o => cases o <;> rfl

theorem readExcelSheetHeader_snd (inflate : Dat.Inflate) (disk : Disk) (g : GameData) (name : Bytes) :
    (readExcelSheetHeader inflate disk g name).2 = run disk g [.extract rootListPath] ∨
    (readExcelSheetHeader inflate disk g name).2 =
      run disk g [.extract rootListPath, .extract (Exd.sheetHeaderPath name)] := by
  have h1 := extractFull_snd_run inflate disk g rootListPath
  unfold readExcelSheetHeader
  generalize extractFull inflate disk g rootListPath = r at h1
  obtain ⟨res, g'⟩ := r
  simp only [] at h1
  subst h1
  cases res with
  | none => exact .inl rfl
  | some o =>
    cases o with
    | none => exact .inl rfl
    | some buf =>
      simp only []
      cases (ExcelRootList.fromExisting buf).entries.find? (fun e => e.1 == name) with
      | none => exact .inl rfl
      | some e =>
        right
        have h2 := extractFull_snd_run inflate disk (run disk g [.extract rootListPath])
          (Exd.sheetHeaderPath name)
        simp only []
        generalize extractFull inflate disk (run disk g [.extract rootListPath])
          (Exd.sheetHeaderPath name) = r2 at h2
        obtain ⟨res2, g2⟩ := r2
        simp only [] at h2
        subst h2
        cases res2 with
        | none => rfl
        | some o2 => cases o2 <;> rfl

theorem readExcelSheet_snd (inflate : Dat.Inflate) (disk : Disk) (g : GameData) (name : Bytes)
    (exh : Exh.EXH) (language : Exh.Language) (page : Nat) :
    (readExcelSheet inflate disk g name exh language page).2 = g ∨
    ∃ pg, (readExcelSheet inflate disk g name exh language page).2 =
      run disk g [.extract (sheetPagePath name language pg)] := by
  unfold readExcelSheet
  cases exh.pages[page]? with
  | none => exact .inl rfl
  | some pg =>
    right
    refine ⟨pg, ?_⟩
    rw [← extractFull_snd_run inflate]
    simp only []
    generalize extractFull inflate disk g (sheetPagePath name language pg) = r
    obtain ⟨res, g'⟩ := r
    cases res with
    | none => rfl
    | some o => cases o <;> rfl

theorem callHandle_is_run (inflate : Dat.Inflate) (disk : Disk) (g : GameData) (c : Call) :
    ∃ qs, callHandle inflate disk g c = run disk g qs := by
  cases c with
  | query q => exact ⟨[q], rfl⟩
  | names => exact ⟨_, getAllSheetNames_snd inflate disk g⟩
  | header name =>
    rcases readExcelSheetHeader_snd inflate disk g name with h | h
    · exact ⟨_, h⟩
    · exact ⟨_, h⟩
  | sheet name exh language page =>
    rcases readExcelSheet_snd inflate disk g name exh language page with h | ⟨pg, h⟩
    · exact ⟨[], h⟩
    · exact ⟨_, h⟩

/-- every history of calls (plain queries and Excel entry points) leaves the handle in a state
that a history of plain queries produces — so C01's "after any history" covers them -/
theorem runCalls_is_run (inflate : Dat.Inflate) (disk : Disk) (g : GameData) (cs : List Call) :
    ∃ qs, runCalls inflate disk g cs = run disk g qs := by
  induction cs generalizing g with
  | nil => exact ⟨[], rfl⟩
  | cons c cs ih =>
    obtain ⟨q1, h1⟩ := callHandle_is_run inflate disk g c
    obtain ⟨q2, h2⟩ := ih (callHandle inflate disk g c)
    refine ⟨q1 ++ q2, ?_⟩
    rw [run_append, ← h1]
    exact h2

/-! ### lookup is insensitive to letter case (specification side) -/

theorem asciiLower_idem (b : UInt8) : asciiLower (asciiLower b) = asciiLower b := by
  simp only [asciiLower]
  bv_decide (timeout := 300)

theorem lower_lower (p : Bytes) : lower (lower p) = lower p := by
  simp only [lower, List.map_map]
  apply List.map_congr_left
  intro b _
  exact asciiLower_idem b

theorem locate_lower (a : Archive) (p : Bytes) : locate a (lower p) = locate a p := by
  simp only [locate, resolve, lower_lower]

/-! ### a file stored in the installation -/

/-- The installation (`a` = its index files, `disk` = all its files) stores `content` under the
game path `p` as a standard entry: the index entry `locate` finds for `p` points at offset
`|pre|` of its dat file, where a packed standard entry with blocks `bs` (each raw or deflated)
sits, whose contents concatenate to `content`.  Whatever else the dat file holds (`pre`, `suf`)
is free. -/
def StoresStd (inflate : Dat.Inflate) (disk : Disk) (a : Archive) (p content : Bytes) : Prop :=
  ∃ (l : Loc) (bs : List Block) (pre suf : Bytes),
    locate a p = some l ∧ standardWf bs = true ∧ (∀ b ∈ bs, Dat.Deflated inflate b) ∧
    pre.length = l.offset.toNat ∧ pre.length + (packStandard bs).length < 18446744073709551616 ∧
    disk (repoDir l.exp) (datName a.platform l.exp l.cat l.chunk l.datId.toNat)
      = some (pre ++ packStandard bs ++ suf) ∧
    contents bs = content

theorem storesStd_lower (inflate : Dat.Inflate) (disk : Disk) (a : Archive) (p content : Bytes) :
    StoresStd inflate disk a (lower p) content ↔ StoresStd inflate disk a p content := by
  simp only [StoresStd, locate_lower]

/-- C01 + C02: a stored file is extracted, after any history of queries -/
theorem extract_stored (inflate : Dat.Inflate) (disk : Disk) (a : Archive) (hr : Realises disk a)
    (hw : a.WF) (p content : Bytes) (h : StoresStd inflate disk a p content) (qs : List Query) :
    (extractFull inflate disk (run disk (fresh a) qs) p).1 = some (some content) := by
  obtain ⟨l, bs, pre, suf, hl, hwf, hd, hoff, hsz, hdat, hc⟩ := h
  rw [← hc]
  exact C02.c02_extract_standard inflate disk a hr hw qs p l hl bs hwf hd pre suf hoff hsz hdat

/-- a path that is not stored extracts to `None` (no panic), after any history -/
theorem extract_absent (inflate : Dat.Inflate) (disk : Disk) (a : Archive) (hr : Realises disk a)
    (hw : a.WF) (p : Bytes) (h : locate a p = none) (qs : List Query) :
    (extractFull inflate disk (run disk (fresh a) qs) p).1 = some none := by
  rw [C01.c01_extract_reads inflate disk a hr hw qs p, h]

/-- split a pair-valued result into components -/
theorem pair_eta {α β : Type} (x : α × β) : x = (x.1, x.2) := rfl

end Physis.GameData
