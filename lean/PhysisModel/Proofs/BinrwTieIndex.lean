import PhysisModel.Proofs.BinrwLemmas
import PhysisModel.Generated.BinrwIndex
import PhysisModel.Model.Index
/-!
T4 for `src/sqpack/index.rs` + `SqPackHeader` (C01, also read by C02/C18 through the same model):
the hand-written readers of `Model/Index.lean` equal the interpretation of the layout descriptors
that `lib/binrw2lean.py` regenerates from the Rust declarations on every run.

Every tie has two steps:
1. `…_eq_expected` (by hand, once): model reader = `Layout.read` of the descriptor written here
   (`Expected.*`) followed by a pure projection;
2. `…_generated` (closed by `rfl`, re-checked on every run against the regenerated file):
   `normalizeAt e Generated.X = normalizeAt e Expected.X` (`e` = the endianness in force).  A harmless re-spelling of the declaration
   (field names, struct-level vs per-field endianness, a pad split over two neighbouring fields,
   attribute order, comments) keeps the normal form; a change of order, width, signedness,
   endianness, pad size, magic, count or enum set does not.
`Binrw.tie` combines them into `model reader = Layout.read Generated.X`.

Endianness: none of these structs declares one; they are read inside `SqPackIndex`
(`#[br(little)]`), whose declared endianness is taken from the regenerated `sqPackIndex`
(`endian_generated`).
-/
namespace Physis.BinrwTie.Index
open Physis Physis.Binrw Physis.Reader Physis.Generated

/-- the endianness in force inside `SqPackIndex` -/
abbrev endian : Endian := BinrwIndex.sqPackIndex.endianOr .little

/-! ### the descriptors the model was written from -/
namespace Expected

def segementDescriptor : Layout :=
  .mk none .none [
    .mk "count" none .none 0 (.prim .u32) 0 0,
    .mk "offset" none .none 0 (.prim .u32) 0 0,
    .mk "size" none .none 0 (.prim .u32) 0 0,
    .mk "sha1_hash" none .none 0 (.bytes (.lit 20)) 0 40] true

def sqPackHeader : Layout :=
  .mk none (.bytes [83, 113, 80, 97, 99, 107, 0, 0]) [
    .mk "platform_id" none .none 0 (.enum .u8 [0, 1, 2, 3, 4]) 4 0,
    .mk "size" none .none 0 (.prim .u32) 0 0,
    .mk "version" none .none 0 (.prim .u32) 0 0,
    .mk "file_type" none .none 0 (.enum .u8 [0, 1, 2]) 4 0,
    .mk "unk1" none .none 0 (.prim .u32) 0 0,
    .mk "unk2" none .none 0 (.prim .u32) 0 0,
    .mk "region" none .none 0 (.enum .i16 [65535, 1]) 4 0,
    .mk "sha1_hash" none .none 924 (.bytes (.lit 20)) 0 44] true

/-- nested structs are referred to by their *generated* descriptor: their own obligation ties it
to `Expected.segementDescriptor` up to normal form -/
def sqPackIndexHeader (seg : Layout) : Layout :=
  .mk none .none [
    .mk "size" none .none 0 (.prim .u32) 0 0,
    .mk "file_descriptor" none .none 0 (.struct seg) 0 4,
    .mk "data_descriptor" none .none 0 (.struct seg) 0 0,
    .mk "unknown_descriptor" none .none 0 (.struct seg) 0 0,
    .mk "folder_descriptor" none .none 0 (.struct seg) 0 0,
    .mk "index_type" none .none 0 (.enum .u8 [0, 1]) 4 0,
    .mk "sha1_hash" none .none 656 (.bytes (.lit 20)) 0 44] true

def dataEntry : Layout :=
  .mk none .none [.mk "unk" none .none 0 (.bytes (.lit 256)) 0 0] true

def folderEntry : Layout :=
  .mk none .none [
    .mk "hash" none .none 0 (.prim .u32) 0 0,
    .mk "files_offset" none .none 0 (.prim .u32) 0 0,
    .mk "total_files_size" none .none 0 (.prim .u32) 0 4] true

end Expected

/-! ### step 2: the regenerated descriptors have the expected normal form (re-checked every run) -/

theorem endian_generated : endian = .little := rfl
theorem segementDescriptor_generated :
    BinrwIndex.segementDescriptor.normalizeAt .little = Expected.segementDescriptor.normalizeAt .little := rfl
theorem sqPackHeader_generated :
    BinrwIndex.sqPackHeader.normalizeAt .little = Expected.sqPackHeader.normalizeAt .little := rfl
theorem sqPackIndexHeader_generated :
    BinrwIndex.sqPackIndexHeader.normalizeAt .little =
      (Expected.sqPackIndexHeader BinrwIndex.segementDescriptor).normalizeAt .little := rfl
theorem dataEntry_generated : BinrwIndex.dataEntry.normalizeAt .little = Expected.dataEntry.normalizeAt .little := rfl
theorem folderEntry_generated : BinrwIndex.folderEntry.normalizeAt .little = Expected.folderEntry.normalizeAt .little := rfl

/-! ### projections: which of the values the model keeps -/

def descriptorOf : List Value → Option Index.Descriptor
  | [.w32 .u32 count, .w32 .u32 offset, .w32 .u32 size, .bytes _sha1] => some ⟨count, offset, size⟩
  | _ => none

def sqPackHeaderOf : List Value → Option Index.SqPackHeader
  | [.w8 .u8 plat, .w32 .u32 size, .w32 .u32 version, .w8 .u8 ft, .w32 .u32 _, .w32 .u32 _, .w16 .i16 _,
     .bytes _sha1] => some ⟨plat, size, version, ft⟩
  | _ => none

def indexHeaderOf : List Value → Option Index.IndexHeader
  | [.w32 .u32 size, .struct fd, .struct dd, .struct ud, .struct fo, .w8 .u8 it, .bytes _sha1] => do
    let fd ← descriptorOf fd
    let dd ← descriptorOf dd
    let ud ← descriptorOf ud
    let fo ← descriptorOf fo
    some ⟨size, fd, dd, ud, fo, if it == 0 then .index1 else .index2⟩
  | _ => none

/-! ### enum checks: the model's comparison = membership in the regenerated discriminant list -/

theorem platform_valid (v : UInt8) : ([0, 1, 2, 3, 4] : List Nat).contains v.toNat = decide (v ≤ 4) := by
  rw [Bool.eq_iff_iff]; simp [UInt8.le_iff_toNat_le]; omega
theorem fileType_valid (v : UInt8) : ([0, 1, 2] : List Nat).contains v.toNat = decide (v ≤ 2) := by
  rw [Bool.eq_iff_iff]; simp [UInt8.le_iff_toNat_le]; omega
theorem indexType_valid (v : UInt8) : ([0, 1] : List Nat).contains v.toNat = decide (v ≤ 1) := by
  rw [Bool.eq_iff_iff]; simp [UInt8.le_iff_toNat_le]; omega
theorem region_valid (v : UInt16) : ([65535, 1] : List Nat).contains v.toNat = (v == 65535 || v == 1) := by
  rw [Bool.eq_iff_iff]; simp [← UInt16.toNat_inj]

/-! ### step 1: the model readers against the expected descriptors (by hand, once) -/

theorem readDescriptor_eq_expected (l : Bytes) :
    Index.readDescriptor l = via descriptorOf (Layout.read .little Expected.segementDescriptor l) := by
  binrw_norm [Index.readDescriptor, Expected.segementDescriptor]
  rfl

theorem readSqPackHeader_eq_expected (l : Bytes) :
    Index.readSqPackHeader l = via sqPackHeaderOf (Layout.read .little Expected.sqPackHeader l) := by
  binrw_norm [Index.readSqPackHeader, Index.sqpackMagic, Expected.sqPackHeader,
    platform_valid, fileType_valid, region_valid]
  rfl

theorem readIndexHeader_eq_expected (l : Bytes) :
    Index.readIndexHeader l =
      via indexHeaderOf (Layout.read .little (Expected.sqPackIndexHeader Expected.segementDescriptor) l) := by
  binrw_norm [Index.readIndexHeader, Index.readDescriptor, Expected.sqPackIndexHeader,
    Expected.segementDescriptor, indexType_valid]
  rfl

/-- the header layout depends on the nested descriptor only through what that descriptor reads -/
theorem sqPackIndexHeader_congr (e : Endian) {s1 s2 : Layout} (h : s1.normalizeAt e = s2.normalizeAt e) (l : Bytes) :
    Layout.read e (Expected.sqPackIndexHeader s1) l = Layout.read e (Expected.sqPackIndexHeader s2) l := by
  simp only [Expected.sqPackIndexHeader, Layout.read, Layout.readFields, Field.read, Kind.read,
    Option.getD, Layout.read_congr e h, Nat.zero_sub]

/-! ### the tie: model reader = interpretation of the regenerated descriptor -/

theorem readDescriptor_eq_generated (l : Bytes) :
    Index.readDescriptor l = via descriptorOf (Layout.read endian BinrwIndex.segementDescriptor l) :=
  endian_generated ▸ tie readDescriptor_eq_expected segementDescriptor_generated l

theorem readSqPackHeader_eq_generated (l : Bytes) :
    Index.readSqPackHeader l = via sqPackHeaderOf (Layout.read endian BinrwIndex.sqPackHeader l) :=
  endian_generated ▸ tie readSqPackHeader_eq_expected sqPackHeader_generated l

theorem readIndexHeader_eq_generated (l : Bytes) :
    Index.readIndexHeader l = via indexHeaderOf (Layout.read endian BinrwIndex.sqPackIndexHeader l) := by
  rw [endian_generated, Layout.read_congr _ sqPackIndexHeader_generated,
    sqPackIndexHeader_congr _ segementDescriptor_generated]
  exact readIndexHeader_eq_expected l

/-- `SqPackIndex` starts with the `SqPackHeader` (the translated prefix of the top-level struct;
the following fields are behind `seek_before`) -/
theorem parse_starts_with_header :
    BinrwIndex.sqPackIndex.normalizeAt .little =
      (Layout.mk none .none [.mk "" none .none 0 (.struct BinrwIndex.sqPackHeader) 0 0] false).normalizeAt .little := rfl

/-- `Vec<DataEntry>` / `Vec<FolderEntry>` with `count = n`: the model only checks readability -/
theorem readRecords_eq_repeatN (need pad : Nat) (rd : Bytes → Option (Value × Bytes))
    (h : ∀ l, (rd l).map (·.2) = (bytes need l).map (fun x => skip pad x.2)) (n : Nat) (l : Bytes) :
    Index.readRecords need pad n l = (repeatN rd n l).map (·.2) := by
  induction n generalizing l with
  | zero => rfl
  | succ n ih =>
    have hl := h l
    simp only [Index.readRecords, repeatN, bind]
    cases hr : rd l with
    | none =>
      rw [hr] at hl
      cases hb : bytes need l with
      | none => rfl
      | some x => rw [hb] at hl; cases hl
    | some p =>
      rw [hr] at hl
      cases hb : bytes need l with
      | none => rw [hb] at hl; cases hl
      | some x =>
        rw [hb] at hl
        simp only [Option.map_some, Option.some.injEq] at hl
        simp only [Option.bind_some]
        rw [← hl, ih]
        cases repeatN rd n p.2 <;> rfl

theorem readRecords_data_eq_generated (n : Nat) (l : Bytes) :
    Index.readRecords 256 0 n l =
      (Kind.read endian [] (.array (.lit n) (.struct BinrwIndex.dataEntry)) l).map (·.2) := by
  rw [endian_generated, Kind.read_array_struct_congr _ _ _ dataEntry_generated,
    readRecords_eq_repeatN 256 0 (Kind.read .little [] (.struct Expected.dataEntry))]
  · simp only [Kind.read, Count.eval, Option.bind_some, Option.map_map]; rfl
  · intro l
    binrw_norm [Expected.dataEntry]
    cases bytes 256 l <;> rfl

theorem readRecords_folder_eq_generated (n : Nat) (l : Bytes) :
    Index.readRecords 12 4 n l =
      (Kind.read endian [] (.array (.lit n) (.struct BinrwIndex.folderEntry)) l).map (·.2) := by
  rw [endian_generated, Kind.read_array_struct_congr _ _ _ folderEntry_generated,
    readRecords_eq_repeatN 12 4 (Kind.read .little [] (.struct Expected.folderEntry))]
  · simp only [Kind.read, Count.eval, Option.bind_some, Option.map_map]; rfl
  · intro l
    binrw_norm [Expected.folderEntry]
    iterate 12 (rcases l with _ | ⟨_, l⟩; · rfl)
    simp [u32le, bytes]

end Physis.BinrwTie.Index
