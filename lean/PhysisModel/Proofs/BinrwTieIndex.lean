import PhysisModel.Proofs.BinrwLemmas
import PhysisModel.Generated.BinrwIndex
import PhysisModel.Model.Index
/-!
T4 for `src/sqpack/index.rs` + `SqPackHeader` (C01, also read by C02/C18 through the same model):
the hand-written readers of `Model/Index.lean` equal the interpretation of the layout descriptors
that `lib/binrw2lean.py` regenerates from the Rust declarations on every run.

Endianness: none of these structs declares one; they are read inside `SqPackIndex`
(`#[br(little)]`), whose declared endianness is taken from the regenerated `sqPackIndex`.
-/
namespace Physis.BinrwTie.Index
open Physis Physis.Binrw Physis.Reader Physis.Generated

/-- the endianness in force inside `SqPackIndex` -/
abbrev endian : Endian := BinrwIndex.sqPackIndex.endianOr .little

/-! ### projections: which of the values the model keeps -/

def descriptorOf : List Value → Option Index.Descriptor
  | [.w32 .u32 count, .w32 .u32 offset, .w32 .u32 size, .bytes _sha1] => some ⟨count, offset, size⟩
  | _ => none

def sqPackHeaderOf : List Value → Option Index.SqPackHeader
  | [.w8 .u8 plat, .w32 .u32 size, .w32 .u32 version, .w8 .u8 ft, .w32 .u32 _, .w32 .u32 _, .w16 .i16 _,
     .bytes _sha1] => some ⟨plat, size, version, ft⟩
  | _ => none

def indexHeaderOf : List Value → Option Index.IndexHeader
  | [.w32 .u32 size, .struct fd, .struct dd, .struct ud, .struct fo, .w8 .u8 it, .bytes _sha1] => do
    let fd ← descriptorOf fd
    let dd ← descriptorOf dd
    let ud ← descriptorOf ud
    let fo ← descriptorOf fo
    some ⟨size, fd, dd, ud, fo, if it == 0 then .index1 else .index2⟩
  | _ => none

/-! ### enum checks: the model's comparison = membership in the regenerated discriminant list -/

theorem platform_valid (v : UInt8) : ([0, 1, 2, 3, 4] : List Nat).contains v.toNat = decide (v ≤ 4) := by
  rw [Bool.eq_iff_iff]; simp [UInt8.le_iff_toNat_le]; omega
theorem fileType_valid (v : UInt8) : ([0, 1, 2] : List Nat).contains v.toNat = decide (v ≤ 2) := by
  rw [Bool.eq_iff_iff]; simp [UInt8.le_iff_toNat_le]; omega
theorem indexType_valid (v : UInt8) : ([0, 1] : List Nat).contains v.toNat = decide (v ≤ 1) := by
  rw [Bool.eq_iff_iff]; simp [UInt8.le_iff_toNat_le]; omega
theorem region_valid (v : UInt16) : ([65535, 1] : List Nat).contains v.toNat = (v == 65535 || v == 1) := by
  rw [Bool.eq_iff_iff]; simp [← UInt16.toNat_inj]

/-! ### the tie -/

theorem readDescriptor_eq_generated (l : Bytes) :
    Index.readDescriptor l = via descriptorOf (Layout.read endian BinrwIndex.segementDescriptor l) := by
  binrw_norm [Index.readDescriptor, BinrwIndex.segementDescriptor, endian, BinrwIndex.sqPackIndex, Layout.endianOr]
  rfl

theorem readSqPackHeader_eq_generated (l : Bytes) :
    Index.readSqPackHeader l = via sqPackHeaderOf (Layout.read endian BinrwIndex.sqPackHeader l) := by
  binrw_norm [Index.readSqPackHeader, Index.sqpackMagic, BinrwIndex.sqPackHeader, endian, BinrwIndex.sqPackIndex,
    Layout.endianOr, platform_valid, fileType_valid, region_valid]
  rfl

theorem readIndexHeader_eq_generated (l : Bytes) :
    Index.readIndexHeader l = via indexHeaderOf (Layout.read endian BinrwIndex.sqPackIndexHeader l) := by
  binrw_norm [Index.readIndexHeader, Index.readDescriptor, BinrwIndex.sqPackIndexHeader, BinrwIndex.segementDescriptor,
    endian, BinrwIndex.sqPackIndex, Layout.endianOr, indexType_valid]
  rfl

/-- `SqPackIndex` starts with the `SqPackHeader` (the translated prefix of the top-level struct;
the following fields are behind `seek_before`) -/
theorem parse_starts_with_header :
    BinrwIndex.sqPackIndex = .mk (some .little) .none
      [.mk "sqpack_header" none .none 0 (.struct BinrwIndex.sqPackHeader) 0 0] false := rfl

/-- `Vec<DataEntry>` / `Vec<FolderEntry>` with `count = n`: the model only checks readability -/
theorem readRecords_eq_repeatN (need pad : Nat) (rd : Bytes → Option (Value × Bytes))
    (h : ∀ l, (rd l).map (·.2) = (bytes need l).map (fun x => skip pad x.2)) (n : Nat) (l : Bytes) :
    Index.readRecords need pad n l = (repeatN rd n l).map (·.2) := by
  induction n generalizing l with
  | zero => rfl
  | succ n ih =>
    have hl := h l
    simp only [Index.readRecords, repeatN, bind]
    cases hr : rd l with
    | none =>
      rw [hr] at hl
      cases hb : bytes need l with
      | none => rfl
      | some x => rw [hb] at hl; cases hl
    | some p =>
      rw [hr] at hl
      cases hb : bytes need l with
      | none => rw [hb] at hl; cases hl
      | some x =>
        rw [hb] at hl
        simp only [Option.map_some, Option.some.injEq] at hl
        simp only [Option.bind_some]
        rw [← hl, ih]
        cases repeatN rd n p.2 <;> rfl

theorem readRecords_data_eq_generated (n : Nat) (l : Bytes) :
    Index.readRecords 256 0 n l =
      (Kind.read endian [] (.array (.lit n) (.struct BinrwIndex.dataEntry)) l).map (·.2) := by
  rw [readRecords_eq_repeatN 256 0 (Kind.read endian [] (.struct BinrwIndex.dataEntry))]
  · simp only [Kind.read, Count.eval, Option.bind_some, Option.map_map]; rfl
  · intro l
    binrw_norm [BinrwIndex.dataEntry, endian, BinrwIndex.sqPackIndex, Layout.endianOr]
    cases bytes 256 l <;> rfl

theorem readRecords_folder_eq_generated (n : Nat) (l : Bytes) :
    Index.readRecords 12 4 n l =
      (Kind.read endian [] (.array (.lit n) (.struct BinrwIndex.folderEntry)) l).map (·.2) := by
  rw [readRecords_eq_repeatN 12 4 (Kind.read endian [] (.struct BinrwIndex.folderEntry))]
  · simp only [Kind.read, Count.eval, Option.bind_some, Option.map_map]; rfl
  · intro l
    binrw_norm [BinrwIndex.folderEntry, endian, BinrwIndex.sqPackIndex, Layout.endianOr]
    iterate 12 (rcases l with _ | ⟨_, l⟩; · rfl)
    simp [u32le, bytes]

end Physis.BinrwTie.Index
