import PhysisModel.Spec.Excel
import PhysisModel.Model.ExcelRootList
/-!
C05 helper lemmas: `EXL::from_existing` on an encoded root list returns the version and the
`(name, id)` entries in order.
-/
namespace Physis.Proofs.ExcelRootList
open Physis Physis.Spec.Excel Physis.ExcelRootList

/-! ### lines -/

theorem linesAux_line (l rest : Bytes) (hl : ∀ b ∈ l, b ≠ 10) :
    ∀ cur, linesAux (l ++ 10 :: rest) cur = finishLine (l.reverse ++ cur) :: linesAux rest [] := by
  induction l with
  | nil => intro cur; simp [linesAux]
  | cons b l ih =>
    intro cur
    have hb : b ≠ 10 := hl b (List.mem_cons_self ..)
    simp only [List.cons_append, linesAux, hb, if_false, List.reverse_cons, List.append_assoc]
    exact ih (fun x hx => hl x (List.mem_cons_of_mem _ hx)) (b :: cur)

theorem linesAux_last (l : Bytes) (hl : ∀ b ∈ l, b ≠ 10) :
    ∀ cur, linesAux l cur = if (l.reverse ++ cur).isEmpty then [] else [(l.reverse ++ cur).reverse] := by
  induction l with
  | nil => intro cur; simp [linesAux]
  | cons b l ih =>
    intro cur
    have hb : b ≠ 10 := hl b (List.mem_cons_self ..)
    simp only [linesAux, hb, if_false, List.reverse_cons, List.append_assoc, List.singleton_append]
    exact ih (fun x hx => hl x (List.mem_cons_of_mem _ hx)) (b :: cur)

/-- a text line: no line feed, ends in a byte other than `\r` -/
def LineOK (l : Bytes) : Prop := (∀ b ∈ l, b ≠ 10) ∧ ∃ p d, l = p ++ [d] ∧ d ≠ 13

theorem finishLine_ok {l : Bytes} (h : LineOK l) : finishLine l.reverse = l := by
  obtain ⟨_, p, d, rfl, hd⟩ := h
  simp only [List.reverse_append, List.reverse_cons, List.reverse_nil, List.nil_append,
    List.singleton_append]
  unfold finishLine
  split
  · rename_i c heq
    simp only [List.cons.injEq] at heq
    exact absurd heq.1 hd
  · simp

theorem lines_of_lines (first : Bytes) (rest : List Bytes) (h0 : LineOK first)
    (hr : ∀ l ∈ rest, LineOK l) :
    linesAux (first ++ (rest.map (fun l => 10 :: l)).flatten) [] = first :: rest := by
  induction rest generalizing first with
  | nil =>
    obtain ⟨hnl, p, d, rfl, _⟩ := h0
    simp only [List.map_nil, List.flatten_nil, List.append_nil]
    rw [linesAux_last _ hnl]
    simp
  | cons l rest ih =>
    simp only [List.map_cons, List.flatten_cons, List.cons_append]
    rw [linesAux_line first _ h0.1, List.append_nil, finishLine_ok h0]
    rw [ih l (hr l (List.mem_cons_self ..)) (fun x hx => hr x (List.mem_cons_of_mem _ hx))]

/-! ### numbers -/

theorem digit_byte {c : Char} (h : c.isDigit = true) :
    isDigit (UInt8.ofNat c.toNat) = true ∧ (UInt8.ofNat c.toNat).toNat - 48 = c.toNat - '0'.toNat := by
  simp only [Char.isDigit, Bool.and_eq_true, decide_eq_true_eq] at h
  have h1 : 48 ≤ c.toNat := UInt32.le_iff_toNat_le.mp h.1
  have h2 : c.toNat ≤ 57 := UInt32.le_iff_toNat_le.mp h.2
  have e : (UInt8.ofNat c.toNat).toNat = c.toNat := by
    rw [UInt8.toNat_ofNat']; exact Nat.mod_eq_of_lt (by omega)
  refine ⟨?_, by rw [e]; rfl⟩
  simp only [isDigit, Bool.and_eq_true, decide_eq_true_eq, UInt8.le_iff_toNat_le, e]
  exact ⟨h1, h2⟩

theorem decimal_digits (n : Nat) : ∀ b ∈ decimal n, isDigit b = true := by
  intro b hb
  obtain ⟨c, hc, rfl⟩ := List.mem_map.mp hb
  exact (digit_byte (Nat.isDigit_of_mem_toDigits (by decide) (by decide) hc)).1

theorem decimal_ne_nil (n : Nat) : decimal n ≠ [] := by
  simp [decimal, Nat.toDigits_ne_nil]

theorem foldl_digits (l : List Char) (hl : ∀ c ∈ l, c.isDigit = true) (init : Nat) :
    (l.map (fun c => UInt8.ofNat c.toNat)).foldl (fun acc b => 10 * acc + (b.toNat - 48)) init
      = Nat.ofDigitChars 10 l init := by
  induction l generalizing init with
  | nil => simp
  | cons c l ih =>
    simp only [List.map_cons, List.foldl_cons, Nat.ofDigitChars_cons,
      (digit_byte (hl c (List.mem_cons_self ..))).2]
    exact ih (fun x hx => hl x (List.mem_cons_of_mem _ hx)) _

theorem digitsVal_decimal (n : Nat) : digitsVal (decimal n) = n := by
  unfold digitsVal decimal
  rw [foldl_digits _ (fun c hc => Nat.isDigit_of_mem_toDigits (by decide) (by decide) hc)]
  exact Nat.ofDigitChars_ten_toDigits

theorem parseI32_cons (d : UInt8) (r : Bytes) (h1 : d ≠ 0x2d) (h2 : d ≠ 0x2b) :
    parseI32 (d :: r) = parseDigits false (d :: r) := by
  unfold parseI32
  split <;> simp_all

theorem parseDigits_decimal (neg : Bool) (n : Nat) :
    parseDigits neg (decimal n) =
      if neg then (if n ≤ 2147483648 then some (-(n : Int)) else none)
      else (if n ≤ 2147483647 then some (n : Int) else none) := by
  have hall : (decimal n).all isDigit = true := List.all_eq_true.mpr (decimal_digits n)
  have hemp : (decimal n).isEmpty = false := by
    cases h : decimal n with
    | nil => exact absurd h (decimal_ne_nil n)
    | cons _ _ => rfl
  simp only [parseDigits, hall, hemp, digitsVal_decimal, Bool.not_true, Bool.or_self,
    Bool.false_eq_true, if_false]

theorem parse_decimal (n : Nat) :
    parseI32 (decimal n) = if n ≤ 2147483647 then some (n : Int) else none := by
  have hd := decimal_digits n
  have hp := parseDigits_decimal false n
  match hdec : decimal n with
  | [] => exact absurd hdec (decimal_ne_nil n)
  | d :: r =>
    have hdd : isDigit d = true := hd d (by rw [hdec]; exact List.mem_cons_self ..)
    have h1 : d ≠ 0x2d := by intro e; rw [e] at hdd; simp [isDigit] at hdd
    have h2 : d ≠ 0x2b := by intro e; rw [e] at hdd; simp [isDigit] at hdd
    rw [parseI32_cons d r h1 h2, ← hdec, hp]
    simp

theorem parse_showInt (i : Int) (h : inI32 i) : parseI32 (showInt i) = some i := by
  obtain ⟨lo, hi⟩ := h
  unfold showInt
  split
  · -- negative
    rename_i hneg
    show parseDigits true (decimal i.natAbs) = some i
    rw [parseDigits_decimal]
    have h1 : i.natAbs ≤ 2147483648 := by omega
    have h2 : -(i.natAbs : Int) = i := by omega
    simp only [if_true, h1, h2]
  · rename_i hpos
    rw [parse_decimal]
    have h1 : i.natAbs ≤ 2147483647 := by omega
    have h2 : (i.natAbs : Int) = i := by omega
    simp only [if_true, h1, h2]

theorem showInt_bytes (i : Int) : ∀ b ∈ showInt i, b = 0x2d ∨ isDigit b = true := by
  intro b hb
  unfold showInt at hb
  split at hb
  · rcases List.mem_cons.mp hb with h | h
    · exact Or.inl h
    · exact Or.inr (decimal_digits _ b h)
  · exact Or.inr (decimal_digits _ b hb)

theorem showInt_ne_nil (i : Int) : showInt i ≠ [] := by
  unfold showInt; split
  · simp
  · exact decimal_ne_nil _

/-! ### rows -/

theorem splitOnce_name (name value : Bytes) (h : ∀ b ∈ name, b ≠ 0x2c) :
    splitOnce 0x2c (name ++ 0x2c :: value) = some (name, value) := by
  induction name with
  | nil => simp [splitOnce]
  | cons b name ih =>
    have hb : b ≠ 0x2c := h b (List.mem_cons_self ..)
    simp only [List.cons_append, splitOnce, hb, if_false,
      ih (fun x hx => h x (List.mem_cons_of_mem _ hx))]

def rowLine (e : Bytes × Int) : Bytes := e.1 ++ 0x2c :: showInt e.2

theorem showInt_byte_ne {i : Int} {b : UInt8} (hb : b ∈ showInt i) : b ≠ 10 ∧ b ≠ 13 := by
  rcases showInt_bytes i b hb with h | h
  · subst h; decide
  · constructor <;> (intro e; subst e; simp [isDigit] at h)

theorem rowLine_ok (e : Bytes × Int) (h : ∀ b ∈ e.1, b ≠ 10) : LineOK (rowLine e) := by
  constructor
  · intro b hb
    simp only [rowLine, List.mem_append, List.mem_cons] at hb
    rcases hb with hb | hb | hb
    · exact h b hb
    · subst hb; decide
    · exact (showInt_byte_ne hb).1
  · refine ⟨e.1 ++ 0x2c :: (showInt e.2).dropLast, (showInt e.2).getLast (showInt_ne_nil _), ?_,
      (showInt_byte_ne (List.getLast_mem _)).2⟩
    simp only [rowLine, List.append_assoc, List.cons_append,
      List.dropLast_concat_getLast (showInt_ne_nil e.2)]

theorem step_entry (acc : EXL) (e : Bytes × Int) (hw : WFname e.1) (hi : inI32 e.2) :
    step acc (rowLine e) = { acc with entries := acc.entries ++ [e] } := by
  obtain ⟨hb, hhash, hex⟩ := hw
  have hne : ¬ e.1 = exlt := hex
  simp only [step, rowLine, splitOnce_name e.1 _ (fun b h => (hb b h).2.1), parse_showInt e.2 hi, hne,
    if_false, ne_eq, hhash, not_false_eq_true, if_true]

theorem step_version (acc : EXL) (v : Int) (hv : inI32 v) :
    step acc (rowLine (exlt, v)) = { acc with version := v } := by
  simp only [step, rowLine, splitOnce_name exlt _ (by decide), parse_showInt v hv, if_true]

theorem foldl_entries (es : List (Bytes × Int)) (hw : ∀ e ∈ es, WFname e.1 ∧ inI32 e.2) :
    ∀ acc : EXL, (es.map rowLine).foldl step acc = { acc with entries := acc.entries ++ es } := by
  induction es with
  | nil => intro acc; simp
  | cons e es ih =>
    intro acc
    obtain ⟨h1, h2⟩ := hw e (List.mem_cons_self ..)
    simp only [List.map_cons, List.foldl_cons, step_entry acc e h1 h2,
      ih (fun x hx => hw x (List.mem_cons_of_mem _ hx)), List.append_assoc, List.singleton_append]

/-! ### UTF-8: the encoded root list is ASCII, so `lines()` never stops early -/

theorem validUtf8_ascii (l : Bytes) (h : ∀ b ∈ l, b < 128) : StrF.validUtf8 l = true := by
  induction l with
  | nil => simp [StrF.validUtf8]
  | cons b l ih =>
    have hb : b < 0x80 := h b (List.mem_cons_self ..)
    unfold StrF.validUtf8
    rw [if_pos hb]
    exact ih (fun x hx => h x (List.mem_cons_of_mem _ hx))

theorem takeWhile_all {α} (p : α → Bool) (l : List α) (h : ∀ x ∈ l, p x = true) : l.takeWhile p = l := by
  induction l with
  | nil => rfl
  | cons a l ih =>
    simp only [List.takeWhile_cons, h a (List.mem_cons_self ..), if_true,
      ih (fun x hx => h x (List.mem_cons_of_mem _ hx))]

theorem showInt_ascii (i : Int) : ∀ b ∈ showInt i, b < 128 := by
  intro b hb
  rcases showInt_bytes i b hb with h | h
  · subst h; decide
  · simp only [isDigit, Bool.and_eq_true, decide_eq_true_eq] at h
    exact UInt8.lt_of_le_of_lt h.2 (by decide)

theorem rowLine_ascii (e : Bytes × Int) (h : ∀ b ∈ e.1, b < 128) : ∀ b ∈ rowLine e, b < 128 := by
  intro b hb
  simp only [rowLine, List.mem_append, List.mem_cons] at hb
  rcases hb with hb | hb | hb
  · exact h b hb
  · subst hb; decide
  · exact showInt_ascii _ b hb

theorem rootList_roundtrip (v : Int) (es : List (Bytes × Int)) (h : WFrootList v es) :
    fromExisting (encodeRootList v es) = ⟨v, es⟩ := by
  obtain ⟨hv, hes⟩ := h
  have henc : encodeRootList v es
      = rowLine (exlt, v) ++ ((es.map rowLine).map (fun l => 10 :: l)).flatten := by
    simp [encodeRootList, rowLine, exlt, List.map_map, Function.comp_def]
  have hlines := lines_of_lines (rowLine (exlt, v)) (es.map rowLine)
    (rowLine_ok (exlt, v) (show ∀ b ∈ exlt, b ≠ 10 by decide))
    (by
      intro l hl
      obtain ⟨e, he, rfl⟩ := List.mem_map.mp hl
      exact rowLine_ok e (fun b hb => ((hes e he).1.1 b hb).1))
  have hall : ∀ l ∈ rowLine (exlt, v) :: es.map rowLine, StrF.validUtf8 l = true := by
    intro l hl
    rcases List.mem_cons.mp hl with h | h
    · subst h; exact validUtf8_ascii _ (rowLine_ascii _ (show ∀ b ∈ exlt, b < 128 by decide))
    · obtain ⟨e, he, rfl⟩ := List.mem_map.mp h
      exact validUtf8_ascii _ (rowLine_ascii e (fun b hb => ((hes e he).1.1 b hb).2.2))
  have htw : (rowLine (exlt, v) :: es.map rowLine).takeWhile StrF.validUtf8
      = rowLine (exlt, v) :: es.map rowLine := takeWhile_all _ _ hall
  simp only [fromExisting, utf8Lines, lines, henc, hlines, htw, List.foldl_cons, step_version _ v hv,
    foldl_entries es hes, List.nil_append]

end Physis.Proofs.ExcelRootList
