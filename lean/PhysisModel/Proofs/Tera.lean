import PhysisModel.Model.Tera
import PhysisModel.Spec.Tera
import PhysisModel.Proofs.ReaderC16
/-! Structural part of the terrain theorems: header, padding, position vector, plate loop. -/
namespace Physis.Tera
open Physis.Spec.Tera

def toSpec (m : PlateModel) : Plate := ⟨m.x, m.y, m.filename⟩
def ofSpec (p : Plate) : PlateModel := ⟨p.x, p.y, p.filename⟩

/-- the float facts the grid theorems rest on, per coordinate -/
def ReadExact (c : UInt16) : Prop := centre 128 c = gridPos c
def WriteExact (c : UInt16) : Prop := coord (gridPos c) = c
instance (c : UInt16) : Decidable (ReadExact c) := by unfold ReadExact; infer_instance
instance (c : UInt16) : Decidable (WriteExact c) := by unfold WriteExact; infer_instance

theorem readPositions_encode (ps : List (UInt16 × UInt16)) (rest : Bytes) :
    readPositions ps.length (ps.flatMap encodePos ++ rest) = some ps := by
  induction ps with
  | nil => rfl
  | cons p t ih =>
    simp only [List.length_cons, List.flatMap_cons, encodePos, List.append_assoc, readPositions,
      Rd.u16le_put, ih, Option.map_some]

theorem ofNat_length_toNat (n : Nat) (h : n < 2 ^ 32) : (UInt32.ofNat n).toNat = n := by
  simp only [UInt32.toNat_ofNat']; omega

/-- the reader on an encoded file: the model's plate loop over exactly the stored positions -/
theorem fromExisting_encode (f : File) (h : WF f) :
    fromExisting (encode f) = some (platesFrom f.plateSize 0 f.positions) := by
  have hskip : ∀ (b : Bytes), Rd.skip 32 (List.replicate 32 (0 : UInt8) ++ b) = b := by
    intro b; simp [Rd.skip]
  simp only [fromExisting, encode, Rd.u32le_put, hskip, ofNat_length_toNat _ h]
  have := readPositions_encode f.positions []
  simp only [List.append_nil] at this
  rw [this]

theorem platesFrom_grid (ps : List (UInt16 × UInt16)) (i : Nat)
    (h : ∀ p ∈ ps, ReadExact p.1 ∧ ReadExact p.2) :
    (platesFrom 128 i ps).map toSpec = gridPlatesFrom i ps := by
  induction ps generalizing i with
  | nil => rfl
  | cons p t ih =>
    have hp := h p (by simp)
    have ht : ∀ q ∈ t, ReadExact q.1 ∧ ReadExact q.2 := fun q hq => h q (by simp [hq])
    simp only [platesFrom, gridPlatesFrom, List.map_cons, toSpec, ih _ ht, plateName]
    rw [hp.1, hp.2]

theorem gridPlatesFrom_length (ps : List (UInt16 × UInt16)) (i : Nat) :
    (gridPlatesFrom i ps).length = ps.length := by
  induction ps generalizing i with
  | nil => rfl
  | cons p t ih => simp [gridPlatesFrom, ih]

theorem write_positions (ps : List (UInt16 × UInt16)) (i : Nat)
    (h : ∀ p ∈ ps, WriteExact p.1 ∧ WriteExact p.2) :
    ((gridPlatesFrom i ps).map ofSpec).flatMap (fun m => putU16le (coord m.x) ++ putU16le (coord m.y))
      = ps.flatMap encodePos := by
  induction ps generalizing i with
  | nil => rfl
  | cons p t ih =>
    have hp := h p (by simp)
    have ht : ∀ q ∈ t, WriteExact q.1 ∧ WriteExact q.2 := fun q hq => h q (by simp [hq])
    simp only [gridPlatesFrom, List.map_cons, List.flatMap_cons, ofSpec, ih _ ht, encodePos]
    rw [hp.1, hp.2]

/-- the writer on a grid terrain produces the documented layout -/
theorem write_grid (ps : List (UInt16 × UInt16))
    (h : ∀ p ∈ ps, WriteExact p.1 ∧ WriteExact p.2) :
    writeToBuffer ((gridPlates ps).map ofSpec) = encode ⟨0x1000003, 128, 0, 0x3F800000, ps⟩ := by
  simp only [writeToBuffer, encode, gridPlates, write_positions ps 0 h, List.length_map,
    gridPlatesFrom_length, F32Arith.one]

end Physis.Tera
