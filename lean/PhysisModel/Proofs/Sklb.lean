import PhysisModel.Model.Sklb
import PhysisModel.Spec.HavokTag
import PhysisModel.Proofs.ReaderC16
/-!
The SKLB container: for both header versions the reader finds the Havok data exactly behind the gap.
-/
namespace Physis.Sklb
open Physis Physis.Spec.Sklb

theorem magic_read (r : Bytes) : Rd.u32le (magic ++ r) = some (0x736B6C62, r) := by
  simp only [magic, List.cons_append, List.nil_append, Rd.u32le]
  rfl

theorem havokOffset_old (h : Header) (payload : Bytes) (hv : h.version = vOld) (hg : 28 + h.gap.length < 2 ^ 16) :
    havokOffset (encode h payload) = .ok (28 + h.gap.length) := by
  have h4 := Rd.u32s_put [h.bodyId, h.mapper1, h.mapper2, h.mapper3] (h.gap ++ payload)
  simp only [List.length_cons, List.length_nil, List.flatMap_cons, List.flatMap_nil, List.append_nil,
    List.append_assoc, Nat.zero_add] at h4
  simp only [encode, hv, if_true, List.append_assoc, havokOffset, magic_read, Rd.u32le_put, Rd.u16le_put, h4]
  have : (UInt16.ofNat (28 + h.gap.length)).toNat = 28 + h.gap.length := by
    rw [UInt16.toNat_ofNat']; omega
  simp [vOld]
  omega

theorem havokOffset_new (h : Header) (payload : Bytes) (hv : h.version = vNew0 ∨ h.version = vNew1)
    (hg : 36 + h.gap.length < 2 ^ 32) :
    havokOffset (encode h payload) = .ok (36 + h.gap.length) := by
  have h7 := Rd.u32s_put [h.unkOffset, UInt32.ofNat (36 + h.gap.length), h.unk, h.bodyId, h.mapper1, h.mapper2,
    h.mapper3] (h.gap ++ payload)
  simp only [List.length_cons, List.length_nil, List.flatMap_cons, List.flatMap_nil, List.append_nil,
    List.append_assoc, Nat.zero_add] at h7
  have hne : h.version ≠ vOld := by rcases hv with hv | hv <;> rw [hv] <;> decide
  have hv' : (h.version == 0x31333030 || h.version == 0x31333031) = true := by
    rcases hv with hv | hv <;> rw [hv] <;> decide
  have hv'' : (h.version == 0x31323030) = false := by
    rcases hv with hv | hv <;> rw [hv] <;> decide
  have : (UInt32.ofNat (36 + h.gap.length)).toNat = 36 + h.gap.length := by
    rw [UInt32.toNat_ofNat']; omega
  simp only [encode, hne, if_false, List.append_assoc, havokOffset, magic_read, Rd.u32le_put, hv'', hv', h7]
  simp
  omega

theorem seek_prefix (pre payload : Bytes) (n : Nat) (h : pre.length = n) :
    Rd.seekTo (pre ++ payload) n = payload := by
  subst h; exact Rd.seekTo_append _ _

theorem seek_old (h : Header) (payload : Bytes) (hv : h.version = vOld) :
    Rd.seekTo (encode h payload) (28 + h.gap.length) = payload := by
  have he : encode h payload = (magic ++ putU32le h.version ++ putU16le h.unkOffset.toUInt16 ++
      putU16le (UInt16.ofNat (28 + h.gap.length)) ++ putU32le h.bodyId ++ putU32le h.mapper1 ++
      putU32le h.mapper2 ++ putU32le h.mapper3 ++ h.gap) ++ payload := by
    simp only [encode, hv, if_true]
  have hl : (magic ++ putU32le h.version ++ putU16le h.unkOffset.toUInt16 ++
      putU16le (UInt16.ofNat (28 + h.gap.length)) ++ putU32le h.bodyId ++ putU32le h.mapper1 ++
      putU32le h.mapper2 ++ putU32le h.mapper3 ++ h.gap).length = 28 + h.gap.length := by
    simp only [List.length_append, magic, List.length_cons, List.length_nil, putU32le_length, putU16le_length]
  rw [he]
  exact seek_prefix _ _ _ hl

theorem seek_new (h : Header) (payload : Bytes) (hv : h.version ≠ vOld) :
    Rd.seekTo (encode h payload) (36 + h.gap.length) = payload := by
  have he : encode h payload = (magic ++ putU32le h.version ++ putU32le h.unkOffset ++
      putU32le (UInt32.ofNat (36 + h.gap.length)) ++ putU32le h.unk ++ putU32le h.bodyId ++ putU32le h.mapper1 ++
      putU32le h.mapper2 ++ putU32le h.mapper3 ++ h.gap) ++ payload := by
    simp only [encode, hv, if_false]
  have hl : (magic ++ putU32le h.version ++ putU32le h.unkOffset ++
      putU32le (UInt32.ofNat (36 + h.gap.length)) ++ putU32le h.unk ++ putU32le h.bodyId ++ putU32le h.mapper1 ++
      putU32le h.mapper2 ++ putU32le h.mapper3 ++ h.gap).length = 36 + h.gap.length := by
    simp only [List.length_append, magic, List.length_cons, List.length_nil, putU32le_length]
  rw [he]
  exact seek_prefix _ _ _ hl

/-- both container versions: `raw_data` is exactly the payload -/
theorem fromExisting_encode (h : Header) (payload : Bytes) (hw : h.WF) :
    fromExisting (encode h payload) =
      match Havok.read payload with
      | none => .none
      | some objs =>
        match Havok.extract objs with
        | .bones l => .ok l
        | .reject => .none
        | .unmodelled => .unmodelled := by
  rcases hw with ⟨hv, hg⟩ | ⟨hv, hg⟩
  · simp only [fromExisting, fromExistingWith, havokOffset_old h payload hv hg, seek_old h payload hv]
    rfl
  · have hne : h.version ≠ vOld := by rcases hv with hv | hv <;> rw [hv] <;> decide
    simp only [fromExisting, fromExistingWith, havokOffset_new h payload hv hg, seek_new h payload hne]
    rfl

end Physis.Sklb
