import PhysisModel.Proofs.Fs
import PhysisModel.Proofs.PatchBytes
import PhysisModel.Proofs.PatchStream
import PhysisModel.Spec.ZiPatchCreate
/-! C04: applying the patch that `create` writes. -/
set_option linter.unusedSimpArgs false
namespace Physis.Patch
open Physis Physis.Fs

/-! ### path strings -/

theorem splitSlash_ne_nil (s : Bytes) : splitSlash s ≠ [] := by
  induction s with
  | nil => simp [splitSlash]
  | cons b r ih =>
    simp only [splitSlash]
    split
    · simp
    · split <;> simp

theorem splitSlash_noSlash (c : Bytes) (h : ∀ b ∈ c, b ≠ 0x2f) : splitSlash c = [c] := by
  induction c with
  | nil => rfl
  | cons b r ih =>
    have hr := ih (fun x hx => h x (List.mem_cons_of_mem _ hx))
    have hb : b ≠ 0x2f := h b (List.mem_cons_self ..)
    simp [splitSlash, hr, hb]

theorem splitSlash_append (c r : Bytes) (h : ∀ b ∈ c, b ≠ 0x2f) :
    splitSlash (c ++ 0x2f :: r) = c :: splitSlash r := by
  induction c with
  | nil =>
    simp only [List.nil_append, splitSlash]
    split
    · rename_i h0; exact absurd h0 (splitSlash_ne_nil r)
    · rename_i c cs h0; simp [h0]
  | cons b c ih =>
    have hr := ih (fun x hx => h x (List.mem_cons_of_mem _ hx))
    have hb : b ≠ 0x2f := h b (List.mem_cons_self ..)
    simp [splitSlash, hr, hb]

theorem splitSlash_joinSlash (p : Path) (hne : p ≠ []) (h : ∀ c ∈ p, ∀ b ∈ c, b ≠ 0x2f) :
    splitSlash (joinSlash p) = p := by
  induction p with
  | nil => exact absurd rfl hne
  | cons c r ih =>
    cases r with
    | nil => simpa [joinSlash] using splitSlash_noSlash c (h c (List.mem_cons_self ..))
    | cons d r =>
      simp only [joinSlash]
      rw [splitSlash_append c _ (h c (List.mem_cons_self ..))]
      rw [ih (by simp) (fun x hx => h x (List.mem_cons_of_mem _ hx))]

theorem dropWhile_zero_id (s : Bytes) (h : ∀ b ∈ s, b ≠ 0) : s.dropWhile (· = 0) = s := by
  cases s with
  | nil => rfl
  | cons a r => simp [h a (List.mem_cons_self ..)]

theorem trimNul_nul (s : Bytes) (h : ∀ b ∈ s, b ≠ 0) : trimNul (s ++ [0]) = s := by
  unfold trimNul
  have h1 : (s ++ [0]).dropWhile (· = 0) = if s = [] then [] else s ++ [0] := by
    cases s with
    | nil => simp
    | cons a r => simp [h a (List.mem_cons_self ..)]
  rw [h1]
  by_cases e : s = []
  · simp [e]
  · simp only [e, ↓reduceIte, List.reverse_append, List.reverse_cons, List.reverse_nil, List.nil_append,
      List.singleton_append, List.dropWhile_cons, decide_true]
    rw [dropWhile_zero_id _ (by intro b hb; exact h b (by simpa using hb))]
    simp

theorem readString_nul (s : Bytes) (h : ∀ b ∈ s, b ≠ 0 ∧ b < 128) :
    readString (s ++ [0]) = some s := by
  have h0 : (s ++ [0]).all (· < 128) = true := by
    simp only [List.all_eq_true, List.mem_append, List.mem_singleton, decide_eq_true_eq]
    intro b hb
    rcases hb with hb | hb
    · exact (h b hb).2
    · subst hb; decide
  simp [readString, h0, trimNul_nul s (fun b hb => (h b hb).1)]

/-! ### reading back what `create` wrote -/

theorem rdString_nul (n : Nat) (s rest : Bytes) (hn : n = s.length + 1) (h : ∀ b ∈ s, b ≠ 0 ∧ b < 128) :
    rdString n (s ++ [0] ++ rest) = .ok s rest := by
  have : rdN n ((s ++ [0]) ++ rest) = some (s ++ [0], rest) := rdN_append' n _ _ (by simp [hn])
  simp only [rdString, this, readString_nul s h]

theorem rdChunkBody_fileOpChunk (op : UInt8) (fo : FileOp) (hop : fileOpOf op = some fo) (size : Nat)
    (path rest : Bytes) (hp : ∀ b ∈ path, b ≠ 0 ∧ b < 128) (hl : path.length + 1 < 2 ^ 32) :
    rdChunkBody (fileOpChunk op size path ++ rest) =
      .ok (.fileOp fo 0 (UInt64.ofNat size) 0 path) rest := by
  have hn : (UInt32.ofNat (path.length + 1)).toNat = path.length + 1 := by
    simp [UInt32.toNat_ofNat']; omega
  have hs := rdString_nul _ path rest hn hp
  simp only [List.append_assoc, List.cons_append, List.nil_append] at hs
  simp (config := {decide := true}) only [fileOpChunk, rdChunkBody, List.append_assoc, rdU32be_put, tagSQPK, tagFHDR, tagAPLY, tagADIR,
    tagDELD, List.cons_append, List.nil_append, List.take_succ_cons, List.take_zero, List.drop_succ_cons,
    List.drop_zero]
  simp (config := {decide := true}) only [↓reduceIte, rdSqpk, rdU32be_put, rdU8_cons, List.drop_succ_cons, List.drop_zero,
    hop, rdU64be_put, rdU16be_put, Option.bind_eq_bind, Option.bind_some, Option.pure_def, hs]

open Spec.ZiPatchCreate in
theorem compOk_facts (c : Bytes) (h : compOk c = true) :
    c ≠ [] ∧ c ≠ [0x2e] ∧ ∀ b ∈ c, b ≠ 0 ∧ b ≠ 0x2f ∧ b < 128 := by
  simp only [compOk, Bool.and_eq_true, Bool.not_eq_true', List.isEmpty_eq_false_iff, List.all_eq_true,
    decide_eq_true_eq, ne_eq] at h
  obtain ⟨⟨⟨h1, h2⟩, h3⟩, _⟩ := h
  exact ⟨h1, h3, fun b hb => by have := h2 b hb; simp_all⟩

open Spec.ZiPatchCreate in
theorem pathOk_facts (p : Path) (h : pathOk p = true) :
    p ≠ [] ∧ ∀ c ∈ p, c ≠ [] ∧ c ≠ [0x2e] ∧ ∀ b ∈ c, b ≠ 0 ∧ b ≠ 0x2f ∧ b < 128 := by
  simp only [pathOk, Bool.and_eq_true, Bool.not_eq_true', List.isEmpty_eq_false_iff, List.all_eq_true] at h
  exact ⟨h.1, fun c hc => compOk_facts c (h.2 c hc)⟩

theorem joinSlash_bytes (p : Path) (P : UInt8 → Prop) (h0 : P 0x2f) (h : ∀ c ∈ p, ∀ b ∈ c, P b) :
    ∀ b ∈ joinSlash p, P b := by
  induction p with
  | nil => simp [joinSlash]
  | cons c r ih =>
    cases r with
    | nil => simpa [joinSlash] using h c (List.mem_cons_self ..)
    | cons d r =>
      intro b hb
      simp only [joinSlash, List.mem_append, List.mem_cons] at hb
      rcases hb with hb | hb | hb
      · exact h c (List.mem_cons_self ..) b hb
      · subst hb; exact h0
      · exact ih (fun x hx => h x (List.mem_cons_of_mem _ hx)) b hb

open Spec.ZiPatchCreate in
theorem pathComps_join (p : Path) (h : pathOk p = true) : pathComps (joinSlash p) = (p.dropLast, p) := by
  obtain ⟨hne, hc⟩ := pathOk_facts p h
  have hs := splitSlash_joinSlash p hne (fun c hc' b hb => ((hc c hc').2.2 b hb).2.1)
  have hf : ∀ l : Path, (∀ c ∈ l, c ∈ p) → l.filter (fun c => !c.isEmpty && decide (c ≠ [0x2e])) = l := by
    intro l hl
    apply List.filter_eq_self.mpr
    intro c hc'
    have := hc c (hl c hc')
    simp [this.1, this.2.1]
  simp only [pathComps, hs]
  rw [hf p (fun _ h => h), hf p.dropLast (fun c hc' => (List.dropLast_sublist p).subset hc')]

theorem joinSlash_ascii (p : Path) (h : Spec.ZiPatchCreate.pathOk p = true) :
    ∀ b ∈ joinSlash p, b ≠ 0 ∧ b < 128 := by
  obtain ⟨_, hc⟩ := pathOk_facts p h
  exact joinSlash_bytes p (fun b => b ≠ 0 ∧ b < 128) (by decide)
    (fun c hc' b hb => ⟨((hc c hc').2.2 b hb).1, ((hc c hc').2.2 b hb).2.2⟩)

/-! ### the chunk loop on created chunks -/

/-- what an AddFile at offset 0 leaves once the parent directories exist -/
def addW (t1 : Tree) (p : Path) (d : Bytes) : Tree :=
  match openCreate t1 p with
  | none => t1
  | some t2 => modifyFile t2 p (fun _ => d)

theorem writeAt_nil_zero (d : Bytes) : writeAt [] 0 d = d := by
  unfold writeAt
  split
  · rename_i h; simp at h; simp [h]
  · simp [zeros]

theorem blockGap_length (d : Bytes) : (blockGap d).length = 4 := by
  simp [blockGap, putU32le, zeros]; omega

theorem writeDataBlockPatch_length (d : Bytes) : (writeDataBlockPatch d).length = 16 + d.length := by
  simp [writeDataBlockPatch]; omega

theorem readBlocks_one (inflate : Bytes → Nat → Option Bytes) (fuel : Nat) (d rest : Bytes) (hf : 2 ≤ fuel)
    (hd0 : 0 < d.length) (hd : d.length < 2 ^ 31) (hpeek : 4 ≤ d.length + rest.length) :
    readBlocks inflate fuel (writeDataBlockPatch d ++ rest) d.length [] = some (d, rest) := by
  obtain ⟨k, rfl⟩ : ∃ k, fuel = k + 2 := ⟨fuel - 2, by omega⟩
  simp [readBlocks, hd0, readDataBlockPatch_write inflate d rest hd hpeek]

theorem applyLoop_add (inflate : Bytes → Nat → Option Bytes) (fuel : Nat) (p : Path) (d rest : Bytes)
    (ti : Option UInt8) (t t1 : Tree)
    (hp : Spec.ZiPatchCreate.pathOk p = true) (hd0 : 0 < d.length) (hd : d.length < 2 ^ 31)
    (hl : (joinSlash p).length + 1 < 2 ^ 32) (hmk : mkdirAll t [] p.dropLast = some t1) :
    applyLoop inflate (fuel + 1)
      (fileOpChunk 0x41 d.length (joinSlash p) ++ writeDataBlockPatch d ++ blockGap d ++ rest) ti t =
    applyLoop inflate fuel rest ti (addW t1 p d) := by
  have hsz : (UInt64.ofNat d.length).toNat = d.length := by simp [UInt64.toNat_ofNat']; omega
  have hrb := readBlocks_one inflate ((writeDataBlockPatch d ++ (blockGap d ++ rest)).length + 1) d
    (blockGap d ++ rest) (by simp [writeDataBlockPatch_length]; omega) hd0 hd (by simp [blockGap_length]; omega)
  have hlen : ¬ (writeDataBlockPatch d ++ (blockGap d ++ rest)).length < 4 := by
    simp [writeDataBlockPatch_length]; omega
  have hdrop : (blockGap d ++ rest).drop 4 = rest := by
    rw [← blockGap_length d]; simp
  rw [applyLoop, List.append_assoc, List.append_assoc,
    rdChunkBody_fileOpChunk 0x41 .addFile (by decide) d.length (joinSlash p) _ (joinSlash_ascii p hp) hl]
  simp only [hlen, ↓reduceIte, pathComps_join p hp, hmk, hsz,
    addFileBlocks_of_readBlocks inflate p 0 d.length _ _ d (blockGap d ++ rest) t1 hrb]
  unfold addW
  cases ho : openCreate t1 p with
  | none => simp [hdrop]
  | some t2 => simp [hdrop, writeAt_nil_zero]

/-- what a DeleteFile leaves -/
def delW (t : Tree) (p : Path) : Tree := if isFile t p then erase t p else t

theorem applyLoop_del (inflate : Bytes → Nat → Option Bytes) (fuel : Nat) (p : Path) (rest : Bytes)
    (ti : Option UInt8) (t : Tree) (hp : Spec.ZiPatchCreate.pathOk p = true)
    (hl : (joinSlash p).length + 1 < 2 ^ 32) :
    applyLoop inflate (fuel + 1) (fileOpChunk 0x44 0 (joinSlash p) ++ [0, 0, 0, 0] ++ rest) ti t =
    applyLoop inflate fuel rest ti (delW t p) := by
  rw [applyLoop, List.append_assoc,
    rdChunkBody_fileOpChunk 0x44 .deleteFile (by decide) 0 (joinSlash p) _ (joinSlash_ascii p hp) hl]
  simp [applyChunk, pathComps_join p hp, delW]
  intro h; omega

theorem applyLoop_eof (inflate : Bytes → Nat → Option Bytes) (fuel : Nat) (ti : Option UInt8) (t : Tree) :
    applyLoop inflate (fuel + 1) eofChunk ti t = (.ok, t) := by
  rw [applyLoop]
  simp (config := {decide := true}) only [eofChunk, rdChunkBody, rdU32be_put, tagEOF, tagSQPK, tagFHDR, tagAPLY,
    tagADIR, tagDELD, List.take_succ_cons, List.take_zero, List.take_nil, ↓reduceIte, List.drop_succ_cons,
    List.drop_zero]

theorem get_addW (t1 : Tree) (p : Path) (d : Bytes) (hne : p ≠ []) (hnd : get t1 p ≠ some .dir)
    (hpar : isDir t1 p.dropLast = true) (q : Path) :
    get (addW t1 p d) q = if p = q then some (.file d) else get t1 q := by
  unfold addW openCreate
  cases p with
  | nil => exact absurd rfl hne
  | cons c r =>
    simp only
    cases hg : get t1 (c :: r) with
    | none =>
      simp [hpar, modifyFile, get_set]
      by_cases e : c :: r = q <;> simp [e]
    | some n =>
      cases n with
      | dir => exact absurd hg hnd
      | file old => simp [modifyFile, hg, get_set]

theorem get_delW (t : Tree) (p q : Path) :
    fileAt (delW t p) q = if q = p then none else fileAt t q := by
  unfold delW
  by_cases h : isFile t p = true
  · simp only [h, ↓reduceIte, fileAt, get_erase]
    by_cases e : q = p <;> simp [e]
  · simp only [h]
    by_cases e : q = p
    · subst e
      simp only [isFile] at h
      simp only [fileAt]
      split <;> simp_all
    · simp [e]

/-! ### the tree invariant while the added files are written -/

open Spec.ZiPatchCreate

theorem mem_parents (p q : Path) : q ∈ parents p ↔ ∃ k, 0 < k ∧ k < p.length ∧ q = p.take k := by
  simp only [parents, List.mem_filterMap, List.mem_range]
  constructor
  · rintro ⟨k, hk, h⟩
    by_cases e : k = 0
    · simp [e] at h
    · simp [e] at h; exact ⟨k, by omega, hk, h.symm⟩
  · rintro ⟨k, h0, hk, rfl⟩
    exact ⟨k, hk, by simp [show k ≠ 0 by omega]⟩

theorem isFile_eq (t : Tree) (p : Path) : isFile t p = (fileAt t p).isSome := by
  simp only [isFile, fileAt]; split <;> simp_all

theorem take_dropLast (p : Path) (k : Nat) (hk : k ≤ p.length - 1) : p.dropLast.take k = p.take k := by
  rw [List.dropLast_eq_take, List.take_take]; congr 1; omega

/-- the decidable input conditions, as propositions -/
structure Hyp (A : Tree) (lb : List (Path × Bytes)) : Prop where
  uniq : ∀ p d d', (p, d) ∈ lb → (p, d') ∈ lb → d = d'
  pf : ∀ e ∈ lb, ∀ q ∈ parents e.1, ∀ f ∈ lb, f.1 ≠ q
  compat : ∀ e ∈ lb, get A e.1 ≠ some .dir ∧ ∀ q ∈ parents e.1, isFile A q = false
  ok : ∀ e ∈ lb, pathOk e.1 = true

structure Inv (A : Tree) (lb S : List (Path × Bytes)) (t : Tree) : Prop where
  done : ∀ e ∈ S, fileAt t e.1 = some e.2
  rest : ∀ q, (∀ e ∈ S, e.1 ≠ q) → fileAt t q = fileAt A q
  dirs : ∀ q, get t q = some .dir → get A q = some .dir ∨ ∃ e ∈ lb, q ∈ parents e.1

theorem Inv.step {A : Tree} {lb S : List (Path × Bytes)} {t : Tree} (H : Hyp A lb) (I : Inv A lb S t)
    (hS : ∀ e ∈ S, e ∈ lb) (p : Path) (d : Bytes) (hpd : (p, d) ∈ lb) :
    ∃ t1, mkdirAll t [] p.dropLast = some t1 ∧ Inv A lb ((p, d) :: S) (addW t1 p d) := by
  have hpok := pathOk_facts p (H.ok _ hpd)
  have hne : p ≠ [] := hpok.1
  -- no parent of `p` is a regular file in `t`
  have hparF : ∀ r ∈ parents p, isFile t r = false := by
    intro r hr
    by_cases hin : ∃ e ∈ S, e.1 = r
    · obtain ⟨e, he, rfl⟩ := hin
      exact absurd rfl (H.pf _ hpd _ hr e (hS e he))
    · have : fileAt t r = fileAt A r := I.rest r (fun e he h => hin ⟨e, he, h⟩)
      have h2 := (H.compat _ hpd).2 r hr
      rw [isFile_eq] at h2 ⊢
      rw [this]; exact h2
  obtain ⟨t1, hmk⟩ := mkdirAll_ok t [] p.dropLast (by
    intro k hk hk2
    have hlen : p.dropLast.length = p.length - 1 := by simp
    rw [List.nil_append, take_dropLast p k (by omega)]
    have hpl : 0 < p.length := List.length_pos_iff.mpr hne
    exact hparF _ ((mem_parents p _).mpr ⟨k, hk, by omega, rfl⟩))
  refine ⟨t1, hmk, ?_⟩
  -- directories of `t1`
  have hdirs1 : ∀ q, get t1 q = some .dir → get t q = some .dir ∨ q ∈ parents p := by
    intro q hq
    by_cases hk : ∃ k, 0 < k ∧ k ≤ p.dropLast.length ∧ q = [] ++ p.dropLast.take k
    · obtain ⟨k, h0, hk, rfl⟩ := hk
      right
      have hlen : p.dropLast.length = p.length - 1 := by simp
      have hpl : 0 < p.length := List.length_pos_iff.mpr hne
      rw [List.nil_append, take_dropLast p k (by omega)]
      exact (mem_parents p _).mpr ⟨k, h0, by omega, rfl⟩
    · left
      rw [← mkdirAll_frame t [] p.dropLast t1 hmk q (fun k h0 hk2 e => hk ⟨k, h0, hk2, e⟩)]
      exact hq
  have hnd : get t1 p ≠ some .dir := by
    intro hd
    rcases hdirs1 p hd with h | h
    · rcases I.dirs p h with h | ⟨e, he, h⟩
      · exact (H.compat _ hpd).1 h
      · exact H.pf e he p h (p, d) hpd rfl
    · obtain ⟨k, _, hk, e⟩ := (mem_parents p p).mp h
      have := congrArg List.length e
      simp at this; omega
  have hpar : isDir t1 p.dropLast = true := by
    cases hdl : p.dropLast with
    | nil => rfl
    | cons c r =>
      have := mkdirAll_made t [] p.dropLast t1 hmk p.dropLast.length (by rw [hdl]; simp) (Nat.le_refl _)
      simp only [List.nil_append, List.take_length] at this
      rw [hdl] at this
      simp [isDir, this]
  have hget := get_addW t1 p d hne hnd hpar
  have hfile : ∀ q, fileAt (addW t1 p d) q = if p = q then some d else fileAt t q := by
    intro q
    simp only [fileAt, hget q]
    by_cases e : p = q
    · simp [e]
    · have := mkdirAll_fileAt t [] p.dropLast t1 hmk q
      simp only [fileAt] at this
      simp [e, this]
  constructor
  · intro e he
    rw [hfile]
    rcases List.mem_cons.mp he with rfl | he
    · simp
    · by_cases e' : p = e.1
      · have := H.uniq p d e.2 hpd (by rw [e']; exact hS e he)
        simp [e', this]
      · simp [e', I.done e he]
  · intro q hq
    rw [hfile]
    have : p ≠ q := hq (p, d) (List.mem_cons_self ..)
    simp only [this, ↓reduceIte]
    exact I.rest q (fun e he => hq e (List.mem_cons_of_mem _ he))
  · intro q hq
    rw [hget] at hq
    by_cases e : p = q
    · simp [e] at hq
    · simp only [e, ↓reduceIte] at hq
      rcases hdirs1 q hq with h | h
      · exact I.dirs q h
      · exact Or.inr ⟨(p, d), hpd, h⟩

theorem Inv.congr {A : Tree} {lb S S' : List (Path × Bytes)} {t : Tree} (h : ∀ x, x ∈ S ↔ x ∈ S')
    (I : Inv A lb S t) : Inv A lb S' t :=
  ⟨fun e he => I.done e ((h e).mpr he), fun q hq => I.rest q (fun e he => hq e ((h e).mp he)), I.dirs⟩

def encAdd (e : Path × Bytes) : Bytes :=
  fileOpChunk 0x41 e.2.length (joinSlash e.1) ++ writeDataBlockPatch e.2 ++ blockGap e.2
def encDel (e : Path × Bytes) : Bytes := fileOpChunk 0x44 0 (joinSlash e.1) ++ [0, 0, 0, 0]

/-- sizes that fit the fields `create` writes them into -/
def SizesOk (l : List (Path × Bytes)) : Prop :=
  ∀ e ∈ l, e.2.length < 2 ^ 31 ∧ (joinSlash e.1).length + 1 < 2 ^ 32

theorem adds_loop (inflate : Bytes → Nat → Option Bytes) {A : Tree} {lb : List (Path × Bytes)} (H : Hyp A lb)
    (hne : ∀ e ∈ lb, 0 < e.2.length) (hsz : SizesOk lb)
    (l : List (Path × Bytes)) (hl : ∀ e ∈ l, e ∈ lb) (S : List (Path × Bytes)) (hS : ∀ e ∈ S, e ∈ lb)
    (t : Tree) (I : Inv A lb S t) (rest : Bytes) (fuel : Nat) (ti : Option UInt8) :
    ∃ t', Inv A lb (l.reverse ++ S) t' ∧
      applyLoop inflate (fuel + l.length) ((l.map encAdd).flatten ++ rest) ti t =
        applyLoop inflate fuel rest ti t' := by
  induction l generalizing S t with
  | nil => exact ⟨t, by simpa using I, by simp⟩
  | cons e l ih =>
    obtain ⟨p, d⟩ := e
    have hpd : (p, d) ∈ lb := hl _ (List.mem_cons_self ..)
    obtain ⟨t1, hmk, I'⟩ := I.step H hS p d hpd
    obtain ⟨t', I'', heq⟩ := ih (fun e he => hl e (List.mem_cons_of_mem _ he)) ((p, d) :: S)
      (by intro e he; rcases List.mem_cons.mp he with rfl | he; exact hpd; exact hS e he) (addW t1 p d) I'
    refine ⟨t', by simpa using I'', ?_⟩
    rw [← heq]
    have := applyLoop_add inflate (fuel + l.length) p d ((l.map encAdd).flatten ++ rest) ti t t1 (H.ok _ hpd)
      (hne _ hpd) (hsz _ hpd).1 (hsz _ hpd).2 hmk
    simp only [List.map_cons, List.flatten_cons, List.length_cons, encAdd, List.append_assoc] at this ⊢
    rw [← this]; rfl

theorem dels_loop (inflate : Bytes → Nat → Option Bytes) (l : List (Path × Bytes))
    (hok : ∀ e ∈ l, pathOk e.1 = true) (hsz : SizesOk l) (t : Tree) (rest : Bytes) (fuel : Nat)
    (ti : Option UInt8) :
    applyLoop inflate (fuel + l.length) ((l.map encDel).flatten ++ rest) ti t =
      applyLoop inflate fuel rest ti (l.foldl (fun t e => delW t e.1) t) := by
  induction l generalizing t with
  | nil => simp
  | cons e l ih =>
    have := applyLoop_del inflate (fuel + l.length) e.1 ((l.map encDel).flatten ++ rest) ti t
      (hok _ (List.mem_cons_self ..)) (hsz _ (List.mem_cons_self ..)).2
    simp only [List.map_cons, List.flatten_cons, List.length_cons, encDel, List.append_assoc, List.foldl_cons] at this ⊢
    rw [← ih (fun e he => hok e (List.mem_cons_of_mem _ he)) (fun e he => hsz e (List.mem_cons_of_mem _ he))]
    rw [← this]; rfl

theorem fileAt_dels (l : List (Path × Bytes)) (t : Tree) (q : Path) :
    fileAt (l.foldl (fun t e => delW t e.1) t) q = if (∃ e ∈ l, e.1 = q) then none else fileAt t q := by
  induction l generalizing t with
  | nil => simp
  | cons e l ih =>
    simp only [List.foldl_cons, ih, get_delW]
    by_cases h1 : ∃ x ∈ l, x.1 = q
    · have : ∃ x ∈ e :: l, x.1 = q := by obtain ⟨x, hx, h⟩ := h1; exact ⟨x, List.mem_cons_of_mem _ hx, h⟩
      simp [h1, this]
    · by_cases h2 : q = e.1
      · have : ∃ x ∈ e :: l, x.1 = q := ⟨e, List.mem_cons_self .., h2.symm⟩
        simp [h1, h2, this]
      · have : ¬ ∃ x ∈ e :: l, x.1 = q := by
          rintro ⟨x, hx, h⟩
          rcases List.mem_cons.mp hx with rfl | hx
          · exact h2 h.symm
          · exact h1 ⟨x, hx, h⟩
        simp [h1, h2, this]
        intro h; exact absurd h.symm h2

/-! ### the whole patch -/

theorem lookupFile_mem (l : List (Path × Bytes)) (p : Path) (d : Bytes) (h : lookupFile l p = some d) :
    (p, d) ∈ l := by
  induction l with
  | nil => simp [lookupFile] at h
  | cons e r ih =>
    obtain ⟨q, x⟩ := e
    simp only [lookupFile] at h
    by_cases e : q = p
    · simp [e] at h; simp [e, h]
    · simp [e] at h; exact List.mem_cons_of_mem _ (ih h)

theorem lookupFile_of_mem (l : List (Path × Bytes)) (p : Path) (d : Bytes) (h : (p, d) ∈ l) :
    ∃ d', lookupFile l p = some d' := by
  induction l with
  | nil => simp at h
  | cons e r ih =>
    obtain ⟨q, x⟩ := e
    simp only [lookupFile]
    by_cases e : q = p
    · simp [e]
    · rcases List.mem_cons.mp h with h | h
      · simp at h; exact absurd h.1.symm e
      · simp [e, ih h]

theorem hasPath_iff (l : List (Path × Bytes)) (p : Path) : hasPath l p = true ↔ ∃ e ∈ l, e.1 = p := by
  simp [hasPath]

theorem flatten_map_length_ge {α : Type} (l : List α) (f : α → Bytes) (h : ∀ e, 0 < (f e).length) :
    l.length ≤ (l.map f).flatten.length := by
  induction l with
  | nil => simp
  | cons e r ih => have := h e; simp only [List.map_cons, List.flatten_cons, List.length_append, List.length_cons]; omega

theorem fileOpChunk_length_pos (op : UInt8) (n : Nat) (s : Bytes) : 0 < (fileOpChunk op n s).length := by
  simp [fileOpChunk]; omega

theorem create_apply (inflate : Bytes → Nat → Option Bytes) (A : Tree) (la lb : List (Path × Bytes))
    (H : Hyp A lb) (hla : ∀ p d, (p, d) ∈ la ↔ fileAt A p = some d)
    (hokA : ∀ e ∈ la, pathOk e.1 = true) (hne : ∀ e ∈ lb, 0 < e.2.length)
    (hszA : SizesOk la) (hszB : SizesOk lb) :
    ∃ T, apply inflate (create la lb) A = (.ok, T) ∧ ∀ p d, fileAt T p = some d ↔ (p, d) ∈ lb := by
  have hlook : ∀ p d, lookupFile la p = some d ↔ fileAt A p = some d := by
    intro p d
    constructor
    · intro h; exact (hla p d).mp (lookupFile_mem la p d h)
    · intro h
      obtain ⟨d', hd'⟩ := lookupFile_of_mem la p d ((hla p d).mpr h)
      have := (hla p d').mp (lookupFile_mem la p d' hd')
      rw [h] at this; cases this; exact hd'
  have hadd : ∀ e, e ∈ addedFiles la lb ↔ e ∈ lb ∧ fileAt A e.1 ≠ some e.2 := by
    intro e
    simp only [addedFiles, List.mem_filter, Bool.and_eq_true, Bool.not_eq_true', Bool.and_eq_false_iff,
      decide_eq_true_eq, beq_eq_false_iff_ne, ne_eq]
    constructor
    · rintro ⟨he, h, _⟩
      refine ⟨he, fun hf => ?_⟩
      have hl := (hlook e.1 e.2).mpr hf
      rcases h with h | h
      · have : hasPath la e.1 = true := (hasPath_iff la e.1).mpr ⟨(e.1, e.2), lookupFile_mem la _ _ hl, rfl⟩
        rw [this] at h; cases h
      · exact h hl
    · rintro ⟨he, h⟩
      exact ⟨he, Or.inr (fun hl => h ((hlook e.1 e.2).mp hl)), hne e he⟩
  have hrem : ∀ e, e ∈ removedFiles la lb ↔ e ∈ la ∧ ¬ ∃ f ∈ lb, f.1 = e.1 := by
    intro e
    simp only [removedFiles, List.mem_filter, Bool.not_eq_true', ← Bool.not_eq_true, hasPath_iff]
  -- run the loop
  have hI0 : Inv A lb [] A := ⟨by simp, fun q _ => rfl, fun q h => Or.inl h⟩
  have hlenA := flatten_map_length_ge (addedFiles la lb) encAdd (fun e => by
    simp only [encAdd, List.length_append]; have := fileOpChunk_length_pos 0x41 e.2.length (joinSlash e.1); omega)
  have hlenD := flatten_map_length_ge (removedFiles la lb) encDel (fun e => by
    simp only [encDel, List.length_append]; have := fileOpChunk_length_pos 0x44 0 (joinSlash e.1); omega)
  have hcreate : create la lb = patchHeader ++ (((addedFiles la lb).map encAdd).flatten ++
      (((removedFiles la lb).map encDel).flatten ++ eofChunk)) := by
    have e1 : encAdd = fun e => fileOpChunk 0x41 e.2.length (joinSlash e.1) ++ writeDataBlockPatch e.2 ++ blockGap e.2 := rfl
    have e2 : encDel = fun e => fileOpChunk 0x44 0 (joinSlash e.1) ++ [0, 0, 0, 0] := rfl
    rw [e1, e2]; simp only [create, List.append_assoc]
  obtain ⟨k, hk⟩ : ∃ k, (create la lb).length = k + 1 + (removedFiles la lb).length + (addedFiles la lb).length :=
    ⟨(create la lb).length - 1 - (removedFiles la lb).length - (addedFiles la lb).length, by
      rw [hcreate]; simp only [List.length_append, patchHeader, eofChunk, List.length_cons, List.length_nil]; omega⟩
  obtain ⟨T1, I1, h1⟩ := adds_loop inflate H hne hszB (addedFiles la lb) (fun e he => ((hadd e).mp he).1) [] (by simp)
    A hI0 (((removedFiles la lb).map encDel).flatten ++ eofChunk) (k + 1 + (removedFiles la lb).length) none
  have h2 := dels_loop inflate (removedFiles la lb) (fun e he => hokA e ((hrem e).mp he).1)
    (fun e he => hszA e ((hrem e).mp he).1) T1 eofChunk (k + 1) none
  refine ⟨(removedFiles la lb).foldl (fun t e => delW t e.1) T1, ?_, ?_⟩
  · have hh : rdPatchHeader (create la lb) = some (((addedFiles la lb).map encAdd).flatten ++
        (((removedFiles la lb).map encDel).flatten ++ eofChunk)) := by
      rw [hcreate]; simp [rdPatchHeader, patchHeader]
    simp only [apply, hh, hk]
    rw [h1, h2, applyLoop_eof]
  · intro q d
    rw [fileAt_dels]
    by_cases hr : ∃ e ∈ removedFiles la lb, e.1 = q
    · simp only [hr, ↓reduceIte]
      obtain ⟨e, he, rfl⟩ := hr
      constructor
      · intro h; cases h
      · intro h; exact absurd ⟨(e.1, d), h, rfl⟩ ((hrem e).mp he).2
    · simp only [hr, ↓reduceIte]
      by_cases ha : ∃ e ∈ addedFiles la lb, e.1 = q
      · obtain ⟨e, he, rfl⟩ := ha
        rw [I1.done e (by simpa using he)]
        have heb := ((hadd e).mp he).1
        constructor
        · intro h; cases h; exact heb
        · intro h; rw [H.uniq e.1 d e.2 h heb]
      · rw [I1.rest q (fun e he h => ha ⟨e, by simpa using he, h⟩)]
        constructor
        · intro h
          -- a file of A that was not removed is a file of B; it was not added, so B has the same content
          have hin : ∃ f ∈ lb, f.1 = q := by
            apply Classical.byContradiction
            intro hno
            exact hr ⟨(q, d), (hrem (q, d)).mpr ⟨(hla q d).mpr h, hno⟩, rfl⟩
          obtain ⟨f, hf, rfl⟩ := hin
          have : fileAt A f.1 = some f.2 := by
            apply Classical.byContradiction
            intro hno
            exact ha ⟨f, (hadd f).mpr ⟨hf, hno⟩, rfl⟩
          rw [this] at h; cases h; exact hf
        · intro h
          apply Classical.byContradiction
          intro hno
          exact ha ⟨(q, d), (hadd (q, d)).mpr ⟨h, hno⟩, rfl⟩

end Physis.Patch
